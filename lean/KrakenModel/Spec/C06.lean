import KrakenModel.Proof.C06Sys
import KrakenModel.Proof.C06Restart
/-
  C06  The disk blob store restores its state after a crash at any point.

  Statements about `Model.DiskCrash` (lib/store/disk: store.go, crash_recovery.go, pather.go), tied to
  the code by the plan and recovery correspondence of harness/lib/store/disk/zz_verif_c06_test.go.

  A history is any list of actions: an operation that completes, an operation cut off after `k` of
  its file-system calls (process crash), `disk.NewStore` completing, `disk.NewStore` cut off after `k`
  calls.  Quantifiers: every configuration (`RebootIncompleteBlobs`, shard length, capacity), every
  history, every operation, every crash point `k`, every removal order (`Order`), every
  modification-time order `mt`, every admissible `RemoveAll(incomplete)` sequence `rm`.
-/
namespace KrakenModel.Spec.C06
open KrakenModel KrakenModel.FS KrakenModel.DiskCrash

/-- the tree a crash leaves: `k` calls of the operation's plan have happened -/
def crashFS (cfg : Cfg) (ord : Order Name) (m : Mem) (fs : FS Name) (o : Op) (k : Nat) : FS Name :=
  applyPrefix k (plan cfg ord m fs o) fs

/-- the tree after `disk.NewStore` ran on `fs` -/
def afterReboot (cfg : Cfg) (ord : Order Name) (mt : List Key) (rm : List (Call Name)) (fs : FS Name) : FS Name :=
  applyAll fs (rebootRun cfg ord mt rm fs).calls

/-- **C06 (0)** The store's in-memory state and its directory tree agree after every history of
operations, crashes (at any call of any operation or of the constructor) and restarts. -/
theorem invariant_after_every_history (cfg : Cfg) (hist : List Act)
    (hw : (sys cfg).WFHist (ActPre cfg) (sys cfg).init hist) : Good cfg ((sys cfg).run hist) :=
  good_run cfg hist hw

/-- **C06 (1)** Reopening succeeds.  After every history — in particular one that ends in a crash at
any call of any operation, or at any call of `disk.NewStore` itself — the constructor returns a store;
the only refusal left is the documented one: the blobs found on disk exceed the configured capacity
and nothing evictable is left (`errNoSpace`).  It never fails on what a crash left behind. -/
theorem reopen_succeeds (cfg : Cfg) (hist : List Act) (hw : (sys cfg).WFHist (ActPre cfg) (sys cfg).init hist)
    (ord : Order Name) (mt : List Key) (rm : List (Call Name))
    (hrm : cfg.reboot = false → validRm ((sys cfg).run hist).fs rm = true) :
    (∃ m', (rebootRun cfg ord mt rm ((sys cfg).run hist).fs).res = Except.ok m') ∨
    ((rebootRun cfg ord mt rm ((sys cfg).run hist).fs).res = Except.error RebootErr.noSpace ∧
      cfg.capacity < rebootSize cfg rm ((sys cfg).run hist).fs) := by
  have rok := reboot_ok (good_run cfg hist hw).fs ord mt rm hrm
  cases hr : (rebootRun cfg ord mt rm ((sys cfg).run hist).fs).res with
  | ok m' => exact Or.inl ⟨m', rfl⟩
  | error e =>
    right
    cases e with
    | panic => exact absurd hr rok.nopanic
    | noSpace =>
      refine ⟨rfl, ?_⟩
      apply Nat.lt_of_not_le
      intro hfit
      obtain ⟨m', h, _⟩ := rok.fits hfit
      rw [hr] at h; cases h

section Crash
variable (cfg : Cfg) (hist : List Act) (hw : (sys cfg).WFHist (ActPre cfg) (sys cfg).init hist)
  (m : Mem) (hm : ((sys cfg).run hist).mem = some m)
  (o : Op) (hp : OpPre cfg o) (ord : Order Name) (k : Nat)
  (ord' : Order Name) (mt : List Key) (rm : List (Call Name))
  (hrm : cfg.reboot = false → validRm (crashFS cfg ord m ((sys cfg).run hist).fs o k) rm = true)
  (hfit : rebootSize cfg rm (crashFS cfg ord m ((sys cfg).run hist).fs o k) ≤ cfg.capacity)
include hw hm hp hrm hfit

/-- **C06 (2)** Every blob completed before the crash and not being deleted (it is still in the store
had the operation completed) is listed as complete after reopening, and its bytes, eviction ban and
every metadata file are as before the operation or as after it. -/
theorem complete_blobs_survive (K : Key) (b bp : Blob)
    (hb : aget m.blobs K = some b) (hc : b.complete = true)
    (hpost : aget (exec cfg ord m ((sys cfg).run hist).fs o).mem.blobs K = some bp) :
    ∃ m', (rebootRun cfg ord' mt rm (crashFS cfg ord m ((sys cfg).run hist).fs o k)).res = Except.ok m' ∧
      ∃ b', aget m'.blobs K = some b' ∧ b'.complete = true ∧ (b'.banned = b.banned ∨ b'.banned = bp.banned) ∧
        BetweenAt (afterReboot cfg ord' mt rm (crashFS cfg ord m ((sys cfg).run hist).fs o k)) (dirPath cfg true K)
          ((sys cfg).run hist).fs (dirPath cfg true K)
          (applyAll ((sys cfg).run hist).fs (plan cfg ord m ((sys cfg).run hist).fs o)) (dirPath cfg bp.complete K) := by
  have G := good_run cfg hist hw
  have gm := G.mem m hm
  obtain ⟨m', h1, _, hpostg, hlook, hdirs, hview⟩ := crash_recover G.fs gm o hp ord k ord' mt rm hrm hfit
  refine ⟨m', h1, ?_⟩
  have g := gm.blob K b hb
  have gp := hpostg.blob K bp hpost
  have hv := hview K g.valid
  unfold CrashView at hv
  simp only [hb, hpost] at hv
  rcases hv with ⟨_, _, hbet, _⟩ | ⟨hf, _⟩
  · rw [hc] at hbet
    -- the blob file exists at the crash
    obtain ⟨dat, hdat⟩ : ∃ dat, (applyPrefix k (plan cfg ord m ((sys cfg).run hist).fs o) ((sys cfg).run hist).fs).file?
        (dirPath cfg true K) Name.data = some dat := by
      rcases hbet Name.data rfl with e | e
      · obtain ⟨dat, h⟩ := good_file_data g; rw [hc] at h; exact ⟨dat, by rw [e, h]⟩
      · obtain ⟨dat, h⟩ := good_file_data gp; exact ⟨dat, by rw [e, h]⟩
    have hl := hlook K g.valid
    rw [lookup_of_complete_data hdat] at hl
    refine ⟨_, hl, rfl, ?_, ?_⟩
    · simp only
      rcases hbet Name.ban rfl with e | e
      · left; rw [e]; have := good_file_ban g; rw [hc] at this; exact this
      · right; rw [e]; exact good_file_ban gp
    · have hd := hdirs K _ hl
      intro n hn
      rcases hbet n hn with e | e
      · left; rw [← e]; exact file?_congr hd n
      · right; rw [← e]; exact file?_congr hd n
  · rw [hc] at hf; cases hf

/-- **C06 (3)** Nothing incomplete is reported complete: a blob that is complete after reopening was
complete before the crash, or the operation in progress was its `MarkComplete`. -/
theorem nothing_incomplete_reported_complete (K : Key) (hv : ValidKey cfg K) :
    ∃ m', (rebootRun cfg ord' mt rm (crashFS cfg ord m ((sys cfg).run hist).fs o k)).res = Except.ok m' ∧
      ∀ b', aget m'.blobs K = some b' → b'.complete = true →
        ∃ b, aget m.blobs K = some b ∧ (b.complete = true ∨
          ∃ bp, aget (exec cfg ord m ((sys cfg).run hist).fs o).mem.blobs K = some bp ∧ bp.complete = true) := by
  have G := good_run cfg hist hw
  have gm := G.mem m hm
  obtain ⟨m', h1, hgm', hpostg, hlook, hdirs, hview⟩ := crash_recover G.fs gm o hp ord k ord' mt rm hrm hfit
  refine ⟨m', h1, ?_⟩
  intro b' hb' hc'
  -- a complete blob after reopening has its blob file in the complete directory at the crash
  have hcomp : ((applyPrefix k (plan cfg ord m ((sys cfg).run hist).fs o) ((sys cfg).run hist).fs).dir?
      (dirPath cfg true K)).isSome = true := by
    have hd := hdirs K b' hb'
    rw [hc'] at hd
    obtain ⟨d, hdd, _⟩ := (hgm'.blob K b' hb').dir
    rw [hc'] at hdd
    rw [← hd, hdd]; rfl
  have hvw := hview K hv
  unfold CrashView at hvw
  cases hb : aget m.blobs K with
  | none =>
    exfalso
    cases hpb : aget (exec cfg ord m ((sys cfg).run hist).fs o).mem.blobs K with
    | none => simp only [hb, hpb] at hvw; rw [hvw.2] at hcomp; cases hcomp
    | some bp => simp only [hb, hpb] at hvw; rw [hvw.1] at hcomp; cases hcomp
  | some b =>
    refine ⟨b, rfl, ?_⟩
    by_cases hc : b.complete = true
    · exact Or.inl hc
    · right
      have hcf : b.complete = false := by simpa using hc
      cases hpb : aget (exec cfg ord m ((sys cfg).run hist).fs o).mem.blobs K with
      | none =>
        simp only [hb, hpb, hcf, Bool.not_false] at hvw
        rw [hvw] at hcomp; cases hcomp
      | some bp =>
        simp only [hb, hpb] at hvw
        rcases hvw with ⟨h0, _⟩ | ⟨_, h2, _⟩
        · rw [hcf] at h0; simp only [Bool.not_false] at h0; rw [h0] at hcomp; cases hcomp
        · exact ⟨bp, rfl, h2⟩

/-- **C06 (4)** Incomplete blobs are restored with their reserved size, or dropped, as configured.
For a blob that is incomplete before the crash and not being deleted:
with `RebootIncompleteBlobs` it is listed after reopening — incomplete with exactly the size reserved
by `Create` (or already complete, if its `MarkComplete` was in progress) and with bytes, eviction ban
and metadata as before or after the operation; without `RebootIncompleteBlobs` it is not listed
(unless its `MarkComplete` had already moved it). -/
theorem incomplete_restored_or_dropped (K : Key) (b bp : Blob)
    (hb : aget m.blobs K = some b) (hc : b.complete = false)
    (hpost : aget (exec cfg ord m ((sys cfg).run hist).fs o).mem.blobs K = some bp) :
    ∃ m', (rebootRun cfg ord' mt rm (crashFS cfg ord m ((sys cfg).run hist).fs o k)).res = Except.ok m' ∧
      (cfg.reboot = true → ∃ b', aget m'.blobs K = some b' ∧ (b'.banned = b.banned ∨ b'.banned = bp.banned) ∧
        ((b'.complete = false ∧ b'.size = b.size ∧
            BetweenAt (afterReboot cfg ord' mt rm (crashFS cfg ord m ((sys cfg).run hist).fs o k)) (dirPath cfg false K)
              ((sys cfg).run hist).fs (dirPath cfg false K)
              (applyAll ((sys cfg).run hist).fs (plan cfg ord m ((sys cfg).run hist).fs o)) (dirPath cfg bp.complete K)) ∨
         (b'.complete = true ∧ bp.complete = true ∧
            BetweenAt (afterReboot cfg ord' mt rm (crashFS cfg ord m ((sys cfg).run hist).fs o k)) (dirPath cfg true K)
              ((sys cfg).run hist).fs (dirPath cfg false K)
              (applyAll ((sys cfg).run hist).fs (plan cfg ord m ((sys cfg).run hist).fs o)) (dirPath cfg true K)))) ∧
      (cfg.reboot = false → aget m'.blobs K = none ∨
        (bp.complete = true ∧ ∃ b', aget m'.blobs K = some b' ∧ b'.complete = true)) := by
  have G := good_run cfg hist hw
  have gm := G.mem m hm
  obtain ⟨m', h1, _, hpostg, hlook, hdirs, hview⟩ := crash_recover G.fs gm o hp ord k ord' mt rm hrm hfit
  refine ⟨m', h1, ?_⟩
  have g := gm.blob K b hb
  have gp := hpostg.blob K bp hpost
  have hv := hview K g.valid
  have hl := hlook K g.valid
  unfold CrashView at hv
  simp only [hb, hpost, hc, Bool.not_false] at hv
  rcases hv with ⟨hcn, _, hbet, hsz⟩ | ⟨_, hbpc, hincn, _, hbet⟩
  · -- still in the incomplete directory
    have hnd : (applyPrefix k (plan cfg ord m ((sys cfg).run hist).fs o) ((sys cfg).run hist).fs).file?
        (dirPath cfg true K) Name.data = none := file?_none_of_dir_none hcn _
    rw [lookup_of_no_complete hnd] at hl
    obtain ⟨dat, hdat⟩ : ∃ dat, (applyPrefix k (plan cfg ord m ((sys cfg).run hist).fs o) ((sys cfg).run hist).fs).file?
        (dirPath cfg false K) Name.data = some dat := by
      rcases hbet Name.data rfl with e | e
      · obtain ⟨dat, h⟩ := good_file_data g; rw [hc] at h; exact ⟨dat, by rw [e, h]⟩
      · obtain ⟨dat, h⟩ := good_file_data gp; exact ⟨dat, by rw [e, h]⟩
    constructor
    · intro hr
      obtain ⟨d, hd, _, _, hsize⟩ := g.dir
      obtain ⟨s, hs, hps⟩ := hsize hc hr
      rw [hc] at hd
      have hs' : (applyPrefix k (plan cfg ord m ((sys cfg).run hist).fs o) ((sys cfg).run hist).fs).file?
          (dirPath cfg false K) Name.size = some s := by rw [hsz]; simp [FS.file?, hd, hs]
      rw [rebootBlob_incomplete hdat hs' hps] at hl
      simp only [hr, if_true, Option.map_some, blobOf] at hl
      refine ⟨_, hl, ?_, Or.inl ⟨rfl, rfl, ?_⟩⟩
      · simp only
        rcases hbet Name.ban rfl with e | e
        · left; rw [e]; have := good_file_ban g; rw [hc] at this; exact this
        · right; rw [e]; exact good_file_ban gp
      · have hd' := hdirs K _ hl
        intro n hn
        rcases hbet n hn with e | e
        · left; rw [← e]; exact file?_congr hd' n
        · right; rw [← e]; exact file?_congr hd' n
    · intro hr
      left; simpa [hr] using hl
  · -- MarkComplete had already renamed the directory
    obtain ⟨dat, hdat⟩ : ∃ dat, (applyPrefix k (plan cfg ord m ((sys cfg).run hist).fs o) ((sys cfg).run hist).fs).file?
        (dirPath cfg true K) Name.data = some dat := by
      rcases hbet Name.data rfl with e | e
      · obtain ⟨dat, h⟩ := good_file_data g; rw [hc] at h; exact ⟨dat, by rw [e, h]⟩
      · obtain ⟨dat, h⟩ := good_file_data gp; rw [hbpc] at h; exact ⟨dat, by rw [e, h]⟩
    rw [lookup_of_complete_data hdat] at hl
    have hd' := hdirs K _ hl
    constructor
    · intro _
      refine ⟨_, hl, ?_, Or.inr ⟨rfl, hbpc, ?_⟩⟩
      · simp only
        rcases hbet Name.ban rfl with e | e
        · left; rw [e]; have := good_file_ban g; rw [hc] at this; exact this
        · right; rw [e]; have := good_file_ban gp; rw [hbpc] at this; exact this
      · intro n hn
        rcases hbet n hn with e | e
        · left; rw [← e]; exact file?_congr hd' n
        · right; rw [← e]; exact file?_congr hd' n
    · intro _
      right; exact ⟨hbpc, _, hl, rfl⟩

/-- **C06 (5)** Nothing appears out of nothing: a key that is not in the store before the crash is
not listed after reopening, except the blob whose `Create` was in progress, which is either absent
or restored incomplete, empty, unbanned, without metadata and with exactly the requested size. -/
theorem nothing_resurrected (K : Key) (hv : ValidKey cfg K) (hb : aget m.blobs K = none) :
    ∃ m', (rebootRun cfg ord' mt rm (crashFS cfg ord m ((sys cfg).run hist).fs o k)).res = Except.ok m' ∧
      (aget m'.blobs K = none ∨
        ∃ bp, aget (exec cfg ord m ((sys cfg).run hist).fs o).mem.blobs K = some bp ∧ cfg.reboot = true ∧
          aget m'.blobs K = some ⟨bp.size, false, false⟩ ∧
          (afterReboot cfg ord' mt rm (crashFS cfg ord m ((sys cfg).run hist).fs o k)).file? (dirPath cfg false K) Name.data = some [] ∧
          ∀ md, (afterReboot cfg ord' mt rm (crashFS cfg ord m ((sys cfg).run hist).fs o k)).file? (dirPath cfg false K) (Name.md md) = none) := by
  have G := good_run cfg hist hw
  have gm := G.mem m hm
  obtain ⟨m', h1, _, _, hlook, hdirs, hview⟩ := crash_recover G.fs gm o hp ord k ord' mt rm hrm hfit
  refine ⟨m', h1, ?_⟩
  have hvw := hview K hv
  have hl := hlook K hv
  unfold CrashView at hvw
  cases hpb : aget (exec cfg ord m ((sys cfg).run hist).fs o).mem.blobs K with
  | none =>
    left
    simp only [hb, hpb] at hvw
    rw [hl, lookup_of_no_complete (file?_none_of_dir_none hvw.2 _), rebootBlob_none_of_dir hvw.1]
    split <;> rfl
  | some bp =>
    simp only [hb, hpb] at hvw
    obtain ⟨hcn, hrb⟩ := hvw
    rw [lookup_of_no_complete (file?_none_of_dir_none hcn _)] at hl
    rcases hrb with hrb | ⟨hrb, hr, hdat, hmd⟩
    · left; rw [hl, hrb]; split <;> rfl
    · right
      rw [hrb] at hl
      simp only [hr, if_true, Option.map_some, blobOf] at hl
      have hd' := hdirs K _ hl
      refine ⟨bp, rfl, hr, hl, ?_, ?_⟩
      · rw [← hdat]; exact file?_congr hd' _
      · intro md; rw [← hmd md]; exact file?_congr hd' _

end Crash

/-- **C06 (6)** A crash inside `disk.NewStore` loses nothing it would have recovered: at every call of
the constructor the directory of every blob it recovers is untouched (a frame property; the end-to-end
statement — the next start lists the same blobs — is (6b)). -/
theorem crash_inside_constructor (cfg : Cfg) (hist : List Act) (hw : (sys cfg).WFHist (ActPre cfg) (sys cfg).init hist)
    (ord : Order Name) (mt : List Key) (rm : List (Call Name))
    (hrm : cfg.reboot = false → validRm ((sys cfg).run hist).fs rm = true)
    (hfit : rebootSize cfg rm ((sys cfg).run hist).fs ≤ cfg.capacity)
    (k : Nat) (K : Key) (c : Bool) (rb : RBlob)
    (hrb : rebootBlob cfg ((sys cfg).run hist).fs c K = some rb) (hc : c = true ∨ cfg.reboot = true) :
    (applyPrefix k (rebootRun cfg ord mt rm ((sys cfg).run hist).fs).calls ((sys cfg).run hist).fs).dir? (dirPath cfg c K) =
      ((sys cfg).run hist).fs.dir? (dirPath cfg c K) :=
  (reboot_ok (good_run cfg hist hw).fs ord mt rm hrm).frame hfit k K c rb hrb hc

/-- **C06 (6b)** A crash inside `disk.NewStore`, end to end: whatever call of the constructor the process
dies at, the next start (any removal order, any modification times) succeeds and lists, for every key,
exactly the blob the interrupted start would have listed — complete or incomplete, with the same size
and eviction ban.  (Both starts under the capacity hypothesis of (2)–(6): what is on disk fits.) -/
theorem crash_inside_constructor_restarts (cfg : Cfg) (hist : List Act) (hw : (sys cfg).WFHist (ActPre cfg) (sys cfg).init hist)
    (ord : Order Name) (mt : List Key) (rm : List (Call Name))
    (hrm : cfg.reboot = false → validRm ((sys cfg).run hist).fs rm = true)
    (hfit : rebootSize cfg rm ((sys cfg).run hist).fs ≤ cfg.capacity) (k : Nat)
    (ord' : Order Name) (mt' : List Key) (rm' : List (Call Name))
    (hrm' : cfg.reboot = false →
      validRm (applyPrefix k (rebootRun cfg ord mt rm ((sys cfg).run hist).fs).calls ((sys cfg).run hist).fs) rm' = true)
    (hfit' : rebootSize cfg rm' (applyPrefix k (rebootRun cfg ord mt rm ((sys cfg).run hist).fs).calls ((sys cfg).run hist).fs)
      ≤ cfg.capacity) :
    ∃ m' m'', (rebootRun cfg ord mt rm ((sys cfg).run hist).fs).res = Except.ok m' ∧
      (rebootRun cfg ord' mt' rm'
        (applyPrefix k (rebootRun cfg ord mt rm ((sys cfg).run hist).fs).calls ((sys cfg).run hist).fs)).res = Except.ok m'' ∧
      ∀ K, ValidKey cfg K → aget m''.blobs K = aget m'.blobs K := by
  have G := (good_run cfg hist hw).fs
  have ok := reboot_ok G ord mt rm hrm
  have G' := goodFS_applyPrefix_removal k _ G ok.removal
  have ok' := reboot_ok G' ord' mt' rm' hrm'
  obtain ⟨m', h1, l1, _⟩ := ok.fits hfit
  obtain ⟨m'', h2, l2, _⟩ := ok'.fits hfit'
  refine ⟨m', m'', h1, h2, fun K hv => ?_⟩
  rw [l2 K hv, l1 K hv]
  exact rebootLookup_prefix G ord mt rm hrm hfit k K

/-- **C06 (7)** Afterwards every key can be created and completed again: in every state reached by
any history (in particular right after a crash and a restart) no operation fails on what is on disk —
`Create` of an absent key (that names a directory of its own: `cleanKey`) with room succeeds, `MarkComplete` of an incomplete blob succeeds and
leaves it complete, `Delete` of a present key succeeds and leaves it absent. -/
theorem recreate_afterwards (cfg : Cfg) (hist : List Act) (hw : (sys cfg).WFHist (ActPre cfg) (sys cfg).init hist)
    (m : Mem) (hm : ((sys cfg).run hist).mem = some m) (ord : Order Name) (K : Key) :
    (∀ o, OpPre cfg o → (exec cfg ord m ((sys cfg).run hist).fs o).res ≠ Res.panic ∧
        (exec cfg ord m ((sys cfg).run hist).fs o).res ≠ Res.ioExist ∧
        (exec cfg ord m ((sys cfg).run hist).fs o).res ≠ Res.ioNotExist) ∧
    (∀ sz, ValidKey cfg K → cleanKey cfg K = true → sz < 2 ^ 63 → aget m.blobs K = none → m.size + sz ≤ cfg.capacity →
        (exec cfg ord m ((sys cfg).run hist).fs (Op.create K sz)).res = Res.ok ∧
        aget (exec cfg ord m ((sys cfg).run hist).fs (Op.create K sz)).mem.blobs K = some ⟨sz, false, false⟩) ∧
    (∀ b, aget m.blobs K = some b → b.complete = false →
        (exec cfg ord m ((sys cfg).run hist).fs (Op.markComplete K)).res = Res.ok ∧
        aget (exec cfg ord m ((sys cfg).run hist).fs (Op.markComplete K)).mem.blobs K = some { b with complete := true }) ∧
    (∀ b, aget m.blobs K = some b →
        (exec cfg ord m ((sys cfg).run hist).fs (Op.delete K)).res = Res.ok ∧
        aget (exec cfg ord m ((sys cfg).run hist).fs (Op.delete K)).mem.blobs K = none) := by
  have G := good_run cfg hist hw
  have gm := G.mem m hm
  refine ⟨fun o hp => (exec_ok G.fs gm ord o hp).api, ?_, ?_, ?_⟩
  · intro sz hv hck hsz hb hroom
    have api := (exec_ok G.fs gm ord (Op.create K sz) (fun K' sz' e => by cases e; exact ⟨hv, hsz⟩)).api
    simp only [exec, hck, if_true, create, hb] at api ⊢
    -- there is room: the eviction loop returns at once
    have hev : evictLoop cfg ord sz m.queue m.blobs m.size ((sys cfg).run hist).fs [] =
        ⟨⟨m.blobs, m.queue, m.size⟩, ((sys cfg).run hist).fs, [], Res.ok⟩ := by
      cases hq : m.queue <;> simp [evictLoop, hroom]
    simp only [hev] at api ⊢
    split
    · rename_i h; simp only [h, if_true] at api; exact absurd rfl api.2.1
    · exact ⟨rfl, by simp [aget_aset_self]⟩
  · intro b hb hc
    have api := (exec_ok G.fs gm ord (Op.markComplete K) (fun K' sz' e => by cases e)).api
    simp only [exec, markComplete, hb, hc, Bool.false_eq_true, if_false] at api ⊢
    split
    · rename_i h; simp only [h, if_true] at api; exact absurd rfl api.2.2
    · rename_i h
      split
      · rename_i h2; simp only [h, h2, if_true, if_false, Bool.false_eq_true] at api; exact absurd rfl api.2.1
      · exact ⟨rfl, by simp [aget_aset_self]⟩
  · intro b hb
    simp only [exec, delete, hb]
    exact ⟨by simp, aget_adel_self _ _⟩

/-! ### non-vacuity: the hypotheses are satisfiable and the conclusions are not trivial -/

def exCfg : Cfg := ⟨true, 1, 10⟩
def exMd : MdId := ⟨0, true⟩
/-- create, write, set metadata, complete one blob; create a second one -/
def exHist : List Act :=
  [.op (.create "aa11" 3) {}, .op (.write "aa11" 0 [7, 8]) {}, .op (.setMd "aa11" exMd [9]) {},
   .op (.markComplete "aa11") {}, .op (.create "bb22" 4) {}]

-- an admissible history; the store is up, `aa11` is complete, `bb22` incomplete with 4 bytes reserved
example : (sys exCfg).WFHist (ActPre exCfg) (sys exCfg).init exHist := by decide
example : (((sys exCfg).run exHist).mem.map (fun m => (aget m.blobs "aa11", aget m.blobs "bb22", m.queue))) =
    some (some ⟨3, true, false⟩, some ⟨4, false, false⟩, ["aa11"]) := by decide

/-- the state before the crash -/
def exMem : Mem := (((sys exCfg).run exHist).mem).getD {}
def exFS : FS Name := ((sys exCfg).run exHist).fs

-- crash inside `Delete aa11` after 2 of its 4 calls (blob file and metadata already unlinked):
-- the blobs found fit, `NewStore` succeeds, `aa11` is gone for good and `bb22` is restored with its size
example : rebootSize exCfg [] (crashFS exCfg { files := [(["complete", "aa", "aa11"], Name.data)] } exMem exFS (.delete "aa11") 2)
    ≤ exCfg.capacity := by decide
example : ((rebootRun exCfg {} [] [] (crashFS exCfg { files := [(["complete", "aa", "aa11"], Name.data)] } exMem exFS (.delete "aa11") 2)).res.toOption.map
    (fun m => (aget m.blobs "aa11", aget m.blobs "bb22"))) = some (none, some ⟨4, false, false⟩) := by decide
-- … and the leftover directory was removed, so the key can be created and completed again
example : (afterReboot exCfg {} [] [] (crashFS exCfg { files := [(["complete", "aa", "aa11"], Name.data)] } exMem exFS (.delete "aa11") 2)).dir?
    ["complete", "aa", "aa11"] = none := by decide

-- crash inside `Create cc33` between creating `_size` and writing it (4 of 5 calls): `NewStore` succeeds
-- (before the repair: "blob size sidecar file is in unexpected format"), the blob is dropped, its
-- directory removed; the complete blob survives with bytes and metadata
example : ((rebootRun exCfg {} [] [] (crashFS exCfg {} exMem exFS (.create "cc33" 2) 4)).res.toOption.map
    (fun m => (aget m.blobs "cc33", aget m.blobs "aa11"))) = some (none, some ⟨2, true, false⟩) := by decide
example : (crashFS exCfg {} exMem exFS (.create "cc33" 2) 4).file? ["incomplete", "cc", "cc33"] Name.size = some [] := by decide
example : (afterReboot exCfg {} [] [] (crashFS exCfg {} exMem exFS (.create "cc33" 2) 4)).dir? ["incomplete", "cc", "cc33"] = none := by decide
example : (afterReboot exCfg {} [] [] (crashFS exCfg {} exMem exFS (.create "cc33" 2) 4)).file? ["complete", "aa", "aa11"] (Name.md exMd) = some [9] := by decide

-- without `RebootIncompleteBlobs` the incomplete blob is dropped and `incomplete/` removed
example : ((rebootRun { exCfg with reboot := false } {} [] (rmPredicted exCfg {} exFS) exFS).res.toOption.map
    (fun m => (aget m.blobs "aa11", aget m.blobs "bb22"))) = some (some ⟨2, true, false⟩, none) := by decide
example : validRm exFS (rmPredicted exCfg {} exFS) = true := by decide

end KrakenModel.Spec.C06
