import KrakenModel.Util.LTS
import KrakenModel.Model.BlobStore
import KrakenModel.Proof.BlobStore
import KrakenModel.Proof.C07
import KrakenModel.Proof.C07Md
import KrakenModel.Proof.C07Clean
/-
  C07  The disk blob store behaves like its capacity-bounded LRU model.

  `Model.BlobStore` is the reference model; the correspondence check ties it to lib/store/disk
  (every result of every operation, the eviction queue and the reserved size after every step).
  The theorems below say that the reference model is a capacity-bounded LRU cache with scopes and
  metadata, for every configuration (`cap`) and every history (`ops : List Op`, unbounded; sizes,
  keys, contents arbitrary).  `(sys cap).run ops` is the state after the history.
-/
namespace KrakenModel.Spec.C07
open KrakenModel KrakenModel.BlobStore

/-- **(1) space accounting.** After every history the reserved space is the sum of the sizes of the
live blobs and does not exceed the capacity — for *every* `Create` size, including sizes near 2^64
(the repaired admission test does not wrap). -/
theorem size_is_sum (cap : Nat) (hcap : cap < U64) (ops : List Op) :
    let s := (sys cap).run ops
    s.size = s.blobs.total ∧ s.size ≤ cap := by
  have hg := good_run hcap ops
  have hle := hg.le
  rw [run_cap] at hle
  exact ⟨hg.sum, hle⟩

/-- The repaired admission test is exact: it admits iff `size + space ≤ capacity` over the naturals
(no 64-bit wrap-around) … -/
theorem admission_exact (s : State) (space : Nat) : fits s space = true ↔ s.size + space ≤ s.cap :=
  fits_iff s space

/-- … whereas the test before the `fix:` commit admitted `Create(k, 2^64-1)` with 5 of 10 bytes
reserved (the reserved size wrapped to 4). Kept as the record of the repaired defect. -/
theorem legacy_admits_wrap :
    legacyFits { cap := 10, size := 5 } (U64 - 1) = true ∧ fits { cap := 10, size := 5 } (U64 - 1) = false := by
  decide

/-- **(2) the eviction queue is exactly the evictable blobs.** After every history the queue has no
duplicates and holds exactly the keys of the complete blobs that are not banned from eviction. -/
theorem queue_is_evictable (cap : Nat) (hcap : cap < U64) (ops : List Op) :
    let s := (sys cap).run ops
    s.queue.Nodup ∧ ∀ k, k ∈ s.queue ↔ ∃ b, s.blobs.get k = some b ∧ b.complete = true ∧ b.banned = false :=
  let hg := good_run hcap ops
  ⟨hg.qnodup, hg.qmem⟩

/-- **(3) LRU order.** `(trun cap ops).lastUse k` is the index in the history of the last operation
that used `k` (successful `Open`, completing `MarkComplete`, ban-lifting `UnbanEviction`; see
`usedKey`); `trun` only adds this ghost field to the run (`trun_st`). After every history the queue
is strictly ordered by last use, least recently used first. -/
theorem queue_is_lru (cap : Nat) (hcap : cap < U64) (ops : List Op) :
    let t := trun cap ops
    t.st = (sys cap).run ops ∧ t.st.queue.Pairwise (fun a b => t.lastUse a < t.lastUse b) :=
  ⟨trun_st cap ops, (lru_run hcap ops).1.1⟩

/-- **(4) eviction takes the front of the queue and only it.** In every state the blobs evicted by
the admission loop are a prefix of the eviction queue, the remaining queue is the rest; every entry
that is not evicted is untouched; … -/
theorem evicts_front_only (s : State) (space : Nat) :
    let r := ensureFree s space
    r.2.2 <+: s.queue ∧ s.queue = r.2.2 ++ r.1.queue ∧
    ∀ k, r.1.blobs.get k = if k ∈ r.2.2 then none else s.blobs.get k :=
  ⟨evictLoop_prefix space s.queue s rfl, evictLoop_queue space s.queue s rfl,
   fun k => evictLoop_get space k s.queue s⟩

/-- … the loop evicts one blob at a time and stops at the first state in which the request fits
(`evictN n s` = `s` after evicting its first `n` queue entries): nothing is evicted needlessly; it
reports `noSpace` only with the queue empty and the request still not fitting. -/
theorem evicts_minimally (s : State) (space : Nat) :
    let r := ensureFree s space
    r.1 = evictN r.2.2.length s ∧
    (∀ n, n < r.2.2.length → fits (evictN n s) space = false) ∧
    (r.2.1 = .ok → fits r.1 space = true) ∧
    (r.2.1 = .noSpace → r.1.queue = [] ∧ fits r.1 space = false) :=
  ⟨(evictLoop_minimal space s.queue s rfl).1, (evictLoop_minimal space s.queue s rfl).2,
   evictLoop_ok_fits space s.queue s, evictLoop_noSpace space s.queue s rfl⟩

/-- Hence, after every history, whatever a `Create` evicts is complete and not banned. -/
theorem evicts_only_evictable (cap : Nat) (hcap : cap < U64) (ops : List Op) (space : Nat) :
    let s := (sys cap).run ops
    ∀ k ∈ (ensureFree s space).2.2, ∃ b, s.blobs.get k = some b ∧ b.complete = true ∧ b.banned = false := by
  intro s k hk
  exact ((good_run hcap ops).qmem k).mp ((evictLoop_prefix space s.queue s rfl).subset hk)

/-- A refused `Create` leaves the store unchanged when the key exists. (When it is refused for lack
of space the evictions already made stay — `evicts_minimally` — and `size_is_sum` still holds.) -/
theorem create_exist_unchanged (s : State) (k : Key) (n : Nat) (d : Bytes)
    (h : output s (.create k n d) = .err .exist) : step s (.create k n d) = s := by
  simp only [output, step, apply, create] at h ⊢
  cases hk : s.blobs.get k with
  | some b => rfl
  | none =>
    simp only [hk] at h
    generalize ensureFree s n = r at h
    obtain ⟨s', res, ev⟩ := r
    cases res <;> simp at h

/-- **(5) scopes hide exactly the out-of-scope blobs.** A scoped operation answers `outOfScope` iff
the key is in the store and its blob is outside the scope, `notExist` iff the key is not in the
store, and in both cases changes nothing. -/
theorem scope_filter (s : State) (o : Op) (k : Key) (sc : Scope) (h : o.scoped = some (k, sc)) :
    (output s o = .err .outOfScope ↔ ∃ b, s.blobs.get k = some b ∧ inScope b sc = false) ∧
    (output s o = .err .notExist ↔ s.blobs.get k = none) ∧
    (output s o = .err .outOfScope ∨ output s o = .err .notExist → step s o = s) := by
  obtain ⟨h1, h2⟩ := scoped_output s o k sc h
  cases hl : lookup s k sc with
  | error e =>
    obtain ⟨ho, hs⟩ := h1 e hl
    rw [ho, ← lookup_oos_iff, ← lookup_notExist_iff s k sc, hl]
    refine ⟨by simp, by simp, fun _ => hs⟩
  | ok b =>
    obtain ⟨ho1, ho2⟩ := h2 b hl
    obtain ⟨hb, hsc⟩ := lookup_ok hl
    refine ⟨⟨fun h => absurd h ho1, ?_⟩, ⟨fun h => absurd h ho2, ?_⟩, ?_⟩
    · rintro ⟨b', hb', hs'⟩; rw [hb] at hb'; simp at hb'; subst hb'; simp [hsc] at hs'
    · intro hn; simp [hb] at hn
    · rintro (h | h)
      · exact absurd h ho1
      · exact absurd h ho2

/-- `List` under a scope returns exactly the keys of the blobs in scope (after every history). -/
theorem list_scope (cap : Nat) (hcap : cap < U64) (ops : List Op) (sc : Scope) :
    let s := (sys cap).run ops
    ∃ ks, output s (.list sc) = .keys ks ∧
      ∀ k, k ∈ ks ↔ ∃ b, s.blobs.get k = some b ∧ inScope b sc = true := by
  intro s
  refine ⟨_, rfl, fun k => ?_⟩
  have hg := good_run hcap ops
  simp only [List.mem_map, List.mem_filter]
  constructor
  · rintro ⟨⟨k', b⟩, ⟨hm, hs⟩, rfl⟩
    exact ⟨b, get_of_mem hg.nodup hm, hs⟩
  · rintro ⟨b, hb, hs⟩
    exact ⟨(k, b), ⟨mem_of_get hb, hs⟩, rfl⟩

/-- **(6) metadata reads return the last value set.** Right after a successful `SetMetadata` the
value reads back; … -/
theorem getMd_after_setMd (s : State) (k : Key) (sc : Scope) (m : Md)
    (h : output s (.setMd k sc m) = .ok) :
    output (step s (.setMd k sc m)) (.getMd k .any m.sfx) = .bytes m.val := by
  simp only [output, step, apply, setMd] at h ⊢
  split at h
  · simp at h
  · simp only [getMd, lookup, BMap.get_set_self, inScope, if_true, mdGet_mdSet_self]

/-- … right after a successful `DeleteMetadata` it is absent; … -/
theorem getMd_after_delMd (s : State) (k : Key) (sc : Scope) (sfx : Nat)
    (h : output s (.delMd k sc sfx) = .ok) :
    output (step s (.delMd k sc sfx)) (.getMd k .any sfx) = .absent := by
  simp only [output, step, apply, delMd] at h ⊢
  split at h
  · simp at h
  · simp only [getMd, lookup, BMap.get_set_self, inScope, if_true, mdGet_mdDel_self]

/-- … and no other operation changes it: while `k` stays in the store, only `SetMetadata`,
`DeleteMetadata`, `WriteAtMetadata` on `(k, sfx)` and the completion of `k` (next theorem) change
what `GetMetadata(k, sfx)` reads. -/
theorem getMd_frame (s : State) (o : Op) (k : Key) (sfx : Nat) (ht : touchesMd o k sfx = false)
    (b b' : Blob) (hb : s.blobs.get k = some b) (hb' : (step s o).blobs.get k = some b') :
    mdGet b'.mds sfx = mdGet b.mds sfx :=
  md_frame s o k sfx ht hb hb'

/-- **(6') … over whole histories.** After any history `ops`, a successful `SetMetadata(k, m)` and any
further history `more` that contains no metadata call on `(k, m.sfx)` and no `MarkComplete(k)`: as long
as `k` is still the same incarnation (not deleted, evicted or re-created in between),
`GetMetadata(k, m.sfx)` returns the value that was set. -/
theorem getMd_returns_last_set (cap : Nat) (ops more : List Op) (k : Key) (sc : Scope) (m : Md)
    (hset : output ((sys cap).run ops) (.setMd k sc m) = .ok)
    (hno : ∀ o ∈ more, touchesMd o k m.sfx = false)
    (b b' : Blob)
    (hb : ((sys cap).run (ops ++ [.setMd k sc m])).blobs.get k = some b)
    (hb' : ((sys cap).run (ops ++ [.setMd k sc m] ++ more)).blobs.get k = some b')
    (hinc : b'.inc = b.inc) :
    output ((sys cap).run (ops ++ [.setMd k sc m] ++ more)) (.getMd k .any m.sfx) = .bytes m.val := by
  have hg := goodInc_run cap (ops ++ [.setMd k sc m])
  have hcap : ((sys cap).run (ops ++ [.setMd k sc m])).cap = cap := run_cap cap _
  have hrun : (sys cap).run (ops ++ [.setMd k sc m] ++ more) =
      (sys ((sys cap).run (ops ++ [.setMd k sc m])).cap).runFrom ((sys cap).run (ops ++ [.setMd k sc m])) more := by
    rw [hcap, Sys.run_append]
  have hst := md_stable k m.sfx more _ hg hno b b' hb (by rw [← hrun]; exact hb') hinc
  -- right after the set the value is there
  have hnow : mdGet b.mds m.sfx = some m := by
    have h1 := getMd_after_setMd ((sys cap).run ops) k sc m hset
    have hs : (sys cap).run (ops ++ [.setMd k sc m]) = step ((sys cap).run ops) (.setMd k sc m) := by
      rw [Sys.run_append]; rfl
    rw [hs] at hb
    simp only [output, apply, getMd, lookup, hb, inScope, if_true] at h1
    cases hm : mdGet b.mds m.sfx with
    | none => rw [hm] at h1; simp at h1
    | some m' =>
      rw [hm] at h1; simp at h1
      -- the entry found is the one that was set
      have hb2 := hb
      simp only [step, apply, setMd] at hb2
      split at hb2
      · simp only [output, apply, setMd] at hset; rename_i e he; rw [he] at hset; simp at hset
      · rw [BMap.get_set_self] at hb2; simp at hb2; subst hb2
        simp only [mdGet_mdSet_self] at hm; simp at hm; rw [hm]
  simp only [output, apply, getMd, lookup, hb', inScope, if_true, hst, hnow]

/-- **(1'') size accounting after failed creations.** After every history, a `Create` that gets past
admission and then fails on the file system (`MkdirAll` / `OpenFile`, `createFailing`) leaves the
invariants intact — reserved space is still the sum of the live blob sizes and within capacity, the
eviction queue is still exactly the evictable blobs —, adds no entry, and has evicted exactly what the
successful `Create` would have evicted. -/
theorem failed_create_keeps_accounting (cap : Nat) (hcap : cap < U64) (ops : List Op) (k : Key) (n : Nat) (d : Bytes) :
    let s := (sys cap).run ops
    let s' := (createFailing s k n).1
    s'.size = s'.blobs.total ∧ s'.size ≤ s'.cap ∧
    (∀ k', k' ∈ s'.queue ↔ ∃ b, s'.blobs.get k' = some b ∧ b.complete = true ∧ b.banned = false) ∧
    (s.blobs.get k = none → s'.blobs.get k = none) ∧
    (∀ k', k' ≠ k → s'.blobs.get k' = (create s k n d).1.blobs.get k') := by
  intro s s'
  have hg : Good s := good_run hcap ops
  have hg' : Good s' := good_createFailing hg k n
  refine ⟨hg'.sum, hg'.le, hg'.qmem, ?_, ?_⟩
  · intro hnone
    show (createFailing s k n).1.blobs.get k = none
    unfold createFailing
    rw [hnone]
    have hn : (ensureFree s n).1.blobs.get k = none := evictLoop_get_none n k s.queue s rfl hnone
    simp only
    split <;> (rename_i h; have e : _ = (ensureFree s n).1 := (congrArg Prod.fst h).symm; simp only at e; rw [e]; exact hn)
  · intro k' hk'
    show (createFailing s k n).1.blobs.get k' = (create s k n d).1.blobs.get k'
    unfold createFailing create
    split
    · rfl
    · split <;> simp_all [BMap.get_set_ne]

-- a failed creation that had to evict: the evicted blob is gone, its space is free again
example : ((createFailing ((sys 4).run [.create 0 3 [1], .markComplete 0]) 1 2).1.size,
    (createFailing ((sys 4).run [.create 0 3 [1], .markComplete 0]) 1 2).1.blobs.keys) = (0, []) := by decide

/-- **(6'') … and across the completion of the blob.** A *movable* metadata entry set on a blob (complete
or not) is read back after any further history that contains no metadata call on `(k, m.sfx)` —
`MarkComplete(k)` may occur in it: the common sequence `SetMetadata` on an incomplete blob,
`MarkComplete`, `GetMetadata` — as long as `k` is still the same incarnation. -/
theorem getMd_survives_completion (cap : Nat) (ops more : List Op) (k : Key) (sc : Scope) (m : Md)
    (hmov : m.movable = true)
    (hset : output ((sys cap).run ops) (.setMd k sc m) = .ok)
    (hno : ∀ o ∈ more, writesMd o k m.sfx = false)
    (b b' : Blob)
    (hb : ((sys cap).run (ops ++ [.setMd k sc m])).blobs.get k = some b)
    (hb' : ((sys cap).run (ops ++ [.setMd k sc m] ++ more)).blobs.get k = some b')
    (hinc : b'.inc = b.inc) :
    output ((sys cap).run (ops ++ [.setMd k sc m] ++ more)) (.getMd k .any m.sfx) = .bytes m.val := by
  have hg := goodInc_run cap (ops ++ [.setMd k sc m])
  have hcap : ((sys cap).run (ops ++ [.setMd k sc m])).cap = cap := run_cap cap _
  have hrun : (sys cap).run (ops ++ [.setMd k sc m] ++ more) =
      (sys ((sys cap).run (ops ++ [.setMd k sc m])).cap).runFrom ((sys cap).run (ops ++ [.setMd k sc m])) more := by
    rw [hcap, Sys.run_append]
  -- right after the set the value is there
  have hnow : mdGet b.mds m.sfx = some m := by
    have hs : (sys cap).run (ops ++ [.setMd k sc m]) = step ((sys cap).run ops) (.setMd k sc m) := by
      rw [Sys.run_append]; rfl
    rw [hs] at hb
    simp only [step, apply, setMd] at hb
    split at hb
    · simp only [output, apply, setMd] at hset; rename_i e he; rw [he] at hset; simp at hset
    · rw [BMap.get_set_self] at hb; simp at hb; subst hb
      simp only [mdGet_mdSet_self]
  have hst := md_stable_movable k m.sfx m hmov more _ hg hno b b' hb hnow (by rw [← hrun]; exact hb') hinc
  simp only [output, apply, getMd, lookup, hb', inScope, if_true, hst]

-- completing the blob in between: the movable entry is read back, the immovable one is gone
example : output ((sys 10).run [.create 1 2 [7], .setMd 1 .any ⟨0, true, [5]⟩, .setMd 1 .any ⟨1, false, [6]⟩,
    .markComplete 1]) (.getMd 1 .complete 0) = .bytes [5] := by decide
example : output ((sys 10).run [.create 1 2 [7], .setMd 1 .any ⟨0, true, [5]⟩, .setMd 1 .any ⟨1, false, [6]⟩,
    .markComplete 1]) (.getMd 1 .complete 1) = .absent := by decide

/-- **(7) non-movable metadata disappears on completion** (and movable metadata stays): completing
an incomplete blob keeps exactly its movable metadata (first conjunct: the new entry is the old one with
`mds.filter movable`; the second conjunct only spells out what `filter` means). -/
theorem markComplete_metadata (s : State) (k : Key) (b : Blob) (hb : s.blobs.get k = some b)
    (hc : b.complete = false) :
    (step s (.markComplete k)).blobs.get k =
      some { b with complete := true, mds := b.mds.filter (·.movable) } ∧
    ∀ m ∈ b.mds.filter (·.movable), m.movable = true := by
  refine ⟨by simp [step, apply, markComplete, hb, hc], fun m hm => ?_⟩
  simpa using (List.mem_filter.mp hm).2

/-- **(8) `Clean` honours the eviction ban.** After every history, `Clean(pct, respectEvictionBan)`
keeps every banned blob unchanged, for every iteration order `ord` of the Go map. -/
theorem clean_respects_ban (cap : Nat) (hcap : cap < U64) (ops : List Op) (pct : Int) (ord : List Key)
    (k : Key) (b : Blob) :
    let s := (sys cap).run ops
    s.blobs.get k = some b → b.banned = true → (step s (.clean pct true ord)).blobs.get k = some b :=
  fun hb hban => clean_keeps_banned (good_run hcap ops) pct ord hb hban

/-- **(8') `Clean` reaches its target.** After every history, for a percentage in [0,100) and every
iteration order of the Go map that lists each key once: `Clean` reports no error and afterwards the
reserved size is at most `capacity·pct/100` — or, with `respectEvictionBan`, everything that is left is
banned from eviction. -/
theorem clean_reaches_target (cap : Nat) (hcap : cap < U64) (ops : List Op) (pct : Int)
    (hp : ¬ (pct < 0 ∨ pct ≥ 100)) (respect : Bool) (ord : List Key) (hnd : ord.Nodup)
    (hall : ∀ k, (∃ b, ((sys cap).run ops).blobs.get k = some b) → k ∈ ord) :
    let s := (sys cap).run ops
    let s' := step s (.clean pct respect ord)
    (∃ u d, output s (.clean pct respect ord) = .cleaned u none d) ∧
    (s'.size ≤ (cap * pct.toNat % U64) / 100 ∨
      (respect = true ∧ ∀ k b, s'.blobs.get k = some b → b.banned = true)) := by
  have h := BlobStore.clean_reaches_target (good_run hcap ops) pct hp respect ord hnd hall
  rw [run_cap] at h
  exact h

/-- **(9) no panics.** After every history no operation reaches a nil map entry or list node. -/
theorem no_panic (cap : Nat) (hcap : cap < U64) (ops : List Op) (o : Op) :
    (output ((sys cap).run ops) o).panics = false :=
  no_panic_of_good (good_run hcap ops) o

/-! non-vacuity: a history that fills the store, evicts in LRU order and uses scopes and metadata -/

def demo : List Op :=
  [.create 0 2 [1, 2], .setMd 0 .any ⟨1, false, [7]⟩, .setMd 0 .any ⟨0, true, [8]⟩, .markComplete 0,
   .create 1 2 [3], .markComplete 1, .open 0 .any, .create 2 2 []]

example : ((sys 4).run demo).queue = [0] := by decide
example : ((sys 4).run demo).blobs.keys = [2, 0] := by decide
example : ((sys 4).run demo).size = 4 := by decide
example : output ((sys 4).run demo) (.getMd 0 .any 0) = .bytes [8] := by decide
example : output ((sys 4).run demo) (.getMd 0 .any 1) = .absent := by decide
example : output ((sys 4).run demo) (.open 2 .complete) = .err .outOfScope := by decide
example : (ensureFree ((sys 4).run (demo.take 7)) 2).2.2 = [1] := by decide
example : ((trun 4 demo).lastUse 0, (trun 4 demo).lastUse 1) = (6, 5) := by decide
example : output ((sys 4).run demo) (.create 3 (U64 - 1) []) = .err .noSpace := by decide

end KrakenModel.Spec.C07
