import KrakenModel.Model.TagRepl
import KrakenModel.Proof.C30
import KrakenModel.Proof.C30Live
/-
  C33  Tags reach a remote cluster only after their blobs do.
  Statements are about `Model.TagRepl.exec` (tagreplication.Executor.Exec through blobclient.Poll)
  for every task (any dependency list), every configuration (any number of origin replicas, any
  backoff budget) and every scripted behaviour of the remote index and the origin replicas
  (any mix of 200 / 202 / 4xx / 5xx / dropped connections, of any length), and about its
  composition with the retry manager of C30.
-/
namespace KrakenModel.Spec.C33
open KrakenModel KrakenModel.TagRepl

/-- every dependency of the task has a 200 answer to a replicate request in the trace -/
def Confirmed (deps : List Digest) (tr : List Ev) : Prop :=
  ∀ d ∈ deps, ∃ o, (⟨.rep d o, .ok⟩ : Ev) ∈ tr

def confirmedIn (tr : List Ev) (d : Digest) : Bool :=
  tr.any fun e => match e with
    | ⟨.rep d' _, .ok⟩ => d' == d
    | _ => false

theorem confirmedIn_iff (tr : List Ev) (d : Digest) :
    confirmedIn tr d = true ↔ ∃ o, (⟨.rep d o, .ok⟩ : Ev) ∈ tr := by
  simp only [confirmedIn, List.any_eq_true]
  constructor
  · rintro ⟨⟨ep, r⟩, he, h⟩
    cases ep <;> cases r <;> simp at h
    subst h; exact ⟨_, he⟩
  · rintro ⟨o, ho⟩; exact ⟨_, ho, by simp⟩

instance (deps : List Digest) (tr : List Ev) : Decidable (Confirmed deps tr) :=
  decidable_of_iff (∀ d ∈ deps, confirmedIn tr d = true)
    ⟨fun h d hd => (confirmedIn_iff tr d).mp (h d hd), fun h d hd => (confirmedIn_iff tr d).mpr (h d hd)⟩

/-- events appended by the polling loops are replicate requests only -/
def RepOnly (ext : List Ev) : Prop := ∀ e ∈ ext, ∃ d o, e.ep = .rep d o

theorem pollOne_ext (d : Digest) (o : Replica) (budget : Nat) (sc : Scripts) (tr : List Ev) :
    ∃ ext, (pollOne d o budget sc tr).2.2 = tr ++ ext ∧ RepOnly ext ∧
      ((pollOne d o budget sc tr).1 = .success → (⟨.rep d o, .ok⟩ : Ev) ∈ ext) ∧ ext.length ≤ budget + 1 := by
  induction budget generalizing sc tr with
  | zero =>
    unfold pollOne
    cases hr : (pop sc (.rep d o)).1 <;> simp only [hr] <;>
      exact ⟨[⟨.rep d o, _⟩], rfl, fun e he => by simp at he; exact ⟨d, o, by rw [he]⟩, by simp, by simp⟩
  | succ b ih =>
    unfold pollOne
    cases hr : (pop sc (.rep d o)).1 <;> simp only [hr]
    case accepted =>
      obtain ⟨ext, h1, h2, h3, h4⟩ := ih (pop sc (.rep d o)).2 (tr ++ [⟨.rep d o, .accepted⟩])
      refine ⟨⟨.rep d o, .accepted⟩ :: ext, by rw [h1]; simp, ?_, ?_, by simp; omega⟩
      · intro e he
        rcases List.mem_cons.mp he with rfl | he
        · exact ⟨d, o, rfl⟩
        · exact h2 e he
      · intro hs; exact List.mem_cons_of_mem _ (h3 hs)
    all_goals
      exact ⟨[⟨.rep d o, _⟩], rfl, fun e he => by simp at he; exact ⟨d, o, by rw [he]⟩, by simp, by simp⟩

theorem poll_ext (bo : Nat) (d : Digest) (os : List Replica) (sc : Scripts) (tr : List Ev) :
    ∃ ext, (poll bo d os sc tr).2.2 = tr ++ ext ∧ RepOnly ext ∧
      ((poll bo d os sc tr).1 = true → ∃ o, (⟨.rep d o, .ok⟩ : Ev) ∈ ext) := by
  induction os generalizing sc tr with
  | nil => exact ⟨[], (by simp [poll]), (fun _ h => by cases h), (by simp [poll])⟩
  | cons o os ih =>
    obtain ⟨e1, h1, h2, h3, _⟩ := pollOne_ext d o bo sc tr
    unfold poll
    cases hp : pollOne d o bo sc tr with
    | mk out rest =>
      obtain ⟨sc', tr'⟩ := rest
      rw [hp] at h1 h3
      simp only at h1 h3
      cases out with
      | success => exact ⟨e1, h1, h2, fun _ => ⟨o, h3 rfl⟩⟩
      | abort => exact ⟨e1, h1, h2, (fun h => by cases h)⟩
      | next =>
        obtain ⟨e2, g1, g2, g3⟩ := ih sc' tr'
        refine ⟨e1 ++ e2, by simp only; rw [g1, h1]; simp, ?_, ?_⟩
        · intro e he
          rcases List.mem_append.mp he with he | he
          · exact h2 e he
          · exact g2 e he
        · intro hs
          obtain ⟨o', ho'⟩ := g3 hs
          exact ⟨o', List.mem_append_right _ ho'⟩

theorem replicateAll_ext (cfg : Cfg) (ds : List Digest) (sc : Scripts) (tr : List Ev) :
    ∃ ext, (replicateAll cfg ds sc tr).2.2 = tr ++ ext ∧ RepOnly ext ∧
      ((replicateAll cfg ds sc tr).1 = true → Confirmed ds ext) := by
  induction ds generalizing sc tr with
  | nil => exact ⟨[], (by simp [replicateAll]), (fun _ h => by cases h), (fun _ d hd => by cases hd)⟩
  | cons d ds ih =>
    obtain ⟨e1, h1, h2, h3⟩ := poll_ext cfg.bo d cfg.replicas sc tr
    unfold replicateAll
    cases hp : poll cfg.bo d cfg.replicas sc tr with
    | mk ok rest =>
      obtain ⟨sc', tr'⟩ := rest
      rw [hp] at h1 h3
      simp only at h1 h3
      cases ok with
      | false => exact ⟨e1, h1, h2, (fun h => by cases h)⟩
      | true =>
        obtain ⟨e2, g1, g2, g3⟩ := ih sc' tr'
        refine ⟨e1 ++ e2, by simp only; rw [g1, h1]; simp, ?_, ?_⟩
        · intro e he
          rcases List.mem_append.mp he with he | he
          · exact h2 e he
          · exact g2 e he
        · intro hs d' hd'
          rcases List.mem_cons.mp hd' with rfl | hd'
          · obtain ⟨o, ho⟩ := h3 rfl
            exact ⟨o, List.mem_append_left _ ho⟩
          · obtain ⟨o, ho⟩ := g3 hs d' hd'
            exact ⟨o, List.mem_append_right _ ho⟩

/-- the shape of every trace of `Exec` -/
theorem exec_shape (cfg : Cfg) (t : Task) (sc : Scripts) :
    let r := exec cfg t sc
    (r.trace = [⟨.has, .ok⟩] ∧ r.ok = true) ∨
    (∃ h o ext, h ≠ .ok ∧ RepOnly ext ∧
      ((r.trace = [⟨.has, h⟩, ⟨.origin, o⟩] ++ ext ∧ r.ok = false) ∨
       (∃ p, r.trace = [⟨.has, h⟩, ⟨.origin, o⟩] ++ ext ++ [⟨.put, p⟩] ∧ Confirmed t.deps ext ∧
          r.ok = decide (p = .ok)))) := by
  intro r
  simp only [r, exec]
  by_cases hh : (pop sc .has).1 = .ok
  · left; simp [hh]
  · right
    simp only [hh, if_false]
    refine ⟨(pop sc .has).1, (pop (pop sc .has).2 .origin).1, ?_⟩
    by_cases ho : (pop (pop sc .has).2 .origin).1 = .ok
    · simp only [ho, ne_eq, not_true_eq_false, if_false]
      obtain ⟨ext, h1, h2, h3⟩ := replicateAll_ext cfg t.deps (pop (pop sc .has).2 .origin).2
        ([⟨.has, (pop sc .has).1⟩] ++ [⟨.origin, .ok⟩])
      refine ⟨ext, hh, h2, ?_⟩
      cases hr : replicateAll cfg t.deps (pop (pop sc .has).2 .origin).2
          ([⟨.has, (pop sc .has).1⟩] ++ [⟨.origin, .ok⟩]) with
      | mk ok rest =>
        obtain ⟨sc3, tr3⟩ := rest
        rw [hr] at h1 h3
        simp only at h1 h3
        cases ok with
        | false => left; simp [h1]
        | true => right; exact ⟨(pop sc3 .put).1, by simp [h1], h3 rfl, rfl⟩
    · refine ⟨[], hh, (fun _ h => by cases h), ?_⟩
      left; simp [ho]

/-- **C33 (1)** In every trace of `Exec`, a PUT of the tag to the remote index is preceded by a 200
answer of the origin cluster to a replicate request for *every* dependency (a 202 never counts),
and it is the last remote call of the execution. -/
theorem put_after_all_blobs (cfg : Cfg) (t : Task) (sc : Scripts) (pre post : List Ev) (p : Resp)
    (h : (exec cfg t sc).trace = pre ++ ⟨.put, p⟩ :: post) : Confirmed t.deps pre ∧ post = [] := by
  have key : ∀ (l : List Ev) (x : Ev) (pre post : List Ev) (y : Ev),
      (∀ e ∈ l, e.ep ≠ .put) → y.ep = .put → l ++ [x] = pre ++ y :: post → pre = l ∧ post = [] := by
    intro l
    induction l with
    | nil =>
      intro x pre post y _ _ he
      cases pre with
      | nil => simp at he; exact ⟨rfl, he.2⟩
      | cons a as =>
        simp at he
    | cons a as ih =>
      intro x pre post y hl hy he
      cases pre with
      | nil =>
        simp at he
        exact absurd (he.1 ▸ hy) (hl a (by simp))
      | cons b bs =>
        simp at he
        obtain ⟨h1, h2⟩ := ih x bs post y (fun e he' => hl e (List.mem_cons_of_mem _ he')) hy he.2
        exact ⟨by rw [he.1, h1], h2⟩
  rcases exec_shape cfg t sc with ⟨ht, _⟩ | ⟨hh, o, ext, _, hrep, hcase⟩
  · rw [ht] at h
    cases pre with
    | nil => simp at h
    | cons a as => simp at h
  · have hnp : ∀ e ∈ ([⟨.has, hh⟩, ⟨.origin, o⟩] ++ ext : List Ev), e.ep ≠ .put := by
      intro e he
      rcases List.mem_append.mp he with he | he
      · simp at he; rcases he with rfl | rfl <;> simp
      · obtain ⟨d, o', hd⟩ := hrep e he; rw [hd]; simp
    rcases hcase with ⟨ht, _⟩ | ⟨p', ht, hconf, _⟩
    · rw [ht] at h
      have : (⟨.put, p⟩ : Ev) ∈ ([⟨.has, hh⟩, ⟨.origin, o⟩] ++ ext : List Ev) := by rw [h]; simp
      exact absurd rfl (hnp _ this)
    · rw [ht] at h
      obtain ⟨h1, h2⟩ := key _ _ pre post ⟨.put, p⟩ hnp rfl h
      refine ⟨?_, h2⟩
      intro d hd
      obtain ⟨o', ho'⟩ := hconf d hd
      exact ⟨o', by rw [h1]; exact List.mem_append_right _ ho'⟩

/-- **C33 (2)** `Exec` reports success only if the remote index answered that it already has the tag,
or every dependency was confirmed and the remote index accepted the PUT; every other run — a failed
lookup of the remote origin, a dependency that could not be replicated (202 until the backoff ran
out, 4xx, 5xx, network errors on all origins), a failed PUT — returns an error. -/
theorem exec_ok_iff (cfg : Cfg) (t : Task) (sc : Scripts) :
    (exec cfg t sc).ok = true ↔
      (exec cfg t sc).trace = [⟨.has, .ok⟩] ∨
      (∃ pre, (exec cfg t sc).trace = pre ++ [⟨.put, .ok⟩] ∧ Confirmed t.deps pre) := by
  rcases exec_shape cfg t sc with ⟨ht, hok⟩ | ⟨hh, o, ext, hne, hrep, hcase⟩
  · simp [ht, hok]
  · rcases hcase with ⟨ht, hok⟩ | ⟨p, ht, hconf, hok⟩
    · rw [hok, ht]
      constructor
      · intro h; cases h
      · rintro (h | ⟨pre, h, _⟩)
        · simp at h
        · exfalso
          have : (⟨.put, .ok⟩ : Ev) ∈ ([⟨.has, hh⟩, ⟨.origin, o⟩] ++ ext : List Ev) := by rw [h]; simp
          rcases List.mem_append.mp this with he | he
          · simp at he
          · obtain ⟨d, o', hd⟩ := hrep _ he; simp at hd
    · rw [hok, ht]
      constructor
      · intro h
        have hp : p = .ok := by simpa using h
        right
        refine ⟨[⟨.has, hh⟩, ⟨.origin, o⟩] ++ ext, by rw [hp], ?_⟩
        intro d hd
        obtain ⟨o', ho'⟩ := hconf d hd
        exact ⟨o', List.mem_append_right _ ho'⟩
      · rintro (h | ⟨pre, h, _⟩)
        · have := congrArg List.length h; simp at this
        · have := List.append_inj' h rfl
          have hp : p = .ok := by
            have := this.2; simp at this; exact this
          simp [hp]

/-- **C33 (3)** one origin is asked at most `bo + 1` times per dependency (bounded polling) -/
theorem poll_bounded (d : Digest) (o : Replica) (bo : Nat) (sc : Scripts) (tr : List Ev) :
    (pollOne d o bo sc tr).2.2.length ≤ tr.length + bo + 1 := by
  obtain ⟨ext, h1, _, _, h4⟩ := pollOne_ext d o bo sc tr
  rw [h1]; simp; omega

/-- **C33 (0)** what a 200 of a local origin to a replicate request means (the assumption the executor's
ordering rests on, tied to origin/blobserver by the `originrep` harness entry): the blob is in the
remote origin cluster when the answer is given; a blob the origin does not have is never answered 200. -/
theorem replicate_ok_means_remote_has (o : Origin) (d : Digest) (up : Bool)
    (h : (replicateToRemote o d up).2 = .ok) : d ∈ (replicateToRemote o d up).1.remote ∧ d ∈ o.cache := by
  unfold replicateToRemote at h ⊢
  by_cases hc : d ∈ o.cache
  · cases up with
    | false => simp [hc] at h
    | true =>
      simp only [hc, if_true]
      by_cases hr : d ∈ o.remote <;> simp [hr]
  · by_cases hb : d ∈ o.backend <;> simp [hc, hb] at h

/-! ### composition with the retry manager (C30) -/

/-- **C33 (4)** A replication task leaves the retry table only by an execution in which the remote
index said it has the tag or accepted it after all blobs were confirmed.  (`execStep` = a worker of
the C30 manager finishing an execution of `k` with the outcome `Exec` computed.) -/
theorem removed_only_when_replicated (cfg : Cfg) (s : Retry.State) (k : Retry.Key) (t : Task) (sc : Scripts)
    (hk : Retry.stored s k) (hl : ¬ Retry.stored (execStep cfg s k t sc).1 k) :
    (exec cfg t sc).trace = [⟨.has, .ok⟩] ∨
    (∃ pre, (exec cfg t sc).trace = pre ++ [⟨.put, .ok⟩] ∧ Confirmed t.deps pre) := by
  simp only [execStep] at hl
  rcases Retry.step_keys_lost s _ k hk hl with ⟨he, _⟩ | ⟨inv, he, _⟩
  · have : (exec cfg t sc).ok = true := by injection he
    exact (exec_ok_iff cfg t sc).mp this
  · cases he

/-- **C33 (5)** Any failure keeps the task stored and retryable (`failed`), so the retry manager —
whose poller re-enqueues failed tasks, C30 — runs it again. -/
theorem failure_is_retried (cfg : Cfg) (s : Retry.State) (g : Retry.Good s) (k : Retry.Key) (p : Retry.Pool)
    (hrun : Retry.placeOf s.own k = some (.running p)) (t : Task) (sc : Scripts)
    (hf : (exec cfg t sc).ok = false) :
    Retry.isFailed (execStep cfg s k t sc).1.rows k ∧ Retry.Good (execStep cfg s k t sc).1 := by
  simp only [execStep, hf]
  have hk := Retry.placeOf_some_mem hrun
  have hh := g.owned_hasKey hk
  refine ⟨?_, Retry.step_good s _ g⟩
  simp only [Retry.step, Retry.stepO, hrun, hh, if_true]
  exact (Retry.isFailed_markFailed _ _ _ _).mpr (Or.inl ⟨rfl, (Retry.hasKey_iff _ _).mp hh⟩)

/-- the two shapes of a successful execution's trace -/
def OkTrace (deps : List Digest) (tr : List Ev) : Prop :=
  tr = [⟨.has, .ok⟩] ∨ ∃ pre, tr = pre ++ [⟨.put, .ok⟩] ∧ Confirmed deps pre

/-- **C33 (4″)** the tag is overwritten while its replication task is stored: an `Add` for the same
(tag, destination) — whatever image digest and dependency list the new task carries (`pl'`) — has no
effect at all on the stored task: the retry still works on the image and the dependency list it was
added with (the pair stays together; tied by the monitors `payload-changed` and `put-before-blobs`, the
latter keyed on the dependencies of the image that is actually PUT). -/
theorem readd_of_stored_task_changes_nothing (cfg : Cfg) (s : CState) (k : Retry.Key) (d : Nat) (pl' : List Nat)
    (hk : Retry.stored s.r k) :
    cstep cfg s (.sys (.addBegin k d pl')) = s ∧
    Retry.payloadOf (cstep cfg s (.sys (.addBegin k d pl'))).r.rows k = Retry.payloadOf s.r.rows k := by
  have h : Retry.step s.r (.addBegin k d pl') = s.r := by
    have hh : Retry.hasKey s.r.rows k = true := (Retry.hasKey_iff _ _).mpr hk
    simp only [Retry.step, Retry.stepO]
    cases s.r.mode <;> simp [hh]
  have : cstep cfg s (.sys (.addBegin k d pl')) = s := by
    simp only [cstep, h]
  exact ⟨this, by rw [this]⟩

/-- **C33 (4′)** the same for the task as it is *stored*: the dependencies the executor works on are the
payload column of the row (what GetPending / GetFailed return, C30 `payload_stable`: never rewritten
while the task is stored), not a free parameter. -/
theorem stored_task_removed_only_when_replicated (cfg : Cfg) (s : Retry.State) (k : Retry.Key) (sc : Scripts)
    (hk : Retry.stored s k) (hl : ¬ Retry.stored (execStored cfg s k sc).1 k) :
    ∃ deps res, Retry.payloadOf s.rows k = some deps ∧ (execStored cfg s k sc).2 = some (deps, res) ∧
      res = exec cfg ⟨deps⟩ sc ∧ OkTrace deps res.trace := by
  unfold execStored at hl ⊢
  cases hp : Retry.payloadOf s.rows k with
  | none => simp only [hp] at hl; exact absurd hk hl
  | some pl =>
    cases hq : Retry.placeOf s.own k with
    | none => simp only [hp, hq] at hl; exact absurd hk hl
    | some plc =>
      cases plc with
      | running p =>
        simp only [hp, hq] at hl ⊢
        refine ⟨pl, _, rfl, rfl, rfl, ?_⟩
        rcases Retry.step_keys_lost s _ k hk hl with ⟨he, _⟩ | ⟨inv, he, _⟩
        · have : (exec cfg ⟨pl⟩ sc).ok = true := by injection he
          exact (exec_ok_iff cfg ⟨pl⟩ sc).mp this
        · cases he
      | adding => simp only [hp, hq] at hl; exact absurd hk hl
      | retrying => simp only [hp, hq] at hl; exact absurd hk hl
      | queued p => simp only [hp, hq] at hl; exact absurd hk hl

/-- **C33 (4″) history form.**  After every history of the composition (any steps of the retry manager —
adds with any dependency lists, poll passes, crashes, restarts — interleaved with executions against
arbitrary worlds): every execution that reported success has the has-200 or the
put-after-all-dependencies-confirmed trace for the dependencies stored with the task … -/
theorem every_success_replicated (cfg : Cfg) (rcfg : Retry.Config) (ops : List COp) :
    ∀ e ∈ (crun cfg rcfg ops).log, e.res.ok = true → OkTrace e.deps e.res.trace := by
  unfold crun
  suffices h : ∀ (s : CState), (∀ e ∈ s.log, e.res.ok = true → OkTrace e.deps e.res.trace) →
      ∀ e ∈ (ops.foldl (cstep cfg) s).log, e.res.ok = true → OkTrace e.deps e.res.trace from
    h _ (by simp)
  induction ops with
  | nil => intro s hs; exact hs
  | cons o rest ih =>
    intro s hs
    apply ih
    cases o with
    | sys o' => cases o' <;> exact hs
    | run k sc =>
      simp only [cstep, execStored]
      cases hp : Retry.payloadOf s.r.rows k with
      | none => exact hs
      | some pl =>
        cases hq : Retry.placeOf s.r.own k with
        | none => exact hs
        | some plc =>
          cases plc with
          | running p =>
            simp only
            intro e he hok
            rcases List.mem_append.mp he with he | he
            · exact hs e he hok
            · simp at he; subst he
              exact (exec_ok_iff cfg ⟨pl⟩ sc).mp hok
          | adding => exact hs
          | retrying => exact hs
          | queued p => exact hs

/-- … and a task leaves the table only in a step that is such an execution of that task (or the
start-up purge of a destination that is no longer configured). -/
theorem removal_is_logged (cfg : Cfg) (s : CState) (o : COp) (k : Retry.Key)
    (hk : Retry.stored s.r k) (hl : ¬ Retry.stored (cstep cfg s o).r k) :
    (∃ sc deps res, o = .run k sc ∧ (cstep cfg s o).log = s.log ++ [⟨k, deps, res⟩] ∧ res.ok = true ∧
      Retry.payloadOf s.r.rows k = some deps) ∨
    (∃ inv, o = .sys (.start inv) ∧ k ∈ inv) := by
  cases o with
  | sys o' =>
    have hstep : ∀ o'', (∀ x b, o'' ≠ Retry.Op.finish x b) → (cstep cfg s (.sys o'')).r = Retry.step s.r o'' := by
      intro o'' h; cases o'' <;> first | rfl | exact absurd rfl (h _ _)
    cases o' with
    | finish x b => exact absurd hk hl
    | start inv =>
      right
      rw [hstep _ (by intro x b h; cases h)] at hl
      rcases Retry.step_keys_lost s.r _ k hk hl with ⟨he, _⟩ | ⟨inv', he, hin, _⟩
      · cases he
      · injection he with he; subst he; exact ⟨inv, rfl, hin⟩
    | _ =>
      exfalso
      rw [hstep _ (by intro x b h; cases h)] at hl
      rcases Retry.step_keys_lost s.r _ k hk hl with ⟨he, _⟩ | ⟨inv', he, _⟩ <;> cases he
  | run x sc =>
    left
    simp only [cstep, execStored] at hl ⊢
    cases hp : Retry.payloadOf s.r.rows x with
    | none => simp only [hp] at hl; exact absurd hk hl
    | some pl =>
      cases hq : Retry.placeOf s.r.own x with
      | none => simp only [hp, hq] at hl; exact absurd hk hl
      | some plc =>
        cases plc with
        | running p =>
          simp only [hp, hq] at hl ⊢
          rcases Retry.step_keys_lost s.r _ k hk hl with ⟨he, _⟩ | ⟨inv, he, _⟩
          · injection he with hkx hok
            subst hkx
            exact ⟨sc, pl, _, rfl, rfl, hok.symm ▸ rfl, hp⟩
          · cases he
        | adding => simp only [hp, hq] at hl; exact absurd hk hl
        | retrying => simp only [hp, hq] at hl; exact absurd hk hl
        | queued p => simp only [hp, hq] at hl; exact absurd hk hl

/-! ### a cooperative world lets the replication succeed -/

/-- the first origin confirms each dependency at its next request -/
def coopDeps (o0 : Replica) : List Digest → Scripts → Option Scripts
  | [], sc => some sc
  | d :: ds, sc => if (pop sc (.rep d o0)).1 = .ok then coopDeps o0 ds (pop sc (.rep d o0)).2 else none

theorem replicateAll_coop (cfg : Cfg) (o0 : Replica) (os : List Replica) (hr : cfg.replicas = o0 :: os)
    (ds : List Digest) (sc sc' : Scripts) (tr : List Ev) (h : coopDeps o0 ds sc = some sc') :
    ∃ ext, replicateAll cfg ds sc tr = (true, sc', tr ++ ext) ∧ Confirmed ds ext := by
  induction ds generalizing sc tr with
  | nil =>
    simp only [coopDeps, Option.some.injEq] at h
    subst h
    exact ⟨[], by simp [replicateAll], fun _ hd => by cases hd⟩
  | cons d ds ih =>
    simp only [coopDeps] at h
    split at h
    · rename_i hok
      obtain ⟨ext, he, hc⟩ := ih (pop sc (.rep d o0)).2 (tr ++ [⟨.rep d o0, .ok⟩]) h
      have hpoll : poll cfg.bo d cfg.replicas sc tr = (true, (pop sc (.rep d o0)).2, tr ++ [⟨.rep d o0, .ok⟩]) := by
        rw [hr]
        simp only [poll]
        have : pollOne d o0 cfg.bo sc tr = (.success, (pop sc (.rep d o0)).2, tr ++ [⟨.rep d o0, .ok⟩]) := by
          cases hb : cfg.bo <;> simp [pollOne, hok]
        rw [this]
      refine ⟨⟨.rep d o0, .ok⟩ :: ext, ?_, ?_⟩
      · simp only [replicateAll, hpoll, he]; simp
      · intro d' hd'
        rcases List.mem_cons.mp hd' with rfl | hd'
        · exact ⟨o0, by simp⟩
        · obtain ⟨o, ho⟩ := hc d' hd'
          exact ⟨o, List.mem_cons_of_mem _ ho⟩
    · cases h

/-- **C33 (6) "retried until the remote holds the tag" can end:** whatever happened before (scripts
consumed arbitrarily by earlier failed executions), as soon as the world cooperates — the remote
index answers that it does not have the tag, names its origin, the first origin confirms every
dependency and the index accepts the PUT — the execution succeeds with the tag PUT after all blobs. -/
theorem can_replicate (cfg : Cfg) (o0 : Replica) (os : List Replica) (hr : cfg.replicas = o0 :: os)
    (t : Task) (sc sc3 : Scripts)
    (hh : (pop sc .has).1 ≠ .ok) (ho : (pop (pop sc .has).2 .origin).1 = .ok)
    (hd : coopDeps o0 t.deps (pop (pop sc .has).2 .origin).2 = some sc3) (hp : (pop sc3 .put).1 = .ok) :
    (exec cfg t sc).ok = true ∧ ∃ pre, (exec cfg t sc).trace = pre ++ [⟨.put, .ok⟩] ∧ Confirmed t.deps pre := by
  obtain ⟨ext, he, hc⟩ := replicateAll_coop cfg o0 os hr t.deps _ sc3
    ([⟨.has, (pop sc .has).1⟩] ++ [⟨.origin, (pop (pop sc .has).2 .origin).1⟩]) hd
  rw [ho] at he
  simp only [exec, hh, if_false, ho, ne_eq, not_true_eq_false, he, hp]
  refine ⟨by simp, _, rfl, ?_⟩
  intro d hd'
  obtain ⟨o, hm⟩ := hc d hd'
  exact ⟨o, List.mem_append_right _ hm⟩

/-- **C33 (6′)** Retrying can always end: whatever happened before (scripts consumed arbitrarily),
once the remote index reports the tag the execution succeeds (HEAD 200 short-cut; the cooperative
case without the short-cut is `can_replicate`). -/
theorem exec_succeeds_when_remote_has (cfg : Cfg) (t : Task) (sc : Scripts)
    (h : (pop sc .has).1 = .ok) : (exec cfg t sc).ok = true := by
  simp [exec, h]

-- non-vacuity: 202 twice then 200 on the first origin within the budget; a 5xx falls through to the
-- second origin; a 404 aborts; budget exhausted falls through; failures give no PUT
def cfg2 : Cfg := { replicas := [0, 1], bo := 2 }
def world1 : Scripts :=
  [(.has, [.client]), (.origin, [.ok]), (.rep 7 0, [.accepted, .accepted, .ok]),
   (.rep 8 0, [.server]), (.rep 8 1, [.ok]), (.put, [.ok])]
example : (exec cfg2 ⟨[7, 8]⟩ world1).ok = true := by decide
example : (exec cfg2 ⟨[7, 8]⟩ world1).trace.map (·.ep) =
    [.has, .origin, .rep 7 0, .rep 7 0, .rep 7 0, .rep 8 0, .rep 8 1, .put] := by decide
example : (exec { cfg2 with bo := 1 } ⟨[7]⟩ world1).trace.map (·.ep) = [.has, .origin, .rep 7 0, .rep 7 0, .rep 7 1] := by decide
example : (exec { cfg2 with bo := 1 } ⟨[7]⟩ world1).ok = false := by decide
example : (exec cfg2 ⟨[9]⟩ ((.rep 9 0, [.client]) :: world1)).trace.map (·.ep) = [.has, .origin, .rep 9 0] := by decide
example : Confirmed [7, 8] (exec cfg2 ⟨[7, 8]⟩ world1).trace := by decide
-- the composition: a task added with dependencies [7, 8] fails once (origin lookup fails), is marked failed,
-- survives a restart, is retried from the table with the same dependencies and removed after the PUT
def rcfg : Retry.Config := { capIn := 2, capRe := 2, nIn := 1, nRe := 1, retryInterval := 0 }
def chist : List COp :=
  [.sys (.addBegin 5 0 [7, 8]), .sys (.addEnq 5), .sys (.take .inc), .run 5 [(.has, [.client]), (.origin, [.server])],
   .sys .crash, .sys (.start []), .sys (.advance 1), .sys .pollFetch, .sys .pollMark, .sys .pollEnq, .sys (.take .ret),
   .run 5 world1]
example : (crun cfg2 rcfg chist).log.map (fun e => (e.key, e.deps, e.res.ok)) = [(5, [7, 8], false), (5, [7, 8], true)] := by decide
example : ¬ Retry.stored (crun cfg2 rcfg chist).r 5 ∧ Retry.stored (crun cfg2 rcfg (chist.take 11)).r 5 := by decide

end KrakenModel.Spec.C33
