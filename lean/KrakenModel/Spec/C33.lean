import KrakenModel.Model.TagRepl
import KrakenModel.Proof.C30
import KrakenModel.Proof.C30Live
/-
  C33  Tags reach a remote cluster only after their blobs do.
  Statements are about `Model.TagRepl.exec` (tagreplication.Executor.Exec through blobclient.Poll)
  for every task (any dependency list), every configuration (any number of origin replicas, any
  backoff budget) and every scripted behaviour of the remote index and the origin replicas
  (any mix of 200 / 202 / 4xx / 5xx / dropped connections, of any length), and about its
  composition with the retry manager of C30.
-/
namespace KrakenModel.Spec.C33
open KrakenModel KrakenModel.TagRepl

/-- every dependency of the task has a 200 answer to a replicate request in the trace -/
def Confirmed (deps : List Digest) (tr : List Ev) : Prop :=
  ∀ d ∈ deps, ∃ o, (⟨.rep d o, .ok⟩ : Ev) ∈ tr

def confirmedIn (tr : List Ev) (d : Digest) : Bool :=
  tr.any fun e => match e with
    | ⟨.rep d' _, .ok⟩ => d' == d
    | _ => false

theorem confirmedIn_iff (tr : List Ev) (d : Digest) :
    confirmedIn tr d = true ↔ ∃ o, (⟨.rep d o, .ok⟩ : Ev) ∈ tr := by
  simp only [confirmedIn, List.any_eq_true]
  constructor
  · rintro ⟨⟨ep, r⟩, he, h⟩
    cases ep <;> cases r <;> simp at h
    subst h; exact ⟨_, he⟩
  · rintro ⟨o, ho⟩; exact ⟨_, ho, by simp⟩

instance (deps : List Digest) (tr : List Ev) : Decidable (Confirmed deps tr) :=
  decidable_of_iff (∀ d ∈ deps, confirmedIn tr d = true)
    ⟨fun h d hd => (confirmedIn_iff tr d).mp (h d hd), fun h d hd => (confirmedIn_iff tr d).mpr (h d hd)⟩

/-- events appended by the polling loops are replicate requests only -/
def RepOnly (ext : List Ev) : Prop := ∀ e ∈ ext, ∃ d o, e.ep = .rep d o

theorem pollOne_ext (d : Digest) (o : Replica) (budget : Nat) (sc : Scripts) (tr : List Ev) :
    ∃ ext, (pollOne d o budget sc tr).2.2 = tr ++ ext ∧ RepOnly ext ∧
      ((pollOne d o budget sc tr).1 = .success → (⟨.rep d o, .ok⟩ : Ev) ∈ ext) ∧ ext.length ≤ budget + 1 := by
  induction budget generalizing sc tr with
  | zero =>
    unfold pollOne
    cases hr : (pop sc (.rep d o)).1 <;> simp only [hr] <;>
      exact ⟨[⟨.rep d o, _⟩], rfl, fun e he => by simp at he; exact ⟨d, o, by rw [he]⟩, by simp, by simp⟩
  | succ b ih =>
    unfold pollOne
    cases hr : (pop sc (.rep d o)).1 <;> simp only [hr]
    case accepted =>
      obtain ⟨ext, h1, h2, h3, h4⟩ := ih (pop sc (.rep d o)).2 (tr ++ [⟨.rep d o, .accepted⟩])
      refine ⟨⟨.rep d o, .accepted⟩ :: ext, by rw [h1]; simp, ?_, ?_, by simp; omega⟩
      · intro e he
        rcases List.mem_cons.mp he with rfl | he
        · exact ⟨d, o, rfl⟩
        · exact h2 e he
      · intro hs; exact List.mem_cons_of_mem _ (h3 hs)
    all_goals
      exact ⟨[⟨.rep d o, _⟩], rfl, fun e he => by simp at he; exact ⟨d, o, by rw [he]⟩, by simp, by simp⟩

theorem poll_ext (bo : Nat) (d : Digest) (os : List Replica) (sc : Scripts) (tr : List Ev) :
    ∃ ext, (poll bo d os sc tr).2.2 = tr ++ ext ∧ RepOnly ext ∧
      ((poll bo d os sc tr).1 = true → ∃ o, (⟨.rep d o, .ok⟩ : Ev) ∈ ext) := by
  induction os generalizing sc tr with
  | nil => exact ⟨[], (by simp [poll]), (fun _ h => by cases h), (by simp [poll])⟩
  | cons o os ih =>
    obtain ⟨e1, h1, h2, h3, _⟩ := pollOne_ext d o bo sc tr
    unfold poll
    cases hp : pollOne d o bo sc tr with
    | mk out rest =>
      obtain ⟨sc', tr'⟩ := rest
      rw [hp] at h1 h3
      simp only at h1 h3
      cases out with
      | success => exact ⟨e1, h1, h2, fun _ => ⟨o, h3 rfl⟩⟩
      | abort => exact ⟨e1, h1, h2, (fun h => by cases h)⟩
      | next =>
        obtain ⟨e2, g1, g2, g3⟩ := ih sc' tr'
        refine ⟨e1 ++ e2, by simp only; rw [g1, h1]; simp, ?_, ?_⟩
        · intro e he
          rcases List.mem_append.mp he with he | he
          · exact h2 e he
          · exact g2 e he
        · intro hs
          obtain ⟨o', ho'⟩ := g3 hs
          exact ⟨o', List.mem_append_right _ ho'⟩

theorem replicateAll_ext (cfg : Cfg) (ds : List Digest) (sc : Scripts) (tr : List Ev) :
    ∃ ext, (replicateAll cfg ds sc tr).2.2 = tr ++ ext ∧ RepOnly ext ∧
      ((replicateAll cfg ds sc tr).1 = true → Confirmed ds ext) := by
  induction ds generalizing sc tr with
  | nil => exact ⟨[], (by simp [replicateAll]), (fun _ h => by cases h), (fun _ d hd => by cases hd)⟩
  | cons d ds ih =>
    obtain ⟨e1, h1, h2, h3⟩ := poll_ext cfg.bo d cfg.replicas sc tr
    unfold replicateAll
    cases hp : poll cfg.bo d cfg.replicas sc tr with
    | mk ok rest =>
      obtain ⟨sc', tr'⟩ := rest
      rw [hp] at h1 h3
      simp only at h1 h3
      cases ok with
      | false => exact ⟨e1, h1, h2, (fun h => by cases h)⟩
      | true =>
        obtain ⟨e2, g1, g2, g3⟩ := ih sc' tr'
        refine ⟨e1 ++ e2, by simp only; rw [g1, h1]; simp, ?_, ?_⟩
        · intro e he
          rcases List.mem_append.mp he with he | he
          · exact h2 e he
          · exact g2 e he
        · intro hs d' hd'
          rcases List.mem_cons.mp hd' with rfl | hd'
          · obtain ⟨o, ho⟩ := h3 rfl
            exact ⟨o, List.mem_append_left _ ho⟩
          · obtain ⟨o, ho⟩ := g3 hs d' hd'
            exact ⟨o, List.mem_append_right _ ho⟩

/-- the shape of every trace of `Exec` -/
theorem exec_shape (cfg : Cfg) (t : Task) (sc : Scripts) :
    let r := exec cfg t sc
    (r.trace = [⟨.has, .ok⟩] ∧ r.ok = true) ∨
    (∃ h o ext, h ≠ .ok ∧ RepOnly ext ∧
      ((r.trace = [⟨.has, h⟩, ⟨.origin, o⟩] ++ ext ∧ r.ok = false) ∨
       (∃ p, r.trace = [⟨.has, h⟩, ⟨.origin, o⟩] ++ ext ++ [⟨.put, p⟩] ∧ Confirmed t.deps ext ∧
          r.ok = decide (p = .ok)))) := by
  intro r
  simp only [r, exec]
  by_cases hh : (pop sc .has).1 = .ok
  · left; simp [hh]
  · right
    simp only [hh, if_false]
    refine ⟨(pop sc .has).1, (pop (pop sc .has).2 .origin).1, ?_⟩
    by_cases ho : (pop (pop sc .has).2 .origin).1 = .ok
    · simp only [ho, ne_eq, not_true_eq_false, if_false]
      obtain ⟨ext, h1, h2, h3⟩ := replicateAll_ext cfg t.deps (pop (pop sc .has).2 .origin).2
        ([⟨.has, (pop sc .has).1⟩] ++ [⟨.origin, .ok⟩])
      refine ⟨ext, hh, h2, ?_⟩
      cases hr : replicateAll cfg t.deps (pop (pop sc .has).2 .origin).2
          ([⟨.has, (pop sc .has).1⟩] ++ [⟨.origin, .ok⟩]) with
      | mk ok rest =>
        obtain ⟨sc3, tr3⟩ := rest
        rw [hr] at h1 h3
        simp only at h1 h3
        cases ok with
        | false => left; simp [h1]
        | true => right; exact ⟨(pop sc3 .put).1, by simp [h1], h3 rfl, rfl⟩
    · refine ⟨[], hh, (fun _ h => by cases h), ?_⟩
      left; simp [ho]

/-- **C33 (1)** In every trace of `Exec`, a PUT of the tag to the remote index is preceded by a 200
answer of the origin cluster to a replicate request for *every* dependency (a 202 never counts),
and it is the last remote call of the execution. -/
theorem put_after_all_blobs (cfg : Cfg) (t : Task) (sc : Scripts) (pre post : List Ev) (p : Resp)
    (h : (exec cfg t sc).trace = pre ++ ⟨.put, p⟩ :: post) : Confirmed t.deps pre ∧ post = [] := by
  have key : ∀ (l : List Ev) (x : Ev) (pre post : List Ev) (y : Ev),
      (∀ e ∈ l, e.ep ≠ .put) → y.ep = .put → l ++ [x] = pre ++ y :: post → pre = l ∧ post = [] := by
    intro l
    induction l with
    | nil =>
      intro x pre post y _ _ he
      cases pre with
      | nil => simp at he; exact ⟨rfl, he.2⟩
      | cons a as =>
        simp at he
    | cons a as ih =>
      intro x pre post y hl hy he
      cases pre with
      | nil =>
        simp at he
        exact absurd (he.1 ▸ hy) (hl a (by simp))
      | cons b bs =>
        simp at he
        obtain ⟨h1, h2⟩ := ih x bs post y (fun e he' => hl e (List.mem_cons_of_mem _ he')) hy he.2
        exact ⟨by rw [he.1, h1], h2⟩
  rcases exec_shape cfg t sc with ⟨ht, _⟩ | ⟨hh, o, ext, _, hrep, hcase⟩
  · rw [ht] at h
    cases pre with
    | nil => simp at h
    | cons a as => simp at h
  · have hnp : ∀ e ∈ ([⟨.has, hh⟩, ⟨.origin, o⟩] ++ ext : List Ev), e.ep ≠ .put := by
      intro e he
      rcases List.mem_append.mp he with he | he
      · simp at he; rcases he with rfl | rfl <;> simp
      · obtain ⟨d, o', hd⟩ := hrep e he; rw [hd]; simp
    rcases hcase with ⟨ht, _⟩ | ⟨p', ht, hconf, _⟩
    · rw [ht] at h
      have : (⟨.put, p⟩ : Ev) ∈ ([⟨.has, hh⟩, ⟨.origin, o⟩] ++ ext : List Ev) := by rw [h]; simp
      exact absurd rfl (hnp _ this)
    · rw [ht] at h
      obtain ⟨h1, h2⟩ := key _ _ pre post ⟨.put, p⟩ hnp rfl h
      refine ⟨?_, h2⟩
      intro d hd
      obtain ⟨o', ho'⟩ := hconf d hd
      exact ⟨o', by rw [h1]; exact List.mem_append_right _ ho'⟩

/-- **C33 (2)** `Exec` reports success only if the remote index answered that it already has the tag,
or every dependency was confirmed and the remote index accepted the PUT; every other run — a failed
lookup of the remote origin, a dependency that could not be replicated (202 until the backoff ran
out, 4xx, 5xx, network errors on all origins), a failed PUT — returns an error. -/
theorem exec_ok_iff (cfg : Cfg) (t : Task) (sc : Scripts) :
    (exec cfg t sc).ok = true ↔
      (exec cfg t sc).trace = [⟨.has, .ok⟩] ∨
      (∃ pre, (exec cfg t sc).trace = pre ++ [⟨.put, .ok⟩] ∧ Confirmed t.deps pre) := by
  rcases exec_shape cfg t sc with ⟨ht, hok⟩ | ⟨hh, o, ext, hne, hrep, hcase⟩
  · simp [ht, hok]
  · rcases hcase with ⟨ht, hok⟩ | ⟨p, ht, hconf, hok⟩
    · rw [hok, ht]
      constructor
      · intro h; cases h
      · rintro (h | ⟨pre, h, _⟩)
        · simp at h
        · exfalso
          have : (⟨.put, .ok⟩ : Ev) ∈ ([⟨.has, hh⟩, ⟨.origin, o⟩] ++ ext : List Ev) := by rw [h]; simp
          rcases List.mem_append.mp this with he | he
          · simp at he
          · obtain ⟨d, o', hd⟩ := hrep _ he; simp at hd
    · rw [hok, ht]
      constructor
      · intro h
        have hp : p = .ok := by simpa using h
        right
        refine ⟨[⟨.has, hh⟩, ⟨.origin, o⟩] ++ ext, by rw [hp], ?_⟩
        intro d hd
        obtain ⟨o', ho'⟩ := hconf d hd
        exact ⟨o', List.mem_append_right _ ho'⟩
      · rintro (h | ⟨pre, h, _⟩)
        · have := congrArg List.length h; simp at this
        · have := List.append_inj' h rfl
          have hp : p = .ok := by
            have := this.2; simp at this; exact this
          simp [hp]

/-- **C33 (3)** one origin is asked at most `bo + 1` times per dependency (bounded polling) -/
theorem poll_bounded (d : Digest) (o : Replica) (bo : Nat) (sc : Scripts) (tr : List Ev) :
    (pollOne d o bo sc tr).2.2.length ≤ tr.length + bo + 1 := by
  obtain ⟨ext, h1, _, _, h4⟩ := pollOne_ext d o bo sc tr
  rw [h1]; simp; omega

/-! ### composition with the retry manager (C30) -/

/-- **C33 (4)** A replication task leaves the retry table only by an execution in which the remote
index said it has the tag or accepted it after all blobs were confirmed.  (`execStep` = a worker of
the C30 manager finishing an execution of `k` with the outcome `Exec` computed.) -/
theorem removed_only_when_replicated (cfg : Cfg) (s : Retry.State) (k : Retry.Key) (t : Task) (sc : Scripts)
    (hk : Retry.stored s k) (hl : ¬ Retry.stored (execStep cfg s k t sc).1 k) :
    (exec cfg t sc).trace = [⟨.has, .ok⟩] ∨
    (∃ pre, (exec cfg t sc).trace = pre ++ [⟨.put, .ok⟩] ∧ Confirmed t.deps pre) := by
  simp only [execStep] at hl
  rcases Retry.step_keys_lost s _ k hk hl with ⟨he, _⟩ | ⟨inv, he, _⟩
  · have : (exec cfg t sc).ok = true := by injection he
    exact (exec_ok_iff cfg t sc).mp this
  · cases he

/-- **C33 (5)** Any failure keeps the task stored and retryable (`failed`), so the retry manager —
whose poller re-enqueues failed tasks, C30 — runs it again. -/
theorem failure_is_retried (cfg : Cfg) (s : Retry.State) (g : Retry.Good s) (k : Retry.Key) (p : Retry.Pool)
    (hrun : Retry.placeOf s.own k = some (.running p)) (t : Task) (sc : Scripts)
    (hf : (exec cfg t sc).ok = false) :
    Retry.isFailed (execStep cfg s k t sc).1.rows k ∧ Retry.Good (execStep cfg s k t sc).1 := by
  simp only [execStep, hf]
  have hk := Retry.placeOf_some_mem hrun
  have hh := g.owned_hasKey hk
  refine ⟨?_, Retry.step_good s _ g⟩
  simp only [Retry.step, Retry.stepO, hrun, hh, if_true]
  exact (Retry.isFailed_markFailed _ _ _ _).mpr (Or.inl ⟨rfl, (Retry.hasKey_iff _ _).mp hh⟩)

/-- **C33 (6)** Retrying can always end: whatever happened before (scripts consumed arbitrarily),
once the remote index reports the tag, or answers 404 / origin / PUT with 200 while the first origin
confirms every dependency, the execution succeeds. -/
theorem exec_succeeds_when_remote_has (cfg : Cfg) (t : Task) (sc : Scripts)
    (h : (pop sc .has).1 = .ok) : (exec cfg t sc).ok = true := by
  simp [exec, h]

-- non-vacuity: 202 twice then 200 on the first origin within the budget; a 5xx falls through to the
-- second origin; a 404 aborts; budget exhausted falls through; failures give no PUT
def cfg2 : Cfg := { replicas := [0, 1], bo := 2 }
def world1 : Scripts :=
  [(.has, [.client]), (.origin, [.ok]), (.rep 7 0, [.accepted, .accepted, .ok]),
   (.rep 8 0, [.server]), (.rep 8 1, [.ok]), (.put, [.ok])]
example : (exec cfg2 ⟨[7, 8]⟩ world1).ok = true := by decide
example : (exec cfg2 ⟨[7, 8]⟩ world1).trace.map (·.ep) =
    [.has, .origin, .rep 7 0, .rep 7 0, .rep 7 0, .rep 8 0, .rep 8 1, .put] := by decide
example : (exec { cfg2 with bo := 1 } ⟨[7]⟩ world1).trace.map (·.ep) = [.has, .origin, .rep 7 0, .rep 7 0, .rep 7 1] := by decide
example : (exec { cfg2 with bo := 1 } ⟨[7]⟩ world1).ok = false := by decide
example : (exec cfg2 ⟨[9]⟩ ((.rep 9 0, [.client]) :: world1)).trace.map (·.ep) = [.has, .origin, .rep 9 0] := by decide
example : Confirmed [7, 8] (exec cfg2 ⟨[7, 8]⟩ world1).trace := by decide

end KrakenModel.Spec.C33
