import KrakenModel.Util.LTS
import KrakenModel.Model.BlobStore
import KrakenModel.Proof.BlobStore
import KrakenModel.Proof.C07
import KrakenModel.Proof.C08
import KrakenModel.Proof.C08Lru
import KrakenModel.Proof.C08Cells
/-
  C08  The memory blob store behaves like its model, and stale handles fail cleanly.

  The memory store is the same `Model.BlobStore` as the disk store (C07) plus the handles it hands
  out (`memory.File`: a pointer to the slice of one *incarnation* of a key + a private offset).
  `msys cap` is the transition system whose steps (`MAct`) are the atomic sections of the Go code:
  a store call (under the store mutex), a handle call (under the blob's slice lock), and a single
  iteration of the eviction loop on its own — so a history `acts : List MAct` is an arbitrary
  interleaving of concurrent readers/writers with `Create`s whose evictions happen one at a time.
  All statements are for every capacity and every such history (unbounded).
-/
namespace KrakenModel.Spec.C08
open KrakenModel KrakenModel.BlobStore

/-- **(1) same LRU model as the disk store.** After every interleaving of store calls, handle calls
and single evictions: reserved size = sum of live blob sizes ≤ capacity; the eviction queue is
duplicate-free and is exactly the complete blobs that are not banned. (LRU order along these
interleavings: `queue_is_lru_m` below. The per-operation theorems of Spec/C07 — eviction of a minimal
queue prefix, scopes, metadata — are statements about the same functions in an arbitrary state.) -/
theorem mem_store_is_lru_model (cap : Nat) (hcap : cap < U64) (acts : List MAct) :
    let s := ((msys cap).run acts).st
    s.size = s.blobs.total ∧ s.size ≤ s.cap ∧ s.queue.Nodup ∧
    ∀ k, k ∈ s.queue ↔ ∃ b, s.blobs.get k = some b ∧ b.complete = true ∧ b.banned = false :=
  let hg := (mgood_run hcap acts).good
  ⟨hg.sum, hg.le, hg.qnodup, hg.qmem⟩

/-- **(1') LRU order along every interleaving.** `(mtrun cap acts).lastUse k` is the index of the last
action that used `k` — store calls use blobs as in C07 (`usedKey`: successful `Open`, completing
`MarkComplete`, ban-lifting `UnbanEviction`), single evictions and handle calls use none; `mtrun` only
adds this ghost field to the run of `msys`. After every interleaving the eviction queue is strictly
ordered by last use, least recently used first. -/
theorem queue_is_lru_m (cap : Nat) (hcap : cap < U64) (acts : List MAct) :
    let t := mtrun cap acts
    t.m = (msys cap).run acts ∧ t.m.st.queue.Pairwise (fun a b => t.lastUse a < t.lastUse b) :=
  ⟨mtrun_m cap acts, (lru_mrun hcap acts).1.1⟩

/-! ### the mechanism: the slice cell and its lock (`Model.MemCells`)

The theorems (2)–(6) below are about `Model.BlobStore`, where a handle call is one atomic step and a
ghost incarnation number tells the slice of one `Create` from the next: (2), (3) and (5) hold in every
state by the definition of `hBlob`.  What they rest on in the Go code is that all handles of an
incarnation and its blob share one `*[]byte` cell, that the store nils the cell under the blob's
`sliceMu`, and that a handle call reads and writes the cell's header under the same lock.  The next
three theorems are about that protocol itself, with the calls taken apart into their steps, any number
of threads and every interleaving — and no incarnation numbers. -/

/-- **The lock keeps a nil-ed slice nil.** Once the store has executed `*b.data = nil`, the cell is nil
after every further interleaving of steps of writers, readers and further nil-ings: no `Write` /
`WriteAt` that read the header earlier writes it back later. -/
theorem niled_cell_stays_nil (n : Nat) (data : Bytes) (acts : List MemCells.CAct) :
    let s := MemCells.crun true (MemCells.cinit n data) acts
    s.niled = true → s.cell = none :=
  fun h => (MemCells.cinv_run n data acts).dead h

/-- … hence every call that looks at the cell after that answers `ErrEvicted`: a reader or a writer
that reads the header of a nil-ed cell records the evicted result (and a writer goes straight to its
unlock without a header write). -/
theorem stale_call_answers_evicted (n : Nat) (data : Bytes) (acts : List MemCells.CAct) (i : Nat) :
    let s := MemCells.crun true (MemCells.cinit n data) acts
    s.niled = true →
    (s.pcs[i]? = some .rHeld → (MemCells.cstep true s (.step i)).results.head? = some (i, .evicted)) ∧
    (∀ p off, s.pcs[i]? = some (.wHeld p off) →
      (MemCells.cstep true s (.step i)).results.head? = some (i, .evicted) ∧
      (MemCells.cstep true s (.step i)).cell = none) := by
  intro s hn
  have hc : s.cell = none := (MemCells.cinv_run n data acts).dead hn
  refine ⟨?_, ?_⟩
  · intro hp
    simp [MemCells.cstep, hp, hc, MemCells.setPc]
  · intro p off hp
    simp [MemCells.cstep, hp, hc, MemCells.setPc]

/-- **Without the lock the protocol is wrong**: the same steps with the lock steps doing nothing let a
writer that read the header before the nil-ing write it back afterwards — the evicted slice is alive
again (what the seeded change of the audit did to `WriteAt`). -/
theorem without_the_lock_a_stale_write_revives :
    let s := MemCells.crun false (MemCells.cinit 2 [1])
      [.startWrite 0 [2] 1, .step 0, .step 0,      -- writer: (no) lock, header read
       .startNil 1, .step 1, .step 1,               -- store: (no) lock, `*b.data = nil`
       .step 0]                                     -- writer: header write
    s.niled = true ∧ s.cell = some [1, 2] := by decide

-- the same schedule with the lock: the store waits, the write lands first, the cell ends up nil
example : (MemCells.crun true (MemCells.cinit 2 [1])
    [.startWrite 0 [2] 1, .step 0, .step 0, .startNil 1, .step 1, .step 1, .step 0, .step 0, .step 1, .step 1, .step 1]).cell = none := by
  decide

/-- **(2) a stale handle fails cleanly.** If the incarnation of a handle is gone (`hBlob = none`:
evicted, deleted, or the key re-created since), every operation through it reports the evicted
result, returns no bytes, and changes neither the store nor the handle. (`Read`/`ReadAt` of zero
bytes, negative offsets and a `WriteAt` whose end does not fit an `int` are answered before the blob
is looked at, as in the Go code: listed in the assumptions of the property.) -/
theorem stale_handle_fails (s : State) (h : Handle) (hd : hBlob s h = none) :
    (∀ n, n ≠ 0 → hRead s h n = (h, .evicted)) ∧
    (∀ n off, n ≠ 0 → 0 ≤ off → hReadAt s h n off = .evicted) ∧
    (∀ off w, hSeek s h off w = (h, .evicted)) ∧
    hSize s h = .minus1 ∧
    (∀ p, hWrite s h p = (s, h, .evicted)) ∧
    (∀ p off, 0 ≤ off → off.toNat + p.length ≤ maxInt → hWriteAt s h p off = (s, .evicted)) := by
  refine ⟨?_, ?_, ?_, ?_, ?_, ?_⟩
  · intro n hn; simp [hRead, hn, hd]
  · intro n off hn ho
    have : ¬ off < 0 := by omega
    simp [hReadAt, hn, this, hd]
  · intro off w; simp [hSeek, hd]
  · simp [hSize, hd]
  · intro p; simp [hWrite, hd]
  · intro p off ho hmax
    have : ¬ (off < 0 ∨ off.toNat + p.length > maxInt) := by omega
    simp [hWriteAt, this, hd]

/-- **`WriteAt` near the largest offset.** Before the repair a non-empty `WriteAt` at an offset whose
end does not fit an `int` panicked (on a live handle: the slice expression `buf[off:]` after the
wrapped-around `end` suppressed the resize) — for every blob and every such offset; the repaired
`WriteAt` (`hWriteAt`) refuses the offset and changes nothing. -/
theorem legacy_writeAt_panics_near_maxInt (data : Bytes) (off plen : Nat) (hp : 0 < plen) (hl : plen ≤ maxInt)
    (ho : off ≤ maxInt) (hend : off + plen > maxInt) (hlen : data.length < off) :
    legacyWriteAtPanics data off plen = true := by
  have h1 : (off + plen) % 18446744073709551616 = off + plen := Nat.mod_eq_of_lt (by unfold maxInt at *; omega)
  have h2 : ¬ (off + plen < 9223372036854775808) := by unfold maxInt at *; omega
  simp only [legacyWriteAtPanics, toInt64, h1, h2, if_false, Bool.and_eq_true, decide_eq_true_eq]
  refine ⟨?_, hlen⟩
  unfold maxInt at *
  omega

theorem writeAt_refuses_offsets_beyond_int (s : State) (h : Handle) (p : Bytes) (off : Int)
    (hend : off.toNat + p.length > maxInt) : hWriteAt s h p off = (s, .invalid) := by
  simp [hWriteAt, hend]

example : legacyWriteAtPanics [] 9223372036854775807 1 = true := by decide

/-- **(3) removal makes handles stale.** A handle is stale as soon as its key has no entry: after a
successful `Delete`, … -/
theorem delete_makes_stale (s : State) (h : Handle) (sc : Scope)
    (hok : output s (.delete h.key sc) = .ok) : hBlob (step s (.delete h.key sc)) h = none := by
  apply hBlob_none_of_get_none
  have hok' : (delete s h.key sc).2 = .ok := hok
  simp only [step, apply]
  rw [delete_get]; simp [hok']

/-- … after being evicted by the admission loop of a `Create` (or by a single eviction step), … -/
theorem eviction_makes_stale (s : State) (h : Handle) (space : Nat)
    (hev : h.key ∈ (ensureFree s space).2.2) : hBlob (ensureFree s space).1 h = none := by
  apply hBlob_none_of_get_none
  have := evictLoop_get space h.key s.queue s
  unfold ensureFree at hev ⊢
  rw [this]; simp [hev]

/-- … and **once stale, stale for ever**: in every interleaving, a handle of the table whose
incarnation is gone at some point has the same key and incarnation and is still stale after any
further actions — re-creating the key makes a *new* incarnation, which old handles never see. -/
theorem stale_forever (cap : Nat) (hcap : cap < U64) (acts more : List MAct) (i : Nat) (h : Handle)
    (hi : ((msys cap).run acts).hs[i]? = some h) (hd : hBlob ((msys cap).run acts).st h = none) :
    ∃ h', ((msys cap).run (acts ++ more)).hs[i]? = some h' ∧ h'.key = h.key ∧ h'.inc = h.inc ∧
      hBlob ((msys cap).run (acts ++ more)).st h' = none := by
  rw [Sys.run_append]
  have hg := mgood_run hcap acts
  generalize (msys cap).run acts = m at hi hd hg
  induction more generalizing m h with
  | nil => exact ⟨h, hi, rfl, rfl, hd⟩
  | cons a more ih =>
    have hiss : h.inc < m.st.nextInc := hg.issued h (List.mem_of_getElem? hi)
    obtain ⟨h1, h1i, h1k, h1n⟩ := mstep_handle m a i h hi
    have h1d := dead_mstep a hiss hd h1 h1k h1n
    obtain ⟨h', h2, h2k, h2n, h2d⟩ := ih h1 (mstep m a) h1i h1d (mgood_mstep hg a)
    exact ⟨h', h2, by rw [h2k, h1k], by rw [h2n, h1n], h2d⟩

/-- **(4) a live handle reads its own incarnation.** While the incarnation is live the handle reads
exactly the bytes of the blob carrying *its* incarnation number … -/
theorem live_handle_reads_own (s : State) (h : Handle) (b : Blob) (hb : hBlob s h = some b) :
    s.blobs.get h.key = some b ∧ b.inc = h.inc ∧
    (∀ n off, n ≠ 0 → 0 ≤ off → off.toNat < b.data.length →
      hReadAt s h n off = .data ((b.data.drop off.toNat).take n) (decide (((b.data.drop off.toNat).take n).length < n))) ∧
    (∀ n, n ≠ 0 → h.off < b.data.length → (hRead s h n).2 = .data ((b.data.drop h.off).take n) false) ∧
    hSize s h = .n b.data.length := by
  obtain ⟨h1, h2⟩ := hBlob_some hb
  refine ⟨h1, h2, ?_, ?_, ?_⟩
  · intro n off hn ho hlt
    have h3 : ¬ off < 0 := by omega
    have h4 : ¬ off.toNat ≥ b.data.length := by omega
    simp [hReadAt, hn, h3, hb, h4]
  · intro n hn hlt
    have h4 : ¬ h.off ≥ b.data.length := by omega
    simp [hRead, hn, hb, h4]
  · simp [hSize, hb]

/-- … incarnation numbers identify blobs: in every interleaving no two live blobs share one, every
live blob and every handle carries a number below the creation counter (so a new `Create` is a
new incarnation), … -/
theorem incarnations_unique (cap : Nat) (hcap : cap < U64) (acts : List MAct) :
    let m := (msys cap).run acts
    (∀ k k' b b', m.st.blobs.get k = some b → m.st.blobs.get k' = some b' → b.inc = b'.inc → k = k') ∧
    (∀ k b, m.st.blobs.get k = some b → b.inc < m.st.nextInc) ∧
    (∀ h ∈ m.hs, h.inc < m.st.nextInc) :=
  let hg := mgood_run hcap acts
  ⟨hg.inc.inj, hg.inc.lt, hg.issued⟩

/-- … and the bytes of an incarnation change only through writes by handles of that incarnation:
across any action, an entry is the same incarnation as before with the same bytes unless the
action is a `Write`/`WriteAt` through a handle of exactly that key and incarnation
(`writesInc`), or it is a fresh incarnation. No handle ever reads foreign bytes. -/
theorem bytes_change_only_by_own_writes (m : MState) (a : MAct) (k : Key) (b' : Blob)
    (h : (mstep m a).st.blobs.get k = some b') :
    (∃ b, m.st.blobs.get k = some b ∧ b'.inc = b.inc ∧ (b'.data = b.data ∨ writesInc m a k b.inc)) ∨
    (m.st.blobs.get k = none ∧ b'.inc = m.st.nextInc) := by
  rcases mstep_blob m a k b' h with ⟨b, hb, hi, _, hd⟩ | ⟨hn, hi, _⟩
  · exact .inl ⟨b, hb, hi, hd⟩
  · exact .inr ⟨hn, hi⟩

/-- **(5) every handle operation, in every interleaving, returns bytes of its own incarnation or
the evicted result** — the conjunction of (2) and (4) at an arbitrary point of an arbitrary
interleaving, stated for `ReadAt`. -/
theorem handle_read_own_or_evicted (cap : Nat) (acts : List MAct) (h : Handle)
    (n : Nat) (off : Int) (hn : n ≠ 0) (ho : 0 ≤ off) :
    let s := ((msys cap).run acts).st
    hReadAt s h n off = .evicted ∨
    ∃ b, s.blobs.get h.key = some b ∧ b.inc = h.inc ∧
      (hReadAt s h n off = .eof ∨
       ∃ e, hReadAt s h n off = .data ((b.data.drop off.toNat).take n) e) := by
  intro s
  have h3 : ¬ off < 0 := by omega
  cases hb : hBlob s h with
  | none => left; simp [hReadAt, hn, h3, hb]
  | some b =>
    right
    obtain ⟨h1, h2⟩ := hBlob_some hb
    refine ⟨b, h1, h2, ?_⟩
    by_cases h4 : off.toNat ≥ b.data.length
    · left; simp [hReadAt, hn, h3, hb, h4]
    · right; exact ⟨decide (((b.data.drop off.toNat).take n).length < n), by simp [hReadAt, hn, h3, hb, h4]⟩

/-- **(6) no panics**: no store call reaches a nil map entry or list node in any interleaving. -/
theorem no_panic (cap : Nat) (hcap : cap < U64) (acts : List MAct) (o : Op) :
    (output ((msys cap).run acts).st o).panics = false :=
  no_panic_of_good (mgood_run hcap acts).good o

/-! non-vacuity: a handle kept across eviction and re-creation of its key -/

def demo : List MAct :=
  [.op (.create 0 2 [1, 2]), .op (.markComplete 0), .hReadAt 0 2 0,     -- h0: incarnation 0 of key 0
   .op (.create 1 3 [9]),                                                -- evicts key 0
   .hReadAt 0 2 0,
   .op (.delete 1 .any), .op (.create 0 2 [7, 7]),                       -- key 0 again: incarnation 2, h2
   .hReadAt 0 2 0, .hReadAt 2 2 0, .hWrite 0 [5]]

example : mout ((msys 4).run (demo.take 2)) (.hReadAt 0 2 0) = .h (.data [1, 2] false) := by decide
example : mout ((msys 4).run (demo.take 4)) (.hReadAt 0 2 0) = .h .evicted := by decide
example : mout ((msys 4).run (demo.take 7)) (.hReadAt 0 2 0) = .h .evicted := by decide
example : mout ((msys 4).run (demo.take 7)) (.hReadAt 2 2 0) = .h (.data [7, 7] false) := by decide
example : mout ((msys 4).run (demo.take 9)) (.hWrite 0 [5]) = .h .evicted := by decide
example : ((msys 4).run demo).hs.map (·.inc) = [0, 1, 2] := by decide
-- an eviction step between two handle calls of a reader (fine-grained interleaving)
example : mout ((msys 4).run [.op (.create 0 2 [1, 2]), .op (.markComplete 0), .evict]) (.hSize 0) = .h .minus1 := by
  decide

end KrakenModel.Spec.C08
