import KrakenModel.Util.LTS
import KrakenModel.Model.Handout
import KrakenModel.Spec.C27
/-
  C26  Tracker handouts never include the announcer and respect priority and limits.

  Statements are about `Model.Handout` (announce handler + SortPeers with the announcer recognised by
  peer id — the repaired code) on top of the peer-store model of C27.  `Admissible` quantifies over
  every result the unstable `sort.Slice` may produce; `announce_spec` quantifies over every history
  and interleaving of the peer store (all announce sequences by any number of peers with any flags,
  clock advances and cleanups), every handout limit, every origin set and every permutation drawn by
  GetPeers.
-/
namespace KrakenModel.Spec.C26
open KrakenModel KrakenModel.PeerStore KrakenModel.Handout

theorem mem_candidates {src : Info} {peers origins : List Info} {x : Info} :
    x ∈ candidates src peers origins ↔ (x ∈ peers ∨ x ∈ origins) ∧ x.id ≠ src.id := by
  simp [candidates, List.mem_filter, List.mem_append, or_and_right]

/-- **C26 (1)** No admissible result of `SortPeers` lists the announcer. -/
theorem handout_excludes_announcer (pol : Policy) (src : Info) (peers origins out : List Info)
    (h : Admissible pol src peers origins out) : src.id ∉ out.map (·.id) := by
  intro hm
  obtain ⟨x, hx, hxid⟩ := List.mem_map.mp hm
  exact (mem_candidates.mp (h.1.mem_iff.mp hx)).2 hxid

/-- **C26 (2)** No peer twice: if the store's answer and the origin list are duplicate-free and
origins are not also agents, the handout has no two entries with the same peer id. -/
theorem handout_nodup (pol : Policy) (src : Info) (peers origins out : List Info)
    (hp : (peers.map (·.id)).Nodup) (ho : (origins.map (·.id)).Nodup)
    (hd : ∀ o, o ∈ origins → ∀ x, x ∈ peers → o.id ≠ x.id)
    (h : Admissible pol src peers origins out) : (out.map (·.id)).Nodup := by
  rw [(h.1.map (·.id)).nodup_iff]
  unfold candidates
  have hall : ((peers ++ origins).map (·.id)).Nodup := by
    rw [List.map_append, List.nodup_append]
    refine ⟨hp, ho, ?_⟩
    intro a ha b hb hab
    obtain ⟨x, hx, hxa⟩ := List.mem_map.mp ha
    obtain ⟨o, ho', hob⟩ := List.mem_map.mp hb
    exact hd o ho' x hx (by rw [hob, hxa]; exact hab.symm)
  exact (List.filter_sublist.map _).nodup hall

/-- **C26 (3)** Size: at most what the store returned plus the origins. -/
theorem handout_length (pol : Policy) (src : Info) (peers origins out : List Info)
    (h : Admissible pol src peers origins out) : out.length ≤ peers.length + origins.length := by
  rw [h.1.length_eq]
  unfold candidates
  exact Nat.le_trans (List.length_filter_le _ _) (by simp)

/-- every entry of the handout comes from the store's answer or the origin list -/
theorem handout_subset (pol : Policy) (src : Info) (peers origins out : List Info)
    (h : Admissible pol src peers origins out) : ∀ x, x ∈ out → x ∈ peers ∨ x ∈ origins :=
  fun x hx => (mem_candidates.mp (h.1.mem_iff.mp hx)).1

/-- and nobody but the announcer is dropped -/
theorem handout_complete (pol : Policy) (src : Info) (peers origins out : List Info)
    (h : Admissible pol src peers origins out) :
    ∀ x, (x ∈ peers ∨ x ∈ origins) → x.id ≠ src.id → x ∈ out :=
  fun x hx hne => h.1.mem_iff.mpr (mem_candidates.mpr ⟨hx, hne⟩)

theorem sorted_tiers (pol : Policy) : ∀ (l : List Info), Sorted pol l → (∀ x, x ∈ l → prio pol x ≤ 2) →
    l = l.filter (fun x => prio pol x = 0) ++ l.filter (fun x => prio pol x = 1) ++
        l.filter (fun x => prio pol x = 2) := by
  intro l
  induction l with
  | nil => intro _ _; rfl
  | cons a l ih =>
    intro hs hb
    obtain ⟨ha, hl⟩ := List.pairwise_cons.mp hs
    have ih' := ih hl (fun x hx => hb x (List.mem_cons_of_mem _ hx))
    have hab := hb a (List.mem_cons_self ..)
    have hge : ∀ x, x ∈ l → prio pol a ≤ prio pol x := ha
    rcases (by omega : prio pol a = 0 ∨ prio pol a = 1 ∨ prio pol a = 2) with h0 | h1 | h2
    · simp only [List.filter_cons, h0, decide_true, if_true]
      simp only [show (0 : Nat) ≠ 1 from by decide, show (0 : Nat) ≠ 2 from by decide, decide_false,
        Bool.false_eq_true, if_false, List.cons_append]
      exact congrArg _ ih'
    · have e0 : l.filter (fun x => prio pol x = 0) = [] := by
        apply List.filter_eq_nil_iff.mpr
        intro y hy; have := hge y hy; simp; omega
      simp only [List.filter_cons, h1, show (1 : Nat) ≠ 0 from by decide, show (1 : Nat) ≠ 2 from by decide,
        decide_false, decide_true, Bool.false_eq_true, if_false, if_true]
      rw [e0] at ih' ⊢
      simp only [List.nil_append, List.cons_append] at ih' ⊢
      exact congrArg _ ih'
    · have e0 : l.filter (fun x => prio pol x = 0) = [] := by
        apply List.filter_eq_nil_iff.mpr
        intro y hy; have := hge y hy; simp; omega
      have e1 : l.filter (fun x => prio pol x = 1) = [] := by
        apply List.filter_eq_nil_iff.mpr
        intro y hy; have := hge y hy; simp; omega
      simp only [List.filter_cons, h2, show (2 : Nat) ≠ 0 from by decide, show (2 : Nat) ≠ 1 from by decide,
        decide_false, decide_true, Bool.false_eq_true, if_false, if_true]
      rw [e0, e1] at ih' ⊢
      simp only [List.nil_append] at ih' ⊢
      exact congrArg _ ih'

theorem prio_le_two (pol : Policy) (x : Info) : prio pol x ≤ 2 := by
  cases pol <;> simp only [prio] <;> (try split) <;> (try split) <;> omega

/-- **C26 (4)** Order: the handout is ordered by the configured priority; under the completeness
policy it is the completed agents, then the origins, then the incomplete agents. -/
theorem handout_order (pol : Policy) (src : Info) (peers origins out : List Info)
    (h : Admissible pol src peers origins out) :
    out.Pairwise (fun a b => prio pol a ≤ prio pol b) ∧
    (pol = .completeness →
      out = out.filter (fun x => !x.origin && x.complete) ++ out.filter (fun x => x.origin) ++
            out.filter (fun x => !x.origin && !x.complete)) := by
  refine ⟨h.2, ?_⟩
  intro hpol
  subst hpol
  have := sorted_tiers .completeness out h.2 (fun x _ => prio_le_two _ x)
  have f0 : out.filter (fun x => prio .completeness x = 0) = out.filter (fun x => !x.origin && x.complete) := by
    apply List.filter_congr; intro x _
    cases ho : x.origin <;> cases hc : x.complete <;> simp [prio, ho, hc]
  have f1 : out.filter (fun x => prio .completeness x = 1) = out.filter (fun x => x.origin) := by
    apply List.filter_congr; intro x _
    cases ho : x.origin <;> cases hc : x.complete <;> simp [prio, ho, hc]
  have f2 : out.filter (fun x => prio .completeness x = 2) = out.filter (fun x => !x.origin && !x.complete) := by
    apply List.filter_congr; intro x _
    cases ho : x.origin <;> cases hc : x.complete <;> simp [prio, ho, hc]
  rw [f0, f1, f2] at this
  exact this

/-- **C26 (5)** An announcer that reports completion gets an empty handout (whatever is stored). -/
theorem complete_gets_nothing (src : Info) (peers origins out : List Info) (hc : src.complete = true) :
    respond src peers origins out = .handout [] := by
  simp [respond, hc]

/-- the handler answers 500 only when neither store returned anything -/
theorem no_peers_iff (src : Info) (peers origins out : List Info) :
    respond src peers origins out = .noPeers ↔ src.complete = false ∧ peers = [] ∧ origins = [] := by
  unfold respond
  cases hc : src.complete <;> simp

/-- an admissible result always exists (a stable sort is one): the statements are not vacuous -/
theorem sortStable_admissible (pol : Policy) (src : Info) (peers origins : List Info) :
    Admissible pol src peers origins (sortStable pol (candidates src peers origins)) := by
  refine ⟨List.mergeSort_perm _ _, ?_⟩
  unfold Sorted sortStable
  have := List.pairwise_mergeSort (le := fun a b => decide (prio pol a ≤ prio pol b))
    (by intro a b c hab hbc; simp at *; omega) (by intro a b; simp; omega) (candidates src peers origins)
  simpa using this

/-- **C26 (6)** The announce response, for every history and interleaving of the peer store: when the
announcer's lookup (any limit `n`, any permutation) returns `r`, every result of
`SortPeers(src, r ++ origins)` — for every origin list whose peers are distinct and do not announce —
omits the announcer, lists no peer twice, has at most `max n 0` agents' worth of entries plus the
origins, is ordered by priority, and every agent in it is a stored entry of the lookup's group
(by C27: the agent's most recent announcement). -/
theorem announce_spec (ttl : Nat) (acts : List Act) (t : Nat) (perm : List Nat) (r : List Info)
    (h : Hash) (gid : Nat) (n : Int)
    (ht : tget ((C27.sys ttl).run acts) t = .getHold h gid n)
    (hr : getOut ((C27.sys ttl).run acts) t perm = some r)
    (pol : Policy) (src : Info) (origins out : List Info)
    (ho : (origins.map (·.id)).Nodup) (hd : ∀ o, o ∈ origins → ∀ x, x ∈ r → o.id ≠ x.id)
    (hadm : Admissible pol src r origins out) :
    src.id ∉ out.map (·.id) ∧ (out.map (·.id)).Nodup ∧
    (out.length : Int) ≤ max n 0 + origins.length ∧
    out.Pairwise (fun a b => prio pol a ≤ prio pol b) ∧
    (∀ x, x ∈ out → x ∈ origins ∨
      ∃ g e, ((C27.sys ttl).run acts).heap[gid]? = some g ∧ e ∈ g.list ∧ x = e.info) := by
  obtain ⟨hlen, hnd, hmem⟩ := C27.get_spec ttl acts t perm r h gid n ht hr
  refine ⟨handout_excludes_announcer pol src r origins out hadm,
    handout_nodup pol src r origins out hnd ho hd hadm, ?_, hadm.2, ?_⟩
  · have := handout_length pol src r origins out hadm
    omega
  · intro x hx
    rcases handout_subset pol src r origins out hadm x hx with h1 | h1
    · right
      obtain ⟨g, e, h2, h3, h4, _⟩ := hmem x h1
      exact ⟨g, e, h2, h3, h4⟩
    · exact Or.inl h1

/-! Non-vacuity on literals -/

def pa : Info := ⟨1, 1, 10, false, false⟩   -- the announcer, incomplete
def pb : Info := ⟨2, 1, 11, false, true⟩    -- a seeder
def pc : Info := ⟨3, 1, 12, false, false⟩   -- another leecher
def o0 : Info := ⟨100, 2, 1, true, true⟩    -- an origin

example : Admissible .completeness pa [pa, pc, pb] [o0] [pb, o0, pc] := ⟨by decide, by decide⟩
example : ¬ Admissible .completeness pa [pa, pc, pb] [o0] [pb, pc, o0] := fun h => absurd h.2 (by decide)
example : ¬ Admissible .completeness pa [pa, pc, pb] [o0] [pa, pb, o0, pc] := fun h => absurd h.1 (by decide)
example : respond pa [pa] [] [] = .handout [] := by decide
example : respond pa [] [] [] = .noPeers := by decide
-- a store that returned the announcer under another object identity is still filtered
example : candidates pa [{ pa with port := 99 }] [] = [] := by decide

end KrakenModel.Spec.C26
