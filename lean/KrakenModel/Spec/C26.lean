import KrakenModel.Util.LTS
import KrakenModel.Model.Handout
import KrakenModel.Spec.C27
/-
  C26  Tracker handouts never include the announcer and respect priority and limits.

  Statements are about `Model.Handout` (announce handler + SortPeers with the announcer recognised by
  peer id and every peer id kept once — the repaired code) on top of the peer-store model of C27.  `Admissible` quantifies over
  every result the unstable `sort.Slice` may produce; `announce_spec` quantifies over every history
  and interleaving of the peer store (all announce sequences by any number of peers with any flags,
  clock advances and cleanups), every handout limit, every origin set and every permutation drawn by
  GetPeers.
-/
namespace KrakenModel.Spec.C26
open KrakenModel KrakenModel.PeerStore KrakenModel.Handout

/-! ### the `seen` map -/

theorem dedupAux_spec (l : List Info) : ∀ (seen : List Nat),
    ((dedupAux seen l).map (·.id)).Nodup ∧
    (∀ x, x ∈ dedupAux seen l → x ∈ l ∧ x.id ∉ seen) ∧
    (∀ x, x ∈ l → x.id ∉ seen → x.id ∈ (dedupAux seen l).map (·.id)) ∧
    (dedupAux seen l).Sublist l := by
  induction l with
  | nil => intro seen; simp [dedupAux]
  | cons a l ih =>
    intro seen
    simp only [dedupAux]
    split
    · rename_i hs
      obtain ⟨h1, h2, h3, h4⟩ := ih seen
      refine ⟨h1, ?_, ?_, h4.cons a⟩
      · intro x hx; obtain ⟨hx1, hx2⟩ := h2 x hx; exact ⟨List.mem_cons_of_mem _ hx1, hx2⟩
      · intro x hx hns
        rcases List.mem_cons.mp hx with e | e
        · subst e; exact absurd hs hns
        · exact h3 x e hns
    · rename_i hs
      obtain ⟨h1, h2, h3, h4⟩ := ih (a.id :: seen)
      refine ⟨?_, ?_, ?_, h4.cons₂ a⟩
      · simp only [List.map_cons, List.nodup_cons]
        refine ⟨?_, h1⟩
        intro hm
        obtain ⟨x, hx, hxa⟩ := List.mem_map.mp hm
        exact (h2 x hx).2 (by rw [hxa]; exact List.mem_cons_self ..)
      · intro x hx
        rcases List.mem_cons.mp hx with e | e
        · subst e; exact ⟨List.mem_cons_self .., hs⟩
        · obtain ⟨hx1, hx2⟩ := h2 x e
          exact ⟨List.mem_cons_of_mem _ hx1, fun h => hx2 (List.mem_cons_of_mem _ h)⟩
      · intro x hx hns
        simp only [List.map_cons, List.mem_cons]
        by_cases hid : x.id = a.id
        · exact Or.inl hid
        · right
          rcases List.mem_cons.mp hx with e | e
          · subst e; exact absurd rfl hid
          · exact h3 x e (by simp only [List.mem_cons, not_or]; exact ⟨hid, hns⟩)

theorem mem_candidates {src : Info} {peers origins : List Info} {x : Info}
    (h : x ∈ candidates src peers origins) : (x ∈ peers ∨ x ∈ origins) ∧ x.id ≠ src.id := by
  unfold candidates dedupById at h
  have := ((dedupAux_spec _ []).2.1 x h).1
  simpa [List.mem_filter, List.mem_append, or_and_right] using this

/-- **C26 (1)** No admissible result of `SortPeers` lists the announcer — whatever the stores
returned (also the announcer under another address, port or flag, or several times). -/
theorem handout_excludes_announcer (pol : Policy) (src : Info) (peers origins out : List Info)
    (h : Admissible pol src peers origins out) : src.id ∉ out.map (·.id) := by
  intro hm
  obtain ⟨x, hx, hxid⟩ := List.mem_map.mp hm
  exact (mem_candidates (h.1.mem_iff.mp hx)).2 hxid

/-- **C26 (2)** No peer twice — unconditionally: whatever the peer store and the origin store
returned (duplicate ids, an origin that also announces), the handout has no two entries with the
same peer id. -/
theorem handout_nodup (pol : Policy) (src : Info) (peers origins out : List Info)
    (h : Admissible pol src peers origins out) : (out.map (·.id)).Nodup := by
  rw [(h.1.map (·.id)).nodup_iff]
  exact (dedupAux_spec _ []).1

/-- **C26 (3)** Size: at most what the store returned plus the origins. -/
theorem handout_length (pol : Policy) (src : Info) (peers origins out : List Info)
    (h : Admissible pol src peers origins out) : out.length ≤ peers.length + origins.length := by
  rw [h.1.length_eq]
  unfold candidates dedupById
  exact Nat.le_trans ((dedupAux_spec _ []).2.2.2.length_le)
    (Nat.le_trans (List.length_filter_le _ _) (by simp))

/-- every entry of the handout comes from the store's answer or the origin list -/
theorem handout_subset (pol : Policy) (src : Info) (peers origins out : List Info)
    (h : Admissible pol src peers origins out) : ∀ x, x ∈ out → x ∈ peers ∨ x ∈ origins :=
  fun x hx => (mem_candidates (h.1.mem_iff.mp hx)).1

/-- and no peer id but the announcer's is dropped -/
theorem handout_complete (pol : Policy) (src : Info) (peers origins out : List Info)
    (h : Admissible pol src peers origins out) :
    ∀ x, (x ∈ peers ∨ x ∈ origins) → x.id ≠ src.id → x.id ∈ out.map (·.id) := by
  intro x hx hne
  rw [(h.1.map (·.id)).mem_iff]
  unfold candidates dedupById
  apply (dedupAux_spec _ []).2.2.1 x _ (by simp)
  simp only [List.mem_filter, List.mem_append]
  exact ⟨hx, by simpa using hne⟩

theorem sorted_tiers (pol : Policy) : ∀ (l : List Info), Sorted pol l → (∀ x, x ∈ l → prio pol x ≤ 2) →
    l = l.filter (fun x => prio pol x = 0) ++ l.filter (fun x => prio pol x = 1) ++
        l.filter (fun x => prio pol x = 2) := by
  intro l
  induction l with
  | nil => intro _ _; rfl
  | cons a l ih =>
    intro hs hb
    obtain ⟨ha, hl⟩ := List.pairwise_cons.mp hs
    have ih' := ih hl (fun x hx => hb x (List.mem_cons_of_mem _ hx))
    have hab := hb a (List.mem_cons_self ..)
    have hge : ∀ x, x ∈ l → prio pol a ≤ prio pol x := ha
    rcases (by omega : prio pol a = 0 ∨ prio pol a = 1 ∨ prio pol a = 2) with h0 | h1 | h2
    · simp only [List.filter_cons, h0, decide_true, if_true]
      simp only [show (0 : Nat) ≠ 1 from by decide, show (0 : Nat) ≠ 2 from by decide, decide_false,
        Bool.false_eq_true, if_false, List.cons_append]
      exact congrArg _ ih'
    · have e0 : l.filter (fun x => prio pol x = 0) = [] := by
        apply List.filter_eq_nil_iff.mpr
        intro y hy; have := hge y hy; simp; omega
      simp only [List.filter_cons, h1, show (1 : Nat) ≠ 0 from by decide, show (1 : Nat) ≠ 2 from by decide,
        decide_false, decide_true, Bool.false_eq_true, if_false, if_true]
      rw [e0] at ih' ⊢
      simp only [List.nil_append, List.cons_append] at ih' ⊢
      exact congrArg _ ih'
    · have e0 : l.filter (fun x => prio pol x = 0) = [] := by
        apply List.filter_eq_nil_iff.mpr
        intro y hy; have := hge y hy; simp; omega
      have e1 : l.filter (fun x => prio pol x = 1) = [] := by
        apply List.filter_eq_nil_iff.mpr
        intro y hy; have := hge y hy; simp; omega
      simp only [List.filter_cons, h2, show (2 : Nat) ≠ 0 from by decide, show (2 : Nat) ≠ 1 from by decide,
        decide_false, decide_true, Bool.false_eq_true, if_false, if_true]
      rw [e0, e1] at ih' ⊢
      simp only [List.nil_append] at ih' ⊢
      exact congrArg _ ih'

theorem prio_le_two (pol : Policy) (x : Info) : prio pol x ≤ 2 := by
  cases pol <;> simp only [prio] <;> (try split) <;> (try split) <;> omega

/-- **C26 (4)** Order: the handout is ordered by the configured priority; under the completeness
policy it is the completed agents, then the origins, then the incomplete agents. -/
theorem handout_order (pol : Policy) (src : Info) (peers origins out : List Info)
    (h : Admissible pol src peers origins out) :
    out.Pairwise (fun a b => prio pol a ≤ prio pol b) ∧
    (pol = .completeness →
      out = out.filter (fun x => !x.origin && x.complete) ++ out.filter (fun x => x.origin) ++
            out.filter (fun x => !x.origin && !x.complete)) := by
  refine ⟨h.2, ?_⟩
  intro hpol
  subst hpol
  have := sorted_tiers .completeness out h.2 (fun x _ => prio_le_two _ x)
  have f0 : out.filter (fun x => prio .completeness x = 0) = out.filter (fun x => !x.origin && x.complete) := by
    apply List.filter_congr; intro x _
    cases ho : x.origin <;> cases hc : x.complete <;> simp [prio, ho, hc]
  have f1 : out.filter (fun x => prio .completeness x = 1) = out.filter (fun x => x.origin) := by
    apply List.filter_congr; intro x _
    cases ho : x.origin <;> cases hc : x.complete <;> simp [prio, ho, hc]
  have f2 : out.filter (fun x => prio .completeness x = 2) = out.filter (fun x => !x.origin && !x.complete) := by
    apply List.filter_congr; intro x _
    cases ho : x.origin <;> cases hc : x.complete <;> simp [prio, ho, hc]
  rw [f0, f1, f2] at this
  exact this

/-- the completion short-circuit of `getPeerHandout` (definitional; the clause is part of `announce_spec`) -/
theorem complete_gets_nothing (src : Info) (peers origins out : List Info) (hc : src.complete = true) :
    respond src peers origins out = .handout [] := by
  simp [respond, hc]

/-- the handler answers 500 only when neither store returned anything -/
theorem no_peers_iff (src : Info) (peers origins out : List Info) :
    respond src peers origins out = .noPeers ↔ src.complete = false ∧ peers = [] ∧ origins = [] := by
  unfold respond
  cases hc : src.complete <;> simp

/-- an admissible result always exists (a stable sort is one): the statements are not vacuous -/
theorem sortStable_admissible (pol : Policy) (src : Info) (peers origins : List Info) :
    Admissible pol src peers origins (sortStable pol (candidates src peers origins)) := by
  refine ⟨List.mergeSort_perm _ _, ?_⟩
  unfold Sorted sortStable
  have := List.pairwise_mergeSort (le := fun a b => decide (prio pol a ≤ prio pol b))
    (by intro a b c hab hbc; simp at *; omega) (by intro a b; simp; omega) (candidates src peers origins)
  simpa using this

/-- **C26 (5)** The announce response, for every history and interleaving of the peer store
(announce sequences by any number of peers with any flags, clock advances, cleanups): when the
announcer's lookup `GetPeers(h, effLimit cfg.limit)` (any permutation) returns `r`, then for every
origin list and every result `out` the unstable sort may produce, the handler's answer
`respond src r origins out` is
  * 500 only if the announcer is incomplete and neither store returned anything;
  * otherwise a handout that is empty for a completed announcer, omits the announcer, lists no peer id
    twice, has at most `max (effLimit cfg.limit) 0 + |origins|` entries, is ordered by priority, and
    consists of origins and stored entries of the lookup's group (by C27: most recent announcements). -/
theorem announce_spec (ttl : Nat) (acts : List Act) (t : Nat) (perm : List Nat) (r : List Info)
    (h : Hash) (gid : Nat) (cfg : Cfg)
    (ht : tget ((C27.sys ttl).run acts) t = .getHold h gid (effLimit cfg.limit))
    (hr : getOut ((C27.sys ttl).run acts) t perm = some r)
    (src : Info) (origins out : List Info) (hadm : Admissible cfg.pol src r origins out) :
    match respond src r origins out with
    | .noPeers => src.complete = false ∧ r = [] ∧ origins = []
    | .handout l =>
      (src.complete = true → l = []) ∧ src.id ∉ l.map (·.id) ∧ (l.map (·.id)).Nodup ∧
      (l.length : Int) ≤ max (effLimit cfg.limit) 0 + origins.length ∧
      l.Pairwise (fun a b => prio cfg.pol a ≤ prio cfg.pol b) ∧
      (∀ x, x ∈ l → x ∈ origins ∨
        ∃ g e, ((C27.sys ttl).run acts).heap[gid]? = some g ∧ e ∈ g.list ∧ x = e.info) := by
  obtain ⟨hlen, _, hmem⟩ := C27.get_spec ttl acts t perm r h gid (effLimit cfg.limit) ht hr
  by_cases hc : src.complete = true
  · have e : respond src r origins out = .handout [] := by simp [respond, hc]
    rw [e]
    refine ⟨fun _ => rfl, by simp, by simp, ?_, List.Pairwise.nil, by simp⟩
    simp only [List.length_nil]; omega
  · by_cases he : r ++ origins = []
    · have e : respond src r origins out = .noPeers := by simp [respond, hc, he]
      rw [e]
      have he' := List.append_eq_nil_iff.mp he
      exact ⟨by simpa using hc, he'.1, he'.2⟩
    · have e : respond src r origins out = .handout out := by simp [respond, hc, he]
      rw [e]
      refine ⟨fun h => absurd h hc, handout_excludes_announcer cfg.pol src r origins out hadm,
        handout_nodup cfg.pol src r origins out hadm, ?_, hadm.2, ?_⟩
      · have := handout_length cfg.pol src r origins out hadm
        omega
      · intro x hx
        rcases handout_subset cfg.pol src r origins out hadm x hx with h1 | h1
        · right
          obtain ⟨g, e, h2, h3, h4, _⟩ := hmem x h1
          exact ⟨g, e, h2, h3, h4⟩
        · exact Or.inl h1

/-- the executable sequential handler `announceSeq` answers with such a response: its lookup is the
thread's `getHold` with the defaulted limit and its order is an admissible one -/
theorem announceSeq_admissible (cfg : Cfg) (src : Info) (peers origins : List Info) :
    Admissible cfg.pol src peers origins (sortStable cfg.pol (candidates src peers origins)) :=
  sortStable_admissible cfg.pol src peers origins

/-! Non-vacuity on literals -/

def pa : Info := ⟨1, 1, 10, false, false⟩   -- the announcer, incomplete
def pb : Info := ⟨2, 1, 11, false, true⟩    -- a seeder
def pc : Info := ⟨3, 1, 12, false, false⟩   -- another leecher
def o0 : Info := ⟨100, 2, 1, true, true⟩    -- an origin

example : Admissible .completeness pa [pa, pc, pb] [o0] [pb, o0, pc] := ⟨by decide, by decide⟩
example : ¬ Admissible .completeness pa [pa, pc, pb] [o0] [pb, pc, o0] := fun h => absurd h.2 (by decide)
example : ¬ Admissible .completeness pa [pa, pc, pb] [o0] [pa, pb, o0, pc] := fun h => absurd h.1 (by decide)
example : respond pa [pa] [] [] = .handout [] := by decide
example : respond pa [] [] [] = .noPeers := by decide
-- a store that returned the announcer under another object identity is still filtered
example : candidates pa [{ pa with port := 99 }] [] = [] := by decide
-- a peer id listed twice by the store (two endpoints) and an origin that also announced are handed out once
example : candidates pa [pb, { pb with port := 99 }, pc] [o0, { o0 with ip := 7 }, { pc with origin := true }] = [pb, pc, o0] := by decide

end KrakenModel.Spec.C26
