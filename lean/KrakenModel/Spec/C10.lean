import KrakenModel.Model.FileCleanup
import KrakenModel.Model.ForceCleanup
import KrakenModel.Proof.C10
import KrakenModel.Proof.C10Pass
import KrakenModel.Proof.C10Inv
import KrakenModel.Proof.C10Evict
import KrakenModel.Model.CommitWB
/-
  C10  Files awaiting write-back are never deleted; cleanup removes exactly idle files.

  Statements are about `Model.FileCleanup` (a cache file store with the LRU file map of
  lib/store/base and the cleanup passes of lib/store/cleanup.go) and `Model.ForceCleanup`
  (origin/blobserver's forced cleanup).  Histories are unbounded lists of operations over any number
  of files with arbitrary sizes, ages, access times, persist flags, map capacities, cleanup
  configurations and injected disk usages.
-/
namespace KrakenModel.Spec.C10
open KrakenModel KrakenModel.FileCleanup KrakenModel.Proof.C10

/-! ## (1) a file marked as awaiting write-back is never removed -/

/-- the operation clears the persist flag of `n` (the only way to unprotect a file) -/
def clears (o : Op) (n : Name) : Prop := o = .persist n false ∨ o = .unpersist n

instance (o : Op) (n : Name) : Decidable (clears o n) := by unfold clears; exact inferInstance

/-- **C10 (1a)** In every state, whatever single operation runs next — a delete request for the file
or any other, an access that reloads an entry and makes the LRU map evict its oldest entry, a normal or
aggressive TTL pass, a usage-driven policy pass, a run of the periodic job (defaults applied, mode chosen
from the disk usage), with any configuration and disk usage — a file whose
persist flag is true is still on disk with the flag set, unless the operation is the clearing of that
very flag. -/
theorem persisted_survives_step (s : State) (o : Op) (n : Name) (hp : Protected s n) (hc : ¬ clears o n) :
    Protected (step s o) n := by
  cases o with
  | create m size => exact create_prot hp m size
  | setMtime m t => exact updFile_prot hp m _ (fun _ _ h => h)
  | read m => exact access_prot hp m
  | stat m => exact peek_prot hp m
  | persist m b =>
    simp only [step, setPersist]
    have ha := access_prot hp m
    cases hacc : access s m with
    | mk s1 r =>
      rw [hacc] at ha
      cases r with
      | ok =>
        refine updFile_prot ha m _ ?_
        intro e f _
        subst e
        cases b with
        | true => rfl
        | false => exact absurd (Or.inl rfl) hc
      | notExist => exact ha
      | exist => exact ha
      | persisted => exact ha
  | unpersist m =>
    simp only [step, unpersist]
    have ha := access_prot hp m
    have hne : n ≠ m := fun e => hc (Or.inr (by rw [e]))
    cases hacc : access s m with
    | mk s1 r =>
      rw [hacc] at ha
      cases r with
      | ok => exact updFile_prot ha m _ (fun e => absurd e hne)
      | notExist => exact ha
      | exist => exact ha
      | persisted => exact ha
  | setLat m t =>
    simp only [step, setLat]
    have ha := access_prot hp m
    cases hacc : access s m with
    | mk s1 r =>
      rw [hacc] at ha
      cases r with
      | ok => exact updFile_prot ha m _ (fun _ _ h => h)
      | notExist => exact ha
      | exist => exact ha
      | persisted => exact ha
  | delete m => exact delete_prot hp m
  | tick dt => exact prot_files hp rfl
  | cleanupTTL tti ttl p u => exact cleanupTTL_prot hp tti ttl p u
  | cleanupPolicy p u => exact cleanupPolicy_prot hp p u
  | job interval c util u =>
    simp only [step, jobCleanup]
    have hp' : Protected { s with now := s.now + interval } n := prot_files hp rfl
    split
    · exact cleanupPolicy_prot hp' _ u
    · split
      · exact cleanupTTL_prot hp' _ _ _ u
      · exact cleanupTTL_prot hp' _ _ _ u

/-- **C10 (1b)** Hence for every history that never clears the flag of `n`: once marked, the file stays
on disk through any interleaving of accesses, flag changes of other files, deletes, LRU evictions and
reloads on a bounded map, clock advances and cleanup passes of every kind. -/
theorem persisted_survives (ops : List Op) (n : Name) (hnc : ∀ o ∈ ops, ¬ clears o n) :
    ∀ s : State, Protected s n → Protected (ops.foldl step s) n := by
  induction ops with
  | nil => intro s h; exact h
  | cons o ops ih =>
    intro s h
    exact ih (fun o' ho' => hnc o' (List.mem_cons_of_mem _ ho')) _
      (persisted_survives_step s o n h (hnc o List.mem_cons_self))

/-! ### (1c) inside an eviction: every interleaving -/

/-- what the eviction in flight has decided is consistent with the flags: it never plans to remove a
protected file -/
def EvOK (x : XState) : Prop := ∀ m, x.ev = .decided m true → ¬ Protected x.s m

theorem touches_persist (m : Name) : (Op.persist m true).touches m = true := by simp [Op.touches]

theorem xstep_safe (x : XState) (a : Act) (n : Name) (hp : Protected x.s n) (hev : EvOK x)
    (hc : ∀ o, a = .api o → ¬ clears o n) :
    Protected (xstep .unmapLast x a).s n ∧ EvOK (xstep .unmapLast x a) := by
  cases a with
  | insert k size =>
    simp only [xstep]
    split
    · exact ⟨hp, hev⟩
    · rename_i hfresh
      have hnf : KV.has x.s.files k = false := by
        cases h : KV.has x.s.files k with
        | false => rfl
        | true => simp [h] at hfresh
      refine ⟨?_, ?_⟩
      · have hne : n ≠ k := by
          intro e; subst e
          obtain ⟨f, hf, _⟩ := hp
          simp [KV.has, hf] at hnf
        obtain ⟨f, hf, hpp⟩ := hp
        exact ⟨f, by simpa [createInsert, KV.get_put_ne _ _ hne] using hf, hpp⟩
      · intro m hm hpm
        refine hev m hm ?_
        have : Evict.NoNew x.s (createInsert x.s k size) m := by
          unfold createInsert
          exact (Evict.noNew_put (s := x.s) _ (fun _ h => by cases h)).trans (Evict.NoNew.of_files rfl)
        exact this hpm
  | begin =>
    simp only [xstep]
    cases hx : x.ev with
    | idle =>
      simp only
      split
      · exact ⟨hp, hev⟩
      · split
        · exact ⟨hp, hev⟩
        · simp only [if_neg (by decide : ¬ Order.unmapLast = Order.unmapFirst)]
          exact ⟨hp, fun m hm => by cases hm⟩
    | locked m => exact ⟨hp, hev⟩
    | decided m d => exact ⟨hp, hev⟩
  | check =>
    simp only [xstep]
    cases hx : x.ev with
    | idle => exact ⟨hp, hev⟩
    | decided m d => exact ⟨hp, hev⟩
    | locked m =>
      simp only
      refine ⟨hp, ?_⟩
      intro m' hm'
      simp only [Ev.decided.injEq] at hm'
      obtain ⟨e, hd⟩ := hm'
      subst e
      rintro ⟨f, hf, hpf⟩
      simp [hf, isPersisted, hpf] at hd
  | finish =>
    simp only [xstep]
    cases hx : x.ev with
    | idle => exact ⟨hp, hev⟩
    | locked m => exact ⟨hp, hev⟩
    | decided m d =>
      simp only
      refine ⟨?_, fun m' hm' => by cases hm'⟩
      cases d with
      | false => exact prot_files hp rfl
      | true =>
        have hne : n ≠ m := fun e => hev m (by rw [hx]) (e ▸ hp)
        simp only [if_true]
        exact prot_files (prot_del_ne (s := x.s) hp hne) rfl
  | api o =>
    simp only [xstep]
    have hstep : Protected (step x.s o) n := persisted_survives_step x.s o n hp (hc o rfl)
    cases hn : x.ev.name with
    | none =>
      simp only
      refine ⟨hstep, ?_⟩
      intro m hm
      cases hx : x.ev with
      | idle => simp [hx] at hm
      | locked k => simp [hx, Ev.name] at hn
      | decided k d => simp [hx, Ev.name] at hn
    | some k =>
      simp only
      split
      · exact ⟨hp, hev⟩
      · rename_i ht
        refine ⟨hstep, ?_⟩
        intro m hm hpm
        have hmk : m = k := by
          cases hx : x.ev with
          | idle => simp [hx] at hm
          | locked j => simp [hx] at hm
          | decided j d => simp [hx, Ev.name] at hn hm; rw [← hn, hm.1]
        subst hmk
        refine hev m hm ?_
        refine Evict.step_noNew x.s o m ?_ hpm
        intro e
        rw [e, touches_persist] at ht
        exact ht rfl

/-- **C10 (1c)** With the eviction's steps — lock the oldest entry, check its persist flag, remove its
directory, drop it from the map — interleaved in any way with any store operations of other goroutines
(operations that need the locked entry wait, as in the code), a file whose persist flag is set is never
removed: the schedule `acts` is arbitrary, only clearing the flag of `n` itself is excluded. -/
theorem eviction_interleaving_safe (acts : List Act) (n : Name) (hnc : ∀ a ∈ acts, ∀ o, a = .api o → ¬ clears o n) :
    ∀ x : XState, Protected x.s n → EvOK x → Protected (xrun .unmapLast x acts).s n := by
  induction acts with
  | nil => intro x h _; exact h
  | cons a acts ih =>
    intro x h hev
    have := xstep_safe x a n h hev (hnc a List.mem_cons_self)
    exact ih (fun a' ha' => hnc a' (List.mem_cons_of_mem _ ha')) _ this.1 this.2

/-- the schedule that breaks the variant which drops the entry from the map *before* deleting its file:
two files into a map of capacity 1, the eviction of the older one starts and finds it unprotected, another
goroutine marks it persist (it finds no entry, loads a second one and is acknowledged), the eviction removes
the directory -/
def swapWitness : List Act :=
  [.insert "aa01" 3, .insert "ab02" 5, .begin, .check, .api (.persist "aa01" true), .finish]

/-- **C10 (1c')** Order matters: with the entry dropped from the map first the same interleaving semantics
loses a file that was marked — and acknowledged — as awaiting write-back; with the code's order the same
schedule makes the flag change wait and report that the file is gone. -/
theorem unmapFirst_loses_persisted :
    Protected (xrun .unmapFirst { s := init 1 0 } (swapWitness.take 5)).s "aa01" ∧
    KV.get (xrun .unmapFirst { s := init 1 0 } swapWitness).s.files "aa01" = none ∧
    ¬ Protected (xrun .unmapLast { s := init 1 0 } (swapWitness.take 5)).s "aa01" := by decide

/-! ## (2) a normal pass removes exactly the idle, unprotected files -/

/-- the file is past the idle limit (by its last-access sidecar) or past the TTL (by its age) -/
def idle (now : Int) (f : File) (tti ttl : Int) : Prop :=
  (ttl > 0 ∧ now - f.mtime > ttl) ∨ (∃ l, f.lat = some l ∧ now - l > tti)

theorem ready_iff_idle (now : Int) (f : File) (tti ttl : Int) : ready now f tti ttl = true ↔ idle now f tti ttl := by
  unfold ready idle
  cases f.lat with
  | none => simp
  | some l => simp

/-- **C10 (2)** A normal pass (`ttlBasedCleanup` without lower threshold) over a store in which no LRU
eviction can happen — `Pass.Fits`: eviction is switched off (capacity 0: upload and download stores), or the
map names only existing files, each once, and all files fit its capacity (the origin's cache store:
capacity 2^20 by default) — and whose files all carry a last-access sidecar (every file created or loaded
through the store does) leaves exactly the
files that are protected or not idle: `(n, f)` is on disk afterwards iff it was before and it is
persisted or neither older than the TTL nor idle for longer than the TTI — with the code's strict
comparisons.  Nothing else is touched: contents, flags and sidecars of the remaining files are as before. -/
theorem normal_pass_exact (s : State) (tti ttl : Int) (u : Usage) (hcap : Pass.Fits s)
    (hnd : (KV.keys s.files).Nodup) (hlat : ∀ p ∈ s.files, p.2.lat.isSome) (n : Name) (f : File) :
    (n, f) ∈ (cleanupTTL s tti ttl 0 u).1.files ↔
      (n, f) ∈ s.files ∧ (f.persist = some true ∨ ¬ idle s.now f tti ttl) := by
  rw [Pass.cleanupTTL_mem s tti ttl u hcap hnd hlat n f]
  constructor
  · rintro ⟨hm, hk⟩
    refine ⟨hm, ?_⟩
    by_cases hp : f.persist = some true
    · exact Or.inl hp
    · right
      intro hi
      have : isPersisted f = false := by simp [isPersisted, hp]
      simp [(ready_iff_idle _ _ _ _).mpr hi, this] at hk
  · rintro ⟨hm, hk⟩
    refine ⟨hm, ?_⟩
    rcases hk with hp | hni
    · simp [isPersisted, hp]
    · have : ready s.now f tti ttl = false := by
        cases h : ready s.now f tti ttl with
        | false => rfl
        | true => exact absurd ((ready_iff_idle _ _ _ _).mp h) hni
      simp [this]

/-- **C10 (2')** For every reachable state — any history of creates, accesses, flag changes, deletes, clock
advances, evictions and earlier passes from an empty store — the side conditions of (2) hold by themselves:
it is enough that eviction is off or the files currently on disk fit the map's capacity (always the case
for the origin's default capacity of 2^20 entries until a million blobs are cached). -/
theorem normal_pass_exact_reachable (cap : Nat) (now0 : Int) (ops : List Op) (tti ttl : Int) (u : Usage)
    (hfit : cap = 0 ∨ (KV.keys (run cap now0 ops).files).length ≤ cap) (n : Name) (f : File) :
    let s := run cap now0 ops
    (n, f) ∈ (cleanupTTL s tti ttl 0 u).1.files ↔
      (n, f) ∈ s.files ∧ (f.persist = some true ∨ ¬ idle s.now f tti ttl) := by
  intro s
  have hwf := Inv.run_wf cap now0 ops
  have hcap : s.cap = cap := by
    suffices h : ∀ (l : List Op) (s0 : State), (l.foldl step s0).cap = s0.cap from h ops _
    intro l
    induction l with
    | nil => intro s0; rfl
    | cons o l ih =>
      intro s0
      rw [List.foldl_cons, ih]
      exact Inv.step_cap s0 o
  refine normal_pass_exact s tti ttl u ?_ hwf.fn hwf.lat n f
  rcases hfit with h | h
  · exact Or.inl (by rw [hcap]; exact h)
  · exact Or.inr ⟨hwf.mapOK, by rw [hcap]; exact h⟩

/-! ## (3) the usage-driven policy -/

/-- class of a file for the policy: 0 = certainly cached by an agent (access ≫ download), 1 = downloaded by
some consumer, 2 = never served -/
def rank (f : FInfo) : Nat := if inAgent f then 0 else if served f then 1 else 2

theorem inAgent_served (f : FInfo) (h : inAgent f = true) : served f = true := by
  unfold inAgent at h
  unfold served
  simp only [decide_eq_true_eq] at *
  unfold sec at *
  omega

/-- **C10 (3a)** `cachedInAgentPolicy` is the lexicographic order on (class, access time): served files
before unserved ones, certainly-distributed before merely-served, least recently accessed first. -/
theorem policyCmp_le_iff (l r : FInfo) :
    policyCmp l r ≤ 0 ↔ rank l < rank r ∨ (rank l = rank r ∧ l.access ≤ r.access) := by
  have hl := inAgent_served l
  have hr := inAgent_served r
  unfold policyCmp rank
  cases h1 : served l <;> cases h2 : served r <;> cases h3 : inAgent l <;> cases h4 : inAgent r <;>
    simp_all <;> omega

/-- **C10 (3b)** the comparator is a total preorder -/
theorem policyCmp_total (l r : FInfo) : policyCmp l r ≤ 0 ∨ policyCmp r l ≤ 0 := by
  rw [policyCmp_le_iff, policyCmp_le_iff]; omega

theorem policyCmp_trans (a b c : FInfo) (h1 : policyCmp a b ≤ 0) (h2 : policyCmp b c ≤ 0) : policyCmp a c ≤ 0 := by
  rw [policyCmp_le_iff] at *; omega

theorem insBy_perm (x : FInfo) (l : List FInfo) : (insBy x l).Perm (x :: l) := by
  induction l with
  | nil => exact List.Perm.refl _
  | cons y ys ih =>
    simp only [insBy]
    split
    · exact List.Perm.refl _
    · exact (List.Perm.cons y ih).trans (List.Perm.swap x y ys)

theorem insBy_sorted (x : FInfo) (l : List FInfo) (h : l.Pairwise (fun a b => policyCmp a b ≤ 0)) :
    (insBy x l).Pairwise (fun a b => policyCmp a b ≤ 0) := by
  induction l with
  | nil => simp [insBy]
  | cons y ys ih =>
    simp only [insBy]
    have hy := List.pairwise_cons.mp h
    split
    · rename_i hxy
      refine List.pairwise_cons.mpr ⟨?_, h⟩
      intro a ha
      rcases List.mem_cons.mp ha with e | ha
      · subst e; exact hxy
      · exact policyCmp_trans x y a hxy (hy.1 a ha)
    · rename_i hxy
      have hyx : policyCmp y x ≤ 0 := (policyCmp_total x y).resolve_left hxy
      refine List.pairwise_cons.mpr ⟨?_, ih hy.2⟩
      intro a ha
      rcases List.mem_cons.mp ((insBy_perm x ys).subset ha) with e | ha
      · subst e; exact hyx
      · exact hy.1 a ha

/-- **C10 (3c)** the deletion order is a permutation of the candidates sorted by the policy: every
served file precedes every unserved one and, within a class, access times ascend. -/
theorem sortPolicy_sorted (xs : List FInfo) :
    (sortPolicy xs).Perm xs ∧ (sortPolicy xs).Pairwise (fun a b => policyCmp a b ≤ 0) := by
  induction xs with
  | nil => exact ⟨List.Perm.refl _, List.Pairwise.nil⟩
  | cons x xs ih =>
    simp only [sortPolicy, List.foldr_cons]
    exact ⟨(insBy_perm x _).trans (List.Perm.cons x ih.1), insBy_sorted x _ ih.2⟩

theorem served_first (xs : List FInfo) :
    (sortPolicy xs).Pairwise (fun a b => ¬ (served a = false ∧ served b = true) ∧
      (rank a = rank b → a.access ≤ b.access)) := by
  refine (sortPolicy_sorted xs).2.imp ?_
  intro a b h
  rw [policyCmp_le_iff] at h
  have ha := inAgent_served a
  have hb := inAgent_served b
  unfold rank at *
  constructor
  · rintro ⟨h1, h2⟩
    cases h3 : inAgent a <;> cases h4 : inAgent b <;> simp_all
  · intro e; omega

/-- **C10 (3d)** the deletion loop walks that order from the front and stops as soon as the byte budget is
met: the files it deletes are the unprotected ones of a prefix, everything after the prefix is kept, and
the loop only stops early when the budget is exhausted. -/
theorem policy_deletes_prefix (l : List FInfo) (s : State) (remain : Int) (hcap : Pass.Fits s)
    (hnd : (KV.keys s.files).Nodup) (hlat : ∀ p ∈ s.files, p.2.lat.isSome) :
    ∃ k, k ≤ l.length ∧
      (∀ n f, (n, f) ∈ (policyDelete s remain l).files ↔
        (n, f) ∈ s.files ∧ ¬ (n ∈ (l.take k).map (·.name) ∧ isPersisted f = false)) ∧
      (k = l.length ∨ remain - Pass.freed s (l.take k) ≤ 0) :=
  Pass.policyDelete_prefix l s remain hcap hnd hlat

/-! ## (4) forced cleanup runs the write-back first -/
section force
open KrakenModel.ForceCleanup

theorem execAll_ok (l : List Bool) (h : (execAll l).2 = true) : (∀ t ∈ l, t = true) ∧ (execAll l).1 = l.length := by
  induction l with
  | nil => simp [execAll]
  | cons t l ih =>
    cases t with
    | true =>
      simp only [execAll] at h ⊢
      have := ih h
      exact ⟨by intro x hx; rcases List.mem_cons.mp hx with e | hx; exact e; exact this.1 x hx, by simp [this.2]⟩
    | false => simp [execAll] at h

/-- **C10 (4)** `maybeDelete` removes a blob only if it is expired or not owned by this origin, and a
blob marked persist only after `SyncExec` has succeeded for every write-back task found for it (all of
them, in order); any failure leaves the blob and its flag in place. -/
theorem force_cleanup_safe (i : Input) (h : (maybeDelete i).deleted = true) :
    (i.expired = true ∨ i.owns = false) ∧
    (i.persist = some true → (∀ t ∈ i.tasks, t = true) ∧ (maybeDelete i).executed = i.tasks.length) := by
  unfold maybeDelete at h ⊢
  by_cases hc : (i.expired || !i.owns) = true
  · refine ⟨by cases he : i.expired <;> cases ho : i.owns <;> simp_all, ?_⟩
    intro hp
    simp only [hc, if_true, hp, beq_self_eq_true] at h ⊢
    by_cases hff : i.findFails = true
    · simp [hff] at h
    · simp only [hff, if_false] at h ⊢
      by_cases hx : (execAll i.tasks).2 = true
      · simp only [hx, if_true]
        exact execAll_ok _ hx
      · simp [hx] at h
  · simp [hc] at h

/-- **C10 (4a)** A forced cleanup in which the write-back of a persisted blob fails — `SyncExec` of any task
found for it, or the lookup of the tasks — leaves the blob on disk *and still marked*: a later delete request
is refused.  (Clearing the flag before looking at the outcome of the write-back loses the protection.) -/
theorem force_failed_writeback_keeps_flag (i : Input) (hp : i.persist = some true) (hc : i.expired = true ∨ i.owns = false)
    (hfail : i.findFails = true ∨ ∃ t ∈ i.tasks, t = false) :
    (maybeDelete i).deleted = false ∧ (maybeDelete i).persistAfter = some true ∧
    deleteAfter (maybeDelete i) = .persisted := by
  have hcand : (i.expired || !i.owns) = true := by
    rcases hc with h | h <;> simp [h]
  have hex : i.findFails = false → (execAll i.tasks).2 = false := by
    intro hff
    rcases hfail with h | ⟨t, ht, hf⟩
    · rw [hff] at h; cases h
    · cases hx : (execAll i.tasks).2 with
      | false => rfl
      | true => have := (execAll_ok _ hx).1 t ht; rw [hf] at this; cases this
  unfold deleteAfter maybeDelete
  simp only [hcand, if_true, hp, beq_self_eq_true]
  by_cases hff : i.findFails = true
  · simp [hff]
  · have hff' : i.findFails = false := by simpa using hff
    simp [hff', hex hff']

/-- the store-level effect of `maybeDelete` on the blob `n`: nothing unless it is a candidate; for a persisted
blob the write-back tasks are executed first and the flag is cleared and the file deleted only if all of
them succeeded -/
def forceOps (i : Input) (n : Name) : List Op :=
  if (maybeDelete i).deleted then
    (if i.persist = some true then [Op.unpersist n] else []) ++ [Op.delete n]
  else []

/-- **C10 (4')** composed with the file store: whatever the state of the store, a blob marked persist is
still on disk and still marked after a forced-cleanup visit unless every write-back task found for it was
executed successfully. -/
theorem force_cleanup_keeps_protected (i : Input) (s : State) (n : Name) (hp : Protected s n)
    (hflag : i.persist = some true) (hfail : ∃ t ∈ i.tasks, t = false) :
    Protected ((forceOps i n).foldl step s) n := by
  have hnd : (maybeDelete i).deleted = false := by
    cases h : (maybeDelete i).deleted with
    | false => rfl
    | true =>
      obtain ⟨t, ht, hf⟩ := hfail
      have := ((force_cleanup_safe i h).2 hflag).1 t ht
      rw [hf] at this; cases this
  simp [forceOps, hnd, hp]

end force

/-! ## upload commit: protected before queued -/
section commit
open KrakenModel.CommitWB

/-- what must hold in every state, including the ones between the steps of a commit -/
def QueuedProtected (s : CommitWB.State) : Prop :=
  (s.queued = true → s.persist = true) ∧ (s.persist = true → s.present = true) ∧ (s.pc = .marked → s.persist = true)

theorem commit_step_inv (s : CommitWB.State) (e : CommitWB.Ev) (h : QueuedProtected s) : QueuedProtected (CommitWB.step s e) := by
  obtain ⟨pc, present, persist, queued⟩ := s
  obtain ⟨h1, h2, h3⟩ := h
  simp only at h1 h2 h3
  cases e with
  | delete =>
    cases persist <;> simp_all [QueuedProtected, CommitWB.step, tryDelete]
  | prog ok =>
    cases pc <;> cases ok <;> cases present <;> cases persist <;> cases queued <;>
      simp_all [QueuedProtected, CommitWB.step]

/-- **C10 (5)** For every history of commit steps (each succeeding or failing) interleaved with any number of
delete attempts at any point — so also in every intermediate state of the commit —: whenever a write-back task
for the blob is queued, the blob is marked persist and its data is still in the cache. -/
theorem queued_implies_protected (evs : List CommitWB.Ev) :
    let s := CommitWB.run evs
    s.queued = true → s.persist = true ∧ s.present = true := by
  have h : QueuedProtected (CommitWB.run evs) := by
    unfold CommitWB.run
    suffices ∀ s, QueuedProtected s → QueuedProtected (evs.foldl CommitWB.step s) from
      this {} (And.intro (fun h => nomatch h) (And.intro (fun h => nomatch h) (fun h => nomatch h)))
    induction evs with
    | nil => intro s hs; exact hs
    | cons e rest ih => intro s hs; exact ih _ (commit_step_inv s e hs)
  intro s hq
  exact ⟨h.1 hq, h.2.1 (h.1 hq)⟩

/-- the other order is unsafe: queue, then a delete attempt in the window: a task is queued for a blob that is gone -/
theorem queueFirst_loses_blob :
    (runQueueFirst [.prog true, .delete]).queued = true ∧ (runQueueFirst [.prog true, .delete]).present = false := by decide

-- non-vacuity: the commit does reach the queued state, and a delete attempt in the window is refused
example : (CommitWB.run [.prog true, .delete, .prog true]) = { pc := .done, present := true, persist := true, queued := true } := by decide
example : (CommitWB.run [.prog true, .delete, .prog false]).queued = false ∧ (CommitWB.run [.prog true, .delete, .prog false]).persist = true := by decide

end commit

/-! ## non-vacuity -/

def H : Int := 3600 * sec

/-- three files: idle and unprotected / idle but awaiting write-back / recently accessed -/
def demo : List Op :=
  [.create "aa01" 3, .create "ab02" 5, .persist "ab02" true, .tick (7 * 3600 * 1000000000), .create "ac03" 7,
   .cleanupTTL (6 * H) (24 * H) 0 ⟨0, 0⟩]

example : KV.keys (run 0 0 demo).files = ["ac03", "ab02"] := by decide
example : Protected (run 0 0 demo) "ab02" := by decide
-- eviction on a map of capacity 1 deletes the unprotected file and spares the protected one
example : KV.keys (run 1 0 [.create "aa01" 3, .create "ab02" 5]).files = ["ab02"] := by decide
-- … and a delete request for the protected file is refused (reloading it evicts — and deletes — the other file)
example : Protected (run 1 0 [.create "aa01" 3, .persist "aa01" true, .create "ab02" 5, .delete "aa01"]) "aa01" := by decide
example : (delete (run 1 0 [.create "aa01" 3, .persist "aa01" true]) "aa01").2 = .persisted := by decide
example : (ForceCleanup.maybeDelete { expired := true, owns := true, persist := some true, tasks := [true, false] }).deleted = false := by decide
example : (ForceCleanup.maybeDelete { expired := true, owns := true, persist := some true, tasks := [true, true] }).deleted = true := by decide

end KrakenModel.Spec.C10
