import KrakenModel.Util.LTS
import KrakenModel.Proof.C05Live
/-
  C05  An origin or proxy crash at any point leaves its blob cache consistent.

  Statements about `Model.OriginCrash` (lib/store: CAStore — NewCAStore, CreateUploadFile, upload
  writes, MoveUploadFileToCache, SetCacheFileMetadata, WriteBlobToCacheWithMetaInfo through the disk
  path or the memory cache and its drain, GetCacheFileReader, GetCacheFileMetadata; lib/store/base:
  file entry reload, TryStore, MoveFrom, Delete, compareAndWriteFile; lib/metainfogen: Generate;
  origin/blobserver: the persist flag of writeBack and the sidecar read of getMetaInfo), tied to the
  code by harness/lib/store/zz_verif_c05_test.go.

  A history is any list of actions of one process at a time on the two directories: an operation that
  completes (start / patch / commit of an upload with ANY bytes under ANY name, persist flag, metainfo
  generation, a refresh with ANY bytes, the origin's metainfo request with or without a backend copy,
  a deletion of a cached blob (TTL / forced clean-up, an eviction's victim), reads, a restart) or an operation cut off after `k` of its
  file-system calls (process crash; only a restart can follow, and the restart can be cut off too).
  Quantifiers: every history, every crash point `k`, every directory-removal order, any number of
  blobs, every write part size, memory cache on or off.

  Parameters (hypotheses `Params`): the digest, the metainfo generator and the sidecar decoder are
  uninterpreted; blobs with equal digests have equal metainfo, a zero-filled (or empty) sidecar does
  not decode, a generated one does; `SkipHashVerification` is off.
-/
namespace KrakenModel.Spec.C05
open KrakenModel KrakenModel.FS KrakenModel.OriginCrash

structure St where
  up : Bool           -- is there a live process
  mem : Mem
  fs : FS Name

inductive Act where
  | op (o : Op) (ord : Order Name)
  | crash (o : Op) (ord : Order Name) (k : Nat)

def init : St := ⟨true, {}, initFS⟩

def step (cfg : Cfg) (s : St) : Act → St
  | .op o ord =>
    if s.up = true ∨ o = Op.restart then
      let r := exec cfg ord s.mem s.fs o
      ⟨true, r.mem, applyAll s.fs r.calls⟩
    else s
  | .crash o ord k =>
    if s.up = true ∨ o = Op.restart then
      ⟨false, {}, applyPrefix k (plan cfg ord s.mem s.fs o) s.fs⟩
    else s

def sys (cfg : Cfg) : Sys St Act := { init := init, step := step cfg }

def Good (cfg : Cfg) (s : St) : Prop := GoodFS cfg s.fs ∧ Sync s.mem s.fs

theorem sync_empty (fs : FS Name) : Sync {} fs := fun n h => by simp [isCached, aget] at h

theorem good_init (cfg : Cfg) : Good cfg init := by
  refine ⟨?_, sync_empty _⟩
  have hnone : ∀ n x, init.fs.file? (cacheDir n) x = none := by
    intro n x
    show initFS.file? (cacheDir n) x = none
    have hd : initFS.dir? (cacheDir n) = none := by
      simp [initFS, FS.dir?, aget, cacheDir]
    simp [FS.file?, hd]
  exact ⟨(by intro n c h; rw [hnone] at h; cases h), (by intro n t h; rw [hnone] at h; cases h)⟩

theorem good_step {cfg : Cfg} (hp : Params cfg) (s : St) (a : Act) (h : Good cfg s) : Good cfg (step cfg s a) := by
  cases a with
  | op o ord =>
    simp only [step]
    split
    · have ok := exec_ok hp ord s.mem s.fs o
      exact ⟨all_of_prefix _ _ _ (ok.pre h.1), ok.sync h.2⟩
    · exact h
  | crash o ord k =>
    simp only [step]
    split
    · have ok := exec_ok hp ord s.mem s.fs o
      exact ⟨ok.pre h.1 k, sync_empty _⟩
    · exact h

/-- **C05 (0)** The invariant holds after every history: a blob file in the cache hashes to the name of
its directory; a metainfo sidecar is zero-filled (empty included) or the metainfo of a blob with that
name; the file map of a live process only knows blobs whose file is there. -/
theorem invariant_after_every_history (cfg : Cfg) (hp : Params cfg) (hist : List Act) : Good cfg ((sys cfg).run hist) :=
  Sys.run_inv (sys cfg) (Good cfg) (good_init cfg) (fun s a h => good_step hp s a h) hist

/-- **C05 (1)** `served_blob_hashes_to_name`.  After every history — any number of crashes at any call
of any operation, restarts cut off included — a blob that the store serves (`GetCacheFileReader`) hashes
to the name it is served under; so does every blob file found in the cache tree. -/
theorem served_blob_hashes_to_name (cfg : Cfg) (hp : Params cfg) (hist : List Act) (n : String) (c : Bytes) :
    ((read cfg ((sys cfg).run hist).mem ((sys cfg).run hist).fs n).res = .bytes c → cfg.digest c = n) ∧
    (((sys cfg).run hist).fs.file? (cacheDir n) Name.data = some c → cfg.digest c = n) :=
  ⟨read_sound (invariant_after_every_history cfg hp hist).1 n c, (invariant_after_every_history cfg hp hist).1.dataOK n c⟩

/-- **C05 (2)** `metainfo_absent_or_valid`.  After every history the sidecar read of `getMetaInfo` answers
"absent" (which starts the regeneration) or hands back a metainfo, never anything else; a metainfo that
is handed back is the metainfo of a blob with that name, and the metainfo of the cached blob file when
there is one. -/
theorem metainfo_absent_or_valid (cfg : Cfg) (hp : Params cfg) (hist : List Act) (n : String) :
    let s := (sys cfg).run hist
    ((getmeta cfg s.mem s.fs n).res = .absent ∨ ∃ t, (getmeta cfg s.mem s.fs n).res = .found t) ∧
    (∀ t, (getmeta cfg s.mem s.fs n).res = .found t →
      ValidMI cfg n t ∧ ∀ c, s.fs.file? (cacheDir n) Name.data = some c → t = cfg.genMI c) := by
  intro s
  have G := invariant_after_every_history cfg hp hist
  refine ⟨getmeta_total cfg s.mem s.fs n, fun t ht => ?_⟩
  have hv := getmeta_sound hp G.1 n t ht
  refine ⟨hv, fun c hc => ?_⟩
  obtain ⟨b, hb, rfl⟩ := hv
  exact hp.miByName _ _ (hb.trans (G.1.dataOK n c hc).symm)

/-- **C05 (3)** `refresh_regenerates` (store level, relative to bytes handed in: see (5) and (6) for the
request itself).  After every history, wherever the last crash happened, and a restart on the same
directories: for ANY name `n` and bytes `b` that hash to it `WriteBlobToCacheWithMetaInfo` — what the
refresher runs with the bytes the backend delivers — succeeds; afterwards the blob is served, hashes to
`n`, and its metainfo is served and is the blob's.  This covers names whose directory a crash left
without a blob file (listed, not readable: they can be created again) and sidecars left empty or
zero-filled.  (`s.up = true` holds by construction of the model: its restart cannot fail; that the real
`NewCAStore` opens on every crash tree is checked by the `reopen-failed` monitor, not proved.) -/
theorem refresh_regenerates (cfg : Cfg) (hp : Params cfg) (hist : List Act) (ord ord' : Order Name) (n : String) (b : Bytes)
    (hb : cfg.digest b = n) :
    let s := (sys cfg).run (hist ++ [Act.op Op.restart ord, Act.op (Op.refresh n b) ord'])
    s.up = true ∧
    (exec cfg ord' ((sys cfg).run (hist ++ [Act.op Op.restart ord])).mem ((sys cfg).run (hist ++ [Act.op Op.restart ord])).fs
      (Op.refresh n b)).res = .ok ∧
    ∃ c, (read cfg s.mem s.fs n).res = .bytes c ∧ cfg.digest c = n ∧ (getmeta cfg s.mem s.fs n).res = .found (cfg.genMI c) := by
  intro s
  have G := invariant_after_every_history cfg hp (hist ++ [Act.op Op.restart ord])
  have hs : s = (sys cfg).runFrom ((sys cfg).run (hist ++ [Act.op Op.restart ord])) [Act.op (Op.refresh n b) ord'] := by
    show (sys cfg).run _ = _
    rw [show hist ++ [Act.op Op.restart ord, Act.op (Op.refresh n b) ord'] =
      (hist ++ [Act.op Op.restart ord]) ++ [Act.op (Op.refresh n b) ord'] by simp, Sys.run_append]
  have hup : ((sys cfg).run (hist ++ [Act.op Op.restart ord])).up = true ∧
      ((sys cfg).run (hist ++ [Act.op Op.restart ord])).mem.uploads = [] := by
    rw [Sys.run_append]
    simp [Sys.runFrom, sys, step, exec]
  generalize (sys cfg).run (hist ++ [Act.op Op.restart ord]) = s1 at G hs hup ⊢
  obtain ⟨r1, r2, c, r3, r4, r5⟩ := OriginCrash.refresh_regenerates hp ord' s1.mem s1.fs n b G.1 G.2 hb
    (by rw [hup.2]; simp)
  have hs' : s = ⟨true, (refresh cfg ord' s1.mem s1.fs n b).mem, applyAll s1.fs (refresh cfg ord' s1.mem s1.fs n b).calls⟩ := by
    rw [hs]; simp [Sys.runFrom, sys, step, hup.1, exec]
  refine ⟨by rw [hs'], by simpa [exec] using r1, c, ?_, r4, ?_⟩
  · rw [hs']; exact read_spec cfg _ _ n c r3
  · rw [hs']; exact getmeta_spec cfg _ _ n c _ r3 r5 (hp.miGood c)

/-- the same for a live process at any point of a history (the upload name the store makes up is fresh) -/
theorem refresh_regenerates_live (cfg : Cfg) (hp : Params cfg) (hist : List Act) (ord : Order Name) (n : String) (b : Bytes)
    (hb : cfg.digest b = n) (hup : ((sys cfg).run hist).up = true) (hfresh : tmpName n ∉ ((sys cfg).run hist).mem.uploads) :
    let s := (sys cfg).run (hist ++ [Act.op (Op.refresh n b) ord])
    ∃ c, (read cfg s.mem s.fs n).res = .bytes c ∧ cfg.digest c = n ∧ (getmeta cfg s.mem s.fs n).res = .found (cfg.genMI c) := by
  intro s
  have G := invariant_after_every_history cfg hp hist
  have hs : s = (sys cfg).runFrom ((sys cfg).run hist) [Act.op (Op.refresh n b) ord] := by
    show (sys cfg).run _ = _
    rw [Sys.run_append]
  generalize (sys cfg).run hist = s1 at G hs hup hfresh ⊢
  obtain ⟨r1, r2, c, r3, r4, r5⟩ := OriginCrash.refresh_regenerates hp ord s1.mem s1.fs n b G.1 G.2 hb hfresh
  have hs' : s = ⟨true, (refresh cfg ord s1.mem s1.fs n b).mem, applyAll s1.fs (refresh cfg ord s1.mem s1.fs n b).calls⟩ := by
    rw [hs]; simp [Sys.runFrom, sys, step, hup, exec]
  exact ⟨c, by rw [hs']; exact read_spec cfg _ _ n c r3, r4, by rw [hs']; exact getmeta_spec cfg _ _ n c _ r3 r5 (hp.miGood c)⟩

/-- **C05 (4)** `dangling_not_served`.  A directory that a crash left without its blob file (the last
access time is written before the blob is renamed in) is listed by `ListCacheFiles` but not served: the
read answers "not found" (and by (3) the blob can be created again). -/
theorem dangling_not_served (cfg : Cfg) (hp : Params cfg) (hist : List Act) (n : String)
    (hd : ((sys cfg).run hist).fs.file? (cacheDir n) Name.data = none) :
    (read cfg ((sys cfg).run hist).mem ((sys cfg).run hist).fs n).res = .notFound :=
  read_dangling cfg _ _ n (invariant_after_every_history cfg hp hist).2 hd

/-- **C05 (5)** `metainfo_request_serves_cached_blob`.  After every history — wherever the last crash
happened, in particular between the upload commit and the write-back task / the metainfo write — the
origin's metainfo request (`getMetaInfo`) for a blob that is in the cache is answered with the blob's
metainfo: from the sidecar when it decodes, else generated from the cached blob.  No assumption on the
backend (it may not hold the blob) nor on a pending write-back task. -/
theorem metainfo_request_serves_cached_blob (cfg : Cfg) (hp : Params cfg) (hist : List Act) (ord : Order Name) (n : String) (c : Bytes)
    (backend : Option Bytes) (hd : ((sys cfg).run hist).fs.file? (cacheDir n) Name.data = some c) :
    (exec cfg ord ((sys cfg).run hist).mem ((sys cfg).run hist).fs (Op.metareq n backend)).res = .found (cfg.genMI c) := by
  have G := invariant_after_every_history cfg hp hist
  exact metareq_serves_cached hp ord _ _ n c backend G.1 G.2 hd

/-- **C05 (6)** `metainfo_request_fetches_uncached`.  After every history and a restart: a blob that is
not in the cache (e.g. its directory was left without the blob file) and that the backend holds is
fetched by the request (202), after which the request is served with the blob's metainfo. -/
theorem metainfo_request_fetches_uncached (cfg : Cfg) (hp : Params cfg) (hist : List Act) (ord ord' ord'' : Order Name) (n : String) (b : Bytes)
    (backend' : Option Bytes) (hb : cfg.digest b = n)
    (hd : ((sys cfg).run (hist ++ [Act.op Op.restart ord])).fs.file? (cacheDir n) Name.data = none) :
    (exec cfg ord' ((sys cfg).run (hist ++ [Act.op Op.restart ord])).mem ((sys cfg).run (hist ++ [Act.op Op.restart ord])).fs
      (Op.metareq n (some b))).res = .accepted ∧
    ∃ c, cfg.digest c = n ∧
      (exec cfg ord'' ((sys cfg).run (hist ++ [Act.op Op.restart ord, Act.op (Op.metareq n (some b)) ord'])).mem
        ((sys cfg).run (hist ++ [Act.op Op.restart ord, Act.op (Op.metareq n (some b)) ord'])).fs (Op.metareq n backend')).res =
        .found (cfg.genMI c) := by
  have G := invariant_after_every_history cfg hp (hist ++ [Act.op Op.restart ord])
  have hs : (sys cfg).run (hist ++ [Act.op Op.restart ord, Act.op (Op.metareq n (some b)) ord']) =
      (sys cfg).runFrom ((sys cfg).run (hist ++ [Act.op Op.restart ord])) [Act.op (Op.metareq n (some b)) ord'] := by
    rw [show hist ++ [Act.op Op.restart ord, Act.op (Op.metareq n (some b)) ord'] =
      (hist ++ [Act.op Op.restart ord]) ++ [Act.op (Op.metareq n (some b)) ord'] by simp, Sys.run_append]
  have hup : ((sys cfg).run (hist ++ [Act.op Op.restart ord])).up = true ∧
      ((sys cfg).run (hist ++ [Act.op Op.restart ord])).mem.uploads = [] := by
    rw [Sys.run_append]
    simp [Sys.runFrom, sys, step, exec]
  rw [hs]
  generalize (sys cfg).run (hist ++ [Act.op Op.restart ord]) = t1 at G hup hd ⊢
  obtain ⟨r1, c, r2, r3⟩ := metareq_fetches hp ord' ord'' t1.mem t1.fs n b backend' G.1 G.2 hd hb (by rw [hup.2]; simp)
  have hs' : (sys cfg).runFrom t1 [Act.op (Op.metareq n (some b)) ord'] =
      ⟨true, (metareq cfg ord' t1.mem t1.fs n (some b)).mem, applyAll t1.fs (metareq cfg ord' t1.mem t1.fs n (some b)).calls⟩ := by
    simp [Sys.runFrom, sys, step, hup.1, exec]
  refine ⟨by simpa [exec] using r1, c, r2, ?_⟩
  rw [hs']; simpa [exec] using r3

/-! ### non-vacuity: a concrete instance, evaluated by the kernel -/

def exName : String := "ab12cd"
def exBlob : Bytes := [97, 98, 99]

/-- a toy digest: one blob has the name, every other byte string the name "zz" -/
def exCfg (mem : Bool) : Cfg :=
  { wps := 2, lat := [76, 65, 84], mem
    digest := fun b => if b = exBlob then exName else "zz"
    genMI := fun b => if b = exBlob then [123, 49, 125] else [123, 50, 125]
    metaOK := fun t => t.head? = some 123 }

theorem exParams (mem : Bool) : Params (exCfg mem) := by
  refine ⟨?_, ?_, ?_, rfl⟩
  · intro a b h
    simp only [exCfg] at h ⊢
    by_cases ha : a = exBlob <;> by_cases hb : b = exBlob <;> simp_all [exName]
  · intro k
    cases k <;> simp [exCfg, zeros, List.replicate]
  · intro b
    simp only [exCfg]
    split <;> rfl

def upload : List Act :=
  [.op (.ustart "u1") {}, .op (.uwrite "u1" 0 exBlob) {}, .op (.commit "u1" exName) {}, .op (.persist exName) {}]

/-- the upload flow leaves the blob served, without metainfo yet -/
example : (read (exCfg false) ((sys (exCfg false)).run upload).mem ((sys (exCfg false)).run upload).fs exName).res = .bytes exBlob := by
  decide
example : (getmeta (exCfg false) ((sys (exCfg false)).run upload).mem ((sys (exCfg false)).run upload).fs exName).res = .absent := by
  decide

/-- a crash inside metainfo generation right after the sidecar was created (2 calls: … opentrunc): the
sidecar is there and empty; after the restart the lookup answers "absent", the refresh regenerates -/
def crashed : List Act := upload ++ [.crash (.genmeta exName) {} 1, .op .restart {}]

example : ((sys (exCfg false)).run crashed).fs.file? (cacheDir exName) Name.tmeta = some [] := by decide
example : (getmeta (exCfg false) ((sys (exCfg false)).run crashed).mem ((sys (exCfg false)).run crashed).fs exName).res = .absent := by
  decide
example :
    let s := (sys (exCfg false)).run (crashed ++ [.op (.refresh exName exBlob) {}])
    (getmeta (exCfg false) s.mem s.fs exName).res = .found [123, 49, 125] ∧ (read (exCfg false) s.mem s.fs exName).res = .bytes exBlob := by
  decide

/-- a crash inside the commit after the last access time was written, before the rename: the directory
is listed, the blob is not served, a refresh (memory cache on) creates it -/
def dangling : List Act :=
  [.op (.ustart "u1") {}, .op (.uwrite "u1" 0 exBlob) {}, .crash (.commit "u1" exName) {} 5, .op .restart {}]

example : listNames ((sys (exCfg true)).run dangling).fs = [exName] := by decide
example : (read (exCfg true) ((sys (exCfg true)).run dangling).mem ((sys (exCfg true)).run dangling).fs exName).res = .notFound := by
  decide
example :
    let s := (sys (exCfg true)).run (dangling ++ [.op (.refresh exName exBlob) {}])
    (read (exCfg true) s.mem s.fs exName).res = .bytes exBlob ∧ ((sys (exCfg true)).run (dangling ++ [.op (.refresh exName exBlob) {}])).fs.file? ["upload"] Name.data = none := by
  decide

/-- a crash right after the commit's rename (k = 6: mkdirs, last access time, rename), before the persist
flag, the write-back task and the metainfo: after the restart the request generates the metainfo from
the cached blob although the backend does not hold it -/
def committedOnly : List Act :=
  [.op (.ustart "u1") {}, .op (.uwrite "u1" 0 exBlob) {}, .crash (.commit "u1" exName) {} 6, .op .restart {}]

example : ((sys (exCfg false)).run committedOnly).fs.file? (cacheDir exName) Name.data = some exBlob ∧
    ((sys (exCfg false)).run committedOnly).fs.file? (cacheDir exName) Name.tmeta = none := by decide
example : (exec (exCfg false) {} ((sys (exCfg false)).run committedOnly).mem ((sys (exCfg false)).run committedOnly).fs
    (Op.metareq exName none)).res = .found [123, 49, 125] := by decide

/-- a deletion (TTL clean-up) cut off after the blob file was unlinked, sidecar still there: the name is
listed, not served; a set persist flag refuses the deletion -/
example :
    let s := (sys (exCfg false)).run ([.op (.refresh exName exBlob) {}, .crash (.delete exName) { files := [(cacheDir exName, Name.data)] } 1, .op .restart {}])
    listNames s.fs = [exName] ∧ (read (exCfg false) s.mem s.fs exName).res = .notFound ∧
      s.fs.file? (cacheDir exName) Name.tmeta = some [123, 49, 125] := by
  decide
example : (exec (exCfg false) {} ((sys (exCfg false)).run upload).mem ((sys (exCfg false)).run upload).fs (.delete exName)).res = .persisted := by
  decide

/-- an upload whose bytes do not hash to the name is rejected and leaves nothing in the cache -/
example :
    let s := (sys (exCfg false)).run [.op (.ustart "u1") {}, .op (.uwrite "u1" 0 [1, 2]) {}, .op (.commit "u1" exName) {}]
    s.fs.file? (cacheDir exName) Name.data = none ∧ listNames s.fs = [] := by
  decide

end KrakenModel.Spec.C05
