import KrakenModel.Model.BackendSpec
import KrakenModel.Proof.C37
/-
  C37  Backend clients honour the storage contract.

  The statements are about the *specification* `Model.BackendSpec` (an abstract store, an
  S3-style server pager and the page-accumulating client loop of s3backend.Client.List), for an
  arbitrary name type, an arbitrary strict total key order `lt` and an arbitrary prefix-matching
  predicate.  The backends themselves (testfs, sqlbackend, s3backend over an in-memory S3,
  shadowbackend) are tied to this specification by refinement testing only (their SDKs, SQLite
  and the file system are outside any model): the driver instantiates the specification with
  each backend's key mapping and matching relation and compares every answer.

  Quantifiers: every history of uploads/reads (unbounded), every name and content, every
  matching predicate, every page size ≥ 1 and every server-side page limit ≥ 1.
-/
namespace KrakenModel.Spec.C37
open KrakenModel.BackendSpec KrakenModel.Proof.C37

variable {Name : Type} [DecidableEq Name]

/-- **C37 (1)** Download returns exactly the bytes last uploaded under the name; a name never
uploaded is not found. -/
theorem download_returns_last_upload (lt : Name → Name → Bool) (ops : List (Op Name)) (n : Name) :
    download (run lt ops) n =
      match lastUpload ops n with
      | some b => .bytes b
      | none => .notFound := by
  unfold download run
  rw [lookup_foldl lt ops n []]
  cases lastUpload ops n <;> simp [lookup]

theorem never_uploaded_not_found (lt : Name → Name → Bool) (ops : List (Op Name)) (n : Name)
    (h : ∀ b, Op.upload n b ∉ ops) :
    download (run lt ops) n = .notFound ∧ stat (run lt ops) n = none := by
  have hl := (lastUpload_none_iff ops n).mpr h
  refine ⟨by rw [download_returns_last_upload, hl], ?_⟩
  unfold stat run
  rw [lookup_foldl lt ops n [], hl]; simp [lookup]

theorem upload_then_download (lt : Name → Name → Bool) (ops : List (Op Name)) (n : Name) (b : Bytes) :
    download (run lt (ops ++ [.upload n b])) n = .bytes b ∧
    ∀ m, m ≠ n → download (run lt (ops ++ [.upload n b])) m = download (run lt ops) m := by
  constructor
  · simp [download, run, List.foldl_append, step, lookup_put_same]
  · intro m hm
    simp [download, run, List.foldl_append, step, lookup_put_other lt _ n m b hm]

/-- **C37 (2)** Stat reports the size of the last upload (where the backend tracks sizes). -/
theorem stat_reports_last_size (lt : Name → Name → Bool) (ops : List (Op Name)) (n : Name) :
    stat (run lt ops) n = (lastUpload ops n).map List.length := by
  unfold stat run
  rw [lookup_foldl lt ops n []]
  cases lastUpload ops n <;> simp [lookup]

/-- **C37 (3)** A listing returns exactly the stored names under the prefix, each once, in key
order. -/
theorem list_exactly_the_stored_names {lt : Name → Name → Bool} (ho : StrictOrder lt)
    (matchesP : Name → Bool) (ops : List (Op Name)) :
    (list matchesP (run lt ops)).Nodup ∧ Sorted lt (list matchesP (run lt ops)) ∧
    ∀ n, n ∈ list matchesP (run lt ops) ↔ (matchesP n = true ∧ ∃ b, Op.upload n b ∈ ops) := by
  have hs : Sorted lt (list matchesP (run lt ops)) := sorted_filter matchesP _ (run_sorted ho ops)
  refine ⟨sorted_nodup ho _ hs, hs, ?_⟩
  intro n
  unfold list
  rw [List.mem_filter, mem_keys_iff_lookup]
  have hl : lookup (run lt ops) n = lastUpload ops n := by
    unfold run; rw [lookup_foldl lt ops n []]; cases lastUpload ops n <;> simp [lookup]
  rw [hl]
  have hiff : (lastUpload ops n).isSome = true ↔ ∃ b, Op.upload n b ∈ ops := by
    constructor
    · intro h
      by_cases hex : ∃ b, Op.upload n b ∈ ops
      · exact hex
      · have := (lastUpload_none_iff ops n).mpr (fun b hb => hex ⟨b, hb⟩)
        rw [this] at h; simp at h
    · intro ⟨b, hb⟩
      cases hlu : lastUpload ops n with
      | some _ => rfl
      | none => exact absurd hb ((lastUpload_none_iff ops n).mp hlu b)
  rw [hiff]
  exact And.comm

/-- **C37 (4)** Paginated listing: for every page size `maxKeys ≥ 1` and every server-side page
limit `cap ≥ 1`, following the continuation tokens from the start hands out the stored names
under the prefix in key order; the pages partition them. -/
theorem paginated_listing_partitions {lt : Name → Name → Bool} (ho : StrictOrder lt)
    (matchesP : Name → Bool) (ops : List (Op Name)) (maxKeys cap : Nat) (hk : 1 ≤ maxKeys) (hc : 1 ≤ cap) :
    let ks := list matchesP (run lt ops)
    (listAll lt ks maxKeys cap (ks.length + 1) none).flatten = ks := by
  intro ks
  have hs : Sorted lt ks := sorted_filter matchesP _ (run_sorted ho ops)
  have := listAll_spec ho maxKeys cap hk hc (ks.length + 1) [] ks none (by simpa using hs) (Or.inl ⟨rfl, rfl⟩)
    (Nat.lt_succ_self _)
  simpa using this

/-- … hence every stored name under the prefix appears on exactly one page, exactly once, and
nothing else appears. -/
theorem paginated_listing_exactly_once {lt : Name → Name → Bool} (ho : StrictOrder lt)
    (matchesP : Name → Bool) (ops : List (Op Name)) (maxKeys cap : Nat) (hk : 1 ≤ maxKeys) (hc : 1 ≤ cap) (n : Name) :
    let ks := list matchesP (run lt ops)
    let all := (listAll lt ks maxKeys cap (ks.length + 1) none).flatten
    ((matchesP n = true ∧ ∃ b, Op.upload n b ∈ ops) → all.count n = 1) ∧
    (¬ (matchesP n = true ∧ ∃ b, Op.upload n b ∈ ops) → all.count n = 0) := by
  intro ks all
  have hall : all = ks := paginated_listing_partitions ho matchesP ops maxKeys cap hk hc
  rw [hall]
  obtain ⟨hnd, _, hmem⟩ := list_exactly_the_stored_names ho matchesP ops
  refine ⟨fun h => ?_, fun h => List.count_eq_zero.mpr (fun hm => h ((hmem n).mp hm))⟩
  rw [hnd.count]; simp [(hmem n).mpr h]

/-- One client page never stops short: it carries at least `maxKeys` names unless the listing
is finished (so a caller asking for `maxKeys` names per page makes progress every time). -/
theorem first_page_full_or_final {lt : Name → Name → Bool} (ho : StrictOrder lt)
    (ks : List Name) (hs : Sorted lt ks) (maxKeys cap : Nat) (hk : 1 ≤ maxKeys) (hc : 1 ≤ cap) :
    let r := clientPage lt ks maxKeys cap (ks.length + 1) none []
    (r.2 = none ∧ r.1 = ks) ∨ (r.2 ≠ none ∧ 1 ≤ r.1.length ∧ ∃ j, r.1 = ks.take j) := by
  intro r
  obtain ⟨j, hj1, hj2, hj3⟩ := clientPage_spec ho maxKeys cap hk hc (ks.length + 1) [] ks [] none
    (by simpa using hs) (Or.inl ⟨rfl, rfl⟩) (Nat.lt_succ_self _)
  simp only [List.nil_append] at hj2 hj3
  rcases hj3 with ⟨h1, h2⟩ | ⟨h1, h2, h3⟩
  · left
    refine ⟨h1, ?_⟩
    show (clientPage lt ks maxKeys cap (ks.length + 1) none []).1 = ks
    rw [hj2]
    have := List.take_append_drop j ks
    rw [h2, List.append_nil] at this
    exact this
  · right
    refine ⟨?_, ?_, j, hj2⟩
    · intro hnone
      rw [show r.2 = (clientPage lt ks maxKeys cap (ks.length + 1) none []).2 from rfl] at hnone
      rw [hnone] at h3
      rcases h3 with ⟨hd, _⟩ | ⟨hne, hl⟩
      · have hjl : (ks.take j).length = j := by rw [List.length_take]; omega
        have htk : ks.take j = [] := by simpa using hd
        rw [htk] at hjl
        simp at hjl
        omega
      · exact hne (List.getLast?_eq_none_iff.mp hl.symm)
    · show 1 ≤ (clientPage lt ks maxKeys cap (ks.length + 1) none []).1.length
      rw [hj2, List.length_take]; omega

-- non-vacuity: natural-number names with `<`
theorem natOrder : StrictOrder (fun a b : Nat => decide (a < b)) :=
  ⟨by intro a; simp, by intro a b c h1 h2; simp at *; omega, by intro a b h; simp; omega⟩

example : run (fun a b : Nat => decide (a < b)) [.upload 3 [1], .upload 1 [2, 2], .other, .upload 3 [], .upload 2 [9]]
    = [(1, [2, 2]), (2, [9]), (3, [])] := by decide
example : download (run (fun a b : Nat => decide (a < b)) [.upload 3 [1], .upload 3 []]) 3 = .bytes [] := by decide
example : listAll (fun a b : Nat => decide (a < b)) [1, 2, 3, 4, 5, 6, 7] 3 2 8 none = [[1, 2, 3, 4], [5, 6, 7]] := by decide
example : listAll (fun a b : Nat => decide (a < b)) [1, 2, 3, 4, 5, 6] 2 5 7 none = [[1, 2], [3, 4], [5, 6]] := by decide
example : clientPage (fun a b : Nat => decide (a < b)) [1, 2, 3, 4, 5] 2 1 6 (some 2) [] = ([3, 4], some 4) := by decide

end KrakenModel.Spec.C37
