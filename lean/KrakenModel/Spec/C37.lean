import KrakenModel.Model.BackendSpec
import KrakenModel.Proof.C37
import KrakenModel.Proof.C37b
/-
  C37  Backend clients honour the storage contract.

  Part A states the contract on the *specification* `Model.BackendSpec` (an abstract store), for
  an arbitrary name type, strict total key order `lt` and prefix-matching predicate: these are
  facts about the specification (they say what the contract is and that it is consistent), not
  about any backend.  Part B is about models of code that exists in /repo and proves that these
  models refine the specification: the page-callback loop of s3backend.Client.List over an
  S3-style server pager (foreign keys, short pages, paginated and not), shadowbackend.Client over
  two wrapped backends, and sqlbackend.Client over an abstract table (upsert, `First`, the two
  `ORDER BY` queries).  testfs, the AWS SDK, gorm/SQLite and the file system are outside any
  model: all four backends are tied to the specification — and the three models of part B to the
  code — by refinement testing (the driver runs these very definitions).

  Quantifiers: every history of uploads/reads (unbounded), every name and content, every
  matching predicate, every page size ≥ 1 and every server-side page limit ≥ 1.
-/
namespace KrakenModel.Spec.C37
open KrakenModel.BackendSpec KrakenModel.Proof.C37

variable {Name : Type} [DecidableEq Name]

/-- **C37 (1)** Download returns exactly the bytes last uploaded under the name; a name never
uploaded is not found. -/
theorem download_returns_last_upload (lt : Name → Name → Bool) (ops : List (Op Name)) (n : Name) :
    download (run lt ops) n =
      match lastUpload ops n with
      | some b => .bytes b
      | none => .notFound := by
  unfold download run
  rw [lookup_foldl lt ops n []]
  cases lastUpload ops n <;> simp [lookup]

theorem never_uploaded_not_found (lt : Name → Name → Bool) (ops : List (Op Name)) (n : Name)
    (h : ∀ b, Op.upload n b ∉ ops) :
    download (run lt ops) n = .notFound ∧ stat (run lt ops) n = none := by
  have hl := (lastUpload_none_iff ops n).mpr h
  refine ⟨by rw [download_returns_last_upload, hl], ?_⟩
  unfold stat run
  rw [lookup_foldl lt ops n [], hl]; simp [lookup]

theorem upload_then_download (lt : Name → Name → Bool) (ops : List (Op Name)) (n : Name) (b : Bytes) :
    download (run lt (ops ++ [.upload n b])) n = .bytes b ∧
    ∀ m, m ≠ n → download (run lt (ops ++ [.upload n b])) m = download (run lt ops) m := by
  constructor
  · simp [download, run, List.foldl_append, step, lookup_put_same]
  · intro m hm
    simp [download, run, List.foldl_append, step, lookup_put_other lt _ n m b hm]

/-- **C37 (2)** Stat reports the size of the last upload (where the backend tracks sizes). -/
theorem stat_reports_last_size (lt : Name → Name → Bool) (ops : List (Op Name)) (n : Name) :
    stat (run lt ops) n = (lastUpload ops n).map List.length := by
  unfold stat run
  rw [lookup_foldl lt ops n []]
  cases lastUpload ops n <;> simp [lookup]

/-- **C37 (3)** A listing returns exactly the stored names under the prefix, each once, in key
order. -/
theorem list_exactly_the_stored_names {lt : Name → Name → Bool} (ho : StrictOrder lt)
    (matchesP : Name → Bool) (ops : List (Op Name)) :
    (list matchesP (run lt ops)).Nodup ∧ Sorted lt (list matchesP (run lt ops)) ∧
    ∀ n, n ∈ list matchesP (run lt ops) ↔ (matchesP n = true ∧ ∃ b, Op.upload n b ∈ ops) := by
  have hs : Sorted lt (list matchesP (run lt ops)) := sorted_filter matchesP _ (run_sorted ho ops)
  refine ⟨sorted_nodup ho _ hs, hs, ?_⟩
  intro n
  unfold list
  rw [List.mem_filter, mem_keys_iff_lookup]
  have hl : lookup (run lt ops) n = lastUpload ops n := by
    unfold run; rw [lookup_foldl lt ops n []]; cases lastUpload ops n <;> simp [lookup]
  rw [hl]
  have hiff : (lastUpload ops n).isSome = true ↔ ∃ b, Op.upload n b ∈ ops := by
    constructor
    · intro h
      by_cases hex : ∃ b, Op.upload n b ∈ ops
      · exact hex
      · have := (lastUpload_none_iff ops n).mpr (fun b hb => hex ⟨b, hb⟩)
        rw [this] at h; simp at h
    · intro ⟨b, hb⟩
      cases hlu : lastUpload ops n with
      | some _ => rfl
      | none => exact absurd hb ((lastUpload_none_iff ops n).mp hlu b)
  rw [hiff]
  exact And.comm

/-- **C37 (4)** (model of s3backend.Client.List's page loop) Paginated listing: for every page size
`maxKeys ≥ 1`, every server-side page limit `cap ≥ 1` and whatever foreign keys (objects under the
prefix that do not convert back to a name: they are skipped by the client but counted by the
server) lie between them, following the continuation tokens from the start hands out the stored
names under the prefix in key order; the pages partition them. `ks` = all keys the server lists
under the prefix, `conv` = "converts back to a name". -/
theorem paginated_listing_partitions {lt : Name → Name → Bool} (ho : StrictOrder lt) (conv : Name → Bool)
    (ks : List Name) (hs : Sorted lt ks) (maxKeys cap : Nat) (hk : 1 ≤ maxKeys) (hc : 1 ≤ cap) :
    (listAll lt conv ks maxKeys cap (ks.length + 1) none).flatten = ks.filter conv := by
  have := listAll_spec ho conv maxKeys cap hk hc (ks.length + 1) [] ks none (by simpa using hs) (Or.inl ⟨rfl, rfl⟩)
    (Nat.lt_succ_self _)
  simpa using this

/-- … hence, over the store after any history, every stored name under the prefix appears on
exactly one page, exactly once, and nothing else appears. -/
theorem paginated_listing_exactly_once {lt : Name → Name → Bool} (ho : StrictOrder lt)
    (matchesP : Name → Bool) (ops : List (Op Name)) (maxKeys cap : Nat) (hk : 1 ≤ maxKeys) (hc : 1 ≤ cap) (n : Name) :
    let ks := list matchesP (run lt ops)
    let all := (listAll lt (fun _ => true) ks maxKeys cap (ks.length + 1) none).flatten
    ((matchesP n = true ∧ ∃ b, Op.upload n b ∈ ops) → all.count n = 1) ∧
    (¬ (matchesP n = true ∧ ∃ b, Op.upload n b ∈ ops) → all.count n = 0) := by
  intro ks all
  obtain ⟨hnd, hsorted, hmem⟩ := list_exactly_the_stored_names ho matchesP ops
  have hall : all = ks := by
    have := paginated_listing_partitions ho (fun _ => true) ks hsorted maxKeys cap hk hc
    rw [List.filter_eq_self.mpr (fun _ _ => rfl)] at this
    exact this
  rw [hall]
  refine ⟨fun h => ?_, fun h => List.count_eq_zero.mpr (fun hm => h ((hmem n).mp hm))⟩
  rw [hnd.count]; simp [(hmem n).mpr h]

/-- A List without pagination (`limit = none`: the loop as it is after the repair) reads every
server page: it returns all convertible keys and no token, whatever ListMaxKeys and the server's
page limit are. -/
theorem unpaginated_listing_complete {lt : Name → Name → Bool} (ho : StrictOrder lt) (conv : Name → Bool)
    (ks : List Name) (hs : Sorted lt ks) (listMaxKeys cap : Nat) (hk : 1 ≤ listMaxKeys) (hc : 1 ≤ cap) :
    clientPage lt conv ks listMaxKeys cap none (ks.length + 1) none [] = (ks.filter conv, none) := by
  obtain ⟨j, hj1, hj2, hj3⟩ := clientPage_spec ho conv listMaxKeys cap none hk hc (ks.length + 1) [] ks [] none
    (by simpa using hs) (Or.inl ⟨rfl, rfl⟩) (Nat.lt_succ_self _)
  simp only [List.nil_append] at hj2 hj3
  rcases hj3 with ⟨h1, h2⟩ | ⟨_, _, _, n, hn, _⟩
  · have htake : ks.take j = ks := by
      have := List.take_append_drop j ks
      rw [h2, List.append_nil] at this
      exact this
    rw [htake] at hj2
    exact Prod.ext hj2 h1
  · exact absurd hn (by simp)

/-- A page that comes with a continuation token carries at least `maxKeys` names; a page without
one ends the listing (so a caller asking for `maxKeys` names per page makes progress every time,
also across server pages full of foreign keys). -/
theorem page_full_or_final {lt : Name → Name → Bool} (ho : StrictOrder lt) (conv : Name → Bool)
    (ks : List Name) (hs : Sorted lt ks) (maxKeys cap : Nat) (hk : 1 ≤ maxKeys) (hc : 1 ≤ cap) :
    let r := clientPage lt conv ks maxKeys cap (some maxKeys) (ks.length + 1) none []
    (r.2 = none ∧ r.1 = ks.filter conv) ∨ (r.2 ≠ none ∧ maxKeys ≤ r.1.length ∧ ∃ j, r.1 = (ks.take j).filter conv) := by
  intro r
  obtain ⟨j, hj1, hj2, hj3⟩ := clientPage_spec ho conv maxKeys cap (some maxKeys) hk hc (ks.length + 1) [] ks [] none
    (by simpa using hs) (Or.inl ⟨rfl, rfl⟩) (Nat.lt_succ_self _)
  simp only [List.nil_append] at hj2 hj3
  rcases hj3 with ⟨h1, h2⟩ | ⟨h1, h2, h3, n, hn, hlen⟩
  · left
    refine ⟨h1, ?_⟩
    show (clientPage lt conv ks maxKeys cap (some maxKeys) (ks.length + 1) none []).1 = ks.filter conv
    rw [hj2]
    have := List.take_append_drop j ks
    rw [h2, List.append_nil] at this
    rw [this]
  · right
    have hn' : n = maxKeys := by simpa using hn.symm
    subst hn'
    refine ⟨?_, hlen, j, hj2⟩
    intro hnone
    rw [show r.2 = (clientPage lt conv ks n cap (some n) (ks.length + 1) none []).2 from rfl] at hnone
    rw [hnone] at h3
    rcases h3 with ⟨hd, _⟩ | ⟨hne, hl⟩
    · have hjl : (ks.take j).length = j := by rw [List.length_take]; omega
      have htk : ks.take j = [] := by simpa using hd
      rw [htk] at hjl
      simp at hjl
      omega
    · exact hne (List.getLast?_eq_none_iff.mp hl.symm)

/-! ## Part B: models of backend code refine the specification -/

section shadow
open KrakenModel.ShadowBackend

/-- **C37 (5)** shadowbackend: for every history through the shadow client (sources positioned
at their start; seekable or not), what the client answers is what the specification answers for
the same history with the refused uploads left out: Download, Stat and List agree. -/
theorem shadow_refines_spec (lt : Name → Name → Bool) (ops : List (ShadowBackend.Op Name))
    (hc : ClientHistory ops) (n : Name) (matchesP : Name → Bool) :
    let sp := BackendSpec.run lt (shadowSpecOps ops)
    sdownload (ShadowBackend.run lt ops) n = download sp n ∧
    sstat (ShadowBackend.run lt ops) n = stat sp n ∧
    slist matchesP (ShadowBackend.run lt ops) = list matchesP sp := by
  intro sp
  obtain ⟨ha, hs⟩ := shadow_run_foldl lt ops {} [] hc rfl rfl
  have ha' : (ShadowBackend.run lt ops).active = sp := ha
  have hs' : (ShadowBackend.run lt ops).shadow = sp := hs
  refine ⟨by simp [sdownload, ha'], ?_, by simp [slist, ha']⟩
  simp only [sstat, ha', hs']
  cases stat sp n <;> rfl

/-- a source that cannot seek is refused and nothing is written -/
theorem shadow_refuses_unseekable (lt : Name → Name → Bool) (s : State Name) (n : Name) (src : Source)
    (h : src.seekable = false) : ShadowBackend.upload lt s n src = (s, .refused) := by
  simp [ShadowBackend.upload, h]

/-- Stat in general (also when one side was written directly): found iff both sides have the
name, and then with the active side's size -/
theorem shadow_stat_needs_both (s : State Name) (n : Name) (k : Nat) :
    sstat s n = some k ↔ (stat s.active n = some k ∧ (stat s.shadow n).isSome = true) := by
  simp only [sstat]
  cases stat s.active n <;> cases stat s.shadow n <;> simp

end shadow

section sql
open KrakenModel.SqlBackend
variable {Repo Tag : Type} [DecidableEq Repo] [DecidableEq Tag]

/-- **C37 (6)** sqlbackend, Download/Stat: `Where(repo, tag).First` on the table after any history
of upserts is the specification's lookup under the key (repo, tag). -/
theorem sql_first_refines_spec (lt : Repo × Tag → Repo × Tag → Bool) (ops : List (SqlBackend.Op Repo Tag))
    (r : Repo) (t : Tag) :
    first (SqlBackend.run ops) r t = lookup (BackendSpec.run lt (specOps ops)) (r, t) := by
  unfold SqlBackend.run BackendSpec.run
  rw [first_foldl ops r t [], lookup_foldl lt (specOps ops) (r, t) []]
  cases lastUpload (specOps ops) (r, t) <;> simp [first, lookup]

/-- **C37 (7)** sqlbackend, List of a repository: `SELECT tag WHERE repository = r ORDER BY tag` is
the specification's listing under "same repository", in the same (key) order. -/
theorem sql_tags_query_refines_spec {ltRepo : Repo → Repo → Bool} {ltTag : Tag → Tag → Bool}
    (hr : StrictOrder ltRepo) (ht : StrictOrder ltTag) (ops : List (SqlBackend.Op Repo Tag)) (r : Repo) :
    tagsQuery ltTag (SqlBackend.run ops) r =
      (list (fun k => decide (k.1 = r)) (BackendSpec.run (ltPair ltRepo ltTag) (specOps ops))).map (·.2) := by
  have hp := ltPair_strict hr ht
  obtain ⟨hsl, hml⟩ := orderBy_spec ht (((SqlBackend.run ops).filter fun row => row.repo = r).map (·.tag))
  apply sorted_ext ht _ _ hsl
  · -- the specification's listing of one repository is sorted by tag
    have hs := sorted_filter (fun k => decide (k.1 = r)) _ (run_sorted hp (specOps ops))
    unfold Sorted at hs ⊢
    rw [List.pairwise_map]
    refine List.Pairwise.imp_of_mem ?_ hs
    intro a b ha hb hab
    have ha1 : a.1 = r := by simpa using (List.mem_filter.mp ha).2
    have hb1 : b.1 = r := by simpa using (List.mem_filter.mp hb).2
    simp only [ltPair, Bool.or_eq_true, Bool.and_eq_true, decide_eq_true_eq] at hab
    rcases hab with h | ⟨_, h⟩
    · rw [ha1, hb1, hr.irrefl] at h; exact absurd h (by simp)
    · exact h
  · intro t
    rw [hml t]
    have h1 : t ∈ (List.filter (fun row => decide (row.repo = r)) (SqlBackend.run ops)).map (·.tag) ↔
        (first (SqlBackend.run ops) r t).isSome = true := by
      rw [← mem_table_iff_first]
      simp only [List.mem_map, List.mem_filter, decide_eq_true_eq]
      constructor
      · rintro ⟨row, ⟨hm, hrr⟩, htt⟩; exact ⟨row, hm, hrr, htt⟩
      · rintro ⟨row, hm, hrr, htt⟩; exact ⟨row, ⟨hm, hrr⟩, htt⟩
    rw [h1, sql_first_refines_spec (ltPair ltRepo ltTag) ops r t, ← mem_keys_iff_lookup]
    simp only [list, List.mem_map, List.mem_filter, decide_eq_true_eq]
    constructor
    · intro hk; exact ⟨(r, t), ⟨hk, rfl⟩, rfl⟩
    · rintro ⟨k, ⟨hk, hk1⟩, hk2⟩
      have : k = (r, t) := Prod.ext hk1 hk2
      rw [← this]; exact hk

/-- **C37 (8)** sqlbackend, List "": the catalog query lists exactly the repositories that hold at
least one tag, each once, in order. -/
theorem sql_catalog_lists_repositories {ltRepo : Repo → Repo → Bool} (hr : StrictOrder ltRepo)
    (lt : Repo × Tag → Repo × Tag → Bool) (ops : List (SqlBackend.Op Repo Tag)) :
    Sorted ltRepo (catalogQuery ltRepo (SqlBackend.run ops)) ∧ (catalogQuery ltRepo (SqlBackend.run ops)).Nodup ∧
    ∀ r, r ∈ catalogQuery ltRepo (SqlBackend.run ops) ↔ ∃ t, (r, t) ∈ keys (BackendSpec.run lt (specOps ops)) := by
  obtain ⟨hs, hm⟩ := orderBy_spec hr ((SqlBackend.run ops).map (·.repo))
  refine ⟨hs, sorted_nodup hr _ hs, ?_⟩
  intro r
  rw [catalogQuery, hm r]
  simp only [List.mem_map]
  constructor
  · rintro ⟨row, hmem, hrr⟩
    refine ⟨row.tag, ?_⟩
    rw [mem_keys_iff_lookup, ← sql_first_refines_spec lt ops r row.tag, ← mem_table_iff_first]
    exact ⟨row, hmem, hrr, rfl⟩
  · rintro ⟨t, hk⟩
    rw [mem_keys_iff_lookup, ← sql_first_refines_spec lt ops r t, ← mem_table_iff_first] at hk
    obtain ⟨row, hmem, hrr, _⟩ := hk
    exact ⟨row, hmem, hrr⟩

end sql

-- non-vacuity: natural-number names with `<`
theorem natOrder : StrictOrder (fun a b : Nat => decide (a < b)) :=
  ⟨by intro a; simp, by intro a b c h1 h2; simp at *; omega, by intro a b h; simp; omega⟩

example : run (fun a b : Nat => decide (a < b)) [.upload 3 [1], .upload 1 [2, 2], .other, .upload 3 [], .upload 2 [9]]
    = [(1, [2, 2]), (2, [9]), (3, [])] := by decide
example : download (run (fun a b : Nat => decide (a < b)) [.upload 3 [1], .upload 3 []]) 3 = .bytes [] := by decide
example : listAll (fun a b : Nat => decide (a < b)) (fun _ => true) [1, 2, 3, 4, 5, 6, 7] 3 2 8 none = [[1, 2, 3, 4], [5, 6, 7]] := by decide
example : listAll (fun a b : Nat => decide (a < b)) (fun _ => true) [1, 2, 3, 4, 5, 6] 2 5 7 none = [[1, 2], [3, 4], [5, 6]] := by decide
-- foreign keys (odd numbers) between the names: skipped, pages still partition the names
example : listAll (fun a b : Nat => decide (a < b)) (fun n => n % 2 == 0) [1, 2, 3, 5, 7, 8, 9, 10, 11] 2 2 10 none = [[2, 8], [10]] := by decide
example : clientPage (fun a b : Nat => decide (a < b)) (fun _ => true) [1, 2, 3, 4, 5] 2 1 (some 2) 6 (some 2) [] = ([3, 4], some 4) := by decide

end KrakenModel.Spec.C37
