import KrakenModel.Util.LTS
import KrakenModel.Model.TagStore
import KrakenModel.Proof.C30
import KrakenModel.Proof.C30Live
import KrakenModel.Proof.RetryLift
/-
  C32  Build-index tag puts are dependency-checked, stable and written back.
  Statements are about `Model.TagStore` (tagserver.putTag + tagstore.Put/Get + the write-back
  executor on tag tasks) composed with the retry manager of C30, for every history of puts (any tag,
  any digest, any answers of the origin cluster to the dependency checks, any backend availability
  per write-through attempt), gets, poller / worker steps, executor runs and restarts — in
  write-through and in asynchronous mode.  As in the property, tags are never evicted from the node's
  disk and the backend starts empty and is written by this node only.
-/
namespace KrakenModel.Spec.C32
open KrakenModel KrakenModel.TagStore
open KrakenModel.Retry (Key)

def sys (cfg : Retry.Config) (wt : Bool) : Sys State Op := { init := init cfg wt, step := step }

/-! ### association lists -/

theorem lookup_append (m : List (Tag × Digest)) (t x : Tag) (d : Digest) :
    lookup (m ++ [(t, d)]) x = match lookup m x with
      | some v => some v
      | none => if t = x then some d else none := by
  unfold lookup
  induction m with
  | nil => by_cases h : t = x <;> simp [h]
  | cons e es ih =>
    by_cases h : e.1 = x
    · simp [List.find?_cons, h]
    · simp only [List.cons_append, List.find?_cons, h, decide_false]
      exact ih

theorem writeDisk_stable (disk : List (Tag × Digest)) (t x : Tag) (d v : Digest)
    (h : lookup disk x = some v) : lookup (writeDisk disk t d) x = some v := by
  unfold writeDisk
  cases ht : lookup disk t with
  | some _ => exact h
  | none => simp only; rw [lookup_append, h]

theorem writeDisk_self (disk : List (Tag × Digest)) (t : Tag) (d : Digest) :
    (lookup (writeDisk disk t d) t).isSome := by
  unfold writeDisk
  cases ht : lookup disk t with
  | some _ => simp [ht]
  | none => simp only; rw [lookup_append, ht]; simp

theorem writeDisk_source (disk : List (Tag × Digest)) (t x : Tag) (d v : Digest)
    (h : lookup (writeDisk disk t d) x = some v) : lookup disk x = some v ∨ (x = t ∧ v = d) := by
  unfold writeDisk at h
  cases ht : lookup disk t with
  | some _ => rw [ht] at h; exact Or.inl h
  | none =>
    rw [ht] at h
    simp only at h
    rw [lookup_append] at h
    cases hx : lookup disk x with
    | some w => rw [hx] at h; exact Or.inl h
    | none =>
      rw [hx] at h
      by_cases he : t = x
      · simp [he] at h; exact Or.inr ⟨he.symm, h.symm⟩
      · simp [he] at h

/-! ### the executor -/

/-- what an executor run (or a SyncExec) may do to the backend, given that the backend only holds
copies of the disk (`hbd`): existing entries stay, a new entry is a copy of the disk, and after a
success the backend holds the disk's digest for the tag -/
structure ExecSpec (disk backend : List (Tag × Digest)) (t : Tag) (ok : Bool) (b' : List (Tag × Digest)) : Prop where
  stable : ∀ x v, lookup backend x = some v → lookup b' x = some v
  source : ∀ x v, lookup b' x = some v → lookup disk x = some v
  done : ok = true → (lookup disk t).isSome → lookup b' t = lookup disk t
  failed : ok = false → b' = backend

theorem runExecutor_spec (disk backend : List (Tag × Digest)) (t : Tag) (up : Bool)
    (hbd : ∀ x v, lookup backend x = some v → lookup disk x = some v) :
    ExecSpec disk backend t (runExecutor disk backend t up).1 (runExecutor disk backend t up).2 := by
  unfold runExecutor
  by_cases h1 : (up && (lookup backend t).isSome) = true
  · simp only [h1, if_true]
    simp only [Bool.and_eq_true, Option.isSome_iff_exists] at h1
    obtain ⟨_, v, hv⟩ := h1
    exact ⟨fun _ _ h => h, hbd, fun _ _ => by rw [hv, hbd t v hv], by simp⟩
  · simp only [h1, Bool.false_eq_true, if_false]
    cases hd : lookup disk t with
    | none => exact ⟨fun _ _ h => h, hbd, by simp [hd], by simp⟩
    | some d =>
      cases up with
      | false => exact ⟨fun _ _ h => h, hbd, by simp, fun _ => rfl⟩
      | true =>
        simp only [Bool.true_and, Option.isSome_iff_exists, not_exists] at h1
        have hnone : lookup backend t = none := by
          cases hb : lookup backend t with
          | none => rfl
          | some v => exact absurd hb (h1 v)
        simp only [if_true]
        refine ⟨?_, ?_, ?_, by simp⟩
        · intro x v h; rw [lookup_append, h]
        · intro x v h
          rw [lookup_append] at h
          cases hx : lookup backend x with
          | some w => rw [hx] at h; exact hbd x v (by rw [hx]; exact h)
          | none =>
            rw [hx] at h
            by_cases he : t = x
            · subst he; simp at h; rw [hd, h]
            · simp [he] at h
        · intro _ _
          rw [lookup_append, hnone]; simp [hd]

theorem syncExec_spec (disk : List (Tag × Digest)) (t : Tag) (fuel : Nat) (ups : List Bool)
    (backend : List (Tag × Digest)) (hbd : ∀ x v, lookup backend x = some v → lookup disk x = some v) :
    ExecSpec disk backend t (syncExec disk t fuel ups backend).1 (syncExec disk t fuel ups backend).2 := by
  induction fuel generalizing ups backend with
  | zero => exact ⟨fun _ _ h => h, hbd, by simp [syncExec], fun _ => rfl⟩
  | succ n ih =>
    cases ups with
    | nil => exact ⟨fun _ _ h => h, hbd, by simp [syncExec], fun _ => rfl⟩
    | cons up ups =>
      have e := runExecutor_spec disk backend t up hbd
      simp only [syncExec]
      cases hr : runExecutor disk backend t up with
      | mk ok b1 =>
        rw [hr] at e
        cases ok with
        | true => exact e
        | false =>
          simp only
          have hb1 : b1 = backend := e.failed rfl
          subst hb1
          exact ih ups b1 hbd

/-! ### the invariant -/

structure Inv (s : State) : Prop where
  good : Retry.Good s.r
  /-- the node's disk only holds digests that were put for the tag -/
  diskPut : ∀ t d, lookup s.disk t = some d → (t, d) ∈ s.putFor
  /-- the backend only holds copies of what the node's disk holds -/
  backendDisk : ∀ t b, lookup s.backend t = some b → lookup s.disk t = some b
  /-- an acknowledged PUT: the tag is on disk, and the backend holds the same digest — or (async
  mode only) the write-back task is still stored -/
  okPut : ∀ t ∈ s.okPut, (lookup s.disk t).isSome ∧
    (lookup s.backend t = lookup s.disk t ∨ (s.writeThrough = false ∧ stored s t))

theorem kept (r : Retry.State) (o : Retry.Op) (k : Key) (hk : k ∈ Retry.keys r.rows)
    (h1 : o ≠ .finish k true) (h2 : ∀ inv, o = .start inv → k ∉ inv) :
    k ∈ Retry.keys (Retry.step r o).rows := by
  by_cases h : k ∈ Retry.keys (Retry.step r o).rows
  · exact h
  · rcases Retry.step_keys_lost r o k hk h with ⟨he, _⟩ | ⟨inv, he, hin, _⟩
    · exact absurd he h1
    · exact absurd hin (h2 inv he)

theorem mem_ins (l : List Nat) (x y : Nat) : y ∈ ins l x ↔ y = x ∨ y ∈ l := by
  unfold ins
  split
  · constructor
    · exact Or.inr
    · rintro (rfl | h)
      · assumption
      · exact h
  · simp [or_comm]

theorem addBegin_stored (r : Retry.State) (k : Key) (h : (Retry.stepO r (.addBegin k 0)).2 ≠ .closed) :
    k ∈ Retry.keys (Retry.stepO r (.addBegin k 0)).1.rows := by
  simp only [Retry.stepO] at h ⊢
  cases hm : r.mode <;> simp only [hm] at h ⊢
  · by_cases hh : Retry.hasKey r.rows k = true
    · simpa [hh] using (Retry.hasKey_iff _ _).mp hh
    · simp [hh, Retry.keys, Retry.newRow]
  all_goals simp at h

theorem step_inv (s : State) (o : Op) (h : Inv s) : Inv (step s o) := by
  unfold step
  cases o with
  | put t d deps ups =>
    simp only [stepO]
    cases hc : checkDeps deps <;> simp only
    case ok =>
      -- the disk write
      have hdisk : ∀ x v, lookup s.disk x = some v → lookup (writeDisk s.disk t d) x = some v :=
        fun x v => writeDisk_stable s.disk t x d v
      have hput : ∀ x v, lookup (writeDisk s.disk t d) x = some v → (x, v) ∈ s.putFor ++ [(t, d)] := by
        intro x v hx
        rcases writeDisk_source s.disk t x d v hx with h1 | ⟨rfl, rfl⟩
        · exact List.mem_append_left _ (h.diskPut x v h1)
        · simp
      have hbd1 : ∀ x v, lookup s.backend x = some v → lookup (writeDisk s.disk t d) x = some v :=
        fun x v hx => hdisk x v (h.backendDisk x v hx)
      have hsome : ∀ x, (lookup s.disk x).isSome → (lookup (writeDisk s.disk t d) x).isSome := by
        intro x hx
        obtain ⟨v, hv⟩ := Option.isSome_iff_exists.mp hx
        rw [hdisk x v hv]; rfl
      by_cases hw : s.writeThrough = true
      · simp only [hw, if_true]
        have e := syncExec_spec (writeDisk s.disk t d) t 3 ups s.backend hbd1
        cases hr : syncExec (writeDisk s.disk t d) t 3 ups s.backend with
        | mk ok b' =>
          rw [hr] at e
          have okOld : ∀ x ∈ s.okPut, (lookup (writeDisk s.disk t d) x).isSome ∧
              (lookup b' x = lookup (writeDisk s.disk t d) x ∨ (s.writeThrough = false ∧ stored s x)) := by
            intro x hx
            obtain ⟨a, b⟩ := h.okPut x hx
            refine ⟨hsome x a, ?_⟩
            rcases b with b | b
            · obtain ⟨v, hv⟩ := Option.isSome_iff_exists.mp a
              left; rw [hdisk x v hv, e.stable x v (by rw [b, hv])]
            · exact Or.inr b
          cases ok with
          | false =>
            simp only
            refine ⟨h.good, hput, e.source, ?_⟩
            intro x hx
            have := okOld x hx
            simpa [hw, stored] using this
          | true =>
            simp only
            refine ⟨h.good, hput, e.source, ?_⟩
            intro x hx
            rcases (mem_ins _ _ _).mp hx with rfl | hx
            · exact ⟨writeDisk_self _ _ _, Or.inl (e.done rfl (writeDisk_self _ _ _))⟩
            · have := okOld x hx
              simpa [hw, stored] using this
      · have hw' : s.writeThrough = false := by simpa using hw
        simp only [hw', Bool.false_eq_true, if_false]
        have okOld : ∀ (r' : Retry.State), (∀ x, stored s x → x ∈ Retry.keys r'.rows) →
            ∀ x ∈ s.okPut, (lookup (writeDisk s.disk t d) x).isSome ∧
              (lookup s.backend x = lookup (writeDisk s.disk t d) x ∨ (false = false ∧ x ∈ Retry.keys r'.rows)) := by
          intro r' hr' x hx
          obtain ⟨a, b⟩ := h.okPut x hx
          refine ⟨hsome x a, ?_⟩
          rcases b with b | ⟨_, b⟩
          · obtain ⟨v, hv⟩ := Option.isSome_iff_exists.mp a
            left; rw [hdisk x v hv, b, hv]
          · exact Or.inr ⟨rfl, hr' x b⟩
        cases ha : Retry.stepO s.r (.addBegin t 0) with
        | mk r1 o1 =>
          have hr1 : r1 = (Retry.stepO s.r (.addBegin t 0)).1 := by rw [ha]
          have ho1 : o1 = (Retry.stepO s.r (.addBegin t 0)).2 := by rw [ha]
          have hclosed : Inv { s with disk := writeDisk s.disk t d, putFor := s.putFor ++ [(t, d)] } := by
            refine ⟨h.good, hput, hbd1, ?_⟩
            intro x hx
            have := okOld s.r (fun _ h => h) x hx
            simpa [hw', stored] using this
          have hk1 : ∀ x, stored s x → x ∈ Retry.keys (Retry.step r1 (.addEnq t)).rows := by
            intro x hx
            apply kept _ _ _ _ (by simp) (by intro inv h; cases h)
            rw [hr1]
            exact kept s.r (.addBegin t 0) x hx (by simp) (by intro inv h; cases h)
          have hacc : o1 ≠ .closed → Inv { s with disk := writeDisk s.disk t d, putFor := s.putFor ++ [(t, d)], r := Retry.step r1 (.addEnq t), okPut := ins s.okPut t } := by
            intro hne
            refine ⟨Retry.step_good _ _ (hr1 ▸ Retry.step_good _ _ h.good), hput, hbd1, ?_⟩
            intro x hx
            rcases (mem_ins _ _ _).mp hx with rfl | hx
            · refine ⟨writeDisk_self _ _ _, Or.inr ⟨hw', ?_⟩⟩
              show x ∈ Retry.keys (Retry.step r1 (.addEnq x)).rows
              apply kept _ _ _ _ (by simp) (by intro inv h; cases h)
              rw [hr1]
              exact addBegin_stored s.r x (ho1 ▸ hne)
            · have := okOld (Retry.step r1 (.addEnq t)) hk1 x hx
              simpa [hw', stored] using this
          cases o1 <;> simp only
          case closed => simpa [hw'] using hclosed
          all_goals simpa [hw'] using hacc (by simp)
    all_goals exact h
  | get t up =>
    simp only [stepO]
    split
    · exact h
    · split
      · split <;> exact h
      · exact h
  | retry o =>
    simp only [stepO]
    split
    · rename_i hi
      have hne : ∀ x, o ≠ .finish x true ∧ ∀ inv, o = .start inv → x ∉ inv := by
        intro x; cases o <;> simp [internalOp] at hi ⊢
      refine ⟨Retry.step_good _ _ h.good, h.diskPut, h.backendDisk, ?_⟩
      intro x hx
      obtain ⟨a, b⟩ := h.okPut x hx
      refine ⟨a, ?_⟩
      rcases b with b | ⟨b1, b2⟩
      · exact Or.inl b
      · exact Or.inr ⟨b1, kept _ _ _ b2 (hne x).1 (hne x).2⟩
    · exact h
  | exec t up =>
    simp only [stepO]
    split
    · have e := runExecutor_spec s.disk s.backend t up h.backendDisk
      cases hr : runExecutor s.disk s.backend t up with
      | mk ok b' =>
        rw [hr] at e
        simp only
        refine ⟨Retry.step_good _ _ h.good, h.diskPut, e.source, ?_⟩
        intro x hx
        obtain ⟨a, b⟩ := h.okPut x hx
        refine ⟨a, ?_⟩
        obtain ⟨v, hv⟩ := Option.isSome_iff_exists.mp a
        rcases b with b | ⟨b1, b2⟩
        · left; rw [e.stable x v (by rw [b, hv]), hv]
        · by_cases hxt : x = t
          · subst hxt
            cases ok with
            | true => left; exact e.done rfl a
            | false =>
              right
              exact ⟨b1, kept _ _ _ b2 (by simp) (by intro inv h; cases h)⟩
          · right
            refine ⟨b1, kept _ _ _ b2 ?_ (by intro inv h; cases h)⟩
            intro he; injection he with he _; exact hxt he.symm
    · exact h
  | restart =>
    simp only [stepO]
    refine ⟨Retry.step_good _ _ (Retry.step_good _ _ h.good), h.diskPut, h.backendDisk, ?_⟩
    intro x hx
    obtain ⟨a, b⟩ := h.okPut x hx
    refine ⟨a, ?_⟩
    rcases b with b | ⟨b1, b2⟩
    · exact Or.inl b
    · right
      refine ⟨b1, ?_⟩
      apply kept _ _ _ _ (by simp) (by intro inv h; injection h with h; subst h; simp)
      exact kept _ _ _ b2 (by simp) (by intro inv h; cases h)

theorem inv_always (cfg : Retry.Config) (wt : Bool) (ops : List Op) : Inv ((sys cfg wt).run ops) :=
  Sys.run_inv (sys cfg wt) Inv
    ⟨Retry.good_init cfg, by simp [sys, init, lookup], by simp [sys, init, lookup], by simp [sys, init]⟩
    (fun s a h => step_inv s a h) ops

/-! ### the property -/

/-- **C32 (1)** A tag PUT is acknowledged only if the origin cluster confirmed *every* dependency
(`Stat` succeeded for each one; the first `not found` or error refuses the PUT and stores nothing). -/
theorem put_only_with_all_dependencies (s : State) (t : Tag) (d : Digest) (deps : List DepRes) (ups : List Bool)
    (h : out s (.put t d deps ups) = .ok) : ∀ r ∈ deps, r = .ok := by
  have hc : checkDeps deps = .ok := by
    simp only [out, stepO] at h
    cases hc : checkDeps deps <;> simp only [hc] at h <;> first | rfl | (exact absurd h (by simp))
  clear h
  induction deps with
  | nil => intro r hr; cases hr
  | cons a as ih =>
    cases a <;> simp only [checkDeps] at hc
    · intro r hr
      rcases List.mem_cons.mp hr with rfl | hr
      · rfl
      · exact ih hc r hr
    all_goals cases hc

theorem put_refused_stores_nothing (s : State) (t : Tag) (d : Digest) (deps : List DepRes) (ups : List Bool)
    (h : checkDeps deps ≠ .ok) : step s (.put t d deps ups) = s := by
  cases hc : checkDeps deps <;> simp only [step, stepO, hc] <;> exact absurd hc h

/-- **C32 (2a)** Tags do not change once stored on a node: no operation changes the digest the disk
holds for a tag (a second PUT with another digest is acknowledged but leaves the first digest). -/
theorem disk_stable (s : State) (o : Op) (t : Tag) (d : Digest) (h : lookup s.disk t = some d) :
    lookup (step s o).disk t = some d := by
  unfold step
  cases o with
  | put t' d' deps ups =>
    simp only [stepO]
    cases hc : checkDeps deps <;> simp only <;> try exact h
    split
    · split <;> exact writeDisk_stable _ _ _ _ _ h
    · split <;> exact writeDisk_stable _ _ _ _ _ h
  | get t' up =>
    simp only [stepO]
    split
    · exact h
    · split
      · split <;> exact h
      · exact h
  | retry o => simp only [stepO]; split <;> exact h
  | exec t' up =>
    simp only [stepO]
    split
    · split <;> exact h
    · exact h
  | restart => exact h

theorem disk_stable_hist (s : State) (ops : List Op) (t : Tag) (d : Digest) (h : lookup s.disk t = some d) :
    lookup (ops.foldl step s).disk t = some d := by
  induction ops generalizing s with
  | nil => exact h
  | cons o rest ih => exact ih (step s o) (disk_stable s o t d h)

/-- **C32 (2b)** After every history, what a GET resolves a tag to is a digest that was put for that
tag — whether it comes from the node's disk or, the disk not having it, from the backend. -/
theorem get_resolves_a_put_digest (cfg : Retry.Config) (wt : Bool) (ops : List Op) (t : Tag) (up : Bool) (d : Digest)
    (h : out ((sys cfg wt).run ops) (.get t up) = .digest d) : (t, d) ∈ ((sys cfg wt).run ops).putFor := by
  have hi := inv_always cfg wt ops
  simp only [out, stepO] at h
  cases hd : lookup ((sys cfg wt).run ops).disk t with
  | some v =>
    simp only [hd] at h
    injection h with h; subst h
    exact hi.diskPut t v hd
  | none =>
    simp only [hd] at h
    cases up with
    | false => simp at h
    | true =>
      cases hb : lookup ((sys cfg wt).run ops).backend t with
      | none => simp [hb] at h
      | some v =>
        simp only [hb, if_true] at h
        injection h with h; subst h
        exact hi.diskPut t v (hi.backendDisk t v hb)

/-- **C32 (2c)** After an acknowledged PUT the node resolves the tag (from its disk, whatever the
backend's state), and keeps resolving it to that same digest after any further history. -/
theorem acknowledged_put_resolves (s : State) (t : Tag) (d : Digest) (deps : List DepRes) (ups : List Bool)
    (h : out s (.put t d deps ups) = .ok) :
    ∃ d', lookup (step s (.put t d deps ups)).disk t = some d' ∧
      ∀ (ops : List Op) (up : Bool), out (ops.foldl step (step s (.put t d deps ups))) (.get t up) = .digest d' := by
  have hsome : (lookup (step s (.put t d deps ups)).disk t).isSome := by
    simp only [out, step, stepO] at h ⊢
    cases hc : checkDeps deps <;> simp only [hc] at h ⊢ <;> try (exact absurd h (by simp))
    split
    · split <;> exact writeDisk_self _ _ _
    · split <;> exact writeDisk_self _ _ _
  obtain ⟨d', hd'⟩ := Option.isSome_iff_exists.mp hsome
  refine ⟨d', hd', ?_⟩
  intro ops up
  have := disk_stable_hist _ ops t d' hd'
  simp [out, stepO, this]

/-- **C32 (3a)** write-through: when the PUT is acknowledged the backend already holds exactly the
digest the node resolves. -/
theorem write_through_is_synchronous (cfg : Retry.Config) (ops : List Op) (t : Tag) (d : Digest)
    (deps : List DepRes) (ups : List Bool)
    (h : out ((sys cfg true).run ops) (.put t d deps ups) = .ok) :
    let s' := step ((sys cfg true).run ops) (.put t d deps ups)
    lookup s'.backend t = lookup s'.disk t ∧ (lookup s'.disk t).isSome := by
  intro s'
  have hi : Inv s' := step_inv _ _ (inv_always cfg true ops)
  have hwt : ∀ (l : List Op), ((sys cfg true).run l).writeThrough = true := by
    intro l
    refine Sys.run_inv (sys cfg true) (fun s => s.writeThrough = true) rfl ?_ l
    intro s a hs
    have : (step s a).writeThrough = s.writeThrough := by
      cases a <;> simp only [step, stepO] <;> (repeat' split) <;> rfl
    exact this.trans hs
  have hin : t ∈ s'.okPut := by
    simp only [s', out, step, stepO, hwt ops, if_true] at h ⊢
    cases hc : checkDeps deps <;> simp only [hc] at h ⊢ <;> try (exact absurd h (by simp))
    split
    · exact (mem_ins _ _ _).mpr (Or.inl rfl)
    · rename_i hf; simp [hf] at h
  have hw' : s'.writeThrough = true := by
    have : s'.writeThrough = ((sys cfg true).run ops).writeThrough := by
      simp only [s', step, stepO]; (repeat' split) <;> rfl
    rw [this, hwt]
  obtain ⟨a, b⟩ := hi.okPut t hin
  rcases b with b | ⟨b1, _⟩
  · exact ⟨b, a⟩
  · rw [hw'] at b1; cases b1

/-- **C32 (3b)** asynchronous mode, safety: after every history, for every tag with an acknowledged
PUT the backend holds exactly the digest the node resolves, or the write-back task is still in the
retry table (from which C30 retries it until it succeeds); and the backend never holds anything but
a copy of the node's digest. -/
theorem written_back_or_pending (cfg : Retry.Config) (wt : Bool) (ops : List Op) (t : Tag)
    (h : t ∈ ((sys cfg wt).run ops).okPut) :
    let s := (sys cfg wt).run ops
    (lookup s.disk t).isSome ∧ (lookup s.backend t = lookup s.disk t ∨ stored s t) := by
  obtain ⟨a, b⟩ := (inv_always cfg wt ops).okPut t h
  exact ⟨a, b.imp id (fun h => h.2)⟩

theorem backend_only_copies_disk (cfg : Retry.Config) (wt : Bool) (ops : List Op) (t : Tag) (b : Digest)
    (h : lookup ((sys cfg wt).run ops).backend t = some b) : lookup ((sys cfg wt).run ops).disk t = some b :=
  (inv_always cfg wt ops).backendDisk t b h

/-- **C32 (3c)** an execution of the write-back task against a reachable backend leaves the backend
with exactly the node's digest (and removes the task). -/
theorem exec_writes_back (s : State) (hi : Inv s) (t : Tag) (p : Retry.Pool)
    (hrun : Retry.placeOf s.r.own t = some (.running p)) (hd : (lookup s.disk t).isSome) :
    lookup (step s (.exec t true)).backend t = lookup (step s (.exec t true)).disk t ∧ out s (.exec t true) = .ok := by
  have e := runExecutor_spec s.disk s.backend t true hi.backendDisk
  have hok : (runExecutor s.disk s.backend t true).1 = true := by
    unfold runExecutor
    split
    · rfl
    · cases lookup s.disk t <;> simp
  simp only [step, out, stepO, hrun]
  cases hr : runExecutor s.disk s.backend t true with
  | mk ok b' =>
    rw [hr] at e hok
    simp only at hok
    subst hok
    exact ⟨e.done rfl hd, rfl⟩

/-! ### asynchronous mode: eventually written back -/

/-- the composite step that performs a retry-manager system step -/
def lift : Retry.Op → Op
  | .finish t _ => .exec t true
  | o => .retry o

theorem runExecutor_up_ok (disk backend : List (Tag × Digest)) (t : Tag) :
    (runExecutor disk backend t true).1 = true := by
  unfold runExecutor
  split
  · rfl
  · cases lookup disk t <;> simp

theorem lift_step (s : State) (hi : Inv s) (o : Retry.Op) (ho : Retry.SysOp o) (hn : Retry.NoAdding s.r) :
    (step s (lift o)).r = Retry.step s.r o ∧ (step s (lift o)).disk = s.disk ∧
    (step s (lift o)).okPut = s.okPut ∧ (step s (lift o)).writeThrough = s.writeThrough := by
  cases o <;> simp only [Retry.SysOp] at ho
  case finish t ok =>
    subst ho
    simp only [lift, step, stepO]
    cases hp : Retry.placeOf s.r.own t with
    | none => simp [Retry.step, Retry.stepO, hp]
    | some pl =>
      cases pl with
      | running p =>
        have hok := runExecutor_up_ok s.disk s.backend t
        cases hr : runExecutor s.disk s.backend t true with
        | mk ok b' =>
          rw [hr] at hok
          simp only at hok
          subst hok
          exact ⟨rfl, rfl, rfl, rfl⟩
      | adding => simp [Retry.step, Retry.stepO, hp]
      | retrying => simp [Retry.step, Retry.stepO, hp]
      | queued p => simp [Retry.step, Retry.stepO, hp]
  case addEnq t =>
    have := (Retry.noAdding_step s.r (.addEnq t) hn (by simp [Retry.SysOp])).2 t rfl
    simp [lift, step, stepO, internalOp, this]
  all_goals simp [lift, step, stepO, internalOp]

theorem lift_run (ops : List Retry.Op) (hs : ∀ o ∈ ops, Retry.SysOp o) (s : State) (hi : Inv s)
    (hn : Retry.NoAdding s.r) :
    ((ops.map lift).foldl step s).r = ops.foldl Retry.step s.r ∧ ((ops.map lift).foldl step s).disk = s.disk ∧
    Inv ((ops.map lift).foldl step s) := by
  induction ops generalizing s with
  | nil => exact ⟨rfl, rfl, hi⟩
  | cons o rest ih =>
    have ho := hs o (by simp)
    obtain ⟨a1, a2, _, _⟩ := lift_step s hi o ho hn
    have hn' : Retry.NoAdding (step s (lift o)).r := by
      rw [a1]; exact (Retry.noAdding_step s.r o hn ho).1
    obtain ⟨b1, b2, b3⟩ := ih (fun o' h' => hs o' (List.mem_cons_of_mem _ h')) (step s (lift o)) (step_inv s _ hi) hn'
    simp only [List.map_cons, List.foldl_cons]
    exact ⟨by rw [b1, a1], by rw [b2, a2], b3⟩

/-- **C32 (3d) eventually written back, in the no-absorbing-state form.**  In every reachable state of a
node in asynchronous mode, for every tag with an acknowledged PUT whose digest the backend does not
hold yet, there is a continuation — a process restart, then only the retry manager's own steps and
executor runs against a reachable backend — after which the backend holds exactly the node's digest. -/
theorem eventually_written_back (cfg : Retry.Config) (hc : Retry.WFCfg cfg) (ops : List Op) (t : Tag)
    (hok : t ∈ ((sys cfg false).run ops).okPut)
    (hnb : lookup ((sys cfg false).run ops).backend t ≠ lookup ((sys cfg false).run ops).disk t) :
    ∃ cont : List Op, (∀ o ∈ cont, o = .restart ∨ (∃ r, o = .retry r) ∨ ∃ t', o = .exec t' true) ∧
      lookup ((sys cfg false).run (ops ++ cont)).backend t = lookup ((sys cfg false).run (ops ++ cont)).disk t ∧
      (lookup ((sys cfg false).run (ops ++ cont)).disk t).isSome := by
  let s := (sys cfg false).run ops
  have hi : Inv s := inv_always cfg false ops
  have e1 : ∀ (r : Retry.State) (o : Retry.Op), (Retry.step r o).cfg = r.cfg := by
    intro r o; cases o <;> simp only [Retry.step, Retry.stepO, Retry.enqueue] <;> (repeat' split) <;> rfl
  have hcfg : s.r.cfg = cfg := by
    refine Sys.run_inv (sys cfg false) (fun s => s.r.cfg = cfg) rfl ?_ ops
    intro s a h
    have : (step s a).r.cfg = s.r.cfg := by
      cases a with
      | put t d deps ups =>
        simp only [step, stepO]
        cases checkDeps deps <;> simp only <;> try rfl
        split
        · split <;> rfl
        · cases ha : Retry.stepO s.r (.addBegin t 0) with
          | mk r1 o1 =>
            have hr1 : r1.cfg = s.r.cfg := by
              have := e1 s.r (.addBegin t 0); simp only [Retry.step, ha] at this; exact this
            cases o1 <;> simp only <;> first | rfl | (rw [e1]; exact hr1)
      | get t up => simp only [step, stepO]; (repeat' split) <;> rfl
      | retry o =>
        simp only [step, stepO]
        split
        · exact e1 _ _
        · rfl
      | exec t up =>
        simp only [step, stepO]
        split
        · cases runExecutor s.disk s.backend t up with
          | mk ok b' => exact e1 _ _
        · rfl
      | restart =>
        simp only [step, stepO]
        exact (Retry.restart_facts s.r).1
    exact this.trans h
  obtain ⟨hdisk, hbs⟩ := hi.okPut t hok
  have hstored : stored s t := by
    rcases hbs with h | ⟨_, h⟩
    · exact absurd h hnb
    · exact h
  let s1 := step s .restart
  have hi1 : Inv s1 := step_inv s _ hi
  have hr1 : s1.r = Retry.step (Retry.step s.r .crash) (.start []) := rfl
  obtain ⟨hcfg1, hup, hown⟩ : s1.r.cfg = s.r.cfg ∧ s1.r.mode = .up ∧ s1.r.own = [] := by
    rw [hr1]; exact Retry.restart_facts s.r
  have hst1 : t ∈ Retry.keys s1.r.rows := by
    apply kept _ _ _ _ (by simp) (by intro inv h; injection h with h; subst h; simp)
    exact kept _ _ _ hstored (by simp) (by intro inv h; cases h)
  obtain ⟨rops, hsys, p, hp⟩ := Retry.can_reach_exec s1.r hi1.good hup (by rw [hcfg1, hcfg]; exact hc) t hst1
  have hn1 : Retry.NoAdding s1.r := by intro e he; rw [hown] at he; cases he
  obtain ⟨l1, l2, l3⟩ := lift_run rops hsys s1 hi1 hn1
  refine ⟨.restart :: (rops.map lift ++ [.exec t true]), ?_, ?_⟩
  · intro o ho
    rcases List.mem_cons.mp ho with rfl | ho
    · exact Or.inl rfl
    · rcases List.mem_append.mp ho with ho | ho
      · obtain ⟨o', _, rfl⟩ := List.mem_map.mp ho
        cases o' <;> simp [lift]
      · simp at ho; subst ho; exact Or.inr (Or.inr ⟨t, rfl⟩)
  · have hrun : Retry.placeOf ((rops.map lift).foldl step s1).r.own t = some (.running p) := by rw [l1]; exact hp
    have hd2 : (lookup ((rops.map lift).foldl step s1).disk t).isSome := by
      rw [l2]; exact hdisk
    have := exec_writes_back _ l3 t p hrun hd2
    have hrun' : (sys cfg false).run (ops ++ .restart :: (rops.map lift ++ [.exec t true])) =
        step ((rops.map lift).foldl step s1) (.exec t true) := by
      simp [Sys.run, sys, List.foldl_append, s1, s]
    rw [hrun']
    refine ⟨this.1, ?_⟩
    have hds : (step ((rops.map lift).foldl step s1) (.exec t true)).disk = ((rops.map lift).foldl step s1).disk := by
      simp only [step, stepO, hrun]
    rw [hds]; exact hd2

-- non-vacuity: write-through with a backend outage on the first two attempts; a refused PUT; a second
-- PUT with another digest; asynchronous mode with a failed and a retried write-back
def cfg1 : Retry.Config := { capIn := 4, capRe := 4, nIn := 2, nRe := 2, retryInterval := 0 }
def wtHist : List Op := [.put 1 10 [.ok, .ok] [false, false, true], .put 2 20 [.ok, .notFound] [true], .put 1 11 [] [true]]
example : ((sys cfg1 true).run wtHist).disk = [(1, 10)] ∧ ((sys cfg1 true).run wtHist).backend = [(1, 10)] ∧
    ((sys cfg1 true).run wtHist).okPut = [1] := by decide
example : out ((sys cfg1 true).run wtHist) (.get 1 false) = .digest 10 ∧ out ((sys cfg1 true).run wtHist) (.get 2 true) = .notFound := by decide
example : out ((sys cfg1 true).run []) (.put 1 10 [.ok] [false, false, false]) = .storageErr := by decide
def asyncHist : List Op :=
  [.put 1 10 [.ok] [], .retry (.take .inc), .exec 1 false, .put 1 11 [.ok] [], .restart, .retry (.advance 1),
   .retry .pollFetch, .retry .pollMark, .retry .pollEnq, .retry (.take .ret)]
example : ((sys cfg1 false).run asyncHist).backend = [] ∧ stored ((sys cfg1 false).run asyncHist) 1 := by decide
example : ((sys cfg1 false).run (asyncHist ++ [.exec 1 true])).backend = [(1, 10)] ∧
    ¬ stored ((sys cfg1 false).run (asyncHist ++ [.exec 1 true])) 1 := by decide

end KrakenModel.Spec.C32
