import KrakenModel.Util.LTS
import KrakenModel.Model.TagStore
import KrakenModel.Proof.C30
import KrakenModel.Proof.C30Live
import KrakenModel.Proof.RetryLift
/-
  C32  Build-index tag puts are dependency-checked, stable and written back.
  Statements are about `Model.TagStore` (tagserver.putTag + tagstore.Put/Get + the write-back
  executor on tag tasks) composed with the retry manager of C30, for every history of puts (any tag,
  any digest, any answers of the origin cluster to the dependency checks, any backend availability
  per write-through attempt), gets, poller / worker steps, executor runs and restarts — in
  write-through and in asynchronous mode.  As in the property, tags are never evicted from the node's
  disk and the backend starts empty and is written by this node only.
-/
namespace KrakenModel.Spec.C32
open KrakenModel KrakenModel.TagStore
open KrakenModel.Retry (Key)

def sys (cfg : Retry.Config) (wt : Bool) : Sys State Op := { init := init cfg wt, step := step }

/-! ### association lists -/

theorem lookup_append (m : List (Tag × Digest)) (t x : Tag) (d : Digest) :
    lookup (m ++ [(t, d)]) x = match lookup m x with
      | some v => some v
      | none => if t = x then some d else none := by
  unfold lookup
  induction m with
  | nil => by_cases h : t = x <;> simp [h]
  | cons e es ih =>
    by_cases h : e.1 = x
    · simp [List.find?_cons, h]
    · simp only [List.cons_append, List.find?_cons, h, decide_false]
      exact ih

theorem writeDisk_stable (disk : List (Tag × Digest)) (t x : Tag) (d v : Digest)
    (h : lookup disk x = some v) : lookup (writeDisk disk t d) x = some v := by
  unfold writeDisk
  cases ht : lookup disk t with
  | some _ => exact h
  | none => simp only; rw [lookup_append, h]

theorem writeDisk_self (disk : List (Tag × Digest)) (t : Tag) (d : Digest) :
    (lookup (writeDisk disk t d) t).isSome := by
  unfold writeDisk
  cases ht : lookup disk t with
  | some _ => simp [ht]
  | none => simp only; rw [lookup_append, ht]; simp

theorem writeDisk_source (disk : List (Tag × Digest)) (t x : Tag) (d v : Digest)
    (h : lookup (writeDisk disk t d) x = some v) : lookup disk x = some v ∨ (x = t ∧ v = d) := by
  unfold writeDisk at h
  cases ht : lookup disk t with
  | some _ => rw [ht] at h; exact Or.inl h
  | none =>
    rw [ht] at h
    simp only at h
    rw [lookup_append] at h
    cases hx : lookup disk x with
    | some w => rw [hx] at h; exact Or.inl h
    | none =>
      rw [hx] at h
      by_cases he : t = x
      · simp [he] at h; exact Or.inr ⟨he.symm, h.symm⟩
      · simp [he] at h

/-! ### the executor -/

/-- what an executor run (or a SyncExec) may do to the backend: existing entries stay, a new entry is
a copy of the disk's digest for that tag, after a success the backend holds the tag — and, if it did
not hold it before, exactly the disk's digest -/
structure ExecSpec (disk backend : List (Tag × Digest)) (t : Tag) (ok : Bool) (b' : List (Tag × Digest)) : Prop where
  stable : ∀ x v, lookup backend x = some v → lookup b' x = some v
  source : ∀ x v, lookup b' x = some v → lookup backend x = some v ∨ (x = t ∧ lookup disk t = some v)
  done : ok = true → (lookup disk t).isSome → (lookup b' t).isSome
  fresh : ok = true → lookup backend t = none → (lookup disk t).isSome → lookup b' t = lookup disk t
  failed : ok = false → b' = backend

theorem runExecutor_spec (disk backend : List (Tag × Digest)) (t : Tag) (up : Bool) :
    ExecSpec disk backend t (runExecutor disk backend t up).1 (runExecutor disk backend t up).2 := by
  unfold runExecutor
  by_cases h1 : (up && (lookup backend t).isSome) = true
  · simp only [h1, if_true]
    simp only [Bool.and_eq_true] at h1
    exact ⟨fun _ _ h => h, fun _ _ h => Or.inl h, fun _ _ => h1.2, fun _ hn _ => by simp [hn] at h1, by simp⟩
  · simp only [h1, Bool.false_eq_true, if_false]
    cases hd : lookup disk t with
    | none => exact ⟨fun _ _ h => h, fun _ _ h => Or.inl h, by simp [hd], by simp [hd], by simp⟩
    | some d =>
      cases up with
      | false => exact ⟨fun _ _ h => h, fun _ _ h => Or.inl h, by simp, by simp, fun _ => rfl⟩
      | true =>
        simp only [Bool.true_and, Option.isSome_iff_exists, not_exists] at h1
        have hnone : lookup backend t = none := by
          cases hb : lookup backend t with
          | none => rfl
          | some v => exact absurd hb (h1 v)
        simp only [if_true]
        refine ⟨?_, ?_, ?_, ?_, by simp⟩
        · intro x v h; rw [lookup_append, h]
        · intro x v h
          rw [lookup_append] at h
          cases hx : lookup backend x with
          | some w => rw [hx] at h; exact Or.inl h
          | none =>
            rw [hx] at h
            by_cases he : t = x
            · subst he; simp at h; right; exact ⟨rfl, by rw [hd, h]⟩
            · simp [he] at h
        · intro _ _; rw [lookup_append, hnone]; simp
        · intro _ _ _; rw [lookup_append, hnone]; simp [hd]

theorem syncExec_spec (disk : List (Tag × Digest)) (t : Tag) (fuel : Nat) (ups : List Bool)
    (backend : List (Tag × Digest)) :
    ExecSpec disk backend t (syncExec disk t fuel ups backend).1 (syncExec disk t fuel ups backend).2 := by
  induction fuel generalizing ups backend with
  | zero => exact ⟨fun _ _ h => h, fun _ _ h => Or.inl h, by simp [syncExec], by simp [syncExec], fun _ => rfl⟩
  | succ n ih =>
    cases ups with
    | nil => exact ⟨fun _ _ h => h, fun _ _ h => Or.inl h, by simp [syncExec], by simp [syncExec], fun _ => rfl⟩
    | cons up ups =>
      have e := runExecutor_spec disk backend t up
      simp only [syncExec]
      cases hr : runExecutor disk backend t up with
      | mk ok b1 =>
        rw [hr] at e
        cases ok with
        | true => exact e
        | false =>
          simp only
          have hb1 : b1 = backend := e.failed rfl
          subst hb1
          exact ih ups b1

/-! ### the invariant (all histories, evictions included) -/

structure Inv (s : State) : Prop where
  good : Retry.Good s.r
  /-- the node's disk only holds digests that were put for the tag -/
  diskPut : ∀ t d, lookup s.disk t = some d → (t, d) ∈ s.putFor
  /-- so does the backend -/
  backendPut : ∀ t b, lookup s.backend t = some b → (t, b) ∈ s.putFor
  /-- a tag file without persist flag (evictable) has been written back -/
  flag : ∀ t, (lookup s.disk t).isSome → t ∉ s.persist → (lookup s.backend t).isSome
  /-- an acknowledged PUT: the backend holds the tag, or (asynchronous mode) the tag file is on disk,
  protected from eviction, and its write-back task is stored -/
  okPut : ∀ t ∈ s.okPut, (lookup s.backend t).isSome ∨
    ((lookup s.disk t).isSome ∧ t ∈ s.persist ∧ s.writeThrough = false ∧ stored s t)

theorem kept (r : Retry.State) (o : Retry.Op) (k : Key) (hk : k ∈ Retry.keys r.rows)
    (h1 : o ≠ .finish k true) (h2 : ∀ inv, o = .start inv → k ∉ inv) :
    k ∈ Retry.keys (Retry.step r o).rows := by
  by_cases h : k ∈ Retry.keys (Retry.step r o).rows
  · exact h
  · rcases Retry.step_keys_lost r o k hk h with ⟨he, _⟩ | ⟨inv, he, hin, _⟩
    · exact absurd he h1
    · exact absurd hin (h2 inv he)

theorem mem_ins (l : List Nat) (x y : Nat) : y ∈ ins l x ↔ y = x ∨ y ∈ l := by
  unfold ins
  split
  · constructor
    · exact Or.inr
    · rintro (rfl | h)
      · assumption
      · exact h
  · simp [or_comm]

theorem mem_del (l : List Nat) (x y : Nat) : y ∈ del l x ↔ y ≠ x ∧ y ∈ l := by
  simp [del, and_comm]

theorem lookup_erase (m : List (Tag × Digest)) (t x : Tag) :
    lookup (erase m t) x = if x = t then none else lookup m x := by
  unfold lookup erase
  induction m with
  | nil => simp
  | cons e es ih =>
    simp only [List.filter_cons]
    by_cases h1 : e.1 = t
    · simp only [h1, ne_eq, not_true_eq_false, decide_false, Bool.false_eq_true, if_false]
      rw [ih]
      by_cases h2 : x = t
      · simp [h2]
      · have : ¬ t = x := fun h => h2 h.symm
        simp [h2, List.find?_cons, h1, this]
    · simp only [h1, ne_eq, not_false_eq_true, decide_true, if_true, List.find?_cons]
      by_cases h3 : e.1 = x
      · have : x ≠ t := fun h => h1 (h3.trans h)
        simp [h3, this]
      · simp only [h3, decide_false]; exact ih

theorem addBegin_stored (r : Retry.State) (k : Key) (dl : Nat) (h : (Retry.stepO r (.addBegin k dl [])).2 ≠ .closed) :
    k ∈ Retry.keys (Retry.stepO r (.addBegin k dl [])).1.rows := by
  simp only [Retry.stepO] at h ⊢
  cases hm : r.mode <;> simp only [hm] at h ⊢
  · by_cases hh : Retry.hasKey r.rows k = true
    · simpa [hh] using (Retry.hasKey_iff _ _).mp hh
    · by_cases hd : dl = 0 <;> simp [hh, hd, Retry.keys, Retry.newRow]
  all_goals simp at h

theorem isSome_of_stable {m m' : List (Tag × Digest)} (h : ∀ x v, lookup m x = some v → lookup m' x = some v)
    (x : Tag) (hx : (lookup m x).isSome) : (lookup m' x).isSome := by
  obtain ⟨v, hv⟩ := Option.isSome_iff_exists.mp hx
  rw [h x v hv]; rfl

theorem putStore_inv (s : State) (t : Tag) (d : Digest) (delay : Nat) (ups : List Bool) (h : Inv s) :
    Inv (putStore s t d delay ups).1 := by
  simp only [putStore]
  have hdisk : ∀ x v, lookup s.disk x = some v → lookup (writeDisk s.disk t d) x = some v :=
    fun x v => writeDisk_stable s.disk t x d v
  have hput : ∀ x v, lookup (writeDisk s.disk t d) x = some v → (x, v) ∈ s.putFor ++ [(t, d)] := by
    intro x v hx
    rcases writeDisk_source s.disk t x d v hx with h1 | ⟨rfl, rfl⟩
    · exact List.mem_append_left _ (h.diskPut x v h1)
    · simp
  have hbput : ∀ x v, lookup s.backend x = some v → (x, v) ∈ s.putFor ++ [(t, d)] :=
    fun x v hx => List.mem_append_left _ (h.backendPut x v hx)
  -- a tag file without flag after the write: it is another tag's, unchanged
  have hflag0 : ∀ x, (lookup (writeDisk s.disk t d) x).isSome → x ∉ ins s.persist t → (lookup s.backend x).isSome := by
    intro x hx hnp
    have hxt : x ≠ t := fun he => hnp ((mem_ins _ _ _).mpr (Or.inl he))
    have hnp' : x ∉ s.persist := fun hp => hnp ((mem_ins _ _ _).mpr (Or.inr hp))
    obtain ⟨v, hv⟩ := Option.isSome_iff_exists.mp hx
    rcases writeDisk_source s.disk t x d v hv with h1 | ⟨h1, _⟩
    · exact h.flag x (by rw [h1]; rfl) hnp'
    · exact absurd h1 hxt
  by_cases hw : s.writeThrough = true
  · simp only [hw, if_true]
    have e := syncExec_spec (writeDisk s.disk t d) t 3 ups s.backend
    cases hr : syncExec (writeDisk s.disk t d) t 3 ups s.backend with
    | mk ok b' =>
      rw [hr] at e
      have hbput' : ∀ x v, lookup b' x = some v → (x, v) ∈ s.putFor ++ [(t, d)] := by
        intro x v hx
        rcases e.source x v hx with h1 | ⟨rfl, h1⟩
        · exact hbput x v h1
        · exact hput x v h1
      have okOld : ∀ x ∈ s.okPut, (lookup b' x).isSome := by
        intro x hx
        rcases h.okPut x hx with a | ⟨_, _, a, _⟩
        · exact isSome_of_stable e.stable x a
        · rw [hw] at a; cases a
      cases ok with
      | false =>
        simp only
        refine ⟨h.good, hput, hbput', ?_, fun x hx => Or.inl (okOld x hx)⟩
        intro x hx hnp
        exact isSome_of_stable e.stable x (hflag0 x hx hnp)
      | true =>
        simp only
        refine ⟨h.good, hput, hbput', ?_, ?_⟩
        · intro x hx hnp
          by_cases hxt : x = t
          · subst hxt; exact e.done rfl hx
          · have : x ∉ ins s.persist t := fun hp => hnp ((mem_del _ _ _).mpr ⟨hxt, hp⟩)
            exact isSome_of_stable e.stable x (hflag0 x hx this)
        · intro x hx
          rcases (mem_ins _ _ _).mp hx with rfl | hx
          · exact Or.inl (e.done rfl (writeDisk_self _ _ _))
          · exact Or.inl (okOld x hx)
  · have hw' : s.writeThrough = false := by simpa using hw
    simp only [hw', Bool.false_eq_true, if_false]
    have okOld : ∀ (r' : Retry.State), (∀ x, stored s x → x ∈ Retry.keys r'.rows) →
        ∀ x ∈ s.okPut, (lookup s.backend x).isSome ∨
          ((lookup (writeDisk s.disk t d) x).isSome ∧ x ∈ ins s.persist t ∧ false = false ∧ x ∈ Retry.keys r'.rows) := by
      intro r' hr' x hx
      rcases h.okPut x hx with a | ⟨a, b, _, c⟩
      · exact Or.inl a
      · exact Or.inr ⟨isSome_of_stable hdisk x a, (mem_ins _ _ _).mpr (Or.inr b), rfl, hr' x c⟩
    cases ha : Retry.stepO s.r (.addBegin t delay []) with
    | mk r1 o1 =>
      have hr1 : r1 = (Retry.stepO s.r (.addBegin t delay [])).1 := by rw [ha]
      have ho1 : o1 = (Retry.stepO s.r (.addBegin t delay [])).2 := by rw [ha]
      have hclosed : Inv { s with disk := writeDisk s.disk t d, persist := ins s.persist t, putFor := s.putFor ++ [(t, d)] } := by
        refine ⟨h.good, hput, hbput, hflag0, ?_⟩
        intro x hx
        have := okOld s.r (fun _ h => h) x hx
        simpa [hw', stored] using this
      have hk1 : ∀ x, stored s x → x ∈ Retry.keys (Retry.step r1 (.addEnq t)).rows := by
        intro x hx
        apply kept _ _ _ _ (by simp) (by intro inv h; cases h)
        rw [hr1]
        exact kept s.r (.addBegin t delay []) x hx (by simp) (by intro inv h; cases h)
      have hacc : o1 ≠ .closed → Inv { s with disk := writeDisk s.disk t d, persist := ins s.persist t, putFor := s.putFor ++ [(t, d)], r := Retry.step r1 (.addEnq t), okPut := ins s.okPut t } := by
        intro hne
        refine ⟨Retry.step_good _ _ (hr1 ▸ Retry.step_good _ _ h.good), hput, hbput, hflag0, ?_⟩
        intro x hx
        rcases (mem_ins _ _ _).mp hx with rfl | hx
        · refine Or.inr ⟨writeDisk_self _ _ _, (mem_ins _ _ _).mpr (Or.inl rfl), hw', ?_⟩
          show x ∈ Retry.keys (Retry.step r1 (.addEnq x)).rows
          apply kept _ _ _ _ (by simp) (by intro inv h; cases h)
          rw [hr1]
          exact addBegin_stored s.r x delay (ho1 ▸ hne)
        · have := okOld (Retry.step r1 (.addEnq t)) hk1 x hx
          simpa [hw', stored] using this
      cases o1 <;> simp only
      case closed => simpa [hw'] using hclosed
      all_goals simpa [hw'] using hacc (by simp)

theorem step_inv (s : State) (o : Op) (h : Inv s) : Inv (step s o) := by
  unfold step
  cases o with
  | put t d deps ups =>
    simp only [stepO]
    cases hc : checkDeps deps <;> simp only <;> first | exact h | exact putStore_inv s t d 0 ups h
  | dupPut t d delay ups => simp only [stepO]; exact putStore_inv s t d delay ups h
  | get t up =>
    simp only [stepO]
    split
    · exact h
    · split
      · split <;> exact h
      · exact h
  | retry o =>
    simp only [stepO]
    split
    · rename_i hi
      have hne : ∀ x, o ≠ .finish x true ∧ ∀ inv, o = .start inv → x ∉ inv := by
        intro x; cases o <;> simp [internalOp] at hi ⊢
      refine ⟨Retry.step_good _ _ h.good, h.diskPut, h.backendPut, h.flag, ?_⟩
      intro x hx
      rcases h.okPut x hx with a | ⟨a, b, c, e⟩
      · exact Or.inl a
      · exact Or.inr ⟨a, b, c, kept _ _ _ e (hne x).1 (hne x).2⟩
    · exact h
  | exec t up =>
    simp only [stepO]
    split
    · have e := runExecutor_spec s.disk s.backend t up
      cases hr : runExecutor s.disk s.backend t up with
      | mk ok b' =>
        rw [hr] at e
        simp only
        have hbput' : ∀ x v, lookup b' x = some v → (x, v) ∈ s.putFor := by
          intro x v hx
          rcases e.source x v hx with h1 | ⟨rfl, h1⟩
          · exact h.backendPut x v h1
          · exact h.diskPut x v h1
        refine ⟨Retry.step_good _ _ h.good, h.diskPut, hbput', ?_, ?_⟩
        · intro x hx hnp
          cases ok with
          | false => exact isSome_of_stable e.stable x (h.flag x hx (by simpa using hnp))
          | true =>
            by_cases hxt : x = t
            · subst hxt; exact e.done rfl hx
            · have : x ∉ s.persist := fun hp => hnp (by simpa using (mem_del _ _ _).mpr ⟨hxt, hp⟩)
              exact isSome_of_stable e.stable x (h.flag x hx this)
        · intro x hx
          rcases h.okPut x hx with a | ⟨a, b, c, f⟩
          · exact Or.inl (isSome_of_stable e.stable x a)
          · by_cases hxt : x = t
            · subst hxt
              cases ok with
              | true => exact Or.inl (e.done rfl a)
              | false => exact Or.inr ⟨a, by simpa using b, c, kept _ _ _ f (by simp) (by intro inv h; cases h)⟩
            · right
              refine ⟨a, ?_, c, kept _ _ _ f ?_ (by intro inv h; cases h)⟩
              · cases ok
                · simpa using b
                · simpa using (mem_del _ _ _).mpr ⟨hxt, b⟩
              · intro he; injection he with he _; exact hxt he.symm
    · exact h
  | restart =>
    simp only [stepO]
    refine ⟨Retry.step_good _ _ (Retry.step_good _ _ h.good), h.diskPut, h.backendPut, h.flag, ?_⟩
    intro x hx
    rcases h.okPut x hx with a | ⟨a, b, c, e⟩
    · exact Or.inl a
    · right
      refine ⟨a, b, c, ?_⟩
      apply kept _ _ _ _ (by simp) (by intro inv h; injection h with h; subst h; simp)
      exact kept _ _ _ e (by simp) (by intro inv h; cases h)
  | evict t =>
    simp only [stepO]
    split
    · exact h
    · split
      · exact h
      · rename_i hnp
        refine ⟨h.good, ?_, h.backendPut, ?_, ?_⟩
        · intro x v hx
          rw [lookup_erase] at hx
          by_cases hxt : x = t
          · simp [hxt] at hx
          · simp only [hxt, if_false] at hx; exact h.diskPut x v hx
        · intro x hx hp
          rw [lookup_erase] at hx
          by_cases hxt : x = t
          · simp [hxt] at hx
          · simp only [hxt, if_false] at hx; exact h.flag x hx hp
        · intro x hx
          rcases h.okPut x hx with a | ⟨a, b, c, e⟩
          · exact Or.inl a
          · have hxt : x ≠ t := fun he => hnp (he ▸ b)
            refine Or.inr ⟨?_, b, c, e⟩
            rw [lookup_erase]; simp only [hxt, if_false]; exact a

theorem inv_always (cfg : Retry.Config) (wt : Bool) (ops : List Op) : Inv ((sys cfg wt).run ops) :=
  Sys.run_inv (sys cfg wt) Inv
    ⟨Retry.good_init cfg, by simp [sys, init, lookup], by simp [sys, init, lookup], by simp [sys, init, lookup],
     by simp [sys, init]⟩
    (fun s a h => step_inv s a h) ops

/-! ### the property -/

/-- **C32 (1)** A tag PUT is acknowledged only if the origin cluster confirmed *every* dependency
(`Stat` succeeded for each one; the first `not found` or error refuses the PUT and stores nothing).
(`checkDeps` is the model's transcription of the loop; the tie — all answer vectors up to length 3/4,
the number of Stat calls compared, monitor `put-without-dependency` — carries this clause.) -/
theorem put_only_with_all_dependencies (s : State) (t : Tag) (d : Digest) (deps : List DepRes) (ups : List Bool)
    (h : out s (.put t d deps ups) = .ok) : ∀ r ∈ deps, r = .ok := by
  have hc : checkDeps deps = .ok := by
    simp only [out, stepO] at h
    cases hc : checkDeps deps <;> simp only [hc] at h <;> first | rfl | (exact absurd h (by simp))
  clear h
  induction deps with
  | nil => intro r hr; cases hr
  | cons a as ih =>
    cases a <;> simp only [checkDeps] at hc
    · intro r hr
      rcases List.mem_cons.mp hr with rfl | hr
      · rfl
      · exact ih hc r hr
    all_goals cases hc

theorem put_refused_stores_nothing (s : State) (t : Tag) (d : Digest) (deps : List DepRes) (ups : List Bool)
    (h : checkDeps deps ≠ .ok) : step s (.put t d deps ups) = s := by
  cases hc : checkDeps deps <;> simp only [step, stepO, hc] <;> exact absurd hc h

/-- **C32 (1b)** `PUT ?replicate=true`: replication tasks are created only for an acknowledged PUT, and each
carries exactly the dependency list whose every element the origin cluster just confirmed — the list C33's
executor replicates before it puts the tag remotely.  (Definitional on the model side; the tie — recording
replication manager, monitor `replication-task-deps-differ-from-checked` — carries it.) -/
theorem replication_task_carries_checked_dependencies (s : State) (t : Tag) (d : Digest) (answers : List DepRes)
    (ups : List Bool) (deps : List Digest) (dests : List Nat) (task : Tag × Digest × List Digest × Nat)
    (h : task ∈ replicationTasks (out s (.put t d answers ups)) t d deps dests) :
    task.1 = t ∧ task.2.1 = d ∧ task.2.2.1 = deps ∧ task.2.2.2 ∈ dests ∧ ∀ r ∈ answers, r = .ok := by
  unfold replicationTasks at h
  by_cases ho : out s (.put t d answers ups) = .ok
  · simp only [ho, if_true] at h
    obtain ⟨r, hr, rfl⟩ := List.mem_map.mp h
    exact ⟨rfl, rfl, rfl, hr, put_only_with_all_dependencies s t d answers ups ho⟩
  · simp [ho] at h

/-- **C32 (1c)** a duplicate PUT from a neighbour (no dependency check, write-back possibly delayed) that is
acknowledged counts as an acknowledged PUT: everything below that is stated for `okPut` tags — resolvable,
written back or pending with its task stored, eventually written back — holds for it, delayed task included. -/
theorem duplicate_put_is_covered (s : State) (t : Tag) (d : Digest) (delay : Nat) (ups : List Bool)
    (h : out s (.dupPut t d delay ups) = .ok) :
    t ∈ (step s (.dupPut t d delay ups)).okPut ∧ (t, d) ∈ (step s (.dupPut t d delay ups)).putFor := by
  simp only [out, step, stepO, putStore] at h ⊢
  split at h
  · split at h
    · rename_i h1 _ _ h2
      simp only [h1, if_true]
      exact ⟨(mem_ins _ _ _).mpr (Or.inl rfl), by simp⟩
    · cases h
  · split at h
    · cases h
    · rename_i hw _ _ _ _ _
      simp only [hw, if_false]
      exact ⟨(mem_ins _ _ _).mpr (Or.inl rfl), by simp⟩

/-- **C32 (2b)** After every history — evictions included — what a GET resolves a tag to is a digest
that was put for that tag, whether it comes from the node's disk or (the tag file evicted or never
there) from the backend.  Both branches are reachable (examples at the end). -/
theorem get_resolves_a_put_digest (cfg : Retry.Config) (wt : Bool) (ops : List Op) (t : Tag) (up : Bool) (d : Digest)
    (h : out ((sys cfg wt).run ops) (.get t up) = .digest d) : (t, d) ∈ ((sys cfg wt).run ops).putFor := by
  have hi := inv_always cfg wt ops
  simp only [out, stepO] at h
  cases hd : lookup ((sys cfg wt).run ops).disk t with
  | some v =>
    simp only [hd] at h
    injection h with h; subst h
    exact hi.diskPut t v hd
  | none =>
    simp only [hd] at h
    cases up with
    | false => simp at h
    | true =>
      cases hb : lookup ((sys cfg wt).run ops).backend t with
      | none => simp [hb] at h
      | some v =>
        simp only [hb, if_true] at h
        injection h with h; subst h
        exact hi.backendPut t v hb

/-- after an eviction the node answers what the backend holds -/
theorem get_after_evict_is_backend (s : State) (t : Tag) (h : out s (.evict t) = .ok) :
    out (step s (.evict t)) (.get t true) = match lookup s.backend t with | some b => .digest b | none => .notFound := by
  simp only [out, step, stepO] at h ⊢
  cases hd : lookup s.disk t with
  | none => simp [hd] at h
  | some v =>
    simp only [hd] at h ⊢
    by_cases hp : t ∈ s.persist
    · simp [hp] at h
    · simp only [hp, if_false, lookup_erase, if_true]
      cases lookup s.backend t <;> rfl

/-- **C32 (2c)** After an acknowledged PUT the tag stays resolvable for ever (through any history,
evictions and restarts included): a GET with a reachable backend answers a digest. -/
theorem acknowledged_put_resolvable (cfg : Retry.Config) (wt : Bool) (ops : List Op) (t : Tag)
    (h : t ∈ ((sys cfg wt).run ops).okPut) : ∃ d, out ((sys cfg wt).run ops) (.get t true) = .digest d := by
  have hi := inv_always cfg wt ops
  simp only [out, stepO]
  cases hd : lookup ((sys cfg wt).run ops).disk t with
  | some v => exact ⟨v, rfl⟩
  | none =>
    rcases hi.okPut t h with a | ⟨a, _⟩
    · obtain ⟨b, hb⟩ := Option.isSome_iff_exists.mp a
      exact ⟨b, by simp [hb]⟩
    · rw [hd] at a; cases a

/-! #### "tags do not change once stored" and "the backend holds that same digest" -/

/-- node and backend never disagree about a tag -/
def Agree (s : State) : Prop := ∀ t d b, lookup s.disk t = some d → lookup s.backend t = some b → b = d

instance (s : State) : Decidable (Agree s) :=
  decidable_of_iff (∀ e ∈ s.disk, ∀ f ∈ s.backend, lookup s.disk e.1 = some e.2 → lookup s.backend f.1 = some f.2 → e.1 = f.1 → f.2 = e.2)
    ⟨fun h t d b hd hb => by
        have he : (t, d) ∈ s.disk := by
          unfold lookup at hd
          cases hf : s.disk.find? (fun e => decide (e.1 = t)) with
          | none => simp [hf] at hd
          | some e =>
            simp only [hf, Option.map_some, Option.some.injEq] at hd
            have := List.find?_some hf; simp at this
            have hm := List.mem_of_find?_eq_some hf
            obtain ⟨a, b'⟩ := e; simp at this hd; subst this; subst hd; exact hm
        have hf : (t, b) ∈ s.backend := by
          unfold lookup at hb
          cases hf : s.backend.find? (fun e => decide (e.1 = t)) with
          | none => simp [hf] at hb
          | some e =>
            simp only [hf, Option.map_some, Option.some.injEq] at hb
            have := List.find?_some hf; simp at this
            have hm := List.mem_of_find?_eq_some hf
            obtain ⟨a, b'⟩ := e; simp at this hb; subst this; subst hb; exact hm
        exact h _ he _ hf hd hb rfl,
     fun h e _ f _ hd hb hef => h e.1 e.2 f.2 hd (hef ▸ hb)⟩

/-- the answers to GET for a tag never change along a history -/
def AnswersStable (cfg : Retry.Config) (wt : Bool) (ops : List Op) : Prop :=
  ∀ (n m : Nat) (t : Tag) (u1 u2 : Bool) (d1 d2 : Digest), n ≤ m →
    out ((sys cfg wt).run (ops.take n)) (.get t u1) = .digest d1 →
    out ((sys cfg wt).run (ops.take m)) (.get t u2) = .digest d2 → d1 = d2

/-- **C32 (2a)+(3), full statement (refuted below):** for every history, tags do not change and the
backend never holds another digest than the node. -/
def tags_stable_and_backend_agrees_target : Prop :=
  ∀ (cfg : Retry.Config) (wt : Bool) (ops : List Op), Agree ((sys cfg wt).run ops) ∧ AnswersStable cfg wt ops

def cfg1 : Retry.Config := { capIn := 4, capRe := 4, nIn := 2, nRe := 2, retryInterval := 0 }

/-- PUT t d1, written back, the idle tag file is evicted (cache cleanup), PUT t d2: the node stores d2,
the write-back executor's `Stat` short-cut ("already uploaded") keeps d1 in the backend for ever. -/
def reputHistory : List Op :=
  [.put 1 10 [.ok] [], .retry (.take .inc), .exec 1 true, .evict 1,
   .put 1 11 [.ok] [], .retry (.take .inc), .exec 1 true]

theorem reput_disagrees : ((sys cfg1 false).run reputHistory).disk = [(1, 11)] ∧
    ((sys cfg1 false).run reputHistory).backend = [(1, 10)] ∧ ¬ stored ((sys cfg1 false).run reputHistory) 1 := by decide

theorem reput_answers_change :
    out ((sys cfg1 false).run (reputHistory.take 4)) (.get 1 true) = .digest 10 ∧
    out ((sys cfg1 false).run reputHistory) (.get 1 true) = .digest 11 ∧
    out ((sys cfg1 false).run (reputHistory ++ [.evict 1])) (.get 1 true) = .digest 10 := by decide

theorem not_tags_stable_and_backend_agrees : ¬ tags_stable_and_backend_agrees_target := by
  intro h
  have := (h cfg1 false reputHistory).1
  revert this
  decide

theorem putStore_putFor (s : State) (t : Tag) (d : Digest) (delay : Nat) (ups : List Bool) (x : Tag × Digest)
    (h : x ∈ s.putFor) : x ∈ (putStore s t d delay ups).1.putFor := by
  simp only [putStore]
  split
  · split <;> exact List.mem_append_left _ h
  · split <;> exact List.mem_append_left _ h

theorem putFor_mono (s : State) (o : Op) (x : Tag × Digest) (h : x ∈ s.putFor) : x ∈ (step s o).putFor := by
  unfold step
  cases o with
  | put t d deps ups =>
    simp only [stepO]
    cases checkDeps deps <;> simp only <;> first | exact h | exact putStore_putFor s t d 0 ups x h
  | dupPut t d delay ups => simp only [stepO]; exact putStore_putFor s t d delay ups x h
  | get t up => simp only [stepO]; (repeat' split) <;> exact h
  | retry o => simp only [stepO]; split <;> exact h
  | exec t up => simp only [stepO]; (repeat' split) <;> exact h
  | restart => exact h
  | evict t => simp only [stepO]; (repeat' split) <;> exact h

theorem putFor_mono_hist (s : State) (ops : List Op) (x : Tag × Digest) (h : x ∈ s.putFor) :
    x ∈ (ops.foldl step s).putFor := by
  induction ops generalizing s with
  | nil => exact h
  | cons o rest ih => exact ih _ (putFor_mono s o x h)

theorem run_take (cfg : Retry.Config) (wt : Bool) (ops : List Op) (n : Nat) :
    (sys cfg wt).run ops = (ops.drop n).foldl step ((sys cfg wt).run (ops.take n)) := by
  calc (sys cfg wt).run ops = (sys cfg wt).run (ops.take n ++ ops.drop n) := by rw [List.take_append_drop]
    _ = _ := by simp only [Sys.run, sys, List.foldl_append]

/-- **strongest true statement, 1.** If every tag is only ever put with one digest (tags are not
re-pointed), then through every history — evictions, restarts, outages included — the answers never
change and node and backend never disagree. -/
theorem tags_stable_and_backend_agrees_partial_single_digest (cfg : Retry.Config) (wt : Bool) (ops : List Op)
    (hs : ∀ t d d', (t, d) ∈ ((sys cfg wt).run ops).putFor → (t, d') ∈ ((sys cfg wt).run ops).putFor → d = d') :
    Agree ((sys cfg wt).run ops) ∧ AnswersStable cfg wt ops := by
  have hi := inv_always cfg wt ops
  refine ⟨fun t d b hd hb => hs t b d (hi.backendPut t b hb) (hi.diskPut t d hd), ?_⟩
  intro n m t u1 u2 d1 d2 _ h1 h2
  have p1 := get_resolves_a_put_digest cfg wt (ops.take n) t u1 d1 h1
  have p2 := get_resolves_a_put_digest cfg wt (ops.take m) t u2 d2 h2
  have q1 : (t, d1) ∈ ((sys cfg wt).run ops).putFor := by rw [run_take cfg wt ops n]; exact putFor_mono_hist _ _ _ p1
  have q2 : (t, d2) ∈ ((sys cfg wt).run ops).putFor := by rw [run_take cfg wt ops m]; exact putFor_mono_hist _ _ _ p2
  exact hs t d1 d2 q1 q2

/-- no eviction in the history -/
def NoEvict : Op → Prop
  | .evict _ => False
  | _ => True

instance (o : Op) : Decidable (NoEvict o) := by cases o <;> simp only [NoEvict] <;> exact inferInstance

theorem putStore_disk_stable (s : State) (t' : Tag) (d' : Digest) (delay : Nat) (ups : List Bool) (t : Tag) (d : Digest)
    (h : lookup s.disk t = some d) : lookup (putStore s t' d' delay ups).1.disk t = some d := by
  simp only [putStore]
  split
  · split <;> exact writeDisk_stable _ _ _ _ _ h
  · split <;> exact writeDisk_stable _ _ _ _ _ h

/-- **C32 (2a)** without eviction no operation changes the digest the disk holds for a tag (a second PUT
with another digest is acknowledged but leaves the first digest). -/
theorem disk_stable (s : State) (o : Op) (hne : NoEvict o) (t : Tag) (d : Digest) (h : lookup s.disk t = some d) :
    lookup (step s o).disk t = some d := by
  unfold step
  cases o with
  | put t' d' deps ups =>
    simp only [stepO]
    cases hc : checkDeps deps <;> simp only <;> first | exact h | exact putStore_disk_stable s t' d' 0 ups t d h
  | dupPut t' d' delay ups => simp only [stepO]; exact putStore_disk_stable s t' d' delay ups t d h
  | get t' up =>
    simp only [stepO]
    split
    · exact h
    · split
      · split <;> exact h
      · exact h
  | retry o => simp only [stepO]; split <;> exact h
  | exec t' up =>
    simp only [stepO]
    split
    · split <;> exact h
    · exact h
  | restart => exact h
  | evict t' => exact absurd hne (by simp [NoEvict])

theorem disk_stable_hist (s : State) (ops : List Op) (hne : ∀ o ∈ ops, NoEvict o) (t : Tag) (d : Digest)
    (h : lookup s.disk t = some d) : lookup (ops.foldl step s).disk t = some d := by
  induction ops generalizing s with
  | nil => exact h
  | cons o rest ih =>
    exact ih (step s o) (fun o' h' => hne o' (List.mem_cons_of_mem _ h')) (disk_stable s o (hne o (by simp)) t d h)

/-- without eviction the backend only ever holds copies of the node's digest -/
def BackendDisk (s : State) : Prop := ∀ t b, lookup s.backend t = some b → lookup s.disk t = some b

theorem putStore_backendDisk (s : State) (t : Tag) (d : Digest) (delay : Nat) (ups : List Bool) (h : BackendDisk s) :
    BackendDisk (putStore s t d delay ups).1 := by
  simp only [putStore]
  have hb1 : ∀ x v, lookup s.backend x = some v → lookup (writeDisk s.disk t d) x = some v :=
    fun x v hx => writeDisk_stable _ _ _ _ _ (h x v hx)
  split
  · have e := syncExec_spec (writeDisk s.disk t d) t 3 ups s.backend
    cases hr : syncExec (writeDisk s.disk t d) t 3 ups s.backend with
    | mk ok b' =>
      rw [hr] at e
      have : ∀ x v, lookup b' x = some v → lookup (writeDisk s.disk t d) x = some v := by
        intro x v hx
        rcases e.source x v hx with h1 | ⟨rfl, h1⟩
        · exact hb1 x v h1
        · exact h1
      cases ok <;> exact this
  · split <;> exact hb1

theorem step_backendDisk (s : State) (o : Op) (hne : NoEvict o) (h : BackendDisk s) : BackendDisk (step s o) := by
  unfold step
  cases o with
  | put t d deps ups =>
    simp only [stepO]
    cases hc : checkDeps deps <;> simp only <;> first | exact h | exact putStore_backendDisk s t d 0 ups h
  | dupPut t d delay ups => simp only [stepO]; exact putStore_backendDisk s t d delay ups h
  | get t' up => simp only [stepO]; (repeat' split) <;> exact h
  | retry o => simp only [stepO]; split <;> exact h
  | exec t' up =>
    simp only [stepO]
    split
    · have e := runExecutor_spec s.disk s.backend t' up
      cases hr : runExecutor s.disk s.backend t' up with
      | mk ok b' =>
        rw [hr] at e
        simp only
        intro x v hx
        rcases e.source x v hx with h1 | ⟨rfl, h1⟩
        · exact h x v h1
        · exact h1
    · exact h
  | restart => exact h
  | evict t' => exact absurd hne (by simp [NoEvict])

theorem backendDisk_always (cfg : Retry.Config) (wt : Bool) (ops : List Op) (hne : ∀ o ∈ ops, NoEvict o) :
    BackendDisk ((sys cfg wt).run ops) := by
  have := Sys.runFrom_inv_pre (sys cfg wt) (fun _ o => NoEvict o) BackendDisk
    (fun s a h hp => step_backendDisk s a hp h) ops (sys cfg wt).init (by simp [BackendDisk, sys, init, lookup])
  apply this
  clear this
  generalize (sys cfg wt).init = s0
  induction ops generalizing s0 with
  | nil => trivial
  | cons o rest ih => exact ⟨hne o (by simp), ih (fun o' h' => hne o' (List.mem_cons_of_mem _ h')) _⟩

/-- **strongest true statement, 2.** In histories without eviction (the scope the property names:
"tags do not change once stored on a node") the answers never change, node and backend never
disagree, and the backend holds nothing the node does not hold. -/
theorem tags_stable_and_backend_agrees_partial_no_evict (cfg : Retry.Config) (wt : Bool) (ops : List Op)
    (hne : ∀ o ∈ ops, NoEvict o) : Agree ((sys cfg wt).run ops) ∧ AnswersStable cfg wt ops := by
  have hbd := backendDisk_always cfg wt ops hne
  refine ⟨fun t d b hd hb => by rw [hbd t b hb] at hd; exact (Option.some.inj hd), ?_⟩
  intro n m t u1 u2 d1 d2 hnm h1 h2
  have hne1 : ∀ o ∈ ops.take n, NoEvict o := fun o ho => hne o (List.mem_of_mem_take ho)
  have hbd1 := backendDisk_always cfg wt (ops.take n) hne1
  -- the first answer came from the disk
  have hd1 : lookup ((sys cfg wt).run (ops.take n)).disk t = some d1 := by
    simp only [out, stepO] at h1
    cases hd : lookup ((sys cfg wt).run (ops.take n)).disk t with
    | some v => simp only [hd] at h1; injection h1 with h1; rw [h1]
    | none =>
      simp only [hd] at h1
      cases u1 with
      | false => simp at h1
      | true =>
        cases hb : lookup ((sys cfg wt).run (ops.take n)).backend t with
        | none => simp [hb] at h1
        | some v => rw [hbd1 t v hb] at hd; cases hd
  -- it is still there at the later point
  have hsplit : ops.take m = ops.take n ++ (ops.take m).drop n := by
    have := (List.take_append_drop n (ops.take m)).symm
    rwa [List.take_take, Nat.min_eq_left hnm] at this
  have hd2 : lookup ((sys cfg wt).run (ops.take m)).disk t = some d1 := by
    rw [hsplit]
    simp only [Sys.run, sys, List.foldl_append]
    apply disk_stable_hist _ _ _ t d1 hd1
    intro o ho
    exact hne o (List.mem_of_mem_take (List.mem_of_mem_drop ho))
  simp only [out, stepO, hd2] at h2
  injection h2

/-- **C32 (3a)** write-through: when the PUT is acknowledged the backend already holds the tag — with
exactly the node's digest unless the tag was re-pointed after an eviction (partial theorems above). -/
theorem write_through_is_synchronous (cfg : Retry.Config) (ops : List Op) (t : Tag) (d : Digest)
    (deps : List DepRes) (ups : List Bool)
    (h : out ((sys cfg true).run ops) (.put t d deps ups) = .ok) :
    let s' := step ((sys cfg true).run ops) (.put t d deps ups)
    (lookup s'.backend t).isSome ∧ (lookup s'.disk t).isSome ∧
      (lookup ((sys cfg true).run ops).backend t = none → lookup s'.backend t = lookup s'.disk t) := by
  intro s'
  have hwt : ∀ (l : List Op), ((sys cfg true).run l).writeThrough = true := by
    intro l
    refine Sys.run_inv (sys cfg true) (fun s => s.writeThrough = true) rfl ?_ l
    intro s a hs
    have : (step s a).writeThrough = s.writeThrough := by
      cases a <;> simp only [step, stepO, putStore] <;> (repeat' split) <;> rfl
    exact this.trans hs
  simp only [s', out, step, stepO] at h ⊢
  cases hc : checkDeps deps <;> simp only [hc] at h ⊢ <;> try (exact absurd h (by simp))
  simp only [putStore, hwt ops, if_true] at h ⊢
  have e := syncExec_spec (writeDisk ((sys cfg true).run ops).disk t d) t 3 ups ((sys cfg true).run ops).backend
  cases hr : syncExec (writeDisk ((sys cfg true).run ops).disk t d) t 3 ups ((sys cfg true).run ops).backend with
  | mk ok b' =>
    rw [hr] at e h
    cases ok with
    | false => simp at h
    | true =>
      simp only
      exact ⟨e.done rfl (writeDisk_self _ _ _), writeDisk_self _ _ _, fun hn => e.fresh rfl hn (writeDisk_self _ _ _)⟩

/-- **C32 (3b)** safety, every history: for every tag with an acknowledged PUT the backend holds the tag,
or (asynchronous mode) the tag file is still on the node, not evictable, and its write-back task is
stored (from where C30 retries it until it succeeds). -/
theorem written_back_or_pending (cfg : Retry.Config) (wt : Bool) (ops : List Op) (t : Tag)
    (h : t ∈ ((sys cfg wt).run ops).okPut) :
    let s := (sys cfg wt).run ops
    (lookup s.backend t).isSome ∨ ((lookup s.disk t).isSome ∧ t ∈ s.persist ∧ stored s t) := by
  rcases (inv_always cfg wt ops).okPut t h with a | ⟨a, b, _, c⟩
  · exact Or.inl a
  · exact Or.inr ⟨a, b, c⟩

/-- a tag file can only be evicted after it was written back -/
theorem evicted_only_when_written_back (cfg : Retry.Config) (wt : Bool) (ops : List Op) (t : Tag)
    (h : out ((sys cfg wt).run ops) (.evict t) = .ok) : (lookup ((sys cfg wt).run ops).backend t).isSome := by
  have hi := inv_always cfg wt ops
  simp only [out, stepO] at h
  cases hd : lookup ((sys cfg wt).run ops).disk t with
  | none => simp [hd] at h
  | some v =>
    simp only [hd] at h
    by_cases hp : t ∈ ((sys cfg wt).run ops).persist
    · simp [hp] at h
    · exact hi.flag t (by rw [hd]; rfl) hp

/-- **C32 (3c)** an execution of the write-back task against a reachable backend leaves the tag in the
backend — with exactly the node's digest when the backend did not hold the tag before. -/
theorem exec_writes_back (s : State) (t : Tag) (p : Retry.Pool)
    (hrun : Retry.placeOf s.r.own t = some (.running p)) (hd : (lookup s.disk t).isSome) :
    (lookup (step s (.exec t true)).backend t).isSome ∧ out s (.exec t true) = .ok ∧
    (lookup s.backend t = none → lookup (step s (.exec t true)).backend t = lookup s.disk t) := by
  have e := runExecutor_spec s.disk s.backend t true
  have hok : (runExecutor s.disk s.backend t true).1 = true := by
    unfold runExecutor
    split
    · rfl
    · cases lookup s.disk t <;> simp
  simp only [step, out, stepO, hrun]
  cases hr : runExecutor s.disk s.backend t true with
  | mk ok b' =>
    rw [hr] at e hok
    simp only at hok
    subst hok
    exact ⟨e.done rfl hd, rfl, fun hn => e.fresh rfl hn hd⟩

/-! ### asynchronous mode: eventually written back -/

/-- the composite step that performs a retry-manager system step -/
def lift : Retry.Op → Op
  | .finish t _ => .exec t true
  | o => .retry o

theorem runExecutor_up_ok (disk backend : List (Tag × Digest)) (t : Tag) :
    (runExecutor disk backend t true).1 = true := by
  unfold runExecutor
  split
  · rfl
  · cases lookup disk t <;> simp

/-- the backend does not hold the tag, or holds the node's digest -/
def FreshOrSame (s : State) (t : Tag) : Prop := lookup s.backend t = none ∨ lookup s.backend t = lookup s.disk t

theorem exec_freshOrSame (disk backend : List (Tag × Digest)) (x t : Tag) (ok : Bool) (b' : List (Tag × Digest))
    (e : ExecSpec disk backend x ok b') (h : lookup backend t = none ∨ lookup backend t = lookup disk t) :
    lookup b' t = none ∨ lookup b' t = lookup disk t := by
  cases hb : lookup b' t with
  | none => exact Or.inl rfl
  | some v =>
    right
    rcases e.source t v hb with h1 | ⟨_, h1⟩
    · rcases h with h | h
      · rw [h] at h1; cases h1
      · rw [← h, h1]
    · rcases e.source t v hb with h2 | ⟨hxt, h2⟩
      · rcases h with h | h
        · rw [h] at h2; cases h2
        · rw [← h, h2]
      · subst hxt; rw [h2]

theorem lift_step (s : State) (o : Retry.Op) (ho : Retry.SysOp o) (hn : Retry.NoAdding s.r) (t : Tag) :
    (step s (lift o)).r = Retry.step s.r o ∧ (step s (lift o)).disk = s.disk ∧
    (FreshOrSame s t → FreshOrSame (step s (lift o)) t) := by
  cases o <;> simp only [Retry.SysOp] at ho
  case finish x ok =>
    subst ho
    simp only [lift, step, stepO]
    cases hp : Retry.placeOf s.r.own x with
    | none => simp [Retry.step, Retry.stepO, hp]
    | some pl =>
      cases pl with
      | running p =>
        have hok := runExecutor_up_ok s.disk s.backend x
        have e := runExecutor_spec s.disk s.backend x true
        cases hr : runExecutor s.disk s.backend x true with
        | mk ok b' =>
          rw [hr] at hok e
          simp only at hok
          subst hok
          exact ⟨rfl, rfl, fun h => exec_freshOrSame s.disk s.backend x t true b' e h⟩
      | adding => simp [Retry.step, Retry.stepO, hp]
      | retrying => simp [Retry.step, Retry.stepO, hp]
      | queued p => simp [Retry.step, Retry.stepO, hp]
  case addEnq x =>
    have := (Retry.noAdding_step s.r (.addEnq x) hn (by simp [Retry.SysOp])).2 x rfl
    simp [lift, step, stepO, internalOp, this]
  all_goals simp [lift, step, stepO, internalOp, FreshOrSame]

theorem lift_run (ops : List Retry.Op) (hs : ∀ o ∈ ops, Retry.SysOp o) (s : State) (hn : Retry.NoAdding s.r) (t : Tag) :
    ((ops.map lift).foldl step s).r = ops.foldl Retry.step s.r ∧ ((ops.map lift).foldl step s).disk = s.disk ∧
    (FreshOrSame s t → FreshOrSame ((ops.map lift).foldl step s) t) := by
  induction ops generalizing s with
  | nil => exact ⟨rfl, rfl, id⟩
  | cons o rest ih =>
    have ho := hs o (by simp)
    obtain ⟨a1, a2, a3⟩ := lift_step s o ho hn t
    have hn' : Retry.NoAdding (step s (lift o)).r := by
      rw [a1]; exact (Retry.noAdding_step s.r o hn ho).1
    obtain ⟨b1, b2, b3⟩ := ih (fun o' h' => hs o' (List.mem_cons_of_mem _ h')) (step s (lift o)) hn'
    simp only [List.map_cons, List.foldl_cons]
    exact ⟨by rw [b1, a1], by rw [b2, a2], fun h => b3 (a3 h)⟩

/-- **C32 (3d) eventually written back, in the no-absorbing-state form.**  In every reachable state of a
node in asynchronous mode, for every tag with an acknowledged PUT that the backend does not hold yet, there
is a continuation — a process restart, then only the retry manager's own steps and
executor runs against a reachable backend — after which the backend holds exactly the node's digest. -/
theorem eventually_written_back (cfg : Retry.Config) (hc : Retry.WFCfg cfg) (ops : List Op) (t : Tag)
    (hok : t ∈ ((sys cfg false).run ops).okPut)
    (hnb : lookup ((sys cfg false).run ops).backend t = none) :
    ∃ cont : List Op, (∀ o ∈ cont, o = .restart ∨ (∃ r, o = .retry r) ∨ ∃ t', o = .exec t' true) ∧
      lookup ((sys cfg false).run (ops ++ cont)).backend t = lookup ((sys cfg false).run (ops ++ cont)).disk t ∧
      (lookup ((sys cfg false).run (ops ++ cont)).disk t).isSome := by
  let s := (sys cfg false).run ops
  have hi : Inv s := inv_always cfg false ops
  have e1 : ∀ (r : Retry.State) (o : Retry.Op), (Retry.step r o).cfg = r.cfg := by
    intro r o; cases o <;> simp only [Retry.step, Retry.stepO, Retry.enqueue] <;> (repeat' split) <;> rfl
  have hps : ∀ (s : State) (t : Tag) (d : Digest) (delay : Nat) (ups : List Bool), (putStore s t d delay ups).1.r.cfg = s.r.cfg := by
    intro s t d delay ups
    simp only [putStore]
    split
    · split <;> rfl
    · cases ha : Retry.stepO s.r (.addBegin t delay []) with
      | mk r1 o1 =>
        have hr1 : r1.cfg = s.r.cfg := by
          have := e1 s.r (.addBegin t delay []); simp only [Retry.step, ha] at this; exact this
        cases o1 <;> simp only <;> first | rfl | (rw [e1]; exact hr1)
  have hcfg : s.r.cfg = cfg := by
    refine Sys.run_inv (sys cfg false) (fun s => s.r.cfg = cfg) rfl ?_ ops
    intro s a h
    have : (step s a).r.cfg = s.r.cfg := by
      cases a with
      | put t d deps ups =>
        simp only [step, stepO]
        cases checkDeps deps <;> simp only <;> first | rfl | exact hps s t d 0 ups
      | dupPut t d delay ups => simp only [step, stepO]; exact hps s t d delay ups
      | get t up => simp only [step, stepO]; (repeat' split) <;> rfl
      | retry o =>
        simp only [step, stepO]
        split
        · exact e1 _ _
        · rfl
      | exec t up =>
        simp only [step, stepO]
        split
        · cases runExecutor s.disk s.backend t up with
          | mk ok b' => exact e1 _ _
        · rfl
      | restart =>
        simp only [step, stepO]
        exact (Retry.restart_facts s.r).1
      | evict t => simp only [step, stepO]; (repeat' split) <;> rfl
    exact this.trans h
  obtain ⟨hdisk, hstored⟩ : (lookup s.disk t).isSome ∧ stored s t := by
    rcases hi.okPut t hok with h | ⟨a, _, _, c⟩
    · rw [hnb] at h; cases h
    · exact ⟨a, c⟩
  let s1 := step s .restart
  have hi1 : Inv s1 := step_inv s _ hi
  have hr1 : s1.r = Retry.step (Retry.step s.r .crash) (.start []) := rfl
  obtain ⟨hcfg1, hup, hown⟩ : s1.r.cfg = s.r.cfg ∧ s1.r.mode = .up ∧ s1.r.own = [] := by
    rw [hr1]; exact Retry.restart_facts s.r
  have hst1 : t ∈ Retry.keys s1.r.rows := by
    apply kept _ _ _ _ (by simp) (by intro inv h; injection h with h; subst h; simp)
    exact kept _ _ _ hstored (by simp) (by intro inv h; cases h)
  obtain ⟨rops, hsys, p, hp⟩ := Retry.can_reach_exec s1.r hi1.good hup (by rw [hcfg1, hcfg]; exact hc) t hst1
  have hn1 : Retry.NoAdding s1.r := by intro e he; rw [hown] at he; cases he
  obtain ⟨l1, l2, l3⟩ := lift_run rops hsys s1 hn1 t
  have hfs : FreshOrSame ((rops.map lift).foldl step s1) t := l3 (Or.inl hnb)
  refine ⟨.restart :: (rops.map lift ++ [.exec t true]), ?_, ?_⟩
  · intro o ho
    rcases List.mem_cons.mp ho with rfl | ho
    · exact Or.inl rfl
    · rcases List.mem_append.mp ho with ho | ho
      · obtain ⟨o', _, rfl⟩ := List.mem_map.mp ho
        cases o' <;> simp [lift]
      · simp at ho; subst ho; exact Or.inr (Or.inr ⟨t, rfl⟩)
  · have hrun : Retry.placeOf ((rops.map lift).foldl step s1).r.own t = some (.running p) := by rw [l1]; exact hp
    have hd2 : (lookup ((rops.map lift).foldl step s1).disk t).isSome := by
      rw [l2]; exact hdisk
    have hex := exec_writes_back _ t p hrun hd2
    have hrun' : (sys cfg false).run (ops ++ .restart :: (rops.map lift ++ [.exec t true])) =
        step ((rops.map lift).foldl step s1) (.exec t true) := by
      simp [Sys.run, sys, List.foldl_append, s1, s]
    rw [hrun']
    have hds : (step ((rops.map lift).foldl step s1) (.exec t true)).disk = ((rops.map lift).foldl step s1).disk := by
      simp only [step, stepO, hrun]
    refine ⟨?_, by rw [hds]; exact hd2⟩
    rw [hds]
    rcases hfs with hf | hf
    · exact hex.2.2 hf
    · -- the backend already held the node's digest: an execution keeps existing entries
      have e := runExecutor_spec ((rops.map lift).foldl step s1).disk ((rops.map lift).foldl step s1).backend t true
      obtain ⟨v, hv⟩ := Option.isSome_iff_exists.mp hd2
      have hbv : lookup ((rops.map lift).foldl step s1).backend t = some v := by rw [hf, hv]
      have : lookup (step ((rops.map lift).foldl step s1) (.exec t true)).backend t = some v := by
        simp only [step, stepO, hrun]
        exact e.stable t v hbv
      rw [this, hv]

-- non-vacuity: write-through with a backend outage on the first two attempts; a refused PUT; a second
-- PUT with another digest; asynchronous mode with a failed and a retried write-back
def wtHist : List Op := [.put 1 10 [.ok, .ok] [false, false, true], .put 2 20 [.ok, .notFound] [true], .put 1 11 [] [true]]
example : ((sys cfg1 true).run wtHist).disk = [(1, 10)] ∧ ((sys cfg1 true).run wtHist).backend = [(1, 10)] ∧
    ((sys cfg1 true).run wtHist).okPut = [1] := by decide
example : out ((sys cfg1 true).run wtHist) (.get 1 false) = .digest 10 ∧ out ((sys cfg1 true).run wtHist) (.get 2 true) = .notFound := by decide
example : out ((sys cfg1 true).run []) (.put 1 10 [.ok] [false, false, false]) = .storageErr := by decide
def asyncHist : List Op :=
  [.put 1 10 [.ok] [], .retry (.take .inc), .exec 1 false, .put 1 11 [.ok] [], .restart, .retry (.advance 1),
   .retry .pollFetch, .retry .pollMark, .retry .pollEnq, .retry (.take .ret)]
example : ((sys cfg1 false).run asyncHist).backend = [] ∧ stored ((sys cfg1 false).run asyncHist) 1 := by decide
example : ((sys cfg1 false).run (asyncHist ++ [.exec 1 true])).backend = [(1, 10)] ∧
    ¬ stored ((sys cfg1 false).run (asyncHist ++ [.exec 1 true])) 1 := by decide

-- eviction: refused while the write-back is pending, allowed afterwards; the node then answers from
-- the backend (the fallback branch of GET is live), and nothing when the backend is unreachable
-- a delayed duplicate PUT: stored as a failed task, not picked up before its delay has passed, then written back
def dupHist : List Op := [.dupPut 1 10 5 []]
def dupPoll : List Op := [.retry .pollFetch, .retry .pollMark, .retry .pollEnq, .retry (.take .ret), .exec 1 true]
example : ((sys cfg1 false).run dupHist).okPut = [1] ∧ ((sys cfg1 false).run dupHist).r.rows.map (·.status) = [.failed] := by decide
example : ((sys cfg1 false).run (dupHist ++ .retry (.advance 4) :: dupPoll)).backend = [] := by decide
example : ((sys cfg1 false).run (dupHist ++ .retry (.advance 5) :: dupPoll)).backend = [(1, 10)] := by decide
example : replicationTasks (out (init cfg1 false) (.put 1 10 [.ok, .ok] [])) 1 10 [7, 8] [0, 1] = [(1, 10, [7, 8], 0), (1, 10, [7, 8], 1)] ∧
    replicationTasks (out (init cfg1 false) (.put 1 10 [.ok, .notFound] [])) 1 10 [7, 8] [0, 1] = [] := by decide
def evictHist : List Op := [.put 1 10 [.ok] [], .evict 1, .retry (.take .inc), .exec 1 true, .evict 1]
example : out ((sys cfg1 false).run (evictHist.take 1)) (.evict 1) = .refused := by decide
example : ((sys cfg1 false).run evictHist).disk = [] ∧ ((sys cfg1 false).run evictHist).backend = [(1, 10)] := by decide
example : out ((sys cfg1 false).run evictHist) (.get 1 true) = .digest 10 ∧
    out ((sys cfg1 false).run evictHist) (.get 1 false) = .notFound := by decide
example : ∀ o ∈ asyncHist, NoEvict o := by decide

end KrakenModel.Spec.C32
