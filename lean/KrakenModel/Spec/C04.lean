import KrakenModel.Util.LTS
import KrakenModel.Proof.C04Write
/-
  C04  An agent crash at any point never yields a wrong cached blob.

  Statements about `Model.AgentCrash` (agentstorage: TorrentArchive.CreateTorrent, NewTorrent,
  restorePieces, Torrent.WritePiece; lib/store: CADownloadStore; lib/store/base: file entry reload,
  Move, compareAndWriteFile), tied to the code by harness/lib/torrent/storage/agentstorage/zz_verif_c04_test.go.

  A history is any list of actions of one agent on one blob: an operation that completes (CreateTorrent,
  WritePiece with ANY payload, a process restart) or an operation cut off after `k` of its file-system
  calls (process crash; only a restart can follow).  Quantifiers: every blob, piece length and write
  part size, every history, every crash point `k`, every directory-removal order and every order in
  which `Move` copies the sidecars.
-/
namespace KrakenModel.Spec.C04
open KrakenModel KrakenModel.FS KrakenModel.AgentCrash

structure St where
  up : Bool           -- is there a live agent process
  mem : Mem
  fs : FS Name

inductive Act where
  | op (o : Op) (ord : Order Name) (mo : List Name)
  | crash (o : Op) (ord : Order Name) (mo : List Name) (k : Nat)

def init : St := ⟨true, {}, initFS⟩

def step (cfg : Cfg) {σ : Type} [DecidableEq σ] (sum : Bytes → σ) (s : St) : Act → St
  | .op o ord mo =>
    if s.up = true ∨ o = Op.restart then
      let r := exec cfg sum ord mo s.mem s.fs o
      ⟨true, r.mem, applyAll s.fs r.calls⟩
    else s
  | .crash o ord mo k =>
    if s.up = true ∨ o = Op.restart then
      ⟨false, {}, applyPrefix k (plan cfg sum ord mo s.mem s.fs o) s.fs⟩
    else s

def sys (cfg : Cfg) {σ : Type} [DecidableEq σ] (sum : Bytes → σ) : Sys St Act := { init := init, step := step cfg sum }

/-- hypotheses on the parameters: a positive piece length, a non-empty access-time encoding, and a
piece checksum that tells the blob's pieces from every other payload of the same length -/
structure Params (cfg : Cfg) {σ : Type} [DecidableEq σ] (sum : Bytes → σ) : Prop where
  pl : 0 < cfg.pl
  lat : cfg.lat ≠ []
  sep : SumSep cfg sum

def Good (cfg : Cfg) (s : St) : Prop := GoodFS cfg s.fs ∧ GoodMem cfg s.mem s.fs

theorem goodMem_empty (cfg : Cfg) (fs : FS Name) : GoodMem cfg {} fs :=
  ⟨(fun e h => by cases h), (fun t h => by cases h)⟩

theorem good_init (cfg : Cfg) : Good cfg init := by
  refine ⟨?_, goodMem_empty cfg _⟩
  have hnone : ∀ c n, init.fs.file? (entryDir cfg c) n = none := by
    intro c n
    show initFS.file? (entryDir cfg c) n = none
    have hd : initFS.dir? (entryDir cfg c) = none := by
      simp only [initFS, FS.dir?, aget, entryDir]
      cases c <;> simp [stateName]
    simp [FS.file?, hd]
  exact ⟨(by intro b h; rw [hnone] at h; cases h), (by intro ⟨h, _⟩; rw [hnone] at h; cases h),
    (by intro d h; rw [hnone] at h; cases h), (by intro st h; rw [hnone] at h; cases h),
    (by intro d st h; rw [hnone] at h; cases h)⟩

theorem good_step {cfg : Cfg} {σ : Type} [DecidableEq σ] {sum : Bytes → σ} (hp : Params cfg sum) (s : St) (a : Act) (h : Good cfg s) :
    Good cfg (step cfg sum s a) := by
  cases a with
  | op o ord mo =>
    simp only [step]
    split
    · have ok := exec_ok hp.pl hp.lat sum hp.sep ord mo s.mem s.fs h.1 h.2 o
      exact ⟨goodFS_all ok.pre, ok.post⟩
    · exact h
  | crash o ord mo k =>
    simp only [step]
    split
    · have ok := exec_ok hp.pl hp.lat sum hp.sep ord mo s.mem s.fs h.1 h.2 o
      exact ⟨ok.pre k, goodMem_empty cfg _⟩
    · exact h

/-- **C04 (0)** The invariant (a piece marked complete on disk holds the blob's bytes; the cache holds
the blob or nothing; the agent's memory agrees with the disk) holds after every history. -/
theorem invariant_after_every_history (cfg : Cfg) {σ : Type} [DecidableEq σ] (sum : Bytes → σ) (hp : Params cfg sum) (hist : List Act) :
    Good cfg ((sys cfg sum).run hist) :=
  Sys.run_inv (sys cfg sum) (Good cfg) (good_init cfg) (fun s a h => good_step (sum := sum) hp s a h) hist

/-- **C04 (1)** `crash_safe`.  After every history — any number of crashes at any call of any operation,
any payloads — the cache directory holds the blob's exact bytes or nothing, and a torrent that reports
itself complete has the blob's exact bytes in the cache.  In particular after a crash and a restart
the agent never reports the blob complete, nor serves it from the cache, unless the cached bytes equal it. -/
theorem crash_safe (cfg : Cfg) {σ : Type} [DecidableEq σ] (sum : Bytes → σ) (hp : Params cfg sum) (hist : List Act) :
    (∀ b, ((sys cfg sum).run hist).fs.file? (entryDir cfg true) Name.data = some b → b = cfg.blob) ∧
    (∀ t, ((sys cfg sum).run hist).mem.tor = some t → t.committed = true →
      ((sys cfg sum).run hist).fs.file? (entryDir cfg true) Name.data = some cfg.blob) := by
  obtain ⟨g, gm⟩ := invariant_after_every_history cfg sum hp hist
  refine ⟨g.cacheOK, ?_⟩
  intro t ht hc
  obtain ⟨e, he, h1, _⟩ := gm.tor t ht
  have hcache := h1 hc
  have := (gm.ent e he).1
  rw [hcache] at this
  obtain ⟨b, hb⟩ := Option.isSome_iff_exists.mp this
  rw [hb, g.cacheOK b hb]

/-- **C04 (2)** `crash_resumable`, first half: after every history (wherever the last crash happened) a
restarted agent's `CreateTorrent` succeeds and returns a torrent.  (The conjunct `.up = true` holds by
construction of the model — its restart cannot fail; that the real store opens on every crash tree is
checked by the `restart-failed` monitor, not proved. The content is `∃ t, tor = some t`.) -/
theorem restart_creates (cfg : Cfg) {σ : Type} [DecidableEq σ] (sum : Bytes → σ) (hp : Params cfg sum) (hist : List Act)
    (ord ord' : Order Name) (mo mo' : List Name) :
    ∃ t, ((sys cfg sum).run (hist ++ [Act.op Op.restart ord mo, Act.op Op.create ord' mo'])).mem.tor = some t ∧
      ((sys cfg sum).run (hist ++ [Act.op Op.restart ord mo, Act.op Op.create ord' mo'])).up = true := by
  have G := invariant_after_every_history cfg sum hp (hist ++ [Act.op Op.restart ord mo])
  rw [show hist ++ [Act.op Op.restart ord mo, Act.op Op.create ord' mo'] =
    (hist ++ [Act.op Op.restart ord mo]) ++ [Act.op Op.create ord' mo'] by simp]
  rw [Sys.run_append]
  generalize hs1 : (sys cfg sum).run (hist ++ [Act.op Op.restart ord mo]) = s1 at *
  have hup : s1.up = true := by
    rw [← hs1, Sys.run_append]
    simp [Sys.runFrom, sys, step]
  simp only [Sys.runFrom, List.foldl, sys, step, hup, true_or, if_true]
  have ok := create_ok hp.pl hp.lat ord' mo' s1.mem s1.fs G.1 G.2
  obtain ⟨t, ht⟩ := ok.tor
  exact ⟨t, by simpa [exec] using ht, by simp⟩

/-- writing the right bytes for the listed pieces, one after the other; `ords i`: the removal order and
the sidecar copy order met by the write of piece `i` (they matter for the write that commits) -/
def finish (cfg : Cfg) {σ : Type} [DecidableEq σ] (sum : Bytes → σ) (ords : Nat → Order Name × List Name) (s : St) (is : List Nat) : St :=
  is.foldl (fun s i => step cfg sum s (Act.op (Op.write i (pieceOf cfg i)) (ords i).1 (ords i).2)) s

/-- **C04 (2)** `crash_resumable`, second half: from every state in which an agent holds a torrent
(e.g. the one `CreateTorrent` just returned after a restart), writing the right bytes for every piece
— in any order, pieces already complete included — ends with the torrent complete and the blob's
exact bytes in the cache. -/
theorem finish_completes (cfg : Cfg) {σ : Type} [DecidableEq σ] (sum : Bytes → σ) (hp : Params cfg sum) (hist : List Act)
    (t : Torrent) (ht : ((sys cfg sum).run hist).mem.tor = some t) (hup : ((sys cfg sum).run hist).up = true)
    (is : List Nat) (hall : ∀ i, i < numPieces cfg → i ∈ is) (ords : Nat → Order Name × List Name) :
    (∃ t', (finish cfg sum ords ((sys cfg sum).run hist) is).mem.tor = some t' ∧ t'.committed = true) ∧
    (finish cfg sum ords ((sys cfg sum).run hist) is).fs.file? (entryDir cfg true) Name.data = some cfg.blob := by
  have G0 := invariant_after_every_history cfg sum hp hist
  generalize (sys cfg sum).run hist = s0 at *
  -- invariant along the writes: good, up, a torrent that is committed or has every processed piece complete
  have key : ∀ (is : List Nat) (s : St) (done : List Nat), Good cfg s → s.up = true →
      (∃ t, s.mem.tor = some t ∧ (t.committed = true ∨ ∀ j ∈ done, j < numPieces cfg → t.status[j]? = some true)) →
      Good cfg (finish cfg sum ords s is) ∧
      ∃ t, (finish cfg sum ords s is).mem.tor = some t ∧
        (t.committed = true ∨ ∀ j, (j ∈ done ∨ j ∈ is) → j < numPieces cfg → t.status[j]? = some true) := by
    intro is
    induction is with
    | nil =>
      intro s done g _ ⟨t, ht, h⟩
      exact ⟨g, t, ht, h.imp id (fun h j hj => h j (by simpa using hj))⟩
    | cons i rest ih =>
      intro s done g hu ⟨t, ht, h⟩
      simp only [finish, List.foldl_cons]
      have gstep := good_step (sum := sum) hp s (Act.op (Op.write i (pieceOf cfg i)) (ords i).1 (ords i).2) g
      obtain ⟨wok, wcor⟩ := write_ok hp.pl sum hp.sep (ords i).1 (ords i).2 s.mem s.fs i (pieceOf cfg i) g.1 g.2
      generalize hs' : step cfg sum s (Act.op (Op.write i (pieceOf cfg i)) (ords i).1 (ords i).2) = s' at *
      have hs'def : s' = ⟨true, (writePiece cfg sum (ords i).1 (ords i).2 s.mem s.fs i (pieceOf cfg i)).mem,
          applyAll s.fs (writePiece cfg sum (ords i).1 (ords i).2 s.mem s.fs i (pieceOf cfg i)).calls⟩ := by
        rw [← hs']; simp [step, hu, exec]
      have hu' : s'.up = true := by rw [hs'def]
      -- the torrent after this write
      have htor' : ∃ t', s'.mem.tor = some t' ∧
          (t'.committed = true ∨ ∀ j ∈ (i :: done), j < numPieces cfg → t'.status[j]? = some true) := by
        obtain ⟨e, he, hT1, hT2⟩ := g.2.tor t ht
        by_cases hc : t.committed = true
        · -- committed already: the write changes nothing in memory
          refine ⟨t, ?_, Or.inl hc⟩
          rw [hs'def]; simp only
          rw [writePiece_mem_noop cfg sum (ords i).1 (ords i).2 s.mem s.fs i _ t e ht he (Or.inr (Or.inr (hT1 hc)))]; exact ht
        · have hcf : t.committed = false := by simpa using hc
          have hdone : ∀ j ∈ done, j < numPieces cfg → t.status[j]? = some true := by
            rcases h with h | h
            · exact absurd h hc
            · exact h
          obtain ⟨_, hlenT, _, _⟩ := hT2 hcf
          by_cases hi : i < numPieces cfg
          · by_cases hsi : t.status[i]? = some false
            · obtain ⟨hres, htor⟩ := wcor t ht hcf hi hsi rfl
              refine ⟨_, by rw [hs'def]; exact htor, ?_⟩
              by_cases hallc : (t.status.set i true).all id = true
              · left; exact hallc
              · right
                intro j hj hjn
                simp only
                rw [getElem?_set_true _ _ _ (by omega)]
                rcases List.mem_cons.mp hj with rfl | hj
                · left; rfl
                · right; exact hdone j hj hjn
            · -- complete already
              have hst : t.status[i]? = some true := by
                have hlt : i < t.status.length := by omega
                rw [List.getElem?_eq_getElem hlt] at hsi ⊢
                cases hb : t.status[i] with
                | true => rfl
                | false => rw [hb] at hsi; exact absurd rfl hsi
              refine ⟨t, ?_, Or.inr ?_⟩
              · rw [hs'def]; simp only
                rw [writePiece_mem_noop cfg sum (ords i).1 (ords i).2 s.mem s.fs i _ t e ht he
                  (Or.inr (Or.inl (by simp [List.getD_eq_getElem?_getD, hst])))]; exact ht
              · intro j hj hjn
                rcases List.mem_cons.mp hj with rfl | hj
                · exact hst
                · exact hdone j hj hjn
          · -- not a piece of this torrent
            refine ⟨t, ?_, Or.inr ?_⟩
            · rw [hs'def]; simp only
              rw [writePiece_mem_noop cfg sum (ords i).1 (ords i).2 s.mem s.fs i _ t e ht he (Or.inl (by omega))]; exact ht
            · intro j hj hjn
              rcases List.mem_cons.mp hj with rfl | hj
              · exact absurd hjn hi
              · exact hdone j hj hjn
      obtain ⟨g', t', ht', h'⟩ := ih s' (i :: done) gstep hu' htor'
      refine ⟨g', t', ht', h'.imp id (fun h j hj => h j ?_)⟩
      rcases hj with hj | hj
      · exact Or.inl (List.mem_cons_of_mem _ hj)
      · rcases List.mem_cons.mp hj with rfl | hj
        · exact Or.inl (List.mem_cons_self ..)
        · exact Or.inr hj
  obtain ⟨gF, tF, htF, hF⟩ := key is s0 [] G0 hup ⟨t, ht, Or.inr (by simp)⟩
  -- every piece has been written, so the torrent must be committed
  have hcom : tF.committed = true := by
    rcases hF with h | h
    · exact h
    · cases hc : tF.committed with
      | true => rfl
      | false =>
        exfalso
        obtain ⟨e, he, _, hT2⟩ := gF.2.tor tF htF
        obtain ⟨_, hlen, hnall, _⟩ := hT2 hc
        have : tF.status.all id = true := by
          apply List.all_eq_true.mpr
          intro x hx
          obtain ⟨j, hj, rfl⟩ := List.getElem_of_mem hx
          have := h j (Or.inr (hall j (by omega))) (by omega)
          rw [List.getElem?_eq_getElem hj] at this
          simpa using this
        rw [this] at hnall; cases hnall
  refine ⟨⟨tF, htF, hcom⟩, ?_⟩
  obtain ⟨e, he, h1, _⟩ := gF.2.tor tF htF
  have := (gF.2.ent e he).1
  rw [h1 hcom] at this
  obtain ⟨b, hb⟩ := Option.isSome_iff_exists.mp this
  rw [hb, gF.1.cacheOK b hb]

/-- **C04 (3)** `restored_pieces_sound`.  After every history: a piece that a live, uncommitted torrent
reports complete (and serves to other peers through `GetPieceReader`) holds the blob's bytes in the file
being assembled — in particular the bits a restarted agent restores from `_status` after a crash. -/
theorem restored_pieces_sound (cfg : Cfg) {σ : Type} [DecidableEq σ] (sum : Bytes → σ) (hp : Params cfg sum) (hist : List Act)
    (t : Torrent) (i : Nat) (ht : ((sys cfg sum).run hist).mem.tor = some t) (hc : t.committed = false)
    (hi : i < numPieces cfg) (hb : t.status[i]? = some true) :
    ∃ d, ((sys cfg sum).run hist).fs.file? (entryDir cfg false) Name.data = some d ∧ PieceOK cfg d i := by
  obtain ⟨g, gm⟩ := invariant_after_every_history cfg sum hp hist
  obtain ⟨e, he, _, h2⟩ := gm.tor t ht
  obtain ⟨hcache, _, _, st, hst, hlen, hiff⟩ := h2 hc
  have hdat := (gm.ent e he).1
  rw [hcache] at hdat
  obtain ⟨d, hd⟩ := Option.isSome_iff_exists.mp hdat
  exact ⟨d, hd, g.pieces d st hd hst hlen i hi ((hiff i hi).mp hb)⟩

/-! ### non-vacuity -/

/-- a checksum that separates everything satisfies the hypothesis (CRC-32 does not: it is the stated assumption) -/
theorem sumSep_id (cfg : Cfg) : SumSep cfg (fun b => b) := fun _ _ _ h => h

def exCfg : Cfg := { name := "ab12cd", blob := [1, 2, 3, 4, 5], pl := 2, wps := 1, mi := [9, 9], lat := [7] }

example : Params exCfg (fun b => b) := ⟨by decide, by decide, sumSep_id _⟩

/-- CreateTorrent, piece 2 written, then a crash inside the write of piece 0 after its first byte -/
def exHist : List Act :=
  [.op .create {} [], .op (.write 2 [5]) {} [], .crash (.write 0 [1, 2]) {} [] 1]

-- the crash left a half-written piece 0 that is not marked; the process is down
example : (((sys exCfg (fun b => b)).run exHist).fs.file? (entryDir exCfg false) Name.data,
    ((sys exCfg (fun b => b)).run exHist).fs.file? (entryDir exCfg false) Name.status,
    ((sys exCfg (fun b => b)).run exHist).up) = (some [1, 0, 0, 0, 5], some [0, 0, 1], false) := by decide

-- after the restart CreateTorrent finds piece 2 complete, nothing else
example : (((sys exCfg (fun b => b)).run (exHist ++ [.op .restart {} [], .op .create {} []])).mem.tor) =
    some ⟨[false, false, true], false⟩ := by decide

-- a wrong payload is written to the file but never marked; the right pieces then complete the blob
example : (finish exCfg (fun b => b) (fun _ => ({}, []))
      ((sys exCfg (fun b => b)).run (exHist ++ [.op .restart {} [], .op .create {} [], .op (.write 1 [9, 9]) {} []]))
      [2, 1, 0]).fs.file? (entryDir exCfg true) Name.data = some [1, 2, 3, 4, 5] := by decide

-- a crash between creating `_status` and writing it (the state that used to commit an all-zero blob):
-- the restarted agent starts over with no piece complete
example : (((sys exCfg (fun b => b)).run [.crash .create {} [] 10, .op .restart {} [], .op .create {} []]).mem.tor,
    ((sys exCfg (fun b => b)).run [.crash .create {} [] 10]).fs.file? (entryDir exCfg false) Name.status) =
    (some ⟨[false, false, false], false⟩, some []) := by decide

/-- the two-crash history with a routine eviction in between that used to commit zeros: a crash inside the
commit's removal of the download directory leaves `_status = [1,1,1]` without the blob file (crash #1,
found below by searching the plan); the cached blob is evicted; a crash right after the next
`CreateTorrent` created the new blob file (crash #2, at every call); after the restart nothing is complete -/
def h1 : List Act := [.op .create {} [], .op (.write 2 [5]) {} [], .op (.write 1 [3, 4]) {} []]
def ordLate : Order Name := { files := [(entryDir exCfg false, Name.lat), (entryDir exCfg false, Name.tmeta)] }

example : ∃ k, ((sys exCfg (fun b => b)).run (h1 ++ [.crash (.write 0 [1, 2]) ordLate [] k])).fs.file? (entryDir exCfg false) Name.status = some [1, 1, 1] ∧
    ((sys exCfg (fun b => b)).run (h1 ++ [.crash (.write 0 [1, 2]) ordLate [] k])).fs.file? (entryDir exCfg false) Name.data = none :=
  ⟨14, by decide⟩

def twoCrash (k : Nat) : List Act :=
  h1 ++ [.crash (.write 0 [1, 2]) ordLate [] 14, .op .restart {} [], .op .evict {} [], .crash .create {} [] k,
    .op .restart {} [], .op .create {} []]

example : ∀ k ∈ List.range 12,
    ((sys exCfg (fun b => b)).run (twoCrash k)).fs.file? (entryDir exCfg true) Name.data = none ∧
    (((sys exCfg (fun b => b)).run (twoCrash k)).mem.tor.map (·.committed)) = some false := by decide

end KrakenModel.Spec.C04
