import KrakenModel.Util.LTS
import KrakenModel.Model.HashRing
import KrakenModel.Proof.C21
import KrakenModel.Spec.C22
/-
  C21  Hash ring replica sets are non-empty, healthy, bounded and host-independent.

  `ord` is the ordered owner list of the digest's shard (C22: members sorted by descending score),
  `hs` the healthy set (`filter.Run(latest)`, by the Filter contract a subset of the members),
  `r` = MaxReplica (a Go int; negative behaves like 0).  All statements are for every member list,
  every healthy set, every `r` and — for the ring object — every Refresh history.
-/
set_option linter.unusedSectionVars false
namespace KrakenModel.Spec.C21
open KrakenModel KrakenModel.Rendezvous KrakenModel.HashRing KrakenModel.Proof.C21

variable {α : Type} [DecidableEq α]

/-- **C21 (1)** `Locations` computes exactly the replica set the property describes (`specLocations`:
no healthy member → top owner; else the healthy members among the top `r` owners, or the single
highest-ranked healthy member when those are all unhealthy).  In particular it never panics. -/
theorem locations_spec (ord hs : List α) (r : Int) (hne : ord ≠ []) (hsub : ∀ a ∈ hs, a ∈ ord) :
    locations ord hs r = .ok (specLocations ord hs r) := by
  unfold locations specLocations
  cases hs with
  | nil =>
    cases ord with
    | nil => exact absurd rfl hne
    | cons a t => simp
  | cons b hs' =>
    have hb : b ∈ ord := hsub b (by simp)
    have hm : (ord.filter (fun a => (b :: hs').contains a)).isEmpty = false := by
      cases hf : ord.filter (fun a => (b :: hs').contains a) with
      | nil =>
        have : b ∈ ord.filter (fun a => (b :: hs').contains a) := List.mem_filter.mpr ⟨hb, by simp⟩
        rw [hf] at this; cases this
      | cons _ _ => rfl
    simp only [List.isEmpty_cons, Bool.false_eq_true, if_false, hm]
    rw [scan_empty]
    simp

/-- the three cases of the statement, spelled out -/
theorem spec_no_healthy (ord hs : List α) (r : Int) (h : ∀ a ∈ ord, a ∉ hs) :
    specLocations ord hs r = ord.take 1 := by
  have : ord.filter (fun a => hs.contains a) = [] := by
    apply List.filter_eq_nil_iff.mpr; intro a ha; simpa using h a ha
  simp only [specLocations, this, List.isEmpty_nil, if_true]

theorem spec_top_healthy (ord hs : List α) (r : Int)
    (h : ∃ a ∈ ord.take r.toNat, a ∈ hs) :
    specLocations ord hs r = (ord.take r.toNat).filter (fun a => hs.contains a) := by
  obtain ⟨a, hat, hah⟩ := h
  have h1 : a ∈ (ord.take r.toNat).filter (fun a => hs.contains a) := List.mem_filter.mpr ⟨hat, by simpa using hah⟩
  have h2 : a ∈ ord.filter (fun a => hs.contains a) :=
    List.mem_filter.mpr ⟨List.mem_of_mem_take hat, by simpa using hah⟩
  have e1 : ((ord.take r.toNat).filter (fun a => hs.contains a)).isEmpty = false := by
    cases hf : (ord.take r.toNat).filter (fun a => hs.contains a) with
    | nil => rw [hf] at h1; cases h1
    | cons _ _ => rfl
  have e2 : (ord.filter (fun a => hs.contains a)).isEmpty = false := by
    cases hf : ord.filter (fun a => hs.contains a) with
    | nil => rw [hf] at h2; cases h2
    | cons _ _ => rfl
  simp only [specLocations, e1, e2, Bool.false_eq_true, if_false]

theorem spec_next_healthy (ord hs : List α) (r : Int)
    (hsome : ∃ a ∈ ord, a ∈ hs) (htop : ∀ a ∈ ord.take r.toNat, a ∉ hs) :
    specLocations ord hs r = (ord.filter (fun a => hs.contains a)).take 1 := by
  obtain ⟨a, hao, hah⟩ := hsome
  have h2 : a ∈ ord.filter (fun a => hs.contains a) := List.mem_filter.mpr ⟨hao, by simpa using hah⟩
  have e2 : (ord.filter (fun a => hs.contains a)).isEmpty = false := by
    cases hf : ord.filter (fun a => hs.contains a) with
    | nil => rw [hf] at h2; cases h2
    | cons _ _ => rfl
  have e1 : (ord.take r.toNat).filter (fun a => hs.contains a) = [] := by
    apply List.filter_eq_nil_iff.mpr; intro x hx; simpa using htop x hx
  simp only [specLocations, e1, e2, List.isEmpty_nil, if_true, Bool.false_eq_true, if_false]

/-- **C21 (2)** non-empty and drawn from the current members -/
theorem spec_nonempty (ord hs : List α) (r : Int) (hne : ord ≠ []) : specLocations ord hs r ≠ [] := by
  unfold specLocations
  simp only []
  split
  · cases ord with
    | nil => exact absurd rfl hne
    | cons a t => simp
  · rename_i hm
    split
    · cases hf : ord.filter (fun a => hs.contains a) with
      | nil => rw [hf] at hm; exact absurd rfl hm
      | cons _ _ => simp
    · rename_i ht
      intro h; rw [h] at ht; simp at ht

theorem spec_subset_members (ord hs : List α) (r : Int) : ∀ a ∈ specLocations ord hs r, a ∈ ord := by
  intro a ha
  unfold specLocations at ha
  simp only [] at ha
  split at ha
  · exact List.mem_of_mem_take ha
  · split at ha
    · exact (List.mem_filter.mp (List.mem_of_mem_take ha)).1
    · exact List.mem_of_mem_take (List.mem_filter.mp ha).1

/-- **C21 (3)** healthy: as soon as one member is healthy every returned location is healthy -/
theorem spec_all_healthy (ord hs : List α) (r : Int) (hsome : ∃ a ∈ ord, a ∈ hs) :
    ∀ a ∈ specLocations ord hs r, a ∈ hs := by
  intro a ha
  unfold specLocations at ha
  simp only [] at ha
  obtain ⟨b, hbo, hbh⟩ := hsome
  have h2 : b ∈ ord.filter (fun a => hs.contains a) := List.mem_filter.mpr ⟨hbo, by simpa using hbh⟩
  have e2 : (ord.filter (fun a => hs.contains a)).isEmpty = false := by
    cases hf : ord.filter (fun a => hs.contains a) with
    | nil => rw [hf] at h2; cases h2
    | cons _ _ => rfl
  simp only [e2, Bool.false_eq_true, if_false] at ha
  split at ha
  · simpa using (List.mem_filter.mp (List.mem_of_mem_take ha)).2
  · simpa using (List.mem_filter.mp ha).2

/-- **C21 (4)** bounded: at most MaxReplica locations (one when MaxReplica < 1) -/
theorem spec_bounded (ord hs : List α) (r : Int) : (specLocations ord hs r).length ≤ max 1 r.toNat := by
  unfold specLocations
  simp only []
  split
  · exact Nat.le_trans (List.length_take_le 1 _) (Nat.le_max_left _ _)
  · split
    · exact Nat.le_trans (List.length_take_le 1 _) (Nat.le_max_left _ _)
    · exact Nat.le_trans (List.length_filter_le _ _)
        (Nat.le_trans (List.length_take_le _ _) (Nat.le_max_right _ _))

/-- no host twice, and in ranking order (a sublist of the ordered owners) -/
theorem spec_sublist (ord hs : List α) (r : Int) : (specLocations ord hs r).Sublist ord := by
  unfold specLocations
  simp only []
  split
  · exact List.take_sublist _ _
  · split
    · exact (List.take_sublist _ _).trans List.filter_sublist
    · exact List.filter_sublist.trans (List.take_sublist _ _)

/-- all of (2)(3)(4) for what `Locations` returns -/
theorem locations_good (ord hs : List α) (r : Int) (hne : ord ≠ []) (hsub : ∀ a ∈ hs, a ∈ ord) :
    ∃ locs, locations ord hs r = .ok locs ∧ locs ≠ [] ∧ (∀ a ∈ locs, a ∈ ord) ∧
      (hs ≠ [] → ∀ a ∈ locs, a ∈ hs) ∧ locs.length ≤ max 1 r.toNat ∧ locs.Sublist ord := by
  refine ⟨_, locations_spec ord hs r hne hsub, spec_nonempty ord hs r hne, spec_subset_members ord hs r,
    ?_, spec_bounded ord hs r, spec_sublist ord hs r⟩
  intro hh
  cases hs with
  | nil => exact absurd rfl hh
  | cons b t => exact spec_all_healthy ord (b :: t) r ⟨b, hsub b (by simp), by simp⟩

/-- the description itself depends on the healthy set only as a set -/
theorem spec_congr_healthy (ord hs hs' : List α) (r : Int) (hh : ∀ a, a ∈ hs ↔ a ∈ hs') :
    specLocations ord hs r = specLocations ord hs' r := by
  have hf : (fun a => hs.contains a) = (fun a => hs'.contains a) := by
    funext a
    have := hh a
    by_cases h : a ∈ hs
    · simp [h, this.mp h]
    · have h2 : a ∉ hs' := fun h' => h (this.mpr h')
      simp [h, h2]
  unfold specLocations
  rw [hf]

/-- the healthy set only matters as a set -/
theorem locations_congr_healthy (ord hs hs' : List α) (r : Int) (hh : ∀ a, a ∈ hs ↔ a ∈ hs') :
    locations ord hs r = locations ord hs' r := by
  have hf : (fun a => hs.contains a) = (fun a => hs'.contains a) := by
    funext a
    have := hh a
    by_cases h : a ∈ hs
    · simp [h, this.mp h]
    · have h2 : a ∉ hs' := fun h' => h (this.mpr h')
      simp [h, h2]
  have he : hs.isEmpty = hs'.isEmpty := by
    cases hs with
    | nil => cases hs' with
      | nil => rfl
      | cons b _ => exact absurd ((hh b).mpr (by simp)) (by simp)
    | cons b _ => cases hs' with
      | nil => exact absurd ((hh b).mp (by simp)) (by simp)
      | cons _ _ => rfl
  unfold locations
  rw [hf, he]

section Score
variable {S : Type} [LE S] [DecidableLE S] [Std.IsLinearOrder S]

/-- **C21 (5)** host independence: two processes that discovered the same members in different
orders (`m1 ~ m2`), use ANY descending sort (`o1`, `o2` acceptable orderings, cf. C22) and see the
same healthy set compute the same ordered replica set — provided the shard's scores are distinct. -/
theorem locations_host_independent (score : String → α → S) (shard : String)
    (m1 m2 o1 o2 hs1 hs2 : List α) (r : Int)
    (hp : m1.Perm m2) (ho1 : Spec.C22.IsOrdering score shard m1 o1) (ho2 : Spec.C22.IsOrdering score shard m2 o2)
    (inj : InjOn (score shard) m1) (hh : ∀ a, a ∈ hs1 ↔ a ∈ hs2) :
    locations o1 hs1 r = locations o2 hs2 r := by
  rw [Spec.C22.orderings_agree score m1 m2 o1 o2 shard hp ho1 ho2 inj]
  exact locations_congr_healthy o2 hs1 hs2 r hh

/-! ### the ring object: every Refresh history -/

def sys : Sys (State α) (RefreshOp α) := { init := {}, step := HashRing.step }

/-- `hash.Nodes` always lists exactly the current members -/
def GoodRing (s : State α) : Prop :=
  s.addrs.Nodup ∧ s.nodes.Perm s.addrs ∧ (s.hashSet = false → s.addrs = [])

theorem step_good (s : State α) (o : RefreshOp α) (hg : GoodRing s) (hp : pre s o) : GoodRing (HashRing.step s o) := by
  obtain ⟨hn, hperm, hnil⟩ := hg
  obtain ⟨hln, hop⟩ := hp
  unfold HashRing.step refresh GoodRing
  simp only []
  refine ⟨hln, ?_, ?_⟩
  · by_cases he : setEqual s.addrs o.latest = true
    · simp only [he, if_true]
      exact hperm.trans (setEqual_perm _ _ hn hln he)
    · simp only [he]
      exact hop
  · intro h
    have he : setEqual s.addrs o.latest = true := by
      cases hse : setEqual s.addrs o.latest with
      | true => rfl
      | false => simp [hse] at h
    have hs : s.hashSet = false := by
      cases hh : s.hashSet with
      | false => rfl
      | true => simp [hh] at h
    have := (setEqual_perm _ _ hn hln he).length_eq
    rw [hnil hs] at this
    exact List.eq_nil_of_length_eq_zero this.symm

theorem ring_good (ops : List (RefreshOp α)) (hw : (sys (α := α)).WFHist pre sys.init ops) :
    GoodRing ((sys (α := α)).run ops) :=
  Sys.runFrom_inv_pre sys pre GoodRing (fun s a h hp => step_good s a h hp) ops sys.init
    ⟨List.nodup_nil, List.Perm.refl _, fun _ => rfl⟩ hw

/-- **C21 (5, ring object)** after every history of Refresh calls — whatever memberships came and
went, in whatever order each rebuild enumerated the hosts — `Locations` is the replica set of the
*current* member set and healthy set: `specLocations` over the C22 ordering of `addrs`. -/
theorem ring_locations_spec (score : String → α → S) (shard : String) (r : Int)
    (ops : List (RefreshOp α)) (hw : (sys (α := α)).WFHist pre sys.init ops)
    (hne : ((sys (α := α)).run ops).addrs ≠ [])
    (hsub : ∀ a ∈ ((sys (α := α)).run ops).healthy, a ∈ ((sys (α := α)).run ops).addrs)
    (inj : InjOn (score shard) ((sys (α := α)).run ops).addrs) :
    ringLocations (score shard) (sys.run ops) r =
      .ok (specLocations (ordered (score shard) ((sys (α := α)).run ops).addrs)
        ((sys (α := α)).run ops).healthy r) := by
  obtain ⟨_, hperm, hnil⟩ := ring_good ops hw
  generalize (sys (α := α)).run ops = s at *
  unfold ringLocations
  have hset : s.hashSet = true := by
    cases hh : s.hashSet with
    | true => rfl
    | false => exact absurd (hnil hh) hne
  simp only [hset, if_true]
  have inj' : InjOn (score shard) s.nodes := Proof.C22.injOn_perm _ hperm.symm inj
  rw [Spec.C22.ordered_unique score s.nodes s.addrs shard hperm inj']
  apply locations_spec
  · intro h
    have := (Proof.C22.ordered_perm (score shard) s.addrs).length_eq
    rw [h] at this
    exact hne (List.eq_nil_of_length_eq_zero this.symm)
  · intro a ha
    exact (Proof.C22.ordered_perm (score shard) s.addrs).mem_iff.mpr (hsub a ha)

/-- **C21 (5, two processes)** two rings (= two processes) that went through ANY two Refresh
histories — different memberships on the way, different host enumeration orders at every rebuild —
and now resolve the same non-empty member set and the same healthy set compute the same ordered
replica set, for every shard with distinct scores and every MaxReplica. -/
theorem ring_host_independent (score : String → α → S) (shard : String) (r : Int)
    (ops1 ops2 : List (RefreshOp α))
    (hw1 : (sys (α := α)).WFHist pre sys.init ops1) (hw2 : (sys (α := α)).WFHist pre sys.init ops2)
    (hperm : ((sys (α := α)).run ops1).addrs.Perm ((sys (α := α)).run ops2).addrs)
    (hne : ((sys (α := α)).run ops1).addrs ≠ [])
    (hh : ∀ a, a ∈ ((sys (α := α)).run ops1).healthy ↔ a ∈ ((sys (α := α)).run ops2).healthy)
    (inj : InjOn (score shard) ((sys (α := α)).run ops1).addrs) :
    ringLocations (score shard) (sys.run ops1) r = ringLocations (score shard) (sys.run ops2) r := by
  obtain ⟨_, hp1, hn1⟩ := ring_good ops1 hw1
  obtain ⟨_, hp2, hn2⟩ := ring_good ops2 hw2
  generalize (sys (α := α)).run ops1 = s1 at *
  generalize (sys (α := α)).run ops2 = s2 at *
  have hne2 : s2.addrs ≠ [] := fun e => hne (by rw [e] at hperm; exact hperm.eq_nil)
  have hs1 : s1.hashSet = true := by
    cases hh' : s1.hashSet with
    | true => rfl
    | false => exact absurd (hn1 hh') hne
  have hs2 : s2.hashSet = true := by
    cases hh' : s2.hashSet with
    | true => rfl
    | false => exact absurd (hn2 hh') hne2
  unfold ringLocations
  simp only [hs1, hs2, if_true]
  exact locations_host_independent score shard s1.nodes s2.nodes _ _ s1.healthy s2.healthy r
    (hp1.trans (hperm.trans hp2.symm))
    (Spec.C22.ordered_perm_sorted score s1.nodes shard) (Spec.C22.ordered_perm_sorted score s2.nodes shard)
    (Proof.C22.injOn_perm _ hp1.symm inj) hh

end Score

/-- The Filter contract is needed: a "healthy" set containing no member makes `Locations` return
an empty list (the loop finds nothing and `len(healthy) != 0` skips the fallback). -/
theorem foreign_healthy_set_gives_empty : locations [1, 2, 3] [7] 3 = .ok ([] : List Nat) := by decide

/-- an empty ring panics (`nodes[0]`) — the non-emptiness hypothesis is needed as well -/
theorem empty_ring_panics : locations ([] : List Nat) [] 3 = .panic := by decide

/-! ### non-vacuity -/
example : locations [5, 1, 4, 2, 3] [2, 4] 2 = .ok [4] := by decide             -- top 2 unhealthy → next healthy
example : locations [5, 1, 4, 2, 3] [2, 3] 2 = .ok [2] := by decide          -- top 2 unhealthy → next healthy
example : locations [5, 1, 4, 2, 3] [] 2 = .ok [5] := by decide              -- nobody healthy → top owner
example : locations [5, 1, 4, 2, 3] [1, 2, 3, 4, 5] 3 = .ok [5, 1, 4] := by decide
example : locations [5, 1, 4, 2, 3] [1, 3] (-1) = .ok [1] := by decide
example : specLocations [5, 1, 4, 2, 3] [2, 3] 2 = [2] := by decide

end KrakenModel.Spec.C21
