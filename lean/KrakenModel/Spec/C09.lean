import KrakenModel.Util.LTS
import KrakenModel.Model.Tiered
import KrakenModel.Proof.C09Ghost
import KrakenModel.Proof.C09Dead
import KrakenModel.Proof.C09Main
/-
  C09  The tiered store never loses or corrupts a completed blob or metadata update.

  `Model.Tiered` = memory store + disk store (both `Model.BlobStore`) + the flusher's bookkeeping +
  the flush worker as a small-step program; a schedule is a `List Act` (client operations and single
  worker steps of any worker, in any order).  `gsys mc dc nw` adds the ghost history variables of
  `Proof/C09Ghost.lean` (which keys are live, the bytes at `MarkComplete`, the last metadata update);
  `Safe` is the property.  The model is the code after the two `fix:` commits of known/C09.json.
-/
namespace KrakenModel.Spec.C09
open KrakenModel KrakenModel.BlobStore KrakenModel.Tiered

/-- **A deleted key never resurfaces and never blocks re-creation** — for every configuration,
any number of flush workers and EVERY schedule (no hypothesis): a key that is not live (never
created, or deleted since) is in neither tier and has no flusher entry, so `Has`/`List`/`Open` do not
see it and `Create` is not answered `exist`. -/
theorem deleted_never_resurfaces (mc dc nw : Nat) (h1 : mc < U64) (h2 : dc < U64) (sched : List Act)
    (k : Key) (hl : ((gsys mc dc nw).run sched).g.live k = false) :
    visible ((gsys mc dc nw).run sched).t k = false ∧ fget ((gsys mc dc nw).run sched).t.fmap k = none ∧
    ∀ n d, (capply ((gsys mc dc nw).run sched).t (.create k n d)).2 ≠ .err .exist := by
  have hi := inv1_run mc dc nw h1 h2 sched
  generalize (gsys mc dc nw).run sched = s at hl hi ⊢
  obtain ⟨a, b, c⟩ := hi.dead k hl
  refine ⟨by simp [visible, inStore, a, b], c, ?_⟩
  intro n d
  have hne : ∀ (s0 : State), s0.blobs.get k = none → (create s0 k n d).2 ≠ .err .exist := by
    intro s0 h0
    rw [create_none h0]; split <;> simp
  have hm := hne _ a
  have hd := hne _ b
  simp only [capply, tCreate, inStore, a, b, Option.isSome_none, Bool.or_self, Bool.false_eq_true, if_false]
  cases hcm : (create s.t.mem k n d).2 with
  | created i ev => simp
  | err e =>
    cases e with
    | noSpace =>
      simp only
      cases hcd : (create s.t.disk k n d).2 with
      | created i ev => simp
      | err e2 => simp only; intro h; injection h with h; subst h; exact hd hcd
      | _ => simp
    | exist => exact absurd hcm hm
    | _ => simp
  | _ => simp

/-- **Dirty blobs stay in memory.** In every schedule a key with a flusher entry (data or metadata
not yet on disk) is in the memory store and banned from eviction (the unban of the repaired flusher
happens only once no entry is left). -/
theorem dirty_is_banned (mc dc nw : Nat) (h1 : mc < U64) (h2 : dc < U64) (sched : List Act) (k : Key) (id : Nat) :
    let s := (gsys mc dc nw).run sched
    fget s.t.fmap k = some id → ∃ m, s.t.mem.blobs.get k = some m ∧ m.banned = true :=
  fun h => (inv1_run mc dc nw h1 h2 sched).ent k id h

/-- Both tiers keep the C07 invariants (size accounting, capacity, LRU queue) along every schedule. -/
theorem tiers_stay_lru_models (mc dc nw : Nat) (h1 : mc < U64) (h2 : dc < U64) (sched : List Act) :
    let s := (gsys mc dc nw).run sched
    Good s.t.mem ∧ Good s.t.disk :=
  (inv1_run mc dc nw h1 h2 sched).good

/-- **The property at its full quantifier**: for every configuration, every number of flush workers
and every schedule (interleaving of client operations with worker steps), `Safe` holds. -/
def tiered_safe_target : Prop :=
  ∀ (mc dc nw : Nat), mc < U64 → dc < U64 → ∀ sched : List Act, Safe ((gsys mc dc nw).run sched)

/-- the refuting schedule: `Delete`+`Create`+`MarkComplete` of key 0 while the single worker holds
the memory handle of its previous incarnation; then memory pressure -/
def witness : List Act :=
  [.client (.create 0 2 [0xa1, 0xa2]), .client (.markComplete 0),
   .work 0, .work 0, .work 0,                                   -- nextToFlush, memOpen: parked before disk.Create
   .client (.delete 0 .any), .client (.create 0 1 [0xb1]), .client (.markComplete 0),
   .work 0, .work 0, .work 0, .work 0, .work 0, .work 0, .work 0, .work 0, .work 0,
   .client (.create 9 4 [])]                                    -- memory pressure

theorem not_tiered_safe : ¬ tiered_safe_target := by
  intro h
  have hs := (h 4 64 1 (by decide) (by decide) witness).1 0 [0xb1] (by decide) (by decide)
  exact absurd hs.1 (by decide)

/-- **The property for every schedule outside the class of the known finding.** For every
configuration, any number of flush workers and every schedule in which no key is created while the
flusher still knows a previous incarnation of it — a queued flush or a flush in flight (`pre`) —
`Safe` holds: a completed blob that has not been evicted from disk opens (unscoped and under the
complete scope) with exactly its bytes and reports its last metadata update for every suffix, however
the worker steps (memOpen, disk.Create, each read of the copy, MarkComplete, every metadata read and
write, the dirty check, the unban, the failure handler) interleave with client operations and memory
pressure; and a deleted key is invisible. -/
theorem tiered_safe_partial (mc dc nw : Nat) (h1 : mc < U64) (h2 : dc < U64) (sched : List Act)
    (hclass : (gsys mc dc nw).WFHist pre (gsys mc dc nw).init sched) : Safe ((gsys mc dc nw).run sched) :=
  safe_of_inv2 (inv2_run mc dc nw h1 h2 sched hclass)

/-- the same at every prefix of the schedule (the property holds all along the run, not only at its end) -/
theorem tiered_safe_partial_prefix (mc dc nw : Nat) (h1 : mc < U64) (h2 : dc < U64) (sched more : List Act)
    (hclass : (gsys mc dc nw).WFHist pre (gsys mc dc nw).init (sched ++ more)) :
    Safe ((gsys mc dc nw).run sched) := by
  apply tiered_safe_partial mc dc nw h1 h2 sched
  have : ∀ (l l' : List Act) (s : GState), (gsys mc dc nw).WFHist pre s (l ++ l') → (gsys mc dc nw).WFHist pre s l := by
    intro l
    induction l with
    | nil => intro _ _ _; trivial
    | cons a l ih => intro l' s h; exact ⟨h.1, ih l' _ h.2⟩
  exact this sched more _ hclass

/-! non-vacuity: a schedule of the class with a flush, a metadata update racing the flush, memory
pressure and a delete; the property's premises are met and its conclusion is checked by evaluation -/

def inClass : List Act :=
  [.client (.create 0 2 [0xa1, 0xa2]), .client (.setMd 0 .any ⟨0, true, [1]⟩), .client (.markComplete 0),
   .work 0, .work 0, .work 0, .work 0, .work 0,            -- … the worker is copying
   .client (.setMd 0 .any ⟨2, true, [3]⟩),                  -- a metadata update during the flush
   .work 0, .work 0, .work 0, .work 0, .work 0, .work 0, .work 0, .work 0, .work 0, .work 0, .work 0, .work 0,
   .work 0, .work 0, .work 0, .work 0, .work 0, .work 0,
   .client (.create 9 4 []),                                -- memory pressure evicts key 0 from memory
   .client (.create 1 1 [7]), .client (.delete 1 .any)]

example : (gsys 4 64 1).WFHist pre (gsys 4 64 1).init inClass := by decide
example : ((gsys 4 64 1).run inClass).g.done 0 = some [0xa1, 0xa2] := by decide
example : ((gsys 4 64 1).run inClass).t.mem.blobs.get 0 = none := by decide
example : openRead ((gsys 4 64 1).run inClass).t 0 .complete = some [0xa1, 0xa2] := by decide
example : readMd ((gsys 4 64 1).run inClass).t 0 2 = some (some [3]) := by decide
example : visible ((gsys 4 64 1).run inClass).t 1 = false := by decide

example : ((gsys 4 64 1).run witness).g.done 0 = some [0xb1] := by decide
example : openRead ((gsys 4 64 1).run witness).t 0 .any = some [] := by decide
example : ((gsys 4 64 1).run witness).t.mem.blobs.get 0 = none := by decide
example : (((gsys 4 64 1).run witness).t.disk.blobs.get 0).map (·.complete) = some false := by decide
-- the witness is in the excluded schedule class: the re-creation happens while the worker holds key 0
example : ¬ (gsys 4 64 1).WFHist pre (gsys 4 64 1).init witness := by decide

end KrakenModel.Spec.C09
