import KrakenModel.Util.LTS
import KrakenModel.Model.Tiered
import KrakenModel.Proof.C09Ghost
import KrakenModel.Proof.C09Dead
import KrakenModel.Proof.C09Main
import KrakenModel.Proof.C09File
import KrakenModel.Proof.C09Split
/-
  C09  The tiered store never loses or corrupts a completed blob or metadata update.

  `Model.Tiered` = memory store + disk store (both `Model.BlobStore`) + the flusher's bookkeeping +
  the flush worker as a small-step program; a schedule is a `List Act` (client operations and single
  worker steps of any worker, in any order).  `gsys mc dc nw` adds the ghost history variables of
  `Proof/C09Ghost.lean` (which keys are live, the bytes at `MarkComplete`, the last metadata update);
  `Safe` is the property.  The model is the code after the three `fix:` commits of known/C09.json.
  The copy of a flush proceeds in chunks whose length is a choice of the schedule (`work i c`: at most
  `c` bytes, 0 = everything that is left), so every copy-buffer size and every short read is covered.
  `tiered.File` handles: `TFile`, `tfRead`, `tfContent` (Model/Tiered.lean) and
  `handle_reads_completed_bytes`.  Client operations are single steps here; `client_segments_compose`
  relates them to the segments the code executes between its store calls.
-/
namespace KrakenModel.Spec.C09
open KrakenModel KrakenModel.BlobStore KrakenModel.Tiered

/-- **A deleted key never resurfaces and never blocks re-creation** — for every configuration,
any number of flush workers and EVERY schedule (no hypothesis): a key that is not live (never
created, or deleted since) is in neither tier and has no flusher entry, so `Has`/`List`/`Open` do not
see it and `Create` is not answered `exist`. -/
theorem deleted_never_resurfaces (mc dc nw : Nat) (h1 : mc < U64) (h2 : dc < U64) (sched : List Act)
    (k : Key) (hl : ((gsys mc dc nw).run sched).g.live k = false) :
    visible ((gsys mc dc nw).run sched).t k = false ∧ fget ((gsys mc dc nw).run sched).t.fmap k = none ∧
    ∀ n d, (capply ((gsys mc dc nw).run sched).t (.create k n d)).2 ≠ .err .exist := by
  have hi := inv1_run mc dc nw h1 h2 sched
  generalize (gsys mc dc nw).run sched = s at hl hi ⊢
  obtain ⟨a, b, c⟩ := hi.dead k hl
  refine ⟨by simp [visible, inStore, a, b], c, ?_⟩
  intro n d
  have hne : ∀ (s0 : State), s0.blobs.get k = none → (create s0 k n d).2 ≠ .err .exist := by
    intro s0 h0
    rw [create_none h0]; split <;> simp
  have hm := hne _ a
  have hd := hne _ b
  simp only [capply, tCreate, inStore, a, b, Option.isSome_none, Bool.or_self, Bool.false_eq_true, if_false]
  cases hcm : (create s.t.mem k n d).2 with
  | created i ev => simp
  | err e =>
    cases e with
    | noSpace =>
      simp only
      cases hcd : (create s.t.disk k n d).2 with
      | created i ev => simp
      | err e2 => simp only; intro h; injection h with h; subst h; exact hd hcd
      | _ => simp
    | exist => exact absurd hcm hm
    | _ => simp
  | _ => simp

/-- **Dirty blobs stay in memory.** In every schedule a key with a flusher entry (data or metadata
not yet on disk) is in the memory store and banned from eviction (the unban of the repaired flusher
happens only once no entry is left). -/
theorem dirty_is_banned (mc dc nw : Nat) (h1 : mc < U64) (h2 : dc < U64) (sched : List Act) (k : Key) (id : Nat) :
    let s := (gsys mc dc nw).run sched
    fget s.t.fmap k = some id → ∃ m, s.t.mem.blobs.get k = some m ∧ m.banned = true :=
  fun h => (inv1_run mc dc nw h1 h2 sched).ent k id h

/-- Both tiers keep the C07 invariants (size accounting, capacity, LRU queue) along every schedule. -/
theorem tiers_stay_lru_models (mc dc nw : Nat) (h1 : mc < U64) (h2 : dc < U64) (sched : List Act) :
    let s := (gsys mc dc nw).run sched
    Good s.t.mem ∧ Good s.t.disk :=
  (inv1_run mc dc nw h1 h2 sched).good

/-- **The property at its full quantifier**: for every configuration, every number of flush workers
and every schedule (interleaving of client operations with worker steps), `Safe` holds. -/
def tiered_safe_target : Prop :=
  ∀ (mc dc nw : Nat), mc < U64 → dc < U64 → ∀ sched : List Act, Safe ((gsys mc dc nw).run sched)

/-- the refuting schedule: `Delete`+`Create`+`MarkComplete` of key 0 while the single worker holds
the memory handle of its previous incarnation; then memory pressure -/
def witness : List Act :=
  [.client (.create 0 2 [0xa1, 0xa2]), .client (.markComplete 0),
   .work 0, .work 0, .work 0,                                   -- nextToFlush, memOpen: parked before disk.Create
   .client (.delete 0 .any), .client (.create 0 1 [0xb1]), .client (.markComplete 0),
   .work 0, .work 0, .work 0, .work 0, .work 0, .work 0, .work 0, .work 0, .work 0,
   .client (.create 9 4 [])]                                    -- memory pressure

theorem not_tiered_safe : ¬ tiered_safe_target := by
  intro h
  have hs := (h 4 64 1 (by decide) (by decide) witness).1 0 [0xb1] (by decide) (by decide)
  exact absurd hs.1 (by decide)

/-- **The property for every schedule outside the class of the known finding.** For every
configuration, any number of flush workers and every schedule in which no key is created while the
flusher still knows a previous incarnation of it — a queued flush or a flush in flight (`pre`) —
`Safe` holds: a completed blob that has not been evicted from disk opens (unscoped and under the
complete scope) with exactly its bytes and reports its last metadata update for every suffix, however
the worker steps (memOpen, disk.Create, each read of the copy, MarkComplete, every metadata read and
write, the dirty check, the unban, the failure handler) interleave with client operations and memory
pressure; and a deleted key is invisible. -/
theorem tiered_safe_partial (mc dc nw : Nat) (h1 : mc < U64) (h2 : dc < U64) (sched : List Act)
    (hclass : (gsys mc dc nw).WFHist pre (gsys mc dc nw).init sched) : Safe ((gsys mc dc nw).run sched) :=
  safe_of_inv2 (inv2_run mc dc nw h1 h2 sched hclass)

/-- the same at every prefix of the schedule (the property holds all along the run, not only at its end) -/
theorem tiered_safe_partial_prefix (mc dc nw : Nat) (h1 : mc < U64) (h2 : dc < U64) (sched more : List Act)
    (hclass : (gsys mc dc nw).WFHist pre (gsys mc dc nw).init (sched ++ more)) :
    Safe ((gsys mc dc nw).run sched) := by
  apply tiered_safe_partial mc dc nw h1 h2 sched
  have : ∀ (l l' : List Act) (s : GState), (gsys mc dc nw).WFHist pre s (l ++ l') → (gsys mc dc nw).WFHist pre s l := by
    intro l
    induction l with
    | nil => intro _ _ _; trivial
    | cons a l ih => intro l' s h; exact ⟨h.1, ih l' _ h.2⟩
  exact this sched more _ hclass

/-! ### `tiered.File`: a handle held across the flush and the eviction from memory -/

/-- the state component of a run that continues another one -/
theorem run_t_append (mc dc nw : Nat) (sched more : List Act) :
    ((gsys mc dc nw).run (sched ++ more)).t = Tiered.trun ((gsys mc dc nw).run sched).t more := by
  rw [Sys.run_append]
  have : ∀ (l : List Act) (s : GState), ((gsys mc dc nw).runFrom s l).t = Tiered.trun s.t l := by
    intro l
    induction l with
    | nil => intro s; rfl
    | cons a l ih =>
      intro s
      show ((gsys mc dc nw).runFrom ((gsys mc dc nw).step s a) l).t = Tiered.trun (Tiered.tstep s.t a) l
      rw [ih, show ((gsys mc dc nw).step s a).t = Tiered.tstep s.t a from gstep_t s a]
  exact this more _

/-- **A handle keeps delivering the completed bytes** — "no matter how flushing interleaves with
reads".  A `tiered.File` is opened from memory at some point of a schedule of the class (`sched`; the
blob need not be complete yet); the schedule goes on (`more`: worker steps — the whole flush, in
chunks of any length —, other clients, memory pressure, the eviction of the blob from memory, anything
but a `Create` of the same key, which `Delete` must precede).  Whenever the blob is then a completed
blob that has not been evicted from disk, what the handle delivers — from memory while its
incarnation is there, otherwise after the switch-over from the disk copy opened by key — is exactly
the completed bytes, at whatever offset the handle stands. -/
theorem handle_reads_completed_bytes (mc dc nw : Nat) (h1 : mc < U64) (h2 : dc < U64) (sched more : List Act)
    (hclass : (gsys mc dc nw).WFHist pre (gsys mc dc nw).init (sched ++ more))
    (k : Key) (m : Blob) (hopen : ((gsys mc dc nw).run sched).t.mem.blobs.get k = some m)
    (hnc : ∀ a ∈ more, ∀ n d, a ≠ .client (.create k n d))
    (B : Bytes) (hdn : ((gsys mc dc nw).run (sched ++ more)).g.done k = some B)
    (hx : k ∉ ((gsys mc dc nw).run (sched ++ more)).t.diskEvicted) (off : Nat) :
    tfContent ((gsys mc dc nw).run (sched ++ more)).t { key := k, mem := some m.inc, moff := off } = some B := by
  have hi := inv2_run mc dc nw h1 h2 (sched ++ more) hclass
  apply content_of_current hi hdn hx
  rw [run_t_append]
  apply current_run more _ _ hnc
  intro m' hm'
  rw [hopen] at hm'; injection hm' with e; rw [e]

/-- a handle opened from disk (the blob was not in memory any more) reads the disk copy: for a
completed blob that has not been evicted from disk these are the completed bytes -/
theorem disk_handle_reads_completed_bytes (mc dc nw : Nat) (h1 : mc < U64) (h2 : dc < U64) (sched : List Act)
    (hclass : (gsys mc dc nw).WFHist pre (gsys mc dc nw).init sched) (k : Key) (B : Bytes)
    (hdn : ((gsys mc dc nw).run sched).g.done k = some B) (hx : k ∉ ((gsys mc dc nw).run sched).t.diskEvicted)
    (hm : ((gsys mc dc nw).run sched).t.mem.blobs.get k = none) (sc : Scope) (hsc : sc ≠ .incomplete) :
    ∃ f t', tOpenFile ((gsys mc dc nw).run sched).t k sc = (t', some f, .ok) ∧ tfContent t' f = some B := by
  have hi := inv2_run mc dc nw h1 h2 sched hclass
  generalize (gsys mc dc nw).run sched = s at hi hdn hx hm
  obtain ⟨d, hD, hc, hdat, _⟩ := (hi.key k).done_d B hdn hx (.inl hm)
  have hin : inScope d sc = true := by cases sc <;> simp_all [inScope]
  refine ⟨{ key := k, sw := .disk d.inc 0 }, { s.t with disk := (openB s.t.disk k sc).1 }, ?_, ?_⟩
  · simp only [tOpenFile, openB_none hm, openB_eq hD hin]
  · simp only [tfContent, diskData]
    have : hBlob (openB s.t.disk k sc).1 { key := k, inc := d.inc } = some d := by
      apply hBlob_of_get _ rfl
      rw [openB_blobs]; exact hD
    rw [this]; simp [hdat]

/-! ### client operations taken apart -/

/-- The client operations of `tiered.store` run under the store mutex, which the flush worker never
takes: in the code worker steps may fall between the store calls of one operation.  The theorems above
treat a client operation as one step; `cseg` is the same operation cut at the points between its store
calls, and running the segments back to back **is** the atomic operation.  (The correspondence harness
runs worker steps between the segments on the real code and compares with `cseg`; the invariant proof
does not cover those schedules.) -/
theorem client_segments_compose (t : TState) (o : COp) : crun t o 0 3 = capply t o := crun_eq_capply t o

/-! ### a metadata suffix without a registered type -/

/-- the schedule on which the unrepaired flush worker crashed: `DeleteMetadata` (which takes any string)
names a suffix that no metadata type is registered for (1000 = `u0` of the harness) -/
def panicWitness : List Act :=
  [.client (.create 0 1 [1]), .client (.markComplete 0), .client (.delMd 0 .any 1000),
   .work 0, .work 0, .work 0, .work 0, .work 0, .work 0, .work 0, .work 0, .work 0]

/-- Before the repair the worker reached `mem.GetMetadata(key, nil)` there (a nil dereference on the
worker goroutine: the process dies) … -/
theorem legacy_worker_panics_on_unregistered_suffix :
    (((Tiered.trun (Tiered.tinit 4 64 1) panicWitness).workers[0]?).map
      (fun w => legacyWorkerPanics (fun sfx => decide (sfx < 1000)) w 0)) = some true := by decide

/-- … and the repaired worker skips the suffix, which is what the model does for any suffix that was
never set: it reads "absent" and deletes an absent sidecar on disk — the blob keeps its bytes and its
metadata, the schedule is in the class and `Safe` holds at its end. -/
theorem unregistered_suffix_is_harmless :
    (gsys 4 64 1).WFHist pre (gsys 4 64 1).init (panicWitness ++ [.work 0, .work 0, .work 0, .work 0]) ∧
    openRead ((gsys 4 64 1).run (panicWitness ++ [.work 0, .work 0, .work 0, .work 0])).t 0 .complete = some [1] ∧
    fget ((gsys 4 64 1).run (panicWitness ++ [.work 0, .work 0, .work 0, .work 0])).t.fmap 0 = none := by decide

/-! non-vacuity: a schedule of the class with a flush, a metadata update racing the flush, memory
pressure and a delete; the property's premises are met and its conclusion is checked by evaluation -/

def inClass : List Act :=
  [.client (.create 0 2 [0xa1, 0xa2]), .client (.setMd 0 .any ⟨0, true, [1]⟩), .client (.markComplete 0),
   .work 0, .work 0, .work 0, .work 0, .work 0,            -- … the worker is copying
   .client (.setMd 0 .any ⟨2, true, [3]⟩),                  -- a metadata update during the flush
   .work 0, .work 0, .work 0, .work 0, .work 0, .work 0, .work 0, .work 0, .work 0, .work 0, .work 0, .work 0,
   .work 0, .work 0, .work 0, .work 0, .work 0, .work 0,
   .client (.create 9 4 []),                                -- memory pressure evicts key 0 from memory
   .client (.create 1 1 [7]), .client (.delete 1 .any)]

example : (gsys 4 64 1).WFHist pre (gsys 4 64 1).init inClass := by decide
example : ((gsys 4 64 1).run inClass).g.done 0 = some [0xa1, 0xa2] := by decide
example : ((gsys 4 64 1).run inClass).t.mem.blobs.get 0 = none := by decide
example : openRead ((gsys 4 64 1).run inClass).t 0 .complete = some [0xa1, 0xa2] := by decide
example : readMd ((gsys 4 64 1).run inClass).t 0 2 = some (some [3]) := by decide
example : visible ((gsys 4 64 1).run inClass).t 1 = false := by decide

example : ((gsys 4 64 1).run witness).g.done 0 = some [0xb1] := by decide
example : openRead ((gsys 4 64 1).run witness).t 0 .any = some [] := by decide
example : ((gsys 4 64 1).run witness).t.mem.blobs.get 0 = none := by decide
example : (((gsys 4 64 1).run witness).t.disk.blobs.get 0).map (·.complete) = some false := by decide
-- the witness is in the excluded schedule class: the re-creation happens while the worker holds key 0
example : ¬ (gsys 4 64 1).WFHist pre (gsys 4 64 1).init witness := by decide

/-! non-vacuity of the handle theorem and of the chunked copy: a 3-byte blob is flushed in 1-byte
chunks while a handle opened from memory is held; memory pressure then evicts the blob and the handle
switches over to the disk copy -/

def chunked : List Act :=
  [.client (.create 0 3 [0xa1, 0xa2, 0xa3]), .client (.markComplete 0)]

def chunkedMore : List Act :=
  [.work 0, .work 0, .work 0, .work 0, .work 0,          -- notify, nextToFlush, memOpen, disk.Create, start of io.Copy
   .work 0 1, .work 0 1]                                 -- two 1-byte Read/Write rounds

def chunkedRest : List Act :=
  [.work 0 1, .work 0 1,                                 -- the third byte, io.EOF
   .work 0, .work 0, .work 0, .work 0, .work 0, .work 0, -- MarkComplete, metadata loop, unban, back to idle
   .client (.create 9 4 [])]                             -- memory pressure: key 0 leaves memory

example : (gsys 4 64 1).WFHist pre (gsys 4 64 1).init (chunked ++ (chunkedMore ++ chunkedRest)) := by decide
-- in the middle of the copy the disk file holds the first two bytes and is incomplete
example : (((gsys 4 64 1).run (chunked ++ chunkedMore)).t.disk.blobs.get 0).map (fun b => (b.data, b.complete)) =
    some ([0xa1, 0xa2], false) := by decide
-- the handle was opened from memory (incarnation 0) right after MarkComplete …
example : (((gsys 4 64 1).run chunked).t.mem.blobs.get 0).map (·.inc) = some 0 := by decide
-- … at the end the blob is gone from memory and the handle delivers the bytes from the disk copy
example : ((gsys 4 64 1).run (chunked ++ (chunkedMore ++ chunkedRest))).t.mem.blobs.get 0 = none := by decide
example : tfContent ((gsys 4 64 1).run (chunked ++ (chunkedMore ++ chunkedRest))).t { key := 0, mem := some 0, moff := 1 } =
    some [0xa1, 0xa2, 0xa3] := by decide
example : (tfRead ((gsys 4 64 1).run (chunked ++ (chunkedMore ++ chunkedRest))).t { key := 0, mem := some 0, moff := 1 } 2).2.2 =
    .data [0xa2, 0xa3] := by decide

end KrakenModel.Spec.C09
