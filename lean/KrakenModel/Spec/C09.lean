import KrakenModel.Util.LTS
import KrakenModel.Model.Tiered
import KrakenModel.Proof.C09Ghost
import KrakenModel.Proof.C09Dead
/-
  C09  The tiered store never loses or corrupts a completed blob or metadata update.

  `Model.Tiered` = memory store + disk store (both `Model.BlobStore`) + the flusher's bookkeeping +
  the flush worker as a small-step program; a schedule is a `List Act` (client operations and single
  worker steps of any worker, in any order).  `gsys mc dc nw` adds the ghost history variables of
  `Proof/C09Ghost.lean` (which keys are live, the bytes at `MarkComplete`, the last metadata update);
  `Safe` is the property.  The model is the code after the two `fix:` commits of known/C09.json.
-/
namespace KrakenModel.Spec.C09
open KrakenModel KrakenModel.BlobStore KrakenModel.Tiered

/-- **A deleted key never resurfaces and never blocks re-creation** — for every configuration,
any number of flush workers and EVERY schedule (no hypothesis): a key that is not live (never
created, or deleted since) is in neither tier and has no flusher entry, so `Has`/`List`/`Open` do not
see it and `Create` is not answered `exist`. -/
theorem deleted_never_resurfaces (mc dc nw : Nat) (h1 : mc < U64) (h2 : dc < U64) (sched : List Act)
    (k : Key) (hl : ((gsys mc dc nw).run sched).g.live k = false) :
    visible ((gsys mc dc nw).run sched).t k = false ∧ fget ((gsys mc dc nw).run sched).t.fmap k = none ∧
    ∀ n d, (capply ((gsys mc dc nw).run sched).t (.create k n d)).2 ≠ .err .exist := by
  have hi := inv1_run mc dc nw h1 h2 sched
  generalize (gsys mc dc nw).run sched = s at hl hi ⊢
  obtain ⟨a, b, c⟩ := hi.dead k hl
  refine ⟨by simp [visible, inStore, a, b], c, ?_⟩
  intro n d
  have hne : ∀ (s0 : State), s0.blobs.get k = none → (create s0 k n d).2 ≠ .err .exist := by
    intro s0 h0
    rw [create_none h0]; split <;> simp
  have hm := hne _ a
  have hd := hne _ b
  simp only [capply, tCreate, inStore, a, b, Option.isSome_none, Bool.or_self, Bool.false_eq_true, if_false]
  cases hcm : (create s.t.mem k n d).2 with
  | created i ev => simp
  | err e =>
    cases e with
    | noSpace =>
      simp only
      cases hcd : (create s.t.disk k n d).2 with
      | created i ev => simp
      | err e2 => simp only; intro h; injection h with h; subst h; exact hd hcd
      | _ => simp
    | exist => exact absurd hcm hm
    | _ => simp
  | _ => simp

/-- **Dirty blobs stay in memory.** In every schedule a key with a flusher entry (data or metadata
not yet on disk) is in the memory store and banned from eviction (the unban of the repaired flusher
happens only once no entry is left). -/
theorem dirty_is_banned (mc dc nw : Nat) (h1 : mc < U64) (h2 : dc < U64) (sched : List Act) (k : Key) (id : Nat) :
    let s := (gsys mc dc nw).run sched
    fget s.t.fmap k = some id → ∃ m, s.t.mem.blobs.get k = some m ∧ m.banned = true :=
  fun h => (inv1_run mc dc nw h1 h2 sched).ent k id h

/-- Both tiers keep the C07 invariants (size accounting, capacity, LRU queue) along every schedule. -/
theorem tiers_stay_lru_models (mc dc nw : Nat) (h1 : mc < U64) (h2 : dc < U64) (sched : List Act) :
    let s := (gsys mc dc nw).run sched
    Good s.t.mem ∧ Good s.t.disk :=
  (inv1_run mc dc nw h1 h2 sched).good

/-- **The property at its full quantifier**: for every configuration, every number of flush workers
and every schedule (interleaving of client operations with worker steps), `Safe` holds. -/
def tiered_safe_target : Prop :=
  ∀ (mc dc nw : Nat), mc < U64 → dc < U64 → ∀ sched : List Act, Safe ((gsys mc dc nw).run sched)

/-- the refuting schedule: `Delete`+`Create`+`MarkComplete` of key 0 while the single worker holds
the memory handle of its previous incarnation; then memory pressure -/
def witness : List Act :=
  [.client (.create 0 2 [0xa1, 0xa2]), .client (.markComplete 0),
   .work 0, .work 0, .work 0,                                   -- nextToFlush, memOpen: parked before disk.Create
   .client (.delete 0 .any), .client (.create 0 1 [0xb1]), .client (.markComplete 0),
   .work 0, .work 0, .work 0, .work 0, .work 0, .work 0, .work 0, .work 0, .work 0,
   .client (.create 9 4 [])]                                    -- memory pressure

theorem not_tiered_safe : ¬ tiered_safe_target := by
  intro h
  have hs := (h 4 64 1 (by decide) (by decide) witness).1 0 [0xb1] (by decide) (by decide)
  exact absurd hs.1 (by decide)

example : ((gsys 4 64 1).run witness).g.done 0 = some [0xb1] := by decide
example : openRead ((gsys 4 64 1).run witness).t 0 .any = some [] := by decide
example : ((gsys 4 64 1).run witness).t.mem.blobs.get 0 = none := by decide
example : (((gsys 4 64 1).run witness).t.disk.blobs.get 0).map (·.complete) = some false := by decide
-- the witness is in the excluded schedule class: the re-creation happens while the worker holds key 0
example : ¬ (gsys 4 64 1).WFHist pre (gsys 4 64 1).init witness := by decide

end KrakenModel.Spec.C09
