import KrakenModel.Model.ClusterSample
/-
  C25  Cluster clients contact a bounded sample of current hosts.

  Quantifiers: every host set (a duplicate-free list, any size), every order in which Go's map
  iteration may enumerate it (`enum1`: a permutation of the host set; `enum2`: any function that
  permutes the sampled set), every failure pattern (`outcome : attempt index → host → Outcome`).
  The model is the REPAIRED `Set.Sample` (fix commit in /repo: it returned the receiver).
-/
namespace KrakenModel.Spec.C25
open KrakenModel.ClusterSample

variable {α : Type}

/-! ### Sample -/

theorem sample_eq_take (n : Nat) (enum : List α) : sample (n : Int) enum = enum.take n := by
  induction enum generalizing n with
  | nil => simp [sample]
  | cons x t ih =>
    cases n with
    | zero => simp [sample]
    | succ k =>
      have h : ((k + 1 : Nat) : Int) ≠ 0 := by omega
      have e : ((k + 1 : Nat) : Int) - 1 = (k : Int) := by omega
      simp only [sample, h, if_false, e, ih k, List.take_succ_cons]

/-- **C25 (1)** sampling `n` hosts from a set yields `min(n, size)` distinct members — for every
enumeration order of the set. -/
theorem sample_size (n : Nat) (hosts enum : List α) (hp : enum.Perm hosts) :
    (sample (n : Int) enum).length = min n hosts.length := by
  rw [sample_eq_take, List.length_take, hp.length_eq]

theorem sample_members (n : Int) (enum : List α) : (sample n enum).Sublist enum := by
  induction enum generalizing n with
  | nil => simp [sample]
  | cons x t ih =>
    simp only [sample]
    split
    · exact List.nil_sublist _
    · exact (ih (n - 1)).cons_cons x

theorem sample_distinct_members (n : Nat) (hosts enum : List α) (hn : hosts.Nodup) (hp : enum.Perm hosts) :
    (sample (n : Int) enum).Nodup ∧ (∀ a ∈ sample (n : Int) enum, a ∈ hosts) ∧
    (sample (n : Int) enum).length = min n hosts.length :=
  ⟨(sample_members _ enum).nodup (hp.nodup_iff.mpr hn),
   fun a ha => hp.mem_iff.mp ((sample_members _ enum).subset ha),
   sample_size n hosts enum hp⟩

theorem sample3_facts (hosts enum : List α) (hn : hosts.Nodup) (hp : enum.Perm hosts) :
    (sample 3 enum).Nodup ∧ (∀ a ∈ sample 3 enum, a ∈ hosts) ∧ (sample 3 enum).length = min 3 hosts.length :=
  sample_distinct_members 3 hosts enum hn hp

/-- a negative `n` never reaches the `n == 0` break: the whole set is returned -/
theorem sample_negative (n : Int) (hn : n < 0) (enum : List α) : sample n enum = enum := by
  induction enum generalizing n with
  | nil => simp [sample]
  | cons x t ih =>
    have h : n ≠ 0 := by omega
    simp only [sample, h, if_false, ih (n - 1) (by omega)]

/-! ### the request loops -/

theorem tryUntilOk_prefix (outcome : Nat → α → Outcome) :
    ∀ (l : List α) (i : Nat) (r : Run α),
      ∃ k, k ≤ l.length ∧ (tryUntilOk outcome i l r).contacted = r.contacted ++ l.take k ∧
        (l ≠ [] → 0 < k ∧ ((tryUntilOk outcome i l r).result = some .ok ∨ k = l.length)) ∧
        (tryUntilOk outcome i l r).failed = r.failed := by
  intro l
  induction l with
  | nil => intro i r; exact ⟨0, by simp, by simp [tryUntilOk], by simp, by simp [tryUntilOk]⟩
  | cons a t ih =>
    intro i r
    simp only [tryUntilOk]
    split
    · rename_i hok
      exact ⟨1, by simp, by simp, fun _ => ⟨by omega, Or.inl (by simp [hok])⟩, rfl⟩
    · obtain ⟨k, hk, hc, hres, hf⟩ := ih (i + 1)
        { r with contacted := r.contacted ++ [a], result := some (outcome i a) }
      refine ⟨k + 1, by simp; omega, by simp [hc], fun _ => ⟨by omega, ?_⟩, by simpa using hf⟩
      cases t with
      | nil =>
        have : k = 0 := by simpa using hk
        right; simp [this]
      | cons b t' =>
        rcases (hres (by simp)).2 with h | h
        · exact Or.inl h
        · right; simp [h]

theorem tryWhileNetErr_prefix (outcome : Nat → α → Outcome) :
    ∀ (l : List α) (i : Nat) (r : Run α),
      ∃ k, k ≤ l.length ∧ (tryWhileNetErr outcome i l r).contacted = r.contacted ++ l.take k ∧
        (l ≠ [] → 0 < k ∧ ((tryWhileNetErr outcome i l r).result ≠ some .netErr ∨ k = l.length)) ∧
        (∀ x ∈ (tryWhileNetErr outcome i l r).failed, x ∈ r.failed ∨ x ∈ l.take k) := by
  intro l
  induction l with
  | nil => intro i r; exact ⟨0, by simp, by simp [tryWhileNetErr], by simp, by simp [tryWhileNetErr]⟩
  | cons a t ih =>
    intro i r
    simp only [tryWhileNetErr]
    split
    · rename_i hne
      obtain ⟨k, hk, hc, hres, hf⟩ := ih (i + 1)
        { contacted := r.contacted ++ [a], result := some (outcome i a), failed := r.failed ++ [a] }
      refine ⟨k + 1, by simp; omega, by simp [hc], fun _ => ⟨by omega, ?_⟩, ?_⟩
      · cases t with
        | nil =>
          have : k = 0 := by simpa using hk
          right; simp [this]
        | cons b t' =>
          rcases (hres (by simp)).2 with h | h
          · exact Or.inl h
          · right; simp [h]
      · intro x hx
        rcases hf x hx with h | h
        · simp only [List.mem_append, List.mem_singleton] at h
          rcases h with h | h
          · exact Or.inl h
          · right; simp [h]
        · right; simp [List.take_succ_cons, h]
    · rename_i hne
      exact ⟨1, by simp, by simp, fun _ => ⟨by omega, Or.inl (by simpa using hne)⟩, by
        intro x hx; exact Or.inl hx⟩

/-- what "a bounded sample of current hosts" means for one client request -/
structure Bounded (hosts : List α) (bound : Nat) (r : Run α) : Prop where
  distinct : r.contacted.Nodup
  members : ∀ a ∈ r.contacted, a ∈ hosts
  atMost : r.contacted.length ≤ min bound hosts.length
  failedContacted : ∀ a ∈ r.failed, a ∈ r.contacted

/-- **C25 (2)** `blobclient.Locations` tries at most three distinct current hosts, whatever the
failure pattern and enumeration orders; it tries at least one when the cluster is non-empty, and it
gives up (no success) only after all `min(3, size)` sampled hosts were tried. -/
theorem locations_bounded (outcome : Nat → α → Outcome) (hosts enum1 : List α) (enum2 : List α → List α)
    (hn : hosts.Nodup) (hp1 : enum1.Perm hosts) (hp2 : ∀ l, (enum2 l).Perm l) :
    Bounded hosts 3 (locations outcome enum1 enum2) ∧
    (hosts ≠ [] → (locations outcome enum1 enum2).contacted ≠ [] ∧
      ((locations outcome enum1 enum2).result = some .ok ∨
        (locations outcome enum1 enum2).contacted.length = min 3 hosts.length)) := by
  obtain ⟨sn, sm, sl⟩ := sample3_facts hosts enum1 hn hp1
  unfold locations locationsWith
  simp only []
  split
  · rename_i he
    have he' : sample 3 enum1 = [] := by simpa using he
    refine ⟨⟨by simp, by simp, by simp, by simp⟩, fun hne => ?_⟩
    have hl : (sample 3 enum1).length = 0 := by simp [he']
    rw [sl] at hl
    have : hosts.length ≠ 0 := fun h => hne (List.eq_nil_of_length_eq_zero h)
    omega
  · rename_i he
    have hne' : sample 3 enum1 ≠ [] := by simpa using he
    obtain ⟨k, hk, hc, hres, hf⟩ := tryUntilOk_prefix outcome (enum2 (sample 3 enum1)) 0 {}
    have hpl := hp2 (sample 3 enum1)
    have hlen : (enum2 (sample 3 enum1)).length = min 3 hosts.length := by
      rw [hpl.length_eq, sl]
    have hcc : (tryUntilOk outcome 0 (enum2 (sample 3 enum1)) {}).contacted
        = (enum2 (sample 3 enum1)).take k := by simpa using hc
    have hne2 : enum2 (sample 3 enum1) ≠ [] := by
      intro h; rw [h] at hpl; exact hne' hpl.symm.eq_nil
    refine ⟨⟨?_, ?_, ?_, ?_⟩, fun _ => ⟨?_, ?_⟩⟩
    · rw [hcc]; exact ((List.take_sublist _ _).nodup (hpl.nodup_iff.mpr sn))
    · intro a ha; rw [hcc] at ha
      exact sm a (hpl.mem_iff.mp (List.mem_of_mem_take ha))
    · rw [hcc, List.length_take]; change min k _ ≤ _; rw [hlen] at hk ⊢; omega
    · intro a ha; rw [hf] at ha; cases ha
    · have hk0 := (hres hne2).1
      rw [hcc]; intro h
      have hl : ((enum2 (sample 3 enum1)).take k).length = 0 := by rw [h]; rfl
      rw [List.length_take] at hl
      have hpos : 0 < (enum2 (sample 3 enum1)).length := List.length_pos_iff.mpr hne2
      omega
    · rcases (hres hne2).2 with h | h
      · exact Or.inl h
      · right; rw [hcc, List.length_take, h]; change min _ _ = _; rw [hlen]; omega

/-- **C25 (3)** tagclient `clusterClient.do`: at most three distinct current hosts; `Failed` is only
reported for contacted hosts; the loop moves on only after a network error. -/
theorem do_bounded (outcome : Nat → α → Outcome) (hosts enum1 : List α) (enum2 : List α → List α)
    (hn : hosts.Nodup) (hp1 : enum1.Perm hosts) (hp2 : ∀ l, (enum2 l).Perm l) :
    Bounded hosts 3 (clusterDo outcome enum1 enum2) ∧
    (hosts ≠ [] → (clusterDo outcome enum1 enum2).contacted ≠ [] ∧
      ((clusterDo outcome enum1 enum2).result ≠ some .netErr ∨
        (clusterDo outcome enum1 enum2).contacted.length = min 3 hosts.length)) := by
  obtain ⟨sn, sm, sl⟩ := sample3_facts hosts enum1 hn hp1
  unfold clusterDo clusterDoWith
  simp only []
  split
  · rename_i he
    have he' : sample 3 enum1 = [] := by simpa using he
    refine ⟨⟨by simp, by simp, by simp, by simp⟩, fun hne => ?_⟩
    have hl : (sample 3 enum1).length = 0 := by simp [he']
    rw [sl] at hl
    have : hosts.length ≠ 0 := fun h => hne (List.eq_nil_of_length_eq_zero h)
    omega
  · rename_i he
    have hne' : sample 3 enum1 ≠ [] := by simpa using he
    obtain ⟨k, hk, hc, hres, hf⟩ := tryWhileNetErr_prefix outcome (enum2 (sample 3 enum1)) 0 {}
    have hpl := hp2 (sample 3 enum1)
    have hlen : (enum2 (sample 3 enum1)).length = min 3 hosts.length := by
      rw [hpl.length_eq, sl]
    have hcc : (tryWhileNetErr outcome 0 (enum2 (sample 3 enum1)) {}).contacted
        = (enum2 (sample 3 enum1)).take k := by simpa using hc
    have hne2 : enum2 (sample 3 enum1) ≠ [] := by
      intro h; rw [h] at hpl; exact hne' hpl.symm.eq_nil
    refine ⟨⟨?_, ?_, ?_, ?_⟩, fun _ => ⟨?_, ?_⟩⟩
    · rw [hcc]; exact ((List.take_sublist _ _).nodup (hpl.nodup_iff.mpr sn))
    · intro a ha; rw [hcc] at ha
      exact sm a (hpl.mem_iff.mp (List.mem_of_mem_take ha))
    · rw [hcc, List.length_take]; change min k _ ≤ _; rw [hlen] at hk ⊢; omega
    · intro a ha
      rcases hf a ha with h | h
      · cases h
      · rw [hcc]; exact h
    · have hk0 := (hres hne2).1
      rw [hcc]; intro h
      have hl : ((enum2 (sample 3 enum1)).take k).length = 0 := by rw [h]; rfl
      rw [List.length_take] at hl
      have hpos : 0 < (enum2 (sample 3 enum1)).length := List.length_pos_iff.mpr hne2
      omega
    · rcases (hres hne2).2 with h | h
      · exact Or.inl h
      · right; rw [hcc, List.length_take, h]; change min _ _ = _; rw [hlen]; omega

/-- **C25 (4)** single-attempt calls (`doOnce`, e.g. CheckReadiness) contact exactly one current host. -/
theorem doOnce_exactly_one (outcome : Nat → α → Outcome) (hosts enum1 : List α) (enum2 : List α → List α)
    (hp1 : enum1.Perm hosts) (hp2 : ∀ l, (enum2 l).Perm l) (hne : hosts ≠ []) :
    ∃ a, a ∈ hosts ∧ (clusterDoOnce outcome enum1 enum2).contacted = [a] ∧
      (∀ x ∈ (clusterDoOnce outcome enum1 enum2).failed, x = a) := by
  unfold clusterDoOnce clusterDoOnceWith
  have hs : sample 1 enum1 = enum1.take 1 := sample_eq_take 1 enum1
  have hne1 : enum1 ≠ [] := by intro h; rw [h] at hp1; exact hne hp1.symm.eq_nil
  cases enum1 with
  | nil => exact absurd rfl hne1
  | cons x t =>
    have hs' : sample 1 (x :: t) = [x] := by simpa using hs
    have hpl := hp2 [x]
    have : enum2 [x] = [x] := List.perm_singleton.mp hpl
    rw [hs', this]
    refine ⟨x, hp1.mem_iff.mp (by simp), by simp, ?_⟩
    intro y hy
    simp only [List.getLast?_singleton] at hy
    split at hy
    · simpa using hy
    · cases hy

/-- when there is no host nothing is contacted (the clients return "no hosts could be resolved") -/
theorem empty_cluster_contacts_nobody (outcome : Nat → α → Outcome) (enum2 : List α → List α) :
    (locations outcome [] enum2).contacted = [] ∧ (clusterDo outcome [] enum2).contacted = [] := by
  simp [locations, locationsWith, clusterDo, clusterDoWith, sample]

/-! ### origin/blobclient.clusterClient requests (lookup on ≤ 3 cluster hosts, then the replicas) -/

theorem visitAll_contacted (outcome : Nat → α → Outcome) :
    ∀ (l : List α) (i : Nat) (r : Run α), (visitAll outcome i l r).contacted = r.contacted ++ l := by
  intro l
  induction l with
  | nil => intro i r; simp [visitAll]
  | cons a t ih => intro i r; simp [visitAll, ih]

/-- the replica phase only talks to replicas the lookup named, each at most once, in visiting order -/
theorem replicaPhase_sublist (w : Walk) (outcome : Nat → α → Outcome) (order : List α) :
    ∃ k, (replicaPhase w outcome order).contacted = order.take k := by
  cases w with
  | untilOk =>
    obtain ⟨k, _, hc, _, _⟩ := tryUntilOk_prefix outcome order 0 {}
    exact ⟨k, by simpa [replicaPhase] using hc⟩
  | all => exact ⟨order.length, by simp [replicaPhase, visitAll_contacted]⟩
  | one =>
    cases order with
    | nil => exact ⟨0, by simp [replicaPhase]⟩
    | cons a t => exact ⟨1, by simp [replicaPhase]⟩

/-- **C25 (5, partial)** a blobclient.clusterClient request: the lookup phase obeys the bound of three
distinct current cluster hosts; the replica phase contacts only replicas named by the lookup, each at
most once, and only after a successful lookup.  (The total is therefore ≤ min(3,size) + #replicas.) -/
theorem cluster_request_partial (w : Walk) (lo ro : Nat → α → Outcome) (hosts enum1 : List α)
    (enum2 : List α → List α) (replicas : List α) (order : List α → List α)
    (hn : hosts.Nodup) (hp1 : enum1.Perm hosts) (hp2 : ∀ l, (enum2 l).Perm l)
    (hrn : replicas.Nodup) (hpo : (order replicas).Perm replicas) :
    let r := clusterRequest w lo ro enum1 enum2 replicas order
    Bounded hosts 3 r.1 ∧ r.2.contacted.Nodup ∧ (∀ a ∈ r.2.contacted, a ∈ replicas) ∧
    (r.1.contacted ++ r.2.contacted).length ≤ min 3 hosts.length + replicas.length ∧
    (r.2.contacted ≠ [] → r.1.result = some .ok) := by
  have hb := (locations_bounded lo hosts enum1 enum2 hn hp1 hp2).1
  unfold clusterRequest
  simp only []
  split
  · rename_i hok
    obtain ⟨k, hk⟩ := replicaPhase_sublist w ro (order replicas)
    refine ⟨hb, ?_, ?_, ?_, fun _ => hok⟩
    · rw [hk]; exact (List.take_sublist _ _).nodup (hpo.nodup_iff.mpr hrn)
    · intro a ha; rw [hk] at ha; exact hpo.mem_iff.mp (List.mem_of_mem_take ha)
    · show ((locations lo enum1 enum2).contacted ++ (replicaPhase w ro (order replicas)).contacted).length ≤ _
      rw [List.length_append, hk, List.length_take, hpo.length_eq]
      have := hb.atMost
      omega
  · refine ⟨hb, by simp, by simp, ?_, by simp⟩
    show ((locations lo enum1 enum2).contacted ++ ([] : List α)).length ≤ _
    have := hb.atMost
    simp; omega

/-- The property's literal bound for such a request: at most three distinct hosts in total, all from
the client's host list.  REFUTED: the replicas are further hosts (known finding
`blobclient-request-visits-replicas`). -/
def cluster_request_target : Prop :=
  ∀ (w : Walk) (lo ro : Nat → Nat → Outcome) (hosts replicas : List Nat), hosts.Nodup → replicas.Nodup →
    let r := clusterRequest w lo ro hosts id replicas id
    (r.1.contacted ++ r.2.contacted).eraseDups.length ≤ 3 ∧ ∀ a ∈ r.2.contacted, a ∈ hosts

theorem not_cluster_request_target : ¬ cluster_request_target := by
  intro h
  have := h .all (fun _ _ => .ok) (fun _ _ => .ok) [1, 2, 3] [4, 5, 6] (by decide) (by decide)
  exact absurd this.1 (by decide)

/-! ### regression witness: the behaviour before the fix (Sample returned the receiver) -/

/-- with `return s` a request against four failing hosts visits all four — the bound of three fails;
this is the defect repaired by the `fix:` commit recorded in known/C25.json. -/
theorem receiver_sample_unbounded :
    (locationsWith sampleReceiver (fun _ (_ : Nat) => .netErr) [1, 2, 3, 4] id).contacted.length = 4 ∧
    (clusterDoWith sampleReceiver (fun _ (_ : Nat) => .netErr) [1, 2, 3, 4] id).contacted.length = 4 ∧
    (sampleReceiver 3 [1, 2, 3, 4]).length ≠ min 3 4 := by decide

/-! ### non-vacuity -/
example : sample 3 [10, 20, 30, 40, 50] = [10, 20, 30] := by decide
example : sample 3 [10, 20] = [10, 20] := by decide
example : sample 0 [10, 20] = [] := by decide
example : (locations (fun i (_ : Nat) => if i = 2 then .ok else .otherErr) [5, 6, 7, 8] List.reverse).contacted = [7, 6, 5] := by decide
example : (clusterDo (fun _ (a : Nat) => if a = 6 then .otherErr else .netErr) [5, 6, 7, 8] List.reverse)
    = { contacted := [7, 6], failed := [7], result := some .otherErr } := by decide
example : (clusterDoOnce (fun _ (_ : Nat) => .netErr) [5, 6, 7, 8] id).contacted = [5] := by decide

end KrakenModel.Spec.C25
