import KrakenModel.Util.LTS
import KrakenModel.Model.OriginWB
import KrakenModel.Proof.C31
import KrakenModel.Proof.C30Live
import KrakenModel.Proof.RetryLift
import KrakenModel.Proof.C31Live
/-
  C31  An acknowledged origin upload reaches the backend before local deletion.
  Statements are about `Model.OriginWB` (commit / conflict path, writeBack, write-back executor,
  flag-respecting deletions, forced cleanup, restarts) composed with the retry manager of C30.
  A history is any list of atomic steps: it interleaves the steps of any number of commits (also
  of the same blob, under one or several namespaces), executor runs with reachable or unreachable
  backends, deletions, forced cleanups (whole or split at Manager.Find), poller / worker steps and
  restarts.

  The code violates the full statement in two ways (both reproduced on the real origin server by the
  harness on every run, see known/C31.json); the model is faithful to that, the full statement is
  refuted by two independent witnesses and the strongest true statement is proved.
-/
namespace KrakenModel.Spec.C31
open KrakenModel KrakenModel.OriginWB
open KrakenModel.Retry (Key)

/-- the safety half of the property: every acknowledged upload is in the backend of its namespace,
or the blob is still in the cache, protected by the persist flag, with its write-back task stored -/
def Safe (dig : Key → Digest) (s : State) : Prop := ∀ k ∈ s.acked, Safe1 dig s k

instance (dig : Key → Digest) (s : State) : Decidable (Safe dig s) := by unfold Safe; exact inferInstance

/-- an acknowledged upload that can never reach its backend any more: not there, and no task left -/
def Lost (s : State) (k : Key) : Prop := k ∈ s.acked ∧ k ∉ s.backend ∧ ¬ stored s k

instance (s : State) (k : Key) : Decidable (Lost s k) := by unfold Lost; exact inferInstance

/-- **C31, full statement (refuted below).** -/
def written_back_before_deletion_target : Prop :=
  ∀ (dig : Key → Digest) (cfg : Retry.Config) (ops : List Op), Safe dig (run dig cfg ops)

def cfg1 : Retry.Config := { capIn := 4, capRe := 4, nIn := 4, nRe := 4, retryInterval := 0 }

/-- Witness 1 (one blob, one namespace): a forced cleanup looks for write-back tasks (Manager.Find)
before the commit has added its task, and clears the flag and deletes the file after the commit was
acknowledged; the task then finds no file and is dropped. -/
def raceHistory : List Op :=
  [.upload 0 0, .wbStep 0,            -- file in cache, persist flag set
   .fcBegin 0,                        -- forced cleanup: flag set, no task found ("leaked file")
   .wbStep 0, .wbStep 0, .wbStep 0, .wbStep 0,   -- Add, send, metainfo, acknowledged
   .fcFinish 0 [],                    -- … clears the flag, deletes the file
   .retry (.take .inc), .exec 0 true] -- the task runs: file missing, dropped

/-- Witness 2 (no forced cleanup, no race): the same blob acknowledged under two namespaces with
different backends; the first finished task clears the one persist flag, an ordinary deletion removes
the file, the second task is dropped. `dig k = k / 2`: keys 0 and 1 are the same blob. -/
def sharedHistory : List Op :=
  [.upload 0 0, .wbStep 0, .wbStep 0, .wbStep 0, .wbStep 0, .wbStep 0, .retry (.take .inc),
   .upload 1 0, .wbStep 1, .wbStep 1, .wbStep 1, .wbStep 1, .wbStep 1, .retry (.take .inc),
   .exec 1 false,                     -- namespace 1's backend is unreachable: task 1 stays, failed
   .exec 0 true,                      -- task 0 written back: the shared persist flag is cleared
   .delete 0,                         -- any flag-respecting deletion now removes the file
   .retry (.advance 1), .retry .pollFetch, .retry .pollMark, .retry .pollEnq, .retry (.take .ret),
   .exec 1 true]                      -- task 1 retried: file missing, dropped

/-- Witness 3: even an *unsplit* forced cleanup that runs while a commit is between its flag and its
Add breaks the invariant — it deletes flag and file ("leaked file"); when the blob comes back into the
cache (a retried or concurrent upload, an internal transfer) before the commit's metainfo step, the
commit is acknowledged for a file without persist flag.  The design's "near miss saved because
Generate fails" is not always saved. -/
def unsplitHistory : List Op :=
  [.upload 0 0, .wbStep 0,            -- commit: file in cache, flag set, Add not yet called
   .fcAtomic 0 [],                    -- whole forced cleanup: flag, no task: clears the flag, deletes the file
   .fetch 0,                          -- the blob is cached again (no flag)
   .wbStep 0, .wbStep 0, .wbStep 0, .wbStep 0]   -- Add, send, metainfo OK, acknowledged

theorem unsplit_cleanup_breaks_safe :
    ¬ Safe id (run id cfg1 unsplitHistory) ∧ 0 ∈ (run id cfg1 unsplitHistory).acked ∧
    0 ∉ (run id cfg1 unsplitHistory).persist ∧ 0 ∈ (run id cfg1 unsplitHistory).cache := by decide

theorem unsplit_cleanup_then_deleted_loses_upload :
    Lost (run id cfg1 (unsplitHistory ++ [.delete 0, .retry (.take .inc), .exec 0 true])) 0 := by decide

theorem race_loses_upload : Lost (run id cfg1 raceHistory) 0 := by decide
theorem shared_loses_upload : Lost (run (· / 2) cfg1 sharedHistory) 1 := by decide

theorem not_written_back_before_deletion : ¬ written_back_before_deletion_target := by
  intro h
  have := h id cfg1 raceHistory
  revert this
  decide

def NoFC : Op → Prop
  | .fcBegin _ | .fcFinish _ _ | .fcAtomic _ _ => False
  | _ => True

instance (o : Op) : Decidable (NoFC o) := by cases o <;> simp only [NoFC] <;> exact inferInstance

/-- also refuted for histories without any forced cleanup (and without any race) -/
theorem not_written_back_before_deletion_shared :
    ¬ (∀ (dig : Key → Digest) (ops : List Op), (∀ o ∈ ops, NoFC o) → Safe dig (run dig cfg1 ops)) := by
  intro h
  have := h (· / 2) sharedHistory (by decide)
  revert this
  decide

/-- histories that respect the hypotheses of the partial theorem at every step -/
def WF (dig : Key → Digest) (cfg : Retry.Config) : List Op → Prop :=
  Sys.WFHist ⟨init cfg, step dig⟩ (pre dig) (init cfg)

instance (dig : Key → Digest) (cfg : Retry.Config) (ops : List Op) : Decidable (WF dig cfg ops) := by
  unfold WF; exact inferInstance

theorem inv_always (dig : Key → Digest) (hinj : ∀ k k', dig k = dig k' → k = k') (cfg : Retry.Config)
    (ops : List Op) (hw : WF dig cfg ops) : Inv dig (run dig cfg ops) := by
  have := Sys.runFrom_inv_pre ⟨init cfg, step dig⟩ (pre dig) (Inv dig)
    (fun s a h hp => step_inv dig hinj s a h hp) ops (init cfg)
    ⟨Retry.good_init cfg, by simp [init], by simp [init], rfl⟩ hw
  simpa [Sys.runFrom, run] using this

/-- **C31 (1), strongest true safety statement.**  If every blob is uploaded under one namespace only
(`dig` injective) and forced cleanups are not split and never run while a write-back call for the
same blob is in flight, then after every history — any interleaving of commits (including repeated
and conflicting ones), executor runs with any backend outages, flag-respecting deletions, forced
cleanups, poller / worker steps and restarts — every acknowledged upload is in its backend or still
has its file, its persist flag and its stored write-back task. -/
theorem written_back_before_deletion_partial (dig : Key → Digest)
    (hinj : ∀ k k', dig k = dig k' → k = k') (cfg : Retry.Config) (ops : List Op) (hw : WF dig cfg ops) :
    Safe dig (run dig cfg ops) :=
  (inv_always dig hinj cfg ops hw).acked

/-- **C31 (2)** Every deletion path is guarded: the flag-respecting deletion (periodic cleanup, LRU,
DELETE endpoint) removes a file only when its persist flag is not set … -/
theorem delete_respects_flag (dig : Key → Digest) (s : State) (d : Digest) (hd : d ∈ s.persist) :
    step dig s (.delete d) = s := by
  simp [step, hd]

/-- … and under the partial theorem's hypotheses a blob whose flag is not set has no acknowledged
upload waiting for write-back, so what deletion removes is already in the backend. -/
theorem unflagged_is_written_back (dig : Key → Digest) (s : State) (h : Safe dig s) (k : Key)
    (hk : k ∈ s.acked) (hf : dig k ∉ s.persist) : k ∈ s.backend := by
  rcases h k hk with h | ⟨_, h2, _⟩
  · exact h
  · exact absurd h2 hf

/-- **C31 (3)** the forced cleanup as a whole: after it, under the same hypotheses, every
acknowledged upload of the blob it removed is in the backend (it ran the write-back first). -/
theorem forced_cleanup_writes_back_first (dig : Key → Digest) (hinj : ∀ k k', dig k = dig k' → k = k')
    (s : State) (hi : Inv dig s) (d : Digest) (downs : List Key) (hq : ∀ t ∈ s.wb, dig t.key ≠ d)
    (k : Key) (hk : k ∈ s.acked) (hkd : dig k = d) (hgone : d ∉ (step dig s (.fcAtomic d downs)).cache) :
    k ∈ (step dig s (.fcAtomic d downs)).backend := by
  have hi' := step_inv dig hinj s (.fcAtomic d downs) hi (by simpa [pre] using hq)
  have hk' : k ∈ (step dig s (.fcAtomic d downs)).acked := by
    simp only [step]
    split
    · unfold fcRun
      split
      · split <;> exact hk
      · exact hk
    · exact hk
  rcases hi'.acked k hk' with h | ⟨h1, _, _⟩
  · exact h
  · exact absurd (hkd ▸ h1) hgone

/-! ### eventually in the backend -/

/-- the composite step that performs a retry-manager system step -/
def lift : Retry.Op → Op
  | .finish k _ => .exec k true
  | o => .retry o

theorem runExecutor_up_ok (dig : Key → Digest) (cache persist : List Digest) (backend : List Key) (t : Key) :
    (runExecutor dig cache persist backend t true).1 = true := by
  simp only [runExecutor]
  split
  · rfl
  · split <;> simp

theorem runExecutor_up_backend (dig : Key → Digest) (cache persist : List Digest) (backend : List Key) (t : Key)
    (hc : dig t ∈ cache) : t ∈ (runExecutor dig cache persist backend t true).2.1 := by
  simp only [runExecutor, hc, not_true_eq_false, if_false, if_true, Bool.true_and]
  split
  · rename_i h; simpa using h
  · exact (mem_ins _ _ _).mpr (Or.inl rfl)

/-- a lifted system step acts on the retry component exactly like the retry manager's own step and
touches neither the cache nor the acknowledgements; the backend only grows -/
theorem lift_step (dig : Key → Digest) (s : State) (o : Retry.Op) (ho : Retry.SysOp o) (hn : Retry.NoAdding s.r) :
    (step dig s (lift o)).r = Retry.step s.r o ∧ (step dig s (lift o)).cache = s.cache ∧
    (∀ x ∈ s.backend, x ∈ (step dig s (lift o)).backend) := by
  cases o <;> simp only [Retry.SysOp] at ho
  case finish k ok =>
    subst ho
    simp only [lift, step]
    cases hp : Retry.placeOf s.r.own k with
    | none => simp [Retry.step, Retry.stepO, hp]
    | some pl =>
      cases pl with
      | running p =>
        have hok := runExecutor_up_ok dig s.cache s.persist s.backend k
        obtain ⟨e1, _⟩ := runExecutor_spec dig s.cache s.persist s.backend k true
        refine ⟨?_, ?_, ?_⟩
        · show Retry.step s.r (.finish k (runExecutor dig s.cache s.persist s.backend k true).1) = _
          rw [hok]
        · rfl
        · exact e1
      | adding => simp [Retry.step, Retry.stepO, hp]
      | retrying => simp [Retry.step, Retry.stepO, hp]
      | queued p => simp [Retry.step, Retry.stepO, hp]
  case addEnq k =>
    have := (Retry.noAdding_step s.r (.addEnq k) hn (by simp [Retry.SysOp])).2 k rfl
    simp [lift, step, internalOp, this]
  all_goals simp [lift, step, internalOp]

theorem lift_run (dig : Key → Digest) (ops : List Retry.Op) (hs : ∀ o ∈ ops, Retry.SysOp o) (s : State)
    (hn : Retry.NoAdding s.r) :
    ((ops.map lift).foldl (step dig) s).r = ops.foldl Retry.step s.r ∧
    ((ops.map lift).foldl (step dig) s).cache = s.cache ∧
    (∀ x ∈ s.backend, x ∈ ((ops.map lift).foldl (step dig) s).backend) := by
  induction ops generalizing s with
  | nil => simp
  | cons o rest ih =>
    have ho := hs o (by simp)
    obtain ⟨a1, a2, a3⟩ := lift_step dig s o ho hn
    have hn' : Retry.NoAdding (step dig s (lift o)).r := by
      rw [a1]; exact (Retry.noAdding_step s.r o hn ho).1
    obtain ⟨b1, b2, b3⟩ := ih (fun o' h' => hs o' (List.mem_cons_of_mem _ h')) (step dig s (lift o)) hn'
    simp only [List.map_cons, List.foldl_cons]
    exact ⟨by rw [b1, a1], by rw [b2, a2], fun x hx => b3 x (a3 x hx)⟩

/-- **C31 (4) eventually in the backend, in the no-absorbing-state form.**  In every state satisfying the
invariant (hence after every history covered by the partial theorem), for every acknowledged upload
that is not yet in its backend there is a continuation — a process restart, then only the retry
manager's own steps and executor runs against a reachable backend — after which it is. -/
theorem eventually_in_backend (dig : Key → Digest) (s : State) (hi : Inv dig s) (hc : Retry.WFCfg s.r.cfg)
    (k : Key) (hk : k ∈ s.acked) (hnb : k ∉ s.backend) :
    ∃ cont : List Op, (∀ o ∈ cont, o = .restart ∨ (∃ r, o = .retry r) ∨ ∃ k', o = .exec k' true) ∧
      k ∈ (cont.foldl (step dig) s).backend := by
  rcases hi.acked k hk with h | ⟨hcache, _, hstored⟩
  · exact absurd h hnb
  -- restart: the manager is up, every row failed, nothing in flight
  let s1 := step dig s .restart
  have hr1 : s1.r = Retry.step (Retry.step s.r .crash) (.start []) := rfl
  have hgood : Retry.Good s1.r := by rw [hr1]; exact good_restart _ hi.good
  obtain ⟨hcfg1, hup, hown⟩ : s1.r.cfg = s.r.cfg ∧ s1.r.mode = .up ∧ s1.r.own = [] := by
    rw [hr1]; exact Retry.restart_facts s.r
  have hst1 : k ∈ Retry.keys s1.r.rows := by rw [hr1]; exact kept_restart _ k hstored
  obtain ⟨ops, hsys, p, hp⟩ := Retry.can_reach_exec s1.r hgood hup (hcfg1 ▸ hc) k hst1
  have hn1 : Retry.NoAdding s1.r := by intro e he; rw [hown] at he; cases he
  obtain ⟨l1, l2, l3⟩ := lift_run dig ops hsys s1 hn1
  refine ⟨.restart :: (ops.map lift ++ [.exec k true]), ?_, ?_⟩
  · intro o ho
    rcases List.mem_cons.mp ho with rfl | ho
    · exact Or.inl rfl
    · rcases List.mem_append.mp ho with ho | ho
      · obtain ⟨o', _, rfl⟩ := List.mem_map.mp ho
        cases o' <;> simp [lift]
      · simp at ho; subst ho; exact Or.inr (Or.inr ⟨k, rfl⟩)
  · simp only [List.foldl_cons, List.foldl_append, List.foldl_nil]
    show k ∈ (step dig ((ops.map lift).foldl (step dig) s1) (.exec k true)).backend
    have hrun : Retry.placeOf ((ops.map lift).foldl (step dig) s1).r.own k = some (.running p) := by
      rw [l1]; exact hp
    have hcache' : dig k ∈ ((ops.map lift).foldl (step dig) s1).cache := by
      rw [l2]; exact hcache
    simp only [step, hrun]
    exact runExecutor_up_backend dig _ _ _ k hcache'

/-- **C31 (4b) eventually in the backend, without a restart.**  In every state satisfying the invariant
in which the retry manager is running, for every acknowledged upload that is not yet in its backend
there is a continuation that consists only of steps the running system takes on its own — pending
writeBack calls finishing their channel send, poller / worker steps, clock ticks, executor runs against
a reachable backend — after which it is.  No process restart is needed: no such state is live-locked.
(`AddingOk`: an Add between its store call and its send belongs to a writeBack call parked there —
holds in every reachable state, `good_addingOk_run`.) -/
theorem eventually_in_backend_running (dig : Key → Digest) (s : State) (hi : Inv dig s) (ha : AddingOk s)
    (hc : Retry.WFCfg s.r.cfg) (hup : s.r.mode = .up) (k : Key) (hk : k ∈ s.acked) (hnb : k ∉ s.backend) :
    ∃ cont : List Op, (∀ o ∈ cont, (∃ x, o = .wbStep x) ∨ (∃ r, o = .retry r) ∨ ∃ k', o = .exec k' true) ∧
      k ∈ (cont.foldl (step dig) s).backend := by
  rcases hi.acked k hk with h | ⟨hcache, _, hstored⟩
  · exact absurd h hnb
  obtain ⟨ops, hsys, p, hp⟩ := Retry.can_reach_exec s.r hi.good hup hc k hstored
  obtain ⟨l1, l2, _, l4⟩ := liftRun_spec dig ops hsys s hi.good ha
  refine ⟨liftRun dig ops s ++ [.exec k true], ?_, ?_⟩
  · intro o ho
    rcases List.mem_append.mp ho with ho | ho
    · exact l4 o ho
    · simp at ho; subst ho; exact Or.inr (Or.inr ⟨k, rfl⟩)
  · simp only [List.foldl_append, List.foldl_cons, List.foldl_nil]
    have hrun : Retry.placeOf ((liftRun dig ops s).foldl (step dig) s).r.own k = some (.running p) := by
      rw [l1]; exact hp
    have hcache' : dig k ∈ ((liftRun dig ops s).foldl (step dig) s).cache := by
      rw [l2]; exact hcache
    simp only [step, hrun]
    exact runExecutor_up_backend dig _ _ _ k hcache'

/-- the same for the states reached by the histories of the partial theorem -/
theorem eventually_in_backend_no_restart (dig : Key → Digest) (hinj : ∀ k k', dig k = dig k' → k = k')
    (cfg : Retry.Config) (hc : Retry.WFCfg cfg) (ops : List Op) (hw : WF dig cfg ops)
    (hup : (run dig cfg ops).r.mode = .up) (k : Key) (hk : k ∈ (run dig cfg ops).acked)
    (hnb : k ∉ (run dig cfg ops).backend) :
    ∃ cont : List Op, (∀ o ∈ cont, (∃ x, o = .wbStep x) ∨ (∃ r, o = .retry r) ∨ ∃ k', o = .exec k' true) ∧
      k ∈ (run dig cfg (ops ++ cont)).backend := by
  have hcfg : (run dig cfg ops).r.cfg = cfg := run_cfg dig cfg ops
  obtain ⟨cont, h1, h2⟩ := eventually_in_backend_running dig (run dig cfg ops) (inv_always dig hinj cfg ops hw)
    (good_addingOk_run dig cfg ops).2 (by rw [hcfg]; exact hc) hup k hk hnb
  exact ⟨cont, h1, by simpa [run, List.foldl_append] using h2⟩

-- non-vacuity of (4b): an acknowledged upload waiting in the incoming channel while another writeBack call
-- is parked between its Add's store call and its send (manager running, no restart in the continuation)
def parkedHistory : List Op :=
  [.upload 0 0, .wbStep 0, .wbStep 0, .wbStep 0, .wbStep 0, .wbStep 0, .upload 1 0, .wbStep 1, .wbStep 1]
example : WF id cfg1 parkedHistory := by decide
example : (run id cfg1 parkedHistory).acked = [0] ∧ (run id cfg1 parkedHistory).backend = [] ∧
    (run id cfg1 parkedHistory).r.mode = .up ∧
    Retry.placeOf (run id cfg1 parkedHistory).r.own 1 = some .adding ∧
    (run id cfg1 parkedHistory).wb = [⟨1, 0, .enq⟩] := by decide

-- non-vacuity: an ordinary history (upload, failed write-back while the backend is down, deletion
-- refused, forced cleanup that cannot write back, restart, retry, write-back, deletion) is covered by
-- the partial theorem and ends with the blob in the backend and out of the cache
def okHistory : List Op :=
  [.upload 0 0, .wbStep 0, .wbStep 0, .wbStep 0, .wbStep 0, .wbStep 0, .retry (.take .inc),
   .exec 0 false, .delete 0, .fcAtomic 0 [0], .restart, .retry (.advance 1), .retry .pollFetch,
   .retry .pollMark, .retry .pollEnq, .retry (.take .ret), .exec 0 true, .delete 0]
example : WF id cfg1 okHistory := by decide
example : (run id cfg1 okHistory).acked = [0] ∧ (run id cfg1 okHistory).backend = [0] ∧
    (run id cfg1 okHistory).cache = [] := by decide
example : (run id cfg1 (okHistory.take 10)).cache = [0] ∧ (run id cfg1 (okHistory.take 10)).persist = [0] := by decide
-- the near miss of the design: a whole forced cleanup between the flag and the Add deletes the file,
-- and the commit is then not acknowledged (metainfo generation fails)
example : (run id cfg1 [.upload 0 0, .wbStep 0, .fcAtomic 0 [], .wbStep 0, .wbStep 0, .wbStep 0, .wbStep 0]).acked = [] := by decide

end KrakenModel.Spec.C31
