import KrakenModel.Util.LTS
import KrakenModel.Model.Retry
import KrakenModel.Proof.C30
import KrakenModel.Proof.C30Live
import KrakenModel.Proof.C30Fair
import KrakenModel.Proof.C30FairEx
/-
  C30  Retried tasks run until they succeed, across failures and restarts.
  Statements are about `Model.Retry` (lib/persistedretry.manager over the writeback /
  tagreplication task tables), which the correspondence check ties to the real manager running on
  an on-disk SQLite database.  A history is any list of the model's atomic steps: it interleaves
  concurrent Add callers, the retry poller, the workers, the clock, crashes and restarts at the
  granularity of single store calls and channel operations; operations that are not enabled are
  no-ops, so *every* list is a history.
-/
namespace KrakenModel.Spec.C30
open KrakenModel KrakenModel.Retry

def sys (cfg : Config) : Sys State Op := { init := init cfg, step := step }

/-- **C30 (0)** The ownership invariant holds after every history: every task that is `pending` in
the table is held by exactly one live goroutine or channel (an Add caller about to send, the poller
about to send, a channel buffer, a worker executing it), no task is held twice, and the poller's
fetched list consists of distinct rows that are still `failed`.  After a crash nothing is held. -/
theorem good_always (cfg : Config) (ops : List Op) : Good ((sys cfg).run ops) :=
  Sys.run_inv (sys cfg) Good (good_init cfg) (fun s a h => step_good s a h) ops

/-- channel buffers never exceed their capacity, worker pools never exceed their size -/
theorem bounded_always (cfg : Config) (ops : List Op) : Bounded ((sys cfg).run ops) :=
  Sys.run_inv (sys cfg) Bounded (by intro p; simp [sys, init, queue, running, withTag])
    (fun s a h => step_bounded s a h) ops

/-- **C30 (1)** A task leaves the persistent table only through a *successful* execution of that
very task by a worker that was executing it — or, for the tag-replication table, through the
start-up purge of tasks whose destination is no longer configured (`invalid`), which only happens
while the process is down.  Executor failures, full queues, crashes, polls never remove a row. -/
theorem removed_only_by_success (s : State) (o : Op) (k : Key)
    (hk : stored s k) (hl : ¬ stored (step s o) k) :
    (o = .finish k true ∧ ∃ p, placeOf s.own k = some (.running p)) ∨
    (∃ inv, o = .start inv ∧ k ∈ inv ∧ s.mode = .down) :=
  step_keys_lost s o k hk hl

/-- history form: if the start-ups of a history purge nothing, a task stored at some point of the
history and absent at its end was executed successfully in between -/
theorem removed_only_by_success_hist (s : State) (ops : List Op) (k : Key)
    (hnp : ∀ o ∈ ops, ∀ inv, o = .start inv → k ∉ inv)
    (hk : stored s k) (hl : ¬ stored ((sys s.cfg).runFrom s ops) k) : .finish k true ∈ ops := by
  induction ops generalizing s with
  | nil => exact absurd hk hl
  | cons o rest ih =>
    simp only [Sys.runFrom, List.foldl_cons, sys] at hl
    by_cases hmid : stored (step s o) k
    · have := ih (step s o) (fun o' ho' => hnp o' (List.mem_cons_of_mem _ ho')) hmid
        (by simpa [Sys.runFrom, sys] using hl)
      exact List.mem_cons_of_mem _ this
    · rcases removed_only_by_success s o k hk hmid with ⟨rfl, _⟩ | ⟨inv, rfl, hin, _⟩
      · exact List.mem_cons_self
      · exact absurd hin (hnp _ List.mem_cons_self inv rfl)

/-- **C30 (2)** Adding a task that is already stored has no effect at all: the state is unchanged
(nothing is inserted, enqueued or executed because of it) and the call reports success
(`dup`, the code's "No-op on duplicate tasks") or `closed`. -/
theorem add_existing_noop (s : State) (k : Key) (d : Nat) (pl : List Nat) (hk : stored s k) :
    step s (.addBegin k d pl) = s ∧ (out s (.addBegin k d pl) = .dup ∨ out s (.addBegin k d pl) = .closed) := by
  have hh : hasKey s.rows k = true := (hasKey_iff _ _).mpr hk
  simp only [step, out, stepO]
  cases s.mode <;> simp [hh]

/-- **C30 (3)** An accepted task is stored: `Add` on a running manager either finds the task already
stored or stores it (as `pending` when it is ready, `failed` when it is delayed). -/
theorem add_accepted_stored (s : State) (k : Key) (d : Nat) (pl : List Nat) (hup : s.mode = .up) :
    stored (step s (.addBegin k d pl)) k := by
  simp only [step, stepO, hup, stored]
  by_cases hh : hasKey s.rows k = true
  · simpa [hh] using (hasKey_iff _ _).mp hh
  · by_cases hd : d = 0 <;> simp [hh, hd, keys, newRow]

/-- **C30 (3′) the executor is handed the task that was added.**  A newly accepted task is stored with
exactly the payload columns (digest, dependencies, delay, …) it was added with … -/
theorem added_payload_is_stored (s : State) (k : Key) (d : Nat) (pl : List Nat) (hup : s.mode = .up)
    (hn : ¬ stored s k) : payloadOf (step s (.addBegin k d pl)).rows k = some pl :=
  add_sets_payload s k d pl hup hn

/-- … and no step rewrites them while the task stays stored: status updates, poll passes, overflows,
executor failures, crashes and restarts touch status / failures / last_attempt only.  So what
`GetPending` / `GetFailed` hand to the executor on any retry is the task that was added. -/
theorem payload_never_rewritten (s : State) (ops : List Op) (k : Key) (pl : List Nat)
    (h : payloadOf s.rows k = some pl)
    (hst : ∀ n, stored ((ops.take n).foldl step s) k) : payloadOf (ops.foldl step s).rows k = some pl := by
  induction ops generalizing s with
  | nil => exact h
  | cons o rest ih =>
    have h1 : stored (step s o) k := by simpa using hst 1
    apply ih (step s o) (payload_stable s o k pl h h1)
    intro n
    simpa using hst (n + 1)

/-- **C30 (4)** No store call of the manager ever misses its row (`ErrTaskNotFound` is unreachable),
after every history. -/
theorem never_not_found (cfg : Config) (ops : List Op) (o : Op) :
    out ((sys cfg).run ops) o ≠ .errNotFound :=
  out_ne_notFound _ o (good_always cfg ops)

/-- **C30 (5a)** Restart: when the process starts, every stored task that survives the purge is
`failed` — the status from which the poller retries — and nothing is lost. -/
theorem start_marks_failed (s : State) (inv : List Key) (hd : s.mode = .down) :
    (∀ k, stored s k → k ∉ inv → stored (step s (.start inv)) k) ∧
    (∀ r ∈ (step s (.start inv)).rows, r.status = .failed) ∧ (step s (.start inv)).mode = .up := by
  simp only [step, stepO, hd, stored, keys]
  refine ⟨?_, ?_, by simp⟩
  · intro k hk hni
    obtain ⟨r, hr, rfl⟩ := List.mem_map.mp hk
    refine List.mem_map.mpr ⟨if r.status = .pending then failRow s.now r else r, ?_, ?_⟩
    · exact List.mem_map.mpr ⟨r, by simp [hr, hni], rfl⟩
    · split <;> simp [failRow]
  · intro r' hr'
    obtain ⟨r, _, rfl⟩ := List.mem_map.mp hr'
    by_cases hp : r.status = .pending
    · simp [hp, failRow]
    · simp only [hp, if_false]; cases hs : r.status <;> simp_all

/-- **C30 (5b)** Executor failure and queue overflow leave the task stored and `failed` (retryable):
a failed execution of a running task marks it failed and keeps it. -/
theorem failure_keeps_task (s : State) (g : Good s) (k : Key) (p : Pool)
    (h : placeOf s.own k = some (.running p)) :
    isFailed (step s (.finish k false)).rows k ∧ out s (.finish k false) = .markedFailed := by
  have hk := placeOf_some_mem h
  have hh := g.owned_hasKey hk
  simp only [step, out, stepO, h, hh, if_true]
  refine ⟨(isFailed_markFailed _ _ _ _).mpr (Or.inl ⟨rfl, (hasKey_iff _ _).mp hh⟩), ?_⟩
  simp

/-- **C30 (0) the configuration the manager runs with.**  Whatever the user wrote (unset fields are 0),
after `applyDefaults` both worker pools have at least one worker — in particular the retry pool, through
which every task goes that failed once, overflowed, was delayed or was pending at a restart — and, outside
`Testing` mode, both channels have room: the effective configuration satisfies the hypothesis `WFCfg` of
the liveness theorems below.  (The harness compares the real `applyDefaults` result with this one.) -/
theorem defaults_give_workers (raw : Config) (testing : Bool) :
    1 ≤ (applyDefaults raw testing).nIn ∧ 1 ≤ (applyDefaults raw testing).nRe := by
  simp only [applyDefaults]
  constructor <;> split <;> omega

theorem defaults_wf (raw : Config) : WFCfg (applyDefaults raw false) := by
  have h := defaults_give_workers raw false
  refine ⟨?_, ?_, h.1, h.2⟩ <;> simp only [applyDefaults] <;> split <;> simp_all <;> omega

/-- **C30 (6) no absorbing non-retry state.**  After every history that leaves the manager running,
for every stored task there is a continuation without faults (no crash, no close, no restart; every
execution in it succeeds) after which a worker is executing the task; one more successful execution
step removes it.  Needs only non-degenerate configuration (buffers and pools of size ≥ 1). -/
theorem no_absorbing_state (cfg : Config) (hc : WFCfg cfg) (ops : List Op) (k : Key)
    (hup : ((sys cfg).run ops).mode = .up) (hk : stored ((sys cfg).run ops) k) :
    ∃ cont : List Op, (∀ o ∈ cont, NoFault o) ∧
      ¬ stored ((sys cfg).run (ops ++ cont ++ [.finish k true])) k ∧
      out ((sys cfg).run (ops ++ cont)) (.finish k true) = .removed := by
  have hcfg : ∀ (l : List Op), ((sys cfg).run l).cfg = cfg := by
    intro l
    refine Sys.run_inv (sys cfg) (fun s => s.cfg = cfg) rfl ?_ l
    intro s a h
    have : (step s a).cfg = s.cfg := by
      cases a <;> simp only [step, stepO, enqueue] <;> (repeat' split) <;> rfl
    exact this.trans h
  obtain ⟨cont, hnf, p, hp⟩ := can_reach_exec ((sys cfg).run ops) (good_always cfg ops) hup
    (by rw [hcfg]; exact hc) k hk
  refine ⟨cont, fun o ho => (hnf o ho).noFault, ?_, ?_⟩
  · have := (finish_ok_removes _ k p hp).1
    simpa [Sys.run, sys, List.foldl_append, stored] using this
  · have := (finish_ok_removes _ k p hp).2
    simpa [Sys.run, sys, List.foldl_append] using this

/-- the same from a crashed / closed manager: restart first -/
theorem no_absorbing_state_down (cfg : Config) (hc : WFCfg cfg) (ops : List Op) (k : Key)
    (hd : ((sys cfg).run ops).mode = .down) (hk : stored ((sys cfg).run ops) k) :
    ∃ cont : List Op, (∀ o ∈ cont, NoFault o) ∧
      ¬ stored ((sys cfg).run (ops ++ [.start []] ++ cont ++ [.finish k true])) k := by
  have h1 := start_marks_failed ((sys cfg).run ops) [] hd
  have hup : ((sys cfg).run (ops ++ [.start []])).mode = .up := by
    simpa [Sys.run, sys, List.foldl_append] using h1.2.2
  have hk' : stored ((sys cfg).run (ops ++ [.start []])) k := by
    have := h1.1 k hk (by simp)
    simpa [Sys.run, sys, List.foldl_append] using this
  obtain ⟨cont, hnf, hgone, _⟩ := no_absorbing_state cfg hc (ops ++ [.start []]) k hup hk'
  exact ⟨cont, hnf, hgone⟩

/-- **C30 (6c)** the same from *every* reachable state, whatever the manager's mode — running, closed
(`Close()` returned and the process lives on: pending rows sit in channel buffers nobody reads), or down:
one process exit and restart, then a continuation without faults, after which the task has been executed
successfully.  No reachable state is absorbing. -/
theorem no_absorbing_state_any_mode (cfg : Config) (hc : WFCfg cfg) (ops : List Op) (k : Key)
    (hk : stored ((sys cfg).run ops) k) :
    ∃ cont : List Op, (∀ o ∈ cont, NoFault o) ∧
      ¬ stored ((sys cfg).run (ops ++ [.crash, .start []] ++ cont ++ [.finish k true])) k := by
  have hstep : ∀ (s : State) (o : Op), stored s k → (∀ p, o ≠ .finish k true ∨ placeOf s.own k ≠ some (.running p)) →
      (∀ inv, o = .start inv → k ∉ inv) → stored (step s o) k := by
    intro s o h h1 h2
    apply Classical.byContradiction
    intro hl
    rcases step_keys_lost s o k h hl with ⟨rfl, p, hp⟩ | ⟨inv, rfl, hin, _⟩
    · rcases h1 p with h | h
      · exact h rfl
      · exact h hp
    · exact h2 inv rfl hin
  have hk1 : stored (step ((sys cfg).run ops) .crash) k :=
    hstep _ _ hk (fun p => Or.inl (by simp)) (by intro inv h; cases h)
  have hk2 : stored (step (step ((sys cfg).run ops) .crash) (.start [])) k :=
    hstep _ _ hk1 (fun p => Or.inl (by simp)) (by intro inv h; injection h with h; subst h; simp)
  have hrun : (sys cfg).run (ops ++ [.crash, .start []]) = step (step ((sys cfg).run ops) .crash) (.start []) := by
    simp [Sys.run, sys, List.foldl_append]
  have hup : ((sys cfg).run (ops ++ [.crash, .start []])).mode = .up := by
    rw [hrun]
    cases hm : ((sys cfg).run ops).mode <;> simp [step, stepO, hm]
  obtain ⟨cont, hnf, hgone, _⟩ := no_absorbing_state cfg hc (ops ++ [.crash, .start []]) k hup (by rw [hrun]; exact hk2)
  exact ⟨cont, hnf, hgone⟩

/-- **C30 (7) the fairness-conditioned eventuality**, for every infinite schedule continuing any
history that leaves the manager running: if from then on the environment is quiet (no crash, close
or restart; no new tasks; executions succeed; no channel overflows — `FairQuiet.quiet`) and the
schedule is fair (fetch / examine / send steps of the poller, takes of both worker pools and pending
Add sends keep being scheduled, every execution terminates, time diverges), then every stored task
is, at some point, executed successfully by a worker and thereby leaves the table. -/
theorem eventually_executed_successfully (cfg : Config) (hc : WFCfg cfg) (ops : List Op) (k : Key)
    (hup : ((sys cfg).run ops).mode = .up) (hk : stored ((sys cfg).run ops) k)
    (sched : Nat → Op) (fair : FairQuiet ((sys cfg).run ops) sched) :
    ∃ n, stored (traj ((sys cfg).run ops) sched n) k ∧ sched n = .finish k true ∧
      (∃ p, placeOf (traj ((sys cfg).run ops) sched n).own k = some (.running p)) ∧
      ¬ stored (traj ((sys cfg).run ops) sched (n + 1)) k := by
  have hcfg : ((sys cfg).run ops).cfg = cfg := by
    refine Sys.run_inv (sys cfg) (fun s => s.cfg = cfg) rfl ?_ ops
    intro s a h
    have : (step s a).cfg = s.cfg := by
      cases a <;> simp only [step, stepO, enqueue] <;> (repeat' split) <;> rfl
    exact this.trans h
  obtain ⟨n, hn⟩ := fair_quiet_drains _ (good_always cfg ops) hup (by rw [hcfg]; exact hc) sched fair k hk
  -- the first step at which the task is gone
  have first : ∀ n, ¬ stored (traj ((sys cfg).run ops) sched n) k →
      ∃ m, stored (traj ((sys cfg).run ops) sched m) k ∧ ¬ stored (traj ((sys cfg).run ops) sched (m + 1)) k := by
    intro n
    induction n with
    | zero => intro h; exact absurd hk h
    | succ n ih =>
      intro h
      by_cases hs : stored (traj ((sys cfg).run ops) sched n) k
      · exact ⟨n, hs, h⟩
      · exact ih hs
  obtain ⟨m, hm1, hm2⟩ := first n hn
  rcases removed_only_by_success _ (sched m) k hm1 hm2 with ⟨he, hp⟩ | ⟨inv, he, _⟩
  · exact ⟨m, hm1, he, hp, hm2⟩
  · have := fair.quiet m
    rw [he] at this
    exact absurd this (by simp [Quiet])

-- non-vacuity: a non-trivial history (overflow, executor failure, crash in the middle of an
-- execution, restart, retry) ends with an empty table exactly after the successful executions
def demoCfg : Config := { capIn := 1, capRe := 1, nIn := 1, nRe := 1, retryInterval := 1 }
def demo : List Op :=
  [.addBegin 1 0 [], .addEnq 1, .take .inc, .addBegin 2 0 [], .addEnq 2, .addBegin 3 0 [], .addEnq 3,  -- 3 overflows
   .finish 1 false, .take .inc, .crash, .start [], .advance 2, .pollFetch, .pollMark, .pollEnq,
   .take .ret, .pollMark, .pollEnq, .pollMark, .pollEnq, .finish 1 true]
example : WFCfg demoCfg := by decide
example : ((sys demoCfg).run demo).rows.map (·.key) = [2, 3] := by decide
example : ((sys demoCfg).run demo).rows.map (fun r => (r.key, r.status, r.failures)) =
    [(2, .pending, 1), (3, .failed, 2)] := by decide
example : ((sys demoCfg).run (demo.take 7)).rows.map (·.status) = [.pending, .pending, .failed] := by decide
example : stored ((sys demoCfg).run demo) 2 ∧ ¬ stored ((sys demoCfg).run demo) 1 := by decide

-- one incoming worker, everything else unset: 1 incoming worker, 2 retry workers, channels of 1000
example : applyDefaults { capIn := 0, capRe := 0, nIn := 1, nRe := 0, retryInterval := 1 } false =
    { capIn := 1000, capRe := 1000, nIn := 1, nRe := 2, retryInterval := 1 } := by decide

-- a closed manager in a live process holding a pending row in a channel nobody reads (6c applies)
example : ((sys demoCfg).run [.addBegin 1 0 [], .addEnq 1, .close]).mode = .closing ∧
    ((sys demoCfg).run [.addBegin 1 0 [], .addEnq 1, .close]).rows.map (·.status) = [.pending] ∧
    stored ((sys demoCfg).run [.addBegin 1 0 [], .addEnq 1, .close]) 1 := by decide

-- non-vacuity of the fairness theorem's hypotheses: a stored failed task and a concrete round-robin
-- schedule (advance, fetch, examine, send, take, take, finish) that is fair and quiet
example : FairQuiet FairEx.s0 FairEx.sched := FairEx.demo_fair
example : ∃ n, 1 ∉ keys (traj FairEx.s0 FairEx.sched n).rows :=
  fair_quiet_drains _ FairEx.demo_stored.2.2.1 FairEx.demo_stored.2.1 FairEx.demo_stored.2.2.2 _
    FairEx.demo_fair 1 FairEx.demo_stored.1

end KrakenModel.Spec.C30
