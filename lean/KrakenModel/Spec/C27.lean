import KrakenModel.Util.LTS
import KrakenModel.Model.PeerStore
import KrakenModel.Proof.C27
/-
  C27  The in-memory peer store returns fresh, distinct announcements.

  Statements are about `Model.PeerStore`, which the correspondence check ties to
  tracker/peerstore.LocalStore.  A history is a `List Act`: every sequence of the atomic steps of
  announcements (updCall/updA/updB), lookups (getA/getB), clock advances (adv) and the lock sections
  of the two cleanup passes (ceBegin/ceScan/ceSweep/ceEnd, cgBegin/cgCheck/cgDelete/cgEnd) by any
  number of threads — i.e. every interleaving, of any length.  `ceScan` carries an arbitrary index
  list, so the theorems do not depend on what the read-locked scan collected.
  `last` is the ghost record of the most recent announcement (applied `UpdatePeer`) per torrent and
  peer; "fresh" means `now < expiresAt`.  Assumption built into the model: an announcement's expiry is
  computed from a clock value read inside the group's lock section (`updB`), as in the code; the
  harness checks this by moving the clock between one announcer's clock read and another announcement.
-/
namespace KrakenModel.Spec.C27
open KrakenModel KrakenModel.PeerStore KrakenModel.Proof.C27

def sys (ttl : Nat) : Sys State Act := { init := init ttl, step := step }

/-- the invariant bundle of `Proof.C27` holds after every history -/
theorem store_good (ttl : Nat) (acts : List Act) : Good ((sys ttl).run acts) :=
  Sys.run_inv (sys ttl) Good (good_init ttl) (fun s a h => step_good s a h) acts

/-- **C27 (1)** In every group object (live or deleted) the peer list has no two entries with the
same peer id and the key set of the peer map is exactly the set of ids in the list. -/
theorem list_map_bijection (ttl : Nat) (acts : List Act) (gid : Nat) (g : Group)
    (hg : ((sys ttl).run acts).heap[gid]? = some g) :
    (g.list.map (·.id)).Nodup ∧ g.keys.Perm (g.list.map (·.id)) := by
  obtain ⟨h1, h2, h3⟩ := (store_good ttl acts).wf gid g hg
  exact ⟨h1, (List.perm_ext_iff_of_nodup h2 h1).mpr h3⟩

/-- **C27 (2)** Every entry stored for a torrent is that peer's most recent announcement for the
torrent. -/
theorem stored_is_latest (ttl : Nat) (acts : List Act) (h : Hash) (e : Entry)
    (he : e ∈ peersOf ((sys ttl).run acts) h) : alook ((sys ttl).run acts).last (h, e.id) = some e := by
  have G := store_good ttl acts
  unfold peersOf at he
  cases hlk : alook ((sys ttl).run acts).index h with
  | none => simp [hlk] at he
  | some gid =>
    obtain ⟨g, h1, h2, h3⟩ := G.idxSound h gid hlk
    simp only [hlk, h1] at he
    exact h2 ▸ G.latest gid g h1 h3 e he

/-- **C27 (3)** An announcement is never forgotten while it is fresh: after every history, the most
recent announcement of a peer for a torrent is stored as long as `now < expiresAt`. -/
theorem fresh_never_forgotten (ttl : Nat) (acts : List Act) (h : Hash) (id : Pid) (e : Entry)
    (hl : alook ((sys ttl).run acts).last (h, id) = some e) (hf : ((sys ttl).run acts).now < e.exp) :
    e ∈ peersOf ((sys ttl).run acts) h := by
  obtain ⟨gid, g, h1, h2, h3⟩ := (store_good ttl acts).notLost h id e hl hf
  simp [peersOf, h1, h2, h3]

/-- **C27 (3')** Step form: whatever atomic step any thread takes in any reachable state, a stored
entry either stays stored, or has been superseded by a newer announcement of the same peer, or its
expiry time has been reached (`expiresAt ≤ now`). -/
theorem removed_only_expired (ttl : Nat) (acts : List Act) (a : Act) (h : Hash) (e : Entry)
    (he : e ∈ peersOf ((sys ttl).run acts) h) :
    e ∈ peersOf (step ((sys ttl).run acts) a) h ∨
    (∃ e', alook (step ((sys ttl).run acts) a).last (h, e.id) = some e' ∧ e' ≠ e) ∨
    e.exp ≤ (step ((sys ttl).run acts) a).now := by
  have hl := stored_is_latest ttl acts h e he
  obtain ⟨e', he'⟩ := last_mono ((sys ttl).run acts) a (h, e.id) e hl
  have hs' : step ((sys ttl).run acts) a = (sys ttl).run (acts ++ [a]) := by
    simp [Sys.run, sys, List.foldl_append]
  rw [hs'] at he' ⊢
  by_cases hee : e' = e
  · subst hee
    by_cases hf : ((sys ttl).run (acts ++ [a])).now < e'.exp
    · left; exact fresh_never_forgotten ttl (acts ++ [a]) h e'.id e' he' hf
    · right; right; omega
  · right; left; exact ⟨e', he', hee⟩

/-- state form of what `GetPeers(h, n)` returns (the read section `getB`, for every permutation drawn
by `rand.Perm`): at most `n` peers, no peer twice, each a stored entry of its group. The last clause
is deliberately weak — in the state in which the lookup reads, an entry is the peer's most recent
announcement *or* the lookup raced with the deletion of its group (then everything it returns had
expired, and a newer announcement may already exist in a new group). The statement of the property
("each reflecting that peer's most recent announcement") is `get_linearizable` below; this theorem
provides the size and distinctness clauses. -/
theorem get_spec (ttl : Nat) (acts : List Act) (t : Nat) (perm : List Nat) (r : List Info)
    (h : Hash) (gid : Nat) (n : Int)
    (ht : tget ((sys ttl).run acts) t = .getHold h gid n)
    (hr : getOut ((sys ttl).run acts) t perm = some r) :
    (r.length : Int) ≤ max n 0 ∧ (r.map (·.id)).Nodup ∧
    ∀ x, x ∈ r → ∃ g e, ((sys ttl).run acts).heap[gid]? = some g ∧ e ∈ g.list ∧ x = e.info ∧
      (alook ((sys ttl).run acts).last (h, e.id) = some e ∨
       (g.deleted = true ∧ e.exp < ((sys ttl).run acts).now)) := by
  have G := store_good ttl acts
  generalize (sys ttl).run acts = s at *
  unfold getOut at hr
  rw [ht] at hr
  simp only at hr
  obtain ⟨g, hgid, hh⟩ := G.thrGet t h gid n ht
  rw [hgid] at hr
  simp only at hr
  split at hr
  · rename_i hperm
    cases hr
    have hp := List.isPerm_iff.mp hperm
    refine ⟨(pick_length g.list n perm).1, pick_ids_nodup g.list n perm (G.wf gid g hgid).1 hp, ?_⟩
    intro x hx
    obtain ⟨e, he, hxe⟩ := pick_mem g.list n perm x hx
    refine ⟨g, e, hgid, he, hxe, ?_⟩
    cases hd : g.deleted with
    | false => left; exact hh ▸ G.latest gid g hgid hd e he
    | true =>
      right
      refine ⟨rfl, ?_⟩
      have := G.expLe gid g hgid e he
      have := G.delExp gid g hgid hd
      omega
  · cases hr

/-- **C27 (5)** A lookup that asks for at least as many peers as its (live) group stores returns
every fresh most-recent announcement of the torrent. -/
theorem get_returns_all_fresh (ttl : Nat) (acts : List Act) (t : Nat) (perm : List Nat) (r : List Info)
    (h : Hash) (gid : Nat) (n : Int) (g : Group)
    (ht : tget ((sys ttl).run acts) t = .getHold h gid n)
    (hgid : ((sys ttl).run acts).heap[gid]? = some g) (hlive : g.deleted = false)
    (hn : (g.list.length : Int) ≤ n)
    (hr : getOut ((sys ttl).run acts) t perm = some r)
    (id : Pid) (e : Entry) (hl : alook ((sys ttl).run acts).last (h, id) = some e)
    (hf : ((sys ttl).run acts).now < e.exp) : e.info ∈ r := by
  have G := store_good ttl acts
  generalize (sys ttl).run acts = s at *
  unfold getOut at hr
  rw [ht] at hr
  simp only [hgid] at hr
  split at hr
  · rename_i hperm
    cases hr
    obtain ⟨gid', g', h1, h2, h3⟩ := G.notLost h id e hl hf
    obtain ⟨_, hx, hh⟩ := G.thrGet t h gid n ht
    rw [hgid] at hx; cases hx
    have := G.idxComplete gid g hgid hlive
    rw [hh, h1] at this; cases this
    rw [hgid] at h2; cases h2
    exact pick_all g.list n perm hn (List.isPerm_iff.mp hperm) e h3
  · cases hr

theorem run_snoc (ttl : Nat) (l : List Act) (a : Act) :
    (sys ttl).run (l ++ [a]) = step ((sys ttl).run l) a := by
  simp [Sys.run, sys, List.foldl_append]

/-- **C27 (4)** (the required form of "returns the most recent announcements") `GetPeers` is linearisable with respect to "most recent announcement": whenever a
lookup is about to read its group (`getHold`), there is a moment `k` of the history, not before the
lookup looked the group up (the thread has been in this `getHold` ever since), at which the group
was the live group of the torrent, had exactly the list the lookup reads now, and every entry of
that list was the most recent announcement of its peer. -/
theorem get_linearizable (ttl : Nat) (acts : List Act) :
    ∀ (t : Nat) (h : Hash) (gid : Nat) (n : Int) (g : Group),
    tget ((sys ttl).run acts) t = .getHold h gid n → ((sys ttl).run acts).heap[gid]? = some g →
    ∃ k, k ≤ acts.length ∧
      (∀ j, k ≤ j → j ≤ acts.length → tget ((sys ttl).run (acts.take j)) t = .getHold h gid n) ∧
      alook ((sys ttl).run (acts.take k)).index h = some gid ∧
      (∃ gk, ((sys ttl).run (acts.take k)).heap[gid]? = some gk ∧ gk.list = g.list) ∧
      ∀ e, e ∈ g.list → alook ((sys ttl).run (acts.take k)).last (h, e.id) = some e := by
  generalize hm : acts.length = m
  induction m generalizing acts with
  | zero =>
    have : acts = [] := List.length_eq_zero_iff.mp hm
    subst this
    intro t h gid n g ht _
    simp [Sys.run, sys, init, tget, alook] at ht
  | succ m ih =>
    rcases List.eq_nil_or_concat acts with hnil | ⟨l, a, hl⟩
    · subst hnil; simp at hm
    · subst hl
      simp only [List.concat_eq_append] at *
      have hlen : l.length = m := by simpa using hm
      intro t h gid n g' ht' hg'
      have G' := store_good ttl (l ++ [a])
      have G := store_good ttl l
      have htake_le : ∀ j, j ≤ l.length → (l ++ [a]).take j = l.take j := by
        intro j hj; exact List.take_append_of_le_length hj
      have htake_all : (l ++ [a]).take (m + 1) = l ++ [a] := by
        apply List.take_of_length_le; simp [hlen]
      obtain ⟨gx, hgx, hhx⟩ := G'.thrGet t h gid n ht'
      rw [hg'] at hgx; cases hgx
      cases hd : g'.deleted with
      | false =>
        refine ⟨m + 1, Nat.le_refl _, ?_, ?_, ?_, ?_⟩
        · intro j h1 h2
          have : j = m + 1 := by omega
          subst this; rw [htake_all]; exact ht'
        · rw [htake_all]; exact hhx ▸ G'.idxComplete gid g' hg' hd
        · rw [htake_all]; exact ⟨g', hg', rfl⟩
        · rw [htake_all]; intro e he; exact hhx ▸ G'.latest gid g' hg' hd e he
      | true =>
        rw [run_snoc] at ht' hg'
        rcases getHold_entry _ a t h gid n ht' with hprev | ⟨hidx, hheap⟩
        · obtain ⟨g0, hg0, hh0⟩ := G.thrGet t h gid n hprev
          have hlist := deleted_list_stable _ a G gid g0 g' hg0 hg' hd
          cases hd0 : g0.deleted with
          | true =>
            obtain ⟨k, hk, hc, hi, ⟨gk, hgk, hgkl⟩, hlat⟩ := ih l hlen t h gid n g0 hprev hg0
            refine ⟨k, by omega, ?_, ?_, ?_, ?_⟩
            · intro j h1 h2
              by_cases hj : j ≤ l.length
              · rw [htake_le j hj]; exact hc j h1 (by omega)
              · have : j = m + 1 := by omega
                subst this; rw [htake_all, run_snoc]; exact ht'
            · rw [htake_le k (by omega)]; exact hi
            · rw [htake_le k (by omega)]; exact ⟨gk, hgk, hgkl.trans hlist.symm⟩
            · rw [htake_le k (by omega)]; intro e he; exact hlat e (hlist ▸ he)
          | false =>
            have htk : (l ++ [a]).take m = l := by
              rw [htake_le m (by omega), ← hlen, List.take_length]
            refine ⟨m, by omega, ?_, ?_, ?_, ?_⟩
            · intro j h1 h2
              by_cases hj : j = m
              · subst hj; rw [htk]; exact hprev
              · have : j = m + 1 := by omega
                subst this; rw [htake_all, run_snoc]; exact ht'
            · rw [htk]; exact hh0 ▸ G.idxComplete gid g0 hg0 hd0
            · rw [htk]; exact ⟨g0, hg0, hlist.symm⟩
            · rw [htk]; intro e he; exact hh0 ▸ G.latest gid g0 hg0 hd0 e (hlist ▸ he)
        · obtain ⟨g0, hg0, _, hd0⟩ := G.idxSound h gid hidx
          rw [hheap, hg0] at hg'; cases hg'
          rw [hd0] at hd; cases hd

/-- **C27 (6)** The write-locked sweep, for every collected index list: it keeps the two indexes in
bijection, removes nothing that is fresh (`now < expiresAt`) and adds nothing. -/
theorem sweep_safe (now : Nat) (l : List Entry) (k : List Pid) (flags : List Nat) (hw : WFLK (l, k)) :
    WFLK (sweep now l k flags) ∧ (∀ e, e ∈ (sweep now l k flags).1 → e ∈ l) ∧
    (∀ e, e ∈ l → now < e.exp → e ∈ (sweep now l k flags).1) := by
  obtain ⟨h1, h2, h3⟩ := sweep_spec now l k flags hw
  refine ⟨h1, h2, fun e he hf => ?_⟩
  rcases h3 e he with h | h
  · exact h
  · omega

/-! Non-vacuity: concrete interleavings (ttl 10; torrent 1; peers 1, 2). -/

def annA : Ann := ⟨1, 100, false⟩
def annB : Ann := ⟨2, 200, true⟩

/-- peers 1 and 2 announce at time 0; at time 11 the scan flags both; peer 1 re-announces between
the scan and the sweep; the sweep removes only peer 2 -/
def raceHist : List Act :=
  updateSeq 0 1 1 annA ++ updateSeq 0 1 2 annB ++ [.adv 11, .ceBegin, .ceScan 0 [0, 1]] ++
  updateSeq 0 1 1 annB ++ [.ceSweep, .ceEnd]

example : (peersOf ((sys 10).run raceHist) 1) = [⟨1, annB, 21⟩] := by decide
example : scanExact 11 [⟨1, annA, 10⟩, ⟨2, annB, 10⟩] = [0, 1] := by decide
-- without the re-announcement both are removed, and the group cleanup then deletes the group
example : (peersOf ((sys 10).run (updateSeq 0 1 1 annA ++ updateSeq 0 1 2 annB ++
    [.adv 11, .ceBegin, .ceScan 0 [0, 1], .ceSweep, .ceEnd])) 1) = [] := by decide
example : ((sys 10).run (updateSeq 0 1 1 annA ++ [.adv 11, .cgBegin, .cgCheck 1, .cgDelete, .cgEnd])).index = [] := by
  decide
-- an announcer that looked its group up before the group was deleted retries and is not lost
example : (peersOf ((sys 10).run (updateSeq 0 1 1 annA ++
    [.adv 11, .updCall 1 1 2 annB, .updA 1, .cgBegin, .cgCheck 1, .cgDelete, .cgEnd, .updB 1, .updA 1, .updB 1])) 1)
    = [⟨2, annB, 21⟩] := by decide
-- a lookup in progress returns two distinct peers
example : getOut ((sys 10).run (updateSeq 0 1 1 annA ++ updateSeq 0 1 2 annB ++ [.getA 3 1 5])) 3 [1, 0]
    = some [⟨2, 2, 200, false, true⟩, ⟨1, 1, 100, false, false⟩] := by decide

end KrakenModel.Spec.C27
