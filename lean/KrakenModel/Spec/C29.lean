import KrakenModel.Util.LTS
import KrakenModel.Model.Dedup
import KrakenModel.Proof.C29
/-
  C29  Request deduplication runs at most one execution per key.

  Statements are about `Model.Dedup` (RequestCache, IntervalTrap, Limiter of utils/dedup), each a
  small-step model in which every lock section of every caller is one atomic step; a history is any
  list of such steps by any number of threads together with clock advances, completions, failures
  and garbage collections — every interleaving, of any length.
  The Limiter is modelled as repaired (a caller whose task was garbage collected after it looked it
  up retries); `Lim.init false` is the code before the repair, for which the property fails
  (`not_limiter_exclusive_without_retry`).
-/
namespace KrakenModel.Spec.C29
open KrakenModel KrakenModel.Dedup KrakenModel.Proof.C29

/-! ## RequestCache -/

def rcSys (cfg : RC.Cfg) : Sys RC.State RC.Act := { init := RC.init cfg, step := RC.step }

theorem rc_good (cfg : RC.Cfg) (acts : List RC.Act) : RC.Good ((rcSys cfg).run acts) :=
  Sys.run_inv (rcSys cfg) RC.Good (RC.good_init cfg) (fun s a h => RC.step_good s a h) acts

/-- **C29 (1)** For any key at most one request execution is in flight, after every history. -/
theorem rc_one_in_flight (cfg : RC.Cfg) (acts : List RC.Act) : ((rcSys cfg).run acts).execs.Nodup :=
  (rc_good cfg acts).execsNodup

/-- a key is pending exactly while an execution of it is in flight or a `Start` that reserved it has
not yet got a worker / given up -/
theorem rc_pending_is_owned (cfg : RC.Cfg) (acts : List RC.Act) (id : Nat) :
    id ∈ ((rcSys cfg).run acts).pending ↔
      (id ∈ ((rcSys cfg).run acts).execs ∨ ∃ t, RC.Holds ((rcSys cfg).run acts) t id) := by
  have G := rc_good cfg acts
  constructor
  · exact G.owned id
  · rintro (h | ⟨t, h⟩)
    · exact G.execPending id h
    · exact (G.thrPending t id h).1

/-- **C29 (2)** While a key is pending, a further `Start` reports `ErrRequestPending`, runs nothing
and changes neither the pending set nor the executions (in every state). -/
theorem rc_pending_reported (s : RC.State) (t id : Nat) (hp : id ∈ s.pending) :
    RC.reserveOut s id = .pending ∧
    (RC.step s (.reserve t id)).pending = s.pending ∧ (RC.step s (.reserve t id)).execs = s.execs ∧
    RC.tget (RC.step s (.reserve t id)) t = RC.tget s t := by
  have ho : RC.reserveOut s id = .pending := by simp [RC.reserveOut, hp]
  refine ⟨ho, ?_⟩
  simp only [RC.step, RC.reserve]
  split
  · simp only [ho]; exact ⟨by trivial, by trivial, by trivial⟩
  · exact ⟨rfl, rfl, rfl⟩

/-- **C29 (3)** While the error of the last execution is cached and not expired (`now ≤ expiresAt`),
a `Start` for an idle key reports that error and runs nothing. -/
theorem rc_cached_error_reported (s : RC.State) (t id e exp : Nat) (hp : id ∉ s.pending)
    (he : alook s.errors id = some (e, exp)) (hfresh : s.now ≤ exp) :
    RC.reserveOut s id = .cached e ∧
    (RC.step s (.reserve t id)).pending = s.pending ∧ (RC.step s (.reserve t id)).execs = s.execs ∧
    RC.tget (RC.step s (.reserve t id)) t = RC.tget s t := by
  have hne : RC.expired s.now exp = false := by simp [RC.expired]; omega
  have hc : alook (RC.cleaned s) id = some (e, exp) := by
    unfold RC.cleaned
    split
    · exact alook_filter_keep s.errors _ id (e, exp) he (by simp [hne])
    · exact he
  have ho : RC.reserveOut s id = .cached e := by simp [RC.reserveOut, hp, hc, hne]
  refine ⟨ho, ?_⟩
  simp only [RC.step, RC.reserve]
  split
  · simp only [ho]; exact ⟨by trivial, by trivial, by trivial⟩
  · exact ⟨rfl, rfl, rfl⟩

/-- **C29 (4)** A `Start` that finds no free worker leaves nothing pending: after its `release`, the
key is not pending (after every history), and no execution was started for it. -/
theorem rc_busy_leaves_nothing_pending (cfg : RC.Cfg) (acts : List RC.Act) (t id : Nat)
    (ht : RC.tget ((rcSys cfg).run acts) t = .releasing id) :
    id ∉ (RC.step ((rcSys cfg).run acts) (.release t)).pending ∧
    id ∉ (RC.step ((rcSys cfg).run acts) (.release t)).execs := by
  have G := rc_good cfg acts
  generalize (rcSys cfg).run acts = s at *
  have hh : RC.Holds s t id := Or.inr ht
  simp only [RC.step, ht]
  constructor
  · intro hm
    have hm' : id ∈ s.pending.erase id := hm
    exact ((List.Nodup.mem_erase_iff G.pendNodup).mp hm').1 rfl
  · exact (G.thrPending t id hh).2

/-- the worker semaphore is respected -/
theorem rc_workers_bounded (cfg : RC.Cfg) (acts : List RC.Act) :
    RC.nworkers ((rcSys cfg).run acts) ≤ cfg.workers := by
  have h := (rc_good cfg acts).workersBound
  have hc : ((rcSys cfg).run acts).cfg = cfg := by
    apply Sys.run_inv (rcSys cfg) (fun s => s.cfg = cfg) rfl
    intro s a hs
    cases a <;> simp only [rcSys, RC.step, RC.reserve] <;> (repeat' split) <;> simp_all [RC.tset]
  rwa [hc] at h

/-! ## IntervalTrap -/

def itSys (interval start : Nat) : Sys IT.State IT.Act := { init := IT.init interval start, step := IT.step }

theorem it_good (interval start : Nat) (acts : List IT.Act) : IT.Good ((itSys interval start).run acts) :=
  Sys.run_inv (itSys interval start) IT.Good (IT.good_init interval start) (fun s a h => IT.step_good s a h) acts

/-- **C29 (5)** An interval trap runs its task at most once per interval: after every history (any
number of goroutines calling `Trap`, the clock advancing at any point, also while the task runs),
any two starts of the task are more than `interval` apart. -/
theorem it_once_per_interval (interval start : Nat) (acts : List IT.Act) :
    ((itSys interval start).run acts).runs.Pairwise
      (fun later earlier => earlier + ((itSys interval start).run acts).interval < later) :=
  (it_good interval start acts).spaced

/-! ## Limiter -/

def limSys (retry : Bool) : Sys Lim.State Lim.Act := { init := Lim.init retry, step := Lim.step }

theorem lim_good (acts : List Lim.Act) : Lim.Good ((limSys true).run acts) :=
  Sys.run_inv (limSys true) Lim.Good Lim.good_init (fun s a h => Lim.step_good s a h) acts

/-- **C29 (6)** Limiter (repaired): for every key at most one runner execution is in flight — for
every interleaving of callers, completions, clock advances and garbage collections. -/
theorem limiter_exclusive (acts : List Lim.Act) (t1 t2 k tk1 tk2 : Nat)
    (h1 : Lim.tget ((limSys true).run acts) t1 = .exec k tk1)
    (h2 : Lim.tget ((limSys true).run acts) t2 = .exec k tk2) : t1 = t2 := by
  have G := lim_good acts
  generalize (limSys true).run acts = s at *
  obtain ⟨a1, ha1, _, hd1⟩ := G.execRunning t1 k tk1 h1
  obtain ⟨a2, ha2, _, hd2⟩ := G.execRunning t2 k tk2 h2
  obtain ⟨b1, hb1, hk1⟩ := G.refs t1 k tk1 (Or.inr (Or.inr h1))
  obtain ⟨b2, hb2, hk2⟩ := G.refs t2 k tk2 (Or.inr (Or.inr h2))
  rw [ha1] at hb1; cases hb1
  rw [ha2] at hb2; cases hb2
  have i1 := G.idxComplete tk1 a1 ha1 hd1
  have i2 := G.idxComplete tk2 a2 ha2 hd2
  rw [hk1] at i1; rw [hk2, i1] at i2
  cases i2
  exact G.execUnique t1 t2 k k tk1 h1 h2

/-- **C29 (7)** While a run is in flight or its output is cached and not expired, a further caller
does not run the task again: it waits for the run, respectively gets the cached output. -/
theorem limiter_enter_no_rerun (s : Lim.State) (task : Lim.Task) (hd : task.deleted = false) :
    (task.running = true → Lim.enterOut s task ≠ .run) ∧
    (Lim.expired s.now task = false → Lim.enterOut s task = .cached task.output) := by
  constructor
  · intro hr
    unfold Lim.enterOut
    simp only [hd, hr]
    by_cases he : Lim.expired s.now task = true <;> simp [he]
  · intro he
    simp [Lim.enterOut, hd, he]

/-- a garbage-collected task is never used again by a caller that still holds it -/
theorem limiter_collected_task_retried (s : Lim.State) (task : Lim.Task) (hr : s.retry = true)
    (hd : task.deleted = true) : Lim.enterOut s task = .retry := by
  simp [Lim.enterOut, hr, hd]

/-- the schedule that broke the unrepaired Limiter: c0 looks its task up, the collector deletes it,
c1 creates a new task and starts the runner, c0 starts it on the stale task -/
def gcRace : List Lim.Act := [.call 0 7, .gc 7, .call 1 7, .enter 1, .enter 0]

/-- The code before the repair (`retry = false`) violates the property: two runs of one key in flight. -/
theorem not_limiter_exclusive_without_retry :
    ∃ acts t1 t2 k tk1 tk2, t1 ≠ t2 ∧ Lim.tget ((limSys false).run acts) t1 = .exec k tk1 ∧
      Lim.tget ((limSys false).run acts) t2 = .exec k tk2 :=
  ⟨gcRace, 0, 1, 7, 0, 1, by decide, by decide, by decide⟩

/-! Non-vacuity -/

-- with the repair the same schedule makes c0 retry and wait for c1's run
example : Lim.tget ((limSys true).run (gcRace ++ [.lookup 0, .enter 0])) 0 = .waiting 7 1 0 := by decide
example : Lim.tget ((limSys true).run (gcRace ++ [.lookup 0, .enter 0])) 1 = .exec 7 1 := by decide
-- a request cache history: a failed request is cached, then served from the cache, then re-run after expiry
def rcCfg : RC.Cfg := ⟨3, 1, 1, 1⟩
example : RC.reserveOut ((rcSys rcCfg).run [.reserve 0 5, .workerOk 0, .finishErr 5 9 false, .releaseWorker, .adv 3]) 5
    = .cached 9 := by decide
example : RC.reserveOut ((rcSys rcCfg).run [.reserve 0 5, .workerOk 0, .finishErr 5 9 false, .releaseWorker, .adv 4]) 5
    = .ok := by decide
example : RC.reserveOut ((rcSys rcCfg).run [.reserve 0 5, .workerOk 0]) 5 = .pending := by decide
-- no free worker: the second start gives up and leaves nothing pending
example : ((rcSys rcCfg).run [.reserve 0 5, .workerOk 0, .reserve 1 6, .workerBusy 1, .release 1]).pending = [5] := by decide
-- interval trap: two goroutines see `ready`, only one runs the task
example : ((itSys 2 0).run [.adv 3, .check 0, .check 1, .fireBegin 0, .fireEnd 0, .fireBegin 1]).runs = [3] := by decide

end KrakenModel.Spec.C29
