import KrakenModel.Util.LTS
import KrakenModel.Model.Dedup
import KrakenModel.Proof.C29
/-
  C29  Request deduplication runs at most one execution per key.

  Statements are about `Model.Dedup` (RequestCache, IntervalTrap, Limiter of utils/dedup), each a
  small-step model in which every lock section of every caller is one atomic step; a history is any
  list of such steps by any number of threads together with clock advances, completions, failures
  and garbage collections — every interleaving, of any length.
  The Limiter is modelled as repaired (a caller whose task was garbage collected after it looked it
  up retries); `Lim.init false` is the code before the repair, for which the property fails
  (`not_limiter_exclusive_without_retry`).
-/
namespace KrakenModel.Spec.C29
open KrakenModel KrakenModel.Dedup KrakenModel.Proof.C29

/-! ## RequestCache -/

def rcSys (cfg : RC.Cfg) : Sys RC.State RC.Act := { init := RC.init cfg, step := RC.step }

theorem rc_good (cfg : RC.Cfg) (acts : List RC.Act) : RC.Good ((rcSys cfg).run acts) :=
  Sys.run_inv (rcSys cfg) RC.Good (RC.good_init cfg) (fun s a h => RC.step_good s a h) acts

/-- **C29 (1)** For any key at most one request execution is in flight, after every history. -/
theorem rc_one_in_flight (cfg : RC.Cfg) (acts : List RC.Act) : ((rcSys cfg).run acts).execs.Nodup :=
  (rc_good cfg acts).execsNodup

/-- the Refresher (lib/blobrefresh) starts its downloads through one RequestCache with `id := digest`
(whatever the namespace; tied by the `br` harness): at most one download per blob is in flight -/
theorem refresher_one_download_per_blob (cfg : RC.Cfg) (acts : List RC.Act) (digest : Nat) :
    ((rcSys cfg).run acts).execs.count digest ≤ 1 :=
  List.nodup_iff_count.mp (rc_one_in_flight cfg acts) digest

/-- a key is pending exactly while an execution of it is in flight or a `Start` that reserved it has
not yet got a worker / given up -/
theorem rc_pending_is_owned (cfg : RC.Cfg) (acts : List RC.Act) (id : Nat) :
    id ∈ ((rcSys cfg).run acts).pending ↔
      (id ∈ ((rcSys cfg).run acts).execs ∨ ∃ t, RC.Holds ((rcSys cfg).run acts) t id) := by
  have G := rc_good cfg acts
  constructor
  · exact G.owned id
  · rintro (h | ⟨t, h⟩)
    · exact G.execPending id h
    · exact (G.thrPending t id h).1

/-- **C29 (2)** step form (any state): while a key is pending, a further `Start` reports
`ErrRequestPending`, runs nothing and changes neither the pending set nor the executions. The history
form, which says when a key *is* pending, is `rc_in_flight_reported_pending`. -/
theorem rc_pending_reported (s : RC.State) (t id : Nat) (hp : id ∈ s.pending) :
    RC.reserveOut s id = .pending ∧
    (RC.step s (.reserve t id)).pending = s.pending ∧ (RC.step s (.reserve t id)).execs = s.execs ∧
    RC.tget (RC.step s (.reserve t id)) t = RC.tget s t := by
  have ho : RC.reserveOut s id = .pending := by simp [RC.reserveOut, hp]
  refine ⟨ho, ?_⟩
  simp only [RC.step, RC.reserve]
  split
  · simp only [ho]; exact ⟨by trivial, by trivial, by trivial⟩
  · exact ⟨rfl, rfl, rfl⟩

/-- **C29 (3)** step form (any state, about whatever the error map holds): an unexpired entry of the
error map (`now ≤ expiresAt`) for an idle key is reported and nothing runs. That the map holds the error
of the last execution is `rc_last_error_served`. -/
theorem rc_cached_error_reported (s : RC.State) (t id e exp : Nat) (hp : id ∉ s.pending)
    (he : alook s.errors id = some (e, exp)) (hfresh : s.now ≤ exp) :
    RC.reserveOut s id = .cached e ∧
    (RC.step s (.reserve t id)).pending = s.pending ∧ (RC.step s (.reserve t id)).execs = s.execs ∧
    RC.tget (RC.step s (.reserve t id)) t = RC.tget s t := by
  have hne : RC.expired s.now exp = false := by simp [RC.expired]; omega
  have hc : alook (RC.cleaned s) id = some (e, exp) := by
    unfold RC.cleaned
    split
    · exact alook_filter_keep s.errors _ id (e, exp) he (by simp [hne])
    · exact he
  have ho : RC.reserveOut s id = .cached e := by simp [RC.reserveOut, hp, hc, hne]
  refine ⟨ho, ?_⟩
  simp only [RC.step, RC.reserve]
  split
  · simp only [ho]; exact ⟨by trivial, by trivial, by trivial⟩
  · exact ⟨rfl, rfl, rfl⟩

/-- **C29 (3')** history form: after every history, while the error of the *last execution* of a key
(ghost `lastErr`, set when that execution failed, cleared when a later one succeeded) is not expired
and the key is idle, a `Start` reports exactly that error and runs nothing — the periodic cleanup and
other keys' errors never hide it. -/
theorem rc_last_error_served (cfg : RC.Cfg) (acts : List RC.Act) (t id e exp : Nat)
    (hl : alook ((rcSys cfg).run acts).lastErr id = some (e, exp))
    (hfresh : ((rcSys cfg).run acts).now ≤ exp) (hp : id ∉ ((rcSys cfg).run acts).pending) :
    RC.reserveOut ((rcSys cfg).run acts) id = .cached e ∧
    (RC.step ((rcSys cfg).run acts) (.reserve t id)).execs = ((rcSys cfg).run acts).execs := by
  have ha : RC.ErrAgree ((rcSys cfg).run acts) :=
    Sys.run_inv (rcSys cfg) RC.ErrAgree (RC.errAgree_init cfg) (fun s a h => RC.step_errAgree s a h) acts
  have := rc_cached_error_reported ((rcSys cfg).run acts) t id e exp hp (ha id e exp hl hfresh) hfresh
  exact ⟨this.1, this.2.2.1⟩

/-- history form of (2): after every history a key with an execution in flight, or reserved by a
`Start` that has no worker yet, is reported pending -/
theorem rc_in_flight_reported_pending (cfg : RC.Cfg) (acts : List RC.Act) (id : Nat)
    (h : id ∈ ((rcSys cfg).run acts).execs ∨ ∃ t, RC.Holds ((rcSys cfg).run acts) t id) :
    RC.reserveOut ((rcSys cfg).run acts) id = .pending := by
  have hp := (rc_pending_is_owned cfg acts id).mpr h
  simp [RC.reserveOut, hp]

/-- **C29 (4)** A `Start` that finds no free worker leaves nothing pending: after its `release`, the
key is not pending (after every history), and no execution was started for it. -/
theorem rc_busy_leaves_nothing_pending (cfg : RC.Cfg) (acts : List RC.Act) (t id : Nat)
    (ht : RC.tget ((rcSys cfg).run acts) t = .releasing id) :
    id ∉ (RC.step ((rcSys cfg).run acts) (.release t)).pending ∧
    id ∉ (RC.step ((rcSys cfg).run acts) (.release t)).execs := by
  have G := rc_good cfg acts
  generalize (rcSys cfg).run acts = s at *
  have hh : RC.Holds s t id := Or.inr ht
  simp only [RC.step, ht]
  constructor
  · intro hm
    have hm' : id ∈ s.pending.erase id := hm
    exact ((List.Nodup.mem_erase_iff G.pendNodup).mp hm').1 rfl
  · exact (G.thrPending t id hh).2

/-- the worker semaphore is respected -/
theorem rc_workers_bounded (cfg : RC.Cfg) (acts : List RC.Act) :
    RC.nworkers ((rcSys cfg).run acts) ≤ cfg.workers := by
  have h := (rc_good cfg acts).workersBound
  have hc : ((rcSys cfg).run acts).cfg = cfg := by
    apply Sys.run_inv (rcSys cfg) (fun s => s.cfg = cfg) rfl
    intro s a hs
    cases a <;> simp only [rcSys, RC.step, RC.reserve] <;> (repeat' split) <;> simp_all [RC.tset]
  rwa [hc] at h

/-! ## IntervalTrap -/

def itSys (interval start : Nat) : Sys IT.State IT.Act := { init := IT.init interval start, step := IT.step }

theorem it_good (interval start : Nat) (acts : List IT.Act) : IT.Good ((itSys interval start).run acts) :=
  Sys.run_inv (itSys interval start) IT.Good (IT.good_init interval start) (fun s a h => IT.step_good s a h) acts

/-- **C29 (5)** An interval trap runs its task at most once per interval: after every history (any
number of goroutines calling `Trap`, the clock advancing at any point, also while the task runs),
any two starts of the task are more than `interval` apart. -/
theorem it_once_per_interval (interval start : Nat) (acts : List IT.Act) :
    ((itSys interval start).run acts).runs.Pairwise
      (fun later earlier => earlier + ((itSys interval start).run acts).interval < later) :=
  (it_good interval start acts).spaced

/-! ## Limiter -/

def limSys (retry : Bool) : Sys Lim.State Lim.Act := { init := Lim.init retry, step := Lim.step }

theorem lim_good (acts : List Lim.Act) : Lim.Good ((limSys true).run acts) :=
  Sys.run_inv (limSys true) Lim.Good Lim.good_init (fun s a h => Lim.step_good s a h) acts

/-- **C29 (6)** Limiter (repaired): for every key at most one runner execution is in flight — for
every interleaving of callers, completions, clock advances and garbage collections. -/
theorem limiter_exclusive (acts : List Lim.Act) (t1 t2 k tk1 tk2 : Nat)
    (h1 : Lim.tget ((limSys true).run acts) t1 = .exec k tk1)
    (h2 : Lim.tget ((limSys true).run acts) t2 = .exec k tk2) : t1 = t2 := by
  have G := lim_good acts
  generalize (limSys true).run acts = s at *
  obtain ⟨a1, ha1, _, hd1⟩ := G.execRunning t1 k tk1 h1
  obtain ⟨a2, ha2, _, hd2⟩ := G.execRunning t2 k tk2 h2
  obtain ⟨b1, hb1, hk1⟩ := G.refs t1 k tk1 (Or.inr (Or.inr h1))
  obtain ⟨b2, hb2, hk2⟩ := G.refs t2 k tk2 (Or.inr (Or.inr h2))
  rw [ha1] at hb1; cases hb1
  rw [ha2] at hb2; cases hb2
  have i1 := G.idxComplete tk1 a1 ha1 hd1
  have i2 := G.idxComplete tk2 a2 ha2 hd2
  rw [hk1] at i1; rw [hk2, i1] at i2
  cases i2
  exact G.execUnique t1 t2 k k tk1 h1 h2

/-- **C29 (7)** step form, per task object (any state): while a run is in flight or its output is cached
and not expired, a caller entering on that object does not run the task again. The key-level history
form is `limiter_no_rerun_unexpired`; exclusion of concurrent runs per key is `limiter_exclusive`. -/
theorem limiter_enter_no_rerun (s : Lim.State) (task : Lim.Task) (hd : task.deleted = false) :
    (task.running = true → Lim.enterOut s task ≠ .run) ∧
    (Lim.expired s.now task = false → Lim.enterOut s task = .cached task.output) := by
  constructor
  · intro hr
    unfold Lim.enterOut
    simp only [hd, hr]
    by_cases he : Lim.expired s.now task = true <;> simp [he]
  · intro he
    simp [Lim.enterOut, hd, he]

/-- **C29 (7')** history and key level: after every history, if *any* task object of key `k` holds an
unexpired output, a caller of `k` that enters `getOutput` — whichever task object it holds — does
not start the runner (it gets the cached output, or retries because its object was collected). -/
theorem limiter_no_rerun_unexpired (acts : List Lim.Act) (t k tk : Nat)
    (ht : Lim.tget ((limSys true).run acts) t = .hold k tk)
    (hu : ∃ (i : Nat) (task : Lim.Task), ((limSys true).run acts).heap[i]? = some task ∧ task.key = k ∧
      Lim.expired ((limSys true).run acts).now task = false) :
    ∀ k' tk', Lim.tget (Lim.step ((limSys true).run acts) (.enter t)) t ≠ .exec k' tk' := by
  have G := lim_good acts
  have D : Lim.DelExpired ((limSys true).run acts) := by
    have : Lim.Good ((limSys true).run acts) ∧ Lim.DelExpired ((limSys true).run acts) :=
      Sys.run_inv (limSys true) (fun s => Lim.Good s ∧ Lim.DelExpired s) ⟨Lim.good_init, Lim.delExpired_init⟩
        (fun s a h => ⟨Lim.step_good s a h.1, Lim.step_delExpired s a h.1 h.2⟩) acts
    exact this.2
  generalize (limSys true).run acts = s at *
  obtain ⟨i, live, hi, hk, hne⟩ := hu
  -- the unexpired task is not deleted, hence the live task of k
  have hlive : live.deleted = false := by
    cases hd : live.deleted with
    | false => rfl
    | true => rw [(D i live hi hd).1] at hne; cases hne
  have hidx := G.idxComplete i live hi hlive
  obtain ⟨mine, hm, hmk⟩ := G.refs t k tk (Or.inl ht)
  intro k' tk' hex
  simp only [Lim.step, ht, hm] at hex
  by_cases hsame : tk = i
  · subst hsame
    rw [hi] at hm; cases hm
    have : Lim.enterOut s live = .cached live.output := by simp [Lim.enterOut, hlive, hne]
    simp only [this] at hex
    rw [Lim.tget_tset] at hex; simp at hex
  · -- a different object of the same key: it is deleted, the caller retries
    have hdel : mine.deleted = true := by
      cases hd : mine.deleted with
      | true => rfl
      | false =>
        have := G.idxComplete tk mine hm hd
        rw [hmk, ← hk, hidx] at this
        cases this; exact absurd rfl hsame
    have : Lim.enterOut s mine = .retry := by simp [Lim.enterOut, G.retryOn, hdel]
    simp only [this] at hex
    rw [Lim.tget_tset] at hex; simp at hex

/-- a garbage-collected task is never used again by a caller that still holds it -/
theorem limiter_collected_task_retried (s : Lim.State) (task : Lim.Task) (hr : s.retry = true)
    (hd : task.deleted = true) : Lim.enterOut s task = .retry := by
  simp [Lim.enterOut, hr, hd]

/-- the schedule that broke the unrepaired Limiter: c0 looks its task up, the collector deletes it,
c1 creates a new task and starts the runner, c0 starts it on the stale task -/
def gcRace : List Lim.Act := [.call 0 7, .gc 7, .call 1 7, .enter 1, .enter 0]

/-- The code before the repair (`retry = false`) violates the property: two runs of one key in flight. -/
theorem not_limiter_exclusive_without_retry :
    ∃ acts t1 t2 k tk1 tk2, t1 ≠ t2 ∧ Lim.tget ((limSys false).run acts) t1 = .exec k tk1 ∧
      Lim.tget ((limSys false).run acts) t2 = .exec k tk2 :=
  ⟨gcRace, 0, 1, 7, 0, 1, by decide, by decide, by decide⟩

/-! Non-vacuity -/

-- with the repair the same schedule makes c0 retry and wait for c1's run
example : Lim.tget ((limSys true).run (gcRace ++ [.lookup 0, .enter 0])) 0 = .waiting 7 1 0 := by decide
example : Lim.tget ((limSys true).run (gcRace ++ [.lookup 0, .enter 0])) 1 = .exec 7 1 := by decide
-- a request cache history: a failed request is cached, then served from the cache, then re-run after expiry
def rcCfg : RC.Cfg := ⟨3, 1, 1, 1⟩
example : RC.reserveOut ((rcSys rcCfg).run [.reserve 0 5, .workerOk 0, .finishErr 5 9 false, .releaseWorker, .adv 3]) 5
    = .cached 9 := by decide
example : RC.reserveOut ((rcSys rcCfg).run [.reserve 0 5, .workerOk 0, .finishErr 5 9 false, .releaseWorker, .adv 4]) 5
    = .ok := by decide
example : RC.reserveOut ((rcSys rcCfg).run [.reserve 0 5, .workerOk 0]) 5 = .pending := by decide
-- no free worker: the second start gives up and leaves nothing pending
example : ((rcSys rcCfg).run [.reserve 0 5, .workerOk 0, .reserve 1 6, .workerBusy 1, .release 1]).pending = [5] := by decide
-- interval trap: two goroutines see `ready`, only one runs the task
example : ((itSys 2 0).run [.adv 3, .check 0, .check 1, .fireBegin 0, .fireEnd 0, .fireBegin 1]).runs = [3] := by decide

end KrakenModel.Spec.C29
