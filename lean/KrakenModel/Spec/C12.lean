import KrakenModel.Model.FileModel
import KrakenModel.Proof.C12
/-
  C12  In-memory blob buffers behave like ordinary files.

  `osStep` is the operating-system file (POSIX semantics, several descriptors on one file);
  `bufStep` = lib/store/base.BufferReadWriter, `memStep` = lib/store/memory.File, both AS REPAIRED
  (zero-length writes no longer grow the buffer).  Observations are byte counts, bytes, offsets and
  sizes; error kinds (io.EOF next to a short read) are not part of the property.
  The theorems hold for every operation sequence of any length, any offsets and payloads.
-/
namespace KrakenModel.Spec.C12
open KrakenModel.FileModel KrakenModel.Proof.C12

/-- the property's domain for one operation in state `s` (as seen by the OS file):
    non-negative positional offsets, seeks that land within the written extent, no eviction -/
def InDomain (s : State) : Op → Prop
  | .evict => False
  | .readAt _ _ off => 0 ≤ off
  | .writeAt _ _ off => 0 ≤ off
  | .seek h w d =>
    match s.content, s.offs[h]? with
    | some c, some o =>
      match seekTarget c o w d with
      | some t => t ≤ c.length
      | none => True
    | _, _ => True
  | _ => True

instance (s : State) (op : Op) : Decidable (InDomain s op) := by
  cases op <;> simp only [InDomain] <;> try exact inferInstance
  all_goals (split <;> try exact inferInstance)
  all_goals (split <;> exact inferInstance)

/-- every operation of the history is in the domain, evaluated along the OS file's run -/
def DomRun : State → List Op → Prop
  | _, [] => True
  | s, op :: rest => InDomain s op ∧ DomRun (osStep s op).1 rest

instance decDomRun : ∀ (s : State) (ops : List Op), Decidable (DomRun s ops)
  | _, [] => isTrue trivial
  | s, op :: rest =>
    match (inferInstance : Decidable (InDomain s op)), decDomRun (osStep s op).1 rest with
    | isTrue h1, isTrue h2 => isTrue ⟨h1, h2⟩
    | isFalse h1, _ => isFalse (fun h => h1 h.1)
    | _, isFalse h2 => isFalse (fun h => h2 h.2)

/-- **C12 (1, one step)** BufferReadWriter does exactly what the OS file does — every operation,
every offset (negative ones are refused by both), seeks beyond the end included. -/
theorem buf_step_eq (s : State) (c : Bytes) (hc : s.content = some c) (op : Op) : bufStep s op = osStep s op := by
  unfold bufStep osStep
  simp only [hc]
  cases op with
  | write h p => cases ho : s.offs[h]? <;> simp [ho, bufWriteAt_eq_pwrite]
  | writeAt h p off => cases ho : s.offs[h]? <;> simp [ho, bufWriteAt_eq_pwrite]
  | read h n =>
    cases ho : s.offs[h]? with
    | none => simp [ho]
    | some o =>
      simp only [ho]
      by_cases hge : o ≥ c.length
      · simp only [hge, if_true, pread_eof c o n hge, List.length_nil, Nat.add_zero, setOff_self s.offs h o ho]
        cases s; simp_all
      · simp [hge, pread]
  | readAt h n off =>
    cases ho : s.offs[h]? with
    | none => simp [ho]
    | some o =>
      simp only [ho]
      by_cases hneg : off < 0
      · simp [hneg]
      · simp only [hneg, if_false]
        by_cases hge : off.toNat ≥ c.length
        · simp [hge, pread_eof c off.toNat n hge]
        · simp [hge, pread]
  | seek h w d => rfl
  | size => rfl
  | evict => rfl

theorem os_keeps_content (s : State) (c : Bytes) (hc : s.content = some c) (op : Op) :
    ∃ c', (osStep s op).1.content = some c' := by
  unfold osStep
  simp only [hc]
  cases op with
  | write h p => cases ho : s.offs[h]? <;> simp [ho, hc]
  | writeAt h p off =>
    cases ho : s.offs[h]? with
    | none => simp [ho, hc]
    | some o => simp only [ho]; split <;> simp [hc]
  | read h n => cases ho : s.offs[h]? <;> simp [ho, hc]
  | readAt h n off =>
    cases ho : s.offs[h]? with
    | none => simp [ho, hc]
    | some o => simp only [ho]; split <;> simp [hc]
  | seek h w d =>
    cases ho : s.offs[h]? with
    | none => simp [ho, hc]
    | some o =>
      simp only [ho]
      split
      · simp [hc]
      · split <;> simp [hc]
  | size => simp [hc]
  | evict => simp [hc]

/-- **C12 (1)** for EVERY sequence of writes, positional writes, reads, positional reads, seeks and
size queries, a BufferReadWriter returns the same counts, bytes, offsets and sizes as an OS file
and ends in the same state. -/
theorem bufrw_behaves_like_file (ops : List Op) : ∀ (s : State) (c : Bytes), s.content = some c →
    run bufStep s ops = run osStep s ops := by
  induction ops with
  | nil => intro s c _; rfl
  | cons op rest ih =>
    intro s c hc
    obtain ⟨c', hc'⟩ := os_keeps_content s c hc op
    simp only [run, buf_step_eq s c hc op, ih _ c' hc']

/-- **C12 (2, one step)** memory.File does what the OS file does on the property's domain. -/
theorem mem_step_eq (s : State) (c : Bytes) (hc : s.content = some c) (op : Op) (hd : InDomain s op) :
    memStep s op = osStep s op := by
  unfold memStep osStep
  cases op with
  | evict => exact absurd hd (by simp [InDomain])
  | size => simp [hc]
  | write h p => cases ho : s.offs[h]? <;> simp [ho, hc, memWriteAt_eq_pwrite]
  | writeAt h p off =>
    have hoff : ¬ off < 0 := by simp only [InDomain] at hd; omega
    cases ho : s.offs[h]? <;> simp [ho, hc, hoff, memWriteAt_eq_pwrite]
  | read h n =>
    cases ho : s.offs[h]? with
    | none => simp [ho, hc]
    | some o =>
      simp only [ho, hc]
      by_cases hn : n = 0
      · subst hn
        simp only [if_true, pread, List.take_zero, List.length_nil, Nat.add_zero, setOff_self s.offs h o ho]
        cases s; simp_all
      · simp only [hn, if_false]
        by_cases hge : o ≥ c.length
        · simp only [hge, if_true, pread_eof c o n hge, List.length_nil, Nat.add_zero, setOff_self s.offs h o ho]
          cases s; simp_all
        · simp [hge, pread]
  | readAt h n off =>
    have hoff : ¬ off < 0 := by simp only [InDomain] at hd; omega
    cases ho : s.offs[h]? with
    | none => simp [ho, hc]
    | some o =>
      simp only [ho, hc, hoff, if_false]
      by_cases hn : n = 0
      · subst hn; simp [pread]
      · simp only [hn, if_false]
        by_cases hge : off.toNat ≥ c.length
        · simp [hge, pread_eof c off.toNat n hge]
        · simp [hge, pread]
  | seek h w d =>
    cases ho : s.offs[h]? with
    | none => simp [ho, hc]
    | some o =>
      simp only [ho, hc]
      cases ht : seekTarget c o w d with
      | none => simp
      | some t =>
        have hle : t ≤ c.length := by
          simp only [InDomain, hc, ho, ht] at hd; exact hd
        simp only []
        by_cases hneg : t < 0
        · simp [hneg]
        · simp [hneg, hle]

/-- **C12 (2)** for every operation sequence within the domain (seeks within the written extent,
non-negative offsets) — including positional writes far beyond the end that leave gaps, zero-length
writes anywhere, reads crossing the end, several handles on one blob — memory.File returns the
same counts, bytes, offsets and sizes as an OS file and ends in the same state. -/
theorem memfile_behaves_like_file (ops : List Op) : ∀ (s : State) (c : Bytes), s.content = some c →
    DomRun s ops → run memStep s ops = run osStep s ops := by
  induction ops with
  | nil => intro s c _ _; rfl
  | cons op rest ih =>
    intro s c hc hd
    obtain ⟨c', hc'⟩ := os_keeps_content s c hc op
    simp only [run, mem_step_eq s c hc op hd.1, ih _ c' hc' hd.2]

/-- the growth rule of both buffers IS pwrite (gap zero-filled, nothing else changes) -/
theorem buffers_write_like_pwrite (buf p : Bytes) (pos : Nat) :
    bufWriteAt buf pos p = pwrite buf pos p ∧ memWriteAt buf pos p = pwrite buf pos p :=
  ⟨bufWriteAt_eq_pwrite buf pos p, memWriteAt_eq_pwrite buf pos p⟩

/-- once evicted, every data operation on a memory.File reports eviction and changes nothing -/
theorem evicted_is_sticky (s : State) (hc : s.content = none) (h : Nat) (p : Bytes) (n : Nat) (hn : n ≠ 0)
    (off : Int) (hoff : 0 ≤ off) (o : Nat) (ho : s.offs[h]? = some o) :
    memStep s (.write h p) = (s, .evicted) ∧ memStep s (.writeAt h p off) = (s, .evicted) ∧
    memStep s (.read h n) = (s, .evicted) ∧ memStep s (.readAt h n off) = (s, .evicted) ∧
    memStep s .size = (s, .size (-1)) := by
  have : ¬ off < 0 := by omega
  simp [memStep, hc, ho, hn, this]

/-! ### the defect that was repaired (regression witness) -/

/-- Before the fix a zero-length positional write beyond the end grew both buffers
(`expLen = pos + 0 > len`), while pwrite of nothing leaves an OS file alone: sizes 10 vs 2. -/
theorem old_zero_length_write_grows :
    (awsWriteAtOld [7, 7] 10 []).length = 10 ∧ (memWriteAtOld [7, 7] 10 []).length = 10 ∧
    (pwrite [7, 7] 10 []).length = 2 := by decide

/-! ### non-vacuity -/
private def s0 : State := { content := some [], offs := [0, 0] }
private def hist : List Op :=
  [.write 0 [1, 2, 3], .writeAt 1 [9] 6, .read 1 2, .seek 0 .start 1, .read 0 10, .writeAt 0 [] 40,
   .seek 1 .end_ (-2), .write 1 [5, 5, 5], .readAt 0 4 5, .size]

example : DomRun s0 hist := by decide
example : (run osStep s0 hist).2 =
    [.count 3, .count 1, .data [1, 2], .off 1, .data [2, 3, 0, 0, 0, 9], .count 0, .off 5,
     .count 3, .data [5, 5, 5], .size 8] := by decide
example : run memStep s0 hist = run osStep s0 hist := by decide
example : run bufStep s0 hist = run osStep s0 hist := by decide

end KrakenModel.Spec.C12
