/-
  Labelled transition systems: `init`, `step`, `run`, reachability and the
  lemma that lifts a one-step invariant to every history (no bound on length).
  Core Lean only.
-/
namespace KrakenModel

structure Sys (σ : Type) (α : Type) where
  init : σ
  step : σ → α → σ

namespace Sys
variable {σ α : Type}

/-- State after running a whole history of operations. -/
def run (m : Sys σ α) (ops : List α) : σ := ops.foldl m.step m.init

def runFrom (m : Sys σ α) (s : σ) (ops : List α) : σ := ops.foldl m.step s

inductive Reachable (m : Sys σ α) : σ → Prop
  | init : Reachable m m.init
  | step {s} (a : α) : Reachable m s → Reachable m (m.step s a)

theorem runFrom_inv (m : Sys σ α) (P : σ → Prop)
    (hstep : ∀ s a, P s → P (m.step s a)) :
    ∀ (ops : List α) (s : σ), P s → P (m.runFrom s ops) := by
  intro ops
  induction ops with
  | nil => intro s h; simpa [runFrom] using h
  | cons a ops ih => intro s h; exact ih (m.step s a) (hstep s a h)

/-- An invariant of `init` preserved by every step holds after every history. -/
theorem run_inv (m : Sys σ α) (P : σ → Prop) (h0 : P m.init)
    (hstep : ∀ s a, P s → P (m.step s a)) (ops : List α) : P (m.run ops) :=
  runFrom_inv m P hstep ops m.init h0

theorem reachable_inv (m : Sys σ α) (P : σ → Prop) (h0 : P m.init)
    (hstep : ∀ s a, P s → P (m.step s a)) {s : σ} (hr : Reachable m s) : P s := by
  induction hr with
  | init => exact h0
  | step a _ ih => exact hstep _ a ih

theorem reachable_run (m : Sys σ α) (ops : List α) : Reachable m (m.run ops) :=
  run_inv m (Reachable m) Reachable.init (fun _ a h => Reachable.step a h) ops

theorem run_append (m : Sys σ α) (xs ys : List α) :
    m.run (xs ++ ys) = m.runFrom (m.run xs) ys := by
  simp [run, runFrom, List.foldl_append]

/-- Invariant with a per-operation precondition (`pre s a` must hold at every step of the
history): histories that respect the documented preconditions. -/
def WFHist (m : Sys σ α) (pre : σ → α → Prop) : σ → List α → Prop
  | _, [] => True
  | s, a :: as => pre s a ∧ WFHist m pre (m.step s a) as

instance decWFHist (m : Sys σ α) (pre : σ → α → Prop) [∀ s a, Decidable (pre s a)] :
    ∀ (s : σ) (ops : List α), Decidable (WFHist m pre s ops)
  | _, [] => isTrue trivial
  | s, a :: as =>
    match (inferInstance : Decidable (pre s a)), decWFHist m pre (m.step s a) as with
    | isTrue h1, isTrue h2 => isTrue ⟨h1, h2⟩
    | isFalse h1, _ => isFalse (fun h => h1 h.1)
    | _, isFalse h2 => isFalse (fun h => h2 h.2)

theorem runFrom_inv_pre (m : Sys σ α) (pre : σ → α → Prop) (P : σ → Prop)
    (hstep : ∀ s a, P s → pre s a → P (m.step s a)) :
    ∀ (ops : List α) (s : σ), P s → WFHist m pre s ops → P (m.runFrom s ops) := by
  intro ops
  induction ops with
  | nil => intro s h _; simpa [runFrom] using h
  | cons a ops ih =>
    intro s h hw
    exact ih (m.step s a) (hstep s a h hw.1) hw.2

end Sys
end KrakenModel
