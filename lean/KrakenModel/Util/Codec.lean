/-
  Small text-codec helpers shared by the serialisation models (C02, C39, C28, C36, C38).
  Core Lean only.  Strings are `List Char` (one char per byte, ASCII view).
-/
namespace KrakenModel.Codec

instance {ε α : Type} [DecidableEq ε] [DecidableEq α] : DecidableEq (Except ε α) := fun a b =>
  match a, b with
  | .ok x, .ok y => if h : x = y then isTrue (by rw [h]) else isFalse (fun e => by cases e; exact h rfl)
  | .error x, .error y => if h : x = y then isTrue (by rw [h]) else isFalse (fun e => by cases e; exact h rfl)
  | .ok _, .error _ => isFalse (fun e => by cases e)
  | .error _, .ok _ => isFalse (fun e => by cases e)

/-- strip the literal prefix `p` -/
def lit : List Char → List Char → Option (List Char)
  | [], s => some s
  | _ :: _, [] => none
  | p :: ps, c :: cs => if p = c then lit ps cs else none

theorem lit_append (p r : List Char) : lit p (p ++ r) = some r := by
  induction p with
  | nil => rfl
  | cons a as ih => simp [lit, ih]

theorem lit_eq_some {p s r : List Char} (h : lit p s = some r) : s = p ++ r := by
  induction p generalizing s with
  | nil => simp [lit] at h; simp [h]
  | cons a as ih =>
    cases s with
    | nil => simp [lit] at h
    | cons c cs =>
      simp only [lit] at h
      split at h
      · rename_i hac; subst hac; simp [ih h]
      · cases h

/-- strings.Split(s, sep) for a one-character separator (never returns the empty list) -/
def splitOn (sep : Char) : List Char → List (List Char)
  | [] => [[]]
  | c :: cs =>
    if c = sep then [] :: splitOn sep cs
    else match splitOn sep cs with
      | [] => [[c]]
      | h :: t => (c :: h) :: t

theorem splitOn_ne_nil (sep : Char) (s : List Char) : splitOn sep s ≠ [] := by
  induction s with
  | nil => simp [splitOn]
  | cons c cs ih =>
    simp only [splitOn]
    split
    · simp
    · split <;> simp

/-- a string without the separator is a single part -/
theorem splitOn_of_not_mem (sep : Char) (s : List Char) (h : sep ∉ s) : splitOn sep s = [s] := by
  induction s with
  | nil => rfl
  | cons c cs ih =>
    have hc : c ≠ sep := fun e => h (by simp [e])
    have hcs : sep ∉ cs := fun m => h (by simp [m])
    simp [splitOn, hc, ih hcs]

/-- the first part ends at the first separator -/
theorem splitOn_append (sep : Char) (a b : List Char) (h : sep ∉ a) :
    splitOn sep (a ++ sep :: b) = a :: splitOn sep b := by
  induction a with
  | nil => simp [splitOn]
  | cons c cs ih =>
    have hc : c ≠ sep := fun e => h (by simp [e])
    have hcs : sep ∉ cs := fun m => h (by simp [m])
    simp [splitOn, hc, ih hcs]

/-- joining the parts with the separator gives the string back -/
theorem splitOn_join (sep : Char) (s : List Char) :
    ∀ x xs, splitOn sep s = x :: xs → x ++ (xs.flatMap fun p => sep :: p) = s := by
  induction s with
  | nil => intro x xs h; simp [splitOn] at h; obtain ⟨rfl, rfl⟩ := h; rfl
  | cons c cs ih =>
    intro x xs h
    simp only [splitOn] at h
    split at h
    · rename_i hc; subst hc
      cases hs : splitOn c cs with
      | nil => exact absurd hs (splitOn_ne_nil _ _)
      | cons y ys =>
        rw [hs] at h
        simp only [List.cons.injEq] at h
        obtain ⟨rfl, rfl⟩ := h
        simp [ih y ys hs]
    · cases hs : splitOn sep cs with
      | nil => exact absurd hs (splitOn_ne_nil _ _)
      | cons y ys =>
        rw [hs] at h
        simp only [List.cons.injEq] at h
        obtain ⟨rfl, rfl⟩ := h
        simp [ih y ys hs]

/-- no part contains the separator -/
theorem splitOn_parts_no_sep (sep : Char) (s : List Char) : ∀ p ∈ splitOn sep s, sep ∉ p := by
  induction s with
  | nil => simp [splitOn]
  | cons c cs ih =>
    simp only [splitOn]
    split
    · intro p hp
      rcases List.mem_cons.mp hp with h | h
      · subst h; simp
      · exact ih p h
    · rename_i hc
      cases hs : splitOn sep cs with
      | nil => exact absurd hs (splitOn_ne_nil _ _)
      | cons x xs =>
        rw [hs] at ih
        intro p hp
        rcases List.mem_cons.mp hp with h | h
        · subst h
          intro hm
          rcases List.mem_cons.mp hm with h' | h'
          · exact hc h'.symm
          · exact ih x (by simp) h'
        · exact ih p (by simp [h])

/-- characters accepted by Go's hex.DecodeString -/
def isHex (c : Char) : Bool :=
  (decide (48 ≤ c.toNat) && decide (c.toNat ≤ 57)) || (decide (97 ≤ c.toNat) && decide (c.toNat ≤ 102)) ||
  (decide (65 ≤ c.toNat) && decide (c.toNat ≤ 70))

/-- decimal digits of a natural number (Go `strconv.FormatUint(n, 10)`) -/
abbrev dec (n : Nat) : List Char := Nat.toDigits 10 n

/-- value of a list of decimal digits -/
abbrev undec (ds : List Char) : Nat := Nat.ofDigitChars 10 ds 0

theorem undec_dec (n : Nat) : undec (dec n) = n := Nat.ofDigitChars_ten_toDigits

theorem dec_all_digits (n : Nat) : ∀ c ∈ dec n, c.isDigit = true :=
  fun _ hc => Nat.isDigit_of_mem_toDigits (by decide) (by decide) hc

theorem dec_ne_nil (n : Nat) : dec n ≠ [] := Nat.toDigits_ne_nil

/-- the longest digit prefix of `dec n ++ r` is `dec n` when `r` does not start with a digit -/
theorem takeWhile_dec (n : Nat) (r : List Char) (hr : ∀ c, r.head? = some c → c.isDigit = false) :
    (dec n ++ r).takeWhile Char.isDigit = dec n ∧ (dec n ++ r).dropWhile Char.isDigit = r := by
  rw [List.takeWhile_append_of_pos (dec_all_digits n), List.dropWhile_append_of_pos (dec_all_digits n)]
  cases r with
  | nil => simp
  | cons c cs =>
    have := hr c rfl
    simp [this]

/-- decimal form of an integer (Go `strconv.FormatInt(i, 10)`) -/
def intStr (i : Int) : List Char :=
  if i < 0 then '-' :: dec i.natAbs else dec i.toNat

/-- loose reader of an optionally signed digit string: value and the rest (no canonicity check) -/
def readInt (s : List Char) : Option (Int × List Char) :=
  match s with
  | '-' :: t =>
    let ds := t.takeWhile Char.isDigit
    if ds.isEmpty then none else some (- (undec ds : Int), t.dropWhile Char.isDigit)
  | _ =>
    let ds := s.takeWhile Char.isDigit
    if ds.isEmpty then none else some ((undec ds : Int), s.dropWhile Char.isDigit)

theorem dec_head_ne_minus (n : Nat) : ∀ t, dec n ≠ '-' :: t := by
  intro t h
  have := dec_all_digits n '-' (by rw [h]; simp)
  simp [Char.isDigit] at this

theorem readInt_intStr (i : Int) (r : List Char) (hr : ∀ c, r.head? = some c → c.isDigit = false) :
    readInt (intStr i ++ r) = some (i, r) := by
  unfold intStr
  split
  · rename_i hneg
    have ⟨h1, h2⟩ := takeWhile_dec i.natAbs r hr
    simp only [List.cons_append, readInt, h1, h2]
    have : (dec i.natAbs).isEmpty = false := by
      cases h : dec i.natAbs with
      | nil => exact absurd h (dec_ne_nil _)
      | cons _ _ => rfl
    simp only [this, undec_dec]
    have : -(i.natAbs : Int) = i := by omega
    simp [this]
  · rename_i hpos
    have ⟨h1, h2⟩ := takeWhile_dec i.toNat r hr
    have hne : (dec i.toNat).isEmpty = false := by
      cases h : dec i.toNat with
      | nil => exact absurd h (dec_ne_nil _)
      | cons _ _ => rfl
    have hi : ((i.toNat : Nat) : Int) = i := by omega
    cases hd : dec i.toNat with
    | nil => exact absurd hd (dec_ne_nil _)
    | cons c cs =>
      have hc : c ≠ '-' := by
        intro hc; subst hc; exact dec_head_ne_minus _ _ hd
      have key : readInt (c :: cs ++ r) =
          (let ds := (c :: cs ++ r).takeWhile Char.isDigit
           if ds.isEmpty then none else some ((undec ds : Int), (c :: cs ++ r).dropWhile Char.isDigit)) := by
        simp only [List.cons_append, readInt]
        split
        · rename_i heq; simp at heq; exact absurd heq.1 hc
        · rfl
      rw [key, ← hd]
      simp only [h1, h2, hne, undec_dec, hi]
      rfl

end KrakenModel.Codec
