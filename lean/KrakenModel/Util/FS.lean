/-
  Abstract file system for the crash-point properties (C04, C05, C06).  Core Lean only.

  A file system is a finite map from directory paths (below the store root) to directory contents;
  a directory's content is a finite map from file names to bytes.  Sub-directories are separate
  entries of the outer map (`[a, b]` is a child of `[a]`); the root `[]` always exists and holds no
  files.  `Call` is the set of *mutating* system calls the stores issue; `apply` is each call's
  POSIX effect (a call whose precondition `ok` fails changes nothing — the plans only contain calls
  that succeeded).  The process-crash model of the properties is `applyPrefix`: the first `k` calls
  of an operation's plan have happened, nothing else has.

  File names are a parameter `ν` (each store model uses a small inductive type, so that e.g. a
  metadata file and its `-tmp` companion are distinct by construction).
-/
namespace KrakenModel.FS

abbrev Bytes := List Nat
abbrev Path := List String

/-! ### association lists -/
section AList
variable {α β : Type} [DecidableEq α]

def aget : List (α × β) → α → Option β
  | [], _ => none
  | (k', v) :: t, k => if k' = k then some v else aget t k

/-- replace the first binding of `k`, or append a new one at the end -/
def aset : List (α × β) → α → β → List (α × β)
  | [], k, v => [(k, v)]
  | (k', v') :: t, k, v => if k' = k then (k, v) :: t else (k', v') :: aset t k v

def adel (l : List (α × β)) (k : α) : List (α × β) := l.filter (fun e => e.1 ≠ k)

def akeys (l : List (α × β)) : List α := l.map (·.1)

@[simp] theorem aget_nil (k : α) : aget ([] : List (α × β)) k = none := rfl

theorem aget_aset_self (l : List (α × β)) (k : α) (v : β) : aget (aset l k v) k = some v := by
  induction l with
  | nil => simp [aset, aget]
  | cons e t ih =>
    obtain ⟨k', v'⟩ := e
    by_cases h : k' = k <;> simp [aset, aget, h, ih]

theorem aget_aset_ne (l : List (α × β)) (k k' : α) (v : β) (h : k ≠ k') :
    aget (aset l k v) k' = aget l k' := by
  induction l with
  | nil => simp [aset, aget, h]
  | cons e t ih =>
    obtain ⟨k2, v2⟩ := e
    by_cases h2 : k2 = k
    · subst h2; simp [aset, aget, h]
    · by_cases h3 : k2 = k'
      · subst h3; simp [aset, aget, h2]
      · simp [aset, aget, h2, h3, ih]

theorem aget_adel_self (l : List (α × β)) (k : α) : aget (adel l k) k = none := by
  induction l with
  | nil => rfl
  | cons e t ih =>
    obtain ⟨k', v'⟩ := e
    by_cases h : k' = k
    · simpa [adel, List.filter, h] using ih
    · simp only [adel, List.filter, ne_eq, h, not_false_eq_true, decide_true, aget, if_false]
      simpa [adel] using ih

theorem aget_adel_ne (l : List (α × β)) (k k' : α) (h : k ≠ k') : aget (adel l k) k' = aget l k' := by
  induction l with
  | nil => rfl
  | cons e t ih =>
    obtain ⟨k2, v2⟩ := e
    by_cases h2 : k2 = k
    · subst h2
      have : aget (adel t k2) k' = aget t k' := ih
      simp [adel, List.filter, aget, h] at this ⊢
      exact this
    · by_cases h3 : k2 = k'
      · subst h3; simp [adel, List.filter, aget, h2]
      · have : aget (adel t k) k' = aget t k' := ih
        simp [adel, List.filter, aget, h2, h3] at this ⊢
        exact this

theorem aget_isSome_iff_mem_akeys (l : List (α × β)) (k : α) : (aget l k).isSome ↔ k ∈ akeys l := by
  induction l with
  | nil => simp [akeys]
  | cons e t ih =>
    obtain ⟨k', v'⟩ := e
    by_cases h : k' = k
    · simp [aget, akeys, h]
    · simp only [aget, h, if_false, akeys, List.map_cons, List.mem_cons]
      rw [ih]
      constructor
      · intro hm; exact Or.inr hm
      · intro hm; rcases hm with hm | hm
        · exact absurd hm.symm h
        · exact hm

theorem aget_eq_none_iff (l : List (α × β)) (k : α) : aget l k = none ↔ k ∉ akeys l := by
  rw [← aget_isSome_iff_mem_akeys]; cases aget l k <;> simp

theorem akeys_aset (l : List (α × β)) (k : α) (v : β) :
    ∀ x, x ∈ akeys (aset l k v) ↔ x = k ∨ x ∈ akeys l := by
  intro x
  induction l with
  | nil => simp [aset, akeys]
  | cons e t ih =>
    obtain ⟨k', v'⟩ := e
    by_cases h : k' = k
    · subst h; simp [aset, akeys]
    · simp only [aset, h, if_false, akeys, List.map_cons, List.mem_cons]
      simp only [akeys] at ih
      rw [ih]
      constructor
      · rintro (h1 | h1 | h1)
        · exact Or.inr (Or.inl h1)
        · exact Or.inl h1
        · exact Or.inr (Or.inr h1)
      · rintro (h1 | h1 | h1)
        · exact Or.inr (Or.inl h1)
        · exact Or.inl h1
        · exact Or.inr (Or.inr h1)

theorem akeys_adel (l : List (α × β)) (k : α) : ∀ x, x ∈ akeys (adel l k) ↔ x ≠ k ∧ x ∈ akeys l := by
  intro x
  simp only [akeys, adel, List.mem_map, List.mem_filter]
  constructor
  · rintro ⟨e, ⟨he, hne⟩, rfl⟩
    exact ⟨by simpa using hne, e, he, rfl⟩
  · rintro ⟨hne, e, he, rfl⟩
    exact ⟨e, ⟨he, by simpa using hne⟩, rfl⟩

theorem akeys_nodup_aset (l : List (α × β)) (k : α) (v : β) (h : (akeys l).Nodup) :
    (akeys (aset l k v)).Nodup := by
  induction l with
  | nil => simp [aset, akeys]
  | cons e t ih =>
    obtain ⟨k', v'⟩ := e
    simp only [akeys, List.map_cons, List.nodup_cons] at h
    by_cases hk : k' = k
    · subst hk; simpa [aset, akeys] using h
    · simp only [aset, hk, if_false, akeys, List.map_cons, List.nodup_cons]
      refine ⟨?_, ih h.2⟩
      intro hm
      have := (akeys_aset t k v k').mp (by simpa [akeys] using hm)
      rcases this with h1 | h1
      · exact hk h1
      · exact h.1 (by simpa [akeys] using h1)

theorem akeys_nodup_adel (l : List (α × β)) (k : α) (h : (akeys l).Nodup) : (akeys (adel l k)).Nodup := by
  simp only [akeys, adel] at *
  exact (List.Nodup.sublist (List.Sublist.map _ List.filter_sublist) h)

end AList

/-! ### ordering a listing by a priority list (directory read order, mtime order, …) -/
section OrderBy
variable {α : Type} [DecidableEq α]

/-- drop repeated elements, keeping the first occurrence -/
def dedupe : List α → List α
  | [] => []
  | a :: l => a :: (dedupe l).filter (· ≠ a)

theorem mem_dedupe (l : List α) (a : α) : a ∈ dedupe l ↔ a ∈ l := by
  induction l with
  | nil => simp [dedupe]
  | cons b l ih =>
    simp only [dedupe, List.mem_cons, List.mem_filter, ih, ne_eq, decide_not, Bool.not_eq_eq_eq_not,
      Bool.not_true, decide_eq_false_iff_not]
    constructor
    · rintro (h | ⟨h, _⟩)
      · exact Or.inl h
      · exact Or.inr h
    · rintro (h | h)
      · exact Or.inl h
      · by_cases e : a = b
        · exact Or.inl e
        · exact Or.inr ⟨h, e⟩

theorem nodup_dedupe (l : List α) : (dedupe l).Nodup := by
  induction l with
  | nil => simp [dedupe]
  | cons b l ih =>
    simp only [dedupe, List.nodup_cons]
    refine ⟨?_, ih.filter _⟩
    intro hm
    have := (List.mem_filter.mp hm).2
    simp at this

theorem dedupe_of_nodup (l : List α) (h : l.Nodup) : dedupe l = l := by
  induction l with
  | nil => rfl
  | cons b l ih =>
    have hh := List.nodup_cons.mp h
    simp only [dedupe, ih hh.2]
    congr 1
    apply List.filter_eq_self.mpr
    intro a ha; simp; intro e; subst e; exact hh.1 ha

/-- the elements of `xs`, those mentioned in `pri` first (in `pri`'s order, once), then the others
in their own order.  Every permutation of a duplicate-free `xs` is `orderBy pri xs` for `pri` = that
permutation, so quantifying over `pri` quantifies over all orders. -/
def orderBy (pri xs : List α) : List α :=
  ((dedupe pri).filter (· ∈ xs)) ++ xs.filter (· ∉ pri)

theorem mem_orderBy (pri xs : List α) (a : α) : a ∈ orderBy pri xs ↔ a ∈ xs := by
  simp only [orderBy, List.mem_append, List.mem_filter, decide_eq_true_eq, mem_dedupe]
  by_cases h : a ∈ pri <;> simp [h]

theorem orderBy_self (xs : List α) (h : xs.Nodup) : orderBy xs xs = xs := by
  have h1 : xs.filter (· ∉ xs) = [] := by
    apply List.filter_eq_nil_iff.mpr; intro a ha; simp [ha]
  simp only [orderBy, h1, dedupe_of_nodup xs h, List.append_nil]
  apply List.filter_eq_self.mpr; intro a ha; simp [ha]

theorem orderBy_nodup (pri xs : List α) (h : xs.Nodup) : (orderBy pri xs).Nodup := by
  unfold orderBy
  rw [List.nodup_append]
  refine ⟨(nodup_dedupe _).filter _, h.filter _, ?_⟩
  intro a ha b hb e
  subst e
  simp only [List.mem_filter, mem_dedupe, decide_eq_true_eq, decide_not, Bool.not_eq_eq_eq_not,
    Bool.not_true, decide_eq_false_iff_not] at ha hb
  exact hb.2 ha.1

/-- insertion sort (structural, so that closed terms evaluate in the kernel) -/
def insertBy (le : α → α → Bool) (a : α) : List α → List α
  | [] => [a]
  | b :: l => if le a b then a :: b :: l else b :: insertBy le a l

def isort (le : α → α → Bool) : List α → List α
  | [] => []
  | a :: l => insertBy le a (isort le l)

theorem mem_insertBy (le : α → α → Bool) (a x : α) (l : List α) : x ∈ insertBy le a l ↔ x = a ∨ x ∈ l := by
  induction l with
  | nil => simp [insertBy]
  | cons b l ih =>
    simp only [insertBy]
    split
    · simp
    · simp only [List.mem_cons, ih]
      constructor
      · rintro (h | h | h)
        · exact Or.inr (Or.inl h)
        · exact Or.inl h
        · exact Or.inr (Or.inr h)
      · rintro (h | h | h)
        · exact Or.inr (Or.inl h)
        · exact Or.inl h
        · exact Or.inr (Or.inr h)

theorem mem_isort (le : α → α → Bool) (x : α) (l : List α) : x ∈ isort le l ↔ x ∈ l := by
  induction l with
  | nil => simp [isort]
  | cons a l ih => simp [isort, mem_insertBy, ih]

end OrderBy

/-! ### the file system -/

abbrev DirEnt (ν : Type) := List (ν × Bytes)

structure FS (ν : Type) where
  dirs : List (Path × DirEnt ν) := []

variable {ν : Type} [DecidableEq ν]

namespace FS

def dir? (fs : FS ν) (p : Path) : Option (DirEnt ν) := aget fs.dirs p

/-- the root always exists -/
def isDir (fs : FS ν) (p : Path) : Bool := p == [] || (fs.dir? p).isSome

def file? (fs : FS ν) (p : Path) (n : ν) : Option Bytes :=
  match fs.dir? p with
  | none => none
  | some d => aget d n

def paths (fs : FS ν) : List Path := akeys fs.dirs

/-- the directories directly below `p` -/
def children (fs : FS ν) (p : Path) : List Path :=
  fs.paths.filter (fun q => q ≠ [] ∧ q.dropLast = p)

def setDir (fs : FS ν) (p : Path) (d : DirEnt ν) : FS ν := ⟨aset fs.dirs p d⟩
def delDir (fs : FS ν) (p : Path) : FS ν := ⟨adel fs.dirs p⟩

end FS

/-- `pwrite`: bytes at an offset, a hole is filled with zeros -/
def writeAt (old : Bytes) (off : Nat) (b : Bytes) : Bytes :=
  let padded := old ++ List.replicate (off - old.length) 0
  padded.take off ++ b ++ padded.drop (off + b.length)

/-- `ftruncate` -/
def truncTo (old : Bytes) (len : Nat) : Bytes :=
  (old ++ List.replicate (len - old.length) 0).take len

inductive Call (ν : Type) where
  | mkdir (p : Path)
  | creat (p : Path) (n : ν)                          -- open(O_CREAT|O_EXCL): a new empty file
  | openCreat (p : Path) (n : ν)                      -- open(O_CREAT): created empty unless present
  | openTrunc (p : Path) (n : ν)                      -- open(O_CREAT|O_TRUNC): empty afterwards
  | truncate (p : Path) (n : ν) (len : Nat)           -- ftruncate
  | pwrite (p : Path) (n : ν) (off : Nat) (b : Bytes) -- write at an offset of an existing file
  | rename (p : Path) (n : ν) (q : Path) (m : ν)      -- rename a file, replacing the target
  | renameDir (p q : Path)                            -- rename a directory (target absent or empty)
  | unlink (p : Path) (n : ν)
  | rmdir (p : Path)
  | link (p : Path) (n : ν) (q : Path) (m : ν)        -- hard link (contents copied: no later write in scope)
  deriving DecidableEq, Repr

/-- does the call succeed in `fs`? -/
def Call.ok (fs : FS ν) : Call ν → Bool
  | .mkdir p => p ≠ [] && !fs.isDir p && fs.isDir p.dropLast
  | .creat p n => (fs.dir? p).isSome && (fs.file? p n).isNone
  | .openCreat p _ => (fs.dir? p).isSome
  | .openTrunc p _ => (fs.dir? p).isSome
  | .truncate p n _ => (fs.file? p n).isSome
  | .pwrite p n _ _ => (fs.file? p n).isSome
  | .rename p n q _ => (fs.file? p n).isSome && (fs.dir? q).isSome
  | .renameDir p q =>
      (fs.dir? p).isSome && p ≠ q && fs.isDir q.dropLast && q ≠ [] && (fs.children p).isEmpty &&
      (match fs.dir? q with
       | none => true
       | some d => d.isEmpty && (fs.children q).isEmpty)
  | .unlink p n => (fs.file? p n).isSome
  | .rmdir p =>
      (match fs.dir? p with
       | none => false
       | some d => d.isEmpty && (fs.children p).isEmpty)
  | .link p n q m => (fs.file? p n).isSome && (fs.dir? q).isSome && (fs.file? q m).isNone

/-- the effect of a successful call -/
def Call.eff (fs : FS ν) : Call ν → FS ν
  | .mkdir p => fs.setDir p []
  | .creat p n => match fs.dir? p with
      | some d => fs.setDir p (aset d n [])
      | none => fs
  | .openCreat p n => match fs.dir? p with
      | some d => if (aget d n).isSome then fs else fs.setDir p (aset d n [])
      | none => fs
  | .openTrunc p n => match fs.dir? p with
      | some d => fs.setDir p (aset d n [])
      | none => fs
  | .truncate p n len => match fs.dir? p with
      | some d => (match aget d n with
          | some c => fs.setDir p (aset d n (truncTo c len))
          | none => fs)
      | none => fs
  | .pwrite p n off b => match fs.dir? p with
      | some d => (match aget d n with
          | some c => fs.setDir p (aset d n (writeAt c off b))
          | none => fs)
      | none => fs
  | .rename p n q m => match fs.file? p n with
      | some c =>
          if p = q then
            (match fs.dir? p with
             | some d => if n = m then fs else fs.setDir p (aset (adel d n) m c)
             | none => fs)
          else
            (match fs.dir? p, fs.dir? q with
             | some d, some e => (fs.setDir p (adel d n)).setDir q (aset e m c)
             | _, _ => fs)
      | none => fs
  | .renameDir p q => match fs.dir? p with
      | some d => (fs.delDir p).setDir q d
      | none => fs
  | .unlink p n => match fs.dir? p with
      | some d => fs.setDir p (adel d n)
      | none => fs
  | .rmdir p => fs.delDir p
  | .link p n q m => match fs.file? p n, fs.dir? q with
      | some c, some e => fs.setDir q (aset e m c)
      | _, _ => fs

def apply (fs : FS ν) (c : Call ν) : FS ν := if c.ok fs then c.eff fs else fs

def applyAll (fs : FS ν) (cs : List (Call ν)) : FS ν := cs.foldl apply fs

/-- the state a process crash leaves: the first `k` calls of the plan have happened -/
def applyPrefix (k : Nat) (cs : List (Call ν)) (fs : FS ν) : FS ν := applyAll fs (cs.take k)

/-- do all calls of a plan succeed when executed in order? (checked by the drivers on every replay) -/
def allOk : FS ν → List (Call ν) → Bool
  | _, [] => true
  | fs, c :: cs => c.ok fs && allOk (apply fs c) cs

@[simp] theorem applyAll_nil (fs : FS ν) : applyAll fs [] = fs := rfl
@[simp] theorem applyAll_cons (fs : FS ν) (c : Call ν) (cs : List (Call ν)) :
    applyAll fs (c :: cs) = applyAll (apply fs c) cs := rfl
theorem applyAll_append (fs : FS ν) (xs ys : List (Call ν)) :
    applyAll fs (xs ++ ys) = applyAll (applyAll fs xs) ys := by
  simp [applyAll, List.foldl_append]
@[simp] theorem applyPrefix_zero (cs : List (Call ν)) (fs : FS ν) : applyPrefix 0 cs fs = fs := rfl
theorem applyPrefix_all (cs : List (Call ν)) (fs : FS ν) (k : Nat) (h : cs.length ≤ k) :
    applyPrefix k cs fs = applyAll fs cs := by
  simp [applyPrefix, List.take_of_length_le h]

/-! ### removal orders -/

/-- the order in which directory entries are visited by a recursive removal: the file system
decides it (`readdir`), the model quantifies over it -/
structure Order (ν : Type) where
  files : List (Path × ν) := []   -- priority among the files (by full name)
  dirs : List Path := []          -- priority among sibling directories

def Order.filesOf (o : Order ν) (p : Path) : List ν :=
  o.files.filterMap (fun e => if e.1 = p then some e.2 else none)

/-- `os.RemoveAll` of a directory that holds only files: unlink every entry, then `rmdir` -/
def removeAllPlan (fs : FS ν) (o : Order ν) (p : Path) : List (Call ν) :=
  match fs.dir? p with
  | none => []
  | some d => (orderBy (o.filesOf p) (akeys d)).map (Call.unlink p) ++ [Call.rmdir p]

/-- `os.RemoveAll` of a tree (depth-first; `fuel` bounds the depth) -/
def removeTreePlan (fs : FS ν) (o : Order ν) (sortDirs : List Path → List Path) :
    Nat → Path → List (Call ν)
  | 0, _ => []
  | fuel + 1, p =>
    match fs.dir? p with
    | none => []
    | some d =>
      (orderBy (o.filesOf p) (akeys d)).map (Call.unlink p) ++
      (orderBy o.dirs (sortDirs (fs.children p))).flatMap (removeTreePlan fs o sortDirs fuel) ++
      [Call.rmdir p]

/-- `os.MkdirAll`: `mkdir` for every missing ancestor, outermost first -/
def mkdirAllAux (fs : FS ν) (pre : Path) : Path → List (Call ν)
  | [] => []
  | x :: rest =>
    (if fs.isDir (pre ++ [x]) then [] else [Call.mkdir (pre ++ [x])]) ++ mkdirAllAux fs (pre ++ [x]) rest

def mkdirAllPlan (fs : FS ν) (p : Path) : List (Call ν) := mkdirAllAux fs [] p

end KrakenModel.FS
