/-
  Small association-list maps used by the store models of C01 / C13 / C10 (core Lean only).
  `get` = first binding, `del` removes every binding of the key, `put` = `del` then cons.
  Invariants are stated over list membership (`∀ p ∈ m, P p.1 p.2`), which `del`/`put` preserve
  without any distinct-keys side condition.
-/
namespace KrakenModel.KV

variable {κ ν : Type} [DecidableEq κ]

def get : List (κ × ν) → κ → Option ν
  | [], _ => none
  | (k', v) :: m, k => if k = k' then some v else get m k

def del (m : List (κ × ν)) (k : κ) : List (κ × ν) := m.filter (fun p => p.1 ≠ k)

def put (m : List (κ × ν)) (k : κ) (v : ν) : List (κ × ν) := (k, v) :: del m k

def has (m : List (κ × ν)) (k : κ) : Bool := (get m k).isSome

def keys (m : List (κ × ν)) : List κ := m.map (·.1)

theorem get_some_mem {m : List (κ × ν)} {k : κ} {v : ν} (h : get m k = some v) : (k, v) ∈ m := by
  induction m with
  | nil => simp [get] at h
  | cons p m ih =>
    obtain ⟨k', v'⟩ := p
    simp only [get] at h
    split at h
    · rename_i hk; cases h; subst hk; exact List.mem_cons_self
    · exact List.mem_cons_of_mem _ (ih h)

theorem get_none_of_not_key {m : List (κ × ν)} {k : κ} (h : ∀ p ∈ m, p.1 ≠ k) : get m k = none := by
  induction m with
  | nil => rfl
  | cons p m ih =>
    obtain ⟨k', v'⟩ := p
    have hk : k ≠ k' := fun e => h (k', v') List.mem_cons_self e.symm
    simp only [get, hk, if_false]
    exact ih (fun p hp => h p (List.mem_cons_of_mem _ hp))

theorem mem_del {m : List (κ × ν)} {k : κ} {p : κ × ν} : p ∈ del m k ↔ p ∈ m ∧ p.1 ≠ k := by
  simp [del, List.mem_filter]

theorem get_del_self (m : List (κ × ν)) (k : κ) : get (del m k) k = none :=
  get_none_of_not_key (fun _ hp => (mem_del.mp hp).2)

theorem get_del_ne (m : List (κ × ν)) {k k' : κ} (h : k' ≠ k) : get (del m k) k' = get m k' := by
  induction m with
  | nil => rfl
  | cons p m ih =>
    obtain ⟨k0, v0⟩ := p
    by_cases hk : k0 = k
    · subst hk
      have : get ((k0, v0) :: m) k' = get m k' := by simp [get, h]
      rw [this, ← ih]
      simp [del]
    · have hd : del ((k0, v0) :: m) k = (k0, v0) :: del m k := by simp [del, hk]
      rw [hd]
      simp only [get]
      split
      · rfl
      · exact ih

theorem get_put_self (m : List (κ × ν)) (k : κ) (v : ν) : get (put m k v) k = some v := by
  simp [put, get]

theorem get_put_ne (m : List (κ × ν)) {k k' : κ} (v : ν) (h : k' ≠ k) : get (put m k v) k' = get m k' := by
  simp only [put, get, h, if_false]
  exact get_del_ne m h

theorem mem_put {m : List (κ × ν)} {k : κ} {v : ν} {p : κ × ν} :
    p ∈ put m k v ↔ p = (k, v) ∨ (p ∈ m ∧ p.1 ≠ k) := by
  simp [put, mem_del]

/-- a membership invariant survives `del` -/
theorem all_del {P : κ → ν → Prop} {m : List (κ × ν)} (h : ∀ p ∈ m, P p.1 p.2) (k : κ) :
    ∀ p ∈ del m k, P p.1 p.2 := fun p hp => h p (mem_del.mp hp).1

/-- a membership invariant survives `put` of a good binding -/
theorem all_put {P : κ → ν → Prop} {m : List (κ × ν)} (h : ∀ p ∈ m, P p.1 p.2) {k : κ} {v : ν}
    (hv : P k v) : ∀ p ∈ put m k v, P p.1 p.2 := by
  intro p hp
  rcases mem_put.mp hp with e | ⟨hm, _⟩
  · subst e; exact hv
  · exact h p hm

theorem get_none_not_key {m : List (κ × ν)} {k : κ} (h : get m k = none) : k ∉ keys m := by
  induction m with
  | nil => simp [keys]
  | cons q m ih =>
    obtain ⟨k', v⟩ := q
    simp only [get] at h
    split at h
    · cases h
    · rename_i hne
      simp only [keys, List.map_cons, List.mem_cons, not_or]
      exact ⟨hne, ih h⟩

theorem get_some_key {m : List (κ × ν)} {k : κ} {v : ν} (h : get m k = some v) : k ∈ keys m :=
  List.mem_map.mpr ⟨(k, v), get_some_mem h, rfl⟩

theorem keys_del_sublist (m : List (κ × ν)) (k : κ) : (keys (del m k)).Sublist (keys m) := by
  unfold keys del
  exact List.Sublist.map _ List.filter_sublist

theorem mem_keys_del {m : List (κ × ν)} {k x : κ} : x ∈ keys (del m k) ↔ x ∈ keys m ∧ x ≠ k := by
  unfold keys
  simp only [List.mem_map, mem_del]
  constructor
  · rintro ⟨p, ⟨hp, hne⟩, e⟩; subst e; exact ⟨⟨p, hp, rfl⟩, hne⟩
  · rintro ⟨⟨p, hp, e⟩, hne⟩; subst e; exact ⟨p, ⟨hp, hne⟩, rfl⟩

omit [DecidableEq κ] in
theorem keys_length (m : List (κ × ν)) : (keys m).length = m.length := by simp [keys]

end KrakenModel.KV
