import KrakenModel.Proof.C30Live
/-
  The fairness-conditioned eventuality of C30, for *every* infinite schedule:
  once the environment is quiet (no crash / close / restart, no new tasks, executions succeed, no
  channel overflows) and the schedule is fair (the poller's steps, the workers' takes, pending sends
  and the end of every execution keep occurring, time diverges), every stored task leaves the table —
  which, by `step_keys_lost`, only happens through a successful execution of that task.

  Proof: a lexicographic measure that no quiet step increases and that every *enabled* system step
  strictly decreases.  A non-increasing sequence in a well-founded order is eventually constant; in
  a constant suffix the channels / workers / table are frozen, so the step that is enabled there
  stays enabled until fairness schedules it — contradiction.
-/
namespace KrakenModel.Retry

/-- the state after `n` steps of an infinite schedule -/
def traj (s0 : State) (sched : Nat → Op) : Nat → State
  | 0 => s0
  | n + 1 => step (traj s0 sched n) (sched n)

/-- a quiet environment step: no faults, no new work -/
def Quiet (s : State) : Op → Prop
  | .addBegin x _ _ => x ∈ keys s.rows
  | .finish _ ok => ok = true
  | .crash | .close | .start _ => False
  | .addEnq x => (stepO s (.addEnq x)).2 ≠ .overflow
  | .pollEnq => (stepO s .pollEnq).2 ≠ .overflow
  | _ => True

def idxIn (todo : List Row) (k : Key) : Nat := (todo.takeWhile fun r => r.key ≠ k).length

/-- where a failed task stands with respect to the poller: (2,_) not yet due, (1,n) due and not
fetched (n = length of the poller's current list), (0,i) due and at position i of the list -/
def phase (s : State) (k : Key) : Nat × Nat :=
  if isFailed s.rows k then
    if kDue s k then (if k ∈ keys s.todo then (0, idxIn s.todo k) else (1, s.todo.length)) else (2, 0)
  else (0, 0)

def meas2 (s : State) (k : Key) : Nat × Nat × Nat := (weight s, (phase s k).1, (phase s k).2)

theorem mlt_iff (a b : Nat × Nat × Nat) :
    MLt a b ↔ a.1 < b.1 ∨ a.1 = b.1 ∧ (a.2.1 < b.2.1 ∨ a.2.1 = b.2.1 ∧ a.2.2 < b.2.2) := by
  obtain ⟨a1, a2, a3⟩ := a
  obtain ⟨b1, b2, b3⟩ := b
  simp [MLt, Prod.lex_def]

theorem mlt_trans {a b c : Nat × Nat × Nat} (h1 : MLt a b) (h2 : MLt b c) : MLt a c := by
  rw [mlt_iff] at *; omega

/-! ### a non-increasing sequence is eventually constant -/

theorem chain_le (f : Nat → Nat × Nat × Nat) (hm : ∀ n, f (n + 1) = f n ∨ MLt (f (n + 1)) (f n)) (n : Nat) :
    ∀ d, f (n + d) = f n ∨ MLt (f (n + d)) (f n) := by
  intro d
  induction d with
  | zero => exact Or.inl rfl
  | succ d ih =>
    rcases hm (n + d) with h | h <;> rcases ih with g | g
    · left; rw [← Nat.add_assoc] ; rw [h, g]
    · right; rw [← Nat.add_assoc, h]; exact g
    · right; rw [← Nat.add_assoc]; rw [← g]; exact h
    · right; rw [← Nat.add_assoc]; exact mlt_trans h g

theorem stabilizes (f : Nat → Nat × Nat × Nat) (hm : ∀ n, f (n + 1) = f n ∨ MLt (f (n + 1)) (f n)) (n : Nat) :
    ∃ N, n ≤ N ∧ ∀ m, N ≤ m → f m = f N := by
  by_cases h : ∀ d, f (n + d) = f n
  · refine ⟨n, Nat.le_refl _, ?_⟩
    intro m hm'
    have := h (m - n)
    rwa [Nat.add_sub_cancel' hm'] at this
  · have : ∃ d, MLt (f (n + d)) (f n) := by
      apply Classical.byContradiction
      intro hne
      apply h
      intro d
      rcases chain_le f hm n d with g | g
      · exact g
      · exact absurd ⟨d, g⟩ hne
    obtain ⟨d, hd⟩ := this
    obtain ⟨N, hN, hc⟩ := stabilizes f hm (n + d)
    exact ⟨N, by omega, hc⟩
termination_by f n
decreasing_by exact hd

/-! ### what a quiet step does to the measure -/

theorem kDue_advance (s : State) (k : Key) (dt : Nat) (h : kDue s k = true) :
    kDue { s with now := s.now + dt } k = true := by
  simp only [kDue, kRow] at h ⊢
  cases hr : s.rows.find? (fun r => decide (r.key = k)) with
  | none => simp
  | some r =>
    simp only [hr] at h ⊢
    simp only [ready, due, Bool.and_eq_true, decide_eq_true_eq] at h ⊢
    refine ⟨by omega, ?_⟩
    cases hl : r.lastAttempt with
    | none => simp
    | some t => simp only [hl, decide_eq_true_eq] at h ⊢; omega

/-- either nothing the measure looks at besides `todo` / `now` changed and the measure did not
grow, or the measure strictly decreased -/
def StepEffect (s s' : State) (k : Key) : Prop :=
  ((meas2 s' k = meas2 s k ∨ MLt (meas2 s' k) (meas2 s k)) ∧ s'.own = s.own ∧ s'.rows = s.rows ∧ s'.mode = s.mode ∧ s'.cfg = s.cfg) ∨
  (MLt (meas2 s' k) (meas2 s k) ∧ s'.mode = s.mode ∧ s'.cfg = s.cfg)

theorem StepEffect.refl (s : State) (k : Key) : StepEffect s s k :=
  Or.inl ⟨Or.inl rfl, rfl, rfl, rfl, rfl⟩

theorem strict_of_weight {s s' : State} {k : Key} (h : weight s' < weight s) (hm : s'.mode = s.mode)
    (hc : s'.cfg = s.cfg) : StepEffect s s' k :=
  Or.inr ⟨(mlt_iff _ _).mpr (Or.inl h), hm, hc⟩

theorem weight_retag {s : State} (g : Good s) {x : Key} {p p' : Place} (hm : (x, p) ∈ s.own)
    (hw : tagWeight p' < tagWeight p) : weight { s with own := place s.own x p' } < weight s := by
  have h2 := ownWeight_dropKey_of_mem g.ownNodup hm
  simp only [weight, ownWeight_place]; omega

theorem enqueue_effect (s : State) (g : Good s) (k x : Key) (p : Pool) (pl : Place) (hm : (x, pl) ∈ s.own)
    (hpl : tagWeight pl = 4) (hq : (enqueue s x p).2 ≠ .overflow) : StepEffect s (enqueue s x p).1 k := by
  have hx : x ∈ okeys s.own := List.mem_map.mpr ⟨_, hm, rfl⟩
  unfold enqueue at hq ⊢
  split
  · exact strict_of_weight (weight_retag g hm (by rw [hpl]; simp [tagWeight])) rfl rfl
  · rename_i hfull
    simp only [hfull, if_false] at hq
    split
    · rename_i hh; simp [hh] at hq
    · rename_i hh; exact absurd (g.owned_hasKey hx) hh

theorem idxIn_cons_ne (r : Row) (rest : List Row) (k : Key) (h : r.key ≠ k) :
    idxIn (r :: rest) k = idxIn rest k + 1 := by
  simp [idxIn, List.takeWhile_cons, h]

theorem quiet_step_effect (s : State) (g : Good s) (hup : s.mode = .up) (o : Op) (hq : Quiet s o) (k : Key) :
    StepEffect s (step s o) k := by
  cases o with
  | addBegin x d pl =>
    have hh : hasKey s.rows x = true := (hasKey_iff _ _).mpr hq
    have : step s (.addBegin x d pl) = s := by simp [step, stepO, hup, hh]
    rw [this]; exact StepEffect.refl s k
  | addEnq x =>
    simp only [step, stepO]
    split
    · rename_i hp
      have hm := mem_of_placeOf hp
      have hq' : (enqueue s x .inc).2 ≠ .overflow := by simpa [Quiet, stepO, hp] using hq
      exact enqueue_effect s g k x .inc _ hm rfl hq'
    · exact StepEffect.refl s k
  | pollFetch =>
    simp only [step, stepO]
    split
    · rename_i hcond
      left
      refine ⟨?_, rfl, rfl, rfl, rfl⟩
      have htodo : s.todo = [] := hcond.2.1
      have hdue : kDue { s with todo := s.rows.filter fun r => decide (r.status = .failed) } k = kDue s k := rfl
      simp only [meas2, weight, phase, hdue, htodo]
      by_cases hf : isFailed s.rows k
      · simp only [hf, if_true]
        by_cases hd : kDue s k = true
        · right
          obtain ⟨r, hr, hrk, hrs⟩ := hf
          have hin : k ∈ keys (s.rows.filter fun r => decide (r.status = .failed)) :=
            List.mem_map.mpr ⟨r, by simp [hr, hrs], hrk⟩
          rw [mlt_iff]; simp only [hd, if_true, hin]; simp [keys]
        · left; simp [hd]
      · left; simp [hf]
    · exact StepEffect.refl s k
  | pollMark =>
    simp only [step, stepO]
    split
    · exact StepEffect.refl s k
    · rename_i r rest htodo
      have hr : r ∈ s.todo := by rw [htodo]; simp
      obtain ⟨hrm, hrf⟩ := g.todoFailed r hr
      split
      · exact StepEffect.refl s k
      · rename_i hret
        have hretE : withTag s.own .retrying = [] := by simpa using hret
        split
        · split
          · -- marked: one failed row fewer (5), one retrying entry more (4)
            have h1 := failedCount_markPending g.rowsNodup hrm hrf
            have hnot : r.key ∉ okeys s.own := by
              intro hx
              exact not_pending_and_failed g.rowsNodup (g.owned_pending hx) ⟨r, hrm, rfl, hrf⟩
            have hdrop : dropKey s.own r.key = s.own := by
              apply List.filter_eq_self.mpr
              intro e he
              simp only [decide_eq_true_eq]
              intro hk
              exact hnot (List.mem_map.mpr ⟨e, he, hk⟩)
            refine strict_of_weight (s := s) (s' := { s with todo := rest, rows := markPending s.rows r.key, own := place s.own r.key .retrying }) ?_ rfl rfl
            simp only [weight, ownWeight_place, hdrop, tagWeight]; omega
          · rename_i hh
            exact absurd ((hasKey_iff _ _).mpr (List.mem_map.mpr ⟨r, hrm, rfl⟩)) hh
        · -- skipped
          rename_i hnd
          left
          refine ⟨?_, rfl, rfl, rfl, rfl⟩
          have hdue : kDue { s with todo := rest } k = kDue s k := rfl
          simp only [meas2, weight, phase, hdue, htodo]
          by_cases hf : isFailed s.rows k
          · simp only [hf, if_true]
            by_cases hd : kDue s k = true
            · simp only [hd, if_true]
              have hkr : r.key ≠ k := by
                intro he
                obtain ⟨rk, hrk, hrkk, _⟩ := hf
                have : rk = r := row_unique g.rowsNodup hrk hrm (hrkk.trans he.symm)
                subst this
                have : kRow s k = some rk := by unfold kRow; rw [← hrkk]; exact find_row g.rowsNodup hrk
                simp only [kDue, this] at hd
                exact hnd hd
              have hkr' : k ≠ r.key := fun h => hkr h.symm
              have hmem : k ∈ keys (r :: rest) ↔ k ∈ keys rest := by
                simp [keys, hkr']
              by_cases hin : k ∈ keys rest
              · have hin' := hmem.mpr hin
                right
                rw [mlt_iff]
                simp [hin, hin', idxIn_cons_ne r rest k hkr]
              · have hin' : k ∉ keys (r :: rest) := fun h => hin (hmem.mp h)
                right
                rw [mlt_iff]
                simp [hin, hin']
            · left; simp [hd]
          · left; simp [hf]
  | pollEnq =>
    simp only [step, stepO]
    split
    · exact StepEffect.refl s k
    · rename_i x rest hx
      have hm : (x, Place.retrying) ∈ s.own := mem_withTag.mp (by rw [hx]; simp)
      have hq' : (enqueue s x .ret).2 ≠ .overflow := by simpa [Quiet, stepO, hx] using hq
      exact enqueue_effect s g k x .ret _ hm rfl hq'
  | take p =>
    simp only [step, stepO]
    split
    · exact StepEffect.refl s k
    · rename_i x rest hx
      split
      · have hm : (x, Place.queued p) ∈ s.own := mem_withTag.mp (by simp only [queue] at hx; rw [hx]; simp)
        exact strict_of_weight (weight_retag g hm (by simp [tagWeight])) rfl rfl
      · exact StepEffect.refl s k
  | finish x ok =>
    have hok : ok = true := hq
    subst hok
    simp only [step, stepO, if_true]
    split
    · rename_i p hp
      have hm := mem_of_placeOf hp
      refine strict_of_weight (s := s) (s' := { s with own := dropKey s.own x, rows := remove s.rows x }) ?_ rfl rfl
      have h1 := failedCount_remove_le s.rows x
      have h2 := ownWeight_dropKey_of_mem g.ownNodup hm
      simp only [weight, tagWeight] at h2 ⊢; omega
    · exact StepEffect.refl s k
  | advance dt =>
    simp only [step, stepO]
    left
    refine ⟨?_, rfl, rfl, rfl, rfl⟩
    simp only [meas2, weight, phase]
    by_cases hf : isFailed s.rows k
    · simp only [hf, if_true]
      by_cases hd : kDue s k = true
      · left; simp [hd, kDue_advance s k dt hd]
      · by_cases hd' : kDue { s with now := s.now + dt } k = true
        · right; rw [mlt_iff]; simp only [hd, hd', if_true]
          split <;> simp
        · left; simp [hd, hd']
    · left; simp [hf]
  | close => exact absurd hq (by simp [Quiet])
  | crash => exact absurd hq (by simp [Quiet])
  | start inv => exact absurd hq (by simp [Quiet])


/-! ### strictness of the enabled steps -/

theorem StepEffect.le {s s' : State} {k : Key} (h : StepEffect s s' k) :
    meas2 s' k = meas2 s k ∨ MLt (meas2 s' k) (meas2 s k) := by
  rcases h with ⟨h, _⟩ | ⟨h, _⟩
  · exact h
  · exact Or.inr h

theorem StepEffect.strict_of_own {s s' : State} {k : Key} (h : StepEffect s s' k) (ho : s'.own ≠ s.own) :
    MLt (meas2 s' k) (meas2 s k) := by
  rcases h with ⟨_, h, _⟩ | ⟨h, _⟩
  · exact absurd h ho
  · exact h

theorem mlt_irrefl (a : Nat × Nat × Nat) : ¬ MLt a a := by
  rw [mlt_iff]; omega

theorem mem_place_self (own : List (Key × Place)) (x : Key) (p : Place) : (x, p) ∈ place own x p := by
  simp [place]

theorem not_mem_other_tag {own : List (Key × Place)} (hn : (okeys own).Nodup) {x : Key} {p q : Place}
    (hm : (x, p) ∈ own) (hpq : p ≠ q) : (x, q) ∉ own := by
  intro hq
  have h1 := placeOf_of_mem hn hm
  have h2 := placeOf_of_mem hn hq
  rw [h1] at h2
  exact hpq (Option.some.inj h2)

/-- a due failed task at the head region of the poller's list: the next pollMark makes progress -/
theorem strict_pollMark (s : State) (g : Good s) (k : Key) (r : Row) (rest : List Row)
    (htodo : s.todo = r :: rest) (hret : withTag s.own .retrying = []) (hf : isFailed s.rows k)
    (hd : kDue s k = true) : MLt (meas2 (step s .pollMark) k) (meas2 s k) := by
  have hr : r ∈ s.todo := by rw [htodo]; simp
  obtain ⟨hrm, hrf⟩ := g.todoFailed r hr
  have hhas : hasKey s.rows r.key = true := (hasKey_iff _ _).mpr (List.mem_map.mpr ⟨r, hrm, rfl⟩)
  by_cases hdr : (ready r s.now && due s.cfg r s.now) = true
  · -- marked: the weight drops
    have hstep : step s .pollMark = { s with todo := rest, rows := markPending s.rows r.key, own := place s.own r.key .retrying } := by
      simp [step, stepO, htodo, hret, hdr, hhas]
    rw [hstep, mlt_iff]
    left
    have h1 := failedCount_markPending g.rowsNodup hrm hrf
    have hnot : r.key ∉ okeys s.own := by
      intro hx
      exact not_pending_and_failed g.rowsNodup (g.owned_pending hx) ⟨r, hrm, rfl, hrf⟩
    have hdrop : dropKey s.own r.key = s.own := by
      apply List.filter_eq_self.mpr
      intro e he
      simp only [decide_eq_true_eq]
      intro hk
      exact hnot (List.mem_map.mpr ⟨e, he, hk⟩)
    simp only [meas2, weight, ownWeight_place, hdrop, tagWeight]; omega
  · -- skipped: r is not k (k is due), so k moves up or the list shrinks
    have hstep : step s .pollMark = { s with todo := rest } := by
      simp [step, stepO, htodo, hret, hdr]
    have hkr : r.key ≠ k := by
      intro he
      obtain ⟨rk, hrk, hrkk, _⟩ := hf
      have : rk = r := row_unique g.rowsNodup hrk hrm (hrkk.trans he.symm)
      subst this
      have : kRow s k = some rk := by unfold kRow; rw [← hrkk]; exact find_row g.rowsNodup hrk
      simp only [kDue, this] at hd
      exact hdr hd
    have hkr' : k ≠ r.key := fun h => hkr h.symm
    have hdue : kDue { s with todo := rest } k = kDue s k := rfl
    have hmem : k ∈ keys (r :: rest) ↔ k ∈ keys rest := by simp [keys, hkr']
    rw [hstep, mlt_iff]
    simp only [meas2, weight, phase, hdue, htodo, hf, hd, if_true]
    by_cases hin : k ∈ keys rest
    · have hin' := hmem.mpr hin
      simp [hin, hin', idxIn_cons_ne r rest k hkr]
    · have hin' : k ∉ keys (r :: rest) := fun h => hin (hmem.mp h)
      simp [hin, hin']

theorem strict_pollFetch (s : State) (k : Key) (hnd : s.mode ≠ .down) (htodo : s.todo = [])
    (hret : withTag s.own .retrying = []) (hf : isFailed s.rows k) (hd : kDue s k = true) :
    MLt (meas2 (step s .pollFetch) k) (meas2 s k) := by
  have hstep : step s .pollFetch = { s with todo := s.rows.filter fun r => r.status = .failed } := by
    simp [step, stepO, hnd, htodo, hret]
  have hdue : kDue { s with todo := s.rows.filter fun r => decide (r.status = .failed) } k = kDue s k := rfl
  obtain ⟨r, hr, hrk, hrs⟩ := hf
  have hin : k ∈ keys (s.rows.filter fun r => decide (r.status = .failed)) :=
    List.mem_map.mpr ⟨r, by simp [hr, hrs], hrk⟩
  have hf' : isFailed s.rows k := ⟨r, hr, hrk, hrs⟩
  rw [hstep, mlt_iff]
  simp only [meas2, weight, phase, hdue, htodo, hf', hd, if_true, hin]
  simp [keys]

theorem kDue_of_time (s : State) (g : Good s) (k : Key) (r : Row) (hr : r ∈ s.rows) (hk : r.key = k)
    (ht : r.createdAt + r.delay + r.lastAttempt.getD 0 + s.cfg.retryInterval + 1 ≤ s.now) : kDue s k = true := by
  have : kRow s k = some r := by unfold kRow; rw [← hk]; exact find_row g.rowsNodup hr
  simp only [kDue, this, ready, due, Bool.and_eq_true, decide_eq_true_eq]
  refine ⟨by omega, ?_⟩
  cases hl : r.lastAttempt with
  | none => rfl
  | some t => simp only [hl, Option.getD_some, decide_eq_true_eq] at ht ⊢; omega

/-! ### the eventuality -/

structure FairQuiet (s0 : State) (sched : Nat → Op) : Prop where
  quiet : ∀ n, Quiet (traj s0 sched n) (sched n)
  pollFetch : ∀ n, ∃ j, n ≤ j ∧ sched j = .pollFetch
  pollMark : ∀ n, ∃ j, n ≤ j ∧ sched j = .pollMark
  pollEnq : ∀ n, ∃ j, n ≤ j ∧ sched j = .pollEnq
  take : ∀ n p, ∃ j, n ≤ j ∧ sched j = .take p
  addEnq : ∀ n x, placeOf (traj s0 sched n).own x = some .adding → ∃ j, n ≤ j ∧ sched j = .addEnq x
  finish : ∀ n x p, placeOf (traj s0 sched n).own x = some (.running p) → ∃ j, n ≤ j ∧ ∃ b, sched j = .finish x b
  time : ∀ n T, ∃ j, n ≤ j ∧ T ≤ (traj s0 sched j).now

theorem fair_quiet_drains (s0 : State) (g0 : Good s0) (hup0 : s0.mode = .up) (hc0 : WFCfg s0.cfg)
    (sched : Nat → Op) (fair : FairQuiet s0 sched) (k : Key) (hk : k ∈ keys s0.rows) :
    ∃ n, k ∉ keys (traj s0 sched n).rows := by
  apply Classical.byContradiction
  intro hnever
  have hstored : ∀ n, k ∈ keys (traj s0 sched n).rows := by
    intro n
    apply Classical.byContradiction
    intro h; exact hnever ⟨n, h⟩
  -- invariants along the run
  have hinv : ∀ n, Good (traj s0 sched n) ∧ (traj s0 sched n).mode = .up ∧ (traj s0 sched n).cfg = s0.cfg := by
    intro n
    induction n with
    | zero => exact ⟨g0, hup0, rfl⟩
    | succ n ih =>
      obtain ⟨g, hu, hc⟩ := ih
      have e := quiet_step_effect _ g hu (sched n) (fair.quiet n) k
      have hmc : (step (traj s0 sched n) (sched n)).mode = (traj s0 sched n).mode ∧
          (step (traj s0 sched n) (sched n)).cfg = (traj s0 sched n).cfg := by
        rcases e with ⟨_, _, _, a, b⟩ | ⟨_, a, b⟩ <;> exact ⟨a, b⟩
      exact ⟨step_good _ _ g, hmc.1.trans hu, hmc.2.trans hc⟩
  have heff : ∀ n, StepEffect (traj s0 sched n) (traj s0 sched (n + 1)) k :=
    fun n => quiet_step_effect _ (hinv n).1 (hinv n).2.1 (sched n) (fair.quiet n) k
  -- the measure is eventually constant
  obtain ⟨N, _, hconst⟩ := stabilizes (fun n => meas2 (traj s0 sched n) k) (fun n => (heff n).le) 0
  have hnostrict : ∀ m, N ≤ m → ¬ MLt (meas2 (traj s0 sched (m + 1)) k) (meas2 (traj s0 sched m) k) := by
    intro m hm h
    have e1 := hconst m hm
    have e2 := hconst (m + 1) (by omega)
    rw [e1, e2] at h
    exact mlt_irrefl _ h
  -- hence channels, workers and table are frozen from N on
  have hfrozen : ∀ d, (traj s0 sched (N + d)).own = (traj s0 sched N).own ∧
      (traj s0 sched (N + d)).rows = (traj s0 sched N).rows := by
    intro d
    induction d with
    | zero => exact ⟨rfl, rfl⟩
    | succ d ih =>
      rcases heff (N + d) with ⟨_, ho, hr, _, _⟩ | ⟨h, _⟩
      · exact ⟨ho.trans ih.1, hr.trans ih.2⟩
      · exact absurd h (hnostrict (N + d) (by omega))
  have hfro : ∀ m, N ≤ m → (traj s0 sched m).own = (traj s0 sched N).own ∧
      (traj s0 sched m).rows = (traj s0 sched N).rows := by
    intro m hm
    have := hfrozen (m - N)
    rwa [Nat.add_sub_cancel' hm] at this
  -- a strict step at or after N is impossible
  have hcontra : ∀ m, N ≤ m → MLt (meas2 (step (traj s0 sched m) (sched m)) k) (meas2 (traj s0 sched m) k) → False :=
    fun m hm h => hnostrict m hm h
  let S := traj s0 sched N
  have gS := (hinv N).1
  -- A: a worker is executing a task
  by_cases hA : ∃ x p, (x, Place.running p) ∈ S.own
  · obtain ⟨x, p, hm⟩ := hA
    have hpl : placeOf S.own x = some (.running p) := placeOf_of_mem gS.ownNodup hm
    obtain ⟨j, hj, b, hb⟩ := fair.finish N x p hpl
    have hq := fair.quiet j
    rw [hb] at hq
    have hbt : b = true := hq
    subst hbt
    have hown := (hfro j hj).1
    have hplj : placeOf (traj s0 sched j).own x = some (.running p) := by rw [hown]; exact hpl
    have hne : (step (traj s0 sched j) (.finish x true)).own ≠ (traj s0 sched j).own := by
      simp only [step, stepO, hplj, if_true]
      intro he
      have hin : (x, Place.running p) ∈ dropKey (traj s0 sched j).own x := by rw [he, hown]; exact hm
      simp [dropKey] at hin
    have := (heff j).strict_of_own (by simpa [traj, hb] using hne)
    exact hcontra j hj (by simpa [traj, hb] using this)
  -- B: a channel holds a task and its pool is idle
  by_cases hB : ∃ x p, (x, Place.queued p) ∈ S.own
  · obtain ⟨x, p, hm⟩ := hB
    obtain ⟨j, hj, hb⟩ := fair.take N p
    have hown := (hfro j hj).1
    have gj := (hinv j).1
    have hq : queue (traj s0 sched j).own p ≠ [] := fun h => by
      have := mem_withTag.mpr (hown ▸ hm); simp only [queue] at h; rw [h] at this; cases this
    obtain ⟨x2, rest, hq2⟩ := List.exists_cons_of_ne_nil hq
    have hm2 : (x2, Place.queued p) ∈ (traj s0 sched j).own :=
      mem_withTag.mp (by simp only [queue] at hq2; rw [hq2]; simp)
    have hrunE : running (traj s0 sched j).own p = [] := by
      cases hr : running (traj s0 sched j).own p with
      | nil => rfl
      | cons y ys =>
        have : (y, Place.running p) ∈ S.own := hown ▸ mem_withTag.mp (by simp only [running] at hr; rw [hr]; simp)
        exact absurd ⟨y, p, this⟩ hA
    have hw : 0 < workers (traj s0 sched j).cfg p := by
      rw [(hinv j).2.2]
      cases p
      · exact hc0.nIn
      · exact hc0.nRe
    have hne : (step (traj s0 sched j) (.take p)).own ≠ (traj s0 sched j).own := by
      have hst : (step (traj s0 sched j) (.take p)).own = place (traj s0 sched j).own x2 (.running p) := by
        simp [step, stepO, hq2, hrunE, hw]
      rw [hst]
      intro he
      have := mem_place_self (traj s0 sched j).own x2 (.running p)
      rw [he] at this
      exact not_mem_other_tag gj.ownNodup hm2 (by simp) this
    have := (heff j).strict_of_own (by simpa [traj, hb] using hne)
    exact hcontra j hj (by simpa [traj, hb] using this)
  -- C: the poller holds a task it marked pending
  by_cases hC : ∃ x, (x, Place.retrying) ∈ S.own
  · obtain ⟨x, hm⟩ := hC
    obtain ⟨j, hj, hb⟩ := fair.pollEnq N
    have hown := (hfro j hj).1
    have gj := (hinv j).1
    have hq : withTag (traj s0 sched j).own .retrying ≠ [] := fun h => by
      have := mem_withTag.mpr (hown ▸ hm); rw [h] at this; cases this
    obtain ⟨x2, rest, hq2⟩ := List.exists_cons_of_ne_nil hq
    have hm2 : (x2, Place.retrying) ∈ (traj s0 sched j).own := mem_withTag.mp (by rw [hq2]; simp)
    have hqu := fair.quiet j
    rw [hb] at hqu
    have hno : (enqueue (traj s0 sched j) x2 .ret).2 ≠ .overflow := by simpa [Quiet, stepO, hq2] using hqu
    have hne : (step (traj s0 sched j) .pollEnq).own ≠ (traj s0 sched j).own := by
      have hst : step (traj s0 sched j) .pollEnq = (enqueue (traj s0 sched j) x2 .ret).1 := by
        simp [step, stepO, hq2]
      rw [hst]
      intro he
      -- every outcome of enqueue other than overflow re-tags x2 or drops it
      unfold enqueue at he hno
      split at he
      · have := mem_place_self (traj s0 sched j).own x2 (.queued .ret)
        simp only at he
        rw [he] at this
        exact not_mem_other_tag gj.ownNodup hm2 (by simp) this
      · rename_i hfull
        simp only [hfull, if_false] at hno
        split at he
        · rename_i hh; simp [hh] at hno
        · rename_i hh
          exact absurd (gj.owned_hasKey (List.mem_map.mpr ⟨_, hm2, rfl⟩)) hh
    have := (heff j).strict_of_own (by simpa [traj, hb] using hne)
    exact hcontra j hj (by simpa [traj, hb] using this)
  -- D: an Add caller is about to send
  by_cases hD : ∃ x, (x, Place.adding) ∈ S.own
  · obtain ⟨x, hm⟩ := hD
    obtain ⟨j, hj, hb⟩ := fair.addEnq N x (placeOf_of_mem gS.ownNodup hm)
    have hown := (hfro j hj).1
    have gj := (hinv j).1
    have hmj : (x, Place.adding) ∈ (traj s0 sched j).own := hown ▸ hm
    have hpl := placeOf_of_mem gj.ownNodup hmj
    have hqu := fair.quiet j
    rw [hb] at hqu
    have hno : (enqueue (traj s0 sched j) x .inc).2 ≠ .overflow := by simpa [Quiet, stepO, hpl] using hqu
    have hne : (step (traj s0 sched j) (.addEnq x)).own ≠ (traj s0 sched j).own := by
      have hst : step (traj s0 sched j) (.addEnq x) = (enqueue (traj s0 sched j) x .inc).1 := by
        simp [step, stepO, hpl]
      rw [hst]
      intro he
      unfold enqueue at he hno
      split at he
      · have := mem_place_self (traj s0 sched j).own x (.queued .inc)
        simp only at he
        rw [he] at this
        exact not_mem_other_tag gj.ownNodup hmj (by simp) this
      · rename_i hfull
        simp only [hfull, if_false] at hno
        split at he
        · rename_i hh; simp [hh] at hno
        · rename_i hh
          exact absurd (gj.owned_hasKey (List.mem_map.mpr ⟨_, hmj, rfl⟩)) hh
    have := (heff j).strict_of_own (by simpa [traj, hb] using hne)
    exact hcontra j hj (by simpa [traj, hb] using this)
  -- E: nothing is in flight; k is failed and only the poller can move it
  have hownS : S.own = [] := by
    cases ho : S.own with
    | nil => rfl
    | cons e es =>
      obtain ⟨x, pl⟩ := e
      have hm : (x, pl) ∈ S.own := by rw [ho]; simp
      cases pl with
      | adding => exact absurd ⟨x, hm⟩ hD
      | retrying => exact absurd ⟨x, hm⟩ hC
      | queued p => exact absurd ⟨x, p, hm⟩ hB
      | running p => exact absurd ⟨x, p, hm⟩ hA
  have hown : ∀ m, N ≤ m → (traj s0 sched m).own = [] := fun m hm => (hfro m hm).1.trans hownS
  have hrows : ∀ m, N ≤ m → (traj s0 sched m).rows = S.rows := fun m hm => (hfro m hm).2
  obtain ⟨rk, hrk, hrkk⟩ := List.mem_map.mp (hstored N)
  have hrkf : rk.status = .failed := by
    cases hs : rk.status with
    | failed => rfl
    | pending =>
      have hnd : S.mode ≠ .down := by rw [(hinv N).2.1]; simp
      have : k ∈ okeys S.own := (gS.ownPending hnd k).mpr ⟨rk, hrk, hrkk, hs⟩
      rw [hownS] at this; simp [okeys] at this
  have hfail : ∀ m, N ≤ m → isFailed (traj s0 sched m).rows k := fun m hm => by
    rw [hrows m hm]; exact ⟨rk, hrk, hrkk, hrkf⟩
  have hret : ∀ m, N ≤ m → withTag (traj s0 sched m).own .retrying = [] := fun m hm => by
    rw [hown m hm]; rfl
  -- E1: k becomes due (time diverges) and stays due
  obtain ⟨j0, hj0, ht0⟩ := fair.time N (rk.createdAt + rk.delay + rk.lastAttempt.getD 0 + s0.cfg.retryInterval + 1)
  have hdue : ∀ m, j0 ≤ m → kDue (traj s0 sched m) k = true := by
    intro m hm
    have hmono : ∀ d, (traj s0 sched j0).now ≤ (traj s0 sched (j0 + d)).now := by
      intro d
      induction d with
      | zero => exact Nat.le_refl _
      | succ d ih =>
        have : (traj s0 sched (j0 + d)).now ≤ (traj s0 sched (j0 + d + 1)).now := by
          show _ ≤ (step (traj s0 sched (j0 + d)) (sched (j0 + d))).now
          cases sched (j0 + d) <;> simp only [step, stepO, enqueue] <;> (repeat' split) <;> simp
        exact Nat.le_trans ih this
    have hnow := hmono (m - j0)
    rw [Nat.add_sub_cancel' hm] at hnow
    apply kDue_of_time _ (hinv m).1 k rk (by rw [hrows m (by omega)]; exact hrk) hrkk
    rw [(hinv m).2.2]; omega
  -- E2: k due; the poller eventually reaches it
  by_cases hever : ∃ m, j0 ≤ m ∧ (traj s0 sched m).todo ≠ []
  · obtain ⟨m0, hm0, hne0⟩ := hever
    -- a non-empty list stays non-empty: only pollMark shrinks it, and an enabled pollMark is strict
    have hstay : ∀ d, (traj s0 sched (m0 + d)).todo ≠ [] := by
      intro d
      induction d with
      | zero => exact hne0
      | succ d ih =>
        obtain ⟨r, rest, hrr⟩ := List.exists_cons_of_ne_nil ih
        have hmN : N ≤ m0 + d := by omega
        by_cases hb : sched (m0 + d) = .pollMark
        · exfalso
          have := strict_pollMark _ (hinv (m0 + d)).1 k r rest hrr (hret _ hmN) (hfail _ hmN) (hdue _ (by omega))
          exact hcontra (m0 + d) hmN (by rw [hb]; exact this)
        · show (step (traj s0 sched (m0 + d)) (sched (m0 + d))).todo ≠ []
          have hq := fair.quiet (m0 + d)
          have hsame : (step (traj s0 sched (m0 + d)) (sched (m0 + d))).todo = (traj s0 sched (m0 + d)).todo := by
            cases ho : sched (m0 + d) with
            | pollMark => exact absurd ho hb
            | pollFetch => simp [step, stepO, hrr]
            | crash => rw [ho] at hq; exact absurd hq (by simp [Quiet])
            | start inv => rw [ho] at hq; exact absurd hq (by simp [Quiet])
            | close => rw [ho] at hq; exact absurd hq (by simp [Quiet])
            | _ => simp only [step, stepO, enqueue] <;> (repeat' split) <;> rfl
          rw [hsame]; exact ih
    obtain ⟨j, hj, hb⟩ := fair.pollMark m0
    have hne := hstay (j - m0)
    rw [Nat.add_sub_cancel' hj] at hne
    obtain ⟨r, rest, hrr⟩ := List.exists_cons_of_ne_nil hne
    have hjN : N ≤ j := by omega
    have := strict_pollMark _ (hinv j).1 k r rest hrr (hret _ hjN) (hfail _ hjN) (hdue _ (by omega))
    exact hcontra j hjN (by rw [hb]; exact this)
  · -- the list is empty for ever: the next pollFetch picks k up
    obtain ⟨j, hj, hb⟩ := fair.pollFetch j0
    have hjN : N ≤ j := by omega
    have hempty : (traj s0 sched j).todo = [] := by
      apply Classical.byContradiction
      intro h; exact hever ⟨j, hj, h⟩
    have hnd : (traj s0 sched j).mode ≠ .down := by rw [(hinv j).2.1]; simp
    have := strict_pollFetch _ k hnd hempty (hret _ hjN) (hfail _ hjN) (hdue _ hj)
    exact hcontra j hjN (by rw [hb]; exact this)

end KrakenModel.Retry
