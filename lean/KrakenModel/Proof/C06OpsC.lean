import KrakenModel.Proof.C06OpsB
/-
  C06 proof library, part 9: Create (with its evictions) meets `OpOK`; `exec_ok`.
-/
set_option linter.unusedSectionVars false
set_option linter.unusedSimpArgs false
namespace KrakenModel.DiskCrash
open KrakenModel.FS

/-- `MkdirAll` only adds empty directories -/
theorem dir?_mkdirs (cs : List (Call Name)) (hc : ∀ c ∈ cs, ∃ p, c = Call.mkdir p) (cur : FS Name) (q : Path) :
    (applyAll cur cs).dir? q = cur.dir? q ∨ (applyAll cur cs).dir? q = some [] := by
  induction cs generalizing cur with
  | nil => left; rfl
  | cons c cs ih =>
    obtain ⟨p, rfl⟩ := hc _ (List.mem_cons_self ..)
    rw [applyAll_cons]
    rcases ih (fun c' hc' => hc c' (List.mem_cons_of_mem _ hc')) (apply cur (Call.mkdir p)) with h | h
    · rw [h]
      by_cases hq : q = p
      · subst hq
        unfold apply; split
        · right; simp [Call.eff]
        · left; rfl
      · left; exact dir?_apply_of_not_touched _ _ _ (by simpa [Call.touched] using hq)
    · right; exact h

theorem mkdirAllPlan_mkdirs (fs : FS Name) (p : Path) : ∀ c ∈ mkdirAllPlan fs p, ∃ q, c = Call.mkdir q := by
  intro c hc; obtain ⟨i, _, _, rfl⟩ := mkdirAllPlan_mem fs p c hc; exact ⟨_, rfl⟩

/-- `MkdirAll` of a blob directory leaves every other blob directory alone -/
theorem mk_frame_blob {cfg : Cfg} (fs0 fs' : FS Name) (c c' : Bool) (K K' : Key) (k : Nat)
    (hv' : ValidKey cfg K') (hne : K' ≠ K ∨ c' ≠ c) :
    (applyPrefix k (mkdirAllPlan fs0 (dirPath cfg c K)) fs').dir? (dirPath cfg c' K') = fs'.dir? (dirPath cfg c' K') := by
  apply dir?_mkdirAll_prefix
  intro i _ e
  have hl := congrArg List.length e
  rw [dirPath_length cfg c' K' hv', List.length_take] at hl
  have hle := dirPath_length_le cfg c K
  have : (dirPath cfg c K).take i = dirPath cfg c K := List.take_of_length_le (by omega)
  rw [this] at e
  have := dirPath_inj e
  rcases hne with h | h
  · exact h this.2
  · exact h this.1

theorem mk_frame_blob_all {cfg : Cfg} (fs0 fs' : FS Name) (c c' : Bool) (K K' : Key)
    (hv' : ValidKey cfg K') (hne : K' ≠ K ∨ c' ≠ c) :
    (applyAll fs' (mkdirAllPlan fs0 (dirPath cfg c K))).dir? (dirPath cfg c' K') = fs'.dir? (dirPath cfg c' K') := by
  have := mk_frame_blob (cfg := cfg) fs0 fs' c c' K K' (mkdirAllPlan fs0 (dirPath cfg c K)).length hv' hne
  rwa [applyPrefix_all _ _ _ (Nat.le_refl _)] at this

theorem writeAt_nil_zero (b : Bytes) : writeAt [] 0 b = b := by simp [writeAt]

/-- the eviction phase leaves alone every directory that is not the complete directory of an evicted key -/
theorem evict_frame {cfg : Cfg} {blobs mem' : List (Key × Blob)} (ecs : List (Call Name))
    (h6 : ∀ c ∈ ecs, Call.removal c = true ∧ ∃ K b, aget blobs K = some b ∧ b.complete = true ∧
      aget mem' K = none ∧ c.touched = [dirPath cfg true K])
    (fs : FS Name) (k : Nat) (side : Bool) (K' : Key)
    (h : side = false ∨ aget mem' K' ≠ none ∨ aget blobs K' = none ∨ ∃ b, aget blobs K' = some b ∧ b.complete = false) :
    (applyPrefix k ecs fs).dir? (dirPath cfg side K') = fs.dir? (dirPath cfg side K') := by
  apply dir?_applyPrefix_of_not_touched
  intro c hc
  obtain ⟨_, K, b, hb, hbc, hn, ht⟩ := h6 c hc
  rw [ht]; simp only [List.mem_singleton]
  intro e
  have := dirPath_inj e
  rcases h with h | h | h | ⟨b', hb', hc'⟩
  · rw [h] at this; cases this.1
  · rw [this.2] at h; exact h hn
  · rw [this.2] at h; rw [h] at hb; cases hb
  · rw [this.2] at hb'; rw [hb] at hb'; cases hb'; rw [hbc] at hc'; cases hc'

/-- a key that an operation keeps untouched, or removes without touching its other side -/
theorem crashView_kept_or_removed {cfg : Cfg} {m : Mem} {fs : FS Name} (hg : GoodMem cfg m fs) (mf : Mem)
    (fsPost fs' : FS Name) (K' : Key) (hv' : ValidKey cfg K')
    (hmf : aget mf.blobs K' = aget m.blobs K' ∨ aget mf.blobs K' = none)
    (hkeep : aget mf.blobs K' = aget m.blobs K' → ∀ c, fs'.dir? (dirPath cfg c K') = fs.dir? (dirPath cfg c K'))
    (hrem : ∀ b, aget m.blobs K' = some b → aget mf.blobs K' = none →
      fs'.dir? (dirPath cfg (!b.complete) K') = fs.dir? (dirPath cfg (!b.complete) K')) :
    CrashView cfg m fs mf fsPost fs' K' := by
  by_cases he : aget mf.blobs K' = aget m.blobs K'
  · exact crashView_frame hg hv' he (hkeep he)
  · have hn : aget mf.blobs K' = none := by rcases hmf with h | h; exact absurd h he; exact h
    cases hb : aget m.blobs K' with
    | none => rw [hb] at he; exact absurd hn he
    | some b =>
      unfold CrashView
      simp only [hb, hn]
      rw [hrem b hb hn]; exact (hg.blob K' b hb).other

theorem create_ok {cfg : Cfg} {m : Mem} {fs : FS Name} (hfs : GoodFS cfg fs) (hg : GoodMem cfg m fs)
    (o : Order Name) (K : Key) (sz : Nat) (hv : ValidKey cfg K) (hsz : sz < 2 ^ 63) :
    OpOK cfg m fs (create cfg o m fs K sz) := by
  unfold create
  cases hbK : aget m.blobs K with
  | some b => exact opOK_noop hfs hg hg rfl _ (by simp)
  | none =>
    simp only
    obtain ⟨ecs, h1, h2, h3, h4, h5, h6, h7⟩ := evictLoop_spec cfg o sz m.queue m.blobs m.size fs [] hfs hg
    generalize hev : evictLoop cfg o sz m.queue m.blobs m.size fs [] = ev at *
    simp only [List.nil_append] at h1
    have hrm : ∀ c ∈ ecs, Call.removal c = true := fun c hc => (h6 c hc).1
    -- the eviction phase
    have hE : ∀ k side K', (side = false ∨ aget ev.mem.blobs K' ≠ none ∨ aget m.blobs K' = none ∨
        ∃ b, aget m.blobs K' = some b ∧ b.complete = false) →
        (applyPrefix k ecs fs).dir? (dirPath cfg side K') = fs.dir? (dirPath cfg side K') :=
      fun k side K' h => evict_frame ecs h6 fs k side K' h
    have hEall : ∀ side K', (side = false ∨ aget ev.mem.blobs K' ≠ none ∨ aget m.blobs K' = none ∨
        ∃ b, aget m.blobs K' = some b ∧ b.complete = false) →
        (applyAll fs ecs).dir? (dirPath cfg side K') = fs.dir? (dirPath cfg side K') := by
      intro side K' h
      have := hE ecs.length side K' h
      rwa [applyPrefix_all _ _ _ (Nat.le_refl _)] at this
    have hkeepE : ∀ k K', aget ev.mem.blobs K' = aget m.blobs K' →
        ∀ c, (applyPrefix k ecs fs).dir? (dirPath cfg c K') = fs.dir? (dirPath cfg c K') := by
      intro k K' he c
      apply hE
      cases hb : aget m.blobs K' with
      | none => right; right; left; rfl
      | some b => right; left; rw [he, hb]; simp
    have hremE : ∀ k K' b, aget m.blobs K' = some b → aget ev.mem.blobs K' = none →
        (applyPrefix k ecs fs).dir? (dirPath cfg (!b.complete) K') = fs.dir? (dirPath cfg (!b.complete) K') := by
      intro k K' b hb _
      apply hE
      cases hc : b.complete
      · right; right; right; exact ⟨b, hb, hc⟩
      · left; rfl
    have hEview : ∀ k mf fsPost K', ValidKey cfg K' → aget mf.blobs K' = aget ev.mem.blobs K' →
        CrashView cfg m fs mf fsPost (applyPrefix k ecs fs) K' := by
      intro k mf fsPost K' hv' hmf
      exact crashView_kept_or_removed hg mf fsPost _ K' hv' (by rw [hmf]; exact h7 K')
        (fun he => hkeepE k K' (by rw [← hmf]; exact he)) (fun b hb hn => hremE k K' b hb (by rw [← hmf]; exact hn))
    have hfsE : GoodFS cfg (applyAll fs ecs) := goodFS_applyAll_removal _ hfs hrm
    rcases h4 with hok | hns
    · -- enough space after the evictions
      simp only [hok]
      have hKev : aget ev.mem.blobs K = none := by rcases h7 K with h | h; rw [h, hbK]; exact h
      obtain ⟨hinc0, hcomp0⟩ := h3.absent K hv hKev
      rw [h2]
      generalize hfsEdef : applyAll fs ecs = fsE at *
      have hlen := dirPath_length cfg false K hv
      -- MkdirAll
      have hmkwf := mk_wf cfg fsE (dirPath cfg false K) (Nat.le_of_eq hlen)
      have hisdir := (isDir_mkdirAllPlan fsE (dirPath cfg false K)).1
      have hdir1 : (applyAll fsE (mkdirAllPlan fsE (dirPath cfg false K))).dir? (dirPath cfg false K) = some [] := by
        rcases dir?_mkdirs _ (mkdirAllPlan_mkdirs fsE _) fsE (dirPath cfg false K) with h | h
        · exfalso
          have : (applyAll fsE (mkdirAllPlan fsE (dirPath cfg false K))).isDir (dirPath cfg false K) = false := by
            unfold FS.isDir; rw [h, hinc0]; simp [dirPath]
          rw [this] at hisdir; cases hisdir
        · exact h
      have hMpre : ∀ k', (applyPrefix k' (mkdirAllPlan fsE (dirPath cfg false K)) fsE).dir? (dirPath cfg false K) = none ∨
          (applyPrefix k' (mkdirAllPlan fsE (dirPath cfg false K)) fsE).dir? (dirPath cfg false K) = some [] := by
        intro k'
        rcases dir?_mkdirs _ (fun c hc => mkdirAllPlan_mkdirs fsE _ c (List.mem_of_mem_take hc)) fsE (dirPath cfg false K) with h | h
        · left; unfold applyPrefix; rw [h]; exact hinc0
        · right; exact h
      have hMother : ∀ k' c K', ValidKey cfg K' → (K' ≠ K ∨ c ≠ false) →
          (applyPrefix k' (mkdirAllPlan fsE (dirPath cfg false K)) fsE).dir? (dirPath cfg c K') = fsE.dir? (dirPath cfg c K') :=
        fun k' c K' hv' hne => mk_frame_blob fsE fsE false c K K' k' hv' hne
      have hMotherAll : ∀ c K', ValidKey cfg K' → (K' ≠ K ∨ c ≠ false) →
          (applyAll fsE (mkdirAllPlan fsE (dirPath cfg false K))).dir? (dirPath cfg c K') = fsE.dir? (dirPath cfg c K') :=
        fun c K' hv' hne => mk_frame_blob_all fsE fsE false c K K' hv' hne
      simp only [FS.file?, hdir1, aget_nil, Option.isSome_none, Bool.false_eq_true, if_false]
      generalize hmk : mkdirAllPlan fsE (dirPath cfg false K) = mk at *
      generalize hfs1 : applyAll fsE mk = fs1 at *
      -- the remaining calls act inside the new directory
      generalize htail : ([Call.creat (dirPath cfg false K) Name.data] ++
        (if cfg.reboot = true then [Call.creat (dirPath cfg false K) Name.size,
            Call.pwrite (dirPath cfg false K) Name.size 0 (encodeNat sz)] else []) : List (Call Name)) = tail
      have hcalls : ev.calls ++ mk ++ [Call.creat (dirPath cfg false K) Name.data] ++
          (if cfg.reboot = true then [Call.creat (dirPath cfg false K) Name.size,
            Call.pwrite (dirPath cfg false K) Name.size 0 (encodeNat sz)] else []) = ecs ++ (mk ++ tail) := by
        rw [h1, ← htail]; simp [List.append_assoc]
      rw [hcalls]
      have htin : ∀ c ∈ tail, c.inDir (dirPath cfg false K) := by
        intro c hc; rw [← htail] at hc
        simp only [List.mem_append, List.mem_singleton] at hc
        rcases hc with rfl | hc
        · rfl
        · split at hc
          · simp at hc; rcases hc with rfl | rfl <;> rfl
          · simp at hc
      have hTself : ∀ j, (applyPrefix j tail fs1).dir? (dirPath cfg false K) = some (filesAfter (tail.take j) []) := fun j =>
        dir?_applyAll_inDir _ _ _ _ (fun c hc => htin c (List.mem_of_mem_take hc)) hdir1
      have hTother : ∀ j q, q ≠ dirPath cfg false K → (applyPrefix j tail fs1).dir? q = fs1.dir? q := fun j q hq =>
        dir?_applyAll_inDir_other _ _ _ _ (fun c hc => htin c (List.mem_of_mem_take hc)) hq
      -- every prefix lies in one of the three phases
      have hphase : ∀ k, (∃ k', applyPrefix k (ecs ++ (mk ++ tail)) fs = applyPrefix k' ecs fs) ∨
          (∃ k', applyPrefix k (ecs ++ (mk ++ tail)) fs = applyPrefix k' mk fsE) ∨
          (∃ j, applyPrefix k (ecs ++ (mk ++ tail)) fs = applyPrefix j tail fs1) := by
        intro k
        rw [applyPrefix_append]
        by_cases hk1 : k ≤ ecs.length
        · left; exact ⟨k, by simp [hk1]⟩
        · right
          simp only [hk1, if_false, hfsEdef]
          rw [applyPrefix_append]
          by_cases hk2 : k - ecs.length ≤ mk.length
          · left; exact ⟨k - ecs.length, by simp [hk2]⟩
          · right; exact ⟨k - ecs.length - mk.length, by simp [hk2, hfs1]⟩
      have hpost : applyAll fs (ecs ++ (mk ++ tail)) = applyPrefix tail.length tail fs1 := by
        rw [applyPrefix_all _ _ _ (Nat.le_refl _), applyAll_append, applyAll_append, hfsEdef, hfs1]
      -- other keys: untouched after the evictions
      have hother : ∀ k c K', ValidKey cfg K' → (K' ≠ K ∨ c ≠ false) →
          ((∃ k', applyPrefix k (ecs ++ (mk ++ tail)) fs = applyPrefix k' ecs fs) ∨
           (applyPrefix k (ecs ++ (mk ++ tail)) fs).dir? (dirPath cfg c K') = fsE.dir? (dirPath cfg c K')) := by
        intro k c K' hv' hne
        rcases hphase k with h | ⟨k', e⟩ | ⟨j, e⟩
        · left; exact h
        · right; rw [e]; exact hMother k' c K' hv' hne
        · right; rw [e, hTother j _ (by
            intro e'; have := dirPath_inj e'; rcases hne with h | h; exact h this.2; exact h this.1)]
          exact hMotherAll c K' hv' hne
      have hcompK : ∀ k, (applyPrefix k (ecs ++ (mk ++ tail)) fs).dir? (dirPath cfg true K) = none := by
        intro k
        rcases hother k true K hv (Or.inr (by simp)) with ⟨k', e⟩ | h
        · rw [e, hE k' true K (Or.inr (Or.inr (Or.inl hbK)))]; exact (hg.absent K hv hbK).2
        · rw [h]; exact hcomp0
      have hwf : ∀ c ∈ ecs ++ (mk ++ tail), Call.wf cfg c := by
        intro c hc
        simp only [List.mem_append] at hc
        rcases hc with hc | hc | hc
        · exact wf_of_removal cfg c (hrm c hc)
        · exact hmkwf c hc
        · exact inDir_wf (htin c hc) hlen
      -- the final contents of the new directory
      have htailfinal : (aget (filesAfter tail []) Name.data).isSome = true ∧
          (aget (filesAfter tail []) Name.ban).isSome = false ∧
          (cfg.reboot = true → aget (filesAfter tail []) Name.size = some (encodeNat sz)) := by
        rw [← htail]
        by_cases hr : cfg.reboot = true
        · simp [hr, filesAfter, fileEff, aset, aget, writeAt_nil_zero]
        · simp [hr, filesAfter, fileEff, aset, aget]
      refine ⟨hwf, ?_, ?_, by simp, ?_⟩
      · -- the state after Create
        rw [hpost]
        have hfin_other : ∀ c K', ValidKey cfg K' → (K' ≠ K ∨ c ≠ false) →
            (applyPrefix tail.length tail fs1).dir? (dirPath cfg c K') = fsE.dir? (dirPath cfg c K') := by
          intro c K' hv' hne
          rw [hTother _ _ (by
            intro e'; have := dirPath_inj e'; rcases hne with h | h; exact h this.2; exact h this.1)]
          exact hMotherAll c K' hv' hne
        refine ⟨akeys_nodup_aset _ _ _ h3.nodup, ?_, ?_, h3.qnodup, ?_⟩
        · intro K' b'' hK'
          by_cases hne : K' = K
          · subst hne
            simp only [aget_aset_self, Option.some.injEq] at hK'; subst hK'
            refine ⟨hv, ⟨filesAfter tail [], by rw [hTself]; simp, htailfinal.1, htailfinal.2.1, ?_⟩, ?_⟩
            · intro _ hr
              exact ⟨_, htailfinal.2.2 hr, parseSize_encodeNat sz hsz⟩
            · simp only [Bool.not_false]
              rw [hfin_other true K' hv (Or.inr (by simp))]; exact hcomp0
          · rw [aget_aset_ne _ _ _ _ (Ne.symm hne)] at hK'
            have g' := h3.blob K' b'' hK'
            exact goodBlob_frame (fun c => hfin_other c K' g'.valid (Or.inl hne)) g'
        · intro K' hv' hK'
          have hne : K' ≠ K := by intro e; subst e; simp [aget_aset_self] at hK'
          rw [aget_aset_ne _ _ _ _ (Ne.symm hne)] at hK'
          have := h3.absent K' hv' hK'
          exact ⟨by rw [hfin_other _ K' hv' (Or.inl hne)]; exact this.1,
                 by rw [hfin_other _ K' hv' (Or.inl hne)]; exact this.2⟩
        · intro K'
          simp only
          by_cases hne : K' = K
          · subst hne
            simp only [aget_aset_self, Option.some.injEq]
            constructor
            · intro hmem
              obtain ⟨b2, hb2, _⟩ := (h3.queue K').mp hmem
              rw [hKev] at hb2; cases hb2
            · rintro ⟨b2, rfl, h2', _⟩; simp at h2'
          · rw [aget_aset_ne _ _ _ _ (Ne.symm hne)]
            exact h3.queue K'
      · -- every prefix keeps the tree well-shaped
        intro k
        have hs := shape_applyPrefix k _ hfs.shape hwf
        refine ⟨hs.len, hs.nofile, hs.par, ?_⟩
        intro K' hv' ⟨hh1, hh2⟩
        by_cases hne : K' = K
        · subst hne; rw [hcompK k] at hh2; simp at hh2
        · rcases hother k false K' hv' (Or.inl hne) with ⟨k', e⟩ | hf
          · rw [e] at hh1 hh2
            exact (goodFS_applyPrefix_removal k' ecs hfs hrm).one K' hv' ⟨hh1, hh2⟩
          · rcases hother k true K' hv' (Or.inl hne) with ⟨k', e⟩ | ht
            · rw [e] at hh1 hh2
              exact (goodFS_applyPrefix_removal k' ecs hfs hrm).one K' hv' ⟨hh1, hh2⟩
            · rw [hf] at hh1; rw [ht] at hh2
              exact hfsE.one K' hv' ⟨hh1, hh2⟩
      · -- what a crash leaves
        intro k K' hv'
        by_cases hne : K' = K
        · subst hne
          unfold CrashView
          simp only [hbK, aget_aset_self]
          refine ⟨hcompK k, ?_⟩
          rcases hphase k with ⟨k', e⟩ | ⟨k', e⟩ | ⟨j, e⟩
          · left
            rw [e]
            simp only [rebootBlob, FS.file?, hE k' false K' (Or.inl rfl), (hg.absent K' hv hbK).1]
          · left
            rw [e]
            rcases hMpre k' with h | h <;> simp only [rebootBlob, FS.file?, h, aget_nil]
          · rw [e]
            simp only [rebootBlob, FS.file?, hTself j, Bool.false_eq_true, if_false]
            rw [← htail]
            by_cases hr : cfg.reboot = true
            · simp only [hr, if_true]
              match j with
              | 0 => left; simp [filesAfter, aget]
              | 1 => left; simp [filesAfter, fileEff, aset, aget]
              | 2 => left; simp [filesAfter, fileEff, aset, aget, parseSize_nil]
              | j + 3 =>
                right
                simp [filesAfter, fileEff, aset, aget, writeAt_nil_zero, parseSize_encodeNat sz hsz]
            · simp only [hr, Bool.false_eq_true, if_false]
              match j with
              | 0 => left; simp [filesAfter, aget]
              | j + 1 => left; simp [filesAfter, fileEff, aset, aget]
        · have hmf : aget (aset ev.mem.blobs K ⟨sz, false, false⟩) K' = aget ev.mem.blobs K' :=
            aget_aset_ne _ _ _ _ (Ne.symm hne)
          rcases hphase k with ⟨k', e⟩ | hrest
          · rw [e]; exact hEview k' _ _ K' hv' hmf
          · have hd : ∀ c, (applyPrefix k (ecs ++ (mk ++ tail)) fs).dir? (dirPath cfg c K') = fsE.dir? (dirPath cfg c K') := by
              intro c
              rcases hother k c K' hv' (Or.inl hne) with ⟨k', e⟩ | h
              · rcases hrest with ⟨k2, e2⟩ | ⟨j, e2⟩
                · rw [e2]; exact hMother k2 c K' hv' (Or.inl hne)
                · rw [e2, hTother j _ (dirPath_ne_of_key hne)]; exact hMotherAll c K' hv' (Or.inl hne)
              · exact h
            exact crashView_kept_or_removed hg _ _ _ K' hv' (by rw [hmf]; exact h7 K')
              (fun he c => by
                rw [hd c, ← hfsEdef]
                have := hkeepE ecs.length K' (by rw [← hmf]; exact he) c
                rwa [applyPrefix_all _ _ _ (Nat.le_refl _)] at this)
              (fun b hb hn => by
                rw [hd _, ← hfsEdef]
                have := hremE ecs.length K' b hb (by rw [← hmf]; exact hn)
                rwa [applyPrefix_all _ _ _ (Nat.le_refl _)] at this)
    · -- no space: only evictions happened
      simp only [hns]
      rw [h1]
      refine ⟨fun c hc => wf_of_removal cfg c (hrm c hc), h3,
        fun k => goodFS_applyPrefix_removal k ecs hfs hrm, by simp, ?_⟩
      intro k K' hv'
      exact hEview k _ _ K' hv' rfl

end KrakenModel.DiskCrash
