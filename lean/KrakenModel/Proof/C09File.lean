import KrakenModel.Proof.C09Main
import KrakenModel.Proof.C08
/-
  C09, part 8: `tiered.File` handles.  A handle opened from memory stays the handle of the current
  incarnation of its key — or the key is gone from memory — as long as the key is not created again;
  together with the invariant this makes the handle deliver the completed bytes across the flush and
  the eviction from memory (switch-over to the disk copy).
-/
namespace KrakenModel.BlobStore

/-- `s → s'` put no new incarnation under key `k` -/
def NoNew (s s' : State) (k : Key) : Prop :=
  ∀ b', s'.blobs.get k = some b' → ∃ b, s.blobs.get k = some b ∧ b'.inc = b.inc

theorem noNew_refl (s : State) (k : Key) : NoNew s s k := fun b' h => ⟨b', h, rfl⟩

theorem noNew_of_blobs {s s' : State} (h : s'.blobs = s.blobs) (k : Key) : NoNew s s' k := by
  intro b' hb; rw [h] at hb; exact ⟨b', hb, rfl⟩

theorem noNew_trans {s s' s'' : State} {k : Key} (h1 : NoNew s s' k) (h2 : NoNew s' s'' k) : NoNew s s'' k := by
  intro b'' hb''
  obtain ⟨b', hb', e2⟩ := h2 b'' hb''
  obtain ⟨b, hb, e1⟩ := h1 b' hb'
  exact ⟨b, hb, e2.trans e1⟩

theorem noNew_step (s : State) (o : Op) (k : Key) (h : ∀ n d, o ≠ .create k n d) : NoNew s (step s o) k := by
  intro b' hb'
  rcases step_blob s o k b' hb' with ⟨b, hb, hi, _⟩ | ⟨n, d, ho, _⟩
  · exact ⟨b, hb, hi⟩
  · exact absurd ho (h n d)

end KrakenModel.BlobStore

namespace KrakenModel.Tiered
open KrakenModel KrakenModel.BlobStore

theorem noNew_ban (s : State) (k0 : Key) (sc : Scope) (k : Key) : NoNew s (ban s k0 sc).1 k :=
  noNew_step s (.ban k0 sc) k (by intro n d h; cases h)
theorem noNew_unban (s : State) (k0 : Key) (sc : Scope) (k : Key) : NoNew s (unban s k0 sc).1 k :=
  noNew_step s (.unban k0 sc) k (by intro n d h; cases h)
theorem noNew_setMd (s : State) (k0 : Key) (sc : Scope) (m : Md) (k : Key) : NoNew s (setMd s k0 sc m).1 k :=
  noNew_step s (.setMd k0 sc m) k (by intro n d h; cases h)
theorem noNew_delMd (s : State) (k0 : Key) (sc : Scope) (sfx : Nat) (k : Key) : NoNew s (delMd s k0 sc sfx).1 k :=
  noNew_step s (.delMd k0 sc sfx) k (by intro n d h; cases h)
theorem noNew_markComplete (s : State) (k0 : Key) (k : Key) : NoNew s (markComplete s k0).1 k :=
  noNew_step s (.markComplete k0) k (by intro n d h; cases h)
theorem noNew_delete (s : State) (k0 : Key) (sc : Scope) (k : Key) : NoNew s (delete s k0 sc).1 k :=
  noNew_step s (.delete k0 sc) k (by intro n d h; cases h)
theorem noNew_openB (s : State) (k0 : Key) (sc : Scope) (k : Key) : NoNew s (openB s k0 sc).1 k :=
  noNew_step s (.open k0 sc) k (by intro n d h; cases h)
theorem noNew_create (s : State) (k0 : Key) (n : Nat) (d : Bytes) (k : Key) (hk : k0 ≠ k) : NoNew s (create s k0 n d).1 k :=
  noNew_step s (.create k0 n d) k (by intro n' d' h; injection h with h1; exact hk h1)

theorem noNew_markMetadataDirty (t : TState) (k0 : Key) (sfx : Nat) (k : Key) :
    NoNew t.mem (markMetadataDirty t k0 sfx).mem k := by
  rcases markMetadataDirty_mem t k0 sfx with h | h
  · rw [h]; exact noNew_refl _ _
  · rw [h]; exact noNew_ban _ _ _ _

/-- no client operation other than `Create k` puts a new incarnation under `k` in memory -/
theorem noNew_capply (t : TState) (o : COp) (k : Key) (h : ∀ n d, o ≠ .create k n d) :
    NoNew t.mem (capply t o).1.mem k := by
  cases o with
  | create k0 n d =>
    have hk : k0 ≠ k := fun e => h n d (by rw [e])
    simp only [capply, tCreate]
    split
    · exact noNew_refl _ _
    · split <;> first | exact noNew_create _ _ _ _ _ hk | (split <;> exact noNew_create _ _ _ _ _ hk)
  | «open» k0 sc =>
    simp only [capply, tOpen]
    split
    · exact noNew_openB _ _ _ _
    · split <;> exact noNew_refl _ _
    · exact noNew_refl _ _
  | has k0 sc => simp only [capply, tHas]; split <;> exact noNew_refl _ _
  | list sc => exact noNew_refl _ _
  | stat k0 sc => simp only [capply, tStat]; split <;> exact noNew_refl _ _
  | markComplete k0 =>
    simp only [capply, tMarkComplete]
    split
    · exact noNew_refl _ _
    · split
      · exact noNew_refl _ _
      · split
        · exact noNew_refl _ _
        · split
          · show NoNew t.mem (markDirty _ _ _).mem k
            exact noNew_trans (noNew_ban _ _ _ _) (noNew_markComplete _ _ _)
          · exact noNew_trans (noNew_ban _ _ _ _) (noNew_markComplete _ _ _)
        · exact noNew_ban _ _ _ _
  | delete k0 sc =>
    simp only [capply, tDelete]
    split
    · exact noNew_refl _ _
    · exact noNew_refl _ _
    · exact noNew_delete _ _ _ _
    · exact noNew_delete _ _ _ _
  | setMd k0 sc m =>
    simp only [capply, tSetMd]
    split
    · exact noNew_refl _ _
    · exact noNew_refl _ _
    · exact noNew_trans (noNew_trans (noNew_ban _ _ _ _) (noNew_setMd _ _ _ _ _)) (noNew_markMetadataDirty _ _ _ _)
    · exact noNew_ban _ _ _ _
  | getMd k0 sc sfx => simp only [capply, tGetMd]; split <;> exact noNew_refl _ _
  | delMd k0 sc sfx =>
    simp only [capply, tDelMd]
    split
    · exact noNew_refl _ _
    · exact noNew_refl _ _
    · exact noNew_trans (noNew_trans (noNew_ban _ _ _ _) (noNew_delMd _ _ _ _ _)) (noNew_markMetadataDirty _ _ _ _)
    · exact noNew_ban _ _ _ _

theorem noNew_copyStep (t : TState) (w : Worker) (pick : Nat) (k : Key) :
    NoNew t.mem (copyStep t w pick).1.mem k := by
  unfold copyStep
  repeat' split
  all_goals exact noNew_refl _ _

/-- the flush worker never puts a new incarnation into memory -/
theorem noNew_wstep (t : TState) (w : Worker) (pick : Nat) (k : Key) :
    NoNew t.mem (wstep t w pick).1.mem k := by
  unfold wstep
  repeat' split
  all_goals first
    | exact noNew_refl _ _
    | exact noNew_openB _ _ _ _
    | exact noNew_unban _ _ _ _
    | exact noNew_copyStep _ _ _ _
    | (simp only; repeat' split
       all_goals exact noNew_refl _ _)

theorem noNew_tstep (t : TState) (a : Act) (k : Key) (h : ∀ n d, a ≠ .client (.create k n d)) :
    NoNew t.mem (tstep t a).mem k := by
  cases a with
  | client o => exact noNew_capply t o k (fun n d e => h n d (by rw [e]))
  | work i pick =>
    simp only [tstep]
    split
    · exact noNew_refl _ _
    · exact noNew_wstep _ _ _ _

/-- the handle `(k, inc)` is the handle of what memory holds under `k`, if it holds anything -/
def Current (t : TState) (k : Key) (inc : Nat) : Prop := ∀ m, t.mem.blobs.get k = some m → m.inc = inc

theorem current_step {t : TState} {k : Key} {inc : Nat} (hc : Current t k inc) (a : Act)
    (h : ∀ n d, a ≠ .client (.create k n d)) : Current (tstep t a) k inc := by
  intro m hm
  obtain ⟨b, hb, e⟩ := noNew_tstep t a k h m hm
  rw [e]; exact hc b hb

/-- **a handle stays current**: along any schedule that does not create `k` again -/
theorem current_run {k : Key} {inc : Nat} (sched : List Act) :
    ∀ (t : TState), Current t k inc → (∀ a ∈ sched, ∀ n d, a ≠ .client (.create k n d)) →
      Current (trun t sched) k inc := by
  induction sched with
  | nil => intro t hc _; exact hc
  | cons a sched ih =>
    intro t hc hs
    simp only [trun, List.foldl_cons]
    exact ih _ (current_step hc a (hs a (List.mem_cons_self))) (fun a' ha' => hs a' (List.mem_cons_of_mem _ ha'))

/-- what a current handle of a completed blob delivers: the completed bytes — from memory while the
    blob is there, from the disk copy (switch-over by key) once it has been flushed and evicted -/
theorem content_of_current {s : GState} (hi : Inv2 s) {k : Key} {B : Bytes} {inc off : Nat}
    (hdn : s.g.done k = some B) (hx : k ∉ s.t.diskEvicted) (hc : Current s.t k inc) :
    tfContent s.t { key := k, mem := some inc, moff := off } = some B := by
  have hk := hi.key k
  simp only [tfContent]
  cases hM : s.t.mem.blobs.get k with
  | some m =>
    have hinc := hc m hM
    rw [hBlob_of_get hM hinc]
    simp only
    rw [(hk.done_m B m hdn hx hM).1]
  | none =>
    have hb : hBlob s.t.mem { key := k, inc := inc } = none := by simp [hBlob, hM]
    rw [hb]
    obtain ⟨d, hD, hcm, hdat, _⟩ := hk.done_d B hdn hx (.inl hM)
    simp only [tfSwitch, openB_eq hD (inScope_any d)]
    simp only [diskData]
    have : hBlob (openB s.t.disk k .any).1 { key := k, inc := d.inc } = some d := by
      apply hBlob_of_get _ rfl
      rw [openB_blobs]; exact hD
    rw [openB_eq hD (inScope_any d)] at this
    rw [this]; simp [hdat]

end KrakenModel.Tiered
