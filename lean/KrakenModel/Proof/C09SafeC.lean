import KrakenModel.Proof.C09SafeW
/-
  C09, part 6: every client operation preserves `Inv2` (given the schedule hypothesis `pre` for `Create`).
-/
namespace KrakenModel.Tiered
open KrakenModel KrakenModel.BlobStore

/-! ### metadata bookkeeping -/

theorem mdGet_set_cases (mds : List Md) (m : Md) (sfx : Nat) :
    mdGet (mdSet mds m) sfx = if sfx = m.sfx then some m else mdGet mds sfx := by
  by_cases h : sfx = m.sfx
  · subst h; simp [mdGet_mdSet_self]
  · simp [h, mdGet_mdSet_ne _ _ (fun e => h e.symm)]

theorem mdGet_del_cases (mds : List Md) (s0 sfx : Nat) :
    mdGet (mdDel mds s0) sfx = if sfx = s0 then none else mdGet mds sfx := by
  by_cases h : sfx = s0
  · subst h; simp [mdGet_mdDel_self]
  · simp [h, mdGet_mdDel_ne _ (fun e => h e.symm)]

theorem mdAgree_set {mds : List Md} {gm : Nat → Option Md} (h : MdAgree mds gm) (m : Md) :
    MdAgree (mdSet mds m) (upd gm m.sfx (some m)) := by
  intro sfx
  rw [mdGet_set_cases]
  by_cases e : sfx = m.sfx
  · simp [e, upd]
  · simp [e, upd, h sfx]

theorem mdAgree_del {mds : List Md} {gm : Nat → Option Md} (h : MdAgree mds gm) (s0 : Nat) :
    MdAgree (mdDel mds s0) (upd gm s0 none) := by
  intro sfx
  rw [mdGet_del_cases]
  by_cases e : sfx = s0
  · simp [e, upd]
  · simp [e, upd, h sfx]

theorem mdAgree_filter {mds : List Md} {gm : Nat → Option Md} (h : MdAgree mds gm)
    (hn : (mds.map (·.sfx)).Nodup) :
    MdAgree (mds.filter (·.movable)) (fun sfx => (gm sfx).filter (·.movable)) := by
  intro sfx
  rw [mdGet_filter_movable mds hn sfx, h sfx]

/-- a metadata mutation at suffix `s0` of the memory blob, with `s0` marked dirty, keeps the phase
    facts of the worker that holds the entry -/
theorem phaseW_md {w : Worker} {m m' : Blob} {d : Option Blob} {B : Bytes} {dirty dirty' : List Nat} (s0 : Nat)
    (h : PhaseW w m d B dirty) (hinc : m'.inc = m.inc)
    (hmd : ∀ sfx, sfx ≠ s0 → mdGet m'.mds sfx = mdGet m.mds sfx)
    (hs0 : s0 ∈ dirty') (hsub : ∀ x ∈ dirty, x ∈ dirty') : PhaseW w m' d B dirty' := by
  have hcov : ∀ (extra : List Nat) (dm : List Md), Cover (dirty ++ extra) dm m.mds → Cover (dirty' ++ extra) dm m'.mds := by
    intro extra dm hc sfx
    by_cases e : sfx = s0
    · subst e; exact .inl (List.mem_append_left _ hs0)
    · rcases hc sfx with h1 | h1
      · rcases List.mem_append.mp h1 with h2 | h2
        · exact .inl (List.mem_append_left _ (hsub _ h2))
        · exact .inl (List.mem_append_right _ h2)
      · exact .inr (by rw [hmd sfx e]; exact h1)
  have hcov0 : ∀ (dm : List Md), Cover dirty dm m.mds → Cover dirty' dm m'.mds := by
    intro dm hc
    have := hcov [] dm (by simpa using hc)
    simpa using this
  unfold PhaseW at h ⊢
  split at h
  · exact ⟨h.1, hcov0 _ h.2⟩
  · exact ⟨h.1, hcov0 _ h.2.1, by rw [hinc]; exact h.2.2⟩
  · exact ⟨h.1, hcov0 _ h.2.1, by rw [hinc]; exact h.2.2⟩
  · exact ⟨h.1, hcov0 _ h.2.1, by rw [hinc]; exact h.2.2⟩
  · exact ⟨h.1, hcov0 _ h.2.1, by rw [hinc]; exact h.2.2⟩
  · exact ⟨h.1, h.2.1, hcov0 _ h.2.2⟩
  · exact ⟨h.1, fun b hb => hcov0 _ (h.2 b hb)⟩
  · exact ⟨h.1, fun b hb => hcov _ _ (h.2 b hb)⟩
  · rename_i _ sfxw v todo _
    refine ⟨h.1, h.2.1, fun b hb sfx' => ?_⟩
    by_cases e : sfx' = s0
    · subst e; exact .inl hs0
    · rcases h.2.2 b hb sfx' with h1 | h1 | h1
      · exact .inl (hsub _ h1)
      · exact .inr (.inl h1)
      · right; right
        by_cases e2 : sfx' = sfxw
        · subst e2
          simp only [if_true] at h1 ⊢
          rw [hmd _ e]; exact h1
        · simp only [e2, if_false] at h1 ⊢
          rw [hmd _ e]; exact h1
  · exact ⟨h.1, fun b hb => hcov0 _ (h.2 b hb)⟩
  · exact h

theorem phaseQ_md {e e' : FEntry} {m m' : Blob} {d : Option Blob} {B : Bytes} (s0 : Nat)
    (h : PhaseQ e m d B) (hdd : e'.dataDirty = e.dataDirty)
    (hmd : ∀ sfx, sfx ≠ s0 → mdGet m'.mds sfx = mdGet m.mds sfx)
    (hs0 : s0 ∈ e'.dirtyMD) (hsub : ∀ x ∈ e.dirtyMD, x ∈ e'.dirtyMD) : PhaseQ e' m' d B := by
  have hcov0 : ∀ (dm : List Md), Cover e.dirtyMD dm m.mds → Cover e'.dirtyMD dm m'.mds := by
    intro dm hc sfx
    by_cases e0 : sfx = s0
    · subst e0; exact .inl hs0
    · rcases hc sfx with h1 | h1
      · exact .inl (hsub _ h1)
      · exact .inr (by rw [hmd sfx e0]; exact h1)
  unfold PhaseQ at h ⊢
  rw [hdd]
  split
  · rename_i hd; simp only [hd, if_true] at h; exact ⟨h.1, hcov0 _ h.2⟩
  · rename_i hd; simp only [hd, if_false] at h; exact ⟨h.1, fun b hb => hcov0 _ (h.2 b hb)⟩

/-! ### operations that change nothing the invariant can see -/

theorem inv2_invisible {s s' : GState} (hi : Inv2 s) (hi1 : Inv1 s')
    (hm : s'.t.mem.blobs = s.t.mem.blobs) (hd : s'.t.disk.blobs = s.t.disk.blobs)
    (hf : s'.t.fmap = s.t.fmap) (he : s'.t.ents = s.t.ents) (hq : s'.t.queue = s.t.queue)
    (hn : s'.t.nextEnt = s.t.nextEnt) (hx : s'.t.diskEvicted = s.t.diskEvicted)
    (hw : s'.t.workers = s.t.workers) (hg : s'.g = s.g) : Inv2 s' := by
  refine { inv1 := hi1, key := ?_, det := ?_, went := ?_ }
  · intro k
    exact kinv_frame (hi.key k) hi.inv1 (.inl (by rw [hm])) (.inl (by rw [hd])) (fun h => by rw [← hx]; exact h)
      (by rw [hf]) (by rw [hn]; exact Nat.le_refl _) (fun _ _ => by rw [he]) (by rw [hg]; exact ⟨rfl, rfl, rfl, rfl⟩)
      (.inl (by rw [hq])) (fun _ _ _ _ _ => by rw [hw])
  · intro i w hw' h1 h2 h3 hne
    rw [hw] at hw'; rw [hf] at hne; rw [hg]
    exact hi.det i w hw' h1 h2 h3 hne
  · intro i w hw' h1 h2
    rw [hw] at hw'; rw [hn, he]
    exact hi.went i w hw' h1 h2

theorem gclient_read (g : Ghost) (o : COp) (out : Out)
    (h : match o with | .open _ _ | .has _ _ | .list _ | .stat _ _ | .getMd _ _ _ => True | _ => False) :
    gclient g o out = g := by
  cases o <;> simp at h <;> cases out <;> rfl

theorem inv2_reads {s : GState} (hi : Inv2 s) (o : COp)
    (h : match o with | .open _ _ | .has _ _ | .list _ | .stat _ _ | .getMd _ _ _ => True | _ => False) :
    Inv2 (gstep s (.client o)) := by
  have hi1 := inv1_client hi.inv1 o
  have hg : (gstep s (.client o)).g = s.g := gclient_read _ _ _ h
  cases o with
  | «open» k sc =>
    refine inv2_invisible hi hi1 ?_ ?_ ?_ ?_ ?_ ?_ ?_ ?_ hg <;>
      (simp only [gstep, capply, tOpen]; split)
    all_goals first
      | exact openB_blobs _ _ _
      | rfl
      | (split <;> first | exact openB_blobs _ _ _ | rfl)
  | has k sc =>
    refine inv2_invisible hi hi1 ?_ ?_ ?_ ?_ ?_ ?_ ?_ ?_ hg <;> (simp only [gstep, capply, tHas]; split <;> rfl)
  | list sc => exact inv2_invisible hi hi1 rfl rfl rfl rfl rfl rfl rfl rfl hg
  | stat k sc =>
    refine inv2_invisible hi hi1 ?_ ?_ ?_ ?_ ?_ ?_ ?_ ?_ hg <;> (simp only [gstep, capply, tStat]; split <;> rfl)
  | getMd k sc sfx =>
    refine inv2_invisible hi hi1 ?_ ?_ ?_ ?_ ?_ ?_ ?_ ?_ hg <;> (simp only [gstep, capply, tGetMd]; split <;> rfl)
  | create _ _ _ => simp at h
  | markComplete _ => simp at h
  | delete _ _ => simp at h
  | setMd _ _ _ => simp at h
  | delMd _ _ _ => simp at h

/-! ### assembling a client operation on key `k0` -/

theorem inv2_client_active {s s' : GState} (hi : Inv2 s) (hi1 : Inv1 s') (k0 : Key)
    (hws : s'.t.workers = s.t.workers)
    (hmem : OnlyKey s.t.mem s'.t.mem k0)
    (hdisk : ∀ k, k ≠ k0 → s'.t.disk.blobs.get k = s.t.disk.blobs.get k ∨
      (s'.t.disk.blobs.get k = none ∧ k ∈ s'.t.diskEvicted))
    (hx : ∀ k, k ≠ k0 → k ∉ s'.t.diskEvicted → k ∉ s.t.diskEvicted)
    (hfm : ∀ k, k ≠ k0 → fget s'.t.fmap k = fget s.t.fmap k)
    (hn : s.t.nextEnt ≤ s'.t.nextEnt)
    (hents : ∀ k id, k ≠ k0 → fget s.t.fmap k = some id → lookupEnt s'.t.ents id = lookupEnt s.t.ents id)
    (hentk : ∀ id e, id < s.t.nextEnt → lookupEnt s.t.ents id = some e →
      ∃ e', lookupEnt s'.t.ents id = some e' ∧ e'.key = e.key)
    (hghost : ∀ k, k ≠ k0 → s'.g.live k = s.g.live k ∧ s'.g.done k = s.g.done k ∧
      s'.g.content k = s.g.content k ∧ s'.g.md k = s.g.md k)
    (hq : ∀ k, k ≠ k0 → s'.t.queue.count k = s.t.queue.count k)
    (hk0 : KInv s' k0)
    (hdet0 : ∀ (i : Nat) (x : Worker), s.t.workers[i]? = some x → x.pc ≠ .idle → x.pc ≠ .next → x.pc ≠ .unban →
      x.key = k0 → fget s'.t.fmap k0 ≠ some x.ent → s'.g.live k0 = false) : Inv2 s' := by
  have hfr : Frame s s' k0 :=
    { mem := hmem, disk := hdisk, x := hx, fmap := hfm, next := hn, ents := hents, ghost := hghost
      queue := fun k hk => .inl (hq k hk)
      workers := fun _ _ _ _ _ _ _ => by rw [hws] }
  refine inv2_of_active hi hi1 k0 hfr hk0 ?_ ?_
  · intro i x hx' h1 h2 h3 hne
    rw [hws] at hx'
    by_cases hk : x.key = k0
    · rw [hk] at hne ⊢; exact hdet0 i x hx' h1 h2 h3 hk hne
    · rw [hfm _ hk] at hne
      rw [(hghost _ hk).1]
      exact hi.det i x hx' h1 h2 h3 hne
  · intro i x hx' h1 h2
    rw [hws] at hx'
    obtain ⟨a, e, b, c⟩ := hi.went i x hx' h1 h2
    obtain ⟨e', b', c'⟩ := hentk _ e a b
    exact ⟨by omega, e', b', c'.trans c⟩

/-- a key that is nowhere and not completed satisfies its invariant -/
theorem kinv_dead {s' : GState} {k : Key} (hl : s'.g.live k = false) (hdn : s'.g.done k = none)
    (hM : s'.t.mem.blobs.get k = none) (hD : s'.t.disk.blobs.get k = none) (hE : fget s'.t.fmap k = none) :
    KInv s' k := by
  refine { gl := ?_, fresh := ?_, nd_m := ?_, nd_d := ?_, cm := ?_, cd := ?_,
           inc_m := ?_, inc_d := ?_, done_m := ?_, done_d := ?_,
           phw := ?_, phq := ?_, entc := ?_, q0 := ?_, q1 := ?_ }
  · intro h; rw [hdn] at h; simp at h
  · intro id he; rw [hE] at he; simp at he
  · intro m hm; rw [hM] at hm; simp at hm
  · intro d hd; rw [hD] at hd; simp at hd
  · intro m hm; rw [hM] at hm; simp at hm
  · intro d hd; rw [hD] at hd; simp at hd
  · intro m _ hm; rw [hM] at hm; simp at hm
  · intro d _ _ hd; rw [hD] at hd; simp at hd
  · intro B m h; rw [hdn] at h; simp at h
  · intro B h; rw [hdn] at h; simp at h
  · intro B m id j x h; rw [hdn] at h; simp at h
  · intro B m id e h; rw [hdn] at h; simp at h
  · intro id m he; rw [hE] at he; simp at he
  · intro h; rw [hl] at h; simp at h
  · intro id he; rw [hE] at he; simp at he

theorem ghost_delete_ok (g : Ghost) (k : Key) (sc : Scope) :
    gclient g (.delete k sc) .ok =
      { g with live := upd g.live k false, done := upd g.done k none, md := upd g.md k (fun _ => none) } := rfl

theorem ghost_delete_err (g : Ghost) (k : Key) (sc : Scope) (e : Err) : gclient g (.delete k sc) (.err e) = g := rfl

theorem inv2_delete {s : GState} (hi : Inv2 s) (k : Key) (sc : Scope) : Inv2 (gstep s (.client (.delete k sc))) := by
  have hi1 := inv1_client hi.inv1 (.delete k sc)
  obtain ⟨hgm, hgd⟩ := hi.inv1.good
  revert hi1
  simp only [gstep, capply]
  unfold tDelete
  have hdo := delete_out s.t.mem k sc
  cases hM : s.t.mem.blobs.get k with
  | none =>
    simp only [hM] at hdo
    simp only [hdo]
    have hE : fget s.t.fmap k = none := by
      cases h : fget s.t.fmap k with
      | none => rfl
      | some id => obtain ⟨m, hm, _⟩ := hi.inv1.ent k id h; rw [hM] at hm; simp at hm
    have hdd := delete_out s.t.disk k sc
    cases hD : s.t.disk.blobs.get k with
    | none =>
      simp only [hD] at hdd
      rw [delete_none hD] at hdd ⊢
      intro hi1
      exact inv2_invisible hi hi1 rfl rfl rfl rfl rfl rfl rfl rfl rfl
    | some d =>
      simp only [hD] at hdd
      cases hs : inScope d sc
      · simp only [hs] at hdd
        rw [delete_oos hD hs]
        intro hi1
        exact inv2_invisible hi hi1 rfl rfl rfl rfl rfl rfl rfl rfl rfl
      · simp only [hs, if_true] at hdd
        simp only [hdd, ghost_delete_ok]
        intro hi1
        refine inv2_client_active hi hi1 k rfl (onlyKey_refl _ _)
          (fun k' hk' => .inl (touch_other (touch_delete _ _ _) k' hk')) (fun _ _ h => h) (fun _ _ => rfl)
          (Nat.le_refl _) (fun _ _ _ _ => rfl) (fun id e _ he => ⟨e, he, rfl⟩)
          (fun k' hk' => by simp [upd_ne _ _ hk']) (fun _ _ => rfl) ?_ ?_
        · refine kinv_dead (by simp [upd_self]) (by simp [upd_self]) hM ?_ hE
          show (delete s.t.disk k sc).1.blobs.get k = none
          rw [delete_get_self, hD]; simp [hs]
        · intro i x _ _ _ _ _ _; simp [upd_self]
  | some b =>
    simp only [hM] at hdo
    cases hs : inScope b sc
    · simp only [hs] at hdo
      simp only [hdo, ghost_delete_err]
      intro hi1
      exact inv2_invisible hi hi1 rfl rfl rfl rfl rfl rfl rfl rfl rfl
    · simp only [hs, if_true] at hdo
      simp only [hdo, ghost_delete_ok]
      intro hi1
      refine inv2_client_active hi hi1 k rfl (onlyKey_of_touch (touch_delete _ _ _))
        (fun k' hk' => .inl (touch_other (touch_delete _ _ _) k' hk')) (fun _ _ h => h)
        (fun k' hk' => by show fget (fdel s.t.fmap k) k' = _; rw [fget_fdel_ne _ hk'])
        (Nat.le_refl _) (fun _ _ _ _ => rfl) (fun id e _ he => ⟨e, he, rfl⟩)
        (fun k' hk' => by simp [upd_ne _ _ hk']) (fun _ _ => rfl) ?_ ?_
      · refine kinv_dead (by simp [upd_self]) (by simp [upd_self]) ?_ ?_ ?_
        · show (delete s.t.mem k sc).1.blobs.get k = none
          rw [delete_get_self, hM]; simp [hs]
        · show (delete s.t.disk k .any).1.blobs.get k = none
          rw [delete_get_self]; cases s.t.disk.blobs.get k <;> simp [inScope]
        · show fget (fdel s.t.fmap k) k = none; simp
      · intro i x _ _ _ _ _ _; simp [upd_self]

theorem ghost_create_ok (g : Ghost) (k : Key) (n : Nat) (d : Bytes) :
    gclient g (.create k n d) .ok =
      { live := upd g.live k true, content := upd g.content k d, done := upd g.done k none,
        md := upd g.md k (fun _ => none) } := rfl

theorem ghost_create_err (g : Ghost) (k : Key) (n : Nat) (d : Bytes) (e : Err) :
    gclient g (.create k n d) (.err e) = g := rfl

/-- the key facts of a freshly created, incomplete blob (in memory or, after the fallback, on disk) -/
theorem kinv_created {s' : GState} {k : Key} {d : Bytes}
    (hl : s'.g.live k = true) (hdn : s'.g.done k = none) (hc : s'.g.content k = d) (hmd : s'.g.md k = fun _ => none)
    (hE : fget s'.t.fmap k = none) (hq : k ∉ s'.t.queue)
    (hMD : (∃ b, s'.t.mem.blobs.get k = some b ∧ b.complete = false ∧ b.data = d ∧ b.mds = [] ∧
              s'.t.disk.blobs.get k = none) ∨
           (s'.t.mem.blobs.get k = none ∧ ∃ b, s'.t.disk.blobs.get k = some b ∧ b.complete = false ∧
              b.data = d ∧ b.mds = [])) : KInv s' k := by
  have hag : MdAgree [] (s'.g.md k) := by intro sfx; rw [hmd]; rfl
  refine { gl := ?_, fresh := ?_, nd_m := ?_, nd_d := ?_, cm := ?_, cd := ?_,
           inc_m := ?_, inc_d := ?_, done_m := ?_, done_d := ?_,
           phw := ?_, phq := ?_, entc := ?_, q0 := ?_, q1 := ?_ }
  · intro h; rw [hdn] at h; simp at h
  · intro id he; rw [hE] at he; simp at he
  · intro m hm
    rcases hMD with ⟨b, hb, _, _, hmds, _⟩ | ⟨hn, _⟩
    · rw [hb] at hm; simp at hm; subst hm; simp [SfxNodup, hmds]
    · rw [hn] at hm; simp at hm
  · intro x hx
    rcases hMD with ⟨_, _, _, _, _, hn⟩ | ⟨_, b, hb, _, _, hmds⟩
    · rw [hn] at hx; simp at hx
    · rw [hb] at hx; simp at hx; subst hx; simp [SfxNodup, hmds]
  · intro m hm
    rcases hMD with ⟨b, hb, hcb, _⟩ | ⟨hn, _⟩
    · rw [hb] at hm; simp at hm; subst hm; simp [hcb, hdn]
    · rw [hn] at hm; simp at hm
  · intro x hx hcx
    rcases hMD with ⟨_, _, _, _, _, hn⟩ | ⟨_, b, hb, hcb, _⟩
    · rw [hn] at hx; simp at hx
    · rw [hb] at hx; simp at hx; subst hx; rw [hcb] at hcx; simp at hcx
  · intro m _ hm
    rcases hMD with ⟨b, hb, _, hdat, hmds, hn⟩ | ⟨hn, _⟩
    · rw [hb] at hm; simp at hm; subst hm
      exact ⟨by rw [hdat, hc], by rw [hmds]; exact hag, hn⟩
    · rw [hn] at hm; simp at hm
  · intro x _ _ hx
    rcases hMD with ⟨_, _, _, _, _, hn⟩ | ⟨_, b, hb, _, hdat, hmds⟩
    · rw [hn] at hx; simp at hx
    · rw [hb] at hx; simp at hx; subst hx
      exact ⟨by rw [hdat, hc], by rw [hmds]; exact hag⟩
  · intro B m h; rw [hdn] at h; simp at h
  · intro B h; rw [hdn] at h; simp at h
  · intro B m id j x h; rw [hdn] at h; simp at h
  · intro B m id e h; rw [hdn] at h; simp at h
  · intro id m he; rw [hE] at he; simp at he
  · intro _ _; exact hq
  · intro id he; rw [hE] at he; simp at he

theorem inv2_create {s : GState} (hi : Inv2 s) (k : Key) (n : Nat) (d : Bytes)
    (hpre : pre s (.client (.create k n d))) : Inv2 (gstep s (.client (.create k n d))) := by
  have hi1 := inv1_client hi.inv1 (.create k n d)
  obtain ⟨hgm, hgd⟩ := hi.inv1.good
  obtain ⟨hpq, hpw⟩ := hpre
  revert hi1
  simp only [gstep, capply]
  unfold tCreate
  split
  · intro hi1
    exact inv2_invisible hi hi1 rfl rfl rfl rfl rfl rfl rfl rfl rfl
  · rename_i hvis
    simp only [Bool.or_eq_true, not_or, Bool.not_eq_true] at hvis
    have hM := inStore_false hvis.1
    have hD := inStore_false hvis.2
    have hE : fget s.t.fmap k = none := by
      cases h : fget s.t.fmap k with
      | none => rfl
      | some id => obtain ⟨m, hm, _⟩ := hi.inv1.ent k id h; rw [hM] at hm; simp at hm
    have okm := onlyKey_create hgm k n d
    -- no worker in flight works on `k`
    have hnow : ∀ (i : Nat) (x : Worker), s.t.workers[i]? = some x → x.pc ≠ .idle → x.pc ≠ .next → x.key ≠ k := by
      intro i x hx h1 h2
      exact hpw x (List.mem_of_getElem? hx) (by simp [inFlight, h1, h2])
    simp only
    rcases create_out_none hgm hM n d with ⟨evm, hcm, hgetm⟩ | ⟨hcm, hgetm⟩
    · -- created in memory
      simp only [hcm, ghost_create_ok]
      intro hi1
      refine inv2_client_active hi hi1 k rfl okm (fun _ _ => .inl rfl) ?_ (fun _ _ => rfl) (Nat.le_refl _)
        (fun _ _ _ _ => rfl) (fun id e _ he => ⟨e, he, rfl⟩) (fun k' hk' => by simp [upd_ne _ _ hk'])
        (fun _ _ => rfl) ?_ ?_
      · intro k' hk' hx hm
        apply hx
        show k' ∈ s.t.diskEvicted.filter (· ≠ k)
        simp [hm, hk']
      · refine kinv_created (d := d) (by simp [upd_self]) (by simp [upd_self]) (by simp [upd_self])
          (by simp [upd_self]) hE hpq (.inl ⟨_, hgetm, rfl, rfl, rfl, hD⟩)
      · intro i x hx h1 h2 _ hk _
        exact absurd hk (hnow i x hx h1 h2)
    · -- memory is full: fall back to disk
      simp only [hcm]
      have okd := onlyKey_create hgd k n d
      rcases create_out_none hgd hD n d with ⟨evd, hcd, hgetd⟩ | ⟨hcd, hgetd⟩
      · simp only [hcd, ghost_create_ok]
        intro hi1
        refine inv2_client_active hi hi1 k rfl okm ?_ ?_ (fun _ _ => rfl) (Nat.le_refl _)
          (fun _ _ _ _ => rfl) (fun id e _ he => ⟨e, he, rfl⟩) (fun k' hk' => by simp [upd_ne _ _ hk'])
          (fun _ _ => rfl) ?_ ?_
        · intro k' hk'
          rcases create_other hD n d k' hk' with h | ⟨h1, h2⟩
          · exact .inl h
          · refine .inr ⟨h1, ?_⟩
            show k' ∈ (s.t.diskEvicted ++ diskVictims s.t.disk k n).filter (· ≠ k)
            simp [h2, hk']
        · intro k' hk' hx hm
          apply hx
          show k' ∈ (s.t.diskEvicted ++ diskVictims s.t.disk k n).filter (· ≠ k)
          simp [hm, hk']
        · refine kinv_created (d := d) (by simp [upd_self]) (by simp [upd_self]) (by simp [upd_self])
            (by simp [upd_self]) hE hpq (.inr ⟨hgetm, _, hgetd, rfl, rfl, rfl⟩)
        · intro i x hx h1 h2 _ hk _
          exact absurd hk (hnow i x hx h1 h2)
      · -- refused by both tiers: only evictions happened
        simp only [hcd, ghost_create_err]
        intro hi1
        refine inv2_client_active hi hi1 k rfl okm ?_ ?_ (fun _ _ => rfl) (Nat.le_refl _)
          (fun _ _ _ _ => rfl) (fun id e _ he => ⟨e, he, rfl⟩) (fun _ _ => ⟨rfl, rfl, rfl, rfl⟩)
          (fun _ _ => rfl) ?_ ?_
        · intro k' hk'
          rcases create_other hD n d k' hk' with h | ⟨h1, h2⟩
          · exact .inl h
          · exact .inr ⟨h1, List.mem_append_right _ h2⟩
        · intro k' _ hx hm
          exact hx (List.mem_append_left _ hm)
        · refine kinv_frame (hi.key k) hi.inv1 (.inl (by rw [hgetm, hM])) (.inl (by rw [hgetd, hD]))
            (fun hx hm => hx (List.mem_append_left _ hm)) rfl (Nat.le_refl _) (fun _ _ => rfl)
            ⟨rfl, rfl, rfl, rfl⟩ (.inl rfl) (fun _ _ _ _ _ => Iff.rfl)
        · intro i x hx h1 h2 _ hk _
          exact absurd hk (hnow i x hx h1 h2)

theorem ghost_complete (g : Ghost) (k : Key) :
    gclient g (.markComplete k) .ok =
      if g.live k && (g.done k).isNone then
        { g with done := upd g.done k (some (g.content k)),
                 md := upd g.md k (fun sfx => (g.md k sfx).filter (·.movable)) }
      else g := rfl

theorem ghost_complete_err (g : Ghost) (k : Key) (e : Err) : gclient g (.markComplete k) (.err e) = g := rfl

theorem isComplete_true {s : State} {k : Key} (h : isComplete s k = true) : ∃ b, s.blobs.get k = some b ∧ b.complete = true := by
  unfold isComplete at h
  cases hb : s.blobs.get k with
  | none => simp [hb] at h
  | some b => simp [hb] at h; exact ⟨b, rfl, h⟩

theorem isComplete_false {s : State} {k : Key} {b : Blob} (h : ¬ isComplete s k = true) (hb : s.blobs.get k = some b) :
    b.complete = false := by
  unfold isComplete at h
  simp [hb] at h; exact h

theorem cover_all_suffixes (mds : List Md) : Cover (mds.map (·.sfx)) [] mds := by
  intro sfx
  cases h : mdGet mds sfx with
  | none => exact .inr (by simp [mdGet])
  | some md =>
    left
    have := List.find?_some h
    have hm := List.mem_of_find?_eq_some h
    simp at this
    exact List.mem_map.mpr ⟨md, hm, this⟩

theorem count_append_self (q : List Key) (k : Key) : (q ++ [k]).count k = q.count k + 1 := by
  simp [List.count_append]

theorem count_append_ne (q : List Key) {k k' : Key} (h : k' ≠ k) : (q ++ [k]).count k' = q.count k' := by
  simp [List.count_append, List.count_cons_of_ne (Ne.symm h)]

theorem inv2_markComplete {s : GState} (hi : Inv2 s) (k : Key) : Inv2 (gstep s (.client (.markComplete k))) := by
  have hi1 := inv1_client hi.inv1 (.markComplete k)
  obtain ⟨hgm, hgd⟩ := hi.inv1.good
  have hk := hi.key k
  revert hi1
  simp only [gstep, capply]
  unfold tMarkComplete
  split
  · -- already complete in memory
    rename_i hc
    obtain ⟨b, hb, hbc⟩ := isComplete_true hc
    have hdone := (hk.cm b hb).mp hbc
    have : gclient s.g (.markComplete k) .ok = s.g := by
      rw [ghost_complete]
      cases hd : s.g.done k with
      | none => rw [hd] at hdone; simp at hdone
      | some B => simp
    simp only [this]
    intro hi1
    exact inv2_invisible hi hi1 rfl rfl rfl rfl rfl rfl rfl rfl rfl
  · rename_i hncm
    split
    · -- already complete on disk
      rename_i hc
      obtain ⟨b, hb, hbc⟩ := isComplete_true hc
      have hdone := hk.cd b hb hbc
      have : gclient s.g (.markComplete k) .ok = s.g := by
        rw [ghost_complete]
        cases hd : s.g.done k with
        | none => rw [hd] at hdone; simp at hdone
        | some B => simp
      simp only [this]
      intro hi1
      exact inv2_invisible hi hi1 rfl rfl rfl rfl rfl rfl rfl rfl rfl
    · rename_i hncd
      have hbo := ban_out hgm k .any
      cases hM : s.t.mem.blobs.get k with
      | none =>
        -- not in memory: complete the disk blob
        simp only [hM] at hbo
        simp only [hbo]
        have hE : fget s.t.fmap k = none := by
          cases h : fget s.t.fmap k with
          | none => rfl
          | some id => obtain ⟨m, hm, _⟩ := hi.inv1.ent k id h; rw [hM] at hm; simp at hm
        cases hD : s.t.disk.blobs.get k with
        | none =>
          rw [markComplete_none hD]
          simp only [ghost_complete_err]
          intro hi1
          exact inv2_invisible hi hi1 rfl rfl rfl rfl rfl rfl rfl rfl rfl
        | some d =>
          have hdc := isComplete_false hncd hD
          have hlive := live_of_disk hi.inv1 hD
          have hD' : (markComplete s.t.disk k).1.blobs.get k =
              some { d with complete := true, mds := d.mds.filter (·.movable) } := by
            rw [markComplete_get_self, hD]; simp [hdc]
          have hout : (markComplete s.t.disk k).2 = .ok := by rw [markComplete_eq hD]; simp [hdc]
          simp only [hout, ghost_complete, hlive, Bool.true_and]
          cases hdn : s.g.done k with
          | some B =>
            -- the ghost already counts the key as complete: then it is exempt (its disk copy was incomplete)
            simp only [Option.isNone_some, Bool.false_eq_true, if_false]
            intro hi1
            refine inv2_client_active hi hi1 k rfl (onlyKey_refl _ _)
              (fun k' hk' => .inl (touch_other (touch_markComplete _ _) k' hk')) (fun _ _ h => h)
              (fun _ _ => rfl) (Nat.le_refl _) (fun _ _ _ _ => rfl) (fun id e _ he => ⟨e, he, rfl⟩)
              (fun _ _ => ⟨rfl, rfl, rfl, rfl⟩) (fun _ _ => rfl) ?_ ?_
            · have hX : k ∈ s.t.diskEvicted := by
                by_cases hx : k ∈ s.t.diskEvicted
                · exact hx
                · obtain ⟨d0, hd0, hc0, _⟩ := hk.done_d B hdn hx (.inl hM)
                  rw [hD] at hd0; simp at hd0; subst hd0; rw [hdc] at hc0; simp at hc0
              refine { gl := hk.gl, fresh := hk.fresh, nd_m := hk.nd_m, nd_d := ?_, cm := hk.cm, cd := ?_,
                       inc_m := ?_, inc_d := ?_, done_m := hk.done_m, done_d := ?_,
                       phw := ?_, phq := ?_, entc := hk.entc, q0 := hk.q0, q1 := hk.q1 }
              · intro x hx; rw [hD'] at hx; simp at hx; subst hx
                exact sfx_filter d.mds _ (hk.nd_d d hD)
              · intro _ _ _; rw [hdn]; rfl
              · intro x h; have h' : s.g.done k = none := h; rw [hdn] at h'; simp at h'
              · intro x h; have h' : s.g.done k = none := h; rw [hdn] at h'; simp at h'
              · intro B' _ hx _; exact absurd hX hx
              · intro B' m id j x _ hx; exact absurd hX hx
              · intro B' m id e _ hx; exact absurd hX hx
            · intro i x hx h1 h2 h3 hkx _
              have := hi.det i x hx h1 h2 h3 (by rw [hkx, hE]; simp)
              rw [hkx, hlive] at this; simp at this
          | none =>
            simp only [Option.isNone_none, if_true]
            intro hi1
            obtain ⟨hdat, hag⟩ := hk.inc_d d hdn hM hD
            refine inv2_client_active hi hi1 k rfl (onlyKey_refl _ _)
              (fun k' hk' => .inl (touch_other (touch_markComplete _ _) k' hk')) (fun _ _ h => h)
              (fun _ _ => rfl) (Nat.le_refl _) (fun _ _ _ _ => rfl) (fun id e _ he => ⟨e, he, rfl⟩)
              (fun k' hk' => by simp [upd_ne _ _ hk']) (fun _ _ => rfl) ?_ ?_
            · have hnd := hk.nd_d d hD
              have hag' : MdAgree (d.mds.filter (·.movable)) (fun sfx => (s.g.md k sfx).filter (·.movable)) :=
                mdAgree_filter hag hnd
              refine { gl := fun _ => hlive, fresh := hk.fresh, nd_m := hk.nd_m, nd_d := ?_, cm := ?_, cd := ?_,
                       inc_m := ?_, inc_d := ?_, done_m := ?_, done_d := ?_,
                       phw := ?_, phq := ?_, entc := hk.entc, q0 := hk.q0, q1 := hk.q1 }
              · intro x hx; rw [hD'] at hx; simp at hx; subst hx; exact sfx_filter d.mds _ hnd
              · intro m hm; have : s.t.mem.blobs.get k = some m := hm; rw [hM] at this; simp at this
              · intro _ _ _; simp [upd_self]
              · intro m h; simp [upd_self] at h
              · intro x h; simp [upd_self] at h
              · intro B m _ _ hm; have : s.t.mem.blobs.get k = some m := hm; rw [hM] at this; simp at this
              · intro B hB _ _
                simp [upd_self] at hB
                refine ⟨_, hD', rfl, by simp [← hB, hdat], ?_⟩
                simp only [upd_self]; exact hag'
              · intro B m id j x _ _ hm; have : s.t.mem.blobs.get k = some m := hm; rw [hM] at this; simp at this
              · intro B m id e _ _ hm; have : s.t.mem.blobs.get k = some m := hm; rw [hM] at this; simp at this
            · intro i x hx h1 h2 h3 hkx _
              have := hi.det i x hx h1 h2 h3 (by rw [hkx, hE]; simp)
              rw [hkx, hlive] at this; simp at this
      | some b =>
        -- incomplete in memory: ban, complete, hand over to the flusher
        have hbc := isComplete_false hncm hM
        have hlive := live_of_mem hi.inv1 hM
        have hdn : s.g.done k = none := by
          cases h : s.g.done k with
          | none => rfl
          | some B => have := (hk.cm b hM).mpr (by rw [h]; rfl); rw [hbc] at this; simp at this
        obtain ⟨hdat, hag, hD⟩ := hk.inc_m b hdn hM
        have hE : fget s.t.fmap k = none := by
          cases h : fget s.t.fmap k with
          | none => rfl
          | some id => have := hk.entc id b h hM; rw [hbc] at this; simp at this
        simp only [hM, inScope_any, if_true] at hbo
        have hb1 : (ban s.t.mem k .any).1.blobs.get k = some { b with banned := true } := by
          rw [ban_get_self hgm, hM]; simp [inScope]
        have hco : (markComplete (ban s.t.mem k .any).1 k).2 = .ok := by
          rw [markComplete_eq hb1]; simp [hbc]
        have hb2 : (markComplete (ban s.t.mem k .any).1 k).1.blobs.get k =
            some { b with banned := true, complete := true, mds := b.mds.filter (·.movable) } := by
          rw [markComplete_get_self, hb1]; simp [hbc]
        simp only [hbo, hco, ghost_complete, hlive, hdn, Option.isNone_none, Bool.and_self, if_true]
        intro hi1
        have hnq : k ∉ s.t.queue := hk.q0 hlive hE
        have hnd := hk.nd_m b hM
        have hnoatt : ∀ (i : Nat) (x : Worker), s.t.workers[i]? = some x → ¬ attached x k s.t.nextEnt := by
          intro i x hx ha
          have := (hi.went i x hx ha.2.2.1 ha.2.2.2.1).1
          rw [ha.2.1] at this; omega
        refine inv2_client_active hi hi1 k rfl
          (onlyKey_trans (onlyKey_of_touch (touch_ban _ _ _)) (onlyKey_of_touch (touch_markComplete _ _)))
          (fun _ _ => .inl rfl) (fun _ _ h => h)
          (fun k' hk' => by simp only [markDirty, fget_fset, hk', if_false])
          (by simp [markDirty]) ?_ ?_ (fun k' hk' => by simp [upd_ne _ _ hk'])
          (fun k' hk' => by simp only [markDirty]; exact count_append_ne _ hk') ?_ ?_
        · intro k' id _ he
          have hlt := ((hi.key k').fresh id he).1
          simp only [markDirty, lookupEnt_cons]
          have : s.t.nextEnt ≠ id := by omega
          simp [this]
        · intro id e hlt he
          refine ⟨e, ?_, rfl⟩
          simp only [markDirty, lookupEnt_cons]
          have : s.t.nextEnt ≠ id := by omega
          simp [this, he]
        · -- the key itself
          have hM' : (markDirty { s.t with mem := (markComplete (ban s.t.mem k .any).1 k).1 } k
              (match (markComplete (ban s.t.mem k .any).1 k).1.blobs.get k with
                | some b => b.data.length | none => 0)).mem.blobs.get k =
              some { b with banned := true, complete := true, mds := b.mds.filter (·.movable) } := hb2
          refine { gl := fun _ => hlive, fresh := ?_, nd_m := ?_, nd_d := hk.nd_d, cm := ?_, cd := ?_,
                   inc_m := ?_, inc_d := ?_, done_m := ?_, done_d := ?_,
                   phw := ?_, phq := ?_, entc := ?_, q0 := ?_, q1 := ?_ }
          · intro id he
            simp only [markDirty, fget_fset, if_true] at he
            simp at he; subst he
            simp only [markDirty, lookupEnt_cons, if_true]
            exact ⟨by omega, _, rfl, rfl⟩
          · intro m hm; have hm' : (markComplete (ban s.t.mem k .any).1 k).1.blobs.get k = some m := hm; rw [hb2] at hm'; simp at hm'; subst hm'; exact sfx_filter b.mds _ hnd
          · intro m hm; have hm' : (markComplete (ban s.t.mem k .any).1 k).1.blobs.get k = some m := hm; rw [hb2] at hm'; simp at hm'; subst hm'; simp [upd_self]
          · intro x hx; have : s.t.disk.blobs.get k = some x := hx; rw [hD] at this; simp at this
          · intro m h; simp [upd_self] at h
          · intro x h; simp [upd_self] at h
          · intro B m hB _ hm
            have hm' : (markComplete (ban s.t.mem k .any).1 k).1.blobs.get k = some m := hm; rw [hb2] at hm'; simp at hm'; subst hm'
            simp [upd_self] at hB
            refine ⟨by simp [← hB, hdat], ?_⟩
            simp only [upd_self]
            exact mdAgree_filter hag hnd
          · intro B _ _ hor
            rcases hor with h | h
            · have h' : (markComplete (ban s.t.mem k .any).1 k).1.blobs.get k = none := h
              rw [hb2] at h'; simp at h'
            · simp only [markDirty, fget_fset, if_true] at h; simp at h
          · intro B m id j x _ _ _ he hx ha
            simp only [markDirty, fget_fset, if_true] at he
            simp at he; subst he
            exact absurd ha (hnoatt j x hx)
          · intro B m id e hB _ hm he hl _
            have hm' : (markComplete (ban s.t.mem k .any).1 k).1.blobs.get k = some m := hm; rw [hb2] at hm'; simp at hm'; subst hm'
            simp only [markDirty, fget_fset, if_true] at he
            simp at he; subst he
            simp only [markDirty, lookupEnt_cons, if_true] at hl
            simp at hl; subst hl
            simp only [PhaseQ, if_true, hb2]
            exact ⟨hD, cover_all_suffixes _⟩
          · intro id m _ hm; have hm' : (markComplete (ban s.t.mem k .any).1 k).1.blobs.get k = some m := hm; rw [hb2] at hm'; simp at hm'; subst hm'; rfl
          · intro _ h; simp only [markDirty, fget_fset, if_true] at h; simp at h
          · intro id he
            simp only [markDirty, fget_fset, if_true] at he
            simp at he; subst he
            left
            refine ⟨?_, fun i x hx => hnoatt i x hx⟩
            simp only [markDirty]
            rw [count_append_self, List.count_eq_zero.mpr hnq]
        · intro i x hx h1 h2 h3 hkx _
          have := hi.det i x hx h1 h2 h3 (by rw [hkx, hE]; simp)
          rw [hkx, hlive] at this; simp at this

/-! ### `SetMetadata` / `DeleteMetadata` (one proof for both) -/

/-- the common shape of `tSetMd` and `tDelMd` -/
def tMdGen (t : TState) (k : Key) (sc : Scope) (s0 : Nat) (op : State → Key → Scope → State × Out) : TState × Out :=
  match (ban t.mem k sc).2 with
  | .err .outOfScope => (t, .err .outOfScope)
  | .err .notExist => ({ t with disk := (op t.disk k sc).1 }, (op t.disk k sc).2)
  | .ok => (markMetadataDirty { t with mem := (op (ban t.mem k sc).1 k .any).1 } k s0, .ok)
  | o => ({ t with mem := (ban t.mem k sc).1 }, o)

theorem tSetMd_gen (t : TState) (k : Key) (sc : Scope) (m : Md) :
    tSetMd t k sc m = tMdGen t k sc m.sfx (fun s k sc => setMd s k sc m) := rfl

theorem tDelMd_gen (t : TState) (k : Key) (sc : Scope) (sfx : Nat) :
    tDelMd t k sc sfx = tMdGen t k sc sfx (fun s k sc => delMd s k sc sfx) := rfl

/-- what the proof needs to know about the metadata mutation -/
structure MdOp (op : State → Key → Scope → State × Out) (fm : List Md → List Md) (s0 : Nat) (gv : Option Md) : Prop where
  get : ∀ (s : State) (k : Key) (sc : Scope), (op s k sc).1.blobs.get k =
    (s.blobs.get k).map (fun b => if inScope b sc then { b with mds := fm b.mds } else b)
  touch : ∀ (s : State) (k : Key) (sc : Scope), Touch s (op s k sc).1 k
  good : ∀ (s : State) (k : Key) (sc : Scope), Good s → Good (op s k sc).1
  out : ∀ (s : State) (k : Key) (sc : Scope), (op s k sc).2 = match s.blobs.get k with
    | none => .err .notExist
    | some b => if inScope b sc then .ok else .err .outOfScope
  lookup : ∀ (mds : List Md) (sfx : Nat), mdGet (fm mds) sfx = if sfx = s0 then gv else mdGet mds sfx
  nodup : ∀ (mds : List Md), (mds.map (·.sfx)).Nodup → ((fm mds).map (·.sfx)).Nodup

theorem mdOp_set (m : Md) : MdOp (fun s k sc => setMd s k sc m) (fun mds => mdSet mds m) m.sfx (some m) :=
  { get := fun s k sc => setMd_get_self s k sc m
    touch := fun s k sc => touch_setMd s k sc m
    good := fun s k sc h => good_setMd h k sc m
    out := fun s k sc => by
      cases hb : s.blobs.get k with
      | none => simp [setMd_none hb]
      | some b => cases hs : inScope b sc <;> simp [setMd_oos, setMd_eq, hb, hs]
    lookup := fun mds sfx => mdGet_set_cases mds m sfx
    nodup := fun mds h => sfx_mdSet mds m h }

theorem mdOp_del (s0 : Nat) : MdOp (fun s k sc => delMd s k sc s0) (fun mds => mdDel mds s0) s0 none :=
  { get := fun s k sc => delMd_get_self s k sc s0
    touch := fun s k sc => touch_delMd s k sc s0
    good := fun s k sc h => good_delMd h k sc s0
    out := fun s k sc => by
      cases hb : s.blobs.get k with
      | none => simp [delMd_none hb]
      | some b => cases hs : inScope b sc <;> simp [delMd_oos, delMd_eq, hb, hs]
    lookup := fun mds sfx => mdGet_del_cases mds s0 sfx
    nodup := fun mds h => sfx_mdDel mds s0 h }

theorem mdAgree_op {fm : List Md → List Md} {s0 : Nat} {gv : Option Md}
    (hl : ∀ (mds : List Md) (sfx : Nat), mdGet (fm mds) sfx = if sfx = s0 then gv else mdGet mds sfx)
    {mds : List Md} {gm : Nat → Option Md} (h : MdAgree mds gm) : MdAgree (fm mds) (upd gm s0 gv) := by
  intro sfx
  rw [hl]
  by_cases e : sfx = s0
  · simp [e, upd]
  · simp [e, upd, h sfx]

theorem inv2_mdGen {s : GState} (hi : Inv2 s) (k : Key) (sc : Scope) (s0 : Nat) (gv : Option Md)
    (op : State → Key → Scope → State × Out) (fm : List Md → List Md) (hop : MdOp op fm s0 gv)
    (g' : Out → Ghost)
    (hgok : g' .ok = { s.g with md := upd s.g.md k (upd (s.g.md k) s0 gv) })
    (hgerr : ∀ e, g' (.err e) = s.g)
    (hi1 : Inv1 { t := (tMdGen s.t k sc s0 op).1, g := g' (tMdGen s.t k sc s0 op).2 }) :
    Inv2 { t := (tMdGen s.t k sc s0 op).1, g := g' (tMdGen s.t k sc s0 op).2 } := by
  obtain ⟨hgm, hgd⟩ := hi.inv1.good
  have hk := hi.key k
  revert hi1
  unfold tMdGen
  have hbo := ban_out hgm k sc
  cases hM : s.t.mem.blobs.get k with
  | none =>
    simp only [hM] at hbo
    simp only [hbo]
    have hE : fget s.t.fmap k = none := by
      cases h : fget s.t.fmap k with
      | none => rfl
      | some id => obtain ⟨m, hm, _⟩ := hi.inv1.ent k id h; rw [hM] at hm; simp at hm
    have hout := hop.out s.t.disk k sc
    cases hD : s.t.disk.blobs.get k with
    | none =>
      simp only [hD] at hout
      simp only [hout, hgerr]
      intro hi1
      refine inv2_invisible hi hi1 rfl ?_ rfl rfl rfl rfl rfl rfl rfl
      show (op s.t.disk k sc).1.blobs = s.t.disk.blobs
      rcases hop.touch s.t.disk k sc with h | ⟨b, h⟩ | h
      · exact h
      · have := hop.get s.t.disk k sc; rw [h, hD] at this; simp at this
      · rw [h, BMap.del_of_get_none hD]
    | some d =>
      simp only [hD] at hout
      have hget := hop.get s.t.disk k sc
      rw [hD] at hget
      simp only [Option.map_some] at hget
      cases hs : inScope d sc
      · simp only [hs, Bool.false_eq_true, if_false] at hout hget
        simp only [hout, hgerr]
        intro hi1
        refine inv2_client_active hi hi1 k rfl (onlyKey_refl _ _)
          (fun k' hk' => .inl (touch_other (hop.touch _ _ _) k' hk')) (fun _ _ h => h) (fun _ _ => rfl)
          (Nat.le_refl _) (fun _ _ _ _ => rfl) (fun id e _ he => ⟨e, he, rfl⟩)
          (fun _ _ => ⟨rfl, rfl, rfl, rfl⟩) (fun _ _ => rfl) ?_ ?_
        · exact kinv_frame hk hi.inv1 (.inl rfl) (.inl (hget.trans hD.symm)) (fun h => h) rfl (Nat.le_refl _)
            (fun _ _ => rfl) ⟨rfl, rfl, rfl, rfl⟩ (.inl rfl) (fun _ _ _ _ _ => Iff.rfl)
        · intro i x hx h1 h2 h3 hkx hne
          have := hi.det i x hx h1 h2 h3 (by rw [hkx]; exact hne)
          rw [hkx] at this; exact this
      · simp only [hs, if_true] at hout hget
        simp only [hout, hgok]
        intro hi1
        refine inv2_client_active hi hi1 k rfl (onlyKey_refl _ _)
          (fun k' hk' => .inl (touch_other (hop.touch _ _ _) k' hk')) (fun _ _ h => h) (fun _ _ => rfl)
          (Nat.le_refl _) (fun _ _ _ _ => rfl) (fun id e _ he => ⟨e, he, rfl⟩)
          (fun k' hk' => by simp [upd_ne _ _ hk']) (fun _ _ => rfl) ?_ ?_
        · have hD' : (op s.t.disk k sc).1.blobs.get k = some { d with mds := fm d.mds } := by
            exact hget
          have hmdk : ({ s.g with md := upd s.g.md k (upd (s.g.md k) s0 gv) } : Ghost).md k = upd (s.g.md k) s0 gv := by
            simp [upd_self]
          refine { gl := hk.gl, fresh := hk.fresh, nd_m := hk.nd_m, nd_d := ?_, cm := hk.cm, cd := ?_,
                   inc_m := ?_, inc_d := ?_, done_m := ?_, done_d := ?_,
                   phw := ?_, phq := ?_, entc := hk.entc, q0 := hk.q0, q1 := hk.q1 }
          · intro x hx; rw [hD'] at hx; simp at hx; subst hx; exact hop.nodup _ (hk.nd_d d hD)
          · intro x hx hc; rw [hD'] at hx; simp at hx; subst hx; exact hk.cd d hD hc
          · intro m _ hm; have : s.t.mem.blobs.get k = some m := hm; rw [hM] at this; simp at this
          · intro x hdn _ hx
            rw [hD'] at hx; simp at hx; subst hx
            obtain ⟨a, b⟩ := hk.inc_d d hdn hM hD
            exact ⟨a, by rw [hmdk]; exact mdAgree_op hop.lookup b⟩
          · intro B m _ _ hm; have : s.t.mem.blobs.get k = some m := hm; rw [hM] at this; simp at this
          · intro B hdn hx _
            obtain ⟨d0, hd0, a, b, c⟩ := hk.done_d B hdn hx (.inl hM)
            rw [hD] at hd0; simp at hd0; subst hd0
            exact ⟨_, hD', a, b, by rw [hmdk]; exact mdAgree_op hop.lookup c⟩
          · intro B m id j x _ _ hm; have : s.t.mem.blobs.get k = some m := hm; rw [hM] at this; simp at this
          · intro B m id e _ _ hm; have : s.t.mem.blobs.get k = some m := hm; rw [hM] at this; simp at this
        · intro i x hx h1 h2 h3 hkx hne
          have := hi.det i x hx h1 h2 h3 (by rw [hkx]; exact hne)
          rw [hkx] at this; exact this
  | some b =>
    simp only [hM] at hbo
    cases hs : inScope b sc
    · simp only [hs, Bool.false_eq_true, if_false] at hbo
      simp only [hbo, hgerr]
      intro hi1
      exact inv2_invisible hi hi1 rfl rfl rfl rfl rfl rfl rfl rfl rfl
    · simp only [hs, if_true] at hbo
      simp only [hbo, hgok]
      -- in memory and in scope: ban, mutate, mark dirty
      have hlive := live_of_mem hi.inv1 hM
      have hg1 := good_ban hgm k sc
      have hg2 := hop.good _ k .any hg1
      have hb1 : (ban s.t.mem k sc).1.blobs.get k = some { b with banned := true } := by
        rw [ban_get_self hgm, hM]; simp [hs]
      have hb2 : (op (ban s.t.mem k sc).1 k .any).1.blobs.get k =
          some { b with banned := true, mds := fm b.mds } := by
        rw [hop.get, hb1]; simp [inScope]
      have hok2 : OnlyKey s.t.mem (op (ban s.t.mem k sc).1 k .any).1 k :=
        onlyKey_trans (onlyKey_of_touch (touch_ban _ _ _)) (onlyKey_of_touch (hop.touch _ _ _))
      have hmdk : ({ s.g with md := upd s.g.md k (upd (s.g.md k) s0 gv) } : Ghost).md k = upd (s.g.md k) s0 gv := by
        simp [upd_self]
      have hmdne : ∀ sfx, sfx ≠ s0 → mdGet (fm b.mds) sfx = mdGet b.mds sfx := by
        intro sfx hne; rw [hop.lookup]; simp [hne]
      have hndb := hk.nd_m b hM
      have hdetk : ∀ (i : Nat) (x : Worker), s.t.workers[i]? = some x → x.pc ≠ .idle → x.pc ≠ .next → x.pc ≠ .unban →
          x.key = k → fget s.t.fmap k ≠ some x.ent → False := by
        intro i x hx h1 h2 h3 hkx hne
        have := hi.det i x hx h1 h2 h3 (by rw [hkx]; exact hne)
        rw [hkx, hlive] at this; simp at this
      cases hE : fget s.t.fmap k with
      | some id =>
        -- an entry exists: the suffix joins its dirty set
        obtain ⟨hidlt, e, hle, hek⟩ := hk.fresh id hE
        have hbc := hk.entc id b hE hM
        have hmm : markMetadataDirty { s.t with mem := (op (ban s.t.mem k sc).1 k .any).1 } k s0 =
            { s.t with mem := (op (ban s.t.mem k sc).1 k .any).1,
                       ents := setDirty s.t.ents id (if s0 ∈ dirtyOf s.t id then dirtyOf s.t id else s0 :: dirtyOf s.t id) } := by
          simp only [markMetadataDirty, hE]
          rfl
        rw [hmm]
        generalize hdn' : (if s0 ∈ dirtyOf s.t id then dirtyOf s.t id else s0 :: dirtyOf s.t id) = dnew
        have hs0 : s0 ∈ dnew := by
          rw [← hdn']; split
          · assumption
          · exact List.mem_cons_self
        have hsub : ∀ x ∈ dirtyOf s.t id, x ∈ dnew := by
          intro x hx; rw [← hdn']; split
          · exact hx
          · exact List.mem_cons_of_mem _ hx
        intro hi1
        refine inv2_client_active hi hi1 k rfl hok2 (fun _ _ => .inl rfl) (fun _ _ h => h) (fun _ _ => rfl)
          (Nat.le_refl _) ?_ ?_ (fun k' hk' => by simp [upd_ne _ _ hk']) (fun _ _ => rfl) ?_ ?_
        · intro k' id' hk' he'
          obtain ⟨_, e', hle', hek'⟩ := (hi.key k').fresh id' he'
          have hne : id' ≠ id := by
            intro e0; subst e0
            rw [hle] at hle'; simp at hle'; subst hle'
            exact hk' (hek'.symm.trans hek)
          show lookupEnt (setDirty s.t.ents id dnew) id' = _
          rw [lookupEnt_setDirty]; simp [hne]
        · intro id' e' _ he'
          obtain ⟨e'', h1, h2, _⟩ := lookupEnt_setDirty_key s.t.ents id id' dnew e' he'
          exact ⟨e'', h1, h2⟩
        · have hdirty : dirtyOf { s.t with mem := (op (ban s.t.mem k sc).1 k .any).1, ents := setDirty s.t.ents id dnew } id = dnew := by
            have := dirtyOf_setDirty { s.t with mem := (op (ban s.t.mem k sc).1 k .any).1 } id id dnew e hle
            simpa using this
          refine { gl := hk.gl, fresh := ?_, nd_m := ?_, nd_d := hk.nd_d, cm := ?_, cd := hk.cd,
                   inc_m := ?_, inc_d := ?_, done_m := ?_, done_d := ?_,
                   phw := ?_, phq := ?_, entc := ?_, q0 := hk.q0, q1 := hk.q1 }
          · intro id' he'
            have he'' : fget s.t.fmap k = some id' := he'
            rw [hE] at he''; simp at he''; subst he''
            obtain ⟨e'', h1, h2, _⟩ := lookupEnt_setDirty_key s.t.ents id id dnew e hle
            exact ⟨hidlt, e'', h1, h2.trans hek⟩
          · intro m hm
            have hm' : (op (ban s.t.mem k sc).1 k .any).1.blobs.get k = some m := hm
            rw [hb2] at hm'; simp at hm'; subst hm'
            exact hop.nodup _ hndb
          · intro m hm
            have hm' : (op (ban s.t.mem k sc).1 k .any).1.blobs.get k = some m := hm
            rw [hb2] at hm'; simp at hm'; subst hm'
            exact hk.cm b hM
          · intro m hdn _
            have := (hk.cm b hM).mp hbc
            have hdn' : s.g.done k = none := hdn
            rw [hdn'] at this; simp at this
          · intro x _ hm
            have hm' : (op (ban s.t.mem k sc).1 k .any).1.blobs.get k = none := hm
            rw [hb2] at hm'; simp at hm'
          · intro B m hdn hx hm
            have hm' : (op (ban s.t.mem k sc).1 k .any).1.blobs.get k = some m := hm
            rw [hb2] at hm'; simp at hm'; subst hm'
            obtain ⟨a, c⟩ := hk.done_m B b hdn hx hM
            exact ⟨a, by rw [hmdk]; exact mdAgree_op hop.lookup c⟩
          · intro B _ _ hor
            rcases hor with h | h
            · have h' : (op (ban s.t.mem k sc).1 k .any).1.blobs.get k = none := h
              rw [hb2] at h'; simp at h'
            · have h' : fget s.t.fmap k = none := h
              rw [hE] at h'; simp at h'
          · intro B m id' j x hdn hx hm he' hxw ha
            have hm' : (op (ban s.t.mem k sc).1 k .any).1.blobs.get k = some m := hm
            rw [hb2] at hm'; simp at hm'; subst hm'
            have he'' : fget s.t.fmap k = some id' := he'
            rw [hE] at he''; simp at he''; subst he''
            rw [hdirty]
            exact phaseW_md s0 (hk.phw B b id j x hdn hx hM hE hxw ha) rfl hmdne hs0 hsub
          · intro B m id' e' hdn hx hm he' hl' hno
            have hm' : (op (ban s.t.mem k sc).1 k .any).1.blobs.get k = some m := hm
            rw [hb2] at hm'; simp at hm'; subst hm'
            have he'' : fget s.t.fmap k = some id' := he'
            rw [hE] at he''; simp at he''; subst he''
            have hl'' : lookupEnt (setDirty s.t.ents id dnew) id = some e' := hl'
            rw [lookupEnt_setDirty, hle] at hl''
            simp at hl''; subst hl''
            refine phaseQ_md s0 (hk.phq B b id e hdn hx hM hE hle hno) rfl hmdne hs0 ?_
            intro x hx'
            have : dirtyOf s.t id = e.dirtyMD := by simp [dirtyOf, hle]
            rw [← this] at hx'; exact hsub x hx'
          · intro id' m _ hm
            have hm' : (op (ban s.t.mem k sc).1 k .any).1.blobs.get k = some m := hm
            rw [hb2] at hm'; simp at hm'; subst hm'
            exact hbc
        · intro i x hx h1 h2 h3 hkx hne
          exact absurd hne (fun h => hdetk i x hx h1 h2 h3 hkx h)
      | none =>
        have hnq : k ∉ s.t.queue := hk.q0 hlive hE
        cases hD : s.t.disk.blobs.get k with
        | none =>
          -- nothing on disk yet (incomplete blob): no flusher entry is made
          have hmm : markMetadataDirty { s.t with mem := (op (ban s.t.mem k sc).1 k .any).1 } k s0 =
              { s.t with mem := (op (ban s.t.mem k sc).1 k .any).1 } := by
            simp [markMetadataDirty, hE, inStore, hD]
          rw [hmm]
          intro hi1
          refine inv2_client_active hi hi1 k rfl hok2 (fun _ _ => .inl rfl) (fun _ _ h => h) (fun _ _ => rfl)
            (Nat.le_refl _) (fun _ _ _ _ => rfl) (fun id e _ he => ⟨e, he, rfl⟩)
            (fun k' hk' => by simp [upd_ne _ _ hk']) (fun _ _ => rfl) ?_ ?_
          · refine { gl := hk.gl, fresh := hk.fresh, nd_m := ?_, nd_d := hk.nd_d, cm := ?_, cd := hk.cd,
                     inc_m := ?_, inc_d := ?_, done_m := ?_, done_d := ?_,
                     phw := ?_, phq := ?_, entc := ?_, q0 := hk.q0, q1 := hk.q1 }
            · intro m hm
              have hm' : (op (ban s.t.mem k sc).1 k .any).1.blobs.get k = some m := hm
              rw [hb2] at hm'; simp at hm'; subst hm'
              exact hop.nodup _ hndb
            · intro m hm
              have hm' : (op (ban s.t.mem k sc).1 k .any).1.blobs.get k = some m := hm
              rw [hb2] at hm'; simp at hm'; subst hm'
              exact hk.cm b hM
            · intro m hdn hm
              have hm' : (op (ban s.t.mem k sc).1 k .any).1.blobs.get k = some m := hm
              rw [hb2] at hm'; simp at hm'; subst hm'
              obtain ⟨a, c, d⟩ := hk.inc_m b hdn hM
              exact ⟨a, by rw [hmdk]; exact mdAgree_op hop.lookup c, d⟩
            · intro x _ hm
              have hm' : (op (ban s.t.mem k sc).1 k .any).1.blobs.get k = none := hm
              rw [hb2] at hm'; simp at hm'
            · intro B m hdn hx hm
              have hm' : (op (ban s.t.mem k sc).1 k .any).1.blobs.get k = some m := hm
              rw [hb2] at hm'; simp at hm'; subst hm'
              obtain ⟨a, c⟩ := hk.done_m B b hdn hx hM
              exact ⟨a, by rw [hmdk]; exact mdAgree_op hop.lookup c⟩
            · intro B hdn hx _
              -- a completed, clean blob has its copy on disk: impossible here
              obtain ⟨d0, hd0, _⟩ := hk.done_d B hdn hx (.inr hE)
              rw [hD] at hd0; simp at hd0
            · intro B m id j x _ _ _ he
              have he' : fget s.t.fmap k = some id := he
              rw [hE] at he'; simp at he'
            · intro B m id e _ _ _ he
              have he' : fget s.t.fmap k = some id := he
              rw [hE] at he'; simp at he'
            · intro id m he
              have he' : fget s.t.fmap k = some id := he
              rw [hE] at he'; simp at he'
          · intro i x hx h1 h2 h3 hkx _
            exact absurd (by rw [hE]; simp) (fun h => hdetk i x hx h1 h2 h3 hkx h)
        | some d =>
          -- flushed earlier: a metadata-only entry is made (and the blob banned again)
          have hbc : b.complete = true := by
            cases hc : b.complete with
            | true => rfl
            | false =>
              have hdn : s.g.done k = none := by
                cases h : s.g.done k with
                | none => rfl
                | some B => have := (hk.cm b hM).mpr (by rw [h]; rfl); rw [hc] at this; simp at this
              have := (hk.inc_m b hdn hM).2.2
              rw [hD] at this; simp at this
          have hb3 : (ban (op (ban s.t.mem k sc).1 k .any).1 k .any).1.blobs.get k =
              some { b with banned := true, mds := fm b.mds } := by
            rw [ban_get_self hg2, hb2]; simp [inScope]
          have hmm : markMetadataDirty { s.t with mem := (op (ban s.t.mem k sc).1 k .any).1 } k s0 =
              { s.t with mem := (ban (op (ban s.t.mem k sc).1 k .any).1 k .any).1,
                         ents := (s.t.nextEnt, { key := k, dataDirty := false, dataSize := 0, dirtyMD := [s0] }) :: s.t.ents,
                         fmap := fset s.t.fmap k s.t.nextEnt, queue := s.t.queue ++ [k], nextEnt := s.t.nextEnt + 1 } := by
            simp [markMetadataDirty, hE, inStore, hD]
          rw [hmm]
          intro hi1
          have hnoatt : ∀ (i : Nat) (x : Worker), s.t.workers[i]? = some x → ¬ attached x k s.t.nextEnt := by
            intro i x hx ha
            have := (hi.went i x hx ha.2.2.1 ha.2.2.2.1).1
            rw [ha.2.1] at this; omega
          refine inv2_client_active hi hi1 k rfl
            (onlyKey_trans hok2 (onlyKey_of_touch (touch_ban _ _ _)))
            (fun _ _ => .inl rfl) (fun _ _ h => h)
            (fun k' hk' => by simp only [fget_fset, hk', if_false])
            (by simp) ?_ ?_ (fun k' hk' => by simp [upd_ne _ _ hk'])
            (fun k' hk' => count_append_ne _ hk') ?_ ?_
          · intro k' id _ he
            have hlt := ((hi.key k').fresh id he).1
            simp only [lookupEnt_cons]
            have : s.t.nextEnt ≠ id := by omega
            simp [this]
          · intro id e hlt he
            refine ⟨e, ?_, rfl⟩
            simp only [lookupEnt_cons]
            have : s.t.nextEnt ≠ id := by omega
            simp [this, he]
          · have hdone := (hk.cm b hM).mp hbc
            refine { gl := hk.gl, fresh := ?_, nd_m := ?_, nd_d := hk.nd_d, cm := ?_, cd := hk.cd,
                     inc_m := ?_, inc_d := ?_, done_m := ?_, done_d := ?_,
                     phw := ?_, phq := ?_, entc := ?_, q0 := ?_, q1 := ?_ }
            · intro id he
              simp only [fget_fset, if_true] at he
              simp at he; subst he
              simp only [lookupEnt_cons, if_true]
              exact ⟨by omega, _, rfl, rfl⟩
            · intro m hm
              have hm' : (ban (op (ban s.t.mem k sc).1 k .any).1 k .any).1.blobs.get k = some m := hm
              rw [hb3] at hm'; simp at hm'; subst hm'
              exact hop.nodup _ hndb
            · intro m hm
              have hm' : (ban (op (ban s.t.mem k sc).1 k .any).1 k .any).1.blobs.get k = some m := hm
              rw [hb3] at hm'; simp at hm'; subst hm'
              exact hk.cm b hM
            · intro m hdn _
              have hdn' : s.g.done k = none := hdn
              rw [hdn'] at hdone; simp at hdone
            · intro x hdn _ _
              have hdn' : s.g.done k = none := hdn
              rw [hdn'] at hdone; simp at hdone
            · intro B m hdn hx hm
              have hm' : (ban (op (ban s.t.mem k sc).1 k .any).1 k .any).1.blobs.get k = some m := hm
              rw [hb3] at hm'; simp at hm'; subst hm'
              obtain ⟨a, c⟩ := hk.done_m B b hdn hx hM
              exact ⟨a, by rw [hmdk]; exact mdAgree_op hop.lookup c⟩
            · intro B _ _ hor
              rcases hor with h | h
              · have h' : (ban (op (ban s.t.mem k sc).1 k .any).1 k .any).1.blobs.get k = none := h
                rw [hb3] at h'; simp at h'
              · simp only [fget_fset, if_true] at h; simp at h
            · intro B m id j x _ _ _ he hx ha
              simp only [fget_fset, if_true] at he
              simp at he; subst he
              exact absurd ha (hnoatt j x hx)
            · intro B m id e hdn hx hm he hl _
              have hm' : (ban (op (ban s.t.mem k sc).1 k .any).1 k .any).1.blobs.get k = some m := hm
              rw [hb3] at hm'; simp at hm'; subst hm'
              simp only [fget_fset, if_true] at he
              simp at he; subst he
              simp only [lookupEnt_cons, if_true] at hl
              simp at hl; subst hl
              obtain ⟨d0, hd0, hc0, hdat0, hag0⟩ := hk.done_d B hdn hx (.inr hE)
              obtain ⟨_, hagm⟩ := hk.done_m B b hdn hx hM
              simp only [PhaseQ, Bool.false_eq_true, if_false]
              refine ⟨⟨d0, hd0, hc0, hdat0⟩, ?_⟩
              intro b0 hb0
              have hb0' : s.t.disk.blobs.get k = some b0 := hb0
              rw [hd0] at hb0'; simp at hb0'; subst hb0'
              intro sfx
              by_cases e0 : sfx = s0
              · exact .inl (by simp [e0])
              · right
                show mdGet d0.mds sfx = mdGet (fm b.mds) sfx
                rw [hmdne sfx e0, hag0 sfx, hagm sfx]
            · intro id m _ hm
              have hm' : (ban (op (ban s.t.mem k sc).1 k .any).1 k .any).1.blobs.get k = some m := hm
              rw [hb3] at hm'; simp at hm'; subst hm'
              exact hbc
            · intro _ h; simp only [fget_fset, if_true] at h; simp at h
            · intro id he
              simp only [fget_fset, if_true] at he
              simp at he; subst he
              left
              refine ⟨?_, fun i x hx => hnoatt i x hx⟩
              show (s.t.queue ++ [k]).count k = 1
              rw [count_append_self, List.count_eq_zero.mpr hnq]
          · intro i x hx h1 h2 h3 hkx _
            exact absurd (by rw [hE]; simp) (fun h => hdetk i x hx h1 h2 h3 hkx h)

theorem inv2_setMd {s : GState} (hi : Inv2 s) (k : Key) (sc : Scope) (m : Md) :
    Inv2 (gstep s (.client (.setMd k sc m))) := by
  have hi1 := inv1_client hi.inv1 (.setMd k sc m)
  have := inv2_mdGen hi k sc m.sfx (some m) _ _ (mdOp_set m) (fun o => gclient s.g (.setMd k sc m) o) rfl
    (fun _ => rfl) (by rw [← tSetMd_gen]; exact hi1)
  rw [← tSetMd_gen] at this
  exact this

theorem inv2_delMd {s : GState} (hi : Inv2 s) (k : Key) (sc : Scope) (sfx : Nat) :
    Inv2 (gstep s (.client (.delMd k sc sfx))) := by
  have hi1 := inv1_client hi.inv1 (.delMd k sc sfx)
  have := inv2_mdGen hi k sc sfx none _ _ (mdOp_del sfx) (fun o => gclient s.g (.delMd k sc sfx) o) rfl
    (fun _ => rfl) (by rw [← tDelMd_gen]; exact hi1)
  rw [← tDelMd_gen] at this
  exact this

/-- **every client operation preserves the invariant** (a `Create` only under the schedule hypothesis) -/
theorem inv2_client {s : GState} (hi : Inv2 s) (o : COp) (hpre : pre s (.client o)) : Inv2 (gstep s (.client o)) := by
  cases o with
  | create k n d => exact inv2_create hi k n d hpre
  | «open» k sc => exact inv2_reads hi _ trivial
  | has k sc => exact inv2_reads hi _ trivial
  | list sc => exact inv2_reads hi _ trivial
  | stat k sc => exact inv2_reads hi _ trivial
  | markComplete k => exact inv2_markComplete hi k
  | delete k sc => exact inv2_delete hi k sc
  | setMd k sc m => exact inv2_setMd hi k sc m
  | getMd k sc sfx => exact inv2_reads hi _ trivial
  | delMd k sc sfx => exact inv2_delMd hi k sc sfx



end KrakenModel.Tiered
