import KrakenModel.Model.MemCells
/-
  C08: the slice-lock protocol of the memory store keeps a nil-ed cell nil (no handle call revives an
  evicted / deleted incarnation), for any number of threads and every interleaving of their steps.
-/
namespace KrakenModel.MemCells
open KrakenModel.BlobStore

/-- what the lock guarantees: a writer between its header read and its header write, and the store
    in front of its `*b.data = nil`, hold the write lock — so they exclude each other -/
structure CInv (s : CState) : Prop where
  dead : s.niled = true → s.cell = none
  wgot : ∀ i buf p off, s.pcs[i]? = some (.wGot buf p off) → s.wlock = some i ∧ s.niled = false
  wheld : ∀ i p off, s.pcs[i]? = some (.wHeld p off) → s.wlock = some i
  nheld : ∀ i, s.pcs[i]? = some .nHeld → s.wlock = some i

theorem cinv_init (n : Nat) (data : Bytes) : CInv (cinit n data) := by
  have hp : ∀ (i : Nat) (pc : Pc), (cinit n data).pcs[i]? = some pc → pc = Pc.idle := by
    intro i pc h
    simp only [cinit] at h
    have := List.mem_of_getElem? h
    rw [List.mem_replicate] at this
    exact this.2
  refine ⟨by simp [cinit], ?_, ?_, ?_⟩
  · intro i buf p off h; cases hp i _ h
  · intro i p off h; cases hp i _ h
  · intro i h; cases hp i _ h

theorem getElem?_set_pc (pcs : List Pc) (i j : Nat) (pc : Pc) :
    (pcs.set i pc)[j]? = if i = j then (if j < pcs.length then some pc else none) else pcs[j]? := by
  rw [List.getElem?_set]
  by_cases h : i = j
  · simp [h]
  · simp [h]

/-- a step of thread `i` that leaves cell, ghost flag and write lock alone, and moves `i` to a program
    counter the invariant does not speak about -/
theorem cinv_local {s : CState} (hi : CInv s) (i : Nat) (pc : Pc) (s' : CState)
    (hc : s'.cell = s.cell) (hn : s'.niled = s.niled) (hw : s'.wlock = s.wlock) (hp : s'.pcs = s.pcs.set i pc)
    (h1 : ∀ buf p off, pc ≠ .wGot buf p off) (h2 : ∀ p off, pc ≠ .wHeld p off) (h3 : pc ≠ .nHeld) : CInv s' := by
  have other : ∀ (j : Nat) (pc' : Pc), s'.pcs[j]? = some pc' → (∀ (buf p : Bytes) (off : Nat), pc' = Pc.wGot buf p off ∨ pc' = Pc.wHeld p off ∨ pc' = Pc.nHeld →
      s.pcs[j]? = some pc') := by
    intro j pc' hj buf p off hcase
    rw [hp, getElem?_set_pc] at hj
    split at hj
    · split at hj
      · injection hj with e; subst e
        rcases hcase with e | e | e
        · exact absurd e (h1 _ _ _)
        · exact absurd e (h2 _ _)
        · exact absurd e h3
      · simp at hj
    · exact hj
  refine ⟨by rw [hc, hn]; exact hi.dead, ?_, ?_, ?_⟩
  · intro j buf p off hj
    rw [hw, hn]
    exact hi.wgot j buf p off (other j _ hj buf p off (.inl rfl))
  · intro j p off hj
    rw [hw]
    exact hi.wheld j p off (other j _ hj [] p off (.inr (.inl rfl)))
  · intro j hj
    rw [hw]
    exact hi.nheld j (other j _ hj [] [] 0 (.inr (.inr rfl)))

/-- nobody holds the write lock: no thread is in a section the invariant speaks about -/
theorem free_of_none {s : CState} (hi : CInv s) (hf : s.wlock = none) (j : Nat) :
    (∀ buf p off, s.pcs[j]? ≠ some (.wGot buf p off)) ∧ (∀ p off, s.pcs[j]? ≠ some (.wHeld p off)) ∧
    s.pcs[j]? ≠ some .nHeld := by
  refine ⟨?_, ?_, ?_⟩
  · intro buf p off h; have := (hi.wgot j buf p off h).1; rw [hf] at this; simp at this
  · intro p off h; have := hi.wheld j p off h; rw [hf] at this; simp at this
  · intro h; have := hi.nheld j h; rw [hf] at this; simp at this

/-- thread `i` takes the free write lock and enters `pc` (`wHeld` or `nHeld`) -/
theorem cinv_acquire {s : CState} (hi : CInv s) (i : Nat) (pc : Pc) (hf : s.wlock = none)
    (hpc : (∃ p off, pc = .wHeld p off) ∨ pc = .nHeld) :
    CInv (setPc { s with wlock := some i } i pc) := by
  have hfree := free_of_none hi hf
  have other : ∀ (j : Nat) (pc' : Pc), (s.pcs.set i pc)[j]? = some pc' → j ≠ i → s.pcs[j]? = some pc' := by
    intro j pc' hj hne
    rw [getElem?_set_pc] at hj
    split at hj
    · rename_i e; exact absurd e.symm hne
    · exact hj
  have mine : ∀ (pc' : Pc), (s.pcs.set i pc)[i]? = some pc' → pc' = pc := by
    intro pc' hj
    rw [getElem?_set_pc] at hj
    simp at hj
    exact hj.2.symm
  refine ⟨hi.dead, ?_, ?_, ?_⟩
  · intro j buf p off hj
    simp only [setPc] at hj
    by_cases hji : j = i
    · subst hji
      have := mine _ hj
      rcases hpc with ⟨p', off', e⟩ | e <;> rw [e] at this <;> cases this
    · exact absurd (other j _ hj hji) ((hfree j).1 buf p off)
  · intro j p off hj
    simp only [setPc] at hj ⊢
    by_cases hji : j = i
    · rw [hji]
    · exact absurd (other j _ hj hji) ((hfree j).2.1 p off)
  · intro j hj
    simp only [setPc] at hj ⊢
    by_cases hji : j = i
    · rw [hji]
    · exact absurd (other j _ hj hji) ((hfree j).2.2)

/-- thread `i` gives the write lock back (if it holds it) and goes idle -/
theorem cinv_release {s : CState} (hi : CInv s) (i : Nat) :
    CInv (setPc { s with wlock := if s.wlock = some i then none else s.wlock } i .idle) := by
  have other : ∀ (j : Nat) (pc' : Pc), (s.pcs.set i Pc.idle)[j]? = some pc' → pc' ≠ Pc.idle → j ≠ i ∧ s.pcs[j]? = some pc' := by
    intro j pc' hj hne
    rw [getElem?_set_pc] at hj
    split at hj
    · split at hj
      · injection hj with e; exact absurd e.symm hne
      · simp at hj
    · rename_i h; exact ⟨fun e => h e.symm, hj⟩
  have keep : ∀ j, j ≠ i → s.wlock = some j → (if s.wlock = some i then none else s.wlock) = some j := by
    intro j hne hw
    rw [hw]
    have : ¬ (some j = some i) := by intro e; injection e with e; exact hne e
    simp [this]
  refine ⟨hi.dead, ?_, ?_, ?_⟩
  · intro j buf p off hj
    simp only [setPc] at hj ⊢
    obtain ⟨hne, hj'⟩ := other j _ hj (by simp)
    obtain ⟨a, b⟩ := hi.wgot j buf p off hj'
    exact ⟨keep j hne a, b⟩
  · intro j p off hj
    simp only [setPc] at hj ⊢
    obtain ⟨hne, hj'⟩ := other j _ hj (by simp)
    exact keep j hne (hi.wheld j p off hj')
  · intro j hj
    simp only [setPc] at hj ⊢
    obtain ⟨hne, hj'⟩ := other j _ hj (by simp)
    exact keep j hne (hi.nheld j hj')

/-- **every step of every thread keeps the invariant** (with the lock discipline) -/
theorem cinv_step {s : CState} (hi : CInv s) (a : CAct) : CInv (cstep true s a) := by
  cases a with
  | startWrite i p off =>
    simp only [cstep]; split
    · exact cinv_local hi i _ _ rfl rfl rfl rfl (by intros; simp) (by intros; simp) (by simp)
    · exact hi
  | startRead i =>
    simp only [cstep]; split
    · exact cinv_local hi i _ _ rfl rfl rfl rfl (by intros; simp) (by intros; simp) (by simp)
    · exact hi
  | startNil i =>
    simp only [cstep]; split
    · exact cinv_local hi i _ _ rfl rfl rfl rfl (by intros; simp) (by intros; simp) (by simp)
    · exact hi
  | step i =>
    simp only [cstep]
    split
    · -- wLock
      simp only [Bool.not_true, Bool.false_eq_true, if_false]
      split
      · rename_i hfree
        have hf : s.wlock = none := by
          cases h : s.wlock with
          | none => rfl
          | some _ => simp [h] at hfree
        exact cinv_acquire hi i _ hf (.inl ⟨_, _, rfl⟩)
      · exact hi
    · -- wHeld
      rename_i p off hpc
      have hw := hi.wheld i p off hpc
      split
      · exact cinv_local hi i _ _ rfl rfl rfl rfl (by intros; simp) (by intros; simp) (by simp)
      · rename_i buf hcell
        -- the cell is not nil: it has not been nil-ed
        have hn : s.niled = false := by
          cases h : s.niled with
          | false => rfl
          | true => have := hi.dead h; rw [hcell] at this; simp at this
        have other : ∀ (j : Nat) (pc' : Pc), (s.pcs.set i (Pc.wGot buf p off))[j]? = some pc' → j ≠ i → s.pcs[j]? = some pc' := by
          intro j pc' hj hne
          rw [getElem?_set_pc] at hj
          split at hj
          · rename_i e; exact absurd e.symm hne
          · exact hj
        refine ⟨hi.dead, ?_, ?_, ?_⟩
        · intro j buf' p' off' hj
          simp only [setPc] at hj ⊢
          by_cases hji : j = i
          · rw [hji]; exact ⟨hw, hn⟩
          · exact hi.wgot j _ _ _ (other j _ hj hji)
        · intro j p' off' hj
          simp only [setPc] at hj ⊢
          by_cases hji : j = i
          · subst hji
            rw [getElem?_set_pc] at hj; simp at hj
          · exact hi.wheld j _ _ (other j _ hj hji)
        · intro j hj
          simp only [setPc] at hj ⊢
          by_cases hji : j = i
          · subst hji
            rw [getElem?_set_pc] at hj; simp at hj
          · exact hi.nheld j (other j _ hj hji)
    · -- wGot: the header write — the writer holds the lock and the cell has not been nil-ed
      rename_i buf p off hpc
      obtain ⟨_, hn⟩ := hi.wgot i buf p off hpc
      have hi' : CInv { s with cell := some (writeAt buf p off), results := (i, Res.wrote) :: s.results } :=
        ⟨by intro h; simp only at h; rw [hn] at h; simp at h, hi.wgot, hi.wheld, hi.nheld⟩
      exact cinv_local hi' i _ _ rfl rfl rfl rfl (by intros; simp) (by intros; simp) (by simp)
    · exact cinv_release hi i
    · -- rLock
      simp only [Bool.not_true, Bool.false_eq_true, if_false]
      split
      · exact cinv_local hi i _ _ rfl rfl rfl rfl (by intros; simp) (by intros; simp) (by simp)
      · exact hi
    · -- rHeld
      split <;> exact cinv_local hi i _ _ rfl rfl rfl rfl (by intros; simp) (by intros; simp) (by simp)
    · exact cinv_local hi i _ _ rfl rfl rfl rfl (by intros; simp) (by intros; simp) (by simp)
    · -- nLock
      simp only [Bool.not_true, Bool.false_eq_true, if_false]
      split
      · rename_i hfree
        have hf : s.wlock = none := by
          cases h : s.wlock with
          | none => rfl
          | some _ => simp [h] at hfree
        exact cinv_acquire hi i _ hf (.inr rfl)
      · exact hi
    · -- nHeld: `*b.data = nil` — no writer is between its header read and its header write
      rename_i hpc
      have hw := hi.nheld i hpc
      have hi' : CInv { s with cell := none, niled := true, results := (i, Res.niled) :: s.results } := by
        refine ⟨fun _ => rfl, ?_, hi.wheld, hi.nheld⟩
        intro j buf p off hj
        have hj' : s.pcs[j]? = some (Pc.wGot buf p off) := hj
        have := (hi.wgot j buf p off hj').1
        rw [hw] at this
        injection this with e
        subst e
        rw [hpc] at hj'; cases hj'
      exact cinv_local hi' i _ _ rfl rfl rfl rfl (by intros; simp) (by intros; simp) (by simp)
    · exact cinv_release hi i
    · exact hi

theorem cinv_run (n : Nat) (data : Bytes) (acts : List CAct) : CInv (crun true (cinit n data) acts) := by
  unfold crun
  have : ∀ (acts : List CAct) (s : CState), CInv s → CInv (acts.foldl (cstep true) s) := by
    intro acts
    induction acts with
    | nil => intro s h; exact h
    | cons a acts ih => intro s h; exact ih _ (cinv_step h a)
  exact this acts _ (cinv_init n data)

end KrakenModel.MemCells
