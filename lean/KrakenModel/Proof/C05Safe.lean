import KrakenModel.Proof.C05Base
/-
  C05 proof library, part 2: every prefix of every operation's plan keeps the invariant on the cache
  tree, and a completed operation keeps the file map in step with the tree.
-/
set_option linter.unusedSectionVars false
set_option linter.unusedSimpArgs false
set_option linter.unusedVariables false
namespace KrakenModel.OriginCrash
open KrakenModel.FS

/-- what the statements assume about the parameters -/
structure Params (cfg : Cfg) : Prop where
  /-- blobs with the same digest have the same metainfo (no collision is ever observed) -/
  miByName : ∀ a b, cfg.digest a = cfg.digest b → cfg.genMI a = cfg.genMI b
  /-- an empty or zero-filled sidecar does not decode -/
  zerosBad : ∀ k, cfg.metaOK (zeros k) = false
  /-- a serialized metainfo decodes -/
  miGood : ∀ b, cfg.metaOK (cfg.genMI b) = true
  /-- `SkipHashVerification` is off -/
  verify : cfg.verify = true

/-- the file map only knows blobs whose file is in the cache -/
def Sync (m : Mem) (fs : FS Name) : Prop := ∀ n, isCached m n = true → (fs.file? (cacheDir n) .data).isSome = true

/-- cached blob files stay -/
def Keeps (fs fs' : FS Name) : Prop := ∀ n, (fs.file? (cacheDir n) .data).isSome = true → (fs'.file? (cacheDir n) .data).isSome = true

theorem Keeps.refl (fs : FS Name) : Keeps fs fs := fun _ h => h
theorem Keeps.trans {a b c : FS Name} (h1 : Keeps a b) (h2 : Keeps b c) : Keeps a c := fun n h => h2 n (h1 n h)

theorem keeps_of_neutral (cs : List (Call Name)) (hn : ∀ c ∈ cs, Neutral c) (fs : FS Name) : Keeps fs (applyAll fs cs) :=
  fun n h => by rw [(neutral_frame_all cs hn fs n).1]; exact h

theorem truncTo_self (b : Bytes) : truncTo b b.length = b := by simp [truncTo]

/-! ### the metainfo sidecar -/

theorem cawMeta_prefix {cfg : Cfg} (hp : Params cfg) {fs : FS Name} (g : GoodFS cfg fs) (n : String) (b : Bytes)
    (hb : cfg.digest b = n) : ∀ k, GoodFS cfg (applyPrefix k (cawPlan fs (cacheDir n) .tmeta (cfg.genMI b)) fs) := by
  intro k
  constructor
  · intro n' c hc
    rw [file?_cawPlan_other fs fs _ _ _ k _ _ (by simp)] at hc
    exact g.dataOK n' c hc
  · intro n' t ht
    by_cases hn : n' = n
    · subst hn
      rcases file?_cawPlan_prefix fs (cacheDir n') .tmeta (cfg.genMI b) k with h | h | h | ⟨old, ho, h⟩
      · rw [h] at ht; exact g.metaOK n' t ht
      · rw [h] at ht; cases ht; exact Or.inl ⟨0, rfl⟩
      · rw [h] at ht; cases ht; exact Or.inr ⟨b, hb, rfl⟩
      · rw [h] at ht; cases ht
        rcases g.metaOK n' old ho with ⟨j, hj⟩ | ⟨b', hb', hv⟩
        · exact Or.inl ⟨_, by rw [hj, truncTo_zeros]⟩
        · have : old = cfg.genMI b := by rw [hv]; exact hp.miByName _ _ (hb'.trans hb.symm)
          rw [this, truncTo_self]; exact Or.inr ⟨b, hb, rfl⟩
    · rw [file?_cawPlan_other fs fs _ _ _ k _ _ (by
        intro e; simp only [Prod.mk.injEq, and_true] at e; exact hn (cacheDir_inj e))] at ht
      exact g.metaOK n' t ht

theorem cawMeta_keeps (fs : FS Name) (n : String) (b : Bytes) :
    Keeps fs (applyAll fs (cawPlan fs (cacheDir n) .tmeta b)) :=
  fun n' h => by rw [file?_cawPlan_other_all fs fs _ _ _ _ _ (by simp)]; exact h

/-! ### loading and locking an entry -/

theorem loadCache_calls (cfg : Cfg) (m : Mem) (fs : FS Name) (n : String) :
    (∀ c ∈ (loadCache cfg m fs n).calls, Neutral c) ∧ (loadCache cfg m fs n).fs = applyAll fs (loadCache cfg m fs n).calls := by
  unfold loadCache
  split
  · simp
  · split
    · exact ⟨latPlan_neutral cfg fs _, rfl⟩
    · simp

theorem touch_calls (cfg : Cfg) (m : Mem) (fs : FS Name) (n : String) : ∀ c ∈ (touch cfg m fs n).2, Neutral c := by
  unfold touch
  split
  · exact cawPlan_neutral_lat fs _ cfg.lat
  · simp

theorem lockCache_calls (cfg : Cfg) (m : Mem) (fs : FS Name) (n : String) :
    (∀ c ∈ (lockCache cfg m fs n).calls, Neutral c) ∧ (lockCache cfg m fs n).fs = applyAll fs (lockCache cfg m fs n).calls := by
  obtain ⟨h1, h2⟩ := loadCache_calls cfg m fs n
  unfold lockCache
  simp only
  split
  · refine ⟨neutral_append h1 (touch_calls cfg _ _ n), ?_⟩
    simp only [applyAll_append]; rw [← h2]
  · exact ⟨h1, h2⟩

theorem isCached_aset (l : List (String × Bool)) (n n' : String) (v : Bool) :
    (aget (aset l n v) n').isSome = true ↔ n' = n ∨ (aget l n').isSome = true := by
  by_cases h : n = n'
  · subst h; simp [aget_aset_self]
  · rw [aget_aset_ne _ _ _ _ h]
    constructor
    · exact Or.inr
    · rintro (e | e)
      · exact absurd e.symm h
      · exact e

theorem loadCache_sync (cfg : Cfg) (m : Mem) (fs : FS Name) (n : String) (hs : Sync m fs) :
    Sync (loadCache cfg m fs n).mem (loadCache cfg m fs n).fs ∧
    ((loadCache cfg m fs n).present = true → isCached (loadCache cfg m fs n).mem n = true) ∧
    ((loadCache cfg m fs n).present = false → (fs.file? (cacheDir n) .data).isNone = true ∧ (loadCache cfg m fs n).calls = []) := by
  unfold loadCache
  split
  · rename_i h; exact ⟨hs, fun _ => h, fun h' => by simp at h'⟩
  · split
    · rename_i hc hd
      refine ⟨?_, fun _ => by simp [isCached, aget_aset_self], fun h' => by simp at h'⟩
      intro n' hn'
      simp only [isCached] at hn'
      have hk := keeps_of_neutral _ (latPlan_neutral cfg fs (cacheDir n)) fs
      rcases (isCached_aset _ _ _ _).mp hn' with e | e
      · subst e; exact hk _ hd
      · exact hk _ (hs n' e)
    · rename_i hc hd
      exact ⟨hs, fun h' => by simp at h', fun _ => ⟨by simpa using hd, rfl⟩⟩

theorem touch_sync (cfg : Cfg) (m : Mem) (fs : FS Name) (n : String) (hs : Sync m fs) :
    Sync (touch cfg m fs n).1 (applyAll fs (touch cfg m fs n).2) ∧
    (isCached m n = true → isCached (touch cfg m fs n).1 n = true) := by
  unfold touch
  split
  · refine ⟨?_, fun _ => by simp [isCached, aget_aset_self]⟩
    intro n' hn'
    simp only [isCached] at hn'
    have hk := keeps_of_neutral _ (cawPlan_neutral_lat fs (cacheDir n) cfg.lat) fs
    rcases (isCached_aset _ _ _ _).mp hn' with e | e
    · subst e; rename_i h; exact hk _ (hs n' (by simp [isCached, h]))
    · exact hk _ (hs n' e)
  · exact ⟨hs, id⟩

theorem lockCache_sync (cfg : Cfg) (m : Mem) (fs : FS Name) (n : String) (hs : Sync m fs) :
    Sync (lockCache cfg m fs n).mem (lockCache cfg m fs n).fs ∧
    ((lockCache cfg m fs n).present = true → isCached (lockCache cfg m fs n).mem n = true) ∧
    ((lockCache cfg m fs n).present = false → (fs.file? (cacheDir n) .data).isNone = true ∧ (lockCache cfg m fs n).calls = []) := by
  obtain ⟨h1, h2, h3⟩ := loadCache_sync cfg m fs n hs
  unfold lockCache
  simp only
  split
  · rename_i hp
    obtain ⟨t1, t2⟩ := touch_sync cfg _ _ n h1
    exact ⟨t1, fun _ => t2 (h2 hp), fun h' => by simp at h'⟩
  · rename_i hp
    exact ⟨h1, h2, h3⟩

/-! ### the commit -/

theorem rename_good {cfg : Cfg} {fs : FS Name} (g : GoodFS cfg fs) (u n : String) (c : Bytes)
    (hc : fs.file? (uploadDir u) .data = some c) (hd : cfg.digest c = n) :
    GoodFS cfg (apply fs (Call.rename (uploadDir u) .data (cacheDir n) .data)) ∧
    Keeps fs (apply fs (Call.rename (uploadDir u) .data (cacheDir n) .data)) := by
  have hr := file?_apply_rename fs (uploadDir u) (cacheDir n) Name.data Name.data (uploadDir_ne_cacheDir u n)
  have hother : ∀ p x, (p, x) ≠ (uploadDir u, Name.data) → (p, x) ≠ (cacheDir n, Name.data) →
      (apply fs (Call.rename (uploadDir u) .data (cacheDir n) .data)).file? p x = fs.file? p x := by
    intro p x h1 h2
    exact file?_apply_of_not_written fs _ p x rfl (by simp [Call.writes, h1, h2])
  refine ⟨⟨?_, ?_⟩, ?_⟩
  · intro n' c' hc'
    by_cases hn : n' = n
    · subst hn
      rw [hr.1] at hc'
      split at hc'
      · rw [hc] at hc'; cases hc'; exact hd
      · exact g.dataOK n' c' hc'
    · rw [hother _ _ (by simp [uploadDir, cacheDir]) (by
        intro e; simp only [Prod.mk.injEq, and_true] at e; exact hn (cacheDir_inj e))] at hc'
      exact g.dataOK n' c' hc'
  · intro n' t ht
    rw [hother _ _ (by simp) (by simp)] at ht
    exact g.metaOK n' t ht
  · intro n' h
    by_cases hn : n' = n
    · subst hn
      rw [hr.1]
      split
      · rw [hc]; rfl
      · exact h
    · rw [hother _ _ (by simp [uploadDir, cacheDir]) (by
        intro e; simp only [Prod.mk.injEq, and_true] at e; exact hn (cacheDir_inj e))]
      exact h

/-- what an operation guarantees: the invariant at every crash point, and the file map in step with
the tree when it completes -/
structure OpOK (cfg : Cfg) (m : Mem) (fs : FS Name) (out : Out) : Prop where
  pre : GoodFS cfg fs → ∀ k, GoodFS cfg (applyPrefix k out.calls fs)
  sync : Sync m fs → Sync out.mem (applyAll fs out.calls)

theorem opOK_neutral {cfg : Cfg} {m : Mem} {fs : FS Name} {out : Out} (hn : ∀ c ∈ out.calls, Neutral c)
    (hm : ∀ n, isCached out.mem n = true → isCached m n = true) : OpOK cfg m fs out :=
  ⟨fun g => neutral_prefix g _ hn, fun hs n h => keeps_of_neutral _ hn fs n (hs n (hm n h))⟩

theorem udelete_calls (o : Order Name) (m : Mem) (fs : FS Name) (u : String) :
    (∀ c ∈ (udelete o m fs u).2, Neutral c) ∧ (udelete o m fs u).1.cached = m.cached := by
  unfold udelete
  split
  · exact ⟨removeAll_upload_neutral fs o u, rfl⟩
  · simp

theorem ustart_ok (cfg : Cfg) (m : Mem) (fs : FS Name) (u : String) : OpOK cfg m fs (ustart cfg m fs u) := by
  unfold ustart
  split
  · exact opOK_neutral (by simp) (fun _ h => h)
  · apply opOK_neutral
    · simp only
      apply neutral_append (latPlan_neutral cfg fs _)
      apply neutral_append (mkdirAll_neutral _ _)
      intro c hc
      simp only [List.mem_cons, List.not_mem_nil, or_false] at hc
      rcases hc with rfl | rfl <;> exact ⟨rfl, fun n => by simp [Call.writes, uploadDir, cacheDir]⟩
    · intro n h; exact h

theorem uwrite_ok (cfg : Cfg) (m : Mem) (fs : FS Name) (u : String) (off : Nat) (b : Bytes) :
    OpOK cfg m fs (uwrite cfg m fs u off b) := by
  unfold uwrite
  split
  · exact opOK_neutral (by simp) (fun _ h => h)
  · split
    · exact opOK_neutral (by simp) (fun _ h => h)
    · exact opOK_neutral (chunkCalls_neutral u _ _ _ _) (fun _ h => h)

/-- `fin`: the deferred removal of the upload file after the commit's own calls -/
theorem fin_ok {cfg : Cfg} (o : Order Name) (m m1 : Mem) (fs : FS Name) (cs : List (Call Name)) (u : String) (r : Res)
    (hpre : GoodFS cfg fs → ∀ k, GoodFS cfg (applyPrefix k cs fs))
    (hsync : Sync m fs → Sync m1 (applyAll fs cs)) :
    OpOK cfg m fs ⟨(udelete o m1 (applyAll fs cs) u).1, cs ++ (udelete o m1 (applyAll fs cs) u).2, r⟩ := by
  obtain ⟨hn, hc⟩ := udelete_calls o m1 (applyAll fs cs) u
  refine ⟨fun g => prefix_append _ _ _ _ (hpre g) (neutral_prefix (all_of_prefix _ _ _ (hpre g)) _ hn), ?_⟩
  intro hs n h
  simp only [applyAll_append]
  have h' : isCached m1 n = true := by simpa [isCached, hc] using h
  exact keeps_of_neutral _ hn _ n (hsync hs n h')

theorem commit_ok (cfg : Cfg) (hv : cfg.verify = true) (o : Order Name) (m : Mem) (fs : FS Name) (u n : String) :
    OpOK cfg m fs (commit cfg o m fs u n) := by
  unfold commit
  split
  · exact opOK_neutral (by simp) (fun _ h => h)
  · simp only
    split
    · -- the upload file is gone
      exact fin_ok o m m fs [] u _ (fun g k => by simpa [applyPrefix] using g) (fun hs => hs)
    · rename_i c hc
      split
      · exact fin_ok o m m fs [] u _ (fun g k => by simpa [applyPrefix] using g) (fun hs => hs)
      · rename_i hd
        have hd' : cfg.digest c = n := by simpa [hv] using hd
        split
        · -- already in the file map
          rename_i hcached
          have hn := touch_calls cfg m fs n
          obtain ⟨t1, _⟩ := (fun hs => touch_sync cfg m fs n hs : Sync m fs → _)
            |> fun f => (⟨fun hs => (f hs).1, trivial⟩ : (Sync m fs → Sync (touch cfg m fs n).1 (applyAll fs (touch cfg m fs n).2)) ∧ True)
          exact fin_ok o m _ fs _ u _ (fun g => neutral_prefix g _ hn) t1
        · split
          · -- on disk: loaded
            obtain ⟨hn, hfs⟩ := loadCache_calls cfg m fs n
            have := fin_ok (cfg := cfg) o m (loadCache cfg m fs n).mem fs (loadCache cfg m fs n).calls u Res.exist
              (fun g => neutral_prefix g _ hn)
              (fun hs => by rw [← hfs]; exact (loadCache_sync cfg m fs n hs).1)
            rw [← hfs] at this
            exact this
          · -- a new entry
            rename_i hcached hpresent
            have hA : ∀ c' ∈ latPlan cfg fs (cacheDir n) ++ mkdirAllPlan (applyAll fs (latPlan cfg fs (cacheDir n))) (cacheDir n), Neutral c' :=
              neutral_append (latPlan_neutral cfg fs _) (mkdirAll_neutral _ _)
            -- the upload file is still what was verified
            have hsrc : (applyAll fs (latPlan cfg fs (cacheDir n) ++ mkdirAllPlan (applyAll fs (latPlan cfg fs (cacheDir n))) (cacheDir n))).file?
                (uploadDir u) .data = some c := by
              rw [file?_applyAll_of_not_written _ fs _ _ (fun c' hc' => by
                rcases List.mem_append.mp hc' with h | h
                · unfold latPlan at h
                  split at h
                  · simp at h
                  · obtain ⟨h1, h2⟩ := cawPlan_writes fs (cacheDir n) .lat cfg.lat c' h
                    exact ⟨h1, fun hw => by have := h2 _ hw; simp at this⟩
                · obtain ⟨h1, h2⟩ := mkdirAllPlan_nowrite _ _ c' h
                  exact ⟨h1, by rw [h2]; simp⟩)]
              exact hc
            have e : latPlan cfg fs (cacheDir n) ++
                (mkdirAllPlan (applyAll fs (latPlan cfg fs (cacheDir n))) (cacheDir n) ++ [Call.rename (uploadDir u) Name.data (cacheDir n) Name.data]) =
                (latPlan cfg fs (cacheDir n) ++ mkdirAllPlan (applyAll fs (latPlan cfg fs (cacheDir n))) (cacheDir n)) ++
                  [Call.rename (uploadDir u) Name.data (cacheDir n) Name.data] := by simp
            have e2 : applyAll (applyAll fs (latPlan cfg fs (cacheDir n)))
                (mkdirAllPlan (applyAll fs (latPlan cfg fs (cacheDir n))) (cacheDir n) ++ [Call.rename (uploadDir u) Name.data (cacheDir n) Name.data]) =
                applyAll fs ((latPlan cfg fs (cacheDir n) ++ mkdirAllPlan (applyAll fs (latPlan cfg fs (cacheDir n))) (cacheDir n)) ++
                  [Call.rename (uploadDir u) Name.data (cacheDir n) Name.data]) := by
              simp only [applyAll_append]
            rw [e2, e]
            generalize hA' : latPlan cfg fs (cacheDir n) ++ mkdirAllPlan (applyAll fs (latPlan cfg fs (cacheDir n))) (cacheDir n) = A at hA hsrc
            have hkA := keeps_of_neutral A hA fs
            apply fin_ok o m _ fs (A ++ [Call.rename (uploadDir u) Name.data (cacheDir n) Name.data]) u
            · intro g
              apply prefix_append _ _ _ _ (neutral_prefix g A hA)
              intro k
              have gA := neutral_all g A hA
              match k with
              | 0 => simpa [applyPrefix] using gA
              | k + 1 =>
                have : applyPrefix (k + 1) [Call.rename (uploadDir u) Name.data (cacheDir n) Name.data] (applyAll fs A) =
                    apply (applyAll fs A) (Call.rename (uploadDir u) Name.data (cacheDir n) Name.data) := by simp [applyPrefix]
                rw [this]
                exact (rename_good gA u n c hsrc hd').1
            · intro hs n' hn'
              simp only [applyAll_append, applyAll_cons, applyAll_nil]
              have hren := rename_good (cfg := cfg) (fs := applyAll fs A) (u := u) (n := n) (c := c)
              simp only [isCached] at hn'
              rcases (isCached_aset _ _ _ _).mp hn' with e' | e'
              · subst e'
                have hr := file?_apply_rename (applyAll fs A) (uploadDir u) (cacheDir n') Name.data Name.data (uploadDir_ne_cacheDir u n')
                rw [hr.1]
                split
                · rw [hsrc]; rfl
                · -- the rename cannot fail: the directory was just made
                  rename_i hno
                  exfalso; apply hno
                  refine ⟨by rw [hsrc]; rfl, ?_⟩
                  rw [← hA']
                  simp only [applyAll_append]
                  exact dir?_isSome_of_isDir (cacheDir_ne_nil n') (isDir_mkdirAllPlan' _ _)
              · -- an entry that was there before
                have h0 := hkA n' (hs n' e')
                have hother : (apply (applyAll fs A) (Call.rename (uploadDir u) Name.data (cacheDir n) Name.data)).file? (cacheDir n') Name.data =
                    (applyAll fs A).file? (cacheDir n') Name.data ∨ n' = n := by
                  by_cases hnn : n' = n
                  · exact Or.inr hnn
                  · left
                    exact file?_apply_of_not_written _ _ _ _ rfl (by
                      simp only [Call.writes, List.mem_cons, List.not_mem_nil, or_false, Prod.mk.injEq, and_true, not_or]
                      exact ⟨fun e => absurd e.symm (uploadDir_ne_cacheDir u n'), fun e => hnn (cacheDir_inj e)⟩)
                rcases hother with h | h
                · rw [h]; exact h0
                · subst h
                  -- the data file of n' exists, so the entry was present: contradiction with the branch
                  exfalso
                  have : (fs.file? (cacheDir n') .data).isSome = true := hs n' e'
                  unfold loadCache at hpresent
                  simp only [hcached, Bool.false_eq_true, if_false, this, if_true] at hpresent
                  exact hpresent trivial

end KrakenModel.OriginCrash
