import KrakenModel.Proof.C19Progress
/-
  C19 helper lemmas (progress): connection and pipeline slots can always be freed by the time-driven
  actions the scheduler has (dropping a connection: preemption / ConnTTI / ConnTTL; request expiry is
  implied by dropping the connection: ClearPeer; blacklist expiry), so that `CanFetch` becomes true.
-/
namespace KrakenModel.Proof.C19
open KrakenModel KrakenModel.AgentTorrent KrakenModel.Swarm KrakenModel.Proof.C03

/-- connection lists are duplicate free, never contain the peer itself and respect the limit -/
def ConnsOK (s : Swarm) : Prop :=
  ∀ (a : Nat) (p : Peer), s.peers[a]? = some p → p.conns.Nodup ∧ a ∉ p.conns ∧ p.conns.length ≤ s.cfg.maxConns

theorem connsOK_setPeer {s : Swarm} {x : Nat} {q : Peer} (hs : ConnsOK s)
    (hq : q.conns.Nodup ∧ x ∉ q.conns ∧ q.conns.length ≤ s.cfg.maxConns) : ConnsOK (setPeer s x q) := by
  intro a p hp
  simp only [setPeer] at hp ⊢
  rw [List.getElem?_set] at hp
  split at hp
  · split at hp
    · cases hp; rename_i h _; subst h; exact hq
    · cases hp
  · exact hs a p hp

theorem connsOK_same {s : Swarm} {x : Nat} {px q : Peer} (hs : ConnsOK s) (hx : s.peers[x]? = some px)
    (hq : q.conns = px.conns) : ConnsOK (setPeer s x q) :=
  connsOK_setPeer hs (by rw [hq]; exact hs x px hx)

theorem markInvalid_conns (pa : Peer) (b i : Nat) : (markInvalid pa b i).conns = pa.conns := by
  unfold markInvalid; simp only; split <;> rfl

theorem dropEnd_connsOK {s : Swarm} (hs : ConnsOK s) (a b : Nat) : ConnsOK (dropEnd s a b) := by
  unfold dropEnd
  cases ha : s.peers[a]? with
  | none => exact hs
  | some pa =>
    obtain ⟨h1, h2, h3⟩ := hs a pa ha
    exact connsOK_setPeer hs ⟨h1.erase b, fun h => h2 (List.mem_of_mem_erase h),
      Nat.le_trans (List.length_erase_le ..) h3⟩

theorem step_connsOK (crc : Bytes → Nat) {s : Swarm} (hs : ConnsOK s) (act : Swarm.Action) :
    ConnsOK (Swarm.step crc s act) := by
  cases act with
  | connect a b =>
    simp only [Swarm.step]
    cases ha : s.peers[a]? with
    | none => exact hs
    | some pa =>
      cases hb : s.peers[b]? with
      | none => exact hs
      | some pb =>
        simp only
        split
        · rename_i hc
          obtain ⟨hab, _, _, hnb, hna, hla, hlb, _⟩ := hc
          obtain ⟨a1, a2, _⟩ := hs a pa ha
          obtain ⟨b1, b2, _⟩ := hs b pb hb
          have h1 : ConnsOK (setPeer s a { pa with conns := b :: pa.conns }) :=
            connsOK_setPeer hs ⟨List.nodup_cons.mpr ⟨hnb, a1⟩,
              by intro h; rcases List.mem_cons.mp h with h | h; exact hab h; exact a2 h,
              by simp only [List.length_cons]; omega⟩
          exact connsOK_setPeer h1 ⟨List.nodup_cons.mpr ⟨hna, b1⟩,
              by intro h; rcases List.mem_cons.mp h with h | h; exact hab h.symm; exact b2 h,
              by simp only [List.length_cons, setPeer]; omega⟩
        · exact hs
  | disconnect a b => exact dropEnd_connsOK (dropEnd_connsOK hs a b) b a
  | unblacklist a b =>
    simp only [Swarm.step]
    cases ha : s.peers[a]? with
    | none => exact hs
    | some pa => exact connsOK_same hs ha rfl
  | dialfail a b =>
    simp only [Swarm.step]
    cases ha : s.peers[a]? with
    | none => exact hs
    | some pa => exact connsOK_same hs ha rfl
  | expire a b i =>
    simp only [Swarm.step]
    cases ha : s.peers[a]? with
    | none => exact hs
    | some pa => simp only; split; exact connsOK_same hs ha rfl; exact hs
  | reqfail a b i =>
    simp only [Swarm.step]
    cases ha : s.peers[a]? with
    | none => exact hs
    | some pa => exact connsOK_same hs ha (markInvalid_conns pa b i)
  | resend a f b i =>
    simp only [Swarm.step]
    cases ha : s.peers[a]? with
    | none => exact hs
    | some pa =>
      cases hb : s.peers[b]? with
      | none => exact hs
      | some pb => simp only; split; exact connsOK_same hs ha rfl; exact hs
  | leave a =>
    simp only [Swarm.step]
    cases ha : s.peers[a]? with
    | none => exact hs
    | some pa =>
      simp only
      intro z p hp
      rw [List.getElem?_set] at hp
      split at hp
      · split at hp
        · cases hp; exact ⟨List.nodup_nil, by simp, Nat.zero_le _⟩
        · cases hp
      · rw [List.getElem?_map] at hp
        cases hz : s.peers[z]? with
        | none => rw [hz] at hp; cases hp
        | some pz =>
          rw [hz] at hp; cases hp
          obtain ⟨h1, h2, h3⟩ := hs z pz hz
          exact ⟨h1.erase a, fun h => h2 (List.mem_of_mem_erase h), Nat.le_trans (List.length_erase_le ..) h3⟩
  | request a b i =>
    simp only [Swarm.step]
    cases ha : s.peers[a]? with
    | none => exact hs
    | some pa =>
      cases hb : s.peers[b]? with
      | none => exact hs
      | some pb => simp only; split; exact connsOK_same hs ha rfl; exact hs
  | deliver a b i g =>
    simp only [Swarm.step]
    cases ha : s.peers[a]? with
    | none => exact hs
    | some pa =>
      cases hb : s.peers[b]? with
      | none => exact hs
      | some pb =>
        simp only
        split
        · cases hw : wirePayload pb i g with
          | none => exact connsOK_same hs ha (markInvalid_conns pa b i)
          | some payload => exact connsOK_same hs ha rfl
        · exact hs
  | tstep a tid k =>
    simp only [Swarm.step]
    cases ha : s.peers[a]? with
    | none => exact hs
    | some pa => exact connsOK_same hs ha rfl
  | resolve a tid =>
    simp only [Swarm.step]
    cases ha : s.peers[a]? with
    | none => exact hs
    | some pa =>
      simp only
      cases hf : pa.inflight.find? (·.tid = tid) with
      | none => exact hs
      | some d =>
        cases hr : (pa.tor.threads[tid]?).bind (·.result) with
        | none => exact hs
        | some r =>
          simp only
          cases r <;> first
            | exact connsOK_same hs ha rfl
            | exact connsOK_same hs ha (markInvalid_conns _ _ _)

theorem init_connsOK (cfg : Cfg) (mi : MetaInfo) (blob : Bytes) (seeders : List Bool) (agents : Nat) :
    ConnsOK (initSwarm cfg mi blob seeders agents) := by
  intro a p hp
  simp only [initSwarm] at hp
  rw [List.getElem?_append] at hp
  split at hp
  · rw [List.getElem?_map] at hp
    cases hc : seeders[a]? with
    | none => rw [hc] at hp; cases hp
    | some c => rw [hc] at hp; cases hp; exact ⟨List.nodup_nil, by simp, Nat.zero_le _⟩
  · rw [List.getElem?_replicate] at hp
    split at hp
    · cases hp; exact ⟨List.nodup_nil, by simp, Nat.zero_le _⟩
    · cases hp


/-! ### effect of the slot-freeing actions on single peers -/

/-- what dropping the end towards `w` does to a peer record -/
def dropped (p : Peer) (w : Nat) : Peer :=
  { p with conns := p.conns.erase w, reqs := p.reqs.filter (·.1 ≠ w), blacklist := w :: p.blacklist }

theorem dropEnd_self {s : Swarm} {x : Nat} {px : Peer} (hx : s.peers[x]? = some px) (y : Nat) :
    (dropEnd s x y).peers[x]? = some (dropped px y) := by
  unfold dropEnd; rw [hx]; exact setPeer_get_self hx

theorem dropEnd_other (s : Swarm) (x y z : Nat) (h : x ≠ z) : (dropEnd s x y).peers[z]? = s.peers[z]? := by
  unfold dropEnd
  cases hx : s.peers[x]? with
  | none => rfl
  | some px => exact setPeer_get_other h

theorem dropEnd_cfg (s : Swarm) (x y : Nat) : (dropEnd s x y).cfg = s.cfg := by
  unfold dropEnd; cases s.peers[x]? <;> rfl

theorem disconnect_left (crc : Bytes → Nat) {s : Swarm} {x y : Nat} {px : Peer} (hx : s.peers[x]? = some px) (hxy : x ≠ y) :
    (Swarm.step crc s (.disconnect x y)).peers[x]? = some (dropped px y) := by
  simp only [Swarm.step]
  rw [dropEnd_other _ y x x (Ne.symm hxy)]; exact dropEnd_self hx y

theorem disconnect_right (crc : Bytes → Nat) {s : Swarm} {x y : Nat} {py : Peer} (hy : s.peers[y]? = some py) (hxy : x ≠ y) :
    (Swarm.step crc s (.disconnect x y)).peers[y]? = some (dropped py x) := by
  simp only [Swarm.step]
  exact dropEnd_self (by rw [dropEnd_other s x y y hxy]; exact hy) x

theorem disconnect_other (crc : Bytes → Nat) (s : Swarm) (x y z : Nat) (hx : x ≠ z) (hy : y ≠ z) :
    (Swarm.step crc s (.disconnect x y)).peers[z]? = s.peers[z]? := by
  simp only [Swarm.step]
  rw [dropEnd_other _ y x z hy, dropEnd_other s x y z hx]

theorem disconnect_cfg (crc : Bytes → Nat) (s : Swarm) (x y : Nat) : (Swarm.step crc s (.disconnect x y)).cfg = s.cfg := by
  simp only [Swarm.step]; rw [dropEnd_cfg, dropEnd_cfg]

/-- one connection slot of `x` can be freed without touching peer `o` (to which `x` is not connected) -/
theorem free_one (crc : Bytes → Nat) {t : Swarm} (ht : ConnsOK t) (x o : Nat) (qx qo : Peer)
    (hx : t.peers[x]? = some qx) (ho : t.peers[o]? = some qo) (hxo : x ≠ o) (hox : o ∉ qx.conns)
    (hmax : 0 < t.cfg.maxConns) :
    ∃ (acts : List Swarm.Action) (qx' : Peer),
      (∀ act ∈ acts, ∃ h, act = .disconnect x h) ∧
      ConnsOK (acts.foldl (Swarm.step crc) t) ∧ (acts.foldl (Swarm.step crc) t).cfg = t.cfg ∧
      (acts.foldl (Swarm.step crc) t).peers[x]? = some qx' ∧ (acts.foldl (Swarm.step crc) t).peers[o]? = some qo ∧
      qx'.conns.length < t.cfg.maxConns ∧ (∀ w, w ∈ qx'.conns → w ∈ qx.conns) ∧
      (∀ r, r ∈ qx'.reqs → r ∈ qx.reqs) ∧ qx'.tor = qx.tor ∧ qx'.present = qx.present ∧ qx'.corrupt = qx.corrupt ∧
      (∀ w, w ∈ qx'.blacklist → w ∈ qx.blacklist ∨ w ≠ o) := by
  obtain ⟨hnd, hself, hlen⟩ := ht x qx hx
  cases hc : qx.conns with
  | nil =>
    refine ⟨[], qx, by simp, ht, rfl, hx, ho, ?_, ?_, fun r h => h, rfl, rfl, rfl, fun w h => Or.inl h⟩
    · rw [hc]; exact hmax
    · intro w h; rw [hc] at h; exact h
  | cons h tl =>
    have hhx : h ≠ x := by intro e; apply hself; rw [hc, e]; exact List.mem_cons_self ..
    have hho : h ≠ o := by intro e; apply hox; rw [hc, e]; exact List.mem_cons_self ..
    refine ⟨[.disconnect x h], dropped qx h, ?_, ?_, ?_, ?_, ?_, ?_, ?_, ?_, rfl, rfl, rfl, ?_⟩
    · intro act ha; simp at ha; exact ⟨h, ha⟩
    · show ConnsOK (Swarm.step crc t (.disconnect x h)); exact step_connsOK crc ht _
    · exact disconnect_cfg crc t x h
    · exact disconnect_left crc hx (Ne.symm hhx)
    · simp only [List.foldl]; rw [disconnect_other crc t x h o hxo hho]; exact ho
    · have he : (dropped qx h).conns = tl := by
        show qx.conns.erase h = tl
        rw [hc]; exact List.erase_cons_head ..
      rw [he]
      rw [hc] at hlen
      simp only [List.length_cons] at hlen; omega
    · intro w hw
      have hw' : w ∈ (h :: tl).erase h := by
        have : (dropped qx h).conns = (h :: tl).erase h := by show qx.conns.erase h = _; rw [hc]
        rw [← this]; exact hw
      exact List.mem_of_mem_erase hw'
    · intro r hr; exact (List.mem_filter.mp hr).1
    · intro w hw
      simp only [dropped] at hw
      rcases List.mem_cons.mp hw with e | e
      · right; rw [e]; exact hho
      · left; exact e

theorem unblacklist_self (crc : Bytes → Nat) {s : Swarm} {x : Nat} {px : Peer} (hx : s.peers[x]? = some px) (y : Nat) :
    (Swarm.step crc s (.unblacklist x y)).peers[x]? = some { px with blacklist := px.blacklist.filter (· ≠ y) } := by
  simp only [Swarm.step, hx]; exact setPeer_get_self hx

theorem unblacklist_other (crc : Bytes → Nat) (s : Swarm) (x y z : Nat) (h : x ≠ z) :
    (Swarm.step crc s (.unblacklist x y)).peers[z]? = s.peers[z]? := by
  simp only [Swarm.step]
  cases hx : s.peers[x]? with
  | none => rfl
  | some px => exact setPeer_get_other h

theorem unblacklist_cfg (crc : Bytes → Nat) (s : Swarm) (x y : Nat) : (Swarm.step crc s (.unblacklist x y)).cfg = s.cfg := by
  simp only [Swarm.step]; cases s.peers[x]? <;> rfl

/-- **Slots are always freeable**: from any state with well-formed connection lists, dropping
    connections (what preemption / ConnTTI / ConnTTL do; this also forgets the requests on them)
    and letting two blacklist entries expire makes the fetch of any piece from `b` startable. -/
theorem slots_freeable (crc : Bytes → Nat) (pl : Nat) (blob : Bytes) {s : Swarm} (hs : ConnsOK s) (a b i : Nat) (pa pb : Peer)
    (ha : s.peers[a]? = some pa) (hb : s.peers[b]? = some pb) (hab : a ≠ b)
    (hpipe : 0 < s.cfg.pipeline) (hmax : 0 < s.cfg.maxConns) :
    ∃ (acts : List Swarm.Action) (pa' pb' : Peer),
      (∀ act ∈ acts, SepSwarmAction crc pl blob act) ∧
      (∀ act ∈ acts, (∃ x y, act = .disconnect x y) ∨ (∃ x y, act = .unblacklist x y)) ∧
      ConnsOK (acts.foldl (Swarm.step crc) s) ∧
      (acts.foldl (Swarm.step crc) s).peers[a]? = some pa' ∧ (acts.foldl (Swarm.step crc) s).peers[b]? = some pb' ∧
      pa'.tor = pa.tor ∧ pa'.present = pa.present ∧ pa'.corrupt = pa.corrupt ∧
      pb'.tor = pb.tor ∧ pb'.present = pb.present ∧ pb'.corrupt = pb.corrupt ∧
      CanFetch (acts.foldl (Swarm.step crc) s) a b i pa' pb' := by
  -- 1. drop the connection between a and b (forgets a's requests to b)
  let s1 := Swarm.step crc s (.disconnect a b)
  have h1 : ConnsOK s1 := step_connsOK crc hs _
  have c1 : s1.cfg = s.cfg := disconnect_cfg crc s a b
  have ha1 : s1.peers[a]? = some (dropped pa b) := disconnect_left crc ha hab
  have hb1 : s1.peers[b]? = some (dropped pb a) := disconnect_right crc hb hab
  have hnb : b ∉ (dropped pa b).conns := by
    simp only [dropped]; intro h
    exact ((List.Nodup.mem_erase_iff (hs a pa ha).1).mp h).1 rfl
  have hna : a ∉ (dropped pb a).conns := by
    simp only [dropped]; intro h
    exact ((List.Nodup.mem_erase_iff (hs b pb hb).1).mp h).1 rfl
  -- 2. free a slot at a, 3. free a slot at b
  obtain ⟨acts2, qa, hk2, h2, c2, ha2, hb2, hl2, hsub2, hreq2, t2, p2, k2, bl2⟩ :=
    free_one crc h1 a b _ _ ha1 hb1 hab hnb (by rw [c1]; exact hmax)
  obtain ⟨acts3, qb, hk3, h3, c3, hb3, ha3, hl3, hsub3, _, t3, p3, k3, bl3⟩ :=
    free_one crc h2 b a _ _ hb2 ha2 (Ne.symm hab) hna (by rw [c2, c1]; exact hmax)
  -- 4. the two blacklist entries expire
  let s3 := acts3.foldl (Swarm.step crc) (acts2.foldl (Swarm.step crc) s1)
  let s4 := Swarm.step crc s3 (.unblacklist a b)
  let s5 := Swarm.step crc s4 (.unblacklist b a)
  have ha4 : s4.peers[a]? = some { qa with blacklist := qa.blacklist.filter (· ≠ b) } := unblacklist_self crc ha3 b
  have hb4 : s4.peers[b]? = some qb := by
    show (Swarm.step crc s3 (.unblacklist a b)).peers[b]? = _
    rw [unblacklist_other crc s3 a b b hab]; exact hb3
  have ha5 : s5.peers[a]? = some { qa with blacklist := qa.blacklist.filter (· ≠ b) } := by
    show (Swarm.step crc s4 (.unblacklist b a)).peers[a]? = _
    rw [unblacklist_other crc s4 b a a (Ne.symm hab)]; exact ha4
  have hb5 : s5.peers[b]? = some { qb with blacklist := qb.blacklist.filter (· ≠ a) } := unblacklist_self crc hb4 a
  have c5 : s5.cfg = s.cfg := by
    show (Swarm.step crc s4 (.unblacklist b a)).cfg = _
    rw [unblacklist_cfg]
    show (Swarm.step crc s3 (.unblacklist a b)).cfg = _
    rw [unblacklist_cfg, c3, c2, c1]
  refine ⟨[.disconnect a b] ++ acts2 ++ acts3 ++ [.unblacklist a b, .unblacklist b a],
    { qa with blacklist := qa.blacklist.filter (· ≠ b) }, { qb with blacklist := qb.blacklist.filter (· ≠ a) },
    ?_, ?_, ?_, ?_, ?_, ?_, ?_, ?_, ?_, ?_, ?_, ?_⟩
  · intro act hact
    simp only [List.mem_append, List.mem_cons, List.not_mem_nil, or_false] at hact
    rcases hact with ((h | h) | h) | h
    · subst h; trivial
    · obtain ⟨_, e⟩ := hk2 act h; subst e; trivial
    · obtain ⟨_, e⟩ := hk3 act h; subst e; trivial
    · rcases h with h | h <;> (subst h; trivial)
  · intro act hact
    simp only [List.mem_append, List.mem_cons, List.not_mem_nil, or_false] at hact
    rcases hact with ((h | h) | h) | h
    · exact Or.inl ⟨a, b, h⟩
    · obtain ⟨w, e⟩ := hk2 act h; exact Or.inl ⟨a, w, e⟩
    · obtain ⟨w, e⟩ := hk3 act h; exact Or.inl ⟨b, w, e⟩
    · rcases h with h | h
      · exact Or.inr ⟨a, b, h⟩
      · exact Or.inr ⟨b, a, h⟩
  · simp only [List.foldl_append, List.foldl]
    exact step_connsOK crc (step_connsOK crc h3 _) _
  · simp only [List.foldl_append, List.foldl]; exact ha5
  · simp only [List.foldl_append, List.foldl]; exact hb5
  · show qa.tor = pa.tor; rw [t2]; rfl
  · show qa.present = pa.present; rw [p2]; rfl
  · show qa.corrupt = pa.corrupt; rw [k2]; rfl
  · show qb.tor = pb.tor; rw [t3]; rfl
  · show qb.present = pb.present; rw [p3]; rfl
  · show qb.corrupt = pb.corrupt; rw [k3]; rfl
  · simp only [List.foldl_append, List.foldl]
    show CanFetch s5 a b i _ _
    unfold CanFetch
    right
    rw [c5]
    refine ⟨?_, Or.inr ⟨?_, ?_, ?_, ?_⟩⟩
    · -- no request to b is left
      have hnone : (qa.reqs.filter (·.1 = b)) = [] := by
        rw [List.filter_eq_nil_iff]
        intro r hr
        have := hreq2 r hr
        simp only [dropped] at this
        have := (List.mem_filter.mp this).2
        simpa using this
      show (qa.reqs.filter (·.1 = b)).length < _
      rw [hnone]; exact hpipe
    · show a ∉ qb.conns
      intro h; exact hna (hsub3 a h)
    · show qa.conns.length < _
      rw [← c1]; exact hl2
    · show qb.conns.length < _
      rw [← c1, ← c2]; exact hl3
    · show b ∉ qa.blacklist.filter (· ≠ b)
      intro h; have := (List.mem_filter.mp h).2; simp at this


/-! ### slot accounting: connection entries only point to live peers -/

/-- every connection entry points to a peer that exists and has not left ("active conns ⊆ live conns") -/
def ConnsLive (s : Swarm) : Prop :=
  ∀ (a : Nat) (p : Peer), s.peers[a]? = some p → ∀ c, c ∈ p.conns → ∃ q, s.peers[c]? = some q ∧ q.present = true

/-- rewriting peer `x` with a record that keeps `present` and whose connections all point to live peers -/
theorem live_setPeer {s : Swarm} {x : Nat} {px q : Peer} (hl : ConnsLive s) (hx : s.peers[x]? = some px)
    (hpres : q.present = px.present)
    (hconns : ∀ c, c ∈ q.conns → ∃ r, s.peers[c]? = some r ∧ r.present = true) : ConnsLive (setPeer s x q) := by
  have lift : ∀ (c : Nat) (r : Peer), s.peers[c]? = some r → r.present = true →
      ∃ r' : Peer, (setPeer s x q).peers[c]? = some r' ∧ r'.present = true := by
    intro c r hc hr
    by_cases hcx : x = c
    · subst hcx
      rw [hx] at hc; cases hc
      exact ⟨q, setPeer_get_self hx, by rw [hpres]; exact hr⟩
    · exact ⟨r, by rw [setPeer_get_other hcx]; exact hc, hr⟩
  intro a p hp c hc
  by_cases hax : x = a
  · subst hax
    rw [setPeer_get_self hx] at hp; cases hp
    obtain ⟨r, h1, h2⟩ := hconns c hc
    exact lift c r h1 h2
  · rw [setPeer_get_other hax] at hp
    obtain ⟨r, h1, h2⟩ := hl a p hp c hc
    exact lift c r h1 h2

theorem live_same {s : Swarm} {x : Nat} {px q : Peer} (hl : ConnsLive s) (hx : s.peers[x]? = some px)
    (hpres : q.present = px.present) (hsub : ∀ c, c ∈ q.conns → c ∈ px.conns) : ConnsLive (setPeer s x q) :=
  live_setPeer hl hx hpres (fun c hc => hl x px hx c (hsub c hc))

theorem markInvalid_present (pa : Peer) (b i : Nat) : (markInvalid pa b i).present = pa.present := by
  unfold markInvalid; simp only; split <;> rfl

theorem dropEnd_live {s : Swarm} (hl : ConnsLive s) (a b : Nat) : ConnsLive (dropEnd s a b) := by
  unfold dropEnd
  cases ha : s.peers[a]? with
  | none => exact hl
  | some pa => exact live_same hl ha rfl (fun c hc => List.mem_of_mem_erase hc)

theorem step_live_conns (crc : Bytes → Nat) {s : Swarm} (hc : ConnsOK s) (hl : ConnsLive s) (act : Swarm.Action) :
    ConnsLive (Swarm.step crc s act) := by
  cases act with
  | connect a b =>
    simp only [Swarm.step]
    cases ha : s.peers[a]? with
    | none => exact hl
    | some pa =>
      cases hb : s.peers[b]? with
      | none => exact hl
      | some pb =>
        simp only
        split
        · rename_i hcond
          obtain ⟨hab, hpa, hpb, _⟩ := hcond
          have h1 : ConnsLive (setPeer s a { pa with conns := b :: pa.conns }) := by
            refine live_setPeer hl ha ?_ ?_
            · rfl
            intro c hc'
            rcases List.mem_cons.mp hc' with e | e
            · subst e; exact ⟨pb, hb, hpb⟩
            · exact hl a pa ha c e
          have hb' : (setPeer s a { pa with conns := b :: pa.conns }).peers[b]? = some pb := by
            rw [setPeer_get_other hab]; exact hb
          refine live_setPeer h1 hb' ?_ ?_
          · rfl
          intro c hc'
          rcases List.mem_cons.mp hc' with e | e
          · subst e; exact ⟨_, setPeer_get_self ha, hpa⟩
          · exact h1 b pb hb' c e
        · exact hl
  | disconnect a b => exact dropEnd_live (dropEnd_live hl a b) b a
  | dialfail a b =>
    simp only [Swarm.step]
    cases ha : s.peers[a]? with
    | none => exact hl
    | some pa => exact live_same hl ha rfl (fun _ h => h)
  | unblacklist a b =>
    simp only [Swarm.step]
    cases ha : s.peers[a]? with
    | none => exact hl
    | some pa => exact live_same hl ha rfl (fun _ h => h)
  | expire a b i =>
    simp only [Swarm.step]
    cases ha : s.peers[a]? with
    | none => exact hl
    | some pa => simp only; split; exact live_same hl ha rfl (fun _ h => h); exact hl
  | reqfail a b i =>
    simp only [Swarm.step]
    cases ha : s.peers[a]? with
    | none => exact hl
    | some pa =>
      exact live_same hl ha (markInvalid_present pa b i) (fun c h => by rw [markInvalid_conns] at h; exact h)
  | resend a f b i =>
    simp only [Swarm.step]
    cases ha : s.peers[a]? with
    | none => exact hl
    | some pa =>
      cases hb : s.peers[b]? with
      | none => exact hl
      | some pb => simp only; split; exact live_same hl ha rfl (fun _ h => h); exact hl
  | leave a =>
    simp only [Swarm.step]
    cases ha : s.peers[a]? with
    | none => exact hl
    | some pa =>
      simp only
      intro z p hp c hcm
      rw [List.getElem?_set] at hp
      split at hp
      · split at hp
        · cases hp; simp at hcm
        · cases hp
      · rename_i hza
        rw [List.getElem?_map] at hp
        cases hz : s.peers[z]? with
        | none => rw [hz] at hp; cases hp
        | some pz =>
          rw [hz] at hp; cases hp
          simp only at hcm
          have hcz : c ∈ pz.conns := List.mem_of_mem_erase hcm
          have hca : c ≠ a := by
            intro e; subst e
            exact ((List.Nodup.mem_erase_iff (hc z pz hz).1).mp hcm).1 rfl
          obtain ⟨r, h1, h2⟩ := hl z pz hz c hcz
          refine ⟨{ r with conns := r.conns.erase a, reqs := r.reqs.filter (·.1 ≠ a) }, ?_, h2⟩
          rw [List.getElem?_set_ne (Ne.symm hca), List.getElem?_map, h1]
          rfl
  | request a b i =>
    simp only [Swarm.step]
    cases ha : s.peers[a]? with
    | none => exact hl
    | some pa =>
      cases hb : s.peers[b]? with
      | none => exact hl
      | some pb => simp only; split; exact live_same hl ha rfl (fun _ h => h); exact hl
  | deliver a b i g =>
    simp only [Swarm.step]
    cases ha : s.peers[a]? with
    | none => exact hl
    | some pa =>
      cases hb : s.peers[b]? with
      | none => exact hl
      | some pb =>
        simp only
        split
        · cases hw : wirePayload pb i g with
          | none => exact live_same hl ha (markInvalid_present pa b i) (fun c h => by rw [markInvalid_conns] at h; exact h)
          | some payload => exact live_same hl ha rfl (fun _ h => h)
        · exact hl
  | tstep a tid k =>
    simp only [Swarm.step]
    cases ha : s.peers[a]? with
    | none => exact hl
    | some pa => exact live_same hl ha rfl (fun _ h => h)
  | resolve a tid =>
    simp only [Swarm.step]
    cases ha : s.peers[a]? with
    | none => exact hl
    | some pa =>
      simp only
      cases hf : pa.inflight.find? (·.tid = tid) with
      | none => exact hl
      | some d =>
        cases hr : (pa.tor.threads[tid]?).bind (·.result) with
        | none => exact hl
        | some r =>
          simp only
          cases r <;> first
            | exact live_same hl ha rfl (fun _ h => h)
            | exact live_same hl ha (markInvalid_present _ _ _) (fun c h => by rw [markInvalid_conns] at h; exact h)

theorem init_live_conns (cfg : Cfg) (mi : MetaInfo) (blob : Bytes) (seeders : List Bool) (agents : Nat) :
    ConnsLive (initSwarm cfg mi blob seeders agents) := by
  intro a p hp c hc
  simp only [initSwarm] at hp
  rw [List.getElem?_append] at hp
  split at hp
  · rw [List.getElem?_map] at hp
    cases hs : seeders[a]? with
    | none => rw [hs] at hp; cases hp
    | some x => rw [hs] at hp; cases hp; simp at hc
  · rw [List.getElem?_replicate] at hp
    split at hp
    · cases hp; simp at hc
    · cases hp

/-- a departing peer frees every slot it held: nobody is connected to it any more, it holds none -/
theorem leave_frees_slots (crc : Bytes → Nat) {s : Swarm} (hc : ConnsOK s) (b : Nat) (pb : Peer)
    (hb : s.peers[b]? = some pb) (a : Nat) (pa' : Peer)
    (ha' : (Swarm.step crc s (.leave b)).peers[a]? = some pa') :
    b ∉ pa'.conns ∧ (a = b → pa'.conns = [] ∧ pa'.present = false) ∧
    (∀ pa, s.peers[a]? = some pa → pa'.conns.length ≤ pa.conns.length) := by
  simp only [Swarm.step, hb] at ha'
  rw [List.getElem?_set] at ha'
  split at ha'
  · split at ha'
    · cases ha'; rename_i h _
      refine ⟨by simp, fun _ => ⟨rfl, rfl⟩, fun pa _ => by simp⟩
    · cases ha'
  · rename_i hne
    rw [List.getElem?_map] at ha'
    cases hz : s.peers[a]? with
    | none => rw [hz] at ha'; cases ha'
    | some pz =>
      rw [hz] at ha'; cases ha'
      refine ⟨?_, fun e => absurd e.symm hne, ?_⟩
      · intro h
        exact ((List.Nodup.mem_erase_iff (hc a pz hz).1).mp h).1 rfl
      · intro pa hpa; cases hpa; exact List.length_erase_le ..

end KrakenModel.Proof.C19
