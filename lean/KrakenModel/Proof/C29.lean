import KrakenModel.Model.Dedup
/-
  Helper lemmas for Spec/C29 (core Lean only): association lists and the invariants of the three
  utils/dedup models with their preservation by every step.
-/
namespace KrakenModel.Proof.C29
open KrakenModel.Dedup

/-! ### association lists -/

theorem alook_cons {κ ν : Type} [DecidableEq κ] (m : List (κ × ν)) (k k' : κ) (v : ν) :
    alook ((k, v) :: m) k' = if k = k' then some v else alook m k' := rfl

theorem alook_adel {κ ν : Type} [DecidableEq κ] (m : List (κ × ν)) (k k' : κ) :
    alook (adel m k) k' = if k = k' then none else alook m k' := by
  induction m with
  | nil => simp [adel, alook]
  | cons p m ih =>
    obtain ⟨pk, pv⟩ := p
    unfold adel at ih ⊢
    simp only [List.filter_cons]
    by_cases hp : pk = k
    · subst hp
      simp only [ne_eq, not_true_eq_false, decide_false, Bool.false_eq_true, if_false]
      rw [ih]; simp only [alook]
      by_cases h : pk = k' <;> simp [h]
    · simp only [ne_eq, hp, not_false_eq_true, decide_true, if_true, alook]
      rw [ih]
      by_cases h : pk = k'
      · subst h; simp [Ne.symm hp]
      · simp [h]

theorem alook_filter_keep {κ ν : Type} [DecidableEq κ] (m : List (κ × ν)) (p : κ × ν → Bool) (k : κ) (v : ν)
    (h : alook m k = some v) (hp : p (k, v) = true) : alook (m.filter p) k = some v := by
  induction m with
  | nil => simp [alook] at h
  | cons q m ih =>
    obtain ⟨qk, qv⟩ := q
    simp only [alook] at h
    by_cases hk : qk = k
    · subst hk
      simp at h; subst h
      simp [hp, alook]
    · simp only [hk, if_false] at h
      simp only [List.filter_cons]
      split
      · simp [alook, hk, ih h]
      · exact ih h

/-! ### RequestCache -/
namespace RC
open KrakenModel.Dedup.RC

theorem tget_tset (s : State) (t t' : Nat) (x : TState) :
    tget (tset s t x) t' = if t = t' then x else tget s t' := by
  unfold tget tset
  simp only [alook]
  split <;> simp

/-- thread `t` is inside `Start` for `id`, between a successful `reserve` and the worker decision -/
def Holds (s : State) (t id : Nat) : Prop := tget s t = .reserved id ∨ tget s t = .releasing id

structure Good (s : State) : Prop where
  execsNodup : s.execs.Nodup
  pendNodup : s.pending.Nodup
  execPending : ∀ id, id ∈ s.execs → id ∈ s.pending
  thrPending : ∀ t id, Holds s t id → id ∈ s.pending ∧ id ∉ s.execs
  thrDistinct : ∀ t1 t2 id, Holds s t1 id → Holds s t2 id → t1 = t2
  owned : ∀ id, id ∈ s.pending → id ∈ s.execs ∨ ∃ t, Holds s t id
  workersBound : nworkers s ≤ s.cfg.workers

theorem good_init (cfg : Cfg) : Good (init cfg) := by
  constructor <;> simp [init, Holds, tget, alook, nworkers]

theorem holds_tset_ne {s : State} {t t' id : Nat} {x : TState} (h : t ≠ t') :
    Holds (tset s t x) t' id ↔ Holds s t' id := by
  unfold Holds; rw [tget_tset]; simp [h]

theorem step_good (s : State) (a : Act) (hg : Good s) : Good (step s a) := by
  cases a with
  | adv d => exact ⟨hg.execsNodup, hg.pendNodup, hg.execPending, hg.thrPending, hg.thrDistinct, hg.owned, hg.workersBound⟩
  | reserve t id =>
    simp only [step, reserve]
    split
    · rename_i hidle
      -- cleaning the error map does not touch anything the invariant talks about
      have hg1 : Good { s with errors := cleaned s, lastClean := cleanedAt s } :=
        ⟨hg.execsNodup, hg.pendNodup, hg.execPending, hg.thrPending, hg.thrDistinct, hg.owned, hg.workersBound⟩
      split
      · rename_i hout
        have hnp : id ∉ s.pending := by
          intro hm; simp [reserveOut, hm] at hout
        have hnot : ∀ id', ¬ Holds s t id' := by
          intro id' h; rcases h with h | h <;> (rw [hidle] at h; cases h)
        refine ⟨hg.execsNodup, List.nodup_cons.mpr ⟨hnp, hg.pendNodup⟩, ?_, ?_, ?_, ?_, hg.workersBound⟩
        · intro id' h; exact List.mem_cons_of_mem _ (hg.execPending id' h)
        · intro t' id' h
          by_cases htt : t = t'
          · subst htt
            have : id' = id := by
              unfold Holds at h; rw [tget_tset] at h; simp at h; exact h.symm
            subst this
            exact ⟨List.mem_cons_self .., fun hm => hnp (hg.execPending _ hm)⟩
          · have := hg.thrPending t' id' ((holds_tset_ne htt).mp h)
            exact ⟨List.mem_cons_of_mem _ this.1, this.2⟩
        · intro t1 t2 id' h1 h2
          by_cases h1t : t = t1
          · by_cases h2t : t = t2
            · rw [← h1t, ← h2t]
            · subst h1t
              have e1 : id' = id := by
                unfold Holds at h1; rw [tget_tset] at h1; simp at h1; exact h1.symm
              subst e1
              exact absurd (hg.thrPending t2 _ ((holds_tset_ne h2t).mp h2)).1 hnp
          · by_cases h2t : t = t2
            · subst h2t
              have e2 : id' = id := by
                unfold Holds at h2; rw [tget_tset] at h2; simp at h2; exact h2.symm
              subst e2
              exact absurd (hg.thrPending t1 _ ((holds_tset_ne h1t).mp h1)).1 hnp
            · exact hg.thrDistinct t1 t2 id' ((holds_tset_ne h1t).mp h1) ((holds_tset_ne h2t).mp h2)
        · intro id' hm
          rcases List.mem_cons.mp hm with h | h
          · subst h
            right; exact ⟨t, by unfold Holds; rw [tget_tset]; simp⟩
          · rcases hg.owned id' h with h1 | ⟨t', h1⟩
            · exact Or.inl h1
            · right
              have : t ≠ t' := fun e => hnot id' (e ▸ h1)
              exact ⟨t', (holds_tset_ne this).mpr h1⟩
      · exact hg1
    · exact hg
  | workerOk t =>
    simp only [step]
    split
    · rename_i id ht
      split
      · rename_i hlt
        have hh : Holds s t id := Or.inl ht
        obtain ⟨hp, hne⟩ := hg.thrPending t id hh
        refine ⟨List.nodup_cons.mpr ⟨hne, hg.execsNodup⟩, hg.pendNodup, ?_, ?_, ?_, ?_, ?_⟩
        · intro id' h
          rcases List.mem_cons.mp h with h | h
          · subst h; exact hp
          · exact hg.execPending id' h
        · intro t' id' h
          have htt : t ≠ t' := by
            intro e; subst e
            unfold Holds at h; rw [tget_tset] at h; simp at h
          have h' := (holds_tset_ne htt).mp h
          obtain ⟨h1, h2⟩ := hg.thrPending t' id' h'
          refine ⟨h1, ?_⟩
          intro hm
          rcases List.mem_cons.mp hm with e | e
          · subst e; exact htt (hg.thrDistinct t t' _ hh h')
          · exact h2 e
        · intro t1 t2 id' h1 h2
          have h1t : t ≠ t1 := by
            intro e; subst e; unfold Holds at h1; rw [tget_tset] at h1; simp at h1
          have h2t : t ≠ t2 := by
            intro e; subst e; unfold Holds at h2; rw [tget_tset] at h2; simp at h2
          exact hg.thrDistinct t1 t2 id' ((holds_tset_ne h1t).mp h1) ((holds_tset_ne h2t).mp h2)
        · intro id' hm
          rcases hg.owned id' hm with h1 | ⟨t', h1⟩
          · exact Or.inl (List.mem_cons_of_mem _ h1)
          · by_cases htt : t = t'
            · subst htt
              have : id' = id := by
                rcases h1 with h1 | h1 <;> (rw [ht] at h1; cases h1)
                rfl
              subst this; exact Or.inl (List.mem_cons_self ..)
            · exact Or.inr ⟨t', (holds_tset_ne htt).mpr h1⟩
        · show (id :: s.execs).length + s.zombies ≤ s.cfg.workers
          unfold nworkers at hlt
          simp only [List.length_cons]; omega
      · exact hg
    · exact hg
  | workerBusy t =>
    simp only [step]
    split
    · rename_i id ht
      have hh : Holds s t id := Or.inl ht
      have key : ∀ t' id', Holds (tset s t (.releasing id)) t' id' ↔ Holds s t' id' := by
        intro t' id'
        by_cases htt : t = t'
        · subst htt
          unfold Holds; rw [tget_tset, ht]; simp
        · exact holds_tset_ne htt
      refine ⟨hg.execsNodup, hg.pendNodup, hg.execPending, ?_, ?_, ?_, hg.workersBound⟩
      · intro t' id' h; exact hg.thrPending t' id' ((key t' id').mp h)
      · intro t1 t2 id' h1 h2; exact hg.thrDistinct t1 t2 id' ((key _ _).mp h1) ((key _ _).mp h2)
      · intro id' hm
        rcases hg.owned id' hm with h1 | ⟨t', h1⟩
        · exact Or.inl h1
        · exact Or.inr ⟨t', (key _ _).mpr h1⟩
    · exact hg
  | release t =>
    simp only [step]
    split
    · rename_i id ht
      have hh : Holds s t id := Or.inr ht
      obtain ⟨hp, hne⟩ := hg.thrPending t id hh
      have hnt : ∀ t' id', Holds (tset { s with pending := s.pending.erase id } t .idle) t' id' →
          t ≠ t' ∧ Holds s t' id' := by
        intro t' id' h
        have htt : t ≠ t' := by
          intro e; subst e; unfold Holds at h; rw [tget_tset] at h; simp at h
        exact ⟨htt, (holds_tset_ne htt).mp h⟩
      refine ⟨hg.execsNodup, hg.pendNodup.erase id, ?_, ?_, ?_, ?_, hg.workersBound⟩
      · intro id' h
        have : id' ≠ id := fun e => hne (e ▸ h)
        exact (List.mem_erase_of_ne this).mpr (hg.execPending id' h)
      · intro t' id' h
        obtain ⟨htt, h'⟩ := hnt t' id' h
        obtain ⟨h1, h2⟩ := hg.thrPending t' id' h'
        have : id' ≠ id := fun e => htt (hg.thrDistinct t t' id hh (e ▸ h'))
        exact ⟨(List.mem_erase_of_ne this).mpr h1, h2⟩
      · intro t1 t2 id' h1 h2
        exact hg.thrDistinct t1 t2 id' (hnt _ _ h1).2 (hnt _ _ h2).2
      · intro id' hm
        have hm' : id' ∈ s.pending.erase id := hm
        have hne' : id' ≠ id := ((List.Nodup.mem_erase_iff hg.pendNodup).mp hm').1
        rcases hg.owned id' (List.mem_of_mem_erase hm') with h1 | ⟨t', h1⟩
        · exact Or.inl h1
        · have htt : t ≠ t' := by
            intro e; subst e
            rcases h1 with h1 | h1 <;> (rw [ht] at h1; cases h1)
            exact hne' rfl
          exact Or.inr ⟨t', (holds_tset_ne htt).mpr h1⟩
    · exact hg
  | finishOk id =>
    simp only [step]
    split
    · rename_i hm
      refine ⟨hg.execsNodup.erase id, hg.pendNodup.erase id, ?_, ?_, hg.thrDistinct, ?_, ?_⟩
      · intro id' h
        have h' : id' ∈ s.execs.erase id := h
        obtain ⟨h1, h2⟩ := (List.Nodup.mem_erase_iff hg.execsNodup).mp h'
        exact (List.mem_erase_of_ne h1).mpr (hg.execPending id' h2)
      · intro t id' h
        obtain ⟨h1, h2⟩ := hg.thrPending t id' h
        have : id' ≠ id := fun e => h2 (e ▸ hm)
        exact ⟨(List.mem_erase_of_ne this).mpr h1, fun hx => h2 (List.mem_of_mem_erase hx)⟩
      · intro id' hp
        have hp' : id' ∈ s.pending.erase id := hp
        have hne' : id' ≠ id := ((List.Nodup.mem_erase_iff hg.pendNodup).mp hp').1
        rcases hg.owned id' (List.mem_of_mem_erase hp') with h1 | h1
        · exact Or.inl ((List.mem_erase_of_ne hne').mpr h1)
        · exact Or.inr h1
      · show (s.execs.erase id).length + (s.zombies + 1) ≤ s.cfg.workers
        have := hg.workersBound
        unfold nworkers at this
        rw [List.length_erase_of_mem hm]
        have : 0 < s.execs.length := List.length_pos_of_mem hm
        omega
    · exact hg
  | finishErr id e nf =>
    simp only [step]
    split
    · rename_i hm
      refine ⟨hg.execsNodup.erase id, hg.pendNodup.erase id, ?_, ?_, hg.thrDistinct, ?_, ?_⟩
      · intro id' h
        have h' : id' ∈ s.execs.erase id := h
        obtain ⟨h1, h2⟩ := (List.Nodup.mem_erase_iff hg.execsNodup).mp h'
        exact (List.mem_erase_of_ne h1).mpr (hg.execPending id' h2)
      · intro t id' h
        obtain ⟨h1, h2⟩ := hg.thrPending t id' h
        have : id' ≠ id := fun e => h2 (e ▸ hm)
        exact ⟨(List.mem_erase_of_ne this).mpr h1, fun hx => h2 (List.mem_of_mem_erase hx)⟩
      · intro id' hp
        have hp' : id' ∈ s.pending.erase id := hp
        have hne' : id' ≠ id := ((List.Nodup.mem_erase_iff hg.pendNodup).mp hp').1
        rcases hg.owned id' (List.mem_of_mem_erase hp') with h1 | h1
        · exact Or.inl ((List.mem_erase_of_ne hne').mpr h1)
        · exact Or.inr h1
      · show (s.execs.erase id).length + (s.zombies + 1) ≤ s.cfg.workers
        have := hg.workersBound
        unfold nworkers at this
        rw [List.length_erase_of_mem hm]
        have : 0 < s.execs.length := List.length_pos_of_mem hm
        omega
    · exact hg
  | releaseWorker =>
    simp only [step]
    split
    · refine ⟨hg.execsNodup, hg.pendNodup, hg.execPending, hg.thrPending, hg.thrDistinct, hg.owned, ?_⟩
      show s.execs.length + (s.zombies - 1) ≤ s.cfg.workers
      have := hg.workersBound
      unfold nworkers at this
      omega
    · exact hg

/-- the error map agrees with the ghost record of the last failed execution while that error is unexpired -/
def ErrAgree (s : State) : Prop :=
  ∀ id e exp, alook s.lastErr id = some (e, exp) → s.now ≤ exp → alook s.errors id = some (e, exp)

theorem errAgree_init (cfg : Cfg) : ErrAgree (init cfg) := by
  intro id e exp h; simp [init, alook] at h

theorem step_errAgree (s : State) (a : Act) (h : ErrAgree s) : ErrAgree (step s a) := by
  cases a with
  | adv d => intro id e exp h1 h2; exact h id e exp h1 (by have : s.now + d ≤ exp := h2; omega)
  | reserve t id' =>
    have hc : ∀ id e exp, alook s.lastErr id = some (e, exp) → s.now ≤ exp → alook (cleaned s) id = some (e, exp) := by
      intro id e exp h1 h2
      unfold cleaned
      split
      · exact alook_filter_keep s.errors _ id (e, exp) (h id e exp h1 h2) (by simp [expired]; omega)
      · exact h id e exp h1 h2
    simp only [step, reserve]
    split
    · split
      · exact hc
      · exact hc
    · exact h
  | workerOk t =>
    simp only [step]
    split
    · split
      · exact h
      · exact h
    · exact h
  | workerBusy t => simp only [step]; split <;> exact h
  | release t => simp only [step]; split <;> exact h
  | finishOk id' =>
    simp only [step]
    split
    · intro id e exp h1 h2
      have h1' : alook (adel s.lastErr id') id = some (e, exp) := h1
      rw [alook_adel] at h1'
      split at h1'
      · cases h1'
      · exact h id e exp h1' h2
    · exact h
  | finishErr id' e' nf =>
    simp only [step]
    split
    · intro id e exp h1 h2
      have h1' : alook ((id', (e', s.now + (if nf then s.cfg.nfTTL else s.cfg.errTTL))) :: s.lastErr) id = some (e, exp) := h1
      show alook ((id', (e', s.now + (if nf then s.cfg.nfTTL else s.cfg.errTTL))) :: s.errors) id = some (e, exp)
      rw [alook_cons] at h1' ⊢
      split
      · rename_i heq; simp only [heq, if_true] at h1'; exact h1'
      · rename_i hne; simp only [hne, if_false] at h1'; exact h id e exp h1' h2
    · exact h
  | releaseWorker => simp only [step]; split <;> exact h

end RC

/-! ### IntervalTrap -/
namespace IT
open KrakenModel.Dedup.IT

structure Good (s : State) : Prop where
  prevLe : s.prev ≤ s.now
  spaced : s.runs.Pairwise (fun a b => b + s.interval < a)
  unlocked : s.locked = false → ∀ r, r ∈ s.runs → r ≤ s.prev
  whenLocked : s.locked = true → ∃ r rest, s.runs = r :: rest ∧ s.prev + s.interval < r ∧ r ≤ s.now ∧
    ∀ x, x ∈ rest → x ≤ s.prev

theorem good_init (interval start : Nat) : Good (init interval start) := by
  constructor <;> simp [init]

theorem all_le_now {s : State} (hg : Good s) : ∀ r, r ∈ s.runs → r ≤ s.now := by
  intro r hr
  cases hl : s.locked with
  | false => exact Nat.le_trans (hg.unlocked hl r hr) hg.prevLe
  | true =>
    obtain ⟨r0, rest, he, _, h2, h3⟩ := hg.whenLocked hl
    rw [he] at hr
    rcases List.mem_cons.mp hr with h | h
    · subst h; exact h2
    · exact Nat.le_trans (h3 r h) hg.prevLe

theorem step_good (s : State) (a : Act) (hg : Good s) : Good (step s a) := by
  cases a with
  | adv d =>
    refine ⟨?_, hg.spaced, hg.unlocked, ?_⟩
    · show s.prev ≤ s.now + d
      have := hg.prevLe; omega
    · intro hl
      obtain ⟨r, rest, h1, h2, h3, h4⟩ := hg.whenLocked hl
      exact ⟨r, rest, h1, h2, by show r ≤ s.now + d; omega, h4⟩
  | check t =>
    simp only [step]
    split
    · split
      · exact hg
      · split
        · exact ⟨hg.prevLe, hg.spaced, hg.unlocked, hg.whenLocked⟩
        · exact hg
    · exact hg
  | fireBegin t =>
    simp only [step]
    split
    · split
      · exact hg
      · rename_i hl
        have hl' : s.locked = false := by simpa using hl
        split
        · rename_i hr
          have hready : s.prev + s.interval < s.now := by simpa [ready] using hr
          refine ⟨hg.prevLe, ?_, ?_, ?_⟩
          · show (s.now :: s.runs).Pairwise (fun a b => b + s.interval < a)
            refine List.pairwise_cons.mpr ⟨?_, hg.spaced⟩
            intro b hb
            have := hg.unlocked hl' b hb
            omega
          · intro h; cases h
          · intro _
            exact ⟨s.now, s.runs, rfl, hready, Nat.le_refl _, hg.unlocked hl'⟩
        · exact ⟨hg.prevLe, hg.spaced, hg.unlocked, hg.whenLocked⟩
    · exact hg
  | fireEnd t =>
    simp only [step]
    split
    · refine ⟨Nat.le_refl _, hg.spaced, ?_, ?_⟩
      · intro _ r hr
        exact all_le_now hg r hr
      · intro h; cases h
    · exact hg

end IT

/-! ### Limiter -/
namespace Lim
open KrakenModel.Dedup.Lim

theorem tget_tset (s : State) (t t' : Nat) (x : TState) :
    tget (tset s t x) t' = if t = t' then x else tget s t' := by
  unfold tget tset
  simp only [alook]
  split <;> simp

theorem getElem?_set_cases {α : Type} (l : List α) (i j : Nat) (a b : α)
    (h : (l.set i a)[j]? = some b) : (i = j ∧ b = a ∧ i < l.length) ∨ (i ≠ j ∧ l[j]? = some b) := by
  rw [List.getElem?_set] at h
  split at h
  · split at h
    · left; simp at h; exact ⟨‹_›, h.symm, ‹_›⟩
    · simp at h
  · right; exact ⟨‹_›, h⟩

/-- thread `t` holds a reference to task object `tk` for key `k` -/
def Refs (s : State) (t k tk : Nat) : Prop :=
  tget s t = .hold k tk ∨ (∃ g, tget s t = .waiting k tk g) ∨ tget s t = .exec k tk

structure Good (s : State) : Prop where
  retryOn : s.retry = true
  idxSound : ∀ (k tk : Nat), alook s.index k = some tk →
    ∃ task, s.heap[tk]? = some task ∧ task.key = k ∧ task.deleted = false
  idxComplete : ∀ (tk : Nat) (task : Task), s.heap[tk]? = some task → task.deleted = false →
    alook s.index task.key = some tk
  refs : ∀ (t k tk : Nat), Refs s t k tk → ∃ task, s.heap[tk]? = some task ∧ task.key = k
  execRunning : ∀ (t k tk : Nat), tget s t = .exec k tk →
    ∃ task, s.heap[tk]? = some task ∧ task.running = true ∧ task.deleted = false
  execUnique : ∀ (t1 t2 k1 k2 tk : Nat), tget s t1 = .exec k1 tk → tget s t2 = .exec k2 tk → t1 = t2

theorem good_init : Good (init true) := by
  constructor <;> simp [init, alook, tget, Refs]

/-- changing only the state of thread `t` to something that references valid objects -/
theorem good_tset {s : State} (hg : Good s) (t : Nat) (x : TState)
    (hx : ∀ k tk, (x = .hold k tk ∨ (∃ g, x = .waiting k tk g)) → ∃ task, s.heap[tk]? = some task ∧ task.key = k)
    (hne : ∀ k tk, x ≠ .exec k tk) : Good (tset s t x) := by
  refine ⟨hg.retryOn, hg.idxSound, hg.idxComplete, ?_, ?_, ?_⟩
  · intro t' k tk h
    by_cases htt : t = t'
    · subst htt
      unfold Refs at h; rw [tget_tset] at h; simp only [if_true] at h
      rcases h with h | h | h
      · exact hx k tk (Or.inl h)
      · exact hx k tk (Or.inr h)
      · exact absurd h (hne k tk)
    · apply hg.refs t' k tk
      unfold Refs at h ⊢; rw [tget_tset] at h; simpa [htt] using h
  · intro t' k tk h
    rw [tget_tset] at h
    split at h
    · exact absurd h (hne k tk)
    · exact hg.execRunning t' k tk h
  · intro t1 t2 k1 k2 tk h1 h2
    rw [tget_tset] at h1 h2
    split at h1
    · exact absurd h1 (hne k1 tk)
    · split at h2
      · exact absurd h2 (hne k2 tk)
      · exact hg.execUnique t1 t2 k1 k2 tk h1 h2

theorem good_lookup {s : State} (hg : Good s) (t k : Nat) : Good (lookup s t k) := by
  unfold lookup
  split
  · rename_i tk hlk
    apply good_tset hg
    · intro k' tk' h
      rcases h with h | ⟨g, h⟩
      · cases h
        obtain ⟨task, h1, h2, _⟩ := hg.idxSound k tk hlk
        exact ⟨task, h1, h2⟩
      · cases h
    · intro _ _ h; cases h
  · rename_i hlk
    have hold : ∀ (j : Nat) (x : Task), s.heap[j]? = some x → (s.heap ++ [({ key := k } : Task)])[j]? = some x := by
      intro j x hx
      have hlt : j < s.heap.length := (List.getElem?_eq_some_iff.mp hx).1
      rw [List.getElem?_append_left hlt]; exact hx
    have happ : ∀ (j : Nat) (x : Task), (s.heap ++ [({ key := k } : Task)])[j]? = some x →
        s.heap[j]? = some x ∨ (j = s.heap.length ∧ x = { key := k }) := by
      intro j x hx
      by_cases hlt : j < s.heap.length
      · rw [List.getElem?_append_left hlt] at hx; exact Or.inl hx
      · rw [List.getElem?_append_right (by omega)] at hx
        right
        cases hd : j - s.heap.length with
        | zero => rw [hd] at hx; simp at hx; exact ⟨by omega, hx.symm⟩
        | succ n => rw [hd] at hx; simp at hx
    have hnew : (s.heap ++ [({ key := k } : Task)])[s.heap.length]? = some { key := k } := by simp
    have hg1 : Good { s with heap := s.heap ++ [{ key := k }], index := (k, s.heap.length) :: s.index } := by
      refine ⟨hg.retryOn, ?_, ?_, ?_, ?_, hg.execUnique⟩
      · intro k' tk' h
        simp only [alook_cons] at h
        split at h
        · rename_i e; subst e; simp at h; subst h
          exact ⟨_, hnew, rfl, rfl⟩
        · obtain ⟨task, h1, h2, h3⟩ := hg.idxSound k' tk' h
          exact ⟨task, hold _ _ h1, h2, h3⟩
      · intro tk' task h hd
        simp only [alook_cons]
        rcases happ tk' task h with h1 | ⟨h0, h1⟩
        · have := hg.idxComplete tk' task h1 hd
          split
          · rename_i e; rw [← e, hlk] at this; cases this
          · exact this
        · subst h1; subst h0; simp
      · intro t' k' tk' h
        obtain ⟨task, h1, h2⟩ := hg.refs t' k' tk' h
        exact ⟨task, hold _ _ h1, h2⟩
      · intro t' k' tk' h
        obtain ⟨task, h1, h2⟩ := hg.execRunning t' k' tk' h
        exact ⟨task, hold _ _ h1, h2⟩
    apply good_tset hg1
    · intro k' tk' h
      rcases h with h | ⟨g, h⟩
      · cases h; exact ⟨_, hnew, rfl⟩
      · cases h
    · intro _ _ h; cases h

theorem step_good (s : State) (a : Act) (hg : Good s) : Good (step s a) := by
  cases a with
  | adv d => exact ⟨hg.retryOn, hg.idxSound, hg.idxComplete, hg.refs, hg.execRunning, hg.execUnique⟩
  | call t k =>
    simp only [step]
    split
    · exact good_lookup hg t k
    · exact hg
  | lookup t =>
    simp only [step]
    split
    · exact good_lookup hg t _
    · exact hg
  | wake t =>
    simp only [step]
    split
    · split
      · exact hg
      · split
        · apply good_tset hg
          · intro _ _ h; rcases h with h | ⟨_, h⟩ <;> cases h
          · intro _ _ h; cases h
        · exact hg
    · exact hg
  | enter t =>
    simp only [step]
    split
    · rename_i k tk ht
      split
      · exact hg
      · rename_i task htk
        have hkey : task.key = k := by
          obtain ⟨task', h1, h2⟩ := hg.refs t k tk (Or.inl ht)
          rw [htk] at h1; cases h1; exact h2
        split
        · apply good_tset hg
          · intro _ _ h; rcases h with h | ⟨_, h⟩ <;> cases h
          · intro _ _ h; cases h
        · apply good_tset hg
          · intro _ _ h; rcases h with h | ⟨_, h⟩ <;> cases h
          · intro _ _ h; cases h
        · apply good_tset hg
          · intro k' tk' h
            rcases h with h | ⟨g, h⟩
            · cases h
            · cases h; exact ⟨task, htk, hkey⟩
          · intro _ _ h; cases h
        · rename_i hout
          -- the runner is started: the task is live, expired and idle
          have hnd : task.deleted = false := by
            unfold enterOut at hout
            cases hd : task.deleted with
            | false => rfl
            | true => simp [hg.retryOn, hd] at hout
          have hnr : task.running = false := by
            unfold enterOut at hout
            cases hr : task.running with
            | false => rfl
            | true =>
              by_cases he : expired s.now task = true <;> simp [hg.retryOn, hnd, hr, he] at hout
          have hlt : tk < s.heap.length := (List.getElem?_eq_some_iff.mp htk).1
          generalize hT : ({ task with running := true } : Task) = task'
          have e1 : task'.key = task.key := by subst hT; rfl
          have e2 : task'.deleted = task.deleted := by subst hT; rfl
          have e3 : task'.running = true := by subst hT; rfl
          have hnew : (s.heap.set tk task')[tk]? = some task' := by rw [List.getElem?_set]; simp [hlt]
          have hother : ∀ (j : Nat) (x : Task), j ≠ tk → s.heap[j]? = some x → (s.heap.set tk task')[j]? = some x := by
            intro j x hj hx; rw [List.getElem?_set]; simp [Ne.symm hj, hx]
          have noexec : ∀ t' k', tget s t' ≠ .exec k' tk := by
            intro t' k' h
            obtain ⟨x, h1, h2, _⟩ := hg.execRunning t' k' tk h
            rw [htk] at h1; cases h1; rw [hnr] at h2; cases h2
          refine ⟨hg.retryOn, ?_, ?_, ?_, ?_, ?_⟩
          · intro k' tk' h
            obtain ⟨x, h1, h2, h3⟩ := hg.idxSound k' tk' h
            by_cases hj : tk' = tk
            · subst hj; rw [htk] at h1; cases h1
              exact ⟨task', hnew, e1.trans h2, e2.trans h3⟩
            · exact ⟨x, hother _ _ hj h1, h2, h3⟩
          · intro j x hx hd
            rcases getElem?_set_cases _ _ _ _ _ hx with ⟨hj, h1, _⟩ | ⟨_, h1⟩
            · subst h1; subst hj; rw [e1]; rw [e2] at hd; exact hg.idxComplete _ task htk hd
            · exact hg.idxComplete j x h1 hd
          · intro t' k' tk' h
            have h' : Refs s t' k' tk' ∨ (t' = t ∧ k' = k ∧ tk' = tk) := by
              unfold Refs at h ⊢
              rw [tget_tset] at h
              by_cases htt : t = t'
              · subst htt
                simp only [if_true] at h
                rcases h with h | ⟨_, h⟩ | h
                · cases h
                · cases h
                · cases h; exact Or.inr ⟨rfl, rfl, rfl⟩
              · simp only [htt, if_false] at h; exact Or.inl h
            rcases h' with h' | ⟨_, hk, htk'⟩
            · obtain ⟨x, h1, h2⟩ := hg.refs t' k' tk' h'
              by_cases hj : tk' = tk
              · subst hj; rw [htk] at h1; cases h1; exact ⟨task', hnew, e1.trans h2⟩
              · exact ⟨x, hother _ _ hj h1, h2⟩
            · subst hk; subst htk'; exact ⟨task', hnew, e1.trans hkey⟩
          · intro t' k' tk' h
            rw [tget_tset] at h
            split at h
            · cases h; exact ⟨task', hnew, e3, e2.trans hnd⟩
            · obtain ⟨x, h1, h2, h3⟩ := hg.execRunning t' k' tk' h
              have hj : tk' ≠ tk := fun e => noexec t' k' (e ▸ h)
              exact ⟨x, hother _ _ hj h1, h2, h3⟩
          · intro t1 t2 k1 k2 tk' h1 h2
            rw [tget_tset] at h1 h2
            split at h1
            · split at h2
              · rename_i e1' e2'; rw [← e1', ← e2']
              · cases h1; exact absurd h2 (noexec t2 k2)
            · split at h2
              · cases h2; exact absurd h1 (noexec t1 k1)
              · exact hg.execUnique t1 t2 k1 k2 tk' h1 h2
    · exact hg
  | finish t out ttl =>
    simp only [step]
    split
    · rename_i k tk ht
      split
      · exact hg
      · rename_i task htk
        have hlt : tk < s.heap.length := (List.getElem?_eq_some_iff.mp htk).1
        generalize hT : ({ task with output := some out, exp := some (s.now + ttl), running := false,
                                      gen := task.gen + 1 } : Task) = task'
        have e1 : task'.key = task.key := by subst hT; rfl
        have e2 : task'.deleted = task.deleted := by subst hT; rfl
        have hnew : (s.heap.set tk task')[tk]? = some task' := by rw [List.getElem?_set]; simp [hlt]
        have hother : ∀ (j : Nat) (x : Task), j ≠ tk → s.heap[j]? = some x → (s.heap.set tk task')[j]? = some x := by
          intro j x hj hx; rw [List.getElem?_set]; simp [Ne.symm hj, hx]
        have hg1 : Good { s with heap := s.heap.set tk task' } ∨ True := Or.inr trivial
        refine ⟨hg.retryOn, ?_, ?_, ?_, ?_, ?_⟩
        · intro k' tk' h
          obtain ⟨x, h1, h2, h3⟩ := hg.idxSound k' tk' h
          by_cases hj : tk' = tk
          · subst hj; rw [htk] at h1; cases h1
            exact ⟨task', hnew, e1.trans h2, e2.trans h3⟩
          · exact ⟨x, hother _ _ hj h1, h2, h3⟩
        · intro j x hx hd
          rcases getElem?_set_cases _ _ _ _ _ hx with ⟨hj, h1, _⟩ | ⟨_, h1⟩
          · subst h1; subst hj; rw [e1]; rw [e2] at hd; exact hg.idxComplete _ task htk hd
          · exact hg.idxComplete j x h1 hd
        · intro t' k' tk' h
          have htt : t ≠ t' := by
            intro e; subst e
            unfold Refs at h; rw [tget_tset] at h; simp at h
          have h' : Refs s t' k' tk' := by
            unfold Refs at h ⊢; rw [tget_tset] at h; simp only [htt, if_false] at h; exact h
          obtain ⟨x, h1, h2⟩ := hg.refs t' k' tk' h'
          by_cases hj : tk' = tk
          · subst hj; rw [htk] at h1; cases h1; exact ⟨task', hnew, e1.trans h2⟩
          · exact ⟨x, hother _ _ hj h1, h2⟩
        · intro t' k' tk' h
          rw [tget_tset] at h
          split at h
          · cases h
          · rename_i htt
            obtain ⟨x, h1, h2, h3⟩ := hg.execRunning t' k' tk' h
            have hj : tk' ≠ tk := by
              intro e; subst e
              exact htt (hg.execUnique t t' k k' tk' ht h)
            exact ⟨x, hother _ _ hj h1, h2, h3⟩
        · intro t1 t2 k1 k2 tk' h1 h2
          rw [tget_tset] at h1 h2
          split at h1
          · cases h1
          · split at h2
            · cases h2
            · exact hg.execUnique t1 t2 k1 k2 tk' h1 h2
    · exact hg
  | gc k =>
    simp only [step]
    split
    · rename_i tk hlk
      split
      · exact hg
      · rename_i task htk
        split
        · rename_i hcond
          have hnr : task.running = false := by
            cases hr : task.running with
            | false => rfl
            | true => simp [hr] at hcond
          have hkey : task.key = k := by
            obtain ⟨task0, h0, hk0, _⟩ := hg.idxSound k tk hlk
            rw [htk] at h0; cases h0; exact hk0
          have hlt : tk < s.heap.length := (List.getElem?_eq_some_iff.mp htk).1
          show Good { s with heap := s.heap.set tk { task with deleted := true }, index := adel s.index k }
          generalize hT : ({ task with deleted := true } : Task) = task'
          have e1 : task'.key = task.key := by subst hT; rfl
          have e2 : task'.deleted = true := by subst hT; rfl
          have hnew : (s.heap.set tk task')[tk]? = some task' := by rw [List.getElem?_set]; simp [hlt]
          have hother : ∀ (j : Nat) (x : Task), j ≠ tk → s.heap[j]? = some x → (s.heap.set tk task')[j]? = some x := by
            intro j x hj hx; rw [List.getElem?_set]; simp [Ne.symm hj, hx]
          have noexec : ∀ t' k', tget s t' ≠ .exec k' tk := by
            intro t' k' h
            obtain ⟨x, h1, h2, _⟩ := hg.execRunning t' k' tk h
            rw [htk] at h1; cases h1; rw [hnr] at h2; cases h2
          refine ⟨hg.retryOn, ?_, ?_, ?_, ?_, hg.execUnique⟩
          · intro k' tk' h
            have h' : alook (adel s.index k) k' = some tk' := h
            rw [alook_adel] at h'
            split at h'
            · cases h'
            · rename_i hne
              obtain ⟨x, h1, h2, h3⟩ := hg.idxSound k' tk' h'
              have hj : tk' ≠ tk := by
                intro e; subst e; rw [htk] at h1; cases h1; exact hne (hkey.symm.trans h2)
              exact ⟨x, hother _ _ hj h1, h2, h3⟩
          · intro j x hx hd
            show alook (adel s.index k) x.key = some j
            rcases getElem?_set_cases _ _ _ _ _ hx with ⟨_, h1, _⟩ | ⟨hj, h1⟩
            · subst h1; rw [e2] at hd; cases hd
            · have := hg.idxComplete j x h1 hd
              rw [alook_adel]
              split
              · rename_i e; rw [← e, hlk] at this; cases this; exact absurd rfl hj
              · exact this
          · intro t' k' tk' h
            obtain ⟨x, h1, h2⟩ := hg.refs t' k' tk' h
            by_cases hj : tk' = tk
            · subst hj; rw [htk] at h1; cases h1; exact ⟨task', hnew, e1.trans h2⟩
            · exact ⟨x, hother _ _ hj h1, h2⟩
          · intro t' k' tk' h
            obtain ⟨x, h1, h2, h3⟩ := hg.execRunning t' k' tk' h
            have hj : tk' ≠ tk := fun e => noexec t' k' (e ▸ h)
            exact ⟨x, hother _ _ hj h1, h2, h3⟩
        · exact hg
    · exact hg

/-- a garbage-collected task is expired, idle, and stays so -/
def DelExpired (s : State) : Prop :=
  ∀ (i : Nat) (task : Task), s.heap[i]? = some task → task.deleted = true →
    expired s.now task = true ∧ task.running = false

theorem expired_mono (now d : Nat) (task : Task) (h : expired now task = true) : expired (now + d) task = true := by
  unfold expired at *
  cases he : task.exp with
  | none => rfl
  | some e => simp [he] at h ⊢; omega

theorem delExpired_init : DelExpired (init true) := by
  intro i task h; simp [init] at h

theorem delExpired_lookup {s : State} (hd : DelExpired s) (t k : Nat) : DelExpired (lookup s t k) := by
  unfold lookup
  split
  · exact hd
  · intro i task h hdel
    have h' : (s.heap ++ [({ key := k } : Task)])[i]? = some task := h
    by_cases hlt : i < s.heap.length
    · rw [List.getElem?_append_left hlt] at h'; exact hd i task h' hdel
    · rw [List.getElem?_append_right (by omega)] at h'
      cases hx : i - s.heap.length with
      | zero => rw [hx] at h'; simp at h'; subst h'; simp at hdel
      | succ n => rw [hx] at h'; simp at h'

theorem step_delExpired (s : State) (a : Act) (hg : Good s) (hd : DelExpired s) : DelExpired (step s a) := by
  cases a with
  | adv d =>
    intro i task h hdel
    obtain ⟨h1, h2⟩ := hd i task h hdel
    exact ⟨expired_mono s.now d task h1, h2⟩
  | call t k => simp only [step]; split; exact delExpired_lookup hd t k; exact hd
  | lookup t => simp only [step]; split; exact delExpired_lookup hd t _; exact hd
  | wake t =>
    simp only [step]
    split
    · split
      · exact hd
      · split <;> exact hd
    · exact hd
  | enter t =>
    simp only [step]
    split
    · rename_i k tk ht
      split
      · exact hd
      · rename_i task htk
        split
        · exact hd
        · exact hd
        · exact hd
        · rename_i hout
          have hnd : task.deleted = false := by
            unfold enterOut at hout
            cases hdl : task.deleted with
            | false => rfl
            | true => simp [hg.retryOn, hdl] at hout
          intro i x hx hdel
          have hx' : (s.heap.set tk { task with running := true })[i]? = some x := hx
          rcases getElem?_set_cases _ _ _ _ _ hx' with ⟨_, h1, _⟩ | ⟨_, h1⟩
          · subst h1; simp [hnd] at hdel
          · exact hd i x h1 hdel
    · exact hd
  | finish t out ttl =>
    simp only [step]
    split
    · rename_i k tk ht
      split
      · exact hd
      · rename_i task htk
        obtain ⟨task0, h0, _, hnd⟩ := hg.execRunning t k tk ht
        rw [htk] at h0; cases h0
        intro i x hx hdel
        have hx' : (s.heap.set tk { task with output := some out, exp := some (s.now + ttl), running := false,
                                              gen := task.gen + 1 })[i]? = some x := hx
        rcases getElem?_set_cases _ _ _ _ _ hx' with ⟨_, h1, _⟩ | ⟨_, h1⟩
        · subst h1; simp [hnd] at hdel
        · exact hd i x h1 hdel
    · exact hd
  | gc k =>
    simp only [step]
    split
    · rename_i tk hlk
      split
      · exact hd
      · rename_i task htk
        split
        · rename_i hcond
          intro i x hx hdel
          have hx' : (s.heap.set tk { task with deleted := true })[i]? = some x := hx
          rcases getElem?_set_cases _ _ _ _ _ hx' with ⟨_, h1, _⟩ | ⟨_, h1⟩
          · subst h1
            have hc : expired s.now task = true ∧ task.running = false := by simpa using hcond
            exact ⟨by simpa [expired] using hc.1, hc.2⟩
          · exact hd i x h1 hdel
        · exact hd
    · exact hd

end Lim

end KrakenModel.Proof.C29
