import KrakenModel.Proof.C04Inv
/-
  C04 proof library, part 3: the phases that do touch the three files.
-/
set_option linter.unusedSectionVars false
set_option linter.unusedSimpArgs false
namespace KrakenModel.AgentCrash
open KrakenModel.FS

abbrev dlData (cfg : Cfg) (fs : FS Name) := fs.file? (entryDir cfg false) Name.data
abbrev dlStatus (cfg : Cfg) (fs : FS Name) := fs.file? (entryDir cfg false) Name.status
abbrev caData (cfg : Cfg) (fs : FS Name) := fs.file? (entryDir cfg true) Name.data

theorem dir_of_file {fs : FS Name} {p : Path} {n : Name} (h : (fs.file? p n).isSome = true) : (fs.dir? p).isSome = true := by
  unfold FS.file? at h
  cases hd : fs.dir? p with
  | none => rw [hd] at h; cases h
  | some d => rfl

/-- no status vector, nothing cached: only the length of the blob file matters -/
theorem goodFS_fresh {cfg : Cfg} {fs : FS Name} (hs : dlStatus cfg fs = none) (hc : caData cfg fs = none)
    (hd : ∀ d, dlData cfg fs = some d → d.length ≤ cfg.blob.length) : GoodFS cfg fs := by
  simp only [dlData, dlStatus, caData] at *
  exact ⟨(by intro b h; rw [hc] at h; cases h), (by intro ⟨_, h⟩; rw [hc] at h; cases h), hd,
   (by intro st h; rw [hs] at h; cases h), (by intro d st _ h; rw [hs] at h; cases h)⟩

/-- replacing the status vector by one without a complete mark -/
theorem goodFS_set_status {cfg : Cfg} {fs fs' : FS Name} (g : GoodFS cfg fs)
    (hd : dlData cfg fs' = dlData cfg fs) (hc : caData cfg fs' = caData cfg fs)
    (st' : Bytes) (hs : dlStatus cfg fs' = some st') (hlen : st' = [] ∨ st'.length = numPieces cfg)
    (hno : ∀ i : Nat, st'[i]? ≠ some 1)
    (hdata : (dlData cfg fs).isSome = true ∨ (caData cfg fs).isSome = true) : GoodFS cfg fs' := by
  simp only [dlData, dlStatus, caData] at *
  exact ⟨(by rw [hc]; exact g.cacheOK), (by rw [hd, hc]; exact g.one), (by rw [hd]; exact g.dlen),
   (by intro st h; rw [hs] at h; cases h; exact hlen),
   (by intro d st _ h _ i _ hi; rw [hs] at h; cases h; exact absurd hi (hno i))⟩

theorem zeros_no_one (n i : Nat) : (zeros n)[i]? ≠ some 1 := by
  simp only [zeros, List.getElem?_replicate]; split <;> simp

theorem truncTo_nil (n : Nat) : truncTo [] n = zeros n := by simp [truncTo, zeros]

theorem writeAt_zero_cover (old b : Bytes) (h : old.length ≤ b.length) : writeAt old 0 b = b := by
  simp only [writeAt, Nat.zero_sub, List.replicate_zero, List.append_nil, List.take_zero, List.nil_append, Nat.zero_add]
  rw [List.drop_of_length_le h, List.append_nil]

/-- phase D: the blob file is created and sized -/
theorem phaseD {cfg : Cfg} {fs : FS Name} (g : GoodFS cfg fs) (hs : dlStatus cfg fs = none) (hc : caData cfg fs = none)
    (hdir : (fs.dir? (entryDir cfg false)).isSome = true) :
    (∀ k, GoodFS cfg (applyPrefix k [Call.openTrunc (entryDir cfg false) Name.data,
        Call.truncate (entryDir cfg false) Name.data cfg.blob.length] fs)) ∧
    dlData cfg (applyAll fs [Call.openTrunc (entryDir cfg false) Name.data,
        Call.truncate (entryDir cfg false) Name.data cfg.blob.length]) = some (zeros cfg.blob.length) ∧
    (∀ p n, (p, n) ≠ (entryDir cfg false, Name.data) →
      (applyAll fs [Call.openTrunc (entryDir cfg false) Name.data,
        Call.truncate (entryDir cfg false) Name.data cfg.blob.length]).file? p n = fs.file? p n) := by
  have hother : ∀ k p n, (p, n) ≠ (entryDir cfg false, Name.data) →
      (applyPrefix k [Call.openTrunc (entryDir cfg false) Name.data,
        Call.truncate (entryDir cfg false) Name.data cfg.blob.length] fs).file? p n = fs.file? p n := by
    intro k p n hne
    apply file?_applyPrefix_of_not_written
    intro c hc
    simp only [List.mem_cons, List.not_mem_nil, or_false] at hc
    rcases hc with rfl | rfl <;> exact ⟨rfl, by simpa [Call.writes] using hne⟩
  have h1 : dlData cfg (apply fs (Call.openTrunc (entryDir cfg false) Name.data)) = some [] := by
    simp only [dlData]; rw [file?_apply_openTrunc, if_pos hdir]
  have h2 : dlData cfg (applyAll fs [Call.openTrunc (entryDir cfg false) Name.data,
      Call.truncate (entryDir cfg false) Name.data cfg.blob.length]) = some (zeros cfg.blob.length) := by
    simp only [applyAll_cons, applyAll_nil, dlData]
    rw [file?_apply_truncate]
    have := h1; simp only [dlData] at this; rw [this]; simp [truncTo_nil]
  refine ⟨?_, h2, fun p n hne => by
    have := hother 2 p n hne; simpa [applyPrefix] using this⟩
  intro k
  apply goodFS_fresh
  · simp only [dlStatus]; rw [hother k _ _ (by simp)]; exact hs
  · simp only [caData]; rw [hother k _ _ (by intro e; exact entryDir_ne cfg (Prod.ext_iff.mp e).1.symm)]; exact hc
  · intro d hd
    match k with
    | 0 =>
      -- nothing happened yet: the file does not exist (it has no status vector and nothing is cached)
      simp only [applyPrefix, List.take_zero, applyAll_nil] at hd
      exact g.dlen d hd
    | 1 =>
      simp only [applyPrefix, List.take_succ_cons, List.take_zero, applyAll_cons, applyAll_nil] at hd
      have := h1; simp only [dlData] at this hd; rw [this] at hd; cases hd; simp
    | k + 2 =>
      have : applyPrefix (k + 2) [Call.openTrunc (entryDir cfg false) Name.data,
          Call.truncate (entryDir cfg false) Name.data cfg.blob.length] fs =
          applyAll fs [Call.openTrunc (entryDir cfg false) Name.data,
          Call.truncate (entryDir cfg false) Name.data cfg.blob.length] := by
        simp [applyPrefix]
      rw [this] at hd; rw [h2] at hd; cases hd; simp [zeros]

/-! ### an invariant along every prefix of a call list -/

theorem prefix_inv {ν : Type} [DecidableEq ν] (G : FS ν → Prop) (cs : List (Call ν)) (fs : FS ν) (h0 : G fs)
    (hstep : ∀ c ∈ cs, ∀ fs', G fs' → G (apply fs' c)) : ∀ k, G (applyPrefix k cs fs) := by
  intro k
  unfold applyPrefix
  have : ∀ (l : List (Call ν)) (fs' : FS ν), (∀ c ∈ l, c ∈ cs) → G fs' → G (applyAll fs' l) := by
    intro l
    induction l with
    | nil => intro fs' _ h; exact h
    | cons c l ih =>
      intro fs' hl h
      exact ih _ (fun c' hc' => hl c' (List.mem_cons_of_mem _ hc')) (hstep c (hl c (List.mem_cons_self ..)) fs' h)
  exact this _ fs (fun c hc => List.mem_of_mem_take hc) h0

theorem all_inv {ν : Type} [DecidableEq ν] (G : FS ν → Prop) (cs : List (Call ν)) (fs : FS ν) (h0 : G fs)
    (hstep : ∀ c ∈ cs, ∀ fs', G fs' → G (apply fs' c)) : G (applyAll fs cs) := by
  have := prefix_inv G cs fs h0 hstep cs.length
  rwa [applyPrefix_all _ _ _ (Nat.le_refl _)] at this

theorem neutral_apply {cfg : Cfg} {fs : FS Name} {c : Call Name} (hn : Neutral cfg c) :
    ∀ x ∈ key3 cfg, (apply fs c).file? x.1 x.2 = fs.file? x.1 x.2 :=
  fun x hx => file?_apply_of_not_written fs c x.1 x.2 hn.1 (hn.2 x hx)

theorem goodFS_apply_neutral {cfg : Cfg} {fs : FS Name} {c : Call Name} (hn : Neutral cfg c) (g : GoodFS cfg fs) :
    GoodFS cfg (apply fs c) := goodFS_congr (neutral_apply hn) g

/-! ### calls that reset the status vector -/

def StatusReset (cfg : Cfg) (c : Call Name) : Prop :=
  c = Call.openTrunc (entryDir cfg false) Name.status ∨
  c = Call.truncate (entryDir cfg false) Name.status (numPieces cfg) ∨
  c = Call.pwrite (entryDir cfg false) Name.status 0 (zeros (numPieces cfg))

theorem statusReset_other {cfg : Cfg} {c : Call Name} (h : StatusReset cfg c) (fs : FS Name) (p : Path) (n : Name)
    (hne : (p, n) ≠ (entryDir cfg false, Name.status)) : (apply fs c).file? p n = fs.file? p n := by
  apply file?_apply_of_not_written
  · rcases h with rfl | rfl | rfl <;> rfl
  · rcases h with rfl | rfl | rfl <;> simpa [Call.writes] using hne

theorem getElem?_one_of_truncTo (st : Bytes) (n i : Nat) (h : (truncTo st n)[i]? = some 1) : st[i]? = some 1 := by
  simp only [truncTo] at h
  by_cases hi : i < n
  · rw [List.getElem?_take_of_lt hi] at h
    by_cases hl : i < st.length
    · rwa [List.getElem?_append_left hl] at h
    · rw [List.getElem?_append_right (by omega), List.getElem?_replicate] at h
      split at h <;> simp at h
  · rw [List.getElem?_eq_none (by simp; omega)] at h; cases h

theorem goodFS_apply_statusReset {cfg : Cfg} {fs : FS Name} {c : Call Name} (h : StatusReset cfg c) (g : GoodFS cfg fs)
    (hdata : (dlData cfg fs).isSome = true ∨ (caData cfg fs).isSome = true) : GoodFS cfg (apply fs c) := by
  simp only [dlData, caData] at hdata
  have hd : (apply fs c).file? (entryDir cfg false) Name.data = fs.file? (entryDir cfg false) Name.data :=
    statusReset_other h fs _ _ (by simp)
  have hc : (apply fs c).file? (entryDir cfg true) Name.data = fs.file? (entryDir cfg true) Name.data :=
    statusReset_other h fs _ _ (by intro e; exact entryDir_ne cfg (Prod.ext_iff.mp e).1.symm)
  -- the status vector afterwards: gone, or one whose complete marks were already there
  have key : ∀ st', (apply fs c).file? (entryDir cfg false) Name.status = some st' →
      (st' = [] ∨ st'.length = numPieces cfg) ∧
      (∀ i : Nat, st'[i]? = some 1 → ∃ st, fs.file? (entryDir cfg false) Name.status = some st ∧
        st.length = numPieces cfg ∧ st[i]? = some 1) := by
    intro st' hst'
    rcases h with rfl | rfl | rfl
    · rw [file?_apply_openTrunc] at hst'
      split at hst'
      · cases hst'; exact ⟨Or.inl rfl, fun i hi => by simp at hi⟩
      · cases hst'
    · rw [file?_apply_truncate] at hst'
      cases hs : fs.file? (entryDir cfg false) Name.status with
      | none => rw [hs] at hst'; cases hst'
      | some st =>
        rw [hs] at hst'; simp only [Option.map_some, Option.some.injEq] at hst'; subst hst'
        refine ⟨Or.inr (length_truncTo _ _), ?_⟩
        intro i hi
        rcases g.stlen st hs with e | e
        · subst e; rw [truncTo_nil] at hi; exact absurd hi (zeros_no_one _ _)
        · exact ⟨st, rfl, e, getElem?_one_of_truncTo _ _ _ hi⟩
    · rw [file?_apply_pwrite] at hst'
      cases hs : fs.file? (entryDir cfg false) Name.status with
      | none => rw [hs] at hst'; cases hst'
      | some st =>
        rw [hs] at hst'; simp only [Option.map_some, Option.some.injEq] at hst'; subst hst'
        have hle : st.length ≤ (zeros (numPieces cfg)).length := by
          rcases g.stlen st hs with e | e
          · subst e; simp
          · simp [zeros, e]
        rw [writeAt_zero_cover _ _ hle]
        exact ⟨Or.inr (by simp [zeros]), fun i hi => absurd hi (zeros_no_one _ _)⟩
  refine ⟨by rw [hc]; exact g.cacheOK, by rw [hd, hc]; exact g.one, by rw [hd]; exact g.dlen,
    fun st' hst' => (key st' hst').1, ?_⟩
  intro d st' hd' hst' _ i hi h1
  rw [hd] at hd'
  obtain ⟨st, hs, hl, h1'⟩ := (key st' hst').2 i h1
  exact g.pieces d st hd' hs hl i hi h1'

theorem cawPlan_status_calls (cfg : Cfg) (fs : FS Name) :
    ∀ c ∈ cawPlan fs (entryDir cfg false) Name.status (zeros (numPieces cfg)), Neutral cfg c ∨ StatusReset cfg c := by
  intro c hc
  unfold cawPlan at hc
  split at hc
  · simp only [List.mem_append, List.mem_singleton] at hc
    rcases hc with (hc | hc) | hc
    · exact Or.inl (mkdirAll_neutral cfg _ _ c hc)
    · exact Or.inr (Or.inl hc)
    · split at hc
      · simp at hc
      · simp at hc; exact Or.inr (Or.inr (Or.inr hc))
  · split at hc
    · simp at hc
    · simp only [List.mem_append] at hc
      rcases hc with hc | hc
      · split at hc
        · simp at hc
        · simp at hc; right; right; left; rw [hc]; simp [zeros]
      · split at hc
        · simp at hc
        · simp at hc; exact Or.inr (Or.inr (Or.inr hc))

/-- phase S0: the status vector is (re)initialised while a blob file exists -/
theorem phaseS0 {cfg : Cfg} {fs : FS Name} (g : GoodFS cfg fs)
    (hdata : (dlData cfg fs).isSome = true ∨ (caData cfg fs).isSome = true) :
    ∀ k, GoodFS cfg (applyPrefix k (cawPlan fs (entryDir cfg false) Name.status (zeros (numPieces cfg))) fs) := by
  have := prefix_inv (fun f => GoodFS cfg f ∧ ((dlData cfg f).isSome = true ∨ (caData cfg f).isSome = true))
    (cawPlan fs (entryDir cfg false) Name.status (zeros (numPieces cfg))) fs ⟨g, hdata⟩ (by
      intro c hc f ⟨gf, hf⟩
      rcases cawPlan_status_calls cfg fs c hc with hn | hr
      · refine ⟨goodFS_apply_neutral hn gf, ?_⟩
        simp only [dlData, caData] at hf ⊢
        rw [neutral_apply hn (entryDir cfg false, Name.data) (by simp [key3]),
          neutral_apply hn (entryDir cfg true, Name.data) (by simp [key3])]
        exact hf
      · refine ⟨goodFS_apply_statusReset hr gf hf, ?_⟩
        simp only [dlData, caData] at hf ⊢
        rw [statusReset_other hr f _ _ (by simp),
          statusReset_other hr f _ _ (by intro e; exact entryDir_ne cfg (Prod.ext_iff.mp e).1.symm)]
        exact hf)
  exact fun k => (this k).1

/-! ### writing piece `i` -/

/-- a write into the byte range of piece `i` of the blob file -/
def ChunkOf (cfg : Cfg) (i : Nat) (c : Call Name) : Prop :=
  ∃ off b, c = Call.pwrite (entryDir cfg false) Name.data off b ∧ i * cfg.pl ≤ off ∧
    off + b.length ≤ i * cfg.pl + pieceLength cfg i

/-- the status vector on disk does not mark piece `i` complete -/
def NotMarked (cfg : Cfg) (i : Nat) (fs : FS Name) : Prop :=
  ∀ st, dlStatus cfg fs = some st → st.length = numPieces cfg → st[i]? ≠ some 1

theorem chunk_other {cfg : Cfg} {i : Nat} {c : Call Name} (h : ChunkOf cfg i c) (fs : FS Name) (p : Path) (n : Name)
    (hne : (p, n) ≠ (entryDir cfg false, Name.data)) : (apply fs c).file? p n = fs.file? p n := by
  obtain ⟨off, b, rfl, _⟩ := h
  exact file?_apply_of_not_written _ _ _ _ rfl (by simpa [Call.writes] using hne)

theorem piece_range_le (cfg : Cfg) (i : Nat) : i * cfg.pl + pieceLength cfg i ≤ max (i * cfg.pl) cfg.blob.length := by
  rw [pieceLength_eq]; omega

theorem goodFS_apply_chunk {cfg : Cfg} {i : Nat} {fs : FS Name} {c : Call Name} (hpl : 0 < cfg.pl) (hi : i < numPieces cfg)
    (h : ChunkOf cfg i c) (g : GoodFS cfg fs) (hnm : NotMarked cfg i fs) :
    GoodFS cfg (apply fs c) ∧ NotMarked cfg i (apply fs c) := by
  have hs : (apply fs c).file? (entryDir cfg false) Name.status = fs.file? (entryDir cfg false) Name.status :=
    chunk_other h fs _ _ (by simp)
  have hc : (apply fs c).file? (entryDir cfg true) Name.data = fs.file? (entryDir cfg true) Name.data :=
    chunk_other h fs _ _ (by intro e; exact entryDir_ne cfg (Prod.ext_iff.mp e).1.symm)
  obtain ⟨off, b, rfl, hlo, hhi⟩ := h
  have hd := file?_apply_pwrite fs (entryDir cfg false) Name.data off b
  refine ⟨?_, by simpa only [NotMarked, dlStatus, hs] using hnm⟩
  -- the piece's range lies inside the blob
  have hin : i * cfg.pl + pieceLength cfg i ≤ cfg.blob.length := by
    have h1 := piece_range_le cfg i
    have h2 : i * cfg.pl < cfg.blob.length := by
      -- i < numPieces means the piece starts inside the blob
      unfold numPieces at hi
      rw [Nat.lt_div_iff_mul_lt hpl] at hi
      omega
    omega
  cases hdat : fs.file? (entryDir cfg false) Name.data with
  | none =>
    rw [hdat] at hd; simp only [Option.map_none] at hd
    exact goodFS_congr (by
      intro x hx
      simp only [key3, List.mem_cons, List.not_mem_nil, or_false] at hx
      rcases hx with rfl | rfl | rfl
      · simp only; rw [hd, hdat]
      · exact hs
      · exact hc) g
  | some d =>
    rw [hdat] at hd; simp only [Option.map_some] at hd
    refine ⟨by rw [hc]; exact g.cacheOK, by rw [hd, hc]; simpa [hdat] using g.one, ?_, by rw [hs]; exact g.stlen, ?_⟩
    · intro d' hd'
      rw [hd] at hd'; cases hd'
      rw [length_writeAt]
      have := g.dlen d hdat
      omega
    · intro d' st hd' hst hlen i' hi' h1
      rw [hd] at hd'; cases hd'
      rw [hs] at hst
      have hne : i' ≠ i := by intro e; subst e; exact hnm st hst hlen h1
      have hok := g.pieces d st hdat hst hlen i' hi' h1
      intro j hj1 hj2 hj3
      have hjd : j < d.length := by
        have := hok j hj1 hj2 hj3
        by_cases hlt : j < d.length
        · exact hlt
        · rw [List.getElem?_eq_none (by omega), List.getElem?_eq_some_iff.mpr ⟨hj3, rfl⟩] at this; cases this
      rw [getElem?_writeAt_out d off b j hjd]
      · exact hok j hj1 hj2 hj3
      · -- the ranges of different pieces are disjoint
        have hpi : pieceLength cfg i ≤ cfg.pl := by rw [pieceLength_eq]; omega
        rcases Nat.lt_or_gt_of_ne hne with hlt | hgt
        · left
          have : (i' + 1) * cfg.pl ≤ i * cfg.pl := Nat.mul_le_mul_right _ hlt
          omega
        · right
          have : (i + 1) * cfg.pl ≤ i' * cfg.pl := Nat.mul_le_mul_right _ hgt
          rw [Nat.add_mul] at this
          omega

/-! ### marking piece `i` complete -/

theorem goodFS_apply_mark {cfg : Cfg} {i : Nat} {fs : FS Name} (g : GoodFS cfg fs)
    (hok : ∀ d, dlData cfg fs = some d → PieceOK cfg d i)
    (hst : ∀ st, dlStatus cfg fs = some st → st.length = numPieces cfg ∧ i < numPieces cfg) :
    GoodFS cfg (apply fs (Call.pwrite (entryDir cfg false) Name.status i [1])) := by
  simp only [dlData, dlStatus] at hok hst
  have hother : ∀ p n, (p, n) ≠ (entryDir cfg false, Name.status) →
      (apply fs (Call.pwrite (entryDir cfg false) Name.status i [1])).file? p n = fs.file? p n := fun p n hne =>
    file?_apply_of_not_written _ _ _ _ rfl (by simpa [Call.writes] using hne)
  have hd := hother (entryDir cfg false) Name.data (by simp)
  have hc := hother (entryDir cfg true) Name.data (by intro e; exact entryDir_ne cfg (Prod.ext_iff.mp e).1.symm)
  have hs := file?_apply_pwrite fs (entryDir cfg false) Name.status i [1]
  cases hsf : fs.file? (entryDir cfg false) Name.status with
  | none =>
    rw [hsf] at hs; simp only [Option.map_none] at hs
    exact goodFS_congr (by
      intro x hx
      simp only [key3, List.mem_cons, List.not_mem_nil, or_false] at hx
      rcases hx with rfl | rfl | rfl
      · exact hd
      · simp only; rw [hs, hsf]
      · exact hc) g
  | some st =>
    rw [hsf] at hs; simp only [Option.map_some] at hs
    obtain ⟨hlen, hi⟩ := hst st hsf
    have hlen' : (writeAt st i [1]).length = numPieces cfg := by rw [length_writeAt]; simp; omega
    refine ⟨by rw [hc]; exact g.cacheOK, by rw [hd, hc]; exact g.one, by rw [hd]; exact g.dlen,
      by intro st' h; rw [hs] at h; cases h; exact Or.inr hlen', ?_⟩
    intro d st' hd' hst' _ i' hi' h1
    rw [hs] at hst'; cases hst'
    rw [hd] at hd'
    by_cases he : i' = i
    · subst he; exact hok d hd'
    · have : (writeAt st i [1])[i']? = st[i']? :=
        getElem?_writeAt_out st i [1] i' (by omega) (by simp; omega)
      rw [this] at h1
      exact g.pieces d st hd' hsf hlen i' hi' h1

/-! ### the commit: rename into the cache, then removal of the download directory -/

theorem goodFS_apply_rename {cfg : Cfg} {fs : FS Name} (g : GoodFS cfg fs)
    (hd : ∀ d, dlData cfg fs = some d → d = cfg.blob) :
    GoodFS cfg (apply fs (Call.rename (entryDir cfg false) Name.data (entryDir cfg true) Name.data)) := by
  simp only [dlData] at hd
  have hs : (apply fs (Call.rename (entryDir cfg false) Name.data (entryDir cfg true) Name.data)).file?
      (entryDir cfg false) Name.status = fs.file? (entryDir cfg false) Name.status :=
    file?_apply_of_not_written _ _ _ _ rfl (by
      simp only [Call.writes, List.mem_cons, Prod.mk.injEq, List.not_mem_nil, or_false, not_or]
      exact ⟨by simp, fun h => entryDir_ne cfg h.1⟩)
  obtain ⟨h1, h2⟩ := file?_apply_rename fs (entryDir cfg false) (entryDir cfg true) Name.data Name.data (entryDir_ne cfg)
  by_cases hmv : (fs.file? (entryDir cfg false) Name.data).isSome = true ∧ (fs.dir? (entryDir cfg true)).isSome = true
  · rw [if_pos hmv] at h1 h2
    obtain ⟨d, hdd⟩ := Option.isSome_iff_exists.mp hmv.1
    have hb := hd d hdd
    refine ⟨(by intro b h; rw [h1, hdd] at h; cases h; exact hb), (by rw [h2]; simp), (by intro d' h; rw [h2] at h; cases h),
      (by rw [hs]; exact g.stlen), (by intro d' st h; rw [h2] at h; cases h)⟩
  · rw [if_neg hmv] at h1 h2
    exact goodFS_congr (by
      intro x hx
      simp only [key3, List.mem_cons, List.not_mem_nil, or_false] at hx
      rcases hx with rfl | rfl | rfl
      · exact h2
      · exact hs
      · exact h1) g

/-- removing things from the download directory once the blob is in the cache -/
def DlRemoval (cfg : Cfg) (c : Call Name) : Prop :=
  (∃ n, c = Call.unlink (entryDir cfg false) n) ∨ c = Call.rmdir (entryDir cfg false)

theorem goodFS_apply_dlRemoval {cfg : Cfg} {fs : FS Name} {c : Call Name} (h : DlRemoval cfg c) (g : GoodFS cfg fs)
    (hca : (caData cfg fs).isSome = true) : GoodFS cfg (apply fs c) ∧ (caData cfg (apply fs c)).isSome = true := by
  simp only [caData] at hca ⊢
  have hc : (apply fs c).file? (entryDir cfg true) Name.data = fs.file? (entryDir cfg true) Name.data := by
    apply file?_apply_of_not_written
    · rcases h with ⟨n, rfl⟩ | rfl <;> rfl
    · rcases h with ⟨n, rfl⟩ | rfl
      · simp only [Call.writes, List.mem_singleton, Prod.mk.injEq, not_and]
        intro e; exact absurd e.symm (entryDir_ne cfg)
      · simp [Call.writes]
  refine ⟨?_, by rw [hc]; exact hca⟩
  -- the blob file of the download directory is gone already (`one`), whatever else is removed is harmless
  have hdn : fs.file? (entryDir cfg false) Name.data = none := by
    cases hd : fs.file? (entryDir cfg false) Name.data with
    | none => rfl
    | some d => exact absurd ⟨by simp [hd], hca⟩ g.one
  have hd' : (apply fs c).file? (entryDir cfg false) Name.data = none := by
    rcases h with ⟨n, rfl⟩ | rfl
    · by_cases hn : n = Name.data
      · subst hn; exact file?_apply_unlink _ _ _
      · rw [file?_apply_of_not_written _ _ _ _ rfl (by simpa [Call.writes] using Ne.symm hn)]; exact hdn
    · rw [file?_apply_of_not_written _ _ _ _ rfl (by simp [Call.writes])]; exact hdn
  -- the status vector is removed or unchanged
  have hs' : (apply fs c).file? (entryDir cfg false) Name.status = none ∨
      (apply fs c).file? (entryDir cfg false) Name.status = fs.file? (entryDir cfg false) Name.status := by
    rcases h with ⟨n, rfl⟩ | rfl
    · by_cases hn : n = Name.status
      · subst hn; left; exact file?_apply_unlink _ _ _
      · right; exact file?_apply_of_not_written _ _ _ _ rfl (by simpa [Call.writes] using Ne.symm hn)
    · right; exact file?_apply_of_not_written _ _ _ _ rfl (by simp [Call.writes])
  refine ⟨(by rw [hc]; exact g.cacheOK), (by rw [hd']; simp), (by intro d h; rw [hd'] at h; cases h), ?_,
    (by intro d st h; rw [hd'] at h; cases h)⟩
  intro st hst
  rcases hs' with e | e
  · rw [e] at hst; cases hst
  · rw [e] at hst; exact g.stlen st hst

/-! ### removals -/

/-- a tree in which each of the three files is as before or gone -/
theorem goodFS_of_shrink {cfg : Cfg} {fs fs' : FS Name}
    (h : ∀ x ∈ key3 cfg, fs'.file? x.1 x.2 = none ∨ fs'.file? x.1 x.2 = fs.file? x.1 x.2) (g : GoodFS cfg fs) : GoodFS cfg fs' := by
  have h1 := h (entryDir cfg false, .data) (by simp [key3])
  have h2 := h (entryDir cfg false, .status) (by simp [key3])
  have h3 := h (entryDir cfg true, .data) (by simp [key3])
  simp only at h1 h2 h3
  refine ⟨?_, ?_, ?_, ?_, ?_⟩
  · intro b hb
    rcases h3 with e | e
    · rw [e] at hb; cases hb
    · rw [e] at hb; exact g.cacheOK b hb
  · intro ⟨ha, hb⟩
    apply g.one
    constructor
    · rcases h1 with e | e
      · rw [e] at ha; cases ha
      · rw [← e]; exact ha
    · rcases h3 with e | e
      · rw [e] at hb; cases hb
      · rw [← e]; exact hb
  · intro d hd
    rcases h1 with e | e
    · rw [e] at hd; cases hd
    · rw [e] at hd; exact g.dlen d hd
  · intro st hst
    rcases h2 with e | e
    · rw [e] at hst; cases hst
    · rw [e] at hst; exact g.stlen st hst
  · intro d st hd hst
    rcases h1 with e | e
    · rw [e] at hd; cases hd
    · rcases h2 with e' | e'
      · rw [e'] at hst; cases hst
      · rw [e] at hd; rw [e'] at hst; exact g.pieces d st hd hst

theorem goodFS_apply_removal {cfg : Cfg} {fs : FS Name} (g : GoodFS cfg fs) (c : Call Name)
    (hc : (∃ p n, c = Call.unlink p n) ∨ (∃ p, c = Call.rmdir p)) : GoodFS cfg (apply fs c) := by
  apply goodFS_of_shrink _ g
  intro x _
  rcases hc with ⟨p, n, rfl⟩ | ⟨p, rfl⟩
  · by_cases e : x = (p, n)
    · subst e; left; exact file?_apply_unlink _ _ _
    · right; exact file?_apply_of_not_written _ _ _ _ rfl (by
        simp only [Call.writes, List.mem_singleton]; intro e'; exact e (Prod.ext_iff.mpr (Prod.ext_iff.mp e')))
  · right; exact file?_apply_of_not_written _ _ _ _ rfl (by simp [Call.writes])

/-- calls that only remove things keep the invariant at every prefix -/
theorem removal_prefix {cfg : Cfg} (cs : List (Call Name))
    (hr : ∀ c ∈ cs, (∃ p n, c = Call.unlink p n) ∨ (∃ p, c = Call.rmdir p)) {fs : FS Name} (g : GoodFS cfg fs) :
    ∀ k, GoodFS cfg (applyPrefix k cs fs) := by
  induction cs generalizing fs with
  | nil => intro k; simpa [applyPrefix] using g
  | cons c cs ih =>
    intro k
    cases k with
    | zero => simpa [applyPrefix] using g
    | succ k =>
      have : applyPrefix (k + 1) (c :: cs) fs = applyPrefix k cs (apply fs c) := by simp [applyPrefix]
      rw [this]
      exact ih (fun c' h => hr c' (List.mem_cons_of_mem _ h)) (goodFS_apply_removal g c (hr c (List.mem_cons_self ..))) k

theorem removeAllPlan_removal (fs : FS Name) (o : Order Name) (p : Path) :
    ∀ c ∈ removeAllPlan fs o p, (∃ q n, c = Call.unlink q n) ∨ (∃ q, c = Call.rmdir q) := by
  intro c hc
  unfold removeAllPlan at hc
  split at hc
  · simp at hc
  · simp only [List.mem_append, List.mem_map, List.mem_singleton] at hc
    rcases hc with ⟨x, _, rfl⟩ | rfl
    · exact Or.inl ⟨p, x, rfl⟩
    · exact Or.inr ⟨p, rfl⟩

theorem leftoverPlan_removal (fs : FS Name) (dir : Path) :
    ∀ c ∈ leftoverPlan fs dir, (∃ q n, c = Call.unlink q n) ∨ (∃ q, c = Call.rmdir q) := by
  intro c hc
  simp only [leftoverPlan, List.mem_map] at hc
  obtain ⟨n, _, rfl⟩ := hc
  exact Or.inl ⟨dir, n, rfl⟩

theorem dir_isSome_unlink (fs : FS Name) (dir : Path) (n : Name) (p : Path) (h : (fs.dir? p).isSome = true) :
    ((apply fs (Call.unlink dir n)).dir? p).isSome = true := by
  unfold apply; split
  · simp only [Call.eff]
    split
    · rename_i d hd
      by_cases hp : p = dir
      · subst hp; simp [FS.dir?_setDir_self]
      · rw [FS.dir?_setDir_ne _ _ _ _ (Ne.symm hp)]; exact h
    · exact h
  · exact h

/-- after the leftovers are removed no status vector is left; the blob files are untouched -/
theorem leftoverPlan_result (fs : FS Name) (dir : Path) :
    (applyAll fs (leftoverPlan fs dir)).file? dir Name.status = none ∧
    (∀ p, (applyAll fs (leftoverPlan fs dir)).file? p Name.data = fs.file? p Name.data) ∧
    (∀ p, (applyAll fs (leftoverPlan fs dir)).file? p Name.lat = fs.file? p Name.lat) ∧
    (∀ p, ((fs.dir? p).isSome = true → ((applyAll fs (leftoverPlan fs dir)).dir? p).isSome = true)) := by
  have hother : ∀ (cs : List Name) (fs' : FS Name) (p : Path) (x : Name), x ∉ cs →
      (applyAll fs' (cs.map (Call.unlink dir))).file? p x = fs'.file? p x := by
    intro cs fs' p x hx
    apply file?_applyAll_of_not_written
    intro c hc
    simp only [List.mem_map] at hc
    obtain ⟨n, hn, rfl⟩ := hc
    exact ⟨rfl, by simp only [Call.writes, List.mem_singleton, Prod.mk.injEq, not_and]; intro _ e; exact hx (e ▸ hn)⟩
  refine ⟨?_, fun p => hother _ _ _ _ (by simp), fun p => hother _ _ _ _ (by simp), ?_⟩
  · unfold leftoverPlan
    by_cases hs : (fs.file? dir Name.status).isSome = true
    · by_cases ht : (fs.file? dir Name.tmeta).isSome = true
      · simp only [List.filter, hs, ht, List.map, applyAll_cons, applyAll_nil]
        rw [file?_apply_of_not_written _ _ _ _ rfl (by simp [Call.writes])]
        exact file?_apply_unlink _ _ _
      · simp only [List.filter, hs, ht, List.map, applyAll_cons, applyAll_nil]
        exact file?_apply_unlink _ _ _
    · have hsn : fs.file? dir Name.status = none := by
        cases h : fs.file? dir Name.status with
        | none => rfl
        | some _ => rw [h] at hs; simp at hs
      by_cases ht : (fs.file? dir Name.tmeta).isSome = true
      · simp only [List.filter, hs, ht, List.map, applyAll_cons, applyAll_nil]
        rw [file?_apply_of_not_written _ _ _ _ rfl (by simp [Call.writes])]; exact hsn
      · simp only [List.filter, hs, ht, List.map, applyAll_nil]; exact hsn
  · intro p hp
    have : ∀ (cs : List Name) (fs' : FS Name), ((fs'.dir? p).isSome = true) →
        ((applyAll fs' (cs.map (Call.unlink dir))).dir? p).isSome = true := by
      intro cs
      induction cs with
      | nil => intro fs' h; exact h
      | cons n cs ih =>
        intro fs' h
        simp only [List.map, applyAll_cons]
        apply ih
        exact dir_isSome_unlink fs' dir n p h
    exact this _ fs hp

end KrakenModel.AgentCrash
