import KrakenModel.Proof.C09SafeW
/-
  C09, part 5: every program counter of the flush worker — `Inv2` is preserved by `work i pick`.
-/
namespace KrakenModel.Tiered
open KrakenModel KrakenModel.BlobStore

theorem pc_flight {w : Worker} {p : PC} (h : w.pc = p) (h1 : p ≠ .idle) (h2 : p ≠ .next) (h3 : p ≠ .unban) :
    w.pc ≠ .idle ∧ w.pc ≠ .next ∧ w.pc ≠ .unban := by
  rw [h]; exact ⟨h1, h2, h3⟩

/-- `disk.Create` under the flusher lock (after the abort check) -/
theorem inv2_fcreate_step {s : GState} (hi : Inv2 s) (i : Nat) (w : Worker) (pick : Nat)
    (hw : s.t.workers[i]? = some w) (hpc : w.pc = .fCreate) :
    Inv2 (wnext s i (wstep s.t w pick).1 (wstep s.t w pick).2) := by
  have hfw := pc_flight hpc (by simp) (by simp) (by simp)
  have hi1 : Inv1 (wnext s i (wstep s.t w pick).1 (wstep s.t w pick).2) :=
    inv1_same_t (inv1_wstep hi.inv1 w pick) _ rfl rfl rfl
  revert hi1
  unfold wstep
  simp only [hpc]
  cases hE : fget s.t.fmap w.key with
  | none =>
    intro _
    simp only
    exact inv2_local_step hi i w { w with pc := .mdSnap } s.t hw rfl rfl rfl hi.inv1.good rfl rfl rfl rfl
      (dirtyOf s.t w.ent) (.inl ⟨rfl, rfl⟩) rfl rfl (by simp [hpc]) (by simp [hpc])
      (by intro B m _ he; rw [hE] at he; simp at he)
  | some id' =>
    simp only
    -- the worker holds this entry (otherwise its key would be gone and have no entry)
    have hatt : fget s.t.fmap w.key = some w.ent := by
      by_cases h : fget s.t.fmap w.key = some w.ent
      · exact h
      · have := (detached_gone hi hw hfw.1 hfw.2.1 hfw.2.2 h).2.2.2
        rw [hE] at this; simp at this
    obtain ⟨m, hm, _⟩ := hi.inv1.ent _ _ hatt
    have hlive := live_of_mem hi.inv1 hm
    cases hD : s.t.disk.blobs.get w.key with
    | some b =>
      -- the disk already has an entry: `Create` answers exist, nothing changes
      intro _
      rw [create_exist hD]
      simp only
      refine inv2_local_step hi i w { w with pc := .fail1 } { s.t with disk := s.t.disk } hw rfl rfl rfl
        hi.inv1.good rfl rfl rfl rfl (dirtyOf s.t w.ent) (.inl ⟨rfl, rfl⟩) rfl rfl (by simp [hpc]) (by simp [hpc]) ?_
      intro B m' _ _ _ _ hph
      simp only [PhaseW, hpc] at hph
      rw [hD] at hph; simp at hph
    | none =>
      rcases create_out_none hi.inv1.good.2 hD w.dataSize [] with ⟨ev, hout, hget⟩ | ⟨hout, hget⟩
      · -- created
        simp only [hout]
        intro hi1
        refine inv2_disk_step' hi i w { w with pc := .fCreated, dinc := s.t.disk.nextInc }
          (create s.t.disk w.key w.dataSize []).1 (s.t.diskEvicted ++ diskVictims s.t.disk w.key w.dataSize)
          hw hi1 (fun k hk => ?_) (fun k hk hm => hk (List.mem_append_left _ hm))
          (fun hl => by rw [hlive] at hl; simp at hl) ?_ rfl rfl hfw (by simp) ?_
        · rcases create_other hD w.dataSize [] k hk with h | ⟨h1, h2⟩
          · exact .inl h
          · exact .inr ⟨h1, List.mem_append_right _ h2⟩
        · intro d hd; rw [hget] at hd; simp at hd; subst hd; simp [SfxNodup]
        · intro B m' hm' _ _ _ hph
          simp only [PhaseW, hpc] at hph ⊢
          obtain ⟨_, hc, hmi⟩ := hph
          exact ⟨⟨_, hget, rfl, rfl, rfl, rfl⟩, hc, hmi⟩
      · -- refused for lack of space: the key joins `diskEvicted`
        simp only [hout]
        intro hi1
        refine inv2_disk_step' hi i w { w with pc := .fail1 }
          (create s.t.disk w.key w.dataSize []).1
          (w.key :: (s.t.diskEvicted ++ diskVictims s.t.disk w.key w.dataSize))
          hw hi1 (fun k hk => ?_) (fun k hk hm => hk (List.mem_cons_of_mem _ (List.mem_append_left _ hm)))
          (fun hl => by rw [hlive] at hl; simp at hl) ?_ rfl rfl hfw (by simp) ?_
        · rcases create_other hD w.dataSize [] k hk with h | ⟨h1, h2⟩
          · exact .inl h
          · exact .inr ⟨h1, List.mem_cons_of_mem _ (List.mem_append_right _ h2)⟩
        · intro d hd; rw [hget] at hd; simp at hd
        · intro B m' _ _ _ hx _
          exact absurd (List.mem_cons_self) hx

theorem hBlob_of_get {s : State} {k : Key} {b : Blob} {inc : Nat} (h : s.blobs.get k = some b) (hi : b.inc = inc) :
    hBlob s { key := k, inc := inc } = some b := by
  simp [hBlob, h, hi]

theorem cover_nil_append {dirty : List Nat} {a b : List Md} (h : Cover dirty a b) : Cover ([] ++ dirty) a b := by
  simpa using h

theorem take_len_take (l : List Nat) (p : Nat) : l.take ((l.take p).length) = l.take p := by
  rw [List.length_take, ← List.take_take]
  simp

/-- appending the next chunk to the first `c` bytes gives the first `c + |chunk|` bytes -/
theorem take_chunk (B : List Nat) (c p : Nat) :
    B.take c ++ (if p = 0 then B.drop c else (B.drop c).take p) =
      B.take (c + (if p = 0 then B.drop c else (B.drop c).take p).length) := by
  split
  · rw [List.take_append_drop, List.length_drop]
    exact (List.take_of_length_le (by omega)).symm
  · rw [List.take_add, take_len_take]

theorem phaseW_copy {w : Worker} {m : Blob} {d : Option Blob} {B : Bytes} {dirty : List Nat}
    (h : w.pc = .fCopy ∨ w.pc = .fCopyEof) :
    PhaseW w m d B dirty = (DiskPartial d (B.take w.copied) w.dinc ∧ Cover dirty [] m.mds ∧ w.minc = m.inc) := by
  rcases h with h | h <;> simp only [PhaseW, h]

/-- **one `Read`/`Write` round of the copy loop** (any chunk length) -/
theorem inv2_copyStep {s : GState} (hi : Inv2 s) (i : Nat) (w : Worker) (pick : Nat)
    (hw : s.t.workers[i]? = some w) (hpc : w.pc = .fCopy ∨ w.pc = .fCopyEof) :
    Inv2 (wnext s i (copyStep s.t w pick).1 (copyStep s.t w pick).2) := by
  have hgood := hi.inv1.good
  have hfw : w.pc ≠ .idle ∧ w.pc ≠ .next ∧ w.pc ≠ .unban := by rcases hpc with h | h <;> simp [h]
  unfold copyStep
  cases hMb : hBlob s.t.mem { key := w.key, inc := w.minc } with
  | none =>
    simp only
    refine inv2_local_step hi i w { w with pc := .fCopied true } s.t hw rfl rfl rfl hgood rfl rfl rfl rfl
      (dirtyOf s.t w.ent) (.inl ⟨rfl, rfl⟩) rfl rfl (by simp [hfw]) (by simp [hfw]) ?_
    intro B m hm _ _ _ hph
    rw [phaseW_copy hpc] at hph
    rw [hBlob_of_get hm hph.2.2.symm] at hMb; simp at hMb
  | some b =>
    simp only
    by_cases hlen : b.data.length ≤ w.copied
    · simp only [hlen, if_true]
      refine inv2_local_step hi i w { w with pc := .fCopied false } s.t hw rfl rfl rfl hgood rfl rfl rfl rfl
        (dirtyOf s.t w.ent) (.inl ⟨rfl, rfl⟩) rfl rfl (by simp [hfw]) (by simp [hfw]) ?_
      intro B m hm _ hdn hxx hph
      rw [phaseW_copy hpc] at hph
      simp only [PhaseW]
      have hb := (hBlob_some hMb).1
      rw [hm] at hb; simp at hb; subst hb
      have hB : m.data = B := ((hi.key w.key).done_m B m hdn hxx hm).1
      have : B.take w.copied = B := List.take_of_length_le (by rw [← hB]; exact hlen)
      rw [this] at hph
      exact ⟨by first | rfl | trivial, hph.1, hph.2.1⟩
    · simp only [hlen, if_false]
      cases hDb : hBlob s.t.disk { key := w.key, inc := w.dinc } with
      | none =>
        simp only
        refine inv2_local_step hi i w _ s.t hw rfl rfl rfl hgood rfl rfl rfl rfl
          (dirtyOf s.t w.ent) (.inl ⟨rfl, rfl⟩) rfl rfl (by simp [hfw]) (by simp [hfw]) ?_
        intro B m hm _ _ _ hph
        rw [phaseW_copy hpc] at hph
        obtain ⟨⟨d, hd, _, _, _, hdi⟩, _⟩ := hph
        rw [hBlob_of_get hd hdi] at hDb; simp at hDb
      | some db =>
        simp only
        have hdb := (hBlob_some hDb).1
        refine inv2_disk_step hi i w _ (setData s.t.disk w.key db _) hw
          (good_setData' hgood.2 _ _ _ hdb) (touch_setData _ _ _ _)
          (fun h => by rw [hdb] at h; simp at h) ?_ rfl rfl hfw (by simp) ?_
        · intro d hd
          simp only [setData, BMap.get_set_self] at hd
          simp at hd; subst hd
          exact (hi.key w.key).nd_d db hdb
        · intro B m hm _ hdn hxx hph
          rw [phaseW_copy hpc] at hph
          simp only [PhaseW]
          have hb := (hBlob_some hMb).1
          rw [hm] at hb; simp at hb; subst hb
          have hB : m.data = B := ((hi.key w.key).done_m B m hdn hxx hm).1
          obtain ⟨⟨d, hd, hc, hdat, hmd, hdi⟩, hcov, hmi⟩ := hph
          rw [hdb] at hd; simp at hd; subst hd
          refine ⟨⟨{ db with data := db.data ++ (if pick = 0 then m.data.drop w.copied else (m.data.drop w.copied).take pick) },
            by simp [setData], hc, ?_, hmd, hdi⟩, hcov, hmi⟩
          show db.data ++ _ = _
          rw [hdat, hB]
          exact take_chunk B w.copied pick

/-- **every worker step preserves the invariant** -/
theorem inv2_wstep_all {s : GState} (hi : Inv2 s) (i : Nat) (w : Worker) (pick : Nat)
    (hw : s.t.workers[i]? = some w) :
    Inv2 (wnext s i (wstep s.t w pick).1 (wstep s.t w pick).2) := by
  have hgood := hi.inv1.good
  cases hpc : w.pc with
  | idle =>
    unfold wstep; simp only [hpc]
    exact inv2_local_step hi i w { w with pc := .next } s.t hw rfl rfl rfl hgood rfl rfl rfl rfl
      (dirtyOf s.t w.ent) (.inl ⟨rfl, rfl⟩) rfl rfl (by simp [hpc]) (by simp)
      (by intro B m _ _ _ _ h; simp [PhaseW, hpc] at h)
  | next => exact inv2_next_step hi i w pick hw hpc
  | unban => exact inv2_unban_step hi i w pick hw hpc
  | fCreate => exact inv2_fcreate_step hi i w pick hw hpc
  | fOpen =>
    unfold wstep; simp only [hpc]
    cases hM : s.t.mem.blobs.get w.key with
    | none =>
      rw [openB_none hM]
      simp only
      exact inv2_local_step hi i w { w with pc := .mdSnap } s.t hw rfl rfl rfl hgood rfl rfl rfl rfl
        (dirtyOf s.t w.ent) (.inl ⟨rfl, rfl⟩) rfl rfl (by simp [hpc]) (by simp [hpc])
        (by intro B m hm; rw [hM] at hm; simp at hm)
    | some b =>
      rw [openB_eq hM (inScope_any b)]
      simp only
      refine inv2_local_step hi i w { w with pc := .fCreate, minc := b.inc }
        { s.t with mem := (if w.key ∈ s.t.mem.queue then { s.t.mem with queue := s.t.mem.queue.erase w.key ++ [w.key] } else s.t.mem) }
        hw rfl ?_ rfl ⟨?_, hgood.2⟩ rfl rfl rfl rfl (dirtyOf s.t w.ent) (.inl ⟨rfl, rfl⟩) rfl rfl
        (by simp [hpc]) (by simp [hpc]) ?_
      · simp only; split <;> rfl
      · have := good_openB hgood.1 w.key .any
        rw [openB_eq hM (inScope_any b)] at this
        exact this
      · intro B m hm _ _ _ hph
        rw [hM] at hm; simp at hm; subst hm
        simp only [PhaseW, hpc] at hph ⊢
        exact ⟨hph.1, hph.2, by first | rfl | trivial⟩
  | fCreated =>
    unfold wstep; simp only [hpc]
    exact inv2_local_step hi i w { w with pc := .fCopy, copied := 0 } s.t hw rfl rfl rfl hgood rfl rfl rfl rfl
      (dirtyOf s.t w.ent) (.inl ⟨rfl, rfl⟩) rfl rfl (by simp [hpc]) (by simp [hpc])
      (by intro B m _ _ _ _ h; simp only [PhaseW, hpc] at h ⊢; simpa using h)
  | fCopy =>
    have := inv2_copyStep hi i w pick hw (.inl hpc)
    unfold wstep; simp only [hpc]; exact this
  | fCopyEof =>
    have := inv2_copyStep hi i w pick hw (.inr hpc)
    unfold wstep; simp only [hpc]; exact this
  | fCopied ev =>
    unfold wstep; simp only [hpc]
    have hfw := pc_flight hpc (by simp) (by simp) (by simp)
    cases ev with
    | true =>
      simp only [if_true]
      refine inv2_local_step hi i w { w with pc := .mdSnap } s.t hw rfl rfl rfl hgood rfl rfl rfl rfl
        (dirtyOf s.t w.ent) (.inl ⟨rfl, rfl⟩) rfl rfl (by simp [hpc]) (by simp [hpc]) ?_
      intro B m _ _ _ _ hph
      simp [PhaseW, hpc] at hph
    | false =>
      simp only [Bool.false_eq_true, if_false]
      refine inv2_disk_step hi i w { w with pc := .mdSnap } (markComplete s.t.disk w.key).1 hw
        (good_markComplete hgood.2 _) (touch_markComplete _ _)
        (fun h => by rw [markComplete_get_self, h]; rfl) ?_ rfl rfl hfw (by simp) ?_
      · intro d hd
        rw [markComplete_get_self] at hd
        cases hD : s.t.disk.blobs.get w.key with
        | none => rw [hD] at hd; simp at hd
        | some d0 =>
          rw [hD] at hd; simp at hd
          have hn := (hi.key w.key).nd_d d0 hD
          split at hd
          · subst hd; exact hn
          · subst hd; exact sfx_filter d0.mds _ hn
      · intro B m _ _ _ _ hph
        simp only [PhaseW, hpc] at hph ⊢
        obtain ⟨_, ⟨d, hd, hc, hdat, hmd, _⟩, hcov⟩ := hph
        rw [markComplete_get_self, hd]
        simp only [Option.map_some, hc, Bool.false_eq_true, if_false]
        refine ⟨⟨_, rfl, rfl, hdat⟩, ?_⟩
        intro b hb
        simp at hb; subst hb
        simpa [hmd] using hcov
  | mdSnap =>
    unfold wstep; simp only [hpc]
    have hfw := pc_flight hpc (by simp) (by simp) (by simp)
    refine inv2_local_step hi i w { w with pc := .mdRead (dirtyOf s.t w.ent) }
      { s.t with ents := setDirty s.t.ents w.ent [] } hw rfl rfl rfl hgood rfl rfl rfl rfl
      [] (.inr ⟨rfl, hfw⟩) rfl rfl (by simp [hpc]) (by simp [hpc]) ?_
    intro B m _ _ _ _ hph
    simp only [PhaseW, hpc] at hph ⊢
    exact ⟨hph.1, fun b hb => cover_nil_append (hph.2 b hb)⟩
  | mdRead todo =>
    unfold wstep; simp only [hpc]
    cases todo with
    | nil =>
      simp only
      refine inv2_local_step hi i w { w with pc := .mdCheck } s.t hw rfl rfl rfl hgood rfl rfl rfl rfl
        (dirtyOf s.t w.ent) (.inl ⟨rfl, rfl⟩) rfl rfl (by simp [hpc]) (by simp [hpc]) ?_
      intro B m _ _ _ _ hph
      simp only [PhaseW, hpc] at hph ⊢
      exact ⟨hph.1, fun b hb => by simpa using hph.2 b hb⟩
    | cons s0 rest =>
      simp only
      refine inv2_local_step hi i w _ s.t hw rfl rfl rfl hgood rfl rfl rfl rfl
        (dirtyOf s.t w.ent) (.inl ⟨rfl, rfl⟩) rfl rfl (by simp [hpc]) (by simp [hpc]) ?_
      intro B m hm _ _ _ hph
      simp only [PhaseW, hpc] at hph ⊢
      simp only [hm]
      refine ⟨hph.1, ?_, ?_⟩
      · intro md hmd
        simp at hmd
        have := List.find?_some hmd
        simpa using this
      · intro b hb sfx'
        rcases hph.2 b hb sfx' with h | h
        · rcases List.mem_append.mp h with h1 | h1
          · exact .inl h1
          · rcases mem_eraseIdx_or (pick % (rest.length + 1)) s0 h1 with h2 | h2
            · right; right; simp [h2]
            · exact .inr (.inl h2)
        · right; right
          split
          · rename_i e; simp [e]
          · exact h
  | mdWrite sfx v todo =>
    unfold wstep; simp only [hpc]
    have hfw := pc_flight hpc (by simp) (by simp) (by simp)
    cases v with
    | none =>
      simp only
      refine inv2_local_step hi i w { w with pc := .mdRead todo } { s.t with disk := s.t.disk } hw rfl rfl rfl hgood
        rfl rfl rfl rfl (dirtyOf s.t w.ent) (.inl ⟨rfl, rfl⟩) rfl rfl (by simp [hpc]) (by simp [hpc]) ?_
      intro B m _ _ _ _ hph
      simp only [PhaseW, hpc] at hph ⊢
      refine ⟨hph.1, fun b hb sfx' => ?_⟩
      rcases hph.2.2 b hb sfx' with h | h | h
      · exact .inl (List.mem_append_left _ h)
      · exact .inl (List.mem_append_right _ h)
      · split at h
        · simp at h
        · exact .inr h
    | some vv =>
      cases vv with
      | none =>
        simp only
        refine inv2_disk_step hi i w { w with pc := .mdRead todo } (delMd s.t.disk w.key .any sfx).1 hw
          (good_delMd hgood.2 _ _ _) (touch_delMd _ _ _ _)
          (fun h => by rw [delMd_get_self, h]; rfl) ?_ rfl rfl hfw (by simp) ?_
        · intro d hd
          rw [delMd_get_self] at hd
          cases hD : s.t.disk.blobs.get w.key with
          | none => rw [hD] at hd; simp at hd
          | some d0 =>
            rw [hD] at hd; simp [inScope] at hd; subst hd
            exact sfx_mdDel d0.mds sfx ((hi.key w.key).nd_d d0 hD)
        · intro B m _ _ _ _ hph
          simp only [PhaseW, hpc] at hph ⊢
          obtain ⟨⟨d, hd, hc, hdat⟩, _, hcov⟩ := hph
          rw [delMd_get_self, hd]
          simp only [Option.map_some, inScope, if_true]
          refine ⟨⟨_, rfl, hc, hdat⟩, fun b hb sfx' => ?_⟩
          simp at hb; subst hb
          rcases hcov d hd sfx' with h | h | h
          · exact .inl (List.mem_append_left _ h)
          · exact .inl (List.mem_append_right _ h)
          · right
            by_cases e : sfx' = sfx
            · subst e
              simp only [if_true] at h
              simp only [mdGet_mdDel_self]
              simp at h; exact h
            · simp only [e, if_false] at h
              rw [mdGet_mdDel_ne _ (fun e' => e e'.symm)]; exact h
      | some md =>
        simp only
        refine inv2_disk_step hi i w { w with pc := .mdRead todo } (setMd s.t.disk w.key .any md).1 hw
          (good_setMd hgood.2 _ _ _) (touch_setMd _ _ _ _)
          (fun h => by rw [setMd_get_self, h]; rfl) ?_ rfl rfl hfw (by simp) ?_
        · intro d hd
          rw [setMd_get_self] at hd
          cases hD : s.t.disk.blobs.get w.key with
          | none => rw [hD] at hd; simp at hd
          | some d0 =>
            rw [hD] at hd; simp [inScope] at hd; subst hd
            exact sfx_mdSet d0.mds md ((hi.key w.key).nd_d d0 hD)
        · intro B m _ _ _ _ hph
          simp only [PhaseW, hpc] at hph ⊢
          obtain ⟨⟨d, hd, hc, hdat⟩, hsfx, hcov⟩ := hph
          have hms : md.sfx = sfx := hsfx md rfl
          rw [setMd_get_self, hd]
          simp only [Option.map_some, inScope, if_true]
          refine ⟨⟨_, rfl, hc, hdat⟩, fun b hb sfx' => ?_⟩
          simp at hb; subst hb
          rcases hcov d hd sfx' with h | h | h
          · exact .inl (List.mem_append_left _ h)
          · exact .inl (List.mem_append_right _ h)
          · right
            by_cases e : sfx' = sfx
            · subst e
              simp only [if_true] at h
              rw [← hms, mdGet_mdSet_self]
              simp at h; rw [hms]; exact h
            · simp only [e, if_false] at h
              rw [mdGet_mdSet_ne _ _ (by rw [hms]; exact fun e' => e e'.symm)]; exact h
  | mdCheck =>
    unfold wstep; simp only [hpc]
    have hfw := pc_flight hpc (by simp) (by simp) (by simp)
    by_cases hemp : (dirtyOf s.t w.ent).isEmpty = true
    · simp only [hemp, if_true]
      refine inv2_fdel_step hi i w { w with pc := .unban } hw rfl rfl rfl hfw ?_
      intro B m _ _ _ _ hph
      simp only [PhaseW, hpc] at hph
      obtain ⟨⟨d, hd, hc, hdat⟩, hcov⟩ := hph
      refine ⟨d, hd, hc, hdat, fun sfx => ?_⟩
      have hnil : dirtyOf s.t w.ent = [] := by simpa using hemp
      rcases hcov d hd sfx with h | h
      · rw [hnil] at h; simp at h
      · exact h
    · simp only [hemp, if_false]
      refine inv2_local_step hi i w { w with pc := .mdRead (dirtyOf s.t w.ent) }
        { s.t with ents := setDirty s.t.ents w.ent [] } hw rfl rfl rfl hgood rfl rfl rfl rfl
        [] (.inr ⟨rfl, hfw⟩) rfl rfl (by simp [hpc]) (by simp [hpc]) ?_
      intro B m _ _ _ _ hph
      simp only [PhaseW, hpc] at hph ⊢
      exact ⟨hph.1, fun b hb => cover_nil_append (hph.2 b hb)⟩
  | fail1 =>
    unfold wstep; simp only [hpc]
    have hfw := pc_flight hpc (by simp) (by simp) (by simp)
    refine inv2_disk_step hi i w { w with pc := .fail2 } (delete s.t.disk w.key .any).1 hw
      (good_delete hgood.2 _ _) (touch_delete _ _ _)
      (fun h => by rw [delete_get_self, h]; rfl) ?_ rfl rfl hfw (by simp) ?_
    · intro d hd
      rw [delete_get_self] at hd
      cases hD : s.t.disk.blobs.get w.key <;> simp [hD, inScope] at hd
    · intro B m _ _ _ _ hph
      simp [PhaseW, hpc] at hph
  | fail2 =>
    unfold wstep; simp only [hpc]
    have hfw := pc_flight hpc (by simp) (by simp) (by simp)
    refine inv2_fdel_step hi i w { w with pc := .unban } hw rfl rfl rfl hfw ?_
    intro B m _ _ _ _ hph
    simp [PhaseW, hpc] at hph

end KrakenModel.Tiered
