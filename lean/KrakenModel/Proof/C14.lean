import KrakenModel.Model.PeerInput
import KrakenModel.Proof.C16
/- Helper lemmas for Spec/C14.lean (core Lean only). -/
namespace KrakenModel.Proof.C14
open KrakenModel.PeerInput

-- ------------------------------------------------------------------ wire

theorem read_cases (maxPiece : Nat) (f : Frame) :
    let r := readMessage true maxPiece f
    r.out.isPanic = false ∧ (∀ a ∈ r.allocs, a ≤ max maxMessageSize maxPiece) ∧
    (∀ n, r.out = .msg 2 (some n) → n ≤ maxPiece ∧ f.dlen + n ≤ f.avail) := by
  intro r
  simp only [r, readMessage]
  split
  · simp [WireOut.isPanic]
  · rename_i h1
    have hd : f.dlen ≤ maxMessageSize := by omega
    split
    · refine ⟨by simp [WireOut.isPanic], ?_, by simp⟩
      intro a ha; simp at ha; subst ha; omega
    · rename_i h2
      split
      · refine ⟨by simp [WireOut.isPanic], ?_, by simp⟩
        intro a ha; simp at ha; subst ha; omega
      · rename_i d _
        split
        · rename_i ht
          refine ⟨by simp [WireOut.isPanic], ?_, ?_⟩
          · intro a ha; simp at ha; subst ha; omega
          · intro n hn; simp at hn
        · split
          · refine ⟨by simp [WireOut.isPanic], ?_, by simp⟩
            intro a ha; simp at ha; subst ha; omega
          · rename_i i o len _
            split
            · refine ⟨by simp [WireOut.isPanic], ?_, by simp⟩
              intro a ha; simp at ha; subst ha; omega
            · rename_i hg
              simp only [Bool.true_and, Bool.or_eq_true, decide_eq_true_eq, not_or, Int.not_lt] at hg
              have hlen : len.toNat ≤ maxPiece := by omega
              split
              · omega
              · split
                · refine ⟨by simp [WireOut.isPanic], ?_, by simp⟩
                  intro a ha; simp at ha; rcases ha with ha | ha <;> subst ha <;> omega
                · rename_i h5
                  refine ⟨by simp [WireOut.isPanic], ?_, ?_⟩
                  · intro a ha; simp at ha; rcases ha with ha | ha <;> subst ha <;> omega
                  · intro n hn; simp at hn; subst hn; omega

-- ------------------------------------------------------------------ handshake

theorem words_le (bits bytes : Nat) (h : bits ≤ 8 * bytes) : 8 * words bits ≤ bytes + 7 := by
  unfold words; omega

theorem unmarshal_cases (b : BfBytes) :
    let r := unmarshalBitfield true b
    (∀ a ∈ r.2, a ≤ b.bytes + 7) ∧
    (∀ n sb, r.1 = some (n, sb) → n = b.bits ∧ sb = b.setBits ∧ n ≤ 8 * b.bytes ∧ b.short = false) := by
  intro r
  simp only [r, unmarshalBitfield]
  split
  · simp
  · rename_i hs
    split
    · simp
    · rename_i hg
      simp only [Bool.true_and, decide_eq_true_eq, Nat.not_lt] at hg
      have := words_le b.bits b.bytes hg
      split
      · refine ⟨?_, by simp⟩
        intro a ha; simp at ha; omega
      · refine ⟨?_, ?_⟩
        · intro a ha; simp at ha; omega
        · intro n sb hn; simp at hn; obtain ⟨h1, h2⟩ := hn; subst h1; subst h2; exact ⟨rfl, rfl, hg, by simpa using hs⟩

-- ------------------------------------------------------------------ dispatcher

/-- well-formed dispatcher state -/
structure WFD (s : DState) : Prop where
  np_pos : 1 ≤ s.np
  last_pos : 1 ≤ s.lastLen
  last_le : s.lastLen ≤ s.pieceLen
  pieces_lt : ∀ i ∈ s.pieces, i < s.np
  peer_len : ∀ k p, s.peers k = some p → p.len ≤ s.np
  peer_bits : ∀ k p, s.peers k = some p → ∀ b ∈ p.bits, b < p.len

theorem mem_insertSorted (x y : Nat) : ∀ (l : List Nat), y ∈ insertSorted x l ↔ y = x ∨ y ∈ l := by
  intro l
  induction l with
  | nil => simp [insertSorted]
  | cons a as ih =>
    simp only [insertSorted]
    split
    · simp
    · split
      · rename_i h; subst h; simp
      · simp [ih]; constructor
        · rintro (h | h | h) <;> simp [h]
        · rintro (h | h | h) <;> simp [h]

/-- total length of the blob -/
def blobLength (s : DState) : Nat := (s.np - 1) * s.pieceLen + s.lastLen

/-- an effect stays inside the torrent: valid piece index, and reads/writes cover exactly that piece,
which lies inside the blob -/
def EffectOk (s : DState) : Effect → Prop
  | .read i n => validIdx s i = true ∧ n = pieceLength s i ∧ i.toNat * s.pieceLen + n ≤ blobLength s
  | .write i n => validIdx s i = true ∧ n = pieceLength s i ∧ i.toNat * s.pieceLen + n ≤ blobLength s
  | .count i => validIdx s i = true
  | .setBit i => validIdx s i = true

theorem piece_in_blob (s : DState) (w : WFD s) (i : Int) (hv : validIdx s i = true) :
    i.toNat * s.pieceLen + pieceLength s i ≤ blobLength s := by
  have h := hv
  simp only [validIdx, Bool.and_eq_true, decide_eq_true_eq] at h
  have hnp := w.np_pos
  have hl := w.last_le
  simp only [pieceLength, hv, if_true, blobLength]
  have hi : i.toNat < s.np := by omega
  split
  · rename_i he
    have : i.toNat = s.np - 1 := by omega
    rw [this]; omega
  · rename_i he
    have h2 : i.toNat + 1 ≤ s.np - 1 := by omega
    calc i.toNat * s.pieceLen + s.pieceLen = (i.toNat + 1) * s.pieceLen := by rw [Nat.add_mul]; omega
      _ ≤ (s.np - 1) * s.pieceLen := Nat.mul_le_mul_right _ h2
      _ ≤ (s.np - 1) * s.pieceLen + s.lastLen := Nat.le_add_right _ _

theorem wfd_setPeer (s : DState) (w : WFD s) (k : Nat) (p : Peer) (hl : p.len ≤ s.np) (hb : ∀ b ∈ p.bits, b < p.len) :
    WFD (setPeer s k p) := by
  obtain ⟨w1, w2, w3, w4, w5, w6⟩ := w
  constructor <;> (try simp only [setPeer]) <;> (try assumption)
  · intro j q hq
    by_cases e : j = k
    · simp [e] at hq; subst hq; exact hl
    · simp only [e, if_false] at hq; exact w5 j q hq
  · intro j q hq
    by_cases e : j = k
    · simp [e] at hq; subst hq; exact hb
    · simp only [e, if_false] at hq; exact w6 j q hq

theorem wfd_bump (s : DState) (w : WFD s) (i : Nat) : WFD (bump s i) := by
  obtain ⟨w1, w2, w3, w4, w5, w6⟩ := w
  constructor <;> (try simp only [bump]) <;> assumption

theorem wfd_foldl_bump (bits : List Nat) : ∀ (s : DState), WFD s → WFD (bits.foldl bump s) := by
  induction bits with
  | nil => intro s w; exact w
  | cons a as ih => intro s w; exact ih _ (wfd_bump s w a)

theorem peer_set_ok (s : DState) (p : Peer) (n : Nat) (hn : n < s.np) (hl : p.len ≤ s.np) (hb : ∀ b ∈ p.bits, b < p.len) :
    (p.set n).len ≤ s.np ∧ ∀ b ∈ (p.set n).bits, b < (p.set n).len := by
  simp only [Peer.set]
  refine ⟨by omega, ?_⟩
  intro b hbm
  rcases (mem_insertSorted n b p.bits).mp hbm with e | e
  · subst e; omega
  · have := hb b e; omega

theorem wfd_closeComplete (s : DState) (w : WFD s) : WFD (closeCompletePeers s) := by
  obtain ⟨w1, w2, w3, w4, w5, w6⟩ := w
  constructor <;> (try simp only [closeCompletePeers]) <;> (try assumption)
  · intro j q hq
    cases hp : s.peers j with
    | none => simp [hp] at hq
    | some p =>
      simp [hp] at hq; subst hq
      split <;> exact w5 j p hp
  · intro j q hq
    cases hp : s.peers j with
    | none => simp [hp] at hq
    | some p =>
      simp [hp] at hq; subst hq
      split <;> exact w6 j p hp

theorem wfd_pieces (s : DState) (w : WFD s) (n : Nat) (hn : n < s.np) :
    WFD { s with pieces := insertSorted n s.pieces } := by
  obtain ⟨w1, w2, w3, w4, w5, w6⟩ := w
  constructor <;> (try assumption)
  intro i hi
  rcases (mem_insertSorted n i s.pieces).mp hi with e | e
  · subst e; exact hn
  · exact w4 i e

/-- the static part of the state (torrent geometry) never changes -/
def SameTorrent (s s' : DState) : Prop :=
  s'.np = s.np ∧ s'.pieceLen = s.pieceLen ∧ s'.lastLen = s.lastLen ∧ s'.origin = s.origin

structure StepOk (s : DState) (r : DRes) : Prop where
  no_panic : r.out.isPanic = false
  wf : WFD r.st
  effects : ∀ e ∈ r.effects, EffectOk s e
  same : SameTorrent s r.st

theorem stepOk_same (s : DState) (w : WFD s) (o : DOut) (ho : o.isPanic = false) : StepOk s ⟨s, o, []⟩ :=
  ⟨ho, w, by simp, ⟨rfl, rfl, rfl, rfl⟩⟩

theorem validIdx_of (s : DState) (i : Int) (h0 : ¬ i < 0) (h1 : ¬ i ≥ s.np) : validIdx s i = true := by
  simp [validIdx]; omega

theorem dispatch_ok (s : DState) (k : Nat) (m : Msg) (w : WFD s) : StepOk s (dispatch true s k m) := by
  unfold dispatch
  cases hp : s.peers k with
  | none => exact stepOk_same s w _ rfl
  | some p =>
    have hpl := w.peer_len k p hp
    have hpb := w.peer_bits k p hp
    cases m with
    | unknown t => exact stepOk_same s w _ rfl
    | cancel b => exact stepOk_same s w _ rfl
    | bitfield => exact stepOk_same s w _ rfl
    | complete =>
      dsimp only
      split
      · exact ⟨rfl, wfd_setPeer s w k _ hpl hpb, by simp, ⟨rfl, rfl, rfl, rfl⟩⟩
      · refine ⟨rfl, wfd_setPeer s w k _ hpl ?_, by simp, ⟨rfl, rfl, rfl, rfl⟩⟩
        intro b hb; simpa using hb
    | error b =>
      cases b <;> exact stepOk_same s w _ rfl
    | announce b =>
      cases b with
      | none => exact stepOk_same s w _ rfl
      | some i =>
        dsimp only
        split
        · exact stepOk_same s w _ rfl
        · rename_i h1
          split
          · exact stepOk_same s w _ rfl
          · rename_i h0
            have h1' : ¬ i ≥ s.np := by simpa using h1
            have hv := validIdx_of s i h0 h1'
            have hn : i.toNat < s.np := by omega
            have hs := peer_set_ok s p i.toNat hn hpl hpb
            refine ⟨rfl, wfd_bump _ (wfd_setPeer s w k _ hs.1 hs.2) _, ?_, ⟨rfl, rfl, rfl, rfl⟩⟩
            intro e he; simp at he; rcases he with he | he <;> subst he <;> exact hv
    | request b =>
      cases b with
      | none => exact stepOk_same s w _ rfl
      | some t =>
        obtain ⟨i, off, len⟩ := t
        dsimp only
        split
        · exact stepOk_same s w _ rfl
        · rename_i hv0
          have hv : validIdx s i = true := by simpa using hv0
          have hvv := hv
          simp only [validIdx, Bool.and_eq_true, decide_eq_true_eq] at hvv
          split
          · exact stepOk_same s w _ rfl
          · split
            · omega
            · split
              · rename_i h; simp at h; omega
              · split
                · have hn : i.toNat < s.np := by omega
                  have hs := peer_set_ok s p i.toNat hn hpl hpb
                  refine ⟨rfl, wfd_setPeer s w k _ hs.1 hs.2, ?_, ⟨rfl, rfl, rfl, rfl⟩⟩
                  intro e he; simp at he
                  rcases he with he | he <;> subst he
                  · exact ⟨hv, rfl, piece_in_blob s w i hv⟩
                  · exact hv
                · exact stepOk_same s w _ rfl
    | payload b actual good =>
      cases b with
      | none => exact stepOk_same s w _ rfl
      | some t =>
        obtain ⟨i, off, len⟩ := t
        dsimp only
        split
        · exact stepOk_same s w _ rfl
        · rename_i hv0
          have hv : validIdx s i = true := by simpa using hv0
          have hvv := hv
          simp only [validIdx, Bool.and_eq_true, decide_eq_true_eq] at hvv
          split
          · exact stepOk_same s w _ rfl
          · split
            · exact stepOk_same s w _ rfl
            · split
              · omega
              · split
                · exact stepOk_same s w _ rfl
                · split
                  · exact stepOk_same s w _ rfl
                  · rename_i hact
                    have hact' : actual = pieceLength s i := by simpa using hact
                    split
                    · exact stepOk_same s w _ rfl
                    · split
                      · exact stepOk_same s w _ rfl
                      · have hn : i.toNat < s.np := by omega
                        have w1 := wfd_pieces s w i.toNat hn
                        refine ⟨rfl, ?_, ?_, ?_⟩
                        · split
                          · exact wfd_closeComplete _ w1
                          · exact w1
                        · intro e he; simp at he; subst he
                          exact ⟨hv, hact', hact' ▸ piece_in_blob s w i hv⟩
                        · split <;> exact ⟨rfl, rfl, rfl, rfl⟩

theorem addPeer_ok (s : DState) (k len : Nat) (bits : List Nat) (w : WFD s) :
    StepOk s (addPeer true s k len bits) := by
  unfold addPeer
  split
  · exact stepOk_same s w _ rfl
  · rename_i hl
    simp only [Bool.true_and, Bool.or_eq_true, decide_eq_true_eq, List.any_eq_true, not_or, Nat.not_lt, not_exists,
      not_and, Nat.not_le] at hl
    have hl' : len ≤ s.np := hl.1
    have hb : ∀ b ∈ bits, b < len := hl.2
    cases hp : s.peers k with
    | some q => exact stepOk_same s w _ rfl
    | none =>
      dsimp only
      have hnone : bits.find? (fun i => decide (s.np ≤ i)) = none := by
        rw [List.find?_eq_none]
        intro x hx; have := hb x hx; simp; omega
      rw [hnone]
      refine ⟨rfl, wfd_foldl_bump bits _ (wfd_setPeer s w k _ hl' hb), ?_, ?_⟩
      · intro e he
        simp only [List.mem_map] at he
        obtain ⟨i, hi, rfl⟩ := he
        have := hb i hi
        simp [EffectOk, validIdx]; omega
      · have key : ∀ (bits : List Nat) (t : DState), SameTorrent s t → SameTorrent s (bits.foldl bump t) := by
          intro bits
          induction bits with
          | nil => intro t h; exact h
          | cons a as ih => intro t h; exact ih _ h
        exact key bits _ ⟨rfl, rfl, rfl, rfl⟩

theorem wfd_unbump (s : DState) (w : WFD s) (i : Nat) : WFD (unbump s i) := by
  obtain ⟨w1, w2, w3, w4, w5, w6⟩ := w
  constructor <;> (try simp only [unbump]) <;> assumption

theorem wfd_foldl_unbump (bits : List Nat) : ∀ (s : DState), WFD s → WFD (bits.foldl unbump s) := by
  induction bits with
  | nil => intro s w; exact w
  | cons a as ih => intro s w; exact ih _ (wfd_unbump s w a)

theorem removePeer_ok (s : DState) (k : Nat) (w : WFD s) : StepOk s (removePeer s k) := by
  unfold removePeer
  cases hp : s.peers k with
  | none => exact stepOk_same s w _ rfl
  | some p =>
    dsimp only
    have hpl := w.peer_len k p hp
    have hpb := w.peer_bits k p hp
    have hnone : p.bits.find? (fun i => decide (s.np ≤ i)) = none := by
      rw [List.find?_eq_none]
      intro x hx; have := hpb x hx; simp; omega
    rw [hnone]
    have w1 : WFD { s with peers := fun j => if j = k then none else s.peers j } := by
      obtain ⟨w1, w2, w3, w4, w5, w6⟩ := w
      constructor <;> (try assumption)
      · intro j q hq; dsimp only at hq; split at hq
        · cases hq
        · exact w5 j q hq
      · intro j q hq; dsimp only at hq; split at hq
        · cases hq
        · exact w6 j q hq
    refine ⟨rfl, wfd_foldl_unbump p.bits _ w1, ?_, ?_⟩
    · intro e he
      simp only [List.mem_map] at he
      obtain ⟨i, hi, rfl⟩ := he
      have := hpb i hi
      simp [EffectOk, validIdx]; omega
    · have key : ∀ (bits : List Nat) (t : DState), SameTorrent s t → SameTorrent s (bits.foldl unbump t) := by
        intro bits
        induction bits with
        | nil => intro t h; exact h
        | cons a as ih => intro t h; exact ih _ h
      exact key p.bits _ ⟨rfl, rfl, rfl, rfl⟩

-- ------------------------------------------------------------------ scheduler: incoming handshake

section Incoming
open KrakenModel.ConnState KrakenModel.Proof.C16

theorem lookup_connClosed (cfg : Config) (s : ConnState.State) (c : Conn) (h : Nat) (p : Nat) :
    lookup (connClosed cfg s c) h p = lookup (deleteActive s c) h p :=
  lookup_of_conns (blacklistOp_conns cfg (deleteActive s c) c.peer c.hash) h p

theorem addPending_cases (cfg : Config) (s : ConnState.State) (p h : Nat) (nbrs : List Nat) :
    (addPending cfg s p h nbrs = (put s h p .pending, .ok)) ∨
    ((addPending cfg s p h nbrs).1 = s ∧ (addPending cfg s p h nbrs).2 ≠ .ok) := by
  unfold addPending
  split
  · right; exact ⟨rfl, by simp⟩
  · split
    · split
      · right; exact ⟨rfl, by simp⟩
      · left; rfl
    · right; exact ⟨rfl, by simp⟩
    · right; exact ⟨rfl, by simp⟩

/-- a pending entry that is present after the whole incoming-connection flow was present before it -/
theorem incoming_pending_sub (cfg : Config) (s : ConnState.State) (cid : Nat) (i : InConn) (h : Nat) (p : Nat)
    (hp : lookup (incoming true cfg s cid i).1 h p = some .pending) : lookup s h p = some .pending := by
  unfold incoming at hp
  split at hp
  · exact hp
  · rcases addPending_cases cfg s i.peer i.claim [] with hok | ⟨hs, hne⟩
    · rw [hok] at hp
      dsimp only at hp
      have hs1 : lookup (put s i.claim i.peer .pending) i.claim i.peer = some .pending := get_put_same _ _ _ _
      have hdel : ∀ h' p', lookup (deletePending (put s i.claim i.peer .pending) i.peer i.claim) h' p' = some .pending →
          lookup s h' p' = some .pending := by
        intro h' p' hq
        unfold deletePending at hq
        simp only [hs1, if_true] at hq
        by_cases e : h' = i.claim ∧ p' = i.peer
        · obtain ⟨e1, e2⟩ := e; subst e1; subst e2
          rw [get_del_same] at hq; cases hq
        · rw [get_del_other _ _ _ _ _ e, get_put_other _ _ _ _ _ _ e] at hq; exact hq
      split at hp
      · exact hdel h p hp
      · rename_i r _
        split at hp
        · exact hdel h p hp
        · rename_i hrc
          have hr : r = i.claim := by simpa using hrc
          subst hr
          have hmove : movePendingToActive (put s i.claim i.peer .pending) ⟨cid, i.claim, i.peer, false⟩ =
              (put (put s i.claim i.peer .pending) i.claim i.peer (.active cid), .ok) := by
            simp [movePendingToActive, hs1]
          rw [hmove] at hp
          dsimp only at hp
          have hact : lookup (put (put s i.claim i.peer .pending) i.claim i.peer (.active cid)) i.claim i.peer = some (.active cid) :=
            get_put_same _ _ _ _
          split at hp
          · by_cases e : h = i.claim ∧ p = i.peer
            · obtain ⟨e1, e2⟩ := e; subst e1; subst e2
              rw [hact] at hp; cases hp
            · rw [get_put_other _ _ _ _ _ _ e, get_put_other _ _ _ _ _ _ e] at hp; exact hp
          · rw [lookup_connClosed] at hp
            unfold deleteActive at hp
            simp only [hact, ne_eq, not_true_eq_false, if_false] at hp
            by_cases e : h = i.claim ∧ p = i.peer
            · obtain ⟨e1, e2⟩ := e; subst e1; subst e2
              rw [get_del_same] at hp; cases hp
            · rw [get_del_other _ _ _ _ _ e, get_put_other _ _ _ _ _ _ e, get_put_other _ _ _ _ _ _ e] at hp; exact hp
    · generalize hres : addPending cfg s i.peer i.claim [] = res at hp hs hne
      obtain ⟨s1, ar⟩ := res
      dsimp only at hs hne
      subst hs
      cases ar <;> first | exact absurd rfl hne | exact hp

end Incoming

end KrakenModel.Proof.C14
