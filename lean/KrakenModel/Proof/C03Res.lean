import KrakenModel.Proof.C03Stab
/-
  C03 helper lemmas, part 6: what the results of WritePiece mean (second invariant `RT`).
-/
namespace KrakenModel.Proof.C03
open KrakenModel.AgentTorrent

section
variable (crc : Bytes → Nat) (pl : Nat) (blob : Bytes)

/-- facts established when the checksum matched -/
def Accepted (s : State) (t : Thread) : Prop :=
  Valid pl blob t ∧ t.payload = pieceOf pl blob t.idx ∧ s.pieces[t.idx]? = some PStatus.complete

/-- meaning of a result -/
def ResMeaning (s : State) (t : Thread) : Option Res → Prop
  | some .ok => Accepted pl blob s t
  | some .panic => False
  | some .errStore => False
  | some .errSum => Valid pl blob t ∧ t.payload ≠ pieceOf pl blob t.idx
  | some .errIndex => t.pi < 0 ∨ (numPiecesOf pl blob.length : Int) ≤ t.pi
  | some .errLength => 0 ≤ t.pi ∧ t.pi < (numPiecesOf pl blob.length : Int) ∧
      t.payload.length ≠ (pieceOf pl blob t.pi.toNat).length
  | some .errComplete => Valid pl blob t ∧ s.pieces[t.idx]? = some PStatus.complete
  | some .errConflict => Valid pl blob t
  | none => False

def RT (s : State) (t : Thread) : Prop :=
  match t.pc with
  | .setMeta | .markComplete => t.payload = pieceOf pl blob t.idx
  | .incNum | .loadNum | .move | .setCommitted => Accepted pl blob s t
  | .markEmpty => t.fail = .errSum ∧ t.payload ≠ pieceOf pl blob t.idx
  | .done => ResMeaning pl blob s t t.result
  | _ => True

def RTAll (s : State) : Prop := ∀ (a : Nat) (u : Thread), s.threads[a]? = some u → RT pl blob s u
end

variable {crc : Bytes → Nat} {pl : Nat} {blob : Bytes}

theorem RT.mono {s s' : State} {u : Thread}
    (hm : ∀ (i : Nat), s.pieces[i]? = some PStatus.complete → s'.pieces[i]? = some PStatus.complete)
    (h : RT pl blob s u) : RT pl blob s' u := by
  unfold RT at *
  cases hpc : u.pc <;> simp only [hpc] at h ⊢ <;> try exact h
  case incNum | loadNum | move | setCommitted => exact ⟨h.1, h.2.1, hm _ h.2.2⟩
  case done =>
    cases hr : u.result with
    | none => rw [hr] at h; exact h
    | some r =>
      rw [hr] at h
      cases r <;> simp only [ResMeaning] at h ⊢ <;> try exact h
      case ok => exact ⟨h.1, h.2.1, hm _ h.2.2⟩
      case errComplete => exact ⟨h.1, hm _ h.2⟩

theorem stepThread_other {s : State} (tid k a : Nat) (hne : tid ≠ a) :
    (stepThread crc s tid k).threads[a]? = s.threads[a]? := by
  unfold stepThread
  cases ht : s.threads[tid]? with
  | none => rfl
  | some t =>
    simp only
    cases hpc : t.pc <;> simp only
    case start => repeat' split
                  all_goals simp [setThread, List.getElem?_set_ne hne]
    case fastComplete | fastDirty =>
      cases hp : s.pieces[t.idx]? with
      | none => simp [setThread, List.getElem?_set_ne hne]
      | some st => simp only; split <;> simp [setThread, List.getElem?_set_ne hne]
    case tryDirty =>
      cases hp : s.pieces[t.idx]? with
      | none => simp [setThread, List.getElem?_set_ne hne]
      | some st => cases st <;> simp [setThread, List.getElem?_set_ne hne]
    case checksum =>
      cases hsum : s.mi.sums[t.idx]? with
      | none => simp [setThread, List.getElem?_set_ne hne]
      | some sum => simp only; split <;> simp [setThread, List.getElem?_set_ne hne]
    case openFile | writing | setMeta | loadNum | markComplete | markEmpty =>
      split <;> simp [setThread, List.getElem?_set_ne hne]
    case incNum | move | setCommitted => simp [setThread, List.getElem?_set_ne hne]

/-- the checksum comparison: a matching checksum means the payload is the piece -/
theorem payload_eq_of_crc {s : State} {t : Thread} (htok : TOK crc pl blob s t) (hv : Valid pl blob t)
    (hcrc : crc t.payload = crc (pieceOf pl blob t.idx)) : t.payload = pieceOf pl blob t.idx := by
  have h := htok.sep
  unfold SepPayload at h
  rw [hv.2.2] at h
  exact h (by omega) hv.2.1 hcrc

theorem set_self {ts : List Thread} {tid : Nat} {t x t' : Thread} (ht : ts[tid]? = some t)
    (h : (ts.set tid x)[tid]? = some t') : t' = x := by
  rw [threads_set_get ht] at h; simp at h; exact h.symm

theorem RT_step_self (hpl : 0 < pl) {s : State} (hg : Good crc pl blob s) (tid k : Nat) (t : Thread)
    (ht : s.threads[tid]? = some t) (hr : RT pl blob s t) (t' : Thread)
    (ht' : (stepThread crc s tid k).threads[tid]? = some t') : RT pl blob (stepThread crc s tid k) t' := by
  have htok := hg.thr tid t ht
  have hmi := hg.mi_eq
  unfold stepThread at ht' ⊢
  rw [ht] at ht' ⊢
  simp only at ht' ⊢
  cases hpc : t.pc <;> simp only [hpc] at ht' ⊢
  case start =>
    split at ht' <;> rename_i h1
    · rw [if_pos h1]; obtain rfl := set_self ht ht'
      simp only [RT, finish, ResMeaning]
      rw [← hg.len_pieces]
      rcases h1 with h | h
      · exact Or.inl h
      · exact Or.inr h
    · rw [if_neg h1]
      split at ht' <;> rename_i h3
      · rw [if_pos h3]; obtain rfl := set_self ht ht'
        simp only [RT, finish, ResMeaning]
        have hidx : t.pi = ((t.pi.toNat : Nat) : Int) := by omega
        have hlt : t.pi.toNat < numPiecesOf pl blob.length := by rw [← hg.len_pieces]; omega
        refine ⟨by omega, by omega, ?_⟩
        intro heq
        apply h3
        have hp := pieceLength_ofBlob crc pl blob hpl _ hlt
        rw [← hidx] at hp
        rw [hmi, hp, heq]
      · rw [if_neg h3]; obtain rfl := set_self ht ht'
        simp only [RT]
  case fastComplete =>
    have hv : Valid pl blob t := by have := htok.2; simpa [hpc] using this
    cases hp : s.pieces[t.idx]? with
    | none =>
      exfalso
      have : t.idx < s.pieces.length := by rw [hg.len_pieces]; exact hv.1
      rw [List.getElem?_eq_none_iff] at hp; omega
    | some st =>
      rw [hp] at ht'; simp only at ht' ⊢
      split at ht' <;> rename_i h1
      · rw [if_pos h1]; obtain rfl := set_self ht ht'
        simp only [RT, finish, ResMeaning]
        refine ⟨hv, ?_⟩
        show s.pieces[t.idx]? = _
        rw [hp, h1]
      · rw [if_neg h1]; obtain rfl := set_self ht ht'
        simp only [RT]
  case fastDirty =>
    have hv : Valid pl blob t := by have := htok.2; simpa [hpc] using this
    cases hp : s.pieces[t.idx]? with
    | none =>
      exfalso
      have : t.idx < s.pieces.length := by rw [hg.len_pieces]; exact hv.1
      rw [List.getElem?_eq_none_iff] at hp; omega
    | some st =>
      rw [hp] at ht'; simp only at ht' ⊢
      split at ht' <;> rename_i h1
      · rw [if_pos h1]; obtain rfl := set_self ht ht'
        simp only [RT, finish, ResMeaning]
        exact hv
      · rw [if_neg h1]; obtain rfl := set_self ht ht'
        simp only [RT]
  case tryDirty =>
    have hv : Valid pl blob t := by have := htok.2; simpa [hpc] using this
    cases hp : s.pieces[t.idx]? with
    | none =>
      exfalso
      have : t.idx < s.pieces.length := by rw [hg.len_pieces]; exact hv.1
      rw [List.getElem?_eq_none_iff] at hp; omega
    | some st =>
      rw [hp] at ht'
      cases st <;> simp only at ht' ⊢
      · obtain rfl := set_self ht ht'; simp only [RT]
      · obtain rfl := set_self ht ht'
        simp only [RT, finish, ResMeaning]; exact ⟨hv, hp⟩
      · obtain rfl := set_self ht ht'
        simp only [RT, finish, ResMeaning]; exact hv
  case openFile =>
    obtain ⟨hv, hd, hst⟩ : Valid pl blob t ∧ s.pieces[t.idx]? = some .dirty ∧ s.status[t.idx]? ≠ some 1 := by
      have := htok.2; simpa [hpc] using this
    have hnc : ¬ s.inCache = true := by
      intro hic
      have := all_complete_of_num hg (hg.cache_num hic) t.idx (lt_of_getElem?_some hd)
      rw [hd] at this; cases this
    rw [if_neg hnc] at ht' ⊢
    obtain rfl := set_self ht ht'
    simp only [RT]
  case writing =>
    split at ht' <;> rename_i h1
    · rw [if_pos h1]; obtain rfl := set_self ht ht'; simp only [RT]
    · rw [if_neg h1]; obtain rfl := set_self ht ht'; simp only [RT]
  case checksum =>
    obtain ⟨hv, hd, hst, hfile⟩ : Valid pl blob t ∧ s.pieces[t.idx]? = some .dirty ∧ s.status[t.idx]? ≠ some 1 ∧
        ∀ j, j < t.payload.length → s.file[pl * t.idx + j]? = t.payload[j]? := by
      have := htok.2; simpa [hpc] using this
    have hsum : s.mi.sums[t.idx]? = some (crc (pieceOf pl blob t.idx)) := by
      rw [hmi]; exact sums_ofBlob crc pl blob t.idx hv.1
    rw [hsum] at ht' ⊢
    simp only at ht' ⊢
    split at ht' <;> rename_i h1
    · rw [if_pos h1]; obtain rfl := set_self ht ht'
      simp only [RT]
      exact ⟨trivial, fun h => h1 (by rw [h])⟩
    · rw [if_neg h1]; obtain rfl := set_self ht ht'
      simp only [RT]
      have hcrc' : crc t.payload = crc (pieceOf pl blob t.idx) := by
        rcases Decidable.em (crc t.payload = crc (pieceOf pl blob t.idx)) with h | h
        · exact h
        · exact absurd h h1
      exact payload_eq_of_crc htok hv hcrc'
  case setMeta =>
    obtain ⟨hv, hd, hst, hfile⟩ : Valid pl blob t ∧ s.pieces[t.idx]? = some .dirty ∧ s.status[t.idx]? ≠ some 1 ∧
        ∀ j, j < pl → s.file[pl * t.idx + j]? = blob[pl * t.idx + j]? := by
      have := htok.2; simpa [hpc] using this
    have hnc : ¬ (s.inCache = true ∨ t.idx ≥ s.status.length) := by
      intro h
      rcases h with hic | hge
      · have := all_complete_of_num hg (hg.cache_num hic) t.idx (lt_of_getElem?_some hd)
        rw [hd] at this; cases this
      · rw [hg.len_status] at hge; have := hv.1; omega
    rw [if_neg hnc] at ht' ⊢
    obtain rfl := set_self ht ht'
    simp only [RT]
    have := hr; simp only [RT, hpc] at this; exact this
  case markComplete =>
    obtain ⟨hv, hd, hst⟩ : Valid pl blob t ∧ s.pieces[t.idx]? = some .dirty ∧ s.status[t.idx]? = some 1 := by
      have := htok.2; simpa [hpc] using this
    have hlt := lt_of_getElem?_some hd
    rw [if_pos hlt] at ht' ⊢
    obtain rfl := set_self ht ht'
    simp only [RT, Accepted, setThread]
    have := hr; simp only [RT, hpc] at this
    exact ⟨hv, this, List.getElem?_set_self hlt⟩
  case incNum =>
    obtain rfl := set_self ht ht'
    have := hr; simp only [RT, hpc] at this
    simp only [RT]; exact this
  case loadNum =>
    have hacc := hr; simp only [RT, hpc] at hacc
    split at ht' <;> rename_i h1
    · rw [if_pos h1]; obtain rfl := set_self ht ht'; simp only [RT]; exact hacc
    · rw [if_neg h1]; obtain rfl := set_self ht ht'; simp only [RT, finish, ResMeaning]; exact hacc
  case move =>
    obtain rfl := set_self ht ht'
    have := hr; simp only [RT, hpc] at this
    simp only [RT]; exact this
  case setCommitted =>
    obtain rfl := set_self ht ht'
    have := hr; simp only [RT, hpc] at this
    simp only [RT, finish, ResMeaning]; exact this
  case markEmpty =>
    obtain ⟨hv, hd, hst⟩ : Valid pl blob t ∧ s.pieces[t.idx]? = some .dirty ∧ s.status[t.idx]? ≠ some 1 := by
      have := htok.2; simpa [hpc] using this
    have hlt := lt_of_getElem?_some hd
    rw [if_pos hlt] at ht' ⊢
    obtain rfl := set_self ht ht'
    have := hr; simp only [RT, hpc] at this
    simp only [RT, finish, this.1, ResMeaning]
    exact ⟨hv, this.2⟩
  case done =>
    rw [ht] at ht'; cases ht'
    exact hr

theorem RTAll_init (mi : MetaInfo) : RTAll pl blob (init mi) := by
  intro a u hu
  have : (init mi).threads = [] := by
    unfold init openTorrent
    split <;> (unfold openTorrentCore; simp only [Bool.false_eq_true, if_false]; split <;> rfl)
  rw [this] at hu; simp at hu


theorem RTAll_step (hpl : 0 < pl) {s : State} (hg : Good crc pl blob s) (a : Action)
    (hr : RTAll pl blob s) : RTAll pl blob (step crc s a) := by
  cases a with
  | spawn pi payload =>
    intro b u hu
    simp only [step] at hu
    rw [List.getElem?_append] at hu
    split at hu
    · exact (hr b u hu).mono (fun _ h => h)
    · cases h : b - s.threads.length with
      | zero => rw [h] at hu; simp at hu; subst hu; simp [RT]
      | succ n => rw [h] at hu; simp at hu
  | step tid k =>
    intro b u hu
    simp only [step] at hu ⊢
    by_cases hb : tid = b
    · subst hb
      cases ht : s.threads[tid]? with
      | none =>
        have : stepThread crc s tid k = s := by unfold stepThread; rw [ht]
        rw [this] at hu; rw [ht] at hu; cases hu
      | some t => exact RT_step_self hpl hg tid k t ht (hr tid t ht) u hu
    · rw [stepThread_other tid k b hb] at hu
      exact (hr b u hu).mono (fun i h => complete_mono_thread hg tid k i h)
  | reopen =>
    intro b u hu
    have hthreads : (step crc s .reopen).threads = s.threads := by
      simp only [step]; split
      · rw [openTorrent_eq_core hg]; unfold openTorrentCore; split
        · rfl
        · simp only; split <;> rfl
      · rfl
    rw [hthreads] at hu
    exact (hr b u hu).mono (fun i h => complete_mono hg .reopen rfl i h)
  | recreate =>
    simp only [step]
    split
    · exact RTAll_init _
    · exact hr
  | tornReopen n =>
    simp only [step]
    split
    · rename_i hq
      split
      · intro b u hu
        have hthreads : (openTorrent s).threads = s.threads := by
          rw [openTorrent_eq_core hg]; unfold openTorrentCore; split
          · rfl
          · simp only; split <;> rfl
        rw [hthreads] at hu
        exact (hr b u hu).mono (fun i h => complete_mono hg .reopen rfl i (by simpa [step, hq.1] using h) |> fun x => by simpa [step, hq.1] using x)
      · intro b u hu
        have : (openTorrent { s with status := s.status.take n ++ List.replicate (n - s.status.length) 0, threads := [] }).threads = [] := by
          unfold openTorrent
          split <;> (unfold openTorrentCore; split; rfl; simp only; split <;> rfl)
        rw [this] at hu; simp at hu
    · exact hr

end KrakenModel.Proof.C03
