import KrakenModel.Proof.C06Sys
import KrakenModel.Proof.FSFile
/-
  C06 proof library, part 13: a crash inside the constructor, end to end — what the next start finds is
  what the interrupted one would have found.
-/
set_option linter.unusedSectionVars false
set_option linter.unusedSimpArgs false
namespace KrakenModel.DiskCrash
open KrakenModel.FS

/-- a removal leaves every file as it was or gone -/
theorem removal_file_shrink (fs : FS Name) (c : Call Name) (h : Call.removal c = true) (p : Path) (n : Name) :
    (apply fs c).file? p n = none ∨ (apply fs c).file? p n = fs.file? p n := by
  cases c with
  | unlink q x =>
    by_cases e : (p, n) = (q, x)
    · cases e; left; exact file?_apply_unlink _ _ _
    · right; exact file?_apply_of_not_written _ _ _ _ rfl (by simpa [Call.writes] using e)
  | rmdir q => right; exact file?_apply_of_not_written _ _ _ _ rfl (by simp [Call.writes])
  | _ => simp [Call.removal] at h

/-- a directory the scan cannot reboot stays that way while things are only removed -/
theorem rebootBlob_none_apply (cfg : Cfg) (fs : FS Name) (c : Call Name) (hr : Call.removal c = true) (cc : Bool) (K : Key)
    (h : rebootBlob cfg fs cc K = none) : rebootBlob cfg (apply fs c) cc K = none := by
  have hd := removal_file_shrink fs c hr (dirPath cfg cc K) Name.data
  have hs := removal_file_shrink fs c hr (dirPath cfg cc K) Name.size
  unfold rebootBlob at h ⊢
  simp only at h ⊢
  rcases hd with hd | hd
  · rw [hd]
  · rw [hd]
    cases hdat : fs.file? (dirPath cfg cc K) Name.data with
    | none => rfl
    | some d =>
      rw [hdat] at h
      simp only at h ⊢
      cases cc with
      | true => simp at h
      | false =>
        simp only [Bool.false_eq_true, if_false] at h ⊢
        rcases hs with hs | hs
        · rw [hs]
        · rw [hs]
          cases hsz : fs.file? (dirPath cfg false K) Name.size with
          | none => rfl
          | some sz =>
            rw [hsz] at h
            simp only at h ⊢
            cases hp : parseSize sz with
            | none => rfl
            | some n => rw [hp] at h; simp at h

theorem rebootBlob_none_applyAll (cfg : Cfg) (cs : List (Call Name)) (hr : ∀ c ∈ cs, Call.removal c = true) (fs : FS Name)
    (cc : Bool) (K : Key) (h : rebootBlob cfg fs cc K = none) : rebootBlob cfg (applyAll fs cs) cc K = none := by
  induction cs generalizing fs with
  | nil => exact h
  | cons c cs ih =>
    rw [applyAll_cons]
    exact ih (fun c' hc' => hr c' (List.mem_cons_of_mem _ hc')) _
      (rebootBlob_none_apply cfg fs c (hr c (List.mem_cons_self ..)) cc K h)

theorem rebootBlob_congr_dir {cfg : Cfg} {fs fs' : FS Name} {cc : Bool} {K : Key}
    (h : fs'.dir? (dirPath cfg cc K) = fs.dir? (dirPath cfg cc K)) : rebootBlob cfg fs' cc K = rebootBlob cfg fs cc K := by
  unfold rebootBlob
  simp only [file?_congr h]

/-- at every point of the constructor's run the scan makes of every key what it made of it at the start -/
theorem rebootLookup_prefix {cfg : Cfg} {fs : FS Name} (hfs : GoodFS cfg fs) (o : Order Name) (mt : List Key)
    (rm : List (Call Name)) (hrm : cfg.reboot = false → validRm fs rm = true)
    (hfit : rebootSize cfg rm fs ≤ cfg.capacity) (k : Nat) (K : Key) :
    rebootLookup cfg (applyPrefix k (rebootRun cfg o mt rm fs).calls fs) K = rebootLookup cfg fs K := by
  have ok := reboot_ok hfs o mt rm hrm
  have hnone : ∀ cc, rebootBlob cfg fs cc K = none →
      rebootBlob cfg (applyPrefix k (rebootRun cfg o mt rm fs).calls fs) cc K = none :=
    fun cc h => rebootBlob_none_applyAll cfg _ (fun c hc => ok.removal c (List.mem_of_mem_take hc)) fs cc K h
  have hsome : ∀ cc rb, rebootBlob cfg fs cc K = some rb → (cc = true ∨ cfg.reboot = true) →
      rebootBlob cfg (applyPrefix k (rebootRun cfg o mt rm fs).calls fs) cc K = some rb :=
    fun cc rb h hc => by rw [rebootBlob_congr_dir (ok.frame hfit k K cc rb h hc)]; exact h
  unfold rebootLookup
  cases h1 : rebootBlob cfg fs true K with
  | some rb => rw [hsome true rb h1 (Or.inl rfl)]
  | none =>
    rw [hnone true h1]
    simp only
    by_cases hre : cfg.reboot = true
    · simp only [hre, if_true]
      cases h2 : rebootBlob cfg fs false K with
      | some rb => rw [hsome false rb h2 (Or.inr hre)]
      | none => rw [hnone false h2]
    · simp [hre]

end KrakenModel.DiskCrash
