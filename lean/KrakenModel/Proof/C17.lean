import KrakenModel.Model.SchedWaiters
/- Helper lemmas for Spec/C17.lean (core Lean only): the invariant of the repaired scheduler model
   and its preservation by every action. -/
namespace KrakenModel.Proof.C17
open KrakenModel.SchedWaiters

theorem sendTo_not_mem (res : Nat → List Sent) (ws : List Nat) (x : Sent) (w : Nat) (h : w ∉ ws) :
    sendTo res ws x w = res w := by
  simp [sendTo, List.count_eq_zero_of_not_mem h]

theorem sendTo_mem (res : Nat → List Sent) (ws : List Nat) (x : Sent) (w : Nat) (hn : ws.Nodup) (h : w ∈ ws) :
    sendTo res ws x w = res w ++ [x] := by
  simp [sendTo, hn.count, h]

theorem sendTo_nil (res : Nat → List Sent) (x : Sent) : sendTo res [] x = res := by
  funext w; simp [sendTo]

/-- invariant of the repaired model -/
structure Good (s : State) : Prop where
  live_nodup : s.live.Nodup
  live_mem : ∀ h c, s.ctrl h = some c → h ∈ s.live
  w_nodup : ∀ h c, s.ctrl h = some c → c.waiters.Nodup
  w_disj : ∀ h h' c c' w, s.ctrl h = some c → s.ctrl h' = some c' → w ∈ c.waiters → w ∈ c'.waiters → h = h'
  w_fresh : s.stopped = false → ∀ h c w, s.ctrl h = some c → w ∈ c.waiters → w < s.nextW ∧ s.results w = []
  answered : ∀ w, w < s.nextW → (s.stopped = true ∨ ∀ h c, s.ctrl h = some c → w ∉ c.waiters) →
    (s.results w).length = 1
  future : ∀ w, s.nextW ≤ w → s.results w = []
  gen_lt : ∀ h c, s.ctrl h = some c → c.gen < s.nextGen
  notice_lt : ∀ h g, (h, g) ∈ s.notices → g < s.nextGen
  notice_complete : ∀ h g c, (h, g) ∈ s.notices → s.ctrl h = some c → c.gen = g → c.complete = true
  complete_notice : s.stopped = false → ∀ h c, s.ctrl h = some c → c.complete = true → c.waiters ≠ [] →
    (h, c.gen) ∈ s.notices
  complete_cached : ∀ h c, s.ctrl h = some c → c.complete = true → s.cached h = true
  ok_cached : ∀ w x, x ∈ s.results w → x.res = .ok → x.cachedThen = true

theorem good_init : Good init := by
  constructor <;> simp [init]

theorem sendTo_single (res : Nat → List Sent) (w : Nat) (x : Sent) (w' : Nat) :
    sendTo res [w] x w' = if w' = w then res w' ++ [x] else res w' := by
  by_cases e : w' = w
  · subst e; simp [sendTo]
  · have : ¬ w = w' := fun h => e h.symm
    simp [sendTo, e, this]

-- ------------------------------------------------------------------ request

theorem good_request_stopped (s : State) (h : Hash) (g : Good s) (hs : s.stopped = true) :
    Good (request s h) := by
  have hf := g.future s.nextW (Nat.le_refl _)
  simp only [request, hs, if_true]
  constructor <;> dsimp only
  · exact g.live_nodup
  · exact g.live_mem
  · exact g.w_nodup
  · exact g.w_disj
  · intro h0; simp [hs] at h0
  · intro w hw _
    simp only [sendTo_single]
    by_cases e : w = s.nextW
    · simp [e, hf]
    · simp only [e, if_false]; exact g.answered w (by omega) (Or.inl hs)
  · intro w hw
    simp only [sendTo_single]
    have e : ¬ w = s.nextW := by omega
    simp only [e, if_false]; exact g.future w (by omega)
  · exact g.gen_lt
  · exact g.notice_lt
  · exact g.notice_complete
  · intro h0; simp [hs] at h0
  · exact g.complete_cached
  · intro w x hx hok
    simp only [sendTo_single] at hx
    by_cases e : w = s.nextW
    · simp [e, hf] at hx; subst hx; simp at hok
    · simp only [e, if_false] at hx; exact g.ok_cached w x hx hok

theorem setCtrl_ctrl (s : State) (h : Hash) (oc : Option Ctrl) (k : Hash) :
    (setCtrl s h oc).ctrl k = if k = h then oc else s.ctrl k := rfl

theorem setCached_cached (s : State) (h : Hash) (b : Bool) (k : Hash) :
    (setCached s h b).cached k = if k = h then b else s.cached k := rfl

theorem good_request_complete (s : State) (h : Hash) (c : Ctrl) (g : Good s) (hs : s.stopped = false)
    (hc : s.ctrl h = some c) (hcc : c.complete = true) : Good (request s h) := by
  have hf := g.future s.nextW (Nat.le_refl _)
  have hca := g.complete_cached h c hc hcc
  simp only [request, hs, hc, hcc, if_true, Bool.false_eq_true, if_false]
  obtain ⟨g1, g2, g3, g4, g5, g6, g7, g8, g9, g10, g11, g12, g13⟩ := g
  constructor <;> dsimp only <;> (try simp only [sendTo_single]) <;> grind

theorem good_request_join (s : State) (h : Hash) (c : Ctrl) (g : Good s) (hs : s.stopped = false)
    (hc : s.ctrl h = some c) (hcc : c.complete = false) : Good (request s h) := by
  have hf := g.future s.nextW (Nat.le_refl _)
  simp only [request, hs, hc, hcc, Bool.false_eq_true, if_false]
  obtain ⟨g1, g2, g3, g4, g5, g6, g7, g8, g9, g10, g11, g12, g13⟩ := g
  constructor <;> (try simp only [setCtrl_ctrl]) <;> (try dsimp only [setCtrl]) <;> grind

theorem good_request_cached (s : State) (h : Hash) (g : Good s) (hs : s.stopped = false)
    (hc : s.ctrl h = none) (hca : s.cached h = true) : Good (request s h) := by
  have hf := g.future s.nextW (Nat.le_refl _)
  simp only [request, hs, hc, hca, if_true, Bool.false_eq_true, if_false]
  obtain ⟨g1, g2, g3, g4, g5, g6, g7, g8, g9, g10, g11, g12, g13⟩ := g
  constructor <;> (try simp only [setCtrl_ctrl]) <;> (try dsimp only [setCtrl]) <;>
    (try simp only [sendTo_single]) <;> grind

theorem good_request_new (s : State) (h : Hash) (g : Good s) (hs : s.stopped = false)
    (hc : s.ctrl h = none) (hca : s.cached h = false) : Good (request s h) := by
  have hf := g.future s.nextW (Nat.le_refl _)
  simp only [request, hs, hc, hca, Bool.false_eq_true, if_false]
  obtain ⟨g1, g2, g3, g4, g5, g6, g7, g8, g9, g10, g11, g12, g13⟩ := g
  constructor <;> (try simp only [setCtrl_ctrl]) <;> (try dsimp only [setCtrl])
  case answered =>
    intro w hw hor
    rcases hor with hor | hor
    · simp [hs] at hor
    · by_cases e : w = s.nextW
      · have := hor h ⟨s.nextGen, false, [s.nextW]⟩ (by simp)
        simp [e] at this
      · apply g6 w (by omega)
        right
        intro h0 c0 hc0
        have e0 : ¬ h0 = h := by intro e0; subst e0; simp [hc] at hc0
        exact hor h0 c0 (by simp [e0, hc0])
  all_goals grind

theorem good_request (s : State) (h : Hash) (g : Good s) : Good (request s h) := by
  cases hs : s.stopped
  · cases hc : s.ctrl h with
    | none =>
      cases hca : s.cached h
      · exact good_request_new s h g hs hc hca
      · exact good_request_cached s h g hs hc hca
    | some c =>
      cases hcc : c.complete
      · exact good_request_join s h c g hs hc hcc
      · exact good_request_complete s h c g hs hc hcc
  · exact good_request_stopped s h g hs

theorem good_requestMissing (s : State) (g : Good s) : Good (requestMissing s) := by
  have hf := g.future s.nextW (Nat.le_refl _)
  simp only [requestMissing]
  obtain ⟨g1, g2, g3, g4, g5, g6, g7, g8, g9, g10, g11, g12, g13⟩ := g
  constructor <;> dsimp only <;> (try simp only [sendTo_single]) <;> grind

-- ------------------------------------------------------------------ finish

theorem good_finish (s : State) (h : Hash) (g : Good s) : Good (finish s h) := by
  unfold finish
  cases hc : s.ctrl h with
  | none => exact g
  | some c =>
    cases hcc : c.complete
    · obtain ⟨g1, g2, g3, g4, g5, g6, g7, g8, g9, g10, g11, g12, g13⟩ := g
      cases hs : s.stopped
      · simp only [hs, hcc, Bool.false_eq_true, if_false]
        constructor <;> (try simp only [setCtrl_ctrl, setCached_cached]) <;> (try dsimp only [setCtrl, setCached]) <;> grind
      · simp only [hs, hcc, Bool.false_eq_true, if_false, if_true]
        constructor <;> (try simp only [setCtrl_ctrl, setCached_cached]) <;> (try dsimp only [setCtrl, setCached]) <;> grind
    · simp only [hcc, if_true]; exact g

-- ------------------------------------------------------------------ notice

theorem mem_erase_of_mem_ne {a b : Hash × Nat} {l : List (Hash × Nat)} (h : a ∈ l) (hne : a ≠ b) :
    a ∈ l.erase b := (List.mem_erase_of_ne hne).mpr h

/-- dropping a notice keeps the invariant when nothing depends on it -/
theorem good_erase (s : State) (h : Hash) (gn : Nat) (g : Good s)
    (hok : s.stopped = false → ∀ c, s.ctrl h = some c → c.gen = gn → c.complete = true → c.waiters = []) :
    Good { s with notices := s.notices.erase (h, gn) } := by
  obtain ⟨g1, g2, g3, g4, g5, g6, g7, g8, g9, g10, g11, g12, g13⟩ := g
  constructor <;> dsimp only
  case notice_lt => intro h' g' hm; exact g9 h' g' (List.mem_of_mem_erase hm)
  case notice_complete => intro h' g' c hm; exact g10 h' g' c (List.mem_of_mem_erase hm)
  case complete_notice =>
    intro hs h' c hc hcc hw
    have hm := g11 hs h' c hc hcc hw
    apply mem_erase_of_mem_ne hm
    intro e
    injection e with e1 e2
    subst e1
    exact hw (hok hs c hc e2 hcc)
  all_goals assumption

theorem good_notice_apply (s : State) (h : Hash) (c : Ctrl) (g : Good s) (hs : s.stopped = false)
    (hm : (h, c.gen) ∈ s.notices) (hc : s.ctrl h = some c) :
    Good (setCtrl { s with notices := s.notices.erase (h, c.gen),
                           results := sendTo s.results c.waiters ⟨.ok, s.cached h⟩ } h (some { c with waiters := [] })) := by
  have hcc := g.notice_complete h c.gen c hm hc rfl
  have hca := g.complete_cached h c hc hcc
  have hnd := g.w_nodup h c hc
  obtain ⟨g1, g2, g3, g4, g5, g6, g7, g8, g9, g10, g11, g12, g13⟩ := g
  constructor <;> (try simp only [setCtrl_ctrl]) <;> (try dsimp only [setCtrl])
  case w_fresh =>
    intro _ h' c' w hc' hw
    by_cases e : h' = h
    · simp [e] at hc'; subst hc'; simp at hw
    · simp only [e, if_false] at hc'
      have hnot : w ∉ c.waiters := fun hin => e (g4 h' h c' c w hc' hc hw hin)
      rw [sendTo_not_mem _ _ _ _ hnot]
      exact g5 hs h' c' w hc' hw
  case answered =>
    intro w hw hor
    rcases hor with hor | hor
    · simp [hs] at hor
    · by_cases hin : w ∈ c.waiters
      · rw [sendTo_mem _ _ _ _ hnd hin, (g5 hs h c w hc hin).2]; rfl
      · rw [sendTo_not_mem _ _ _ _ hin]
        apply g6 w hw
        right
        intro h0 c0 hc0
        by_cases e0 : h0 = h
        · subst e0; rw [hc] at hc0; injection hc0 with hc0; subst hc0; exact hin
        · exact hor h0 c0 (by simp [e0, hc0])
  case future =>
    intro w hw
    have hnot : w ∉ c.waiters := fun hin => by have := (g5 hs h c w hc hin).1; omega
    rw [sendTo_not_mem _ _ _ _ hnot]; exact g7 w hw
  case notice_lt => intro h' g' hm'; exact g9 h' g' (List.mem_of_mem_erase hm')
  case notice_complete =>
    intro h' g' c' hm' hc' hg
    have hm'' := List.mem_of_mem_erase hm'
    by_cases e : h' = h
    · simp [e] at hc'; subst hc'; exact hcc
    · simp only [e, if_false] at hc'; exact g10 h' g' c' hm'' hc' hg
  case complete_notice =>
    intro _ h' c' hc' hcc' hw
    by_cases e : h' = h
    · simp [e] at hc'; subst hc'; simp at hw
    · simp only [e, if_false] at hc'
      apply mem_erase_of_mem_ne (g11 hs h' c' hc' hcc' hw)
      intro e2; injection e2 with e3 _; exact e e3
  case ok_cached =>
    intro w x hx hok
    by_cases hin : w ∈ c.waiters
    · rw [sendTo_mem _ _ _ _ hnd hin] at hx
      rcases List.mem_append.mp hx with hx | hx
      · exact g13 w x hx hok
      · simp at hx; subst hx; exact hca
    · rw [sendTo_not_mem _ _ _ _ hin] at hx; exact g13 w x hx hok
  all_goals grind

theorem good_notice (s : State) (h : Hash) (gn : Nat) (g : Good s) : Good (notice true s h gn) := by
  unfold notice
  split
  · rename_i hm
    dsimp only
    split
    · rename_i hs
      exact good_erase s h gn g (fun h0 => by simp [hs] at h0)
    · rename_i hs
      have hs' : s.stopped = false := by simpa using hs
      split
      · rename_i c hc
        by_cases hg : c.gen = gn
        · subst hg
          simp only [Bool.true_and, bne_self_eq_false, Bool.false_eq_true, if_false, if_true]
          exact good_notice_apply s h c g hs' hm hc
        · have : (c.gen != gn) = true := by simpa using hg
          simp only [Bool.true_and, this, if_true]
          exact good_erase s h gn g (fun _ c' hc' hg' => by
            have hc2 : s.ctrl h = some c := hc
            rw [hc2] at hc'; injection hc' with hc'; subst hc'; exact absurd hg' hg)
      · rename_i hc
        exact good_erase s h gn g (fun _ c hc' => by
          have hc2 : s.ctrl h = none := hc
          simp [hc2] at hc')
  · exact g

-- ------------------------------------------------------------------ removeTorrent (timeout, rm)

theorem good_remove (s : State) (h : Hash) (c : Ctrl) (r : Res) (ca : Bool) (g : Good s) (hs : s.stopped = false)
    (hc : s.ctrl h = some c) (hr : r = .ok → ca = true) (del : Bool) (hdel : c.complete = false → del = true) :
    Good (setCtrl (let s' := { s with results := sendTo s.results c.waiters ⟨r, ca⟩ }
                   if del then setCached s' h false else s') h none) := by
  have hnd := g.w_nodup h c hc
  obtain ⟨g1, g2, g3, g4, g5, g6, g7, g8, g9, g10, g11, g12, g13⟩ := g
  have key : ∀ (s2 : State), s2.ctrl = s.ctrl → s2.live = s.live → s2.notices = s.notices → s2.stopped = s.stopped →
      s2.nextGen = s.nextGen → s2.nextW = s.nextW → s2.results = sendTo s.results c.waiters ⟨r, ca⟩ →
      (∀ k, k ≠ h → s2.cached k = s.cached k) → Good (setCtrl s2 h none) := by
    intro s2 e1 e2 e3 e4 e5 e6 e7 e8
    constructor <;> (try simp only [setCtrl_ctrl]) <;> (try dsimp only [setCtrl]) <;>
      (try simp only [e1, e2, e3, e4, e5, e6, e7])
    case w_fresh =>
      intro _ h' c' w hc' hw
      by_cases e : h' = h
      · simp [e] at hc'
      · simp only [e, if_false] at hc'
        have hnot : w ∉ c.waiters := fun hin => e (g4 h' h c' c w hc' hc hw hin)
        rw [sendTo_not_mem _ _ _ _ hnot]
        exact g5 hs h' c' w hc' hw
    case answered =>
      intro w hw hor
      rcases hor with hor | hor
      · simp [hs] at hor
      · by_cases hin : w ∈ c.waiters
        · rw [sendTo_mem _ _ _ _ hnd hin, (g5 hs h c w hc hin).2]; rfl
        · rw [sendTo_not_mem _ _ _ _ hin]
          apply g6 w hw
          right
          intro h0 c0 hc0
          by_cases e0 : h0 = h
          · subst e0; rw [hc] at hc0; injection hc0 with hc0; subst hc0; exact hin
          · exact hor h0 c0 (by simp [e0, hc0])
    case future =>
      intro w hw
      have hnot : w ∉ c.waiters := fun hin => by have := (g5 hs h c w hc hin).1; omega
      rw [sendTo_not_mem _ _ _ _ hnot]; exact g7 w hw
    case complete_cached =>
      intro h' c' hc' hcc'
      by_cases e : h' = h
      · simp [e] at hc'
      · simp only [e, if_false] at hc'; rw [e8 h' e]; exact g12 h' c' hc' hcc'
    case ok_cached =>
      intro w x hx hok
      by_cases hin : w ∈ c.waiters
      · rw [sendTo_mem _ _ _ _ hnd hin] at hx
        rcases List.mem_append.mp hx with hx | hx
        · exact g13 w x hx hok
        · simp at hx; subst hx; exact hr hok
      · rw [sendTo_not_mem _ _ _ _ hin] at hx; exact g13 w x hx hok
    all_goals grind
  cases del
  · exact key _ rfl rfl rfl rfl rfl rfl rfl (fun _ _ => rfl)
  · exact key _ rfl rfl rfl rfl rfl rfl rfl (fun k hk => by simp [setCached, hk])

theorem removeTorrent_eq (s : State) (h : Hash) (c : Ctrl) (r : Res) (ca : Bool) :
    removeTorrent true s h c r ca =
      setCtrl (let s' := { s with results := sendTo s.results c.waiters ⟨r, ca⟩ }
               if !c.complete then setCached s' h false else s') h none := by
  unfold removeTorrent
  cases c.complete <;> simp

theorem good_timeout (s : State) (h : Hash) (g : Good s) : Good (timeout true s h) := by
  unfold timeout
  rcases Bool.eq_false_or_eq_true s.stopped with hs | hs
  · simp only [hs, if_true]; exact g
  · simp only [hs, Bool.false_eq_true, if_false]
    cases hc : s.ctrl h with
    | none => exact g
    | some c =>
      dsimp only
      rw [removeTorrent_eq]
      apply good_remove s h c _ _ g hs hc
      · intro hr
        cases hcc : c.complete
        · simp [hcc] at hr
        · simp [g.complete_cached h c hc hcc]
      · intro hcc; simp [hcc]

theorem good_setCached_false (s : State) (h : Hash) (g : Good s) (hc : s.ctrl h = none) :
    Good (setCached s h false) := by
  obtain ⟨g1, g2, g3, g4, g5, g6, g7, g8, g9, g10, g11, g12, g13⟩ := g
  constructor <;> (try simp only [setCached_cached]) <;> (try dsimp only [setCached])
  case complete_cached =>
    intro h' c' hc' hcc'
    have e : ¬ h' = h := by intro e; subst e; simp [hc] at hc'
    simp only [e, if_false]; exact g12 h' c' hc' hcc'
  all_goals assumption

theorem good_rm (s : State) (h : Hash) (g : Good s) : Good (rm true s h) := by
  unfold rm
  rcases Bool.eq_false_or_eq_true s.stopped with hs | hs
  · simp only [hs, if_true]; exact g
  · simp only [hs, Bool.false_eq_true, if_false]
    cases hc : s.ctrl h with
    | none => exact good_setCached_false s h g hc
    | some c =>
      dsimp only
      rw [removeTorrent_eq]
      apply good_setCached_false
      · apply good_remove s h c _ _ g hs hc
        · intro hr; cases hr
        · intro hcc; simp [hcc]
      · simp [setCtrl]

-- ------------------------------------------------------------------ shutdown

/-- the loop of `shutdownEvent.apply` over the controls -/
def stopAll (s : State) (hs : List Hash) (res : Nat → List Sent) : Nat → List Sent :=
  hs.foldl (fun res h => sendTo res (waitersOf s h) ⟨.stopped, s.cached h⟩) res

theorem stopAll_untouched (s : State) (w : Nat) : ∀ (hs : List Hash) (res : Nat → List Sent),
    (∀ h ∈ hs, w ∉ waitersOf s h) → stopAll s hs res w = res w := by
  intro hs
  induction hs with
  | nil => intro res _; rfl
  | cons a as ih =>
    intro res hno
    simp only [stopAll, List.foldl_cons]
    have := ih (sendTo res (waitersOf s a) ⟨.stopped, s.cached a⟩) (fun h hh => hno h (List.mem_cons_of_mem _ hh))
    simp only [stopAll] at this
    rw [this, sendTo_not_mem _ _ _ _ (hno a (by simp))]

theorem stopAll_once (s : State) (w : Nat) (h0 : Hash) : ∀ (hs : List Hash) (res : Nat → List Sent),
    hs.Nodup → h0 ∈ hs → w ∈ waitersOf s h0 → (waitersOf s h0).Nodup →
    (∀ h ∈ hs, h ≠ h0 → w ∉ waitersOf s h) →
    stopAll s hs res w = res w ++ [⟨.stopped, s.cached h0⟩] := by
  intro hs
  induction hs with
  | nil => intro res _ hm; cases hm
  | cons a as ih =>
    intro res hnd hm hw hwn hno
    have hnd' := List.nodup_cons.mp hnd
    simp only [stopAll, List.foldl_cons]
    by_cases e : a = h0
    · subst e
      have := stopAll_untouched s w as (sendTo res (waitersOf s a) ⟨.stopped, s.cached a⟩)
        (fun h hh => hno h (List.mem_cons_of_mem _ hh) (fun e => hnd'.1 (e ▸ hh)))
      simp only [stopAll] at this
      rw [this, sendTo_mem _ _ _ _ hwn hw]
    · have hm' : h0 ∈ as := by
        rcases List.mem_cons.mp hm with hm | hm
        · exact absurd hm.symm e
        · exact hm
      have := ih (sendTo res (waitersOf s a) ⟨.stopped, s.cached a⟩) hnd'.2 hm' hw hwn
        (fun h hh => hno h (List.mem_cons_of_mem _ hh))
      simp only [stopAll] at this
      rw [this, sendTo_not_mem _ _ _ _ (hno a (by simp) e)]

theorem stopAll_mem (s : State) (w : Nat) (x : Sent) : ∀ (hs : List Hash) (res : Nat → List Sent),
    x ∈ stopAll s hs res w → x ∈ res w ∨ x.res = .stopped := by
  intro hs
  induction hs with
  | nil => intro res hx; exact Or.inl hx
  | cons a as ih =>
    intro res hx
    simp only [stopAll, List.foldl_cons] at hx
    rcases ih _ hx with hx | hx
    · simp only [sendTo, List.mem_append, List.mem_replicate] at hx
      rcases hx with hx | hx
      · exact Or.inl hx
      · right; rw [hx.2]
    · exact Or.inr hx

theorem waitersOf_some (s : State) (h : Hash) (c : Ctrl) (hc : s.ctrl h = some c) : waitersOf s h = c.waiters := by
  simp [waitersOf, hc]

theorem mem_waitersOf (s : State) (h : Hash) (w : Nat) (hw : w ∈ waitersOf s h) :
    ∃ c, s.ctrl h = some c ∧ w ∈ c.waiters := by
  unfold waitersOf at hw
  cases hc : s.ctrl h with
  | none => simp [hc] at hw
  | some c => simp [hc] at hw; exact ⟨c, rfl, hw⟩

theorem good_shutdown (s : State) (g : Good s) : Good (shutdown s) := by
  unfold shutdown
  rcases Bool.eq_false_or_eq_true s.stopped with hs | hs
  · simp only [hs, if_true]; exact g
  · simp only [hs, Bool.false_eq_true, if_false]
    have hres : ∀ w, (s.live.foldl (fun res h => sendTo res (waitersOf s h) ⟨.stopped, s.cached h⟩) s.results) w =
        stopAll s s.live s.results w := fun _ => rfl
    obtain ⟨g1, g2, g3, g4, g5, g6, g7, g8, g9, g10, g11, g12, g13⟩ := g
    constructor <;> dsimp only
    case w_fresh => intro h0; cases h0
    case complete_notice => intro h0; cases h0
    case answered =>
      intro w hw _
      rw [hres]
      by_cases hex : ∃ h c, s.ctrl h = some c ∧ w ∈ c.waiters
      · obtain ⟨h0, c0, hc0, hw0⟩ := hex
        rw [stopAll_once s w h0 s.live s.results g1 (g2 h0 c0 hc0) (by rw [waitersOf_some s h0 c0 hc0]; exact hw0)
          (by rw [waitersOf_some s h0 c0 hc0]; exact g3 h0 c0 hc0)
          (fun h _ hne hin => by
            obtain ⟨c, hc, hwc⟩ := mem_waitersOf s h w hin
            exact hne (g4 h h0 c c0 w hc hc0 hwc hw0))]
        rw [(g5 hs h0 c0 w hc0 hw0).2]; rfl
      · rw [stopAll_untouched s w s.live s.results (fun h _ hin => by
            obtain ⟨c, hc, hwc⟩ := mem_waitersOf s h w hin
            exact hex ⟨h, c, hc, hwc⟩)]
        exact g6 w hw (Or.inr (fun h c hc hwc => hex ⟨h, c, hc, hwc⟩))
    case future =>
      intro w hw
      rw [hres, stopAll_untouched s w s.live s.results (fun h _ hin => by
        obtain ⟨c, hc, hwc⟩ := mem_waitersOf s h w hin
        have := (g5 hs h c w hc hwc).1
        omega)]
      exact g7 w hw
    case ok_cached =>
      intro w x hx hok
      rw [hres] at hx
      rcases stopAll_mem s w x s.live s.results hx with hx | hx
      · exact g13 w x hx hok
      · rw [hx] at hok; cases hok
    all_goals assumption

-- ------------------------------------------------------------------ every schedule

theorem good_step (s : State) (a : Action) (g : Good s) : Good (step true s a) := by
  cases a with
  | request h => exact good_request s h g
  | requestMissing => exact good_requestMissing s g
  | finish h => exact good_finish s h g
  | notice h gn => exact good_notice s h gn g
  | timeout h => exact good_timeout s h g
  | rm h => exact good_rm s h g
  | shutdown => exact good_shutdown s g

theorem runFrom_good (sched : List Action) : ∀ s, Good s → Good (runFrom true s sched) := by
  induction sched with
  | nil => intro s g; exact g
  | cons a as ih => intro s g; exact ih _ (good_step s a g)

theorem run_good (sched : List Action) : Good (run true sched) := runFrom_good sched init good_init

/-- request `w` is still registered with some control -/
def Tracked (s : State) (w : Nat) : Prop := ∃ h c, s.ctrl h = some c ∧ w ∈ c.waiters

theorem good_at_most_once (s : State) (g : Good s) (w : Nat) : (s.results w).length ≤ 1 := by
  by_cases hw : w < s.nextW
  · rcases Bool.eq_false_or_eq_true s.stopped with hs | hs
    · rw [g.answered w hw (Or.inl hs)]; exact Nat.le_refl _
    · by_cases ht : Tracked s w
      · obtain ⟨h, c, hc, hwc⟩ := ht
        rw [(g.w_fresh hs h c w hc hwc).2]; simp
      · rw [g.answered w hw (Or.inr (fun h c hc hwc => ht ⟨h, c, hc, hwc⟩))]; exact Nat.le_refl _
  · rw [g.future w (by omega)]; simp

theorem good_never_lost (s : State) (g : Good s) (w : Nat) (hw : w < s.nextW) :
    (s.results w).length = 1 ∨ (s.stopped = false ∧ s.results w = [] ∧ Tracked s w) := by
  rcases Bool.eq_false_or_eq_true s.stopped with hs | hs
  · exact Or.inl (g.answered w hw (Or.inl hs))
  · by_cases ht : Tracked s w
    · obtain ⟨h, c, hc, hwc⟩ := ht
      exact Or.inr ⟨hs, (g.w_fresh hs h c w hc hwc).2, ⟨h, c, hc, hwc⟩⟩
    · exact Or.inl (g.answered w hw (Or.inr (fun h c hc hwc => ht ⟨h, c, hc, hwc⟩)))

-- ------------------------------------------------------------------ progress

theorem nextW_mono (rep : Bool) (s : State) (a : Action) : s.nextW ≤ (step rep s a).nextW := by
  cases a <;> simp only [step]
  case request h =>
    simp only [request]
    split
    · simp
    · split
      · split <;> simp [setCtrl]
      · split <;> simp [setCtrl]
  case requestMissing => simp [requestMissing]
  case finish h =>
    simp only [finish]
    split
    · split
      · simp
      · split <;> simp [setCtrl, setCached]
    · simp
  case notice h g =>
    simp only [notice]
    split
    · split
      · simp
      · split
        · split
          · simp
          · split <;> simp [setCtrl]
        · simp
    · simp
  case timeout h =>
    simp only [timeout, removeTorrent]
    split
    · simp
    · split
      · split <;> split <;> simp [setCtrl, setCached]
      · simp
  case rm h =>
    simp only [rm, removeTorrent]
    split
    · simp
    · split
      · split <;> split <;> simp [setCtrl, setCached]
      · simp [setCached]
  case shutdown =>
    simp only [shutdown]; split <;> simp

/-- after an action that leaves `w` unregistered (or stops the scheduler), `w` has its one result -/
theorem answered_after (s : State) (a : Action) (g : Good s) (w : Nat) (hw : w < s.nextW)
    (h : (step true s a).stopped = true ∨ ¬ Tracked (step true s a) w) :
    ((step true s a).results w).length = 1 := by
  have g' := good_step s a g
  have hw' : w < (step true s a).nextW := Nat.lt_of_lt_of_le hw (nextW_mono true s a)
  rcases h with h | h
  · exact g'.answered w hw' (Or.inl h)
  · exact g'.answered w hw' (Or.inr (fun h0 c hc hwc => h ⟨h0, c, hc, hwc⟩))

theorem timeout_ctrl (s : State) (h : Hash) (c : Ctrl) (hs : s.stopped = false) (hc : s.ctrl h = some c) (k : Hash) :
    (timeout true s h).ctrl k = if k = h then none else s.ctrl k := by
  unfold timeout
  simp only [hs, Bool.false_eq_true, if_false, hc]
  rw [removeTorrent_eq]
  cases c.complete <;> simp [setCtrl, setCached]

theorem rm_ctrl (s : State) (h : Hash) (c : Ctrl) (hs : s.stopped = false) (hc : s.ctrl h = some c) (k : Hash) :
    (rm true s h).ctrl k = if k = h then none else s.ctrl k := by
  unfold rm
  simp only [hs, Bool.false_eq_true, if_false, hc]
  rw [removeTorrent_eq]
  cases c.complete <;> simp [setCtrl, setCached]

theorem notice_ctrl (s : State) (h : Hash) (c : Ctrl) (hs : s.stopped = false) (hc : s.ctrl h = some c)
    (hm : (h, c.gen) ∈ s.notices) (k : Hash) :
    (notice true s h c.gen).ctrl k = if k = h then some { c with waiters := [] } else s.ctrl k := by
  unfold notice
  simp [hm, hs, hc, setCtrl]

theorem untracked_of (s s' : State) (g : Good s) (h : Hash) (c : Ctrl) (w : Nat) (hc : s.ctrl h = some c)
    (hw : w ∈ c.waiters) (hk : ∀ k, k ≠ h → s'.ctrl k = s.ctrl k) (hh : ∀ c', s'.ctrl h = some c' → w ∉ c'.waiters) :
    ¬ Tracked s' w := by
  intro ⟨k, c', hc', hw'⟩
  by_cases e : k = h
  · subst e; exact hh c' hc' hw'
  · rw [hk k e] at hc'; exact e (g.w_disj k h c' c w hc' hc hw' hw)

end KrakenModel.Proof.C17
