import KrakenModel.Model.SchedWaiters
/- Helper lemmas for Spec/C17.lean (core Lean only): the invariant of the repaired scheduler model
   and its preservation by every action. -/
namespace KrakenModel.Proof.C17
open KrakenModel.SchedWaiters

theorem sendTo_not_mem (res : Nat → List Sent) (ws : List Nat) (x : Sent) (w : Nat) (h : w ∉ ws) :
    sendTo res ws x w = res w := by
  simp [sendTo, List.count_eq_zero_of_not_mem h]

theorem sendTo_mem (res : Nat → List Sent) (ws : List Nat) (x : Sent) (w : Nat) (hn : ws.Nodup) (h : w ∈ ws) :
    sendTo res ws x w = res w ++ [x] := by
  simp [sendTo, hn.count, h]

theorem sendTo_nil (res : Nat → List Sent) (x : Sent) : sendTo res [] x = res := by
  funext w; simp [sendTo]

/-- invariant of the repaired model; `ex` is a request that is just being handled (created, its event taken
off the queue, not yet answered or registered): the only one allowed to be neither -/
structure GoodE (ex : Option Nat) (s : State) : Prop where
  live_nodup : s.live.Nodup
  live_mem : ∀ h c, s.ctrl h = some c → h ∈ s.live
  w_nodup : ∀ h c, s.ctrl h = some c → c.waiters.Nodup
  w_disj : ∀ h h' c c' w, s.ctrl h = some c → s.ctrl h' = some c' → w ∈ c.waiters → w ∈ c'.waiters → h = h'
  w_fresh : s.stopped = false → ∀ h c w, s.ctrl h = some c → w ∈ c.waiters → w < s.nextW ∧ s.results w = []
  answered : ∀ w, w < s.nextW → some w ≠ ex → s.snap w = none →
    (s.stopped = true ∨ ∀ h c, s.ctrl h = some c → w ∉ c.waiters) → (s.results w).length = 1
  future : ∀ w, s.nextW ≤ w → s.results w = []
  gen_lt : ∀ h c, s.ctrl h = some c → c.gen < s.nextGen
  notice_lt : ∀ h g, (h, g) ∈ s.notices → g < s.nextGen
  notice_complete : ∀ h g c, (h, g) ∈ s.notices → s.ctrl h = some c → c.gen = g → c.complete = true
  complete_notice : s.stopped = false → ∀ h c, s.ctrl h = some c → c.complete = true → c.waiters ≠ [] →
    (h, c.gen) ∈ s.notices
  complete_cached : s.pure = true → ∀ h c, s.ctrl h = some c → c.complete = true → s.cached h = true
  ok_cached : s.pure = true → ∀ w x, x ∈ s.results w → x.res = .ok → x.cachedThen = true
  snap_fresh : ∀ w x, s.snap w = some x → w < s.nextW ∧ s.results w = [] ∧ ∀ h c, s.ctrl h = some c → w ∉ c.waiters
  snap_future : ∀ w, s.nextW ≤ w → s.snap w = none
  snap_pure : s.pure = true → ∀ w, s.snap w = none
  w_lt : ∀ h c w, s.ctrl h = some c → w ∈ c.waiters → w < s.nextW

abbrev Good (s : State) : Prop := GoodE none s

/-- request `w` is in the hands of the event that handles it -/
structure FreshW (s : State) (w : Nat) : Prop where
  lt : w < s.nextW
  res : s.results w = []
  snap : s.snap w = none
  untracked : ∀ h c, s.ctrl h = some c → w ∉ c.waiters

theorem good_init : Good init := by
  constructor <;> simp [init]

theorem sendTo_single (res : Nat → List Sent) (w : Nat) (x : Sent) (w' : Nat) :
    sendTo res [w] x w' = if w' = w then res w' ++ [x] else res w' := by
  by_cases e : w' = w
  · subst e; simp [sendTo]
  · have : ¬ w = w' := fun h => e h.symm
    simp [sendTo, e, this]

theorem setCtrl_ctrl (s : State) (h : Hash) (oc : Option Ctrl) (k : Hash) :
    (setCtrl s h oc).ctrl k = if k = h then oc else s.ctrl k := rfl

theorem setCached_cached (s : State) (h : Hash) (b : Bool) (k : Hash) :
    (setCached s h b).cached k = if k = h then b else s.cached k := rfl

theorem goodE_setDl {ex : Option Nat} (s : State) (h : Hash) (b : Bool) (g : GoodE ex s) : GoodE ex (setDl s h b) := by
  obtain ⟨g1, g2, g3, g4, g5, g6, g7, g8, g9, g10, g11, g12, g13, g14, g15, g16, g17⟩ := g
  constructor <;> (try dsimp only [setDl]) <;> assumption

theorem freshW_setDl (s : State) (h : Hash) (b : Bool) (w : Nat) (f : FreshW s w) : FreshW (setDl s h b) w := by
  obtain ⟨f1, f2, f3, f4⟩ := f
  exact ⟨f1, f2, f3, f4⟩

-- ------------------------------------------------------------------ handling one request

/-- the request is answered at once -/
theorem good_answer (s : State) (w : Nat) (x : Sent) (g : GoodE (some w) s) (f : FreshW s w)
    (hx : s.pure = true → x.res = .ok → x.cachedThen = true) :
    Good { s with results := sendTo s.results [w] x } := by
  obtain ⟨g1, g2, g3, g4, g5, g6, g7, g8, g9, g10, g11, g12, g13, g14, g15, g16, g17⟩ := g
  obtain ⟨f1, f2, f3, f4⟩ := f
  constructor <;> dsimp only <;> (try simp only [sendTo_single])
  case answered =>
    intro w' hw' _ hsn hor
    by_cases e : w' = w
    · subst e; simp [f2]
    · simp only [e, if_false]; exact g6 w' hw' (by simp; exact e) hsn hor
  case ok_cached =>
    intro hp w' x' hx' hok
    by_cases e : w' = w
    · subst e; simp [f2] at hx'; subst hx'; exact hx hp hok
    · simp only [e, if_false] at hx'; exact g13 hp w' x' hx' hok
  all_goals grind

/-- the request joins the waiters of an incomplete control -/
theorem good_join (s : State) (w : Nat) (h : Hash) (c : Ctrl) (g : GoodE (some w) s) (f : FreshW s w)
    (hs : s.stopped = false) (hc : s.ctrl h = some c) (hcc : c.complete = false) :
    Good (setCtrl s h (some { c with waiters := c.waiters ++ [w] })) := by
  obtain ⟨g1, g2, g3, g4, g5, g6, g7, g8, g9, g10, g11, g12, g13, g14, g15, g16, g17⟩ := g
  obtain ⟨f1, f2, f3, f4⟩ := f
  constructor <;> (try simp only [setCtrl_ctrl]) <;> (try dsimp only [setCtrl])
  case answered =>
    intro w' hw' _ hsn hor
    rcases hor with hor | hor
    · simp [hs] at hor
    · by_cases e : w' = w
      · have := hor h ⟨c.gen, c.complete, c.waiters ++ [w]⟩ (by simp)
        simp [e] at this
      · apply g6 w' hw' (by simp; exact e) hsn
        right
        intro h0 c0 hc0
        by_cases e0 : h0 = h
        · have hc0' : s.ctrl h = some c0 := e0 ▸ hc0
          rw [hc] at hc0'; injection hc0' with e1
          have := hor h ⟨c.gen, c.complete, c.waiters ++ [w]⟩ (by simp)
          simp at this; rw [← e1]; exact this.1
        · exact hor h0 c0 (by simp [e0, hc0])
  all_goals grind

/-- `addTorrent` for the request over a torrent object of completeness `sc` -/
theorem good_addFor (s : State) (w : Nat) (h : Hash) (sc : Bool) (g : GoodE (some w) s) (f : FreshW s w)
    (hs : s.stopped = false) (hc : s.ctrl h = none) (hsc : s.pure = true → sc = true → s.cached h = true) :
    Good (addFor s h w sc) := by
  obtain ⟨g1, g2, g3, g4, g5, g6, g7, g8, g9, g10, g11, g12, g13, g14, g15, g16, g17⟩ := g
  obtain ⟨f1, f2, f3, f4⟩ := f
  unfold addFor
  cases sc
  · simp only [Bool.false_eq_true, if_false]
    constructor <;> (try simp only [setCtrl_ctrl]) <;> (try dsimp only [setCtrl])
    case answered =>
      intro w' hw' _ hsn hor
      rcases hor with hor | hor
      · simp [hs] at hor
      · by_cases e : w' = w
        · have := hor h ⟨s.nextGen, false, [w]⟩ (by simp)
          simp [e] at this
        · apply g6 w' hw' (by simp; exact e) hsn
          right
          intro h0 c0 hc0
          have e0 : ¬ h0 = h := by intro e0; subst e0; simp [hc] at hc0
          exact hor h0 c0 (by simp [e0, hc0])
    all_goals grind
  · simp only [if_true]
    have hca := hsc
    constructor <;> (try simp only [setCtrl_ctrl]) <;> (try dsimp only [setCtrl]) <;> (try simp only [sendTo_single])
    case answered =>
      intro w' hw' _ hsn hor
      by_cases e : w' = w
      · subst e; simp [f2]
      · simp only [e, if_false]
        apply g6 w' hw' (by simp; exact e) hsn
        rcases hor with hor | hor
        · simp [hs] at hor
        · right
          intro h0 c0 hc0
          have e0 : ¬ h0 = h := by intro e0; subst e0; simp [hc] at hc0
          exact hor h0 c0 (by simp [e0, hc0])
    case ok_cached =>
      intro hp w' x' hx' hok
      by_cases e : w' = w
      · subst e; simp [f2] at hx'; subst hx'; exact hca hp rfl
      · simp only [e, if_false] at hx'; exact g13 hp w' x' hx' hok
    all_goals grind

theorem good_requestMissing (s : State) (g : Good s) : Good (requestMissing s) := by
  have hf := g.future s.nextW (Nat.le_refl _)
  simp only [requestMissing]
  obtain ⟨g1, g2, g3, g4, g5, g6, g7, g8, g9, g10, g11, g12, g13, g14, g15, g16, g17⟩ := g
  constructor <;> dsimp only <;> (try simp only [sendTo_single]) <;> grind

-- ------------------------------------------------------------------ finish

theorem good_finish (s : State) (h : Hash) (g : Good s) : Good (finish s h) := by
  unfold finish
  cases hc : s.ctrl h with
  | none => exact g
  | some c =>
    dsimp only
    by_cases hcb : (c.complete || !s.dl h) = true
    · rw [if_pos hcb]; exact g
    · rw [if_neg hcb]
      have hcc : c.complete = false := by
        simp only [Bool.or_eq_true, not_or, Bool.not_eq_true] at hcb; exact hcb.1
      obtain ⟨g1, g2, g3, g4, g5, g6, g7, g8, g9, g10, g11, g12, g13, g14, g15, g16, g17⟩ := g
      rcases Bool.eq_false_or_eq_true s.stopped with hs | hs
      · rw [if_pos hs]
        constructor <;> (try simp only [setCtrl_ctrl, setCached_cached]) <;> (try dsimp only [setCtrl, setCached, setDl]) <;> grind
      · rw [if_neg (by simp [hs])]
        constructor <;> (try simp only [setCtrl_ctrl, setCached_cached]) <;> (try dsimp only [setCtrl, setCached, setDl]) <;> grind

-- ------------------------------------------------------------------ notice

theorem mem_erase_of_mem_ne {a b : Hash × Nat} {l : List (Hash × Nat)} (h : a ∈ l) (hne : a ≠ b) :
    a ∈ l.erase b := (List.mem_erase_of_ne hne).mpr h

/-- dropping a notice keeps the invariant when nothing depends on it -/
theorem good_erase (s : State) (h : Hash) (gn : Nat) (g : Good s)
    (hok : s.stopped = false → ∀ c, s.ctrl h = some c → c.gen = gn → c.complete = true → c.waiters = []) :
    Good { s with notices := s.notices.erase (h, gn) } := by
  obtain ⟨g1, g2, g3, g4, g5, g6, g7, g8, g9, g10, g11, g12, g13, g14, g15, g16, g17⟩ := g
  constructor <;> dsimp only
  case notice_lt => intro h' g' hm; exact g9 h' g' (List.mem_of_mem_erase hm)
  case notice_complete => intro h' g' c hm; exact g10 h' g' c (List.mem_of_mem_erase hm)
  case complete_notice =>
    intro hs h' c hc hcc hw
    have hm := g11 hs h' c hc hcc hw
    apply mem_erase_of_mem_ne hm
    intro e
    injection e with e1 e2
    subst e1
    exact hw (hok hs c hc e2 hcc)
  all_goals assumption

theorem good_notice_apply (s : State) (h : Hash) (c : Ctrl) (g : Good s) (hs : s.stopped = false)
    (hm : (h, c.gen) ∈ s.notices) (hc : s.ctrl h = some c) :
    Good (setCtrl { s with notices := s.notices.erase (h, c.gen),
                           results := sendTo s.results c.waiters ⟨.ok, s.cached h⟩ } h (some { c with waiters := [] })) := by
  have hcc := g.notice_complete h c.gen c hm hc rfl
  have hca := fun hp => g.complete_cached hp h c hc hcc
  have hnd := g.w_nodup h c hc
  obtain ⟨g1, g2, g3, g4, g5, g6, g7, g8, g9, g10, g11, g12, g13, g14, g15, g16, g17⟩ := g
  have hsn : ∀ w, w ∈ c.waiters → s.snap w = none := by
    intro w hw
    cases hx : s.snap w with
    | none => rfl
    | some x => exact absurd hw ((g14 w x hx).2.2 h c hc)
  constructor <;> (try simp only [setCtrl_ctrl]) <;> (try dsimp only [setCtrl])
  case w_fresh =>
    intro _ h' c' w hc' hw
    by_cases e : h' = h
    · simp [e] at hc'; subst hc'; simp at hw
    · simp only [e, if_false] at hc'
      have hnot : w ∉ c.waiters := fun hin => e (g4 h' h c' c w hc' hc hw hin)
      rw [sendTo_not_mem _ _ _ _ hnot]
      exact g5 hs h' c' w hc' hw
  case answered =>
    intro w hw hne hsnw hor
    rcases hor with hor | hor
    · simp [hs] at hor
    · by_cases hin : w ∈ c.waiters
      · rw [sendTo_mem _ _ _ _ hnd hin, (g5 hs h c w hc hin).2]; rfl
      · rw [sendTo_not_mem _ _ _ _ hin]
        apply g6 w hw hne hsnw
        right
        intro h0 c0 hc0
        by_cases e0 : h0 = h
        · subst e0; rw [hc] at hc0; injection hc0 with hc0; subst hc0; exact hin
        · exact hor h0 c0 (by simp [e0, hc0])
  case future =>
    intro w hw
    have hnot : w ∉ c.waiters := fun hin => by have := (g5 hs h c w hc hin).1; omega
    rw [sendTo_not_mem _ _ _ _ hnot]; exact g7 w hw
  case notice_lt => intro h' g' hm'; exact g9 h' g' (List.mem_of_mem_erase hm')
  case notice_complete =>
    intro h' g' c' hm' hc' hg
    have hm'' := List.mem_of_mem_erase hm'
    by_cases e : h' = h
    · simp [e] at hc'; subst hc'; exact hcc
    · simp only [e, if_false] at hc'; exact g10 h' g' c' hm'' hc' hg
  case complete_notice =>
    intro _ h' c' hc' hcc' hw
    by_cases e : h' = h
    · simp [e] at hc'; subst hc'; simp at hw
    · simp only [e, if_false] at hc'
      apply mem_erase_of_mem_ne (g11 hs h' c' hc' hcc' hw)
      intro e2; injection e2 with e3 _; exact e e3
  case ok_cached =>
    intro hp w x hx hok
    by_cases hin : w ∈ c.waiters
    · rw [sendTo_mem _ _ _ _ hnd hin] at hx
      rcases List.mem_append.mp hx with hx | hx
      · exact g13 hp w x hx hok
      · simp at hx; subst hx; exact hca hp
    · rw [sendTo_not_mem _ _ _ _ hin] at hx; exact g13 hp w x hx hok
  case snap_fresh =>
    intro w x hx
    obtain ⟨q1, q2, q3⟩ := g14 w x hx
    have hnot : w ∉ c.waiters := q3 h c hc
    refine ⟨q1, by rw [sendTo_not_mem _ _ _ _ hnot]; exact q2, ?_⟩
    intro h0 c0 hc0
    by_cases e0 : h0 = h
    · simp [e0] at hc0; subst hc0; simp
    · simp only [e0, if_false] at hc0; exact q3 h0 c0 hc0
  all_goals grind

theorem good_notice (s : State) (h : Hash) (gn : Nat) (g : Good s) : Good (notice true s h gn) := by
  unfold notice
  split
  · rename_i hm
    dsimp only
    split
    · rename_i hs
      exact good_erase s h gn g (fun h0 => by simp [hs] at h0)
    · rename_i hs
      have hs' : s.stopped = false := by simpa using hs
      split
      · rename_i c hc
        by_cases hg : c.gen = gn
        · subst hg
          simp only [Bool.true_and, bne_self_eq_false, Bool.false_eq_true, if_false, if_true]
          exact good_notice_apply s h c g hs' hm hc
        · have : (c.gen != gn) = true := by simpa using hg
          simp only [Bool.true_and, this, if_true]
          exact good_erase s h gn g (fun _ c' hc' hg' => by
            have hc2 : s.ctrl h = some c := hc
            rw [hc2] at hc'; injection hc' with hc'; subst hc'; exact absurd hg' hg)
      · rename_i hc
        exact good_erase s h gn g (fun _ c hc' => by
          have hc2 : s.ctrl h = none := hc
          simp [hc2] at hc')
  · exact g

-- ------------------------------------------------------------------ removeTorrent (timeout, rm)

theorem good_remove (ex : Option Nat) (s : State) (h : Hash) (c : Ctrl) (r : Res) (ca : Bool) (g : GoodE ex s)
    (hs : s.stopped = false)
    (hc : s.ctrl h = some c) (hr : s.pure = true → r = .ok → ca = true) (del : Bool) (hdel : c.complete = false → del = true) :
    GoodE ex (setCtrl (let s' := { s with results := sendTo s.results c.waiters ⟨r, ca⟩ }
                       if del then setDl (setCached s' h false) h false else s') h none) := by
  have hnd := g.w_nodup h c hc
  obtain ⟨g1, g2, g3, g4, g5, g6, g7, g8, g9, g10, g11, g12, g13, g14, g15, g16, g17⟩ := g
  have key : ∀ (s2 : State), s2.ctrl = s.ctrl → s2.live = s.live → s2.notices = s.notices → s2.stopped = s.stopped →
      s2.nextGen = s.nextGen → s2.nextW = s.nextW → s2.results = sendTo s.results c.waiters ⟨r, ca⟩ →
      s2.snap = s.snap → s2.pure = s.pure →
      (∀ k, k ≠ h → s2.cached k = s.cached k) → GoodE ex (setCtrl s2 h none) := by
    intro s2 e1 e2 e3 e4 e5 e6 e7 e9 e10 e8
    constructor <;> (try simp only [setCtrl_ctrl]) <;> (try dsimp only [setCtrl]) <;>
      (try simp only [e1, e2, e3, e4, e5, e6, e7, e9, e10])
    case w_fresh =>
      intro _ h' c' w hc' hw
      by_cases e : h' = h
      · simp [e] at hc'
      · simp only [e, if_false] at hc'
        have hnot : w ∉ c.waiters := fun hin => e (g4 h' h c' c w hc' hc hw hin)
        rw [sendTo_not_mem _ _ _ _ hnot]
        exact g5 hs h' c' w hc' hw
    case answered =>
      intro w hw hne hsn hor
      rcases hor with hor | hor
      · simp [hs] at hor
      · by_cases hin : w ∈ c.waiters
        · rw [sendTo_mem _ _ _ _ hnd hin, (g5 hs h c w hc hin).2]; rfl
        · rw [sendTo_not_mem _ _ _ _ hin]
          apply g6 w hw hne hsn
          right
          intro h0 c0 hc0
          by_cases e0 : h0 = h
          · subst e0; rw [hc] at hc0; injection hc0 with hc0; subst hc0; exact hin
          · exact hor h0 c0 (by simp [e0, hc0])
    case future =>
      intro w hw
      have hnot : w ∉ c.waiters := fun hin => by have := (g5 hs h c w hc hin).1; omega
      rw [sendTo_not_mem _ _ _ _ hnot]; exact g7 w hw
    case complete_cached =>
      intro hp h' c' hc' hcc'
      by_cases e : h' = h
      · simp [e] at hc'
      · simp only [e, if_false] at hc'; rw [e8 h' e]; exact g12 hp h' c' hc' hcc'
    case ok_cached =>
      intro hp w x hx hok
      by_cases hin : w ∈ c.waiters
      · rw [sendTo_mem _ _ _ _ hnd hin] at hx
        rcases List.mem_append.mp hx with hx | hx
        · exact g13 hp w x hx hok
        · simp at hx; subst hx; exact hr hp hok
      · rw [sendTo_not_mem _ _ _ _ hin] at hx; exact g13 hp w x hx hok
    case snap_fresh =>
      intro w x hx
      obtain ⟨q1, q2, q3⟩ := g14 w x hx
      have hnot : w ∉ c.waiters := q3 h c hc
      refine ⟨q1, by rw [sendTo_not_mem _ _ _ _ hnot]; exact q2, ?_⟩
      intro h0 c0 hc0
      by_cases e0 : h0 = h
      · simp [e0] at hc0
      · simp only [e0, if_false] at hc0; exact q3 h0 c0 hc0
    all_goals grind
  cases del
  · exact key _ rfl rfl rfl rfl rfl rfl rfl rfl rfl (fun _ _ => rfl)
  · exact key _ rfl rfl rfl rfl rfl rfl rfl rfl rfl (fun k hk => by simp [setCached, setDl, hk])

theorem removeTorrent_eq (s : State) (h : Hash) (c : Ctrl) (r : Res) (ca : Bool) :
    removeTorrent true s h c r ca =
      setCtrl (let s' := { s with results := sendTo s.results c.waiters ⟨r, ca⟩ }
               if !c.complete then setDl (setCached s' h false) h false else s') h none := by
  unfold removeTorrent
  cases c.complete <;> simp

theorem good_timeout (s : State) (h : Hash) (g : Good s) : Good (timeout true s h) := by
  unfold timeout
  rcases Bool.eq_false_or_eq_true s.stopped with hs | hs
  · simp only [hs, if_true]; exact g
  · simp only [hs, Bool.false_eq_true, if_false]
    cases hc : s.ctrl h with
    | none => exact g
    | some c =>
      dsimp only
      rw [removeTorrent_eq]
      apply good_remove none s h c _ _ g hs hc
      · intro hp hr
        cases hcc : c.complete
        · simp [hcc] at hr
        · simp [g.complete_cached hp h c hc hcc]
      · intro hcc; simp [hcc]

theorem good_setCached_false (s : State) (h : Hash) (g : Good s) (hc : s.ctrl h = none) :
    Good (setCached s h false) := by
  obtain ⟨g1, g2, g3, g4, g5, g6, g7, g8, g9, g10, g11, g12, g13, g14, g15, g16, g17⟩ := g
  constructor <;> (try simp only [setCached_cached]) <;> (try dsimp only [setCached])
  case complete_cached =>
    intro hp h' c' hc' hcc'
    have e : ¬ h' = h := by intro e; subst e; simp [hc] at hc'
    simp only [e, if_false]; exact g12 hp h' c' hc' hcc'
  all_goals assumption

theorem good_rm (s : State) (h : Hash) (g : Good s) : Good (rm true s h) := by
  unfold rm
  rcases Bool.eq_false_or_eq_true s.stopped with hs | hs
  · simp only [hs, if_true]; exact g
  · simp only [hs, Bool.false_eq_true, if_false]
    cases hc : s.ctrl h with
    | none => exact goodE_setDl _ h false (good_setCached_false s h g hc)
    | some c =>
      dsimp only
      rw [removeTorrent_eq]
      apply goodE_setDl
      apply good_setCached_false
      · apply good_remove none s h c _ _ g hs hc
        · intro _ hr; cases hr
        · intro hcc; simp [hcc]
      · simp [setCtrl]

-- ------------------------------------------------------------------ shutdown

/-- the loop of `shutdownEvent.apply` over the controls -/
def stopAll (s : State) (hs : List Hash) (res : Nat → List Sent) : Nat → List Sent :=
  hs.foldl (fun res h => sendTo res (waitersOf s h) ⟨.stopped, s.cached h⟩) res

theorem stopAll_untouched (s : State) (w : Nat) : ∀ (hs : List Hash) (res : Nat → List Sent),
    (∀ h ∈ hs, w ∉ waitersOf s h) → stopAll s hs res w = res w := by
  intro hs
  induction hs with
  | nil => intro res _; rfl
  | cons a as ih =>
    intro res hno
    simp only [stopAll, List.foldl_cons]
    have := ih (sendTo res (waitersOf s a) ⟨.stopped, s.cached a⟩) (fun h hh => hno h (List.mem_cons_of_mem _ hh))
    simp only [stopAll] at this
    rw [this, sendTo_not_mem _ _ _ _ (hno a (by simp))]

theorem stopAll_once (s : State) (w : Nat) (h0 : Hash) : ∀ (hs : List Hash) (res : Nat → List Sent),
    hs.Nodup → h0 ∈ hs → w ∈ waitersOf s h0 → (waitersOf s h0).Nodup →
    (∀ h ∈ hs, h ≠ h0 → w ∉ waitersOf s h) →
    stopAll s hs res w = res w ++ [⟨.stopped, s.cached h0⟩] := by
  intro hs
  induction hs with
  | nil => intro res _ hm; cases hm
  | cons a as ih =>
    intro res hnd hm hw hwn hno
    have hnd' := List.nodup_cons.mp hnd
    simp only [stopAll, List.foldl_cons]
    by_cases e : a = h0
    · subst e
      have := stopAll_untouched s w as (sendTo res (waitersOf s a) ⟨.stopped, s.cached a⟩)
        (fun h hh => hno h (List.mem_cons_of_mem _ hh) (fun e => hnd'.1 (e ▸ hh)))
      simp only [stopAll] at this
      rw [this, sendTo_mem _ _ _ _ hwn hw]
    · have hm' : h0 ∈ as := by
        rcases List.mem_cons.mp hm with hm | hm
        · exact absurd hm.symm e
        · exact hm
      have := ih (sendTo res (waitersOf s a) ⟨.stopped, s.cached a⟩) hnd'.2 hm' hw hwn
        (fun h hh => hno h (List.mem_cons_of_mem _ hh))
      simp only [stopAll] at this
      rw [this, sendTo_not_mem _ _ _ _ (hno a (by simp) e)]

theorem stopAll_mem (s : State) (w : Nat) (x : Sent) : ∀ (hs : List Hash) (res : Nat → List Sent),
    x ∈ stopAll s hs res w → x ∈ res w ∨ x.res = .stopped := by
  intro hs
  induction hs with
  | nil => intro res hx; exact Or.inl hx
  | cons a as ih =>
    intro res hx
    simp only [stopAll, List.foldl_cons] at hx
    rcases ih _ hx with hx | hx
    · simp only [sendTo, List.mem_append, List.mem_replicate] at hx
      rcases hx with hx | hx
      · exact Or.inl hx
      · right; rw [hx.2]
    · exact Or.inr hx

theorem waitersOf_some (s : State) (h : Hash) (c : Ctrl) (hc : s.ctrl h = some c) : waitersOf s h = c.waiters := by
  simp [waitersOf, hc]

theorem mem_waitersOf (s : State) (h : Hash) (w : Nat) (hw : w ∈ waitersOf s h) :
    ∃ c, s.ctrl h = some c ∧ w ∈ c.waiters := by
  unfold waitersOf at hw
  cases hc : s.ctrl h with
  | none => simp [hc] at hw
  | some c => simp [hc] at hw; exact ⟨c, rfl, hw⟩

theorem good_shutdown (s : State) (g : Good s) : Good (shutdown s) := by
  unfold shutdown
  rcases Bool.eq_false_or_eq_true s.stopped with hs | hs
  · simp only [hs, if_true]; exact g
  · simp only [hs, Bool.false_eq_true, if_false]
    have hres : ∀ w, (s.live.foldl (fun res h => sendTo res (waitersOf s h) ⟨.stopped, s.cached h⟩) s.results) w =
        stopAll s s.live s.results w := fun _ => rfl
    obtain ⟨g1, g2, g3, g4, g5, g6, g7, g8, g9, g10, g11, g12, g13, g14, g15, g16, g17⟩ := g
    constructor <;> dsimp only
    case w_fresh => intro h0; cases h0
    case complete_notice => intro h0; cases h0
    case answered =>
      intro w hw hne hsn _
      rw [hres]
      by_cases hex : ∃ h c, s.ctrl h = some c ∧ w ∈ c.waiters
      · obtain ⟨h0, c0, hc0, hw0⟩ := hex
        rw [stopAll_once s w h0 s.live s.results g1 (g2 h0 c0 hc0) (by rw [waitersOf_some s h0 c0 hc0]; exact hw0)
          (by rw [waitersOf_some s h0 c0 hc0]; exact g3 h0 c0 hc0)
          (fun h _ hne hin => by
            obtain ⟨c, hc, hwc⟩ := mem_waitersOf s h w hin
            exact hne (g4 h h0 c c0 w hc hc0 hwc hw0))]
        rw [(g5 hs h0 c0 w hc0 hw0).2]; rfl
      · rw [stopAll_untouched s w s.live s.results (fun h _ hin => by
            obtain ⟨c, hc, hwc⟩ := mem_waitersOf s h w hin
            exact hex ⟨h, c, hc, hwc⟩)]
        exact g6 w hw hne hsn (Or.inr (fun h c hc hwc => hex ⟨h, c, hc, hwc⟩))
    case future =>
      intro w hw
      rw [hres, stopAll_untouched s w s.live s.results (fun h _ hin => by
        obtain ⟨c, hc, hwc⟩ := mem_waitersOf s h w hin
        have := (g5 hs h c w hc hwc).1
        omega)]
      exact g7 w hw
    case ok_cached =>
      intro hp w x hx hok
      rw [hres] at hx
      rcases stopAll_mem s w x s.live s.results hx with hx | hx
      · exact g13 hp w x hx hok
      · rw [hx] at hok; cases hok
    case snap_fresh =>
      intro w x hx
      obtain ⟨q1, q2, q3⟩ := g14 w x hx
      refine ⟨q1, ?_, q3⟩
      rw [hres, stopAll_untouched s w s.live s.results (fun h _ hin => by
        obtain ⟨c, hc, hwc⟩ := mem_waitersOf s h w hin
        exact q3 h c hc hwc)]
      exact q2
    all_goals assumption

-- ------------------------------------------------------------------ requests

/-- after the request number was handed out, the new request is the one in flight -/
theorem goodE_bump (s : State) (g : Good s) :
    GoodE (some s.nextW) { s with nextW := s.nextW + 1 } ∧ FreshW { s with nextW := s.nextW + 1 } s.nextW := by
  obtain ⟨g1, g2, g3, g4, g5, g6, g7, g8, g9, g10, g11, g12, g13, g14, g15, g16, g17⟩ := g
  refine ⟨?_, ⟨by dsimp only; omega, g7 _ (Nat.le_refl _), g15 _ (Nat.le_refl _), ?_⟩⟩
  · constructor <;> dsimp only
    case answered =>
      intro w hw hne hsn hor
      have : w ≠ s.nextW := fun e => hne (by rw [e])
      exact g6 w (by omega) (by simp) hsn hor
    all_goals grind
  · intro h c hc hw
    have := g17 h c _ hc hw; omega

theorem good_handle (s : State) (h : Hash) (w : Nat) (sc : Bool) (gb : GoodE (some w) s) (fb : FreshW s w)
    (hsc : s.pure = true → sc = s.cached h) : Good (handleReq true s h w sc) := by
  unfold handleReq
  rcases Bool.eq_false_or_eq_true s.stopped with hs | hs
  · rw [if_pos hs]
    exact good_answer s w ⟨.stopped, s.cached h⟩ gb fb (fun _ hr => by cases hr)
  · rw [if_neg (by simp [hs])]
    cases hc : s.ctrl h with
    | none =>
      dsimp only
      exact good_addFor _ _ h _ gb fb hs hc (fun hp hx => by rw [← hsc hp]; exact hx)
    | some c =>
      dsimp only
      by_cases hev : (c.complete && !sc) = true
      · rw [if_pos hev]
        -- the eviction branch: only in schedules that are not pure
        have hnp : s.pure = false := by
          rcases Bool.eq_false_or_eq_true s.pure with hp | hp
          · simp only [Bool.and_eq_true, Bool.not_eq_true'] at hev
            have := gb.complete_cached hp h c hc hev.1
            rw [hsc hp, this] at hev; simp at hev
          · exact hp
        rw [removeTorrent_eq]
        have gr := good_remove (some w) s h c .removed (s.cached h) gb hs hc
          (fun _ hr => by cases hr) (!c.complete) (fun hcc => by simp [hcc])
        refine good_addFor _ _ h sc gr ?_ (by cases c.complete <;> simp [setCtrl, setCached, setDl, hs]) (by simp [setCtrl]) (fun hp _ => ?_)
        · obtain ⟨f1, f2, f3, f4⟩ := fb
          refine ⟨?_, ?_, ?_, ?_⟩
          · cases c.complete <;> simpa [setCtrl, setCached, setDl] using f1
          · have hnot : w ∉ c.waiters := f4 h c hc
            cases c.complete <;> simp [setCtrl, setCached, setDl, sendTo_not_mem _ _ _ _ hnot] <;> exact f2
          · cases c.complete <;> simpa [setCtrl, setCached, setDl] using f3
          · intro h0 c0 hc0
            have : (if h0 = h then none else s.ctrl h0) = some c0 := by
              cases hcc : c.complete <;> simpa [setCtrl, setCached, setDl, hcc] using hc0
            by_cases e0 : h0 = h
            · simp [e0] at this
            · simp only [e0, if_false] at this; exact f4 h0 c0 this
        · have : s.pure = true := by cases hcc : c.complete <;> simpa [setCtrl, setCached, setDl, hcc] using hp
          rw [hnp] at this; cases this
      · rw [if_neg hev]
        rcases Bool.eq_false_or_eq_true c.complete with hcc | hcc
        · rw [if_pos hcc]
          exact good_answer s w ⟨.ok, s.cached h⟩ gb fb (fun hp _ => gb.complete_cached hp h c hc hcc)
        · rw [if_neg (by simp [hcc])]
          exact good_join _ _ h c gb fb hs hc hcc

theorem good_request (s : State) (h : Hash) (g : Good s) : Good (request true s h) := by
  obtain ⟨gb, fb⟩ := goodE_bump s g
  exact good_handle _ h _ _ (goodE_setDl _ h _ gb) (freshW_setDl _ h _ _ fb) (fun _ => rfl)

theorem good_create (s : State) (h : Hash) (g : Good s) : Good { create s h with pure := false } := by
  obtain ⟨gb0, fb0⟩ := goodE_bump s g
  have gb := goodE_setDl _ h (s.dl h || !s.cached h) gb0
  have fb := freshW_setDl _ h (s.dl h || !s.cached h) _ fb0
  unfold create
  dsimp only
  split
  · have := good_answer _ _ ⟨.stopped, s.cached h⟩ gb fb (fun _ hr => by cases hr)
    obtain ⟨g1, g2, g3, g4, g5, g6, g7, g8, g9, g10, g11, g12, g13, g14, g15, g16, g17⟩ := this
    constructor <;> (try assumption)
    · intro hp; cases hp
    · intro hp; cases hp
    · intro hp; cases hp
  · obtain ⟨g1, g2, g3, g4, g5, g6, g7, g8, g9, g10, g11, g12, g13, g14, g15, g16, g17⟩ := gb
    obtain ⟨f1, f2, f3, f4⟩ := fb
    constructor <;> dsimp only
    case answered =>
      intro w hw _ hsn hor
      by_cases e : w = s.nextW
      · simp [e] at hsn
      · simp only [e, if_false] at hsn
        exact g6 w hw (by simp; exact e) hsn hor
    case complete_cached => intro hp; cases hp
    case ok_cached => intro hp; cases hp
    case snap_pure => intro hp; cases hp
    case snap_fresh =>
      intro w x hx
      by_cases e : w = s.nextW
      · subst e; exact ⟨f1, f2, f4⟩
      · simp only [e, if_false] at hx; exact g14 w x hx
    case snap_future =>
      intro w hw
      have e : ¬ w = s.nextW := by omega
      simp only [e, if_false]; exact g15 w (by omega)
    all_goals assumption

theorem good_applyReq (s : State) (w : Nat) (g : Good s) : Good (applyReq true s w) := by
  unfold applyReq
  cases hsn : s.snap w with
  | none => exact g
  | some x =>
    obtain ⟨h, sc⟩ := x
    dsimp only
    have hnp : s.pure = false := by
      rcases Bool.eq_false_or_eq_true s.pure with hp | hp
      · have := g.snap_pure hp w; rw [hsn] at this; cases this
      · exact hp
    obtain ⟨q1, q2, q3⟩ := g.snap_fresh w (h, sc) hsn
    -- taking the event off the queue: the request is now in the hands of the event
    have gb : GoodE (some w) { s with snap := fun k => if k = w then none else s.snap k } := by
      obtain ⟨g1, g2, g3, g4, g5, g6, g7, g8, g9, g10, g11, g12, g13, g14, g15, g16, g17⟩ := g
      constructor <;> dsimp only
      case answered =>
        intro w' hw' hne hsn' hor
        have e : ¬ w' = w := fun e => hne (by rw [e])
        simp only [e, if_false] at hsn'
        exact g6 w' hw' (by simp) hsn' hor
      case snap_fresh =>
        intro w' x hx
        by_cases e : w' = w
        · simp [e] at hx
        · simp only [e, if_false] at hx; exact g14 w' x hx
      case snap_future =>
        intro w' hw'
        by_cases e : w' = w
        · simp [e]
        · simp only [e, if_false]; exact g15 w' hw'
      case snap_pure => intro hp; rw [hnp] at hp; cases hp
      all_goals assumption
    have fb : FreshW { s with snap := fun k => if k = w then none else s.snap k } w :=
      ⟨q1, q2, by simp, q3⟩
    exact good_handle _ h w sc gb fb (fun hp => by rw [hnp] at hp; cases hp)

theorem good_incoming (s : State) (h : Hash) (g : Good s) : Good (incoming s h) := by
  unfold incoming
  rcases Bool.eq_false_or_eq_true s.stopped with hs | hs
  · rw [if_pos hs]; exact g
  · rw [if_neg (by simp [hs])]
    cases hc : s.ctrl h with
    | some c => exact goodE_setDl s h _ g
    | none =>
      dsimp only
      have hcc := g.complete_cached
      obtain ⟨g1, g2, g3, g4, g5, g6, g7, g8, g9, g10, g11, g12, g13, g14, g15, g16, g17⟩ := g
      cases hca : s.cached h
      · simp only [Bool.false_eq_true, if_false]
        constructor <;> (try simp only [setCtrl_ctrl]) <;> (try dsimp only [setCtrl])
        case answered =>
          intro w hw hne hsn hor
          apply g6 w hw hne hsn
          rcases hor with hor | hor
          · exact Or.inl hor
          · right
            intro h0 c0 hc0
            have e0 : ¬ h0 = h := by intro e0; subst e0; simp [hc] at hc0
            exact hor h0 c0 (by simp [e0, hc0])
        all_goals grind
      · simp only [if_true]
        constructor <;> (try simp only [setCtrl_ctrl]) <;> (try dsimp only [setCtrl])
        case answered =>
          intro w hw hne hsn hor
          apply g6 w hw hne hsn
          rcases hor with hor | hor
          · exact Or.inl hor
          · right
            intro h0 c0 hc0
            have e0 : ¬ h0 = h := by intro e0; subst e0; simp [hc] at hc0
            exact hor h0 c0 (by simp [e0, hc0])
        all_goals grind

theorem good_evict (s : State) (h : Hash) (g : Good s) : Good (evict s h) := by
  unfold evict
  split
  · obtain ⟨g1, g2, g3, g4, g5, g6, g7, g8, g9, g10, g11, g12, g13, g14, g15, g16, g17⟩ := g
    constructor <;> (try dsimp only [setCached]) <;> (try assumption)
    · intro hp; cases hp
    · intro hp; cases hp
    · intro hp; cases hp
  · exact g

-- ------------------------------------------------------------------ every schedule

theorem good_step (s : State) (a : Action) (g : Good s) : Good (step true s a) := by
  cases a with
  | request h => exact good_request s h g
  | create h => exact good_create s h g
  | apply w => exact good_applyReq s w g
  | incoming h => exact good_incoming s h g
  | evict h => exact good_evict s h g
  | requestMissing => exact good_requestMissing s g
  | finish h => exact good_finish s h g
  | notice h gn => exact good_notice s h gn g
  | timeout h => exact good_timeout s h g
  | rm h => exact good_rm s h g
  | shutdown => exact good_shutdown s g

theorem runFrom_good (sched : List Action) : ∀ s, Good s → Good (runFrom true s sched) := by
  induction sched with
  | nil => intro s g; exact g
  | cons a as ih => intro s g; exact ih _ (good_step s a g)

theorem run_good (sched : List Action) : Good (run true sched) := runFrom_good sched init good_init

/-- request `w` is still registered with some control -/
def Tracked (s : State) (w : Nat) : Prop := ∃ h c, s.ctrl h = some c ∧ w ∈ c.waiters

theorem good_at_most_once (s : State) (g : Good s) (w : Nat) : (s.results w).length ≤ 1 := by
  by_cases hw : w < s.nextW
  · cases hsn : s.snap w with
    | some x => rw [(g.snap_fresh w x hsn).2.1]; simp
    | none =>
      rcases Bool.eq_false_or_eq_true s.stopped with hs | hs
      · rw [g.answered w hw (by simp) hsn (Or.inl hs)]; exact Nat.le_refl _
      · by_cases ht : Tracked s w
        · obtain ⟨h, c, hc, hwc⟩ := ht
          rw [(g.w_fresh hs h c w hc hwc).2]; simp
        · rw [g.answered w hw (by simp) hsn (Or.inr (fun h c hc hwc => ht ⟨h, c, hc, hwc⟩))]; exact Nat.le_refl _
  · rw [g.future w (by omega)]; simp

/-- a request has its one result, or it is still registered with a live control of a running scheduler, or
its event has not been applied yet -/
theorem good_never_lost (s : State) (g : Good s) (w : Nat) (hw : w < s.nextW) :
    (s.results w).length = 1 ∨
    (s.results w = [] ∧ ((s.stopped = false ∧ Tracked s w) ∨ (s.snap w).isSome = true)) := by
  cases hsn : s.snap w with
  | some x => exact Or.inr ⟨(g.snap_fresh w x hsn).2.1, Or.inr rfl⟩
  | none =>
    rcases Bool.eq_false_or_eq_true s.stopped with hs | hs
    · exact Or.inl (g.answered w hw (by simp) hsn (Or.inl hs))
    · by_cases ht : Tracked s w
      · obtain ⟨h, c, hc, hwc⟩ := ht
        exact Or.inr ⟨(g.w_fresh hs h c w hc hwc).2, Or.inl ⟨hs, ⟨h, c, hc, hwc⟩⟩⟩
      · exact Or.inl (g.answered w hw (by simp) hsn (Or.inr (fun h c hc hwc => ht ⟨h, c, hc, hwc⟩)))

-- ------------------------------------------------------------------ progress

theorem addFor_nextW (s : State) (h : Hash) (w : Nat) (sc : Bool) : (addFor s h w sc).nextW = s.nextW := by
  unfold addFor; cases sc <;> simp [setCtrl]

theorem removeTorrent_nextW (rep : Bool) (s : State) (h : Hash) (c : Ctrl) (r : Res) (ca : Bool) :
    (removeTorrent rep s h c r ca).nextW = s.nextW := by
  unfold removeTorrent; split <;> split <;> simp [setCtrl, setCached, setDl]

theorem handleReq_nextW (rep : Bool) (s : State) (h : Hash) (w : Nat) (sc : Bool) :
    (handleReq rep s h w sc).nextW = s.nextW := by
  unfold handleReq
  split
  · rfl
  · split
    · split
      · rw [addFor_nextW, removeTorrent_nextW]
      · split <;> simp [setCtrl]
    · rw [addFor_nextW]

theorem nextW_mono (rep : Bool) (s : State) (a : Action) : s.nextW ≤ (step rep s a).nextW := by
  cases a <;> simp only [step]
  case request h => simp [request, handleReq_nextW, setDl]
  case create h => simp only [create]; split <;> simp [setDl]
  case apply w =>
    simp only [applyReq]; split
    · exact Nat.le_refl _
    · rw [handleReq_nextW]; exact Nat.le_refl _
  case incoming h =>
    simp only [incoming]
    split
    · exact Nat.le_refl _
    · split
      · simp [setDl]
      · split <;> simp [setCtrl]
  case evict h => simp only [evict]; split <;> simp [setCached]
  case requestMissing => simp [requestMissing]
  case finish h =>
    simp only [finish]
    split
    · split
      · simp
      · split <;> simp [setCtrl, setCached, setDl]
    · simp
  case notice h g =>
    simp only [notice]
    split
    · split
      · simp
      · split
        · split
          · simp
          · split <;> simp [setCtrl]
        · simp
    · simp
  case timeout h =>
    simp only [timeout]
    split
    · simp
    · split
      · rw [removeTorrent_nextW]; exact Nat.le_refl _
      · simp
  case rm h =>
    simp only [rm]
    split
    · simp
    · split
      · simp [setCached, setDl, removeTorrent_nextW]
      · simp [setCached, setDl]
  case shutdown =>
    simp only [shutdown]; split <;> simp

/-- after an action that leaves `w` unregistered (or stops the scheduler), `w` has its one result -/
theorem answered_after (s : State) (a : Action) (g : Good s) (w : Nat) (hw : w < s.nextW)
    (hsn : (step true s a).snap w = none)
    (h : (step true s a).stopped = true ∨ ¬ Tracked (step true s a) w) :
    ((step true s a).results w).length = 1 := by
  have g' := good_step s a g
  have hw' : w < (step true s a).nextW := Nat.lt_of_lt_of_le hw (nextW_mono true s a)
  rcases h with h | h
  · exact g'.answered w hw' (by simp) hsn (Or.inl h)
  · exact g'.answered w hw' (by simp) hsn (Or.inr (fun h0 c hc hwc => h ⟨h0, c, hc, hwc⟩))

/-- a registered waiter has no pending event of its own -/
theorem tracked_no_snap (s : State) (g : Good s) (h : Hash) (c : Ctrl) (w : Nat) (hc : s.ctrl h = some c)
    (hw : w ∈ c.waiters) : s.snap w = none := by
  cases hx : s.snap w with
  | none => rfl
  | some x => exact absurd hw ((g.snap_fresh w x hx).2.2 h c hc)

theorem timeout_ctrl (s : State) (h : Hash) (c : Ctrl) (hs : s.stopped = false) (hc : s.ctrl h = some c) (k : Hash) :
    (timeout true s h).ctrl k = if k = h then none else s.ctrl k := by
  unfold timeout
  simp only [hs, Bool.false_eq_true, if_false, hc]
  rw [removeTorrent_eq]
  cases c.complete <;> simp [setCtrl, setCached, setDl]

theorem rm_ctrl (s : State) (h : Hash) (c : Ctrl) (hs : s.stopped = false) (hc : s.ctrl h = some c) (k : Hash) :
    (rm true s h).ctrl k = if k = h then none else s.ctrl k := by
  unfold rm
  simp only [hs, Bool.false_eq_true, if_false, hc]
  rw [removeTorrent_eq]
  cases c.complete <;> simp [setCtrl, setCached, setDl]

theorem notice_ctrl (s : State) (h : Hash) (c : Ctrl) (hs : s.stopped = false) (hc : s.ctrl h = some c)
    (hm : (h, c.gen) ∈ s.notices) (k : Hash) :
    (notice true s h c.gen).ctrl k = if k = h then some { c with waiters := [] } else s.ctrl k := by
  unfold notice
  simp [hm, hs, hc, setCtrl]

theorem untracked_of (s s' : State) (g : Good s) (h : Hash) (c : Ctrl) (w : Nat) (hc : s.ctrl h = some c)
    (hw : w ∈ c.waiters) (hk : ∀ k, k ≠ h → s'.ctrl k = s.ctrl k) (hh : ∀ c', s'.ctrl h = some c' → w ∉ c'.waiters) :
    ¬ Tracked s' w := by
  intro ⟨k, c', hc', hw'⟩
  by_cases e : k = h
  · subst e; exact hh c' hc' hw'
  · rw [hk k e] at hc'; exact e (g.w_disj k h c' c w hc' hc hw' hw)

end KrakenModel.Proof.C17
