import KrakenModel.Util.KV
import KrakenModel.Model.FileCleanup
/-
  Helper lemmas for Spec/C10 parts (2) and (3d): what a cleanup pass leaves on disk when the file map
  does not evict (capacity 0) and every file has a last-access sidecar.
-/
namespace KrakenModel.Proof.C10.Pass
open KrakenModel KrakenModel.FileCleanup

/-! ### association lists with distinct keys -/

theorem get_of_mem {m : List (Name × File)} (hn : (KV.keys m).Nodup) {k : Name} {v : File} (h : (k, v) ∈ m) :
    KV.get m k = some v := by
  induction m with
  | nil => cases h
  | cons p m ih =>
    obtain ⟨k', v'⟩ := p
    have hn' : k' ∉ KV.keys m ∧ (KV.keys m).Nodup := by simpa [KV.keys] using hn
    simp only [KV.get]
    rcases List.mem_cons.mp h with e | hm
    · cases e; simp
    · have : k ≠ k' := by
        intro e; subst e
        exact hn'.1 (List.mem_map.mpr ⟨(k, v), hm, rfl⟩)
      simp [this, ih hn'.2 hm]

theorem keys_del_nodup {m : List (Name × File)} (h : (KV.keys m).Nodup) (k : Name) : (KV.keys (KV.del m k)).Nodup := by
  unfold KV.keys KV.del at *
  exact List.Nodup.sublist (List.Sublist.map _ List.filter_sublist) h

/-- delete the file under `m` if it satisfies `c` -/
def delIf (files : List (Name × File)) (m : Name) (c : File → Bool) : List (Name × File) :=
  match KV.get files m with
  | some f => if c f then KV.del files m else files
  | none => files

theorem mem_delIf {files : List (Name × File)} (hn : (KV.keys files).Nodup) (m : Name) (c : File → Bool) (n : Name) (f : File) :
    (n, f) ∈ delIf files m c ↔ (n, f) ∈ files ∧ ¬ (n = m ∧ c f = true) := by
  unfold delIf
  cases hg : KV.get files m with
  | none =>
    simp only
    constructor
    · intro h
      refine ⟨h, ?_⟩
      rintro ⟨e, _⟩
      subst e
      rw [get_of_mem hn h] at hg; cases hg
    · exact fun h => h.1
  | some f0 =>
    simp only
    have hm0 := KV.get_some_mem hg
    split
    · rename_i hc
      rw [KV.mem_del]
      constructor
      · rintro ⟨h, hne⟩; exact ⟨h, fun ⟨e, _⟩ => hne e⟩
      · rintro ⟨h, hnot⟩
        refine ⟨h, ?_⟩
        intro e
        have e' : n = m := e
        subst e'
        have : f = f0 := by
          have := get_of_mem hn h
          rw [hg] at this; cases this; rfl
        subst this
        exact hnot ⟨rfl, hc⟩
    · rename_i hc
      constructor
      · intro h
        refine ⟨h, ?_⟩
        rintro ⟨e, hcf⟩
        subst e
        have : f = f0 := by
          have := get_of_mem hn h
          rw [hg] at this; cases this; rfl
        subst this
        exact hc hcf
      · exact fun h => h.1

theorem delIf_sub (files : List (Name × File)) (m : Name) (c : File → Bool) : ∀ p ∈ delIf files m c, p ∈ files := by
  intro p hp
  unfold delIf at hp
  split at hp
  · split at hp
    · exact (KV.mem_del.mp hp).1
    · exact hp
  · exact hp

theorem delIf_nodup {files : List (Name × File)} (hn : (KV.keys files).Nodup) (m : Name) (c : File → Bool) :
    (KV.keys (delIf files m c)).Nodup := by
  unfold delIf
  split
  · split
    · exact keys_del_nodup hn m
    · exact hn
  · exact hn

theorem mem_foldl_delIf (c : File → Bool) (L : List Name) :
    ∀ (files : List (Name × File)), (KV.keys files).Nodup → ∀ n f,
      ((n, f) ∈ L.foldl (fun fs m => delIf fs m c) files ↔ (n, f) ∈ files ∧ ¬ (n ∈ L ∧ c f = true)) := by
  induction L with
  | nil => intro files _ n f; simp
  | cons m L ih =>
    intro files hn n f
    simp only [List.foldl_cons]
    rw [ih _ (delIf_nodup hn m c), mem_delIf hn]
    simp only [List.mem_cons]
    constructor
    · rintro ⟨⟨h, h1⟩, h2⟩
      refine ⟨h, ?_⟩
      rintro ⟨e | e, hc⟩
      · exact h1 ⟨e, hc⟩
      · exact h2 ⟨e, hc⟩
    · rintro ⟨h, h1⟩
      exact ⟨⟨h, fun ⟨e, hc⟩ => h1 ⟨Or.inl e, hc⟩⟩, fun ⟨e, hc⟩ => h1 ⟨Or.inr e, hc⟩⟩

/-! ### a store that does not evict -/

/-- the map only names files that exist, each once -/
def MapOK (s : State) : Prop := (KV.keys s.map).Nodup ∧ ∀ k ∈ KV.keys s.map, k ∈ KV.keys s.files

/-- no LRU eviction can happen: eviction is switched off, or every file fits the map -/
def Fits (s : State) : Prop := s.cap = 0 ∨ (MapOK s ∧ (KV.keys s.files).length ≤ s.cap)

structure Calm (s : State) : Prop where
  fits : Fits s
  nodup : (KV.keys s.files).Nodup
  lat : ∀ p ∈ s.files, p.2.lat.isSome

theorem evict_fits {s : State} (h : s.cap = 0 ∨ (MapOK s ∧ (KV.keys s.files).length ≤ s.cap)) : evictIfNeeded s = s := by
  unfold evictIfNeeded
  rcases h with h | ⟨hm, hl⟩
  · simp [h]
  · have : s.map.length ≤ s.cap := by
      have := List.Nodup.length_le_of_subset hm.1 (fun k hk => hm.2 k hk)
      rw [KV.keys_length] at this
      omega
    simp [this]

/-- same disk, clock and capacity (only the map may differ) -/
def SameDisk (s s' : State) : Prop := s'.files = s.files ∧ s'.cap = s.cap ∧ s'.now = s.now

theorem moveFront_keys (m : List (Name × Int)) (n : Name) :
    ((KV.keys m).Nodup → (KV.keys (moveFront m n)).Nodup) ∧ (∀ k, k ∈ KV.keys (moveFront m n) → k ∈ KV.keys m) := by
  unfold moveFront
  cases hg : KV.get m n with
  | none => exact ⟨id, fun _ h => h⟩
  | some t =>
    simp only
    refine ⟨fun hn => ?_, fun k hk => ?_⟩
    · simp only [KV.keys, List.map_cons, List.nodup_cons]
      exact ⟨fun h => (KV.mem_keys_del.mp h).2 rfl, List.Nodup.sublist (KV.keys_del_sublist m n) hn⟩
    · simp only [KV.keys, List.map_cons, List.mem_cons] at hk
      rcases hk with e | hk
      · subst e; exact KV.get_some_key hg
      · exact (KV.mem_keys_del.mp hk).1

theorem storeEntry_calm {s : State} (hc : Calm s) (n : Name) (hnm : KV.has s.map n = false) :
    SameDisk s (storeEntry s n) ∧ Calm (storeEntry s n) ∧ (KV.has s.files n = true → KV.has (storeEntry s n).map n = true) := by
  unfold storeEntry
  cases hg : KV.get s.files n with
  | none => exact ⟨⟨rfl, rfl, rfl⟩, hc, by simp [KV.has, hg]⟩
  | some f =>
    have hl := hc.lat _ (KV.get_some_mem hg)
    cases hlat : f.lat with
    | none => simp [hlat] at hl
    | some l =>
      simp only [hlat]
      have hnk : n ∉ KV.keys s.map := by
        apply KV.get_none_not_key
        cases h : KV.get s.map n with
        | none => rfl
        | some _ => simp [KV.has, h] at hnm
      have hfits : Fits { s with map := (n, l) :: s.map } := by
        rcases hc.fits with h | ⟨hm, hlen⟩
        · exact Or.inl h
        · refine Or.inr ⟨⟨?_, ?_⟩, hlen⟩
          · simp only [KV.keys, List.map_cons, List.nodup_cons]; exact ⟨hnk, hm.1⟩
          · intro k hk
            simp only [KV.keys, List.map_cons, List.mem_cons] at hk
            rcases hk with e | hk
            · subst e; exact KV.get_some_key hg
            · exact hm.2 k hk
      rw [evict_fits (s := { s with map := (n, l) :: s.map }) hfits]
      exact ⟨⟨rfl, rfl, rfl⟩, ⟨hfits, hc.nodup, hc.lat⟩, fun _ => by simp [KV.has, KV.get]⟩

theorem reload_calm {s : State} (hc : Calm s) (n : Name) :
    SameDisk s (reload s n).1 ∧ Calm (reload s n).1 ∧ ((reload s n).2 = true → KV.has (reload s n).1.map n = true) ∧
    ((reload s n).2 = false → KV.has s.files n = false) := by
  unfold reload
  split
  · rename_i h; exact ⟨⟨rfl, rfl, rfl⟩, hc, fun _ => h, by simp⟩
  · rename_i hnm
    have hnm' : KV.has s.map n = false := by simpa using hnm
    split
    · rename_i h
      have := storeEntry_calm hc n hnm'
      exact ⟨this.1, this.2.1, fun _ => this.2.2 h, by simp⟩
    · rename_i h; exact ⟨⟨rfl, rfl, rfl⟩, hc, by simp, fun _ => by simpa using h⟩

theorem calm_map {s : State} (hc : Calm s) (m : List (Name × Int))
    (hn : (KV.keys s.map).Nodup → (KV.keys m).Nodup) (hs : ∀ k, k ∈ KV.keys m → k ∈ KV.keys s.map) :
    Calm { s with map := m } := by
  refine ⟨?_, hc.nodup, hc.lat⟩
  rcases hc.fits with h | ⟨hm, hlen⟩
  · exact Or.inl h
  · exact Or.inr ⟨⟨hn hm.1, fun k hk => hm.2 k (hs k hk)⟩, hlen⟩

theorem peek_same {s : State} (hc : Calm s) (n : Name) :
    SameDisk s (peek s n).1 ∧ Calm (peek s n).1 ∧ ((peek s n).2 = .ok ∨ KV.has s.files n = false) := by
  unfold peek
  have hr := reload_calm hc n
  cases hrel : reload s n with
  | mk s1 b =>
    rw [hrel] at hr
    cases b with
    | false => exact ⟨hr.1, hr.2.1, Or.inr (hr.2.2.2 rfl)⟩
    | true =>
      simp only
      have := hr.2.2.1 rfl
      simp only [this, if_true]
      have hk := moveFront_keys s1.map n
      exact ⟨⟨hr.1.1, hr.1.2.1, hr.1.2.2⟩, calm_map hr.2.1 _ hk.1 hk.2, by simp⟩

theorem delIf_length (files : List (Name × File)) (m : Name) (c : File → Bool) : (delIf files m c).length ≤ files.length := by
  unfold delIf
  split
  · split
    · exact List.length_filter_le _ _
    · exact Nat.le_refl _
  · exact Nat.le_refl _

theorem calm_del {s : State} (hc : Calm s) (n : Name) :
    Calm { s with files := KV.del s.files n, map := KV.del s.map n } := by
  refine ⟨?_, keys_del_nodup hc.nodup n, fun p hp => hc.lat p (KV.mem_del.mp hp).1⟩
  rcases hc.fits with h | ⟨hmo, hl⟩
  · exact Or.inl h
  · refine Or.inr ⟨⟨List.Nodup.sublist (KV.keys_del_sublist _ _) hmo.1, ?_⟩, ?_⟩
    · intro k hk
      have hk' := KV.mem_keys_del.mp hk
      exact KV.mem_keys_del.mpr ⟨hmo.2 k hk'.1, hk'.2⟩
    · exact Nat.le_trans (KV.keys_del_sublist s.files n).length_le hl

theorem delete_calm {s : State} (hc : Calm s) (n : Name) :
    (delete s n).1.files = delIf s.files n (fun f => !isPersisted f) ∧ (delete s n).1.cap = s.cap ∧
    (delete s n).1.now = s.now ∧ Calm (delete s n).1 := by
  unfold delete
  have hr := reload_calm hc n
  cases hrel : reload s n with
  | mk s1 b =>
    rw [hrel] at hr
    have hc1 : Calm s1 := hr.2.1
    have hmapdel : Calm { s1 with map := KV.del s1.map n } :=
      calm_map hc1 _ (fun h => List.Nodup.sublist (KV.keys_del_sublist _ _) h) (fun k hk => (KV.mem_keys_del.mp hk).1)
    cases b with
    | false =>
      have hno := hr.2.2.2 rfl
      have hg : KV.get s.files n = none := by
        cases h : KV.get s.files n with
        | none => rfl
        | some _ => simp [KV.has, h] at hno
      simp only [delIf, hg]
      exact ⟨hr.1.1, hr.1.2.1, hr.1.2.2, hc1⟩
    | true =>
      have hm := hr.2.2.1 rfl
      simp only [hm, Bool.not_true, Bool.false_eq_true, if_false]
      unfold entryDelete delIf
      rw [hr.1.1]
      cases hg : KV.get s.files n with
      | none => exact ⟨hr.1.1, hr.1.2.1, hr.1.2.2, hmapdel⟩
      | some f =>
        simp only
        by_cases hp : isPersisted f = true
        · simp only [hp, if_true, Bool.not_true, Bool.false_eq_true, if_false]
          exact ⟨hr.1.1, hr.1.2.1, hr.1.2.2, hmapdel⟩
        · have hp' : isPersisted f = false := by simpa using hp
          simp only [hp', Bool.false_eq_true, if_false, Bool.not_false, if_true]
          refine ⟨trivial, hr.1.2.1, hr.1.2.2, ?_⟩
          have := calm_del hc1 n
          rw [show s1.files = s.files from hr.1.1] at this
          exact this

/-! ### the normal TTL pass -/

def idleB (now tti ttl : Int) (f : File) : Bool := ready now f tti ttl && !isPersisted f

theorem ttlVisit_calm (tti ttl : Int) (used : Nat) (s : State) (sc : Nat) (m : Name) (hc : Calm s) :
    (ttlVisit tti ttl none used (s, sc) m).1.files = delIf s.files m (idleB s.now tti ttl) ∧
    (ttlVisit tti ttl none used (s, sc) m).1.cap = s.cap ∧ (ttlVisit tti ttl none used (s, sc) m).1.now = s.now ∧
    Calm (ttlVisit tti ttl none used (s, sc) m).1 := by
  unfold ttlVisit
  simp only
  have hp := peek_same hc m
  cases hpk : peek s m with
  | mk s1 r =>
    rw [hpk] at hp
    have hc1 : Calm s1 := hp.2.1
    have hnone : KV.has s.files m = false → KV.get s.files m = none := by
      intro h
      cases h' : KV.get s.files m with
      | none => rfl
      | some _ => simp [KV.has, h'] at h
    cases r with
    | ok =>
      simp only
      rw [hp.1.1]
      cases hg : KV.get s.files m with
      | none => simp only [delIf, hg]; exact ⟨hp.1.1, hp.1.2.1, hp.1.2.2, hc1⟩
      | some f =>
        simp only
        have hp2 := peek_same hc1 m
        have hc2 : Calm (peek s1 m).1 := hp2.2.1
        have hnow : (peek s1 m).1.now = s.now := hp2.1.2.2.trans hp.1.2.2
        have hfiles : (peek s1 m).1.files = s.files := hp2.1.1.trans hp.1.1
        rw [hnow]
        simp only [Bool.not_false, Bool.and_true]
        cases hr : ready s.now f tti ttl with
        | false =>
          simp only [Bool.false_eq_true, if_false]
          refine ⟨?_, hp2.1.2.1.trans hp.1.2.1, hnow, hc2⟩
          simp [delIf, hg, idleB, hr, hfiles]
        | true =>
          simp only [if_true]
          have hd := delete_calm hc2 m
          refine ⟨?_, hd.2.1.trans (hp2.1.2.1.trans hp.1.2.1), hd.2.2.1.trans hnow, hd.2.2.2⟩
          rw [hd.1, hfiles]
          simp [delIf, hg, idleB, hr]
    | notExist =>
      rcases hp.2.2 with h | h
      · cases h
      · simp only [delIf, hnone h]; exact ⟨hp.1.1, hp.1.2.1, hp.1.2.2, hc1⟩
    | exist =>
      rcases hp.2.2 with h | h
      · cases h
      · simp only [delIf, hnone h]; exact ⟨hp.1.1, hp.1.2.1, hp.1.2.2, hc1⟩
    | persisted =>
      rcases hp.2.2 with h | h
      · cases h
      · simp only [delIf, hnone h]; exact ⟨hp.1.1, hp.1.2.1, hp.1.2.2, hc1⟩

theorem foldl_ttl (tti ttl : Int) (used : Nat) (now : Int) (L : List Name) :
    ∀ (acc : State × Nat), Calm acc.1 → acc.1.now = now →
      (L.foldl (ttlVisit tti ttl none used) acc).1.files = L.foldl (fun fs m => delIf fs m (idleB now tti ttl)) acc.1.files := by
  induction L with
  | nil => intro acc _ _; rfl
  | cons m L ih =>
    intro acc hc hnow
    obtain ⟨s, sc⟩ := acc
    simp only [List.foldl_cons]
    have hv := ttlVisit_calm tti ttl used s sc m hc
    have hnow' : s.now = now := hnow
    rw [ih _ hv.2.2.2 (hv.2.2.1.trans hnow'), hv.1, hnow']

theorem mem_insName (x : Name) (l : List Name) (y : Name) : y ∈ insName x l ↔ y = x ∨ y ∈ l := by
  induction l with
  | nil => simp [insName]
  | cons z zs ih =>
    simp only [insName]
    split
    · simp
    · simp only [List.mem_cons, ih]
      constructor
      · rintro (h | h | h)
        · exact Or.inr (Or.inl h)
        · exact Or.inl h
        · exact Or.inr (Or.inr h)
      · rintro (h | h | h)
        · exact Or.inr (Or.inl h)
        · exact Or.inl h
        · exact Or.inr (Or.inr h)

theorem mem_listNames (s : State) (n : Name) : n ∈ listNames s ↔ n ∈ KV.keys s.files := by
  unfold listNames
  generalize KV.keys s.files = ks
  induction ks with
  | nil => simp
  | cons k ks ih => simp only [List.foldr_cons, mem_insName, ih, List.mem_cons]

theorem cleanupTTL_mem (s : State) (tti ttl : Int) (u : Usage) (hcap : Fits s)
    (hnd : (KV.keys s.files).Nodup) (hlat : ∀ p ∈ s.files, p.2.lat.isSome) (n : Name) (f : File) :
    (n, f) ∈ (cleanupTTL s tti ttl 0 u).1.files ↔
      (n, f) ∈ s.files ∧ ¬ (ready s.now f tti ttl = true ∧ isPersisted f = false) := by
  unfold cleanupTTL
  simp only [if_true]
  rw [foldl_ttl tti ttl u.used s.now (listNames s) (s, 0) ⟨hcap, hnd, hlat⟩ rfl]
  rw [mem_foldl_delIf _ _ _ hnd]
  constructor
  · rintro ⟨h, hk⟩
    refine ⟨h, ?_⟩
    rintro ⟨hr, hp⟩
    refine hk ⟨(mem_listNames s n).mpr (List.mem_map.mpr ⟨(n, f), h, rfl⟩), ?_⟩
    simp [idleB, hr, hp]
  · rintro ⟨h, hk⟩
    refine ⟨h, ?_⟩
    rintro ⟨_, hc⟩
    simp only [idleB, Bool.and_eq_true, Bool.not_eq_true'] at hc
    exact hk hc

/-! ### the deletion loop of the policy pass -/

/-- bytes the loop credits for deleting the files of `l` from `s` (a file counts when `DeleteFile`
returns nil) -/
def freed : State → List FInfo → Int
  | _, [] => 0
  | s, f :: rest => (if (delete s f.name).2 = .ok then (f.size : Int) else 0) + freed (delete s f.name).1 rest

theorem policyDelete_prefix (l : List FInfo) : ∀ (s : State) (remain : Int), Fits s →
    (KV.keys s.files).Nodup → (∀ p ∈ s.files, p.2.lat.isSome) →
    ∃ k, k ≤ l.length ∧
      (∀ n f, (n, f) ∈ (policyDelete s remain l).files ↔
        (n, f) ∈ s.files ∧ ¬ (n ∈ (l.take k).map (·.name) ∧ isPersisted f = false)) ∧
      (k = l.length ∨ remain - freed s (l.take k) ≤ 0) := by
  induction l with
  | nil =>
    intro s remain _ _ _
    exact ⟨0, Nat.le_refl _, by intro n f; simp [policyDelete], Or.inl rfl⟩
  | cons x rest ih =>
    intro s remain hcap hnd hlat
    by_cases hr : remain ≤ 0
    · refine ⟨0, Nat.zero_le _, ?_, Or.inr (by simpa [freed] using hr)⟩
      intro n f; simp [policyDelete, hr]
    · have hc : Calm s := ⟨hcap, hnd, hlat⟩
      have hd := delete_calm hc x.name
      have hc1 : Calm (delete s x.name).1 := hd.2.2.2
      have hpd : policyDelete s remain (x :: rest) =
          policyDelete (delete s x.name).1 (remain - (if (delete s x.name).2 = .ok then (x.size : Int) else 0)) rest := by
        simp only [policyDelete, hr, if_false]
        cases hdel : delete s x.name with
        | mk s1 res => cases res <;> simp
      obtain ⟨k, hk, hmem, hbud⟩ := ih (delete s x.name).1 (remain - (if (delete s x.name).2 = .ok then (x.size : Int) else 0))
        hc1.fits hc1.nodup hc1.lat
      refine ⟨k + 1, by simpa using hk, ?_, ?_⟩
      · intro n f
        rw [hpd, hmem, hd.1, mem_delIf hnd]
        simp only [List.take_succ_cons, List.map_cons, List.mem_cons]
        constructor
        · rintro ⟨⟨h, h1⟩, h2⟩
          refine ⟨h, ?_⟩
          rintro ⟨e | e, hp⟩
          · exact h1 ⟨e, by simp [hp]⟩
          · exact h2 ⟨e, hp⟩
        · rintro ⟨h, h1⟩
          refine ⟨⟨h, ?_⟩, fun ⟨e, hp⟩ => h1 ⟨Or.inr e, hp⟩⟩
          rintro ⟨e, hp⟩
          exact h1 ⟨Or.inl e, by simpa using hp⟩
      · rcases hbud with e | hb
        · left; simp [e]
        · right
          simp only [List.take_succ_cons, freed]
          omega

end KrakenModel.Proof.C10.Pass
