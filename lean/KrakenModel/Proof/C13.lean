import KrakenModel.Util.KV
import KrakenModel.Model.MemCache
import KrakenModel.Model.CAStoreMem
import KrakenModel.Model.LRUCache
/-
  Helper lemmas for Spec/C13: accounting of the BlobMemoryCache (alone, with ghost reservations, and
  composed with the write-through caller of lib/store) and the LRUCache invariants.
-/
namespace KrakenModel.Proof.C13
open KrakenModel

/-! ### association lists with distinct keys -/

section KVlemmas
variable {ν : Type}

theorem get_none_not_key {m : List (String × ν)} {k : String} (h : KV.get m k = none) : ∀ p ∈ m, p.1 ≠ k := by
  induction m with
  | nil => intro p hp; cases hp
  | cons q m ih =>
    obtain ⟨k', v⟩ := q
    simp only [KV.get] at h
    split at h
    · cases h
    · rename_i hne
      intro p hp
      rcases List.mem_cons.mp hp with e | hp
      · subst e; exact fun e => hne e.symm
      · exact ih h p hp

theorem del_of_not_key {m : List (String × ν)} {k : String} (h : ∀ p ∈ m, p.1 ≠ k) : KV.del m k = m := by
  unfold KV.del
  exact List.filter_eq_self.mpr (fun p hp => by simpa using h p hp)

theorem keys_del_nodup {m : List (String × ν)} (h : (KV.keys m).Nodup) (k : String) : (KV.keys (KV.del m k)).Nodup := by
  unfold KV.keys KV.del at *
  exact List.Nodup.sublist (List.Sublist.map _ List.filter_sublist) h

theorem sum_del {m : List (String × ν)} (f : ν → Nat) (hn : (KV.keys m).Nodup) {k : String} {v : ν}
    (hg : KV.get m k = some v) :
    ((KV.del m k).map (fun p => f p.2)).sum + f v = (m.map (fun p => f p.2)).sum := by
  induction m with
  | nil => simp [KV.get] at hg
  | cons q m ih =>
    obtain ⟨k', v'⟩ := q
    have hn' : k' ∉ KV.keys m ∧ (KV.keys m).Nodup := by simpa [KV.keys] using hn
    simp only [KV.get] at hg
    split at hg
    · rename_i hk
      cases hg
      subst hk
      have hrest : ∀ p ∈ m, p.1 ≠ k := by
        intro p hp e
        exact hn'.1 (by unfold KV.keys; exact List.mem_map.mpr ⟨p, hp, e⟩)
      have hdel : KV.del ((k, v) :: m) k = m := by
        show List.filter (fun p => decide (p.1 ≠ k)) ((k, v) :: m) = m
        rw [List.filter_cons_of_neg (by simp)]
        exact del_of_not_key hrest
      rw [hdel]
      simp [Nat.add_comm]
    · rename_i hk
      have hd : KV.del ((k', v') :: m) k = (k', v') :: KV.del m k := by
        show List.filter (fun p => decide (p.1 ≠ k)) ((k', v') :: m) = (k', v') :: List.filter (fun p => decide (p.1 ≠ k)) m
        rw [List.filter_cons_of_pos (by simpa using fun e : k' = k => hk e.symm)]
      rw [hd]
      have := ih hn'.2 hg
      simp only [List.map_cons, List.sum_cons]
      omega

end KVlemmas

/-! ### reservation arithmetic -/

theorem tryReserve_ok {m : MemCache.State} {size : Nat} (h : (MemCache.tryReserve m size).2 = true) :
    (MemCache.tryReserve m size).1 = { m with total := m.total + size } ∧ m.total + size ≤ m.maxSize := by
  by_cases hc : size > m.maxSize ∨ m.total > m.maxSize - size
  · simp [MemCache.tryReserve, hc] at h
  · simp only [MemCache.tryReserve, hc, if_false]
    exact ⟨trivial, by omega⟩

theorem release_le {m : MemCache.State} {size : Nat} (h : size ≤ m.total) :
    MemCache.release m size = { m with total := m.total - size } := by
  have : ¬ size > m.total := by omega
  simp [MemCache.release, this]

/-- releasing right after a successful reservation restores the account exactly -/
theorem release_reserve {m : MemCache.State} {size : Nat} (h : (MemCache.tryReserve m size).2 = true) :
    MemCache.release (MemCache.tryReserve m size).1 size = m := by
  rw [(tryReserve_ok h).1, release_le (by simp)]
  simp

theorem add_ok {m : MemCache.State} {n : String} {e : MemCache.Entry} (h : (MemCache.add m n e).2 = true) :
    KV.get m.entries n = none ∧ (MemCache.add m n e).1 = { m with entries := (n, e) :: m.entries } := by
  cases hg : KV.get m.entries n with
  | some x => simp [MemCache.add, hg] at h
  | none => simp [MemCache.add, hg]

/-! ### BlobMemoryCache with ghost reservations -/

namespace Mem
open KrakenModel.MemCache

/-- the cache together with the reservations its callers currently hold -/
structure G where
  m : MemCache.State
  out : List Nat := []

inductive MOp where
  | reserve (size : Nat)
  | release (size : Nat)
  | add (name : Name) (e : Entry) (res : Nat)
  | remove (name : Name)
  | removeBatch (names : List Name)
  | readExpired (now ttl : Nat)

def step (g : G) : MOp → G
  | .reserve size =>
    if (tryReserve g.m size).2 then { m := (tryReserve g.m size).1, out := size :: g.out } else g
  | .release size => { m := release g.m size, out := g.out.erase size }
  | .add n e res =>
    if (add g.m n e).2 then { m := (add g.m n e).1, out := g.out.erase res } else g
  | .remove n => { g with m := remove g.m n }
  | .removeBatch ns => { g with m := removeBatch g.m ns }
  | .readExpired _ _ => g

/-- the callers' discipline: release only a reservation you hold; an added entry uses a held
reservation of exactly its length -/
def pre (g : G) : MOp → Prop
  | .release size => size ∈ g.out
  | .add _ e res => res ∈ g.out ∧ e.size = res
  | _ => True

instance (g : G) (o : MOp) : Decidable (pre g o) := by
  cases o <;> simp only [pre] <;> exact inferInstance

structure GoodAcct (g : G) : Prop where
  bal : g.m.total = stored g.m + g.out.sum
  nodup : (KV.keys g.m.entries).Nodup

theorem sum_erase {l : List Nat} {x : Nat} (h : x ∈ l) : (l.erase x).sum + x = l.sum := by
  induction l with
  | nil => cases h
  | cons y l ih =>
    by_cases e : y = x
    · subst e; simp [Nat.add_comm]
    · have hx : x ∈ l := by
        rcases List.mem_cons.mp h with h | h
        · exact absurd h.symm e
        · exact h
      have := ih hx
      rw [List.erase_cons_tail (by simpa using e)]
      simp only [List.sum_cons]
      omega

theorem remove_good {m : MemCache.State} {o : Nat} (hb : m.total = stored m + o) (hn : (KV.keys m.entries).Nodup) (n : Name) :
    (remove m n).total = stored (remove m n) + o ∧ (KV.keys (remove m n).entries).Nodup := by
  unfold remove
  cases hg : KV.get m.entries n with
  | none => exact ⟨hb, hn⟩
  | some e =>
    have hs : ((KV.del m.entries n).map (fun p => p.2.size)).sum + e.size = (m.entries.map (fun p => p.2.size)).sum :=
      sum_del (fun e : Entry => e.size) hn hg
    simp only [stored] at hb ⊢
    refine ⟨?_, keys_del_nodup hn n⟩
    simp only [decrement]
    split <;> omega

theorem removeBatch_good (ns : List Name) : ∀ {m : MemCache.State} {o : Nat}, m.total = stored m + o → (KV.keys m.entries).Nodup →
    (removeBatch m ns).total = stored (removeBatch m ns) + o ∧ (KV.keys (removeBatch m ns).entries).Nodup := by
  induction ns with
  | nil => intro m o hb hn; exact ⟨hb, hn⟩
  | cons n ns ih =>
    intro m o hb hn
    have := remove_good hb hn n
    exact ih this.1 this.2

theorem step_good (g : G) (o : MOp) (hg : GoodAcct g) (hp : pre g o) : GoodAcct (step g o) := by
  obtain ⟨hb, hn⟩ := hg
  cases o with
  | reserve size =>
    simp only [step]
    split
    · rename_i hok
      obtain ⟨heq, _⟩ := tryReserve_ok hok
      refine ⟨?_, by rw [heq]; exact hn⟩
      rw [heq]
      simp only [stored, List.sum_cons] at hb ⊢
      omega
    · exact ⟨hb, hn⟩
  | release size =>
    have hm : size ∈ g.out := hp
    have hs := sum_erase hm
    have hle : size ≤ g.m.total := by omega
    simp only [step, release_le hle]
    refine ⟨?_, hn⟩
    simp only [stored] at hb ⊢
    omega
  | add n e res =>
    obtain ⟨hm, hsz⟩ := hp
    simp only [step]
    split
    · rename_i hok
      obtain ⟨hnone, heq⟩ := add_ok hok
      have hs := sum_erase hm
      rw [heq]
      refine ⟨?_, ?_⟩
      · simp only [stored, List.map_cons, List.sum_cons] at hb ⊢
        omega
      · have : n ∉ KV.keys g.m.entries := by
          intro hk
          obtain ⟨p, hp, e⟩ := List.mem_map.mp hk
          exact get_none_not_key hnone p hp e
        simpa [KV.keys] using And.intro this hn
    · exact ⟨hb, hn⟩
  | remove n =>
    have := remove_good hb hn n
    exact ⟨this.1, this.2⟩
  | removeBatch ns =>
    have := removeBatch_good ns hb hn
    exact ⟨this.1, this.2⟩
  | readExpired _ _ => exact ⟨hb, hn⟩

theorem remove_le (m : MemCache.State) (n : Name) : (remove m n).total ≤ m.total ∧ (remove m n).maxSize = m.maxSize := by
  unfold remove
  split
  · exact ⟨Nat.le_refl _, rfl⟩
  · simp only [decrement]; exact ⟨by split <;> omega, trivial⟩

theorem removeBatch_le (ns : List Name) : ∀ (m : MemCache.State), (removeBatch m ns).total ≤ m.total ∧ (removeBatch m ns).maxSize = m.maxSize := by
  induction ns with
  | nil => intro m; exact ⟨Nat.le_refl _, rfl⟩
  | cons n ns ih =>
    intro m
    have h1 := remove_le m n
    have h2 := ih (remove m n)
    exact ⟨Nat.le_trans h2.1 h1.1, h2.2.trans h1.2⟩

/-- the uint64 account never exceeds MaxSize, whatever the callers do (no discipline needed) -/
theorem step_le (g : G) (o : MOp) (h : g.m.total ≤ g.m.maxSize) :
    (step g o).m.total ≤ (step g o).m.maxSize ∧ (step g o).m.maxSize = g.m.maxSize := by
  cases o with
  | reserve size =>
    simp only [step]
    split
    · rename_i hok
      obtain ⟨heq, hle⟩ := tryReserve_ok hok
      rw [heq]; exact ⟨hle, rfl⟩
    · exact ⟨h, rfl⟩
  | release size =>
    simp only [step]
    unfold release
    split
    · exact ⟨h, rfl⟩
    · exact ⟨by simp only; omega, rfl⟩
  | add n e res =>
    simp only [step]
    split
    · rename_i hok
      rw [(add_ok hok).2]; exact ⟨h, rfl⟩
    · exact ⟨h, rfl⟩
  | remove n =>
    have := remove_le g.m n
    exact ⟨by simp only [step]; rw [this.2]; exact Nat.le_trans this.1 h, this.2⟩
  | removeBatch ns =>
    have := removeBatch_le ns g.m
    exact ⟨by simp only [step]; rw [this.2]; exact Nat.le_trans this.1 h, this.2⟩
  | readExpired _ _ => exact ⟨h, rfl⟩

end Mem

/-! ### the write-through caller (Model.CAStoreMem) keeps the account balanced between calls -/

namespace Store
open KrakenModel.CAStoreMem
open KrakenModel.MemCache (MetaInfo Entry stored tryReserve release remove removeBatch decrement)

structure Acct (s : CAStoreMem.State) : Prop where
  bal : s.mem.total = stored s.mem
  nodup : (KV.keys s.mem.entries).Nodup
  le : s.mem.total ≤ s.mem.maxSize

variable {H : Bytes → Name} {crc : Bytes → Nat}

theorem acct_of_eq {s s' : CAStoreMem.State} (h : Acct s) (e : s'.mem = s.mem) : Acct s' :=
  ⟨by rw [e]; exact h.bal, by rw [e]; exact h.nodup, by rw [e]; exact h.le⟩

theorem setTM_mem (s : CAStoreMem.State) (n : Name) (mi : MetaInfo) : (setTM s n mi).1.mem = s.mem := by
  unfold setTM; split <;> rfl

theorem genMeta_mem (s : CAStoreMem.State) (n : Name) (pl : Int) : (genMetaFromFile crc s n pl).1.mem = s.mem := by
  unfold genMetaFromFile setTM
  repeat' split
  all_goals rfl

theorem writeCacheFile_mem (s : CAStoreMem.State) (n : Name) (att : Option Attempt) (am : Bool) (pl : Int) :
    (writeCacheFile H crc s n att am pl).1.mem = s.mem := by
  unfold writeCacheFile genMetaFromFile setTM ensureFile
  repeat' split
  all_goals rfl

theorem writeDisk_mem (s : CAStoreMem.State) (n : Name) (size : Nat) (att : Option Attempt) (pl : Int) :
    (writeDisk H crc s n size att pl).1.mem = s.mem := by
  unfold writeDisk
  split
  · rw [genMeta_mem, writeCacheFile_mem]
  · rw [writeCacheFile_mem]

theorem commitUpload_mem (s : CAStoreMem.State) (u : String) (n : Name) : (commitUpload H s u n).1.mem = s.mem := by
  unfold commitUpload
  repeat' split
  all_goals rfl

theorem addToMem_acct {s s' : CAStoreMem.State} {name : Name} {att : Option Attempt} {size : Nat} {pl : Int}
    (hb : s.mem.total = stored s.mem + size) (hn : (KV.keys s.mem.entries).Nodup) (hle : s.mem.total ≤ s.mem.maxSize)
    (h : addToMem H crc s name att size pl = some s') : Acct s' := by
  unfold addToMem at h
  split at h
  · cases h
  · rename_i a
    split at h
    · cases h
    · split at h
      · cases h
      · rename_i hlen
        split at h
        · cases h
        · split at h
          · cases h
          · split at h
            · cases h
            · rename_i hadd
              cases h
              have hadd' : (MemCache.add s.mem name (newEntry crc s name a.data pl)).2 = true := by simpa using hadd
              obtain ⟨hnone, heq⟩ := add_ok hadd'
              have hl : a.data.length = size := by simpa using hlen
              simp only [heq]
              refine ⟨?_, ?_, hle⟩
              · simp only [stored, List.map_cons, List.sum_cons, Entry.size, newEntry] at hb ⊢
                omega
              · have : name ∉ KV.keys s.mem.entries := by
                  intro hk
                  obtain ⟨p, hp, e⟩ := List.mem_map.mp hk
                  exact get_none_not_key hnone p hp e
                simpa [KV.keys] using And.intro this hn

theorem writeBlob_acct {s : CAStoreMem.State} (h : Acct s) (name : Name) (size : Nat) (atts : List Attempt) (pl : Int) :
    Acct (writeBlob H crc s name size atts pl).1 := by
  unfold writeBlob
  split
  · rename_i hc
    have hres : (tryReserve s.mem size).2 = true := by
      simp only [Bool.and_eq_true] at hc; exact hc.2
    obtain ⟨heq, hle⟩ := tryReserve_ok hres
    split
    · rename_i s2 h2
      refine addToMem_acct (s := reserved s size) ?_ ?_ ?_ h2
      · simp only [reserved, heq, stored]; have := h.bal; simp only [stored] at this; omega
      · simp only [reserved, heq]; exact h.nodup
      · simp only [reserved, heq]; exact hle
    · refine acct_of_eq h ?_
      rw [writeDisk_mem]
      simp only [released, reserved]
      exact release_reserve hres
  · exact acct_of_eq h (writeDisk_mem ..)

/-- a write-through call either leaves the memory cache exactly as it was (reservation refused, or made
and released again), or it succeeded through the memory path and added one entry of exactly the
reserved size -/
theorem writeBlob_mem (s : CAStoreMem.State) (name : Name) (size : Nat) (atts : List Attempt) (pl : Int) :
    (writeBlob H crc s name size atts pl).1.mem = s.mem ∨
    ((writeBlob H crc s name size atts pl).2 = .ok ∧
     ∃ e : Entry, e.size = size ∧
       (writeBlob H crc s name size atts pl).1.mem = { s.mem with entries := (name, e) :: s.mem.entries, total := s.mem.total + size }) := by
  unfold writeBlob
  split
  · rename_i hc
    have hres : (tryReserve s.mem size).2 = true := by
      simp only [Bool.and_eq_true] at hc; exact hc.2
    obtain ⟨heq, _⟩ := tryReserve_ok hres
    split
    · rename_i s2 h2
      right
      refine ⟨rfl, ?_⟩
      unfold addToMem at h2
      split at h2
      · cases h2
      · rename_i a ha
        split at h2
        · cases h2
        · split at h2
          · cases h2
          · rename_i hlen
            split at h2
            · cases h2
            · split at h2
              · cases h2
              · split at h2
                · cases h2
                · rename_i hadd
                  cases h2
                  have hadd' : (MemCache.add (reserved s size).mem name (newEntry crc (reserved s size) name a.data pl)).2 = true := by simpa using hadd
                  obtain ⟨_, heq2⟩ := add_ok hadd'
                  refine ⟨newEntry crc (reserved s size) name a.data pl, by simpa [Entry.size, newEntry] using hlen, ?_⟩
                  show (MemCache.add (reserved s size).mem name (newEntry crc (reserved s size) name a.data pl)).1 = _
                  rw [heq2]
                  simp only [reserved, heq]
    · left
      rw [writeDisk_mem]
      simp only [released, reserved]
      exact release_reserve hres
  · left; exact writeDisk_mem ..

theorem dropFromMem_acct {s : CAStoreMem.State} (h : Acct s) (n : Name) : Acct (dropFromMem s n) := by
  have := Mem.remove_good (o := 0) (by simpa using h.bal) h.nodup n
  refine ⟨by simpa [dropFromMem] using this.1, by simpa [dropFromMem] using this.2, ?_⟩
  simp only [dropFromMem]
  unfold remove
  split
  · exact h.le
  · simp only [decrement]; have := h.le; split <;> omega

theorem writeDrainItem_mem (s : CAStoreMem.State) (it : DrainItem) : (writeDrainItem H crc s it).1.mem = s.mem := by
  unfold writeDrainItem
  split
  · rw [setTM_mem, writeCacheFile_mem]
  · rw [writeCacheFile_mem]

theorem drainNext_acct {s : CAStoreMem.State} (h : Acct s) : Acct (drainNext H crc s) := by
  unfold drainNext
  split
  · exact h
  · rename_i it rest _
    have h1 : Acct (writeDrainItem H crc { s with queue := rest } it).1 := acct_of_eq h (writeDrainItem_mem ..)
    split
    · exact dropFromMem_acct h1 _
    · split
      · exact acct_of_eq h1 rfl
      · exact dropFromMem_acct h1 _

theorem ttlSweep_acct {s : CAStoreMem.State} (h : Acct s) : Acct (ttlSweep s) := by
  have := Mem.removeBatch_good (MemCache.expired s.mem s.now s.cfg.ttl) (o := 0) (by simpa using h.bal) h.nodup
  have hle := Mem.removeBatch_le (MemCache.expired s.mem s.now s.cfg.ttl) s.mem
  refine ⟨by simpa [ttlSweep] using this.1, by simpa [ttlSweep] using this.2, ?_⟩
  simp only [ttlSweep]
  rw [hle.2]
  exact Nat.le_trans hle.1 h.le

theorem apply_acct {s : CAStoreMem.State} (h : Acct s) (o : Op) : Acct (CAStoreMem.apply H crc s o).1 := by
  cases o with
  | createUpload u => simp only [CAStoreMem.apply, createUpload]; split <;> first | exact h | exact acct_of_eq h rfl
  | writeUpload u off b => simp only [CAStoreMem.apply, writeUpload]; split <;> first | exact h | exact acct_of_eq h rfl
  | commit u n => exact acct_of_eq h (commitUpload_mem ..)
  | createCache n b => exact acct_of_eq h (writeCacheFile_mem ..)
  | writeBlob n size atts pl => exact writeBlob_acct h n size atts pl
  | genMeta n pl => exact acct_of_eq h (genMeta_mem ..)
  | drain => exact drainNext_acct h
  | ttl => exact ttlSweep_acct h
  | tick dt => exact acct_of_eq h rfl
  | delete n => simp only [CAStoreMem.apply, deleteCache]; split <;> first | exact h | exact acct_of_eq h rfl
  | block p => simp only [CAStoreMem.apply, block]; split <;> first | exact h | exact acct_of_eq h rfl
  | unblock p => simp only [CAStoreMem.apply, unblock]; split <;> first | exact h | exact acct_of_eq h rfl

end Store

/-! ### LRUCache -/

namespace LRU
open KrakenModel.LRUCache

def keys (es : List (String × Int)) : List String := es.map (·.1)

theorem find_some_mem {es : List (String × Int)} {k : String} {e : Int} (h : find es k = some e) : (k, e) ∈ es := by
  induction es with
  | nil => cases h
  | cons p es ih =>
    obtain ⟨k', e'⟩ := p
    simp only [find] at h
    split at h
    · rename_i hk; cases h; subst hk; exact List.mem_cons_self
    · exact List.mem_cons_of_mem _ (ih h)

theorem find_none_not_key {es : List (String × Int)} {k : String} (h : find es k = none) : k ∉ keys es := by
  induction es with
  | nil => simp [keys]
  | cons p es ih =>
    obtain ⟨k', e'⟩ := p
    simp only [find] at h
    split at h
    · cases h
    · rename_i hk
      simp only [keys, List.map_cons, List.mem_cons, not_or]
      exact ⟨hk, ih h⟩

theorem find_of_mem_nodup {es : List (String × Int)} (hn : (keys es).Nodup) {k : String} {e : Int} (h : (k, e) ∈ es) :
    find es k = some e := by
  induction es with
  | nil => cases h
  | cons p es ih =>
    obtain ⟨k', e'⟩ := p
    have hn' : k' ∉ keys es ∧ (keys es).Nodup := by simpa [keys] using hn
    simp only [find]
    rcases List.mem_cons.mp h with e1 | hm
    · cases e1; simp
    · have : k ≠ k' := by
        intro e1; subst e1
        exact hn'.1 (List.mem_map.mpr ⟨(k, e), hm, rfl⟩)
      simp [this, ih hn'.2 hm]

theorem eraseKey_sublist (es : List (String × Int)) (k : String) : (eraseKey es k).Sublist es := by
  induction es with
  | nil => exact List.Sublist.refl _
  | cons p es ih =>
    obtain ⟨k', e'⟩ := p
    simp only [eraseKey]
    split
    · exact List.sublist_cons_self _ _
    · exact List.Sublist.cons_cons _ ih

theorem eraseKey_length {es : List (String × Int)} {k : String} {e : Int} (h : find es k = some e) :
    (eraseKey es k).length + 1 = es.length := by
  induction es with
  | nil => cases h
  | cons p es ih =>
    obtain ⟨k', e'⟩ := p
    simp only [find] at h
    simp only [eraseKey]
    split
    · simp
    · rename_i hk
      simp only [hk, if_false] at h
      simp [ih h]

theorem eraseKey_not_key {es : List (String × Int)} (hn : (keys es).Nodup) (k : String) : k ∉ keys (eraseKey es k) := by
  induction es with
  | nil => simp [eraseKey, keys]
  | cons p es ih =>
    obtain ⟨k', e'⟩ := p
    have hn' : k' ∉ keys es ∧ (keys es).Nodup := by simpa [keys] using hn
    simp only [eraseKey]
    split
    · rename_i hk; subst hk; exact hn'.1
    · rename_i hk
      simp only [keys, List.map_cons, List.mem_cons, not_or]
      exact ⟨hk, ih hn'.2⟩

theorem keys_sublist {a b : List (String × Int)} (h : a.Sublist b) : (keys a).Sublist (keys b) := List.Sublist.map _ h

theorem enforce_sublist (n : Nat) (es : List (String × Int)) : (enforce n es).Sublist es := List.drop_sublist _ _

theorem live_sublist (es : List (String × Int)) (now : Int) : (live es now).Sublist es := List.filter_sublist

theorem enforce_length (n : Nat) (es : List (String × Int)) : (enforce n es).length ≤ n := by
  simp only [enforce, List.length_drop]; omega

end LRU

end KrakenModel.Proof.C13
