import KrakenModel.Proof.C08
/-
  C07, history-level metadata theorem: what `GetMetadata(k, sfx)` reads does not change along any
  history that keeps the incarnation of `k` and contains no metadata call on `(k, sfx)` nor the
  completion of `k`.
-/
namespace KrakenModel.BlobStore

/-- once the incarnation `i` of key `k` is gone it never comes back -/
theorem inc_gone (k : Key) (i : Nat) : ∀ (ops : List Op) (s : State), i < s.nextInc →
    (∀ b, s.blobs.get k = some b → b.inc ≠ i) →
    ∀ b, ((sys s.cap).runFrom s ops).blobs.get k = some b → b.inc ≠ i := by
  intro ops
  induction ops with
  | nil => intro s _ h b hb; exact h b hb
  | cons o ops ih =>
    intro s hlt h b hb
    have hcap : (step s o).cap = s.cap := step_cap s o
    have hmono := step_nextInc s o
    have h1 : ∀ b, (step s o).blobs.get k = some b → b.inc ≠ i := by
      intro b1 hb1
      rcases step_blob s o k b1 hb1 with ⟨b0, hb0, hi0, _⟩ | ⟨_, _, _, _, hi0, _⟩
      · rw [hi0]; exact h b0 hb0
      · omega
    have := ih (step s o) (by omega) h1 b
    rw [hcap] at this
    exact this hb

/-- **metadata reads return the last value set, along whole histories**: from any state with unique
incarnation numbers, after any history `more` that contains no `SetMetadata`/`DeleteMetadata`/
`WriteAtMetadata` on `(k, sfx)` and no `MarkComplete(k)`, if `k` is still the same incarnation then
`GetMetadata(k, sfx)` reads what it read before -/
theorem md_stable (k : Key) (sfx : Nat) : ∀ (more : List Op) (s : State), GoodInc s →
    (∀ o ∈ more, touchesMd o k sfx = false) →
    ∀ b b', s.blobs.get k = some b → ((sys s.cap).runFrom s more).blobs.get k = some b' → b'.inc = b.inc →
    mdGet b'.mds sfx = mdGet b.mds sfx := by
  intro more
  induction more with
  | nil =>
    intro s _ _ b b' hb hb' _
    simp [Sys.runFrom] at hb'
    rw [hb] at hb'; simp at hb'; rw [hb']
  | cons o more ih =>
    intro s hg hno b b' hb hb' hinc
    have hcap : (step s o).cap = s.cap := step_cap s o
    have ho : touchesMd o k sfx = false := hno o (by simp)
    have hrest : ∀ o' ∈ more, touchesMd o' k sfx = false := fun o' h => hno o' (by simp [h])
    have hb'' : ((sys (step s o).cap).runFrom (step s o) more).blobs.get k = some b' := by
      rw [hcap]; exact hb'
    cases h1 : (step s o).blobs.get k with
    | none =>
      -- the incarnation is gone after `o`: it cannot be back at the end
      have hlt : b.inc < (step s o).nextInc := Nat.lt_of_lt_of_le (hg.lt k b hb) (step_nextInc s o)
      have := inc_gone k b.inc more (step s o) hlt (by intro x hx; rw [h1] at hx; simp at hx) b' hb''
      exact absurd hinc this
    | some b1 =>
      by_cases hi1 : b1.inc = b.inc
      · have hf := md_frame s o k sfx ho hb h1
        have := ih (step s o) (goodInc_step hg o) hrest b1 b' h1 hb'' (hinc.trans hi1.symm)
        rw [this, hf]
      · have hlt : b.inc < (step s o).nextInc := Nat.lt_of_lt_of_le (hg.lt k b hb) (step_nextInc s o)
        have := inc_gone k b.inc more (step s o) hlt
          (by intro x hx; rw [h1] at hx; simp at hx; subst hx; exact hi1) b' hb''
        exact absurd hinc this

/-! ### movable metadata survives the completion of its blob -/

/-- the metadata calls proper on `(k, sfx)` (the completion of `k` is not one of them) -/
def writesMd : Op → Key → Nat → Bool
  | .setMd k' _ m, k, sfx => k' = k && m.sfx = sfx
  | .delMd k' _ sfx', k, sfx => k' = k && sfx' = sfx
  | .writeAtMd k' _ sfx' _ _, k, sfx => k' = k && sfx' = sfx
  | _, _, _ => false

theorem mdGet_filter_of_movable (mds : List Md) (sfx : Nat) (m : Md) (h : mdGet mds sfx = some m)
    (hm : m.movable = true) : mdGet (mds.filter (·.movable)) sfx = some m := by
  induction mds with
  | nil => simp [mdGet] at h
  | cons x mds ih =>
    unfold mdGet at h ih ⊢
    by_cases hs : x.sfx = sfx
    · rw [List.find?_cons_of_pos (by simp [hs])] at h
      injection h with h; subst h
      rw [List.filter_cons_of_pos (by simp [hm]), List.find?_cons_of_pos (by simp [hs])]
    · rw [List.find?_cons_of_neg (by simp [hs])] at h
      by_cases hx : x.movable = true
      · rw [List.filter_cons_of_pos (by simp [hx]), List.find?_cons_of_neg (by simp [hs])]
        exact ih h
      · rw [List.filter_cons_of_neg (by simp [hx])]
        exact ih h

/-- one step keeps a movable metadata entry of a blob that stays in the store, unless it is a
    metadata call on that very entry -/
theorem md_frame_movable (s : State) (o : Op) (k : Key) (sfx : Nat) (hw : writesMd o k sfx = false)
    {b b' : Blob} (hb : s.blobs.get k = some b) (hb' : (step s o).blobs.get k = some b')
    (m : Md) (hm : mdGet b.mds sfx = some m) (hmov : m.movable = true) : mdGet b'.mds sfx = some m := by
  by_cases ht : touchesMd o k sfx = false
  · rw [md_frame s o k sfx ht hb hb']; exact hm
  · -- the only operation that touches without writing is the completion of `k`
    cases o with
    | markComplete k0 =>
      have hk : k0 = k := by simpa [touchesMd] using ht
      subst hk
      simp only [step, apply, markComplete, hb] at hb'
      split at hb'
      · rw [hb] at hb'; simp at hb'; rw [← hb']; exact hm
      · rw [BMap.get_set_self] at hb'; simp at hb'; rw [← hb']
        exact mdGet_filter_of_movable _ _ _ hm hmov
    | setMd k0 sc m0 => simp [touchesMd, writesMd] at ht hw; exact absurd ht.2 (hw ht.1)
    | delMd k0 sc sfx0 => simp [touchesMd, writesMd] at ht hw; exact absurd ht.2 (hw ht.1)
    | writeAtMd k0 sc sfx0 p off => simp [touchesMd, writesMd] at ht hw; exact absurd ht.2 (hw ht.1)
    | _ => simp [touchesMd] at ht

/-- **a movable metadata entry is read back along whole histories, across the completion of its
blob**: from any state with unique incarnation numbers, after any history that contains no
`SetMetadata`/`DeleteMetadata`/`WriteAtMetadata` on `(k, sfx)` — `MarkComplete(k)` is allowed —, if `k`
is still the same incarnation, the entry is still there -/
theorem md_stable_movable (k : Key) (sfx : Nat) (m : Md) (hmov : m.movable = true) :
    ∀ (more : List Op) (s : State), GoodInc s → (∀ o ∈ more, writesMd o k sfx = false) →
    ∀ b b', s.blobs.get k = some b → mdGet b.mds sfx = some m →
      ((sys s.cap).runFrom s more).blobs.get k = some b' → b'.inc = b.inc → mdGet b'.mds sfx = some m := by
  intro more
  induction more with
  | nil =>
    intro s _ _ b b' hb hm hb' _
    simp [Sys.runFrom] at hb'
    rw [hb] at hb'; simp at hb'; rw [← hb']; exact hm
  | cons o more ih =>
    intro s hg hno b b' hb hm hb' hinc
    have hcap : (step s o).cap = s.cap := step_cap s o
    have ho : writesMd o k sfx = false := hno o (by simp)
    have hrest : ∀ o' ∈ more, writesMd o' k sfx = false := fun o' h => hno o' (by simp [h])
    have hb'' : ((sys (step s o).cap).runFrom (step s o) more).blobs.get k = some b' := by
      rw [hcap]; exact hb'
    have hlt : b.inc < (step s o).nextInc := Nat.lt_of_lt_of_le (hg.lt k b hb) (step_nextInc s o)
    cases h1 : (step s o).blobs.get k with
    | none =>
      have := inc_gone k b.inc more (step s o) hlt (by intro x hx; rw [h1] at hx; simp at hx) b' hb''
      exact absurd hinc this
    | some b1 =>
      by_cases hi1 : b1.inc = b.inc
      · have hf := md_frame_movable s o k sfx ho hb h1 m hm hmov
        exact ih (step s o) (goodInc_step hg o) hrest b1 b' h1 hf hb'' (hinc.trans hi1.symm)
      · have := inc_gone k b.inc more (step s o) hlt
          (by intro x hx; rw [h1] at hx; simp at hx; subst hx; exact hi1) b' hb''
        exact absurd hinc this

theorem goodInc_run (cap : Nat) (ops : List Op) : GoodInc ((sys cap).run ops) :=
  Sys.run_inv (sys cap) GoodInc (goodInc_init cap) (fun _ o h => goodInc_step h o) ops

end KrakenModel.BlobStore
