import KrakenModel.Util.LTS
import KrakenModel.Proof.C06Reboot2
/-
  C06 proof library, part 12: the invariant holds after every history; consequences of `CrashView`
  for what the constructor recovers.
-/
set_option linter.unusedSectionVars false
set_option linter.unusedSimpArgs false
namespace KrakenModel.DiskCrash
open KrakenModel.FS

/-- preconditions of the public operations: keys are long enough for the shard layout and sizes are
below 2^63 (both only matter for `Create`: every other operation acts on blobs `Create` admitted) -/
def OpPre (cfg : Cfg) (o : Op) : Prop := ∀ K sz, o = Op.create K sz → ValidKey cfg K ∧ sz < 2 ^ 63

/-- admissibility of an action in a state: operation preconditions; the recorded `RemoveAll(incomplete)`
sequence really is one -/
def ActPre (cfg : Cfg) (s : St) : Act → Prop
  | .op o _ => OpPre cfg o
  | .crash o _ _ => OpPre cfg o
  | .reboot _ _ rm => cfg.reboot = false → validRm s.fs rm = true
  | .rebootCrash _ _ rm _ => cfg.reboot = false → validRm s.fs rm = true

instance (cfg : Cfg) (o : Op) : Decidable (OpPre cfg o) :=
  match o with
  | .create K sz =>
    if h : ValidKey cfg K ∧ sz < 2 ^ 63 then isTrue (fun K' sz' e => by cases e; exact h)
    else isFalse (fun hp => h (hp K sz rfl))
  | .write _ _ _ => isTrue (fun _ _ e => by cases e)
  | .markComplete _ => isTrue (fun _ _ e => by cases e)
  | .delete _ => isTrue (fun _ _ e => by cases e)
  | .ban _ => isTrue (fun _ _ e => by cases e)
  | .unban _ => isTrue (fun _ _ e => by cases e)
  | .setMd _ _ _ => isTrue (fun _ _ e => by cases e)
  | .delMd _ _ => isTrue (fun _ _ e => by cases e)
  | .writeAtMd _ _ _ _ => isTrue (fun _ _ e => by cases e)

instance (cfg : Cfg) (s : St) (a : Act) : Decidable (ActPre cfg s a) := by
  cases a <;> simp only [ActPre] <;> exact inferInstance

def sys (cfg : Cfg) : Sys St Act := { init := init, step := step cfg }

theorem good_init (cfg : Cfg) : Good cfg init := by
  refine ⟨⟨?_, ?_, ?_, ?_⟩, ?_⟩
  · intro p hp; change p ∈ [] at hp; simp at hp
  · intro p d h; change aget [] p = some d at h; simp at h
  · intro p hp; change p ∈ [] at hp; simp at hp
  · intro K _ ⟨h, _⟩; change (aget ([] : List (Path × DirEnt Name)) _).isSome = true at h; simp at h
  · intro m hm
    cases hm
    refine ⟨List.Pairwise.nil, ?_, fun K _ _ => ⟨rfl, rfl⟩, List.Pairwise.nil, ?_⟩
    · intro K b h; change aget [] K = some b at h; simp at h
    · intro K
      constructor
      · intro h; change K ∈ [] at h; simp at h
      · rintro ⟨b, h, _⟩; change aget [] K = some b at h; simp at h

theorem good_step {cfg : Cfg} {s : St} (a : Act) (hg : Good cfg s) (hp : ActPre cfg s a) : Good cfg (step cfg s a) := by
  cases a with
  | op o ord =>
    simp only [step]
    cases hm : s.mem with
    | none => simpa [hm] using hg
    | some m =>
      simp only
      have ok := exec_ok hg.fs (hg.mem m hm) ord o hp
      refine ⟨?_, ?_⟩
      · have := ok.pre (exec cfg ord m s.fs o).calls.length
        rwa [applyPrefix_all _ _ _ (Nat.le_refl _)] at this
      · intro m' hm'
        simp only at hm'
        split at hm'
        · cases hm'
        · cases hm'; exact ok.post
  | crash o ord k =>
    simp only [step]
    cases hm : s.mem with
    | none => simpa [hm] using hg
    | some m =>
      simp only
      have ok := exec_ok hg.fs (hg.mem m hm) ord o hp
      exact ⟨ok.pre k, fun m' hm' => by cases hm'⟩
  | reboot ord mt rm =>
    simp only [step]
    have ok := reboot_ok hg.fs ord mt rm hp
    refine ⟨goodFS_applyAll_removal _ hg.fs ok.removal, ?_⟩
    intro m' hm'
    simp only at hm'
    apply ok.good m'
    cases hr : (rebootRun cfg ord mt rm s.fs).res with
    | error e => rw [hr] at hm'; cases hm'
    | ok m2 => rw [hr] at hm'; simp [Except.toOption] at hm'; rw [hm']
  | rebootCrash ord mt rm k =>
    simp only [step]
    have ok := reboot_ok hg.fs ord mt rm hp
    exact ⟨goodFS_applyPrefix_removal k _ hg.fs ok.removal, fun m' hm' => by cases hm'⟩

/-- the invariant holds after every admissible history of operations, crashes and restarts -/
theorem good_run (cfg : Cfg) (hist : List Act) (hw : (sys cfg).WFHist (ActPre cfg) (sys cfg).init hist) :
    Good cfg ((sys cfg).run hist) :=
  Sys.runFrom_inv_pre (sys cfg) (ActPre cfg) (Good cfg) (fun s a h hp => good_step a h hp) hist _ (good_init cfg) hw

/-! ### from the tree at the crash to what the constructor reports -/

theorem lookup_of_complete_data {cfg : Cfg} {fs : FS Name} {K : Key} {dat : Bytes}
    (h : fs.file? (dirPath cfg true K) Name.data = some dat) :
    rebootLookup cfg fs K = some ⟨dat.length, true, (fs.file? (dirPath cfg true K) Name.ban).isSome⟩ := by
  simp [rebootLookup, rebootBlob, h, blobOf]

theorem lookup_of_no_complete {cfg : Cfg} {fs : FS Name} {K : Key}
    (h : fs.file? (dirPath cfg true K) Name.data = none) :
    rebootLookup cfg fs K = if cfg.reboot = true then (rebootBlob cfg fs false K).map blobOf else none := by
  simp [rebootLookup, rebootBlob, h]

theorem file?_none_of_dir_none {fs : FS Name} {p : Path} (h : fs.dir? p = none) (n : Name) : fs.file? p n = none := by
  simp [FS.file?, h]

theorem rebootBlob_incomplete {cfg : Cfg} {fs : FS Name} {K : Key} {dat s : Bytes} {n : Nat}
    (hd : fs.file? (dirPath cfg false K) Name.data = some dat)
    (hs : fs.file? (dirPath cfg false K) Name.size = some s) (hp : parseSize s = some n) :
    rebootBlob cfg fs false K = some ⟨K, n, (fs.file? (dirPath cfg false K) Name.ban).isSome, false⟩ := by
  simp [rebootBlob, hd, hs, hp]

theorem good_file_data {cfg : Cfg} {fs : FS Name} {K : Key} {b : Blob} (g : GoodBlob cfg fs K b) :
    ∃ dat, fs.file? (dirPath cfg b.complete K) Name.data = some dat := by
  have := data_isSome_of_good g
  cases h : fs.file? (dirPath cfg b.complete K) Name.data with
  | none => rw [h] at this; cases this
  | some dat => exact ⟨dat, rfl⟩

theorem good_file_ban {cfg : Cfg} {fs : FS Name} {K : Key} {b : Blob} (g : GoodBlob cfg fs K b) :
    (fs.file? (dirPath cfg b.complete K) Name.ban).isSome = b.banned := by
  obtain ⟨d, hd, _, hb, _⟩ := g.dir
  simp [FS.file?, hd, hb]

/-- removal calls never make a file appear -/
theorem file?_isSome_of_removal (cs : List (Call Name)) (hr : ∀ c ∈ cs, Call.removal c = true) (fs : FS Name)
    (p : Path) (n : Name) (h : ((applyAll fs cs).file? p n).isSome = true) : (fs.file? p n).isSome = true := by
  induction cs generalizing fs with
  | nil => exact h
  | cons c cs ih =>
    have h1 := ih (fun c' hc' => hr c' (List.mem_cons_of_mem _ hc')) (apply fs c) h
    rcases dir?_apply_removal fs c (hr c (List.mem_cons_self ..)) p with e | e | ⟨d, x, hd, e⟩
    · simpa [FS.file?, e] using h1
    · simp [FS.file?, e] at h1
    · simp only [FS.file?, e, hd] at h1 ⊢
      by_cases hx : n = x
      · subst hx; simp [aget_adel_self] at h1
      · rwa [aget_adel_ne _ _ _ (Ne.symm hx)] at h1

/-- A crash at any point of an operation followed by `disk.NewStore` (when the blobs found fit the
capacity): the constructor succeeds, its state agrees with the tree, every key is what the scan makes
of the tree at the crash, and that tree relates to the states before/after the operation by `CrashView`. -/
theorem crash_recover {cfg : Cfg} {m : Mem} {fs : FS Name} (hfs : GoodFS cfg fs) (hg : GoodMem cfg m fs)
    (o : Op) (hp : OpPre cfg o) (ord : Order Name) (k : Nat) (ord' : Order Name) (mt : List Key) (rm : List (Call Name))
    (hrm : cfg.reboot = false → validRm (applyPrefix k (plan cfg ord m fs o) fs) rm = true)
    (hfit : rebootSize cfg rm (applyPrefix k (plan cfg ord m fs o) fs) ≤ cfg.capacity) :
    ∃ m', (rebootRun cfg ord' mt rm (applyPrefix k (plan cfg ord m fs o) fs)).res = Except.ok m' ∧
      GoodMem cfg m' (applyAll (applyPrefix k (plan cfg ord m fs o) fs)
        (rebootRun cfg ord' mt rm (applyPrefix k (plan cfg ord m fs o) fs)).calls) ∧
      GoodMem cfg (exec cfg ord m fs o).mem (applyAll fs (plan cfg ord m fs o)) ∧
      (∀ K, ValidKey cfg K → aget m'.blobs K = rebootLookup cfg (applyPrefix k (plan cfg ord m fs o) fs) K) ∧
      (∀ K bl, aget m'.blobs K = some bl →
        (applyAll (applyPrefix k (plan cfg ord m fs o) fs)
          (rebootRun cfg ord' mt rm (applyPrefix k (plan cfg ord m fs o) fs)).calls).dir? (dirPath cfg bl.complete K) =
        (applyPrefix k (plan cfg ord m fs o) fs).dir? (dirPath cfg bl.complete K)) ∧
      (∀ K, ValidKey cfg K → CrashView cfg m fs (exec cfg ord m fs o).mem (applyAll fs (plan cfg ord m fs o))
        (applyPrefix k (plan cfg ord m fs o) fs) K) := by
  have ok := exec_ok hfs hg ord o hp
  have rok := reboot_ok (ok.pre k) ord' mt rm hrm
  obtain ⟨m', h1, h2, h3⟩ := rok.fits hfit
  exact ⟨m', h1, rok.good m' h1, ok.post, h2, h3, fun K hv => ok.view k K hv⟩

end KrakenModel.DiskCrash
