import KrakenModel.Proof.Tiered
/-
  C09, part 2: invariants that hold along EVERY schedule (no hypothesis on the schedule, any number of
  workers): a key that is not live has no entry in memory, on disk or in the flusher; a key with a
  flusher entry is in memory and banned from eviction.  Hence a deleted key never resurfaces and
  never blocks re-creation.
-/
namespace KrakenModel.BlobStore

/-- `s → s'` changed at most the entry of `k0`; any other entry is untouched or was evicted, and
    only complete, not banned entries are evicted -/
def OnlyKey (s s' : State) (k0 : Key) : Prop :=
  ∀ k, k ≠ k0 → s'.blobs.get k = s.blobs.get k ∨
    (s'.blobs.get k = none ∧ ∃ b, s.blobs.get k = some b ∧ b.complete = true ∧ b.banned = false)

theorem onlyKey_refl (s : State) (k0 : Key) : OnlyKey s s k0 := fun _ _ => .inl rfl

theorem onlyKey_trans {s s' s'' : State} {k0 : Key} (h1 : OnlyKey s s' k0) (h2 : OnlyKey s' s'' k0) :
    OnlyKey s s'' k0 := by
  intro k hk
  rcases h1 k hk with e1 | ⟨e1, b, hb⟩
  · rcases h2 k hk with e2 | ⟨e2, b, hb⟩
    · exact .inl (e2.trans e1)
    · exact .inr ⟨e2, b, e1 ▸ hb⟩
  · rcases h2 k hk with e2 | ⟨_, b', hb', _⟩
    · exact .inr ⟨e2.trans e1, b, hb⟩
    · rw [e1] at hb'; simp at hb'

/-- the map was left alone, or changed at `k0` only -/
def Touch (s s' : State) (k0 : Key) : Prop :=
  s'.blobs = s.blobs ∨ (∃ b, s'.blobs = s.blobs.set k0 b) ∨ s'.blobs = s.blobs.del k0

theorem onlyKey_of_touch {s s' : State} {k0 : Key} (h : Touch s s' k0) : OnlyKey s s' k0 := by
  intro k hk
  rcases h with h | ⟨b, h⟩ | h
  · exact .inl (by rw [h])
  · exact .inl (by rw [h, BMap.get_set_ne _ _ hk])
  · exact .inl (by rw [h, BMap.get_del_ne _ hk])

theorem touch_ban (s : State) (k : Key) (sc : Scope) : Touch s (ban s k sc).1 k := by
  unfold ban
  split
  · exact .inl rfl
  · split
    · exact .inl rfl
    · split
      · split
        · exact .inr (.inl ⟨_, rfl⟩)
        · exact .inl rfl
      · exact .inr (.inl ⟨_, rfl⟩)

theorem touch_unban (s : State) (k : Key) (sc : Scope) : Touch s (unban s k sc).1 k := by
  unfold unban
  split
  · exact .inl rfl
  · split
    · exact .inl rfl
    · exact .inr (.inl ⟨_, rfl⟩)

theorem touch_setMd (s : State) (k : Key) (sc : Scope) (m : Md) : Touch s (setMd s k sc m).1 k := by
  unfold setMd; split
  · exact .inl rfl
  · exact .inr (.inl ⟨_, rfl⟩)

theorem touch_delMd (s : State) (k : Key) (sc : Scope) (sfx : Nat) : Touch s (delMd s k sc sfx).1 k := by
  unfold delMd; split
  · exact .inl rfl
  · exact .inr (.inl ⟨_, rfl⟩)

theorem touch_markComplete (s : State) (k : Key) : Touch s (markComplete s k).1 k := by
  unfold markComplete; split
  · exact .inl rfl
  · split
    · exact .inl rfl
    · exact .inr (.inl ⟨_, rfl⟩)

theorem touch_delete (s : State) (k : Key) (sc : Scope) : Touch s (delete s k sc).1 k := by
  unfold delete; split
  · exact .inl rfl
  · exact .inr (.inr rfl)

theorem touch_openB (s : State) (k : Key) (sc : Scope) : Touch s (openB s k sc).1 k :=
  .inl (openB_blobs s k sc)

theorem touch_setData (s : State) (k : Key) (b : Blob) (d : Bytes) : Touch s (setData s k b d) k :=
  .inr (.inl ⟨_, rfl⟩)

theorem onlyKey_ensureFree {s : State} (hg : Good s) (n : Nat) (k0 : Key) : OnlyKey s (ensureFree s n).1 k0 := by
  intro k _
  rw [ensureFree_get]
  split
  · rename_i hm
    exact .inr ⟨rfl, ensureFree_victim hg n hm⟩
  · exact .inl rfl

theorem onlyKey_create {s : State} (hg : Good s) (k : Key) (n : Nat) (d : Bytes) :
    OnlyKey s (create s k n d).1 k := by
  cases hk : s.blobs.get k with
  | some b => rw [create_exist hk]; exact onlyKey_refl s k
  | none =>
    rw [create_none hk]
    have he := onlyKey_ensureFree hg n k
    split
    · refine onlyKey_trans he ?_
      exact onlyKey_of_touch (.inr (.inl ⟨_, rfl⟩))
    · exact he
    · exact he

/-- `create` does not make any entry other than the one of its key appear -/
theorem create_get_key {s : State} (k : Key) (n : Nat) (d : Bytes) :
    ((∃ b, s.blobs.get k = some b) ∧ (create s k n d).2 = .err .exist ∧ (create s k n d).1 = s) ∨
    (s.blobs.get k = none ∧
      (((∃ i ev, (create s k n d).2 = .created i ev) ∧ ∃ b, (create s k n d).1.blobs.get k = some b ∧ b.complete = false ∧ b.banned = false ∧ b.data = d ∧ b.mds = []) ∨
       ((∃ e, (create s k n d).2 = .err e ∧ e ≠ .exist) ∧ (create s k n d).1.blobs.get k = none))) := by
  cases hk : s.blobs.get k with
  | some b => left; rw [create_exist hk]; exact ⟨⟨b, rfl⟩, rfl, rfl⟩
  | none =>
    right
    refine ⟨rfl, ?_⟩
    rw [create_none hk]
    have hn : (ensureFree s n).1.blobs.get k = none := by
      rw [ensureFree_get]; split <;> simp [hk]
    split
    · left; exact ⟨⟨_, _, rfl⟩, { size := n, data := d, inc := (ensureFree s n).1.nextInc }, by simp, rfl, rfl, rfl, rfl⟩
    · right; exact ⟨⟨_, rfl, by simp⟩, hn⟩
    · right; exact ⟨⟨_, rfl, by simp⟩, hn⟩

/-! ### what an operation does to the entry of its own key -/

theorem ban_get_self {s : State} (hg : Good s) (k : Key) (sc : Scope) :
    (ban s k sc).1.blobs.get k =
      (s.blobs.get k).map (fun b => if inScope b sc then { b with banned := true } else b) := by
  cases hb : s.blobs.get k with
  | none => rw [ban_none hb]; simp [hb]
  | some b =>
    cases hs : inScope b sc
    · rw [ban_oos hb hs]; simp [hb, hs]
    · rw [ban_eq hg hb hs]
      cases hbn : b.banned
      · simp [hs]
      · simp only [if_true, hb, Option.map_some, hs]
        congr 1
        cases b; simp_all

theorem ban_out {s : State} (hg : Good s) (k : Key) (sc : Scope) :
    (ban s k sc).2 = match s.blobs.get k with
      | none => .err .notExist
      | some b => if inScope b sc then .ok else .err .outOfScope := by
  cases hb : s.blobs.get k with
  | none => rw [ban_none hb]
  | some b =>
    cases hs : inScope b sc
    · rw [ban_oos hb hs]; simp [hs]
    · rw [ban_eq hg hb hs]; simp [hs]

theorem unban_get_self (s : State) (k : Key) (sc : Scope) :
    (unban s k sc).1.blobs.get k =
      (s.blobs.get k).map (fun b => if inScope b sc then { b with banned := false } else b) := by
  cases hb : s.blobs.get k with
  | none => rw [unban_none hb]; simp [hb]
  | some b =>
    cases hs : inScope b sc
    · simp [unban, lookup_of_get hb, hs, hb]
    · rw [unban_eq hb hs]
      cases hbn : b.banned
      · simp only [Bool.false_eq_true, if_false, hb, Option.map_some, hs, if_true]
        congr 1
        cases b; simp_all
      · simp [hs]

theorem setMd_get_self (s : State) (k : Key) (sc : Scope) (m : Md) :
    (setMd s k sc m).1.blobs.get k =
      (s.blobs.get k).map (fun b => if inScope b sc then { b with mds := mdSet b.mds m } else b) := by
  cases hb : s.blobs.get k with
  | none => rw [setMd_none hb]; simp [hb]
  | some b =>
    cases hs : inScope b sc
    · rw [setMd_oos hb hs]; simp [hb, hs]
    · rw [setMd_eq hb hs]; simp [hs]

theorem delMd_get_self (s : State) (k : Key) (sc : Scope) (sfx : Nat) :
    (delMd s k sc sfx).1.blobs.get k =
      (s.blobs.get k).map (fun b => if inScope b sc then { b with mds := mdDel b.mds sfx } else b) := by
  cases hb : s.blobs.get k with
  | none => rw [delMd_none hb]; simp [hb]
  | some b =>
    cases hs : inScope b sc
    · rw [delMd_oos hb hs]; simp [hb, hs]
    · rw [delMd_eq hb hs]; simp [hs]

theorem markComplete_get_self (s : State) (k : Key) :
    (markComplete s k).1.blobs.get k =
      (s.blobs.get k).map (fun b => if b.complete then b else
        { b with complete := true, mds := b.mds.filter (·.movable) }) := by
  cases hb : s.blobs.get k with
  | none => rw [markComplete_none hb]; simp [hb]
  | some b =>
    rw [markComplete_eq hb]
    cases hc : b.complete <;> simp [hc, hb]

theorem delete_get_self (s : State) (k : Key) (sc : Scope) :
    (delete s k sc).1.blobs.get k =
      (s.blobs.get k).bind (fun b => if inScope b sc then none else some b) := by
  cases hb : s.blobs.get k with
  | none => rw [delete_none hb]; simp [hb]
  | some b =>
    cases hs : inScope b sc
    · rw [delete_oos hb hs]; simp [hb, hs]
    · rw [delete_eq hb hs]; simp [release, hs]

theorem delete_out (s : State) (k : Key) (sc : Scope) :
    (delete s k sc).2 = match s.blobs.get k with
      | none => .err .notExist
      | some b => if inScope b sc then .ok else .err .outOfScope := by
  cases hb : s.blobs.get k with
  | none => rw [delete_none hb]
  | some b =>
    cases hs : inScope b sc
    · rw [delete_oos hb hs]; simp [hs]
    · rw [delete_eq hb hs]; simp [hs]

end KrakenModel.BlobStore

namespace KrakenModel.Tiered
open KrakenModel KrakenModel.BlobStore

/-! ### the flusher map -/

@[simp] theorem fget_fdel_self (m : List (Key × Nat)) (k : Key) : fget (fdel m k) k = none := by
  induction m with
  | nil => rfl
  | cons e m ih =>
    obtain ⟨k', id⟩ := e
    by_cases h : k' = k
    · simp [fdel, h] at ih ⊢; exact ih
    · simp [fdel, h, fget] at ih ⊢; exact ih

theorem fget_fdel_ne (m : List (Key × Nat)) {k k' : Key} (h : k' ≠ k) : fget (fdel m k) k' = fget m k' := by
  induction m with
  | nil => rfl
  | cons e m ih =>
    obtain ⟨k'', id⟩ := e
    by_cases h2 : k'' = k
    · subst h2
      have : k'' ≠ k' := fun e => h e.symm
      simp [fdel, fget, this] at ih ⊢; exact ih
    · simp [fdel, h2, fget] at ih ⊢
      split <;> simp_all

theorem fget_fdel (m : List (Key × Nat)) (k k' : Key) :
    fget (fdel m k) k' = if k' = k then none else fget m k' := by
  by_cases h : k' = k
  · subst h; simp
  · simp [h, fget_fdel_ne m h]

theorem fget_fset (m : List (Key × Nat)) (k k' : Key) (id : Nat) :
    fget (fset m k id) k' = if k' = k then some id else fget m k' := by
  by_cases h : k' = k
  · subst h; simp [fset, fget]
  · have : k ≠ k' := fun e => h e.symm
    simp [fset, fget, this, h, fget_fdel_ne m h]

/-! ### the invariant -/

structure Inv1 (s : GState) : Prop where
  good : GoodT s.t
  /-- a key that is not live is nowhere -/
  dead : ∀ k, s.g.live k = false →
    s.t.mem.blobs.get k = none ∧ s.t.disk.blobs.get k = none ∧ fget s.t.fmap k = none
  /-- a key with a flusher entry is in memory and banned from eviction -/
  ent : ∀ k id, fget s.t.fmap k = some id → ∃ m, s.t.mem.blobs.get k = some m ∧ m.banned = true

theorem inv1_init (mc dc nw : Nat) (h1 : mc < U64) (h2 : dc < U64) : Inv1 (ginit mc dc nw) :=
  { good := ⟨good_init h1, good_init h2⟩
    dead := fun k _ => ⟨rfl, rfl, rfl⟩
    ent := fun k id h => by simp [ginit, tinit, fget] at h }

/-- generic preservation: a transition on key `k0` that touches memory and disk only at `k0`
    (evicting elsewhere), given the facts at `k0` itself -/
theorem inv1_of_onlyKey {s s' : GState} (hi : Inv1 s) (k0 : Key) (hg : GoodT s'.t)
    (hm : OnlyKey s.t.mem s'.t.mem k0) (hd : OnlyKey s.t.disk s'.t.disk k0)
    (hf : ∀ k, k ≠ k0 → fget s'.t.fmap k = fget s.t.fmap k)
    (hl : ∀ k, k ≠ k0 → s'.g.live k = s.g.live k)
    (h0d : s'.g.live k0 = false →
      s'.t.mem.blobs.get k0 = none ∧ s'.t.disk.blobs.get k0 = none ∧ fget s'.t.fmap k0 = none)
    (h0e : ∀ id, fget s'.t.fmap k0 = some id → ∃ m, s'.t.mem.blobs.get k0 = some m ∧ m.banned = true) :
    Inv1 s' := by
  refine { good := hg, dead := ?_, ent := ?_ }
  · intro k hk
    by_cases e : k = k0
    · subst e; exact h0d hk
    · rw [hl k e] at hk
      obtain ⟨a, b, c⟩ := hi.dead k hk
      refine ⟨?_, ?_, by rw [hf k e]; exact c⟩
      · rcases hm k e with h | ⟨h, _⟩
        · rw [h]; exact a
        · exact h
      · rcases hd k e with h | ⟨h, _⟩
        · rw [h]; exact b
        · exact h
  · intro k id hk
    by_cases e : k = k0
    · subst e; exact h0e id hk
    · rw [hf k e] at hk
      obtain ⟨m, hmk, hb⟩ := hi.ent k id hk
      rcases hm k e with h | ⟨_, b, hb', _, hnb⟩
      · exact ⟨m, by rw [h]; exact hmk, hb⟩
      · rw [hmk] at hb'; simp at hb'; subst hb'; simp [hb] at hnb


theorem inv1_of_same {s s' : GState} (hi : Inv1 s) (hg : GoodT s'.t)
    (hm : s'.t.mem.blobs = s.t.mem.blobs) (hd : s'.t.disk.blobs = s.t.disk.blobs)
    (hf : s'.t.fmap = s.t.fmap) (hl : s'.g.live = s.g.live) : Inv1 s' :=
  { good := hg
    dead := fun k hk => by rw [hm, hd, hf]; rw [hl] at hk; exact hi.dead k hk
    ent := fun k id hk => by rw [hm]; rw [hf] at hk; exact hi.ent k id hk }

theorem inStore_false {s : State} {k : Key} (h : inStore s k = false) : s.blobs.get k = none := by
  unfold inStore at h
  cases hb : s.blobs.get k <;> simp_all

theorem upd_self {β : Type} (f : Key → β) (k : Key) (v : β) : upd f k v k = v := by simp [upd]
theorem upd_ne {β : Type} (f : Key → β) {k k' : Key} (v : β) (h : k' ≠ k) : upd f k v k' = f k' := by simp [upd, h]

theorem markMetadataDirty_mem (t : TState) (k : Key) (sfx : Nat) :
    (markMetadataDirty t k sfx).mem = t.mem ∨ (markMetadataDirty t k sfx).mem = (ban t.mem k .any).1 := by
  unfold markMetadataDirty
  split
  · exact .inl rfl
  · split
    · exact .inr rfl
    · exact .inl rfl

theorem markMetadataDirty_disk (t : TState) (k : Key) (sfx : Nat) : (markMetadataDirty t k sfx).disk = t.disk := by
  unfold markMetadataDirty
  split
  · rfl
  · split <;> rfl

/-- `markMetadataDirty` changes the map at its key only, and a new entry comes with a ban -/
theorem markMetadataDirty_fmap (t : TState) (k : Key) (sfx : Nat) :
    ((markMetadataDirty t k sfx).fmap = t.fmap ∧ (markMetadataDirty t k sfx).mem = t.mem) ∨
    (fget t.fmap k = none ∧ (markMetadataDirty t k sfx).fmap = fset t.fmap k t.nextEnt ∧
      (markMetadataDirty t k sfx).mem = (ban t.mem k .any).1) := by
  unfold markMetadataDirty
  split
  · exact .inl ⟨rfl, rfl⟩
  · rename_i hn
    split
    · exact .inr ⟨hn, rfl, rfl⟩
    · exact .inl ⟨rfl, rfl⟩

/-- common part of `SetMetadata` / `DeleteMetadata` through memory: ban, mutate the metadata, mark dirty -/
theorem inv1_mdMutation {s : GState} (hi : Inv1 s) (k : Key) (sc : Scope) (m1 : State) (g' : Ghost)
    (hm1g : Good m1) (hm1t : Touch (ban s.t.mem k sc).1 m1 k)
    (hm1b : ∀ b, (ban s.t.mem k sc).1.blobs.get k = some b → ∃ b', m1.blobs.get k = some b' ∧ b'.banned = b.banned)
    (hok : (ban s.t.mem k sc).2 = .ok) (sfx : Nat) (hl : g'.live = s.g.live) :
    Inv1 { t := markMetadataDirty { s.t with mem := m1 } k sfx, g := g' } := by
  have hgm := hi.good.1
  -- the key is in memory, in scope, and banned after the ban
  have hout := ban_out hgm k sc
  rw [hok] at hout
  cases hb : s.t.mem.blobs.get k with
  | none => simp [hb] at hout
  | some b =>
    simp only [hb] at hout
    have hs : inScope b sc = true := by
      cases h : inScope b sc
      · simp [h] at hout
      · rfl
    have hbk : (ban s.t.mem k sc).1.blobs.get k = some { b with banned := true } := by
      rw [ban_get_self hgm, hb]; simp [hs]
    obtain ⟨b1, hb1, hb1b⟩ := hm1b _ hbk
    simp only at hb1b
    have hlive : s.g.live k = true := by
      cases h : s.g.live k
      · have := (hi.dead k h).1; rw [hb] at this; simp at this
      · rfl
    have hgood' : GoodT (markMetadataDirty { s.t with mem := m1 } k sfx) :=
      goodT_markMetadataDirty (t := { s.t with mem := m1 }) ⟨hm1g, hi.good.2⟩ k sfx
    have hok1 : OnlyKey s.t.mem m1 k :=
      onlyKey_trans (onlyKey_of_touch (touch_ban s.t.mem k sc)) (onlyKey_of_touch hm1t)
    refine inv1_of_onlyKey hi k hgood' ?_ ?_ ?_ ?_ ?_ ?_
    · rcases markMetadataDirty_mem { s.t with mem := m1 } k sfx with h | h
      · simp only [h]; exact hok1
      · simp only [h]; exact onlyKey_trans hok1 (onlyKey_of_touch (touch_ban m1 k .any))
    · simp only [markMetadataDirty_disk]; exact onlyKey_refl _ _
    · intro k' hk'
      rcases markMetadataDirty_fmap { s.t with mem := m1 } k sfx with ⟨h, _⟩ | ⟨_, h, _⟩
      · simp only [h]
      · simp only [h, fget_fset, hk', if_false]
    · intro k' _; simp only [hl]
    · intro hd; simp only [hl] at hd; rw [hlive] at hd; simp at hd
    · intro id _
      rcases markMetadataDirty_fmap { s.t with mem := m1 } k sfx with ⟨_, h⟩ | ⟨_, _, h⟩
      · simp only [h]; exact ⟨b1, hb1, hb1b⟩
      · simp only [h]
        refine ⟨{ b1 with banned := true }, ?_, rfl⟩
        rw [ban_get_self hm1g, hb1]; simp [inScope]

theorem inv1_client {s : GState} (hi : Inv1 s) (o : COp) : Inv1 (gstep s (.client o)) := by
  have hgt : GoodT (gstep s (.client o)).t := goodT_capply hi.good o
  obtain ⟨hgm, hgd⟩ := hi.good
  cases o with
  | «open» k sc =>
    refine inv1_of_same hi hgt ?_ ?_ ?_ rfl
    · simp only [gstep, capply, tOpen]
      split
      · exact openB_blobs _ _ _
      · split <;> rfl
      · rfl
    · simp only [gstep, capply, tOpen]
      split
      · rfl
      · split
        · exact openB_blobs _ _ _
        · rfl
      · rfl
    · simp only [gstep, capply, tOpen]
      split
      · rfl
      · split <;> rfl
      · rfl
  | has k sc =>
    refine inv1_of_same hi hgt ?_ ?_ ?_ rfl <;> (simp only [gstep, capply, tHas]; split <;> rfl)
  | list sc => exact inv1_of_same hi hgt rfl rfl rfl rfl
  | stat k sc =>
    refine inv1_of_same hi hgt ?_ ?_ ?_ rfl <;> (simp only [gstep, capply, tStat]; split <;> rfl)
  | getMd k sc sfx =>
    refine inv1_of_same hi hgt ?_ ?_ ?_ rfl <;> (simp only [gstep, capply, tGetMd]; split <;> rfl)
  | create k n d =>
    have gm' := good_create hgm k n d
    have gd' := good_create hgd k n d
    simp only [gstep, capply]
    unfold tCreate
    split
    · exact inv1_of_same hi ⟨hgm, hgd⟩ rfl rfl rfl rfl
    · rename_i hvis
      simp only [Bool.or_eq_true, not_or, Bool.not_eq_true] at hvis
      have hM := inStore_false hvis.1
      have hD := inStore_false hvis.2
      have hE : fget s.t.fmap k = none := by
        cases h : fget s.t.fmap k with
        | none => rfl
        | some id => obtain ⟨m, hm, _⟩ := hi.ent k id h; rw [hM] at hm; simp at hm
      have okm := onlyKey_create hgm k n d
      have okd := onlyKey_create hgd k n d
      have cm := create_get_key (s := s.t.mem) k n d
      have cd := create_get_key (s := s.t.disk) k n d
      -- the three outcomes of the creation in memory
      rcases cm with ⟨⟨b, h⟩, _⟩ | ⟨_, ⟨⟨i, ev, hcm⟩, _⟩ | ⟨⟨e, hcm, hne⟩, hMn⟩⟩
      · rw [hM] at h; simp at h
      · -- created in memory
        simp only [hcm]
        refine inv1_of_onlyKey hi k ⟨gm', hgd⟩ okm (onlyKey_refl _ _) (fun _ _ => rfl) ?_ ?_ ?_
        · intro k' hk'; simp [gclient, upd_ne _ _ hk']
        · intro h; simp [gclient, upd_self] at h
        · intro id h; simp only at h; rw [hE] at h; simp at h
      · by_cases hns : e = .noSpace
        · subst hns
          simp only [hcm]
          rcases cd with ⟨⟨b, h⟩, _⟩ | ⟨_, ⟨⟨i, ev, hcd⟩, _⟩ | ⟨⟨e2, hcd, hne2⟩, hDn⟩⟩
          · rw [hD] at h; simp at h
          · -- fell back to disk
            simp only [hcd]
            refine inv1_of_onlyKey hi k ⟨gm', gd'⟩ okm okd (fun _ _ => rfl) ?_ ?_ ?_
            · intro k' hk'; simp [gclient, upd_ne _ _ hk']
            · intro h; simp [gclient, upd_self] at h
            · intro id h; simp only at h; rw [hE] at h; simp at h
          · -- refused by both
            simp only [hcd]
            refine inv1_of_onlyKey hi k ⟨gm', gd'⟩ okm okd (fun _ _ => rfl) (fun _ _ => rfl) ?_ ?_
            · intro _; exact ⟨hMn, hDn, hE⟩
            · intro id h; simp only at h; rw [hE] at h; simp at h
        · -- refused by memory for another reason
          have fin : Inv1 { t := { s.t with mem := (create s.t.mem k n d).1 }, g := s.g } := by
            refine inv1_of_onlyKey hi k ⟨gm', hgd⟩ okm (onlyKey_refl _ _) (fun _ _ => rfl) (fun _ _ => rfl) ?_ ?_
            · intro _; exact ⟨hMn, hD, hE⟩
            · intro id h; simp only at h; rw [hE] at h; simp at h
          cases e <;> first | exact absurd rfl hns | (simp only [hcm]; exact fin)
  | markComplete k =>
    have hlive : ∀ o, (gclient s.g (.markComplete k) o).live = s.g.live := by
      intro o; cases o <;> simp only [gclient] <;> (try split) <;> rfl
    simp only [gstep, capply]
    unfold tMarkComplete
    split
    · exact inv1_of_same hi ⟨hgm, hgd⟩ rfl rfl rfl (hlive _)
    · split
      · exact inv1_of_same hi ⟨hgm, hgd⟩ rfl rfl rfl (hlive _)
      · have hbo := ban_out hgm k .any
        cases hM : s.t.mem.blobs.get k with
        | none =>
          simp only [hM] at hbo
          simp only [hbo]
          refine inv1_of_onlyKey hi k ⟨hgm, good_markComplete hgd k⟩ (onlyKey_refl _ _)
            (onlyKey_of_touch (touch_markComplete _ _)) (fun _ _ => rfl) (fun k' _ => by simp only [hlive]) ?_ ?_
          · intro hl
            simp only [hlive] at hl
            obtain ⟨a, b, c⟩ := hi.dead k hl
            exact ⟨a, by simp only [markComplete_get_self, b, Option.map_none], c⟩
          · intro id h; exact hi.ent k id h
        | some b =>
          simp only [hM, inScope_any, if_true] at hbo
          have hb1 : (ban s.t.mem k .any).1.blobs.get k = some { b with banned := true } := by
            rw [ban_get_self hgm, hM]; simp [inScope]
          have hco : (markComplete (ban s.t.mem k .any).1 k).2 = .ok := by
            rw [markComplete_eq hb1]; split <;> rfl
          have hb2 : ∃ b2, (markComplete (ban s.t.mem k .any).1 k).1.blobs.get k = some b2 ∧ b2.banned = true := by
            rw [markComplete_get_self, hb1]
            simp only [Option.map_some]
            split <;> exact ⟨_, rfl, rfl⟩
          simp only [hbo, hco]
          have hgb := good_ban hgm k .any
          have hgc := good_markComplete hgb k
          refine inv1_of_onlyKey hi k ⟨hgc, hgd⟩
            (onlyKey_trans (onlyKey_of_touch (touch_ban _ _ _)) (onlyKey_of_touch (touch_markComplete _ _)))
            (onlyKey_refl _ _) ?_ (fun k' _ => by simp only [hlive]) ?_ ?_
          · intro k' hk'; simp only [markDirty, fget_fset, hk', if_false]
          · intro hl
            simp only [hlive] at hl
            have := (hi.dead k hl).1; rw [hM] at this; simp at this
          · intro id _; exact hb2
  | delete k sc =>
    simp only [gstep, capply]
    unfold tDelete
    have hdo := delete_out s.t.mem k sc
    cases hM : s.t.mem.blobs.get k with
    | none =>
      simp only [hM] at hdo
      simp only [hdo]
      have hE : fget s.t.fmap k = none := by
        cases h : fget s.t.fmap k with
        | none => rfl
        | some id => obtain ⟨m, hm, _⟩ := hi.ent k id h; rw [hM] at hm; simp at hm
      have hdd := delete_out s.t.disk k sc
      have hlive : ∀ k', k' ≠ k → (gclient s.g (.delete k sc) (delete s.t.disk k sc).2).live k' = s.g.live k' := by
        intro k' hk'
        generalize (delete s.t.disk k sc).2 = o
        cases o <;> simp [gclient, upd_ne _ _ hk']
      refine inv1_of_onlyKey hi k ⟨hgm, good_delete hgd k sc⟩ (onlyKey_refl _ _)
        (onlyKey_of_touch (touch_delete _ _ _)) (fun _ _ => rfl) hlive ?_ ?_
      · intro hl
        refine ⟨hM, ?_, hE⟩
        rw [delete_get_self]
        cases hD : s.t.disk.blobs.get k with
        | none => rfl
        | some b =>
          simp only [hD] at hdd
          cases hs : inScope b sc
          · -- the delete was refused: the ghost did not change, the key is live
            simp only [hs] at hdd
            rw [hdd] at hl
            simp only [gclient] at hl
            have := (hi.dead k hl).2.1; rw [hD] at this; simp at this
          · simp [hs]
      · intro id h; simp only at h; rw [hE] at h; simp at h
    | some b =>
      simp only [hM] at hdo
      cases hs : inScope b sc
      · simp only [hs] at hdo
        simp only [hdo]
        exact inv1_of_same hi ⟨hgm, hgd⟩ rfl rfl rfl rfl
      · simp only [hs, if_true] at hdo
        simp only [hdo]
        refine inv1_of_onlyKey hi k ⟨good_delete hgm k sc, good_delete hgd k .any⟩
          (onlyKey_of_touch (touch_delete _ _ _)) (onlyKey_of_touch (touch_delete _ _ _)) ?_ ?_ ?_ ?_
        · intro k' hk'; simp only [fget_fdel, hk', if_false]
        · intro k' hk'; simp [gclient, upd_ne _ _ hk']
        · intro _
          refine ⟨?_, ?_, by simp⟩
          · rw [delete_get_self, hM]; simp [hs]
          · rw [delete_get_self]
            cases s.t.disk.blobs.get k <;> simp [inScope]
        · intro id h; simp at h
  | setMd k sc m =>
    simp only [gstep, capply]
    unfold tSetMd
    have hbo := ban_out hgm k sc
    have hlive : ∀ o, (gclient s.g (.setMd k sc m) o).live = s.g.live := by
      intro o; cases o <;> rfl
    cases hM : s.t.mem.blobs.get k with
    | none =>
      simp only [hM] at hbo
      simp only [hbo]
      refine inv1_of_onlyKey hi k ⟨hgm, good_setMd hgd k sc m⟩ (onlyKey_refl _ _)
        (onlyKey_of_touch (touch_setMd _ _ _ _)) (fun _ _ => rfl) (fun k' _ => by simp only [hlive]) ?_ ?_
      · intro hl
        simp only [hlive] at hl
        obtain ⟨a, b, c⟩ := hi.dead k hl
        exact ⟨a, by simp only [setMd_get_self, b, Option.map_none], c⟩
      · intro id h; exact hi.ent k id h
    | some b =>
      simp only [hM] at hbo
      cases hs : inScope b sc
      · simp only [hs] at hbo
        simp only [hbo]
        exact inv1_of_same hi ⟨hgm, hgd⟩ rfl rfl rfl (hlive _)
      · simp only [hs, if_true] at hbo
        simp only [hbo]
        exact inv1_mdMutation hi k sc _ _ (good_setMd (good_ban hgm k sc) k .any m) (touch_setMd _ _ _ _)
          (fun b1 hb1 => by rw [setMd_get_self, hb1]; exact ⟨_, rfl, by simp [inScope]⟩) hbo m.sfx (hlive _)
  | delMd k sc sfx =>
    simp only [gstep, capply]
    unfold tDelMd
    have hbo := ban_out hgm k sc
    have hlive : ∀ o, (gclient s.g (.delMd k sc sfx) o).live = s.g.live := by
      intro o; cases o <;> rfl
    cases hM : s.t.mem.blobs.get k with
    | none =>
      simp only [hM] at hbo
      simp only [hbo]
      refine inv1_of_onlyKey hi k ⟨hgm, good_delMd hgd k sc sfx⟩ (onlyKey_refl _ _)
        (onlyKey_of_touch (touch_delMd _ _ _ _)) (fun _ _ => rfl) (fun k' _ => by simp only [hlive]) ?_ ?_
      · intro hl
        simp only [hlive] at hl
        obtain ⟨a, b, c⟩ := hi.dead k hl
        exact ⟨a, by simp only [delMd_get_self, b, Option.map_none], c⟩
      · intro id h; exact hi.ent k id h
    | some b =>
      simp only [hM] at hbo
      cases hs : inScope b sc
      · simp only [hs] at hbo
        simp only [hbo]
        exact inv1_of_same hi ⟨hgm, hgd⟩ rfl rfl rfl (hlive _)
      · simp only [hs, if_true] at hbo
        simp only [hbo]
        exact inv1_mdMutation hi k sc _ _ (good_delMd (good_ban hgm k sc) k .any sfx) (touch_delMd _ _ _ _)
          (fun b1 hb1 => by rw [delMd_get_self, hb1]; exact ⟨_, rfl, by simp [inScope]⟩) hbo sfx (hlive _)

/-! worker steps -/

theorem inv1_same_t {s : GState} (hi : Inv1 s) (t' : TState) (hm : t'.mem = s.t.mem) (hd : t'.disk = s.t.disk)
    (hf : t'.fmap = s.t.fmap) : Inv1 { t := t', g := s.g } :=
  inv1_of_same hi (by show Good t'.mem ∧ Good t'.disk; rw [hm, hd]; exact hi.good)
    (by show t'.mem.blobs = _; rw [hm]) (by show t'.disk.blobs = _; rw [hd]) hf rfl

theorem live_of_mem {s : GState} (hi : Inv1 s) {k : Key} {b : Blob} (h : s.t.mem.blobs.get k = some b) :
    s.g.live k = true := by
  cases hl : s.g.live k
  · have := (hi.dead k hl).1; rw [h] at this; simp at this
  · rfl

theorem live_of_disk {s : GState} (hi : Inv1 s) {k : Key} {b : Blob} (h : s.t.disk.blobs.get k = some b) :
    s.g.live k = true := by
  cases hl : s.g.live k
  · have := (hi.dead k hl).2.1; rw [h] at this; simp at this
  · rfl

theorem inv1_disk_step {s : GState} (hi : Inv1 s) (t' : TState) (k0 : Key) (hm : t'.mem = s.t.mem)
    (hf : t'.fmap = s.t.fmap) (hg : Good t'.disk) (ht : OnlyKey s.t.disk t'.disk k0)
    (hn : s.g.live k0 = false → t'.disk.blobs.get k0 = none) : Inv1 { t := t', g := s.g } := by
  refine inv1_of_onlyKey hi k0 (by show Good t'.mem ∧ Good t'.disk; rw [hm]; exact ⟨hi.good.1, hg⟩)
    (by show OnlyKey _ t'.mem _; rw [hm]; exact onlyKey_refl _ _) ht
    (fun k _ => by show fget t'.fmap k = _; rw [hf]) (fun _ _ => rfl) ?_ ?_
  · intro hl
    obtain ⟨a, _, c⟩ := hi.dead k0 hl
    exact ⟨by show t'.mem.blobs.get k0 = none; rw [hm]; exact a, hn hl, by show fget t'.fmap k0 = none; rw [hf]; exact c⟩
  · intro id h
    have h' : fget s.t.fmap k0 = some id := by rw [← hf]; exact h
    obtain ⟨m, hmk, hb⟩ := hi.ent k0 id h'
    exact ⟨m, by show t'.mem.blobs.get k0 = some m; rw [hm]; exact hmk, hb⟩

theorem inv1_fdel {s : GState} (hi : Inv1 s) (t' : TState) (k0 : Key) (hm : t'.mem = s.t.mem)
    (hd : t'.disk = s.t.disk) (hf : t'.fmap = fdel s.t.fmap k0) : Inv1 { t := t', g := s.g } := by
  refine inv1_of_onlyKey hi k0 (by show Good t'.mem ∧ Good t'.disk; rw [hm, hd]; exact hi.good)
    (by show OnlyKey _ t'.mem _; rw [hm]; exact onlyKey_refl _ _)
    (by show OnlyKey _ t'.disk _; rw [hd]; exact onlyKey_refl _ _)
    (fun k hk => by show fget t'.fmap k = _; rw [hf, fget_fdel_ne _ hk]) (fun _ _ => rfl) ?_ ?_
  · intro hl
    obtain ⟨a, b, _⟩ := hi.dead k0 hl
    exact ⟨by show t'.mem.blobs.get k0 = none; rw [hm]; exact a,
           by show t'.disk.blobs.get k0 = none; rw [hd]; exact b,
           by show fget t'.fmap k0 = none; rw [hf]; simp⟩
  · intro id h
    have : fget t'.fmap k0 = none := by rw [hf]; simp
    rw [this] at h; simp at h

theorem inv1_copyStep {s : GState} (hi : Inv1 s) (w : Worker) (pick : Nat) :
    Inv1 { t := (copyStep s.t w pick).1, g := s.g } := by
  obtain ⟨hgm, hgd⟩ := hi.good
  unfold copyStep
  split
  · exact inv1_same_t hi _ rfl rfl rfl
  · split
    · exact inv1_same_t hi _ rfl rfl rfl
    · simp only
      split
      · rename_i db hdb
        have hD := (hBlob_some hdb).1
        have hlive := live_of_disk hi hD
        exact inv1_disk_step hi _ w.key rfl rfl (good_setData' hgd _ _ _ hD)
          (onlyKey_of_touch (touch_setData _ _ _ _)) (fun hl => by rw [hlive] at hl; simp at hl)
      · exact inv1_same_t hi _ rfl rfl rfl

theorem inv1_wstep {s : GState} (hi : Inv1 s) (w : Worker) (pick : Nat) :
    Inv1 { t := (wstep s.t w pick).1, g := s.g } := by
  obtain ⟨hgm, hgd⟩ := hi.good
  unfold wstep
  split
  · exact inv1_same_t hi _ rfl rfl rfl
  · -- next
    split
    · exact inv1_same_t hi _ rfl rfl rfl
    · split <;> exact inv1_same_t hi _ rfl rfl rfl
  · -- fOpen
    split
    · refine inv1_of_same hi ⟨good_openB hgm _ _, hgd⟩ (openB_blobs _ _ _) rfl rfl rfl
    · exact inv1_same_t hi _ rfl rfl rfl
    · exact inv1_same_t hi _ rfl rfl rfl
  · -- fCreate
    split
    · exact inv1_same_t hi _ rfl rfl rfl
    · rename_i id hE
      obtain ⟨m, hm, _⟩ := hi.ent w.key id hE
      have hlive := live_of_mem hi hm
      have step : Inv1 { t := { s.t with disk := (create s.t.disk w.key w.dataSize []).1 }, g := s.g } :=
        inv1_disk_step hi _ w.key rfl rfl (good_create hgd _ _ _) (onlyKey_create hgd _ _ _)
          (fun hl => by rw [hlive] at hl; simp at hl)
      simp only
      split <;> exact inv1_same_t step _ rfl rfl rfl
  · exact inv1_same_t hi _ rfl rfl rfl
  · exact inv1_copyStep hi w pick
  · exact inv1_copyStep hi w pick
  · -- fCopied
    split
    · exact inv1_same_t hi _ rfl rfl rfl
    · refine inv1_disk_step hi _ w.key rfl rfl (good_markComplete hgd _) (onlyKey_of_touch (touch_markComplete _ _)) ?_
      intro hl
      show (markComplete s.t.disk w.key).1.blobs.get w.key = none
      rw [markComplete_get_self, (hi.dead _ hl).2.1]; rfl
  · exact inv1_same_t hi _ rfl rfl rfl
  · exact inv1_same_t hi _ rfl rfl rfl
  · exact inv1_same_t hi _ rfl rfl rfl
  · -- mdWrite
    simp only
    split
    · exact inv1_same_t hi _ rfl rfl rfl
    · refine inv1_disk_step hi _ w.key rfl rfl (good_delMd hgd _ _ _) (onlyKey_of_touch (touch_delMd _ _ _ _)) ?_
      intro hl
      show (delMd s.t.disk w.key .any _).1.blobs.get w.key = none
      rw [delMd_get_self, (hi.dead _ hl).2.1]; rfl
    · refine inv1_disk_step hi _ w.key rfl rfl (good_setMd hgd _ _ _) (onlyKey_of_touch (touch_setMd _ _ _ _)) ?_
      intro hl
      show (setMd s.t.disk w.key .any _).1.blobs.get w.key = none
      rw [setMd_get_self, (hi.dead _ hl).2.1]; rfl
  · -- mdCheck
    simp only
    split
    · exact inv1_fdel hi _ w.key rfl rfl rfl
    · exact inv1_same_t hi _ rfl rfl rfl
  · -- fail1
    refine inv1_disk_step hi _ w.key rfl rfl (good_delete hgd _ _) (onlyKey_of_touch (touch_delete _ _ _)) ?_
    intro hl
    show (delete s.t.disk w.key .any).1.blobs.get w.key = none
    rw [delete_get_self, (hi.dead _ hl).2.1]; rfl
  · exact inv1_fdel hi _ w.key rfl rfl rfl
  · -- unban: only while the key has no flusher entry
    split
    · exact inv1_same_t hi _ rfl rfl rfl
    · rename_i hE
      refine inv1_of_onlyKey hi w.key ⟨good_unban hgm _ _, hgd⟩ (onlyKey_of_touch (touch_unban _ _ _))
        (onlyKey_refl _ _) (fun _ _ => rfl) (fun _ _ => rfl) ?_ ?_
      · intro hl
        obtain ⟨a, b, c⟩ := hi.dead w.key hl
        refine ⟨?_, b, c⟩
        show (unban s.t.mem w.key .any).1.blobs.get w.key = none
        rw [unban_get_self, a]; rfl
      · intro id h
        have : fget s.t.fmap w.key = some id := h
        rw [hE] at this; simp at this

theorem inv1_step {s : GState} (hi : Inv1 s) (a : Act) : Inv1 (gstep s a) := by
  cases a with
  | client o => exact inv1_client hi o
  | work i pick =>
    simp only [gstep, tstep]
    split
    · exact hi
    · rename_i w _
      exact inv1_same_t (inv1_wstep hi w pick) _ rfl rfl rfl

theorem inv1_run (mc dc nw : Nat) (h1 : mc < U64) (h2 : dc < U64) (sched : List Act) :
    Inv1 ((gsys mc dc nw).run sched) :=
  Sys.run_inv (gsys mc dc nw) Inv1 (inv1_init mc dc nw h1 h2) (fun _ a hi => inv1_step hi a) sched

end KrakenModel.Tiered
