import KrakenModel.Proof.C04Move
/-
  C04 proof library, part 6: `NewTorrent` (restorePieces and, when every piece is complete, the commit).
-/
set_option linter.unusedSectionVars false
set_option linter.unusedSimpArgs false
namespace KrakenModel.AgentCrash
open KrakenModel.FS

theorem mem_addMd (mds : List Name) (n x : Name) : x ∈ addMd mds n ↔ x ∈ mds ∨ x = n := by
  unfold addMd; split
  · rename_i h; constructor
    · intro hx; exact Or.inl hx
    · rintro (hx | rfl); exact hx; exact h
  · simp

/-- what `touch` changes: possibly the access time sidecar, which then exists and is registered -/
theorem touch_spec (cfg : Cfg) (e : Entry) (fs : FS Name) :
    (touch cfg e fs).1.cache = e.cache ∧
    (Name.data ∉ e.mds → Name.data ∉ (touch cfg e fs).1.mds) ∧
    (∀ p n, n ≠ Name.lat → (applyAll fs (touch cfg e fs).2).file? p n = fs.file? p n) ∧
    ((∀ m ∈ e.mds, (fs.file? (entryDir cfg e.cache) m).isSome = true) →
      ∀ n ∈ (touch cfg e fs).1.mds, ((applyAll fs (touch cfg e fs).2).file? (entryDir cfg e.cache) n).isSome = true) := by
  unfold touch
  by_cases hs : e.stale = true
  · simp only [hs, if_true]
    have hlat : ((applyAll fs (cawPlan fs (entryDir cfg e.cache) Name.lat cfg.lat)).file? (entryDir cfg e.cache) Name.lat).isSome = true := by
      rw [file?_cawPlan _ _ _ _ (entryDir_ne_nil cfg _)]; rfl
    refine ⟨by simp, ?_, ?_, ?_⟩
    · intro h hm; rcases (mem_addMd _ _ _).mp hm with h' | h'
      · exact h h'
      · cases h'
    · intro p n hn
      exact file?_cawPlan_other_all _ _ _ _ _ _ _ (by intro e'; exact hn (Prod.ext_iff.mp e').2)
    · intro hall n hn
      by_cases hl : n = Name.lat
      · subst hl; exact hlat
      · rw [file?_cawPlan_other_all _ _ _ _ _ _ _ (by intro e'; exact hl (Prod.ext_iff.mp e').2)]
        rcases (mem_addMd _ _ _).mp hn with h' | h'
        · exact hall n h'
        · exact absurd h' hl
  · simp only [hs, Bool.false_eq_true, if_false, applyAll_nil]
    exact ⟨by simp, fun h => h, fun _ _ _ => by simp, fun hall n hn => hall n hn⟩

theorem all_id_replicate_false (n : Nat) : (List.replicate n false).all id = true ↔ n = 0 := by
  cases n <;> simp [List.replicate_succ]

theorem getElem?_decodeStatus (b : Bytes) (i : Nat) : (decodeStatus b)[i]? = some true ↔ b[i]? = some 1 := by
  simp only [decodeStatus, List.getElem?_map]
  cases b[i]? with
  | none => simp
  | some x => simp

theorem blob_nil_of_numPieces_zero (cfg : Cfg) (hpl : 0 < cfg.pl) (h : numPieces cfg = 0) : cfg.blob = [] := by
  have := numPieces_mul_ge cfg hpl
  rw [h] at this
  exact List.length_eq_zero_iff.mp (by omega)

/-- the blob file equals the blob when the status vector on disk marks every piece -/
theorem data_eq_blob_of_all_marked {cfg : Cfg} (hpl : 0 < cfg.pl) {fs : FS Name} (g : GoodFS cfg fs) (d st : Bytes)
    (hd : fs.file? (entryDir cfg false) Name.data = some d) (hs : fs.file? (entryDir cfg false) Name.status = some st)
    (hl : st.length = numPieces cfg) (hall : ∀ i, i < numPieces cfg → st[i]? = some 1) : d = cfg.blob :=
  eq_blob_of_all_ok cfg hpl d (g.dlen d hd) (fun i hi => g.pieces d st hd hs hl i hi (hall i hi))

/-- the last part of `NewTorrent`: the piece vector is known, the status file agrees with it -/
theorem newTorrent_tail {cfg : Cfg} (hpl : 0 < cfg.pl) (o : Order Name) (mo : List Name) (fsI fsT : FS Name)
    (pre cs : List (Call Name)) (hpreT : ∀ k, GoodFS cfg (applyPrefix k pre fsI)) (hfsT : applyAll fsI pre = fsT)
    (status : List Bool) (mds : List Name)
    (hcs : ∀ k, GoodFS cfg (applyPrefix k cs fsT))
    (hdat : ((applyAll fsT cs).file? (entryDir cfg false) Name.data).isSome = true)
    (hslen : status.length = numPieces cfg)
    (hst : ∃ st, (applyAll fsT cs).file? (entryDir cfg false) Name.status = some st ∧ st.length = numPieces cfg ∧
      ∀ i, i < numPieces cfg → (status[i]? = some true ↔ st[i]? = some 1))
    (hnd : Name.data ∉ mds) (hmds : ∀ n ∈ mds, ((applyAll fsT cs).file? (entryDir cfg false) n).isSome = true) :
    NewOK cfg fsI (if status.all id = true then
        match movePlan cfg o mo ⟨false, mds, false⟩ (applyAll fsT cs) with
        | some mv => ⟨{ entry := some ⟨true, mds, false⟩, tor := some ⟨status, true⟩ }, pre ++ cs ++ mv, Res.ok⟩
        | none => ⟨{ entry := some ⟨false, mds, false⟩ }, pre ++ cs, Res.errInit⟩
      else ⟨{ entry := some ⟨false, mds, false⟩, tor := some ⟨status, false⟩ }, pre ++ cs, Res.ok⟩) := by
  have hpc : ∀ k, GoodFS cfg (applyPrefix k (pre ++ cs) fsI) := prefix_append _ _ _ _ hpreT (by rw [hfsT]; exact hcs)
  have hfc : applyAll fsI (pre ++ cs) = applyAll fsT cs := by rw [applyAll_append, hfsT]
  have gC : GoodFS cfg (applyAll fsT cs) := by rw [← hfc]; exact goodFS_all hpc
  obtain ⟨st, hs1, hs2, hs3⟩ := hst
  obtain ⟨d, hd⟩ := Option.isSome_iff_exists.mp hdat
  by_cases hall : status.all id = true
  · simp only [hall, if_true]
    -- every piece is complete: the blob file is the blob
    have hdb : d = cfg.blob := by
      apply data_eq_blob_of_all_marked hpl gC d st hd hs1 hs2
      intro i hi
      apply (hs3 i hi).mp
      have hlt : i < status.length := by omega
      rw [List.getElem?_eq_getElem hlt]
      have := List.all_eq_true.mp hall status[i] (List.getElem_mem hlt)
      simpa using this
    obtain ⟨mv, hmv, hmp, hmc⟩ := movePlan_spec o mo ⟨false, mds, false⟩ (applyAll fsT cs) gC (by rw [hd, hdb]) hnd hmds
    rw [hmv]
    refine ⟨⟨?_, ?_⟩, rfl, ⟨_, rfl⟩⟩
    · exact prefix_append _ _ _ _ hpc (by rw [hfc]; exact hmp)
    · simp only
      rw [applyAll_append, hfc]
      refine ⟨?_, ?_⟩
      · intro e' he'; cases he'
        exact ⟨(by rw [hmc]; rfl), hnd, (fun h => by cases h)⟩
      · intro t ht; cases ht
        exact ⟨_, rfl, (fun _ => rfl), (fun h => by cases h)⟩
  · simp only [hall, Bool.false_eq_true, if_false]
    refine ⟨⟨hpc, ?_⟩, rfl, ⟨_, rfl⟩⟩
    simp only
    rw [hfc]
    refine ⟨?_, ?_⟩
    · intro e' he'; cases he'
      exact ⟨hdat, hnd, fun _ => hmds⟩
    · intro t ht; cases ht
      exact ⟨_, rfl, (fun h => by cases h), fun _ => ⟨rfl, hslen, (by simpa using hall), st, hs1, hs2, hs3⟩⟩

theorem newTorrent_ok {cfg : Cfg} (hpl : 0 < cfg.pl) (o : Order Name) (mo : List Name) (e0 : Entry) (fsI fs0 : FS Name)
    (pre0 : List (Call Name)) (hfs0 : fs0 = applyAll fsI pre0) (hpre : ∀ k, GoodFS cfg (applyPrefix k pre0 fsI))
    (hdat : (fs0.file? (entryDir cfg e0.cache) Name.data).isSome = true) (hnd : Name.data ∉ e0.mds)
    (hmds : e0.cache = false → ∀ n ∈ e0.mds, (fs0.file? (entryDir cfg false) n).isSome = true) :
    NewOK cfg fsI (newTorrent cfg o mo e0 fs0 pre0) := by
  unfold newTorrent
  simp only
  obtain ⟨tc1, tc2, tc3, tc4⟩ := touch_spec cfg e0 fs0
  generalize htouch : touch cfg e0 fs0 = tch at *
  obtain ⟨e, tc⟩ := tch
  simp only at tc1 tc2 tc3 tc4 ⊢
  have htcN : ∀ c ∈ tc, Neutral cfg c := by
    have := touch_neutral cfg e0 fs0; rw [htouch] at this; exact this
  have g0 : GoodFS cfg fs0 := by rw [hfs0]; exact goodFS_all hpre
  -- the tree after the touch
  have hpreT : ∀ k, GoodFS cfg (applyPrefix k (pre0 ++ tc) fsI) :=
    prefix_append _ _ _ _ hpre (by rw [← hfs0]; exact neutral_prefix g0 tc htcN)
  have hfsT : applyAll fsI (pre0 ++ tc) = applyAll fs0 tc := by rw [applyAll_append, hfs0]
  have gT : GoodFS cfg (applyAll fs0 tc) := by rw [← hfsT]; exact goodFS_all hpreT
  have hdatT : ((applyAll fs0 tc).file? (entryDir cfg e.cache) Name.data).isSome = true := by
    rw [tc1, tc3 _ _ (by simp)]; exact hdat
  have hndT : Name.data ∉ e.mds := tc2 hnd
  have hmdsT : e.cache = false → ∀ n ∈ e.mds, ((applyAll fs0 tc).file? (entryDir cfg false) n).isSome = true := by
    intro hc n hn
    rw [tc1] at hc
    have := tc4 (by rw [hc]; exact hmds hc) n hn
    rwa [hc] at this
  generalize hfsTd : applyAll fs0 tc = fsT at *
  by_cases hcache : e.cache = true
  · -- the entry is in the cache: complete
    simp only [hcache, if_true]
    refine ⟨⟨hpreT, ?_⟩, rfl, ⟨_, rfl⟩⟩
    rw [hfsT]
    refine ⟨?_, ?_⟩
    · intro e' he'; cases he'
      exact ⟨hdatT, hndT, fun h => by rw [hcache] at h; cases h⟩
    · intro t ht; cases ht
      exact ⟨e, rfl, fun _ => hcache, fun h => by cases h⟩
  · simp only [hcache, Bool.false_eq_true, if_false]
    have hcf : e.cache = false := by simpa using hcache
    rw [hcf] at hdatT
    -- facts shared by the two ways the status vector is (re)written
    have hreset : ∀ mds, Name.data ∉ mds → (∀ n ∈ mds, n = Name.status ∨ (fsT.file? (entryDir cfg false) n).isSome = true) →
        NewOK cfg fsI (if (List.replicate (numPieces cfg) false).all id = true then
          match movePlan cfg o mo ⟨false, mds, false⟩
              (applyAll fsT (cawPlan fsT (entryDir cfg false) Name.status (zeros (numPieces cfg)))) with
          | some mv => ⟨{ entry := some ⟨true, mds, false⟩, tor := some ⟨List.replicate (numPieces cfg) false, true⟩ },
              pre0 ++ tc ++ cawPlan fsT (entryDir cfg false) Name.status (zeros (numPieces cfg)) ++ mv, Res.ok⟩
          | none => ⟨{ entry := some ⟨false, mds, false⟩ },
              pre0 ++ tc ++ cawPlan fsT (entryDir cfg false) Name.status (zeros (numPieces cfg)), Res.errInit⟩
        else ⟨{ entry := some ⟨false, mds, false⟩, tor := some ⟨List.replicate (numPieces cfg) false, false⟩ },
          pre0 ++ tc ++ cawPlan fsT (entryDir cfg false) Name.status (zeros (numPieces cfg)), Res.ok⟩) := by
      intro mds hnd' hm
      apply newTorrent_tail hpl o mo fsI fsT (pre0 ++ tc) _ hpreT hfsT _ mds
      · exact phaseS0 gT (Or.inl hdatT)
      · rw [file?_cawPlan_other_all _ _ _ _ _ _ _ (by simp)]; exact hdatT
      · simp
      · refine ⟨zeros (numPieces cfg), file?_cawPlan _ _ _ _ (entryDir_ne_nil cfg false), by simp [zeros], ?_⟩
        intro i hi
        constructor
        · intro h; rw [List.getElem?_replicate] at h; split at h <;> simp at h
        · intro h; exact absurd h (zeros_no_one _ _)
      · exact hnd'
      · intro n hn
        rcases hm n hn with rfl | h
        · rw [file?_cawPlan _ _ _ _ (entryDir_ne_nil cfg false)]; rfl
        · by_cases hns : n = Name.status
          · subst hns; rw [file?_cawPlan _ _ _ _ (entryDir_ne_nil cfg false)]; rfl
          · rw [file?_cawPlan_other_all _ _ _ _ _ _ _ (by intro e'; exact hns (Prod.ext_iff.mp e').2)]; exact h
    by_cases hst : Name.status ∈ e.mds
    · obtain ⟨b, hb⟩ := Option.isSome_iff_exists.mp (hmdsT hcf Name.status hst)
      simp only [hst, hb, if_true, Option.isNone_some, Bool.false_eq_true, and_false, if_false]
      by_cases hlen : b.length = numPieces cfg
      · simp only [hlen, if_true]
        exact newTorrent_tail hpl o mo fsI fsT (pre0 ++ tc) [] hpreT hfsT (decodeStatus b) e.mds
          (by intro k; simpa [applyPrefix] using gT) (by simpa using hdatT) (by simp [decodeStatus, hlen])
          ⟨b, by simpa using hb, hlen, fun i _ => getElem?_decodeStatus b i⟩ hndT (by simpa using hmdsT hcf)
      · simp only [hlen, if_false]
        exact hreset e.mds hndT (fun n hn => Or.inr (hmdsT hcf n hn))
    · simp only [hst, if_false, false_and]
      apply hreset
      · intro h; rcases (mem_addMd _ _ _).mp h with h' | h'
        · exact hndT h'
        · cases h'
      · intro n hn
        rcases (mem_addMd _ _ _).mp hn with h' | h'
        · exact Or.inr (hmdsT hcf n h')
        · exact Or.inl h'

end KrakenModel.AgentCrash
