import KrakenModel.Model.DiskCrash
/-
  C06 proof library: the `_size` sidecar round-trips (`Atoi (Itoa n) = n` for sizes below 2^63).
-/
namespace KrakenModel.DiskCrash

theorem digitVal?_digit (d : Nat) (h : d < 10) : digitVal? (48 + d) = some d := by
  unfold digitVal?
  have : 48 ≤ 48 + d ∧ 48 + d ≤ 57 := by omega
  simp [this]

theorem digitsVal_append_single (xs : List Nat) (b acc : Nat) :
    digitsVal (xs ++ [b]) acc = (digitsVal xs acc).bind (fun v => (digitVal? b).map (fun d => v * 10 + d)) := by
  induction xs generalizing acc with
  | nil =>
    simp only [List.nil_append, digitsVal]
    cases digitVal? b <;> simp
  | cons x xs ih =>
    simp only [List.cons_append, digitsVal]
    cases digitVal? x with
    | none => simp
    | some d => exact ih _

theorem digitsVal_digitsRev (fuel n : Nat) (h : n < fuel) :
    digitsVal (digitsRev fuel n).reverse 0 = some n := by
  induction fuel generalizing n with
  | zero => omega
  | succ f ih =>
    simp only [digitsRev]
    by_cases hz : n / 10 = 0
    · simp only [hz, if_true, List.reverse_cons, List.reverse_nil, List.nil_append, digitsVal]
      have hlt : n < 10 := by omega
      have hm : n % 10 = n := Nat.mod_eq_of_lt hlt
      rw [hm, digitVal?_digit n hlt]; simp [digitsVal]
    · simp only [hz, if_false, List.reverse_cons]
      rw [digitsVal_append_single, ih (n / 10) (by omega)]
      simp only [Option.bind_some]
      rw [digitVal?_digit _ (Nat.mod_lt _ (by omega))]
      simp only [Option.map_some]
      congr 1; omega

theorem digitsRev_ne_nil (fuel n : Nat) : digitsRev (fuel + 1) n ≠ [] := by simp [digitsRev]

theorem digitsRev_range (fuel n : Nat) : ∀ b ∈ digitsRev fuel n, 48 ≤ b ∧ b ≤ 57 := by
  induction fuel generalizing n with
  | zero => simp [digitsRev]
  | succ f ih =>
    intro b hb
    simp only [digitsRev, List.mem_cons] at hb
    rcases hb with rfl | hb
    · have := Nat.mod_lt n (show 10 > 0 by omega); omega
    · split at hb
      · simp at hb
      · exact ih _ b hb

/-- `uint64(Atoi(Itoa(int(n)))) = n` -/
theorem parseSize_encodeNat (n : Nat) (h : n < 2 ^ 63) : parseSize (encodeNat n) = some n := by
  have hv := digitsVal_digitsRev (n + 1) n (by omega)
  have e : encodeNat n = encodeDec n := by simp [encodeNat, h]
  rw [e]
  unfold encodeDec at *
  cases hl : (digitsRev (n + 1) n).reverse with
  | nil => simp at hl; exact absurd hl (digitsRev_ne_nil n n)
  | cons c t =>
    have hc : 48 ≤ c ∧ c ≤ 57 := by
      apply digitsRev_range (n + 1) n c
      have : c ∈ (digitsRev (n + 1) n).reverse := by rw [hl]; simp
      simpa using this
    rw [hl] at hv
    simp only [parseSize]
    have h1 : c ≠ 43 := by omega
    have h2 : c ≠ 45 := by omega
    simp [h1, h2, hv, h]

theorem parseSize_nil : parseSize [] = none := rfl

end KrakenModel.DiskCrash
