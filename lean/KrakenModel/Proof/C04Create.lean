import KrakenModel.Proof.C04New
/-
  C04 proof library, part 7: `TorrentArchive.CreateTorrent`.
-/
set_option linter.unusedSectionVars false
set_option linter.unusedSimpArgs false
namespace KrakenModel.AgentCrash
open KrakenModel.FS

theorem mem_presentMds (fs : FS Name) (dir : Path) (n : Name) :
    n ∈ presentMds fs dir ↔ (n = Name.lat ∨ n = Name.tmeta ∨ n = Name.status) ∧ (fs.file? dir n).isSome = true := by
  simp [presentMds]

theorem data_not_presentMds (fs : FS Name) (dir : Path) : Name.data ∉ presentMds fs dir := by
  rw [mem_presentMds]; simp

/-- a neutral list keeps the three files, in particular the existence of the blob file -/
theorem neutral_keeps {cfg : Cfg} (cs : List (Call Name)) (hn : ∀ c ∈ cs, Neutral cfg c) (fs : FS Name) :
    (applyAll fs cs).file? (entryDir cfg false) Name.data = fs.file? (entryDir cfg false) Name.data ∧
    (applyAll fs cs).file? (entryDir cfg false) Name.status = fs.file? (entryDir cfg false) Name.status ∧
    (applyAll fs cs).file? (entryDir cfg true) Name.data = fs.file? (entryDir cfg true) Name.data :=
  ⟨key3_applyAll_neutral cfg cs hn fs (entryDir cfg false, Name.data) (by simp [key3]),
   key3_applyAll_neutral cfg cs hn fs (entryDir cfg false, Name.status) (by simp [key3]),
   key3_applyAll_neutral cfg cs hn fs (entryDir cfg true, Name.data) (by simp [key3])⟩

/-- SetMetadata(_torrentmeta) under the entry lock, then NewTorrent -/
theorem create_set_meta {cfg : Cfg} (hpl : 0 < cfg.pl) (o : Order Name) (mo : List Name) (e : Entry)
    (fsI fs0 : FS Name) (pre0 : List (Call Name)) (hfs0 : fs0 = applyAll fsI pre0)
    (hpre : ∀ k, GoodFS cfg (applyPrefix k pre0 fsI))
    (hdat : (fs0.file? (entryDir cfg e.cache) Name.data).isSome = true) (hnd : Name.data ∉ e.mds)
    (hmds : e.cache = false → ∀ n ∈ e.mds, (fs0.file? (entryDir cfg false) n).isSome = true) :
    NewOK cfg fsI (newTorrent cfg o mo { (touch cfg e fs0).1 with mds := addMd (touch cfg e fs0).1.mds Name.tmeta }
      (applyAll (applyAll fs0 (touch cfg e fs0).2)
        (cawPlan (applyAll fs0 (touch cfg e fs0).2) (entryDir cfg e.cache) Name.tmeta cfg.mi))
      (pre0 ++ (touch cfg e fs0).2 ++ cawPlan (applyAll fs0 (touch cfg e fs0).2) (entryDir cfg e.cache) Name.tmeta cfg.mi)) := by
  obtain ⟨tc1, tc2, tc3, tc4⟩ := touch_spec cfg e fs0
  have htcN : ∀ c ∈ (touch cfg e fs0).2, Neutral cfg c := touch_neutral cfg e fs0
  generalize htouch : touch cfg e fs0 = tch at *
  obtain ⟨e', tc⟩ := tch
  simp only at tc1 tc2 tc3 tc4 htcN ⊢
  have hcsN : ∀ c ∈ cawPlan (applyAll fs0 tc) (entryDir cfg e.cache) Name.tmeta cfg.mi, Neutral cfg c :=
    cawPlan_neutral cfg _ _ _ _ (not_key3_tmeta cfg e.cache)
  have g0 : GoodFS cfg fs0 := by rw [hfs0]; exact goodFS_all hpre
  have hallN : ∀ c ∈ tc ++ cawPlan (applyAll fs0 tc) (entryDir cfg e.cache) Name.tmeta cfg.mi, Neutral cfg c := by
    intro c hc; rcases List.mem_append.mp hc with h | h
    · exact htcN c h
    · exact hcsN c h
  apply newTorrent_ok hpl o mo _ fsI _ _
  · rw [hfs0, List.append_assoc, applyAll_append, applyAll_append]
  · rw [List.append_assoc]
    exact prefix_append _ _ _ _ hpre (by rw [← hfs0]; exact neutral_prefix g0 _ hallN)
  · simp only
    rw [tc1, file?_cawPlan_other_all _ _ _ _ _ _ _ (by simp), tc3 _ _ (by simp)]; exact hdat
  · simp only
    intro h; rcases (mem_addMd _ _ _).mp h with h' | h'
    · exact tc2 hnd h'
    · cases h'
  · simp only
    intro hc n hn
    rw [tc1] at hc
    by_cases hnt : n = Name.tmeta
    · subst hnt; rw [← hc, file?_cawPlan _ _ _ _ (entryDir_ne_nil cfg _)]; rfl
    · rw [file?_cawPlan_other_all _ _ _ _ _ _ _ (by intro e''; exact hnt (Prod.ext_iff.mp e'').2)]
      rcases (mem_addMd _ _ _).mp hn with h' | h'
      · have := tc4 (by rw [hc]; exact hmds hc) n h'
        rwa [hc] at this
      · exact absurd h' hnt

/-- the part of CreateTorrent that runs once the entry is known: read or set the metainfo, then NewTorrent -/
theorem create_with_entry {cfg : Cfg} (hpl : 0 < cfg.pl) (o : Order Name) (mo : List Name) (e : Entry)
    (fsI fs0 : FS Name) (pre0 : List (Call Name)) (hfs0 : fs0 = applyAll fsI pre0)
    (hpre : ∀ k, GoodFS cfg (applyPrefix k pre0 fsI))
    (hdat : (fs0.file? (entryDir cfg e.cache) Name.data).isSome = true) (hnd : Name.data ∉ e.mds)
    (hmds : e.cache = false → ∀ n ∈ e.mds, (fs0.file? (entryDir cfg false) n).isSome = true) :
    NewOK cfg fsI (match decodeMeta cfg (fs0.file? (entryDir cfg e.cache) Name.tmeta) with
      | Decoded.ok => newTorrent cfg o mo e fs0 pre0
      | Decoded.notExist =>
        let dir := entryDir cfg e.cache
        let (e', tc) := touch cfg e fs0
        let fsT := applyAll fs0 tc
        let cs := cawPlan fsT dir Name.tmeta cfg.mi
        newTorrent cfg o mo { e' with mds := addMd e'.mds Name.tmeta } (applyAll fsT cs) (pre0 ++ tc ++ cs)) := by
  cases hdec : decodeMeta cfg (fs0.file? (entryDir cfg e.cache) Name.tmeta) with
  | ok => exact newTorrent_ok hpl o mo e fsI fs0 pre0 hfs0 hpre hdat hnd hmds
  | notExist => exact create_set_meta hpl o mo e fsI fs0 pre0 hfs0 hpre hdat hnd hmds

theorem latPlan_lat_isSome (cfg : Cfg) (hlat : cfg.lat ≠ []) (fs : FS Name) (dir : Path) (hne : dir ≠ [])
    (hk : latKnown fs dir = true) : ((applyAll fs (latPlan cfg fs dir)).file? dir Name.lat).isSome = true := by
  unfold latKnown at hk
  unfold latPlan
  split
  · rename_i x t h; rw [h] at hk; simp at hk
  · rw [file?_cawPlan _ _ _ _ hne]; rfl

theorem latPlan_other (cfg : Cfg) (fs : FS Name) (dir : Path) (p : Path) (n : Name) (hn : n ≠ Name.lat) :
    (applyAll fs (latPlan cfg fs dir)).file? p n = fs.file? p n := by
  unfold latPlan
  split
  · rfl
  · exact file?_cawPlan_other_all _ _ _ _ _ _ _ (by intro e; exact hn (Prod.ext_iff.mp e).2)

theorem create_ok {cfg : Cfg} (hpl : 0 < cfg.pl) (hlat : cfg.lat ≠ []) (o : Order Name) (mo : List Name) (m : Mem)
    (fs : FS Name) (g : GoodFS cfg fs) (gm : GoodMem cfg m fs) : NewOK cfg fs (createTorrent cfg o mo m fs) := by
  unfold createTorrent
  simp only
  have hp0 : ∀ k, GoodFS cfg (applyPrefix k ([] : List (Call Name)) fs) := fun k => by simpa [applyPrefix] using g
  cases hme : m.entry with
  | some e =>
    -- the entry is in the file map already
    simp only [loadEntry, hme]
    obtain ⟨h1, h2, h3⟩ := gm.ent e hme
    exact create_with_entry hpl o mo e fs fs [] rfl hp0 h1 h2 h3
  | none =>
    simp only [loadEntry, hme]
    cases hfind : [false, true].find? (fun c => (fs.file? (entryDir cfg c) Name.data).isSome) with
    | some c =>
      -- reloaded from the directory that holds the blob file
      simp only
      have hc : (fs.file? (entryDir cfg c) Name.data).isSome = true := by
        have := List.find?_some hfind; simpa using this
      have hlN := latPlan_neutral cfg fs c
      apply create_with_entry hpl o mo ⟨c, presentMds (applyAll fs (latPlan cfg fs (entryDir cfg c))) (entryDir cfg c),
        latStale cfg fs (entryDir cfg c)⟩ fs _ _ rfl (neutral_prefix g _ hlN)
      · simp only; rw [latPlan_other _ _ _ _ _ (by simp)]; exact hc
      · exact data_not_presentMds _ _
      · simp only
        intro hcf n hn
        subst hcf
        exact ((mem_presentMds _ _ _).mp hn).2
    | none =>
      -- nothing on disk: a new entry in the download directory
      simp only
      have hnone : ∀ c, fs.file? (entryDir cfg c) Name.data = none := by
        intro c
        have := List.find?_eq_none.mp hfind c (by cases c <;> simp)
        simpa using this
      -- phase 1: the access time sidecar
      have hlN := latPlan_neutral cfg fs false
      generalize hc1 : latPlan cfg fs (entryDir cfg false) = c1 at *
      have hk1 := neutral_keeps c1 hlN fs
      have g1 : GoodFS cfg (applyAll fs c1) := goodFS_all (neutral_prefix g c1 hlN)
      -- phase 2: MkdirAll
      have hmkN := mkdirAll_neutral cfg (applyAll fs c1) (entryDir cfg false)
      generalize hmk : mkdirAllPlan (applyAll fs c1) (entryDir cfg false) = mk at *
      have hk2 := neutral_keeps mk hmkN (applyAll fs c1)
      have g2 : GoodFS cfg (applyAll (applyAll fs c1) mk) := goodFS_all (neutral_prefix g1 mk hmkN)
      have hdir2 : ((applyAll (applyAll fs c1) mk).dir? (entryDir cfg false)).isSome = true := by
        rw [← hmk]; exact dir?_isSome_of_isDir (entryDir_ne_nil cfg false) (isDir_mkdirAllPlan' _ _)
      -- phase 3: what an earlier incarnation left behind is removed (a stale status vector in particular)
      obtain ⟨l1, l2, l3, l4⟩ := leftoverPlan_result (applyAll (applyAll fs c1) mk) (entryDir cfg false)
      have hloR := leftoverPlan_removal (applyAll (applyAll fs c1) mk) (entryDir cfg false)
      generalize hlo : leftoverPlan (applyAll (applyAll fs c1) mk) (entryDir cfg false) = lo at *
      have pL := removal_prefix lo hloR g2
      have g3 : GoodFS cfg (applyAll (applyAll (applyAll fs c1) mk) lo) := goodFS_all pL
      have hdir3 := l4 _ hdir2
      -- phase 4: create and size the blob file
      obtain ⟨pD1, pD2, pD3⟩ := phaseD g3 (by simp only [dlStatus]; exact l1)
        (by simp only [caData]; rw [l2, hk2.2.2, hk1.2.2]; exact hnone true) hdir3
      have e2 : applyAll (applyAll fs c1) (mk ++ (lo ++ [Call.openTrunc (entryDir cfg false) Name.data,
          Call.truncate (entryDir cfg false) Name.data cfg.blob.length])) =
          applyAll (applyAll (applyAll (applyAll fs c1) mk) lo) [Call.openTrunc (entryDir cfg false) Name.data,
          Call.truncate (entryDir cfg false) Name.data cfg.blob.length] := by rw [applyAll_append, applyAll_append]
      rw [e2]
      generalize hfs2 : applyAll (applyAll (applyAll (applyAll fs c1) mk) lo) [Call.openTrunc (entryDir cfg false) Name.data,
          Call.truncate (entryDir cfg false) Name.data cfg.blob.length] = fs2 at *
      -- prefixes up to here
      have hpre2 : ∀ k, GoodFS cfg (applyPrefix k (c1 ++ (mk ++ (lo ++ [Call.openTrunc (entryDir cfg false) Name.data,
          Call.truncate (entryDir cfg false) Name.data cfg.blob.length]))) fs) :=
        prefix_append _ _ _ _ (neutral_prefix g c1 hlN) (prefix_append _ _ _ _ (neutral_prefix g1 mk hmkN)
          (prefix_append _ _ _ _ pL pD1))
      have hfs2' : applyAll fs (c1 ++ (mk ++ (lo ++ [Call.openTrunc (entryDir cfg false) Name.data,
          Call.truncate (entryDir cfg false) Name.data cfg.blob.length]))) = fs2 := by
        rw [applyAll_append, applyAll_append, applyAll_append, hfs2]
      -- the new entry
      have hent : ∀ n ∈ (if latKnown fs (entryDir cfg false) = true then [Name.lat] else []),
          (fs2.file? (entryDir cfg false) n).isSome = true := by
        intro n hn
        split at hn
        · rename_i hk
          simp only [List.mem_singleton] at hn; subst hn
          rw [pD3 _ _ (by simp), l3, mkdirs_keep_file mk (by rw [← hmk]; exact mkdirAllPlan_mkdirs' _ _), ← hc1]
          exact latPlan_lat_isSome cfg hlat fs _ (entryDir_ne_nil cfg false) hk
        · simp at hn
      simp only [dlData] at pD2
      have := create_set_meta hpl o mo ⟨false, if latKnown fs (entryDir cfg false) = true then [Name.lat] else [],
          latStale cfg fs (entryDir cfg false)⟩ fs fs2 _ hfs2'.symm hpre2
        (by simp only; rw [pD2]; rfl) (by simp only; split <;> simp) (fun _ => hent)
      simp only [List.nil_append, List.append_assoc] at this ⊢
      exact this

end KrakenModel.AgentCrash
