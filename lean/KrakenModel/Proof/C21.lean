import KrakenModel.Model.HashRing
/- Helper lemmas for Spec/C21: closed form of the `Locations` loop. Core only. -/
namespace KrakenModel.Proof.C21
open KrakenModel.HashRing

variable {α : Type} [DecidableEq α]

/-- once a location has been found the loop just collects the healthy nodes up to index `r` -/
theorem scan_nonempty (h : α → Bool) (r : Nat) :
    ∀ (rest : List α) (i : Nat) (locs : List α), locs ≠ [] →
      scan h r i rest locs = locs ++ (rest.take (r - i)).filter h := by
  intro rest
  induction rest with
  | nil => intro i locs _; simp [scan]
  | cons a t ih =>
    intro i locs hne
    have hle : locs.isEmpty = false := by cases locs <;> simp_all
    unfold scan
    by_cases hir : i < r
    · have e : r - i = (r - (i + 1)) + 1 := by omega
      simp only [hle, hir, decide_true, Bool.or_true, if_true]
      rw [e, List.take_succ_cons]
      by_cases ha : h a = true
      · simp only [ha, if_true]
        rw [ih (i + 1) (locs ++ [a]) (by simp)]
        simp [List.filter_cons, ha]
      · have ha' : h a = false := by simpa using ha
        simp only [ha', Bool.false_eq_true, if_false]
        rw [ih (i + 1) locs hne]
        simp [List.filter_cons, ha']
    · have e : r - i = 0 := by omega
      simp [hle, hir, e]

/-- before any location has been found the loop looks at every node -/
theorem scan_empty (h : α → Bool) (r : Nat) :
    ∀ (rest : List α) (i : Nat),
      scan h r i rest [] =
        (if ((rest.take (r - i)).filter h).isEmpty then (rest.filter h).take 1
         else (rest.take (r - i)).filter h) := by
  intro rest
  induction rest with
  | nil => intro i; simp [scan]
  | cons a t ih =>
    intro i
    unfold scan
    simp only [List.isEmpty_nil, Bool.true_or, if_true, List.nil_append]
    by_cases ha : h a = true
    · simp only [ha, if_true]
      rw [scan_nonempty h r t (i + 1) [a] (by simp)]
      by_cases hir : i < r
      · have e : r - i = (r - (i + 1)) + 1 := by omega
        rw [e, List.take_succ_cons]
        simp [List.filter_cons, ha]
      · have e : r - i = 0 := by omega
        have e' : r - (i + 1) = 0 := by omega
        simp [e, e', List.filter_cons, ha]
    · have ha' : h a = false := by simpa using ha
      simp only [ha', Bool.false_eq_true, if_false]
      rw [ih (i + 1)]
      by_cases hir : i < r
      · have e : r - i = (r - (i + 1)) + 1 := by omega
        rw [e, List.take_succ_cons]
        simp [List.filter_cons, ha']
      · have e : r - i = 0 := by omega
        have e' : r - (i + 1) = 0 := by omega
        simp [e, e', List.filter_cons, ha']

/-- pigeonhole: duplicate-free lists of equal length, one included in the other, are permutations
    (this is why `stringset.Equal` may check only one inclusion) -/
theorem perm_of_nodup_subset_length :
    ∀ (a b : List α), a.Nodup → b.Nodup → a.length = b.length → (∀ x ∈ a, x ∈ b) → a.Perm b := by
  intro a
  induction a with
  | nil => intro b _ _ hl _; cases b with
    | nil => exact List.Perm.refl _
    | cons _ _ => simp at hl
  | cons x t ih =>
    intro b ha hb hl hs
    have ha' := List.nodup_cons.mp ha
    have hx : x ∈ b := hs x (by simp)
    have hlen : (b.erase x).length = t.length := by
      rw [List.length_erase_of_mem hx]; simp at hl; omega
    have hsub : ∀ y ∈ t, y ∈ b.erase x := by
      intro y hy
      have hyb : y ∈ b := hs y (List.mem_cons_of_mem _ hy)
      have hne : y ≠ x := fun e => ha'.1 (e ▸ hy)
      exact (List.mem_erase_of_ne hne).mpr hyb
    have hp := ih (b.erase x) ha'.2 (hb.erase x) hlen.symm hsub
    exact ((List.perm_cons x).mpr hp).trans (List.perm_cons_erase hx).symm

theorem setEqual_perm (a b : List α) (ha : a.Nodup) (hb : b.Nodup) (h : setEqual a b = true) : a.Perm b := by
  unfold setEqual at h
  simp only [Bool.and_eq_true, beq_iff_eq, List.all_eq_true, List.contains_eq_mem, decide_eq_true_eq] at h
  exact perm_of_nodup_subset_length a b ha hb h.1 h.2

end KrakenModel.Proof.C21
