import KrakenModel.Proof.C03Inv
/-
  C03 helper lemmas, part 3: every atomic step preserves `Good`.  Core Lean only.
-/
namespace KrakenModel.Proof.C03
open KrakenModel.AgentTorrent

variable {crc : Bytes → Nat} {pl : Nat} {blob : Bytes}

theorem lt_of_getElem?_some {α : Type} {l : List α} {i : Nat} {a : α} (h : l[i]? = some a) : i < l.length := by
  rcases Nat.lt_or_ge i l.length with h' | h'
  · exact h'
  · rw [List.getElem?_eq_none h'] at h; cases h

theorem getElem_of_getElem? {α : Type} {l : List α} {i : Nat} {a : α} (h : l[i]? = some a)
    (hlt : i < l.length) : l[i] = a := by
  rw [List.getElem?_eq_getElem hlt] at h; exact Option.some.inj h

theorem good_finish {s : State} {tid : Nat} {t : Thread} {r : Res} (hg : Good crc pl blob s)
    (ht : s.threads[tid]? = some t) (hnh : holds t.pc = false) (hi : t.pc ≠ .incNum) :
    Good crc pl blob (setThread s tid (finish t r)) := by
  apply good_local hg ht
  · exact ⟨(hg.thr tid t ht).sep, by simp [finish]⟩
  · intro h; simp [finish, holds] at h
  · exact hi
  · simp [finish]
  · intro h; rw [hnh] at h; cases h

/-- other threads keep their facts when thread `tid` changes only things belonging to piece `t.idx` -/
theorem others_frame {s s' : State} {tid : Nat} {t t' : Thread} (hg : Good crc pl blob s)
    (ht : s.threads[tid]? = some t)
    (hne : ∀ (a : Nat) (u : Thread), a ≠ tid → s.threads[a]? = some u → holds u.pc = true → u.idx ≠ t.idx)
    (hp : ∀ j, j ≠ t.idx → s'.pieces[j]? = s.pieces[j]?)
    (hs : ∀ j, j ≠ t.idx → s'.status[j]? = s.status[j]?)
    (hf : ∀ i, i ≠ t.idx → ∀ j, j < pl → s'.file[pl * i + j]? = s.file[pl * i + j]?)
    (hn : s.numComplete ≤ s'.numComplete) (hl : s'.pieces.length = s.pieces.length)
    (hc : s.inCache = true → s'.inCache = true)
    (hthreads : s'.threads = s.threads.set tid t') (hok : TOK crc pl blob s' t') :
    ∀ (a : Nat) (u : Thread), s'.threads[a]? = some u → TOK crc pl blob s' u := by
  intro a u hu
  rw [hthreads, threads_set_get ht] at hu
  split at hu
  · cases hu; exact hok
  · rename_i hat
    have h1 := hg.thr a u hu
    exact h1.frame (fun hh => hp _ (hne a u (by omega) hu hh)) (fun hh => hs _ (hne a u (by omega) hu hh))
      (fun hh => hf _ (hne a u (by omega) hu hh)) hn hl hc

theorem excl_set {s : State} {tid : Nat} {t t' : Thread} (hg : Good crc pl blob s)
    (ht : s.threads[tid]? = some t)
    (hne : ∀ (a : Nat) (u : Thread), a ≠ tid → s.threads[a]? = some u → holds u.pc = true → u.idx ≠ t.idx)
    (hidx : t'.idx = t.idx) :
    ∀ (a b : Nat) (ta tb : Thread), (s.threads.set tid t')[a]? = some ta → (s.threads.set tid t')[b]? = some tb →
      a ≠ b → holds ta.pc = true → holds tb.pc = true → ta.idx ≠ tb.idx := by
  intro a b ta tb ha hb hab hha hhb
  rw [threads_set_get ht] at ha hb
  split at ha <;> split at hb
  · omega
  · cases ha; rw [hidx]; exact fun h => hne b tb (by omega) hb hhb h.symm
  · cases hb; rw [hidx]; exact hne a ta (by omega) ha hha
  · exact hg.excl a b ta tb ha hb hab hha hhb

/-- the holder of a piece excludes every other holder -/
theorem hne_of_holds {s : State} {tid : Nat} {t : Thread} (hg : Good crc pl blob s)
    (ht : s.threads[tid]? = some t) (hh : holds t.pc = true) :
    ∀ (a : Nat) (u : Thread), a ≠ tid → s.threads[a]? = some u → holds u.pc = true → u.idx ≠ t.idx :=
  fun a u hat hu huh => hg.excl a tid u t hu ht hat huh hh

/-- owners of other pieces are untouched by a change of thread `tid` -/
theorem owned_other {s : State} {tid : Nat} {t t' : Thread} (hg : Good crc pl blob s)
    (ht : s.threads[tid]? = some t) (i : Nat) (hi : s.pieces[i]? = some PStatus.dirty)
    (hti : holds t.pc = true → t.idx ≠ i) :
    ∃ (a : Nat) (u : Thread), (s.threads.set tid t')[a]? = some u ∧ holds u.pc = true ∧ u.idx = i := by
  obtain ⟨a, u, hu, huh, hui⟩ := hg.owned i hi
  have hat : tid ≠ a := by
    intro h; subst h; rw [ht] at hu; cases hu; exact hti huh hui
  exact ⟨a, u, by rw [threads_set_get ht]; simp [hat, hu], huh, hui⟩

theorem good_tryDirty {s : State} {tid : Nat} {t : Thread} (hg : Good crc pl blob s)
    (ht : s.threads[tid]? = some t) (hpc : t.pc = .tryDirty) (he : s.pieces[t.idx]? = some .empty) :
    Good crc pl blob
      (setThread { s with pieces := s.pieces.set t.idx .dirty } tid { t with pc := .openFile }) := by
  have htok := hg.thr tid t ht
  have hv : Valid pl blob t := by have := htok.2; simpa [hpc] using this
  have hlt : t.idx < s.pieces.length := lt_of_getElem?_some he
  have hne : ∀ (a : Nat) (u : Thread), a ≠ tid → s.threads[a]? = some u → holds u.pc = true → u.idx ≠ t.idx := by
    intro a u _ hu hh heq
    have := ((hg.thr a u hu).owns hh).2
    rw [heq, he] at this; cases this
  have hget := getElem_of_getElem? he hlt
  refine { mi_eq := hg.mi_eq, len_pieces := ?_, len_status := hg.len_status, len_file := hg.len_file,
           status_good := hg.status_good, complete_status := ?_, empty_status := ?_, thr := ?_,
           excl := ?_, owned := ?_, num := ?_, cache_num := ?_, committed_cache := hg.committed_cache }
  · simp [setThread, hg.len_pieces]
  · intro i hi
    simp only [setThread] at hi ⊢
    rw [List.getElem?_set] at hi
    split at hi
    · simp at hi
    · exact hg.complete_status i hi
  · intro i hi
    simp only [setThread] at hi ⊢
    rw [List.getElem?_set] at hi
    split at hi
    · simp at hi
    · exact hg.empty_status i hi
  · apply others_frame hg ht hne (t' := { t with pc := .openFile })
    · intro j hj; simp only [setThread]; rw [List.getElem?_set_ne (Ne.symm hj)]
    · intro j _; rfl
    · intro i _ j _; rfl
    · exact Nat.le_refl _
    · simp [setThread]
    · exact id
    · rfl
    · refine ⟨htok.sep, ?_⟩
      simp only [setThread]
      exact ⟨hv, List.getElem?_set_self hlt, hg.empty_status _ he⟩
  · exact excl_set (s := s) hg ht hne rfl
  · intro i hi
    simp only [setThread] at hi ⊢
    by_cases hit : t.idx = i
    · exact ⟨tid, { t with pc := .openFile }, by rw [threads_set_get ht]; simp, rfl, hit⟩
    · rw [List.getElem?_set_ne hit] at hi
      exact owned_other hg ht i hi (by rw [hpc]; intro h; cases h)
  · simp only [setThread]
    rw [countP_set_same ht _ (by simp [hpc]), List.count_set hlt, hget]
    simpa using hg.num
  · intro h; simp only [setThread] at h ⊢; rw [List.length_set]; exact hg.cache_num h

theorem good_writing {s : State} {tid : Nat} {t : Thread} (k : Nat) (hpl : 0 < pl) (hg : Good crc pl blob s)
    (ht : s.threads[tid]? = some t) (hpc : t.pc = .writing) :
    Good crc pl blob
      (setThread { s with file := writeAt s.file (s.mi.pl * t.idx + t.written) ((t.payload.drop t.written).take k) }
        tid { t with written := t.written + ((t.payload.drop t.written).take k).length }) := by
  have htok := hg.thr tid t ht
  obtain ⟨hv, hd, hst, hw, hfile⟩ : Valid pl blob t ∧ s.pieces[t.idx]? = some .dirty ∧ s.status[t.idx]? ≠ some 1 ∧
      t.written ≤ t.payload.length ∧ ∀ j, j < t.written → s.file[pl * t.idx + j]? = t.payload[j]? := by
    have := htok.2; simpa [hpc] using this
  have hh : holds t.pc = true := by rw [hpc]; rfl
  have hne := hne_of_holds hg ht hh
  have hmipl : s.mi.pl = pl := by rw [hg.mi_eq]; rfl
  have hpb := piece_in_blob pl blob hpl t.idx hv.1
  have hclen : ((t.payload.drop t.written).take k).length ≤ t.payload.length - t.written := by
    simp [List.length_take, List.length_drop]; omega
  have hbound : pl * t.idx + t.written + ((t.payload.drop t.written).take k).length ≤ s.file.length := by
    rw [hg.len_file]; have := hv.2.1; omega
  have hfget : ∀ x, (writeAt s.file (pl * t.idx + t.written) ((t.payload.drop t.written).take k))[x]? =
      if pl * t.idx + t.written ≤ x ∧ x < pl * t.idx + t.written + ((t.payload.drop t.written).take k).length
      then ((t.payload.drop t.written).take k)[x - (pl * t.idx + t.written)]? else s.file[x]? :=
    fun x => getElem?_writeAt _ _ _ hbound x
  have hout : ∀ i, i ≠ t.idx → ∀ j, j < pl →
      (writeAt s.file (pl * t.idx + t.written) ((t.payload.drop t.written).take k))[pl * i + j]? = s.file[pl * i + j]? := by
    intro i hi j hj
    rw [hfget]
    have hplen : t.payload.length ≤ pl := by rw [hv.2.1]; exact hpb.2
    rw [if_neg]
    intro ⟨h1, h2⟩
    rcases Nat.lt_or_gt_of_ne hi with h | h
    · have := mul_succ_le_of_lt pl i t.idx h; omega
    · have := mul_succ_le_of_lt pl t.idx i h; omega
  rw [hmipl]
  refine { mi_eq := hg.mi_eq, len_pieces := hg.len_pieces, len_status := hg.len_status, len_file := ?_,
           status_good := ?_, complete_status := hg.complete_status, empty_status := hg.empty_status, thr := ?_,
           excl := ?_, owned := ?_, num := ?_, cache_num := hg.cache_num, committed_cache := hg.committed_cache }
  · simp only [setThread]; rw [length_writeAt _ _ _ hbound]; exact hg.len_file
  · intro i hi j hj
    simp only [setThread] at hi ⊢
    have hii : i ≠ t.idx := by intro h; rw [h] at hi; exact hst hi
    rw [hout i hii j hj]; exact hg.status_good i hi j hj
  · apply others_frame hg ht hne
      (t' := { t with written := t.written + ((t.payload.drop t.written).take k).length })
    · intro j _; rfl
    · intro j _; rfl
    · intro i hi j hj; simp only [setThread]; exact hout i hi j hj
    · exact Nat.le_refl _
    · rfl
    · exact id
    · rfl
    · refine ⟨htok.sep, ?_⟩
      simp only [setThread, hpc]
      refine ⟨hv, hd, hst, by omega, ?_⟩
      intro j hj
      rw [hfget]
      by_cases hjw : j < t.written
      · rw [if_neg (by omega)]; exact hfile j hjw
      · rw [if_pos (by omega), getElem?_take_drop]
        have : j - t.written < k := by
          have : ((t.payload.drop t.written).take k).length ≤ k := by simp [List.length_take]; omega
          omega
        have h3 : pl * t.idx + j - (pl * t.idx + t.written) = j - t.written := by omega
        rw [h3, if_pos this]
        congr 1; omega
  · exact excl_set (s := s) hg ht hne rfl
  · intro i hi
    simp only [setThread] at hi ⊢
    by_cases hit : t.idx = i
    · exact ⟨tid, { t with written := t.written + ((t.payload.drop t.written).take k).length },
        by rw [threads_set_get ht]; simp, hh, hit⟩
    · exact owned_other hg ht i hi (fun _ => hit)
  · simp only [setThread]
    rw [countP_set_same ht _ (by simp [hpc])]
    exact hg.num

theorem good_setMeta {s : State} {tid : Nat} {t : Thread} (hg : Good crc pl blob s)
    (ht : s.threads[tid]? = some t) (hpc : t.pc = .setMeta) :
    Good crc pl blob
      (setThread { s with status := s.status.set t.idx 1 } tid { t with pc := .markComplete }) := by
  have htok := hg.thr tid t ht
  obtain ⟨hv, hd, hst, hfile⟩ : Valid pl blob t ∧ s.pieces[t.idx]? = some .dirty ∧ s.status[t.idx]? ≠ some 1 ∧
      ∀ j, j < pl → s.file[pl * t.idx + j]? = blob[pl * t.idx + j]? := by
    have := htok.2; simpa [hpc] using this
  have hh : holds t.pc = true := by rw [hpc]; rfl
  have hne := hne_of_holds hg ht hh
  have hlt : t.idx < s.status.length := by rw [hg.len_status]; exact hv.1
  refine { mi_eq := hg.mi_eq, len_pieces := hg.len_pieces, len_status := ?_, len_file := hg.len_file,
           status_good := ?_, complete_status := ?_, empty_status := ?_, thr := ?_,
           excl := ?_, owned := ?_, num := ?_, cache_num := hg.cache_num, committed_cache := hg.committed_cache }
  · simp [setThread, hg.len_status]
  · intro i hi j hj
    simp only [setThread] at hi ⊢
    by_cases hit : t.idx = i
    · subst hit; exact hfile j hj
    · rw [List.getElem?_set_ne hit] at hi; exact hg.status_good i hi j hj
  · intro i hi
    simp only [setThread] at hi ⊢
    by_cases hit : t.idx = i
    · subst hit; exact List.getElem?_set_self hlt
    · rw [List.getElem?_set_ne hit]; exact hg.complete_status i hi
  · intro i hi
    simp only [setThread] at hi ⊢
    by_cases hit : t.idx = i
    · subst hit; rw [hd] at hi; cases hi
    · rw [List.getElem?_set_ne hit]; exact hg.empty_status i hi
  · apply others_frame hg ht hne (t' := { t with pc := .markComplete })
    · intro j _; rfl
    · intro j hj; simp only [setThread]; rw [List.getElem?_set_ne (Ne.symm hj)]
    · intro i _ j _; rfl
    · exact Nat.le_refl _
    · rfl
    · exact id
    · rfl
    · refine ⟨htok.sep, ?_⟩
      simp only [setThread]
      exact ⟨hv, hd, List.getElem?_set_self hlt⟩
  · exact excl_set (s := s) hg ht hne rfl
  · intro i hi
    simp only [setThread] at hi ⊢
    by_cases hit : t.idx = i
    · exact ⟨tid, { t with pc := .markComplete }, by rw [threads_set_get ht]; simp, rfl, hit⟩
    · exact owned_other hg ht i hi (fun _ => hit)
  · simp only [setThread]
    rw [countP_set_same ht _ (by simp [hpc])]
    exact hg.num

theorem good_markComplete {s : State} {tid : Nat} {t : Thread} (hg : Good crc pl blob s)
    (ht : s.threads[tid]? = some t) (hpc : t.pc = .markComplete) :
    Good crc pl blob
      (setThread { s with pieces := s.pieces.set t.idx .complete } tid { t with pc := .incNum }) := by
  have htok := hg.thr tid t ht
  obtain ⟨hv, hd, hst⟩ : Valid pl blob t ∧ s.pieces[t.idx]? = some .dirty ∧ s.status[t.idx]? = some 1 := by
    have := htok.2; simpa [hpc] using this
  have hh : holds t.pc = true := by rw [hpc]; rfl
  have hne := hne_of_holds hg ht hh
  have hlt : t.idx < s.pieces.length := lt_of_getElem?_some hd
  have hget := getElem_of_getElem? hd hlt
  have htlt : tid < s.threads.length := lt_of_getElem?_some ht
  have htget := getElem_of_getElem? ht htlt
  refine { mi_eq := hg.mi_eq, len_pieces := ?_, len_status := hg.len_status, len_file := hg.len_file,
           status_good := hg.status_good, complete_status := ?_, empty_status := ?_, thr := ?_,
           excl := ?_, owned := ?_, num := ?_, cache_num := ?_, committed_cache := hg.committed_cache }
  · simp [setThread, hg.len_pieces]
  · intro i hi
    simp only [setThread] at hi ⊢
    by_cases hit : t.idx = i
    · subst hit; exact hst
    · rw [List.getElem?_set_ne hit] at hi; exact hg.complete_status i hi
  · intro i hi
    simp only [setThread] at hi ⊢
    by_cases hit : t.idx = i
    · subst hit; rw [List.getElem?_set_self hlt] at hi; cases hi
    · rw [List.getElem?_set_ne hit] at hi; exact hg.empty_status i hi
  · apply others_frame hg ht hne (t' := { t with pc := .incNum })
    · intro j hj; simp only [setThread]; rw [List.getElem?_set_ne (Ne.symm hj)]
    · intro j _; rfl
    · intro i _ j _; rfl
    · exact Nat.le_refl _
    · simp [setThread]
    · exact id
    · rfl
    · exact ⟨htok.sep, trivial⟩
  · exact excl_set (s := s) hg ht hne rfl
  · intro i hi
    simp only [setThread] at hi ⊢
    by_cases hit : t.idx = i
    · subst hit; rw [List.getElem?_set_self hlt] at hi; cases hi
    · rw [List.getElem?_set_ne hit] at hi
      exact owned_other hg ht i hi (fun _ => hit)
  · simp only [setThread]
    rw [List.countP_set htlt, htget, List.count_set hlt, hget]
    have := hg.num
    simp [hpc]; omega
  · intro h; simp only [setThread] at h ⊢; rw [List.length_set]; exact hg.cache_num h

theorem good_markEmpty {s : State} {tid : Nat} {t : Thread} (hg : Good crc pl blob s)
    (ht : s.threads[tid]? = some t) (hpc : t.pc = .markEmpty) :
    Good crc pl blob
      (setThread { s with pieces := s.pieces.set t.idx .empty } tid (finish t t.fail)) := by
  have htok := hg.thr tid t ht
  obtain ⟨hv, hd, hst⟩ : Valid pl blob t ∧ s.pieces[t.idx]? = some .dirty ∧ s.status[t.idx]? ≠ some 1 := by
    have := htok.2; simpa [hpc] using this
  have hh : holds t.pc = true := by rw [hpc]; rfl
  have hne := hne_of_holds hg ht hh
  have hlt : t.idx < s.pieces.length := lt_of_getElem?_some hd
  have hget := getElem_of_getElem? hd hlt
  refine { mi_eq := hg.mi_eq, len_pieces := ?_, len_status := hg.len_status, len_file := hg.len_file,
           status_good := hg.status_good, complete_status := ?_, empty_status := ?_, thr := ?_,
           excl := ?_, owned := ?_, num := ?_, cache_num := ?_, committed_cache := hg.committed_cache }
  · simp [setThread, hg.len_pieces]
  · intro i hi
    simp only [setThread] at hi ⊢
    by_cases hit : t.idx = i
    · subst hit; rw [List.getElem?_set_self hlt] at hi; cases hi
    · rw [List.getElem?_set_ne hit] at hi; exact hg.complete_status i hi
  · intro i hi
    simp only [setThread] at hi ⊢
    by_cases hit : t.idx = i
    · subst hit; exact hst
    · rw [List.getElem?_set_ne hit] at hi; exact hg.empty_status i hi
  · apply others_frame hg ht hne (t' := finish t t.fail)
    · intro j hj; simp only [setThread]; rw [List.getElem?_set_ne (Ne.symm hj)]
    · intro j _; rfl
    · intro i _ j _; rfl
    · exact Nat.le_refl _
    · simp [setThread]
    · exact id
    · rfl
    · exact ⟨htok.sep, by simp [finish]⟩
  · exact excl_set (s := s) hg ht hne rfl
  · intro i hi
    simp only [setThread] at hi ⊢
    by_cases hit : t.idx = i
    · subst hit; rw [List.getElem?_set_self hlt] at hi; cases hi
    · rw [List.getElem?_set_ne hit] at hi
      exact owned_other hg ht i hi (fun _ => hit)
  · simp only [setThread]
    rw [countP_set_same ht _ (by simp [hpc, finish]), List.count_set hlt, hget]
    simpa using hg.num
  · intro h; simp only [setThread] at h ⊢; rw [List.length_set]; exact hg.cache_num h

/-- steps that only change `numComplete`, `inCache`, `committed` (monotonically) -/
theorem good_flags {s : State} {tid : Nat} {t t' : Thread} (nc : Nat) (ic cm : Bool) (hg : Good crc pl blob s)
    (ht : s.threads[tid]? = some t) (hnh : holds t.pc = false) (hnh' : holds t'.pc = false)
    (hn : s.numComplete ≤ nc) (hic : s.inCache = true → ic = true)
    (hok : TOK crc pl blob { s with numComplete := nc, inCache := ic, committed := cm } t')
    (hnum : nc + (s.threads.set tid t').countP (fun t => t.pc = PC.incNum) = s.pieces.count PStatus.complete)
    (hcn : ic = true → s.pieces.length ≤ nc) (hcc : cm = true → ic = true) :
    Good crc pl blob (setThread { s with numComplete := nc, inCache := ic, committed := cm } tid t') := by
  refine { mi_eq := hg.mi_eq, len_pieces := hg.len_pieces, len_status := hg.len_status, len_file := hg.len_file,
           status_good := hg.status_good, complete_status := hg.complete_status, empty_status := hg.empty_status,
           thr := ?_, excl := ?_, owned := ?_, num := hnum, cache_num := hcn, committed_cache := hcc }
  · intro a u hu
    simp only [setThread] at hu
    rw [threads_set_get ht] at hu
    split at hu
    · cases hu; exact hok
    · exact (hg.thr a u hu).frame (fun _ => rfl) (fun _ => rfl) (fun _ _ _ => rfl) hn rfl hic
  · intro a b ta tb ha hb hab hha hhb
    simp only [setThread] at ha hb
    rw [threads_set_get ht] at ha hb
    split at ha <;> split at hb
    · omega
    · cases ha; rw [hnh'] at hha; cases hha
    · cases hb; rw [hnh'] at hhb; cases hhb
    · exact hg.excl a b ta tb ha hb hab hha hhb
  · intro i hi
    simp only [setThread] at hi ⊢
    exact owned_other hg ht i hi (by rw [hnh]; intro h; cases h)

end KrakenModel.Proof.C03
