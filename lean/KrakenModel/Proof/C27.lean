import KrakenModel.Model.PeerStore
/-
  Helper lemmas for Spec/C27 (core Lean only): list lemmas for the swap-remove sweep, the group
  update, association lists, and the store invariant `Good` with its preservation by every step.
-/
namespace KrakenModel.Proof.C27
open KrakenModel.PeerStore

/-! ### lists -/

theorem set_perm_cons_eraseIdx {α : Type} (l : List α) (i : Nat) (x : α) (h : i < l.length) :
    (l.set i x).Perm (x :: l.eraseIdx i) := by
  induction l generalizing i with
  | nil => simp at h
  | cons a l ih =>
    cases i with
    | zero => simp
    | succ i =>
      simp only [List.set_cons_succ, List.eraseIdx_cons_succ]
      have := ih i (by simpa using h)
      exact (List.Perm.cons a this).trans (List.Perm.swap x a _)

theorem swapRemove_perm {α : Type} (l : List α) (i : Nat) (h : i < l.length) :
    (swapRemove l i).Perm (l.eraseIdx i) := by
  unfold swapRemove
  rcases List.eq_nil_or_concat l with hl | ⟨l', x, hl⟩
  · subst hl; simp at h
  · subst hl
    simp only [List.concat_eq_append, List.getLast?_append, List.getLast?_singleton]
    simp only [Option.some_or]
    simp at h
    by_cases hi : i < l'.length
    · rw [List.set_append_left _ _ hi]
      simp only [List.dropLast_concat]
      rw [List.eraseIdx_append_of_lt_length hi]
      exact (set_perm_cons_eraseIdx l' i x hi).trans (List.perm_append_singleton _ _).symm
    · have : i = l'.length := by omega
      subst this
      simp [List.eraseIdx_append_of_length_le]

theorem eraseIdx_eq_erase_of_nodup {α : Type} [DecidableEq α] (L : List α) (i : Nat) (h : i < L.length)
    (hn : L.Nodup) : L.eraseIdx i = L.erase L[i] := by
  induction L generalizing i with
  | nil => simp at h
  | cons a L ih =>
    cases i with
    | zero => simp
    | succ i =>
      have hn' := List.nodup_cons.mp hn
      have hi : i < L.length := by simpa using h
      have hne : a ≠ L[i] := fun e => hn'.1 (e ▸ List.getElem_mem hi)
      simp only [List.eraseIdx_cons_succ, List.getElem_cons_succ]
      rw [List.erase_cons_tail (by simpa using hne)]
      rw [ih i hi hn'.2]

theorem map_eraseIdx' {α β : Type} (f : α → β) (l : List α) (i : Nat) :
    (l.eraseIdx i).map f = (l.map f).eraseIdx i := by
  induction l generalizing i with
  | nil => simp
  | cons a l ih => cases i <;> simp [ih]

/-- well-formedness of a group's two indexes -/
def WFLK (lk : List Entry × List Pid) : Prop :=
  (lk.1.map (·.id)).Nodup ∧ lk.2.Nodup ∧ ∀ p, p ∈ lk.2 ↔ p ∈ lk.1.map (·.id)

theorem sweepOne_spec (now : Nat) (lk : List Entry × List Pid) (i : Nat) (hw : WFLK lk) :
    WFLK (sweepOne now lk i) ∧ (∀ e, e ∈ (sweepOne now lk i).1 → e ∈ lk.1) ∧
    (∀ e, e ∈ lk.1 → e ∈ (sweepOne now lk i).1 ∨ e.exp ≤ now) := by
  unfold sweepOne
  cases hi : lk.1[i]? with
  | none => exact ⟨hw, fun _ h => h, fun _ h => Or.inl h⟩
  | some e =>
    simp only
    split
    · exact ⟨hw, fun _ h => h, fun _ h => Or.inl h⟩
    · rename_i hexp
      obtain ⟨hlt, he⟩ := List.getElem?_eq_some_iff.mp hi
      have hperm := swapRemove_perm lk.1 i hlt
      obtain ⟨hn1, hn2, hiff⟩ := hw
      have hmapE : (lk.1.eraseIdx i).map (·.id) = (lk.1.map (·.id)).erase e.id := by
        rw [map_eraseIdx']
        rw [eraseIdx_eq_erase_of_nodup _ i (by simpa using hlt) hn1]
        simp [he]
      refine ⟨⟨?_, ?_, ?_⟩, ?_, ?_⟩
      · have := (hperm.map (·.id)).nodup_iff
        rw [this, hmapE]; exact hn1.erase _
      · exact hn2.erase _
      · intro p
        simp only
        rw [(hperm.map (·.id)).mem_iff, hmapE, hn2.mem_erase_iff, hn1.mem_erase_iff, hiff p]
      · intro e' h'
        exact (List.eraseIdx_sublist _ _).subset (hperm.mem_iff.mp h')
      · intro e' h'
        by_cases hee : e' = e
        · right; subst hee; omega
        · left
          simp only
          rw [hperm.mem_iff]
          obtain ⟨j, hj, hje⟩ := List.getElem_of_mem h'
          rw [List.mem_eraseIdx_iff_getElem]
          refine ⟨j, hj, ?_, hje⟩
          intro hji; subst hji; exact hee (hje.symm.trans he)

theorem sweep_spec (now : Nat) (l : List Entry) (k : List Pid) (flags : List Nat) (hw : WFLK (l, k)) :
    WFLK (sweep now l k flags) ∧ (∀ e, e ∈ (sweep now l k flags).1 → e ∈ l) ∧
    (∀ e, e ∈ l → e ∈ (sweep now l k flags).1 ∨ e.exp ≤ now) := by
  unfold sweep
  generalize flags.reverse = fs
  induction fs generalizing l k with
  | nil => exact ⟨hw, fun _ h => h, fun _ h => Or.inl h⟩
  | cons i fs ih =>
    simp only [List.foldl_cons]
    obtain ⟨w1, s1, k1⟩ := sweepOne_spec now (l, k) i hw
    obtain ⟨w2, s2, k2⟩ := ih (sweepOne now (l, k) i).1 (sweepOne now (l, k) i).2 w1
    refine ⟨w2, fun e h => s1 e (s2 e h), fun e h => ?_⟩
    rcases k1 e h with h1 | h1
    · exact k2 e h1
    · exact Or.inr h1


/-! ### group update -/

theorem update_spec (g : Group) (id : Pid) (a : Ann) (exp : Nat) (hw : WFLK (g.list, g.keys)) :
    WFLK ((g.update id a exp).list, (g.update id a exp).keys) ∧
    (⟨id, a, exp⟩ : Entry) ∈ (g.update id a exp).list ∧
    (∀ e, e ∈ (g.update id a exp).list → e = ⟨id, a, exp⟩ ∨ (e ∈ g.list ∧ e.id ≠ id)) ∧
    (∀ e, e ∈ g.list → e.id ≠ id → e ∈ (g.update id a exp).list) ∧
    (g.update id a exp).lastExp = exp ∧ (g.update id a exp).hash = g.hash ∧
    (g.update id a exp).deleted = g.deleted := by
  obtain ⟨hn1, hn2, hiff⟩ := hw
  unfold Group.update
  by_cases hk : id ∈ g.keys
  · simp only [hk, if_true]
    have hmapid : (g.list.map (fun x => if x.id = id then (⟨id, a, exp⟩ : Entry) else x)).map (·.id)
        = g.list.map (·.id) := by
      rw [List.map_map]
      apply List.map_congr_left
      intro x _
      simp only [Function.comp]
      split <;> simp_all
    refine ⟨⟨?_, hn2, ?_⟩, ?_, ?_, ?_, by trivial, by trivial, by trivial⟩
    · simpa [hmapid] using hn1
    · intro p; simp only; rw [hmapid]; exact hiff p
    · have := (hiff id).mp hk
      obtain ⟨x, hx, hxid⟩ := List.mem_map.mp this
      exact List.mem_map.mpr ⟨x, hx, by simp [hxid]⟩
    · intro e he
      obtain ⟨x, hx, hxe⟩ := List.mem_map.mp he
      by_cases hxi : x.id = id
      · left; simp [hxi] at hxe; exact hxe.symm
      · right; simp [hxi] at hxe; subst hxe; exact ⟨hx, hxi⟩
    · intro e he hne
      exact List.mem_map.mpr ⟨e, he, by simp [hne]⟩
  · simp only [hk, if_false]
    have hnot : id ∉ g.list.map (·.id) := fun h => hk ((hiff id).mpr h)
    refine ⟨⟨?_, ?_, ?_⟩, ?_, ?_, ?_, by trivial, by trivial, by trivial⟩
    · simp only [List.map_append, List.map_cons, List.map_nil]
      rw [List.nodup_append]
      refine ⟨hn1, by simp, ?_⟩
      intro x hx y hy; simp at hy; subst hy; intro e; subst e; exact hnot hx
    · exact List.nodup_cons.mpr ⟨hk, hn2⟩
    · intro p
      simp only [List.mem_cons, List.map_append, List.mem_append, List.map_cons, List.map_nil]
      rw [hiff p]
      simp [or_comm]
    · simp
    · intro e he
      rcases List.mem_append.mp he with h | h
      · right; refine ⟨h, ?_⟩
        intro hid; exact hnot (List.mem_map.mpr ⟨e, h, hid⟩)
      · left; simpa using h
    · intro e he _; exact List.mem_append_left _ he

/-! ### association lists -/

theorem alook_cons {κ ν : Type} [DecidableEq κ] (m : List (κ × ν)) (k k' : κ) (v : ν) :
    alook ((k, v) :: m) k' = if k = k' then some v else alook m k' := rfl

theorem alook_adel {κ ν : Type} [DecidableEq κ] (m : List (κ × ν)) (k k' : κ) :
    alook (adel m k) k' = if k = k' then none else alook m k' := by
  induction m with
  | nil => simp [adel, alook]
  | cons p m ih =>
    obtain ⟨pk, pv⟩ := p
    unfold adel at ih ⊢
    simp only [List.filter_cons]
    by_cases hp : pk = k
    · subst hp
      simp only [ne_eq, not_true_eq_false, decide_false, Bool.false_eq_true, if_false]
      rw [ih]; simp only [alook]
      by_cases h : pk = k' <;> simp [h]
    · simp only [ne_eq, hp, not_false_eq_true, decide_true, if_true, alook]
      rw [ih]
      by_cases h : pk = k'
      · subst h; simp [Ne.symm hp]
      · simp [h]

theorem alook_mem {κ ν : Type} [DecidableEq κ] (m : List (κ × ν)) (k : κ) (v : ν)
    (h : alook m k = some v) : (k, v) ∈ m := by
  induction m with
  | nil => simp [alook] at h
  | cons p m ih =>
    obtain ⟨pk, pv⟩ := p
    simp only [alook] at h
    split at h
    · rename_i hk; subst hk; simp at h; subst h; simp
    · exact List.mem_cons_of_mem _ (ih h)

theorem tget_tset (s : State) (t t' : Nat) (x : TState) :
    tget (tset s t x) t' = if t = t' then x else tget s t' := by
  unfold tget tset
  simp only [alook]
  split <;> simp

theorem getElem?_set_cases {α : Type} (l : List α) (i j : Nat) (a b : α)
    (h : (l.set i a)[j]? = some b) : (i = j ∧ b = a ∧ i < l.length) ∨ (i ≠ j ∧ l[j]? = some b) := by
  rw [List.getElem?_set] at h
  split at h
  · split at h
    · left; simp at h; exact ⟨‹_›, h.symm, ‹_›⟩
    · simp at h
  · right; exact ⟨‹_›, h⟩


theorem alook_none_iff {κ ν : Type} [DecidableEq κ] (m : List (κ × ν)) (k : κ) :
    alook m k = none ↔ k ∉ m.map (·.1) := by
  induction m with
  | nil => simp [alook]
  | cons p m ih =>
    obtain ⟨pk, pv⟩ := p
    simp only [alook, List.map_cons, List.mem_cons]
    by_cases h : pk = k
    · simp [h]
    · simp only [h, if_false, ih]
      constructor
      · intro h1 h2; rcases h2 with h2 | h2
        · exact h h2.symm
        · exact h1 h2
      · intro h1 h2; exact h1 (Or.inr h2)

theorem alook_of_mem_nodup {κ ν : Type} [DecidableEq κ] (m : List (κ × ν)) (k : κ) (v : ν)
    (hn : (m.map (·.1)).Nodup) (hm : (k, v) ∈ m) : alook m k = some v := by
  induction m with
  | nil => cases hm
  | cons p m ih =>
    obtain ⟨pk, pv⟩ := p
    simp only [List.map_cons, List.nodup_cons] at hn
    rcases List.mem_cons.mp hm with h | h
    · cases h; simp [alook]
    · have hne : pk ≠ k := by
        intro e; subst e
        exact hn.1 (List.mem_map.mpr ⟨(pk, v), h, rfl⟩)
      simp only [alook, hne, if_false]
      exact ih hn.2 h

/-! ### the store invariant -/

structure Good (s : State) : Prop where
  wf : ∀ (gid : Nat) (g : Group), s.heap[gid]? = some g → WFLK (g.list, g.keys)
  expLe : ∀ (gid : Nat) (g : Group), s.heap[gid]? = some g → ∀ (e : Entry), e ∈ g.list → e.exp ≤ g.lastExp
  lastLe : ∀ (gid : Nat) (g : Group), s.heap[gid]? = some g → g.lastExp ≤ s.now + s.ttl
  idxSound : ∀ (h : Hash) (gid : Nat), alook s.index h = some gid →
    ∃ g, s.heap[gid]? = some g ∧ g.hash = h ∧ g.deleted = false
  idxComplete : ∀ (gid : Nat) (g : Group), s.heap[gid]? = some g → g.deleted = false → alook s.index g.hash = some gid
  latest : ∀ (gid : Nat) (g : Group), s.heap[gid]? = some g → g.deleted = false →
    ∀ (e : Entry), e ∈ g.list → alook s.last (g.hash, e.id) = some e
  lastId : ∀ (h : Hash) (id : Pid) (e : Entry), alook s.last (h, id) = some e → e.id = id
  notLost : ∀ (h : Hash) (id : Pid) (e : Entry), alook s.last (h, id) = some e → s.now < e.exp →
    ∃ gid g, alook s.index h = some gid ∧ s.heap[gid]? = some g ∧ e ∈ g.list
  cgCur : ∀ (c : CG) (h : Hash) (gid : Nat), s.cg = some c → c.cur = some (h, gid) → alook s.index h = some gid
  excl : s.ce.isSome → s.cg = none
  thrUpd : ∀ (t : Nat) (h : Hash) (gid : Nat) (id : Pid) (a : Ann), tget s t = .updHold h gid id a → ∃ g, s.heap[gid]? = some g ∧ g.hash = h
  thrGet : ∀ (t : Nat) (h : Hash) (gid : Nat) (n : Int), tget s t = .getHold h gid n → ∃ g, s.heap[gid]? = some g ∧ g.hash = h
  ceTodo : ∀ (c : CE) (gid : Nat), s.ce = some c → gid ∈ c.todo → ∃ g, s.heap[gid]? = some g ∧ g.deleted = false
  ceCur : ∀ (c : CE) (gid : Nat) (fl : List Nat), s.ce = some c → c.cur = some (gid, fl) →
    ∃ g, s.heap[gid]? = some g ∧ g.deleted = false
  idxNodup : (s.index.map (·.1)).Nodup
  delExp : ∀ (gid : Nat) (g : Group), s.heap[gid]? = some g → g.deleted = true → g.lastExp < s.now

theorem good_init (ttl : Nat) : Good (init ttl) := by
  constructor <;> intros <;> simp_all [init, alook, tget]

theorem good_tset {s : State} (hg : Good s) (t : Nat) (x : TState)
    (hu : ∀ h gid id a, x = .updHold h gid id a → ∃ g, s.heap[gid]? = some g ∧ g.hash = h)
    (hgt : ∀ h gid n, x = .getHold h gid n → ∃ g, s.heap[gid]? = some g ∧ g.hash = h) :
    Good (tset s t x) := by
  refine ⟨hg.wf, hg.expLe, hg.lastLe, hg.idxSound, hg.idxComplete, hg.latest, hg.lastId, hg.notLost,
    hg.cgCur, hg.excl, ?_, ?_, hg.ceTodo, hg.ceCur, hg.idxNodup, hg.delExp⟩
  · intro t' h gid id a ht
    rw [tget_tset] at ht
    split at ht
    · exact hu h gid id a ht
    · exact hg.thrUpd t' h gid id a ht
  · intro t' h gid n ht
    rw [tget_tset] at ht
    split at ht
    · exact hgt h gid n ht
    · exact hg.thrGet t' h gid n ht

theorem good_adv {s : State} (hg : Good s) (d : Nat) : Good { s with now := s.now + d } := by
  refine ⟨hg.wf, hg.expLe, ?_, hg.idxSound, hg.idxComplete, hg.latest, hg.lastId, ?_,
    hg.cgCur, hg.excl, hg.thrUpd, hg.thrGet, hg.ceTodo, hg.ceCur, hg.idxNodup, fun gid g h hd => Nat.lt_of_lt_of_le (hg.delExp gid g h hd) (Nat.le_add_right _ _)⟩
  · intro gid g h
    have := hg.lastLe gid g h
    show g.lastExp ≤ s.now + d + s.ttl
    omega
  · intro h id e hl hn
    exact hg.notLost h id e hl (by show s.now < e.exp; have : s.now + d < e.exp := hn; omega)

theorem good_updA {s : State} (hg : Good s) (t : Nat) : Good (updA s t) := by
  unfold updA
  split
  · rename_i h id a _
    split
    · exact hg
    · rename_i hcg
      split
      · rename_i gid hlk
        apply good_tset hg
        · intro h' gid' id' a' heq
          cases heq
          obtain ⟨g, h1, h2, _⟩ := hg.idxSound h gid hlk
          exact ⟨g, h1, h2⟩
        · intro _ _ _ heq; cases heq
      · rename_i hlk
        have hcg' : s.cg = none := by cases hc : s.cg <;> simp_all
        have happ : ∀ (gid : Nat) (g : Group), (s.heap ++ [newGroup s h])[gid]? = some g →
            (s.heap[gid]? = some g) ∨ (gid = s.heap.length ∧ g = newGroup s h) := by
          intro gid g hh
          by_cases hlt : gid < s.heap.length
          · rw [List.getElem?_append_left hlt] at hh; exact Or.inl hh
          · rw [List.getElem?_append_right (by omega)] at hh
            right
            cases hd : gid - s.heap.length with
            | zero => rw [hd] at hh; simp at hh; exact ⟨by omega, hh.symm⟩
            | succ k => rw [hd] at hh; simp at hh
        have hold : ∀ (gid : Nat) (g : Group), s.heap[gid]? = some g → (s.heap ++ [newGroup s h])[gid]? = some g := by
          intro gid g hh
          have hlt : gid < s.heap.length := (List.getElem?_eq_some_iff.mp hh).1
          rw [List.getElem?_append_left hlt]; exact hh
        have hnew : (s.heap ++ [newGroup s h])[s.heap.length]? = some (newGroup s h) := by
          simp
        have hg1 : Good { s with heap := s.heap ++ [newGroup s h], index := (h, s.heap.length) :: s.index } := by
          refine ⟨?_, ?_, ?_, ?_, ?_, ?_, hg.lastId, ?_, ?_, hg.excl, ?_, ?_, ?_, ?_, ?_, (by
            intro gid g hh hd
            rcases happ gid g hh with h1 | ⟨_, h1⟩
            · exact hg.delExp gid g h1 hd
            · subst h1; simp [newGroup] at hd)⟩
          · intro gid g hh
            rcases happ gid g hh with h1 | ⟨_, h1⟩
            · exact hg.wf gid g h1
            · subst h1; simp [newGroup, WFLK]
          · intro gid g hh
            rcases happ gid g hh with h1 | ⟨_, h1⟩
            · exact hg.expLe gid g h1
            · subst h1; simp [newGroup]
          · intro gid g hh
            rcases happ gid g hh with h1 | ⟨_, h1⟩
            · exact hg.lastLe gid g h1
            · subst h1; simp [newGroup]
          · intro h' gid hh
            simp only [alook_cons] at hh
            split at hh
            · rename_i heq; subst heq; simp at hh; subst hh
              exact ⟨newGroup s h, hnew, rfl, rfl⟩
            · obtain ⟨g, h1, h2, h3⟩ := hg.idxSound h' gid hh
              exact ⟨g, hold gid g h1, h2, h3⟩
          · intro gid g hh hd
            simp only [alook_cons]
            rcases happ gid g hh with h1 | ⟨h0, h1⟩
            · have := hg.idxComplete gid g h1 hd
              split
              · rename_i heq; rw [← heq] at this; rw [hlk] at this; cases this
              · exact this
            · subst h1; subst h0; simp [newGroup]
          · intro gid g hh hd e he
            rcases happ gid g hh with h1 | ⟨_, h1⟩
            · exact hg.latest gid g h1 hd e he
            · subst h1; simp [newGroup] at he
          · intro h' id' e hl hn
            obtain ⟨gid, g, h1, h2, h3⟩ := hg.notLost h' id' e hl hn
            refine ⟨gid, g, ?_, hold gid g h2, h3⟩
            simp only [alook_cons]
            split
            · rename_i heq; rw [← heq] at h1; rw [hlk] at h1; cases h1
            · exact h1
          · intro c h' gid hc; rw [hcg'] at hc; cases hc
          · intro t' h' gid id' a' ht
            obtain ⟨g, h1, h2⟩ := hg.thrUpd t' h' gid id' a' ht
            exact ⟨g, hold gid g h1, h2⟩
          · intro t' h' gid n ht
            obtain ⟨g, h1, h2⟩ := hg.thrGet t' h' gid n ht
            exact ⟨g, hold gid g h1, h2⟩
          · intro c gid hc hm
            obtain ⟨g, h1, h2⟩ := hg.ceTodo c gid hc hm
            exact ⟨g, hold gid g h1, h2⟩
          · intro c gid fl hc hm
            obtain ⟨g, h1, h2⟩ := hg.ceCur c gid fl hc hm
            exact ⟨g, hold gid g h1, h2⟩
          · show (((h, s.heap.length) :: s.index).map (·.1)).Nodup
            simp only [List.map_cons, List.nodup_cons]
            exact ⟨(alook_none_iff s.index h).mp hlk, hg.idxNodup⟩
        apply good_tset hg1
        · intro h' gid' id' a' heq
          cases heq
          exact ⟨newGroup s h, hnew, rfl⟩
        · intro _ _ _ heq; cases heq
  · exact hg


/-- replacing group `gid` by a group with the same hash and deleted flag whose list only lost
entries that are not fresh, or was updated -/
theorem good_updB {s : State} (hg : Good s) (t : Nat) : Good (updB s t) := by
  unfold updB
  split
  · rename_i h gid id a ht
    obtain ⟨g0, hg0, hh0⟩ := hg.thrUpd t h gid id a ht
    split
    · exact hg
    · rename_i g hgid
      have : g = g0 := by rw [hgid] at hg0; cases hg0; rfl
      subst this
      split
      · apply good_tset hg
        · intro _ _ _ _ heq; cases heq
        · intro _ _ _ heq; cases heq
      · rename_i hdel
        have hdel' : g.deleted = false := by simpa using hdel
        have hlt : gid < s.heap.length := (List.getElem?_eq_some_iff.mp hgid).1
        obtain ⟨u1, u2, u3, u4, u5, u6, u7⟩ := update_spec g id a (s.now + s.ttl) (hg.wf gid g hgid)
        generalize hg' : g.update id a (s.now + s.ttl) = g' at *
        have hidx : alook s.index h = some gid := hh0 ▸ hg.idxComplete gid g hgid hdel'
        have hnew : (s.heap.set gid g')[gid]? = some g' := by
          rw [List.getElem?_set]; simp [hlt]
        have hother : ∀ (j : Nat) (x : Group), j ≠ gid → s.heap[j]? = some x → (s.heap.set gid g')[j]? = some x := by
          intro j x hj hx; rw [List.getElem?_set]; simp [Ne.symm hj, hx]
        have hg1 : Good { s with heap := s.heap.set gid g',
                                 last := ((h, id), (⟨id, a, s.now + s.ttl⟩ : Entry)) :: s.last } := by
          refine ⟨?_, ?_, ?_, ?_, ?_, ?_, ?_, ?_, ?_, hg.excl, ?_, ?_, ?_, ?_, hg.idxNodup, (by
            intro j x hx hd
            rcases getElem?_set_cases _ _ _ _ _ hx with ⟨_, h1, _⟩ | ⟨_, h1⟩
            · subst h1; rw [u7, hdel'] at hd; cases hd
            · exact hg.delExp j x h1 hd)⟩
          · intro j x hx
            rcases getElem?_set_cases _ _ _ _ _ hx with ⟨_, h1, _⟩ | ⟨_, h1⟩
            · subst h1; exact u1
            · exact hg.wf j x h1
          · intro j x hx e he
            rcases getElem?_set_cases _ _ _ _ _ hx with ⟨_, h1, _⟩ | ⟨_, h1⟩
            · subst h1
              rw [u5]
              rcases u3 e he with h2 | ⟨h2, _⟩
              · subst h2; exact Nat.le_refl _
              · have := hg.expLe gid g hgid e h2
                have := hg.lastLe gid g hgid
                omega
            · exact hg.expLe j x h1 e he
          · intro j x hx
            rcases getElem?_set_cases _ _ _ _ _ hx with ⟨_, h1, _⟩ | ⟨_, h1⟩
            · subst h1; rw [u5]; exact Nat.le_refl _
            · exact hg.lastLe j x h1
          · intro h' j hh
            obtain ⟨x, h1, h2, h3⟩ := hg.idxSound h' j hh
            by_cases hj : j = gid
            · subst hj
              rw [hgid] at h1; cases h1
              exact ⟨g', hnew, u6.trans h2, u7.trans h3⟩
            · exact ⟨x, hother j x hj h1, h2, h3⟩
          · intro j x hx hd
            rcases getElem?_set_cases _ _ _ _ _ hx with ⟨hj, h1, _⟩ | ⟨_, h1⟩
            · subst h1; subst hj; rw [u6]; exact hg.idxComplete _ g hgid hdel'
            · exact hg.idxComplete j x h1 hd
          · intro j x hx hd e he
            rcases getElem?_set_cases _ _ _ _ _ hx with ⟨hj, h1, _⟩ | ⟨hj, h1⟩
            · subst h1; subst hj
              rw [u6, hh0]
              simp only [alook_cons]
              rcases u3 e he with h2 | ⟨h2, h3⟩
              · subst h2; simp
              · have hne : ¬ ((h, id) = (h, e.id)) := by
                  intro heq; exact h3 (by cases heq; rfl)
                rw [if_neg hne]
                have := hg.latest _ g hgid hdel' e h2
                rw [hh0] at this; exact this
            · have hlat := hg.latest j x h1 hd e he
              simp only [alook_cons]
              have hne : ¬ ((h, id) = (x.hash, e.id)) := by
                intro heq
                have hxh : x.hash = h := by cases heq; rfl
                have := hg.idxComplete j x h1 hd
                rw [hxh, hidx] at this
                cases this; exact hj rfl
              rw [if_neg hne]; exact hlat
          · intro h' id' e hl
            simp only [alook_cons] at hl
            split at hl
            · rename_i heq; cases heq; cases hl; rfl
            · exact hg.lastId h' id' e hl
          · intro h' id' e hl hn
            simp only [alook_cons] at hl
            split at hl
            · rename_i heq; cases heq; cases hl
              exact ⟨gid, g', hidx, hnew, u2⟩
            · rename_i hne
              obtain ⟨j, x, h1, h2, h3⟩ := hg.notLost h' id' e hl hn
              by_cases hj : j = gid
              · subst hj
                rw [hgid] at h2; cases h2
                refine ⟨_, g', h1, hnew, u4 e h3 ?_⟩
                have hid := hg.lastId h' id' e hl
                obtain ⟨_, hx1, hx2, _⟩ := hg.idxSound h' _ h1
                rw [hgid] at hx1; cases hx1
                intro heid
                apply hne
                rw [← hx2, hh0, ← hid, heid]
              · exact ⟨j, x, h1, hother j x hj h2, h3⟩
          · exact hg.cgCur
          · intro t' h' j id' a' ht'
            obtain ⟨x, h1, h2⟩ := hg.thrUpd t' h' j id' a' ht'
            by_cases hj : j = gid
            · subst hj; rw [hgid] at h1; cases h1; exact ⟨g', hnew, u6.trans h2⟩
            · exact ⟨x, hother j x hj h1, h2⟩
          · intro t' h' j n ht'
            obtain ⟨x, h1, h2⟩ := hg.thrGet t' h' j n ht'
            by_cases hj : j = gid
            · subst hj; rw [hgid] at h1; cases h1; exact ⟨g', hnew, u6.trans h2⟩
            · exact ⟨x, hother j x hj h1, h2⟩
          · intro c j hc hm
            obtain ⟨x, h1, h2⟩ := hg.ceTodo c j hc hm
            by_cases hj : j = gid
            · subst hj; rw [hgid] at h1; cases h1; exact ⟨g', hnew, u7.trans h2⟩
            · exact ⟨x, hother j x hj h1, h2⟩
          · intro c j fl hc hm
            obtain ⟨x, h1, h2⟩ := hg.ceCur c j fl hc hm
            by_cases hj : j = gid
            · subst hj; rw [hgid] at h1; cases h1; exact ⟨g', hnew, u7.trans h2⟩
            · exact ⟨x, hother j x hj h1, h2⟩
        apply good_tset hg1
        · intro _ _ _ _ heq; cases heq
        · intro _ _ _ heq; cases heq
  · exact hg


theorem good_ceBegin {s : State} (hg : Good s) : Good (ceBegin s) := by
  unfold ceBegin
  split
  · exact hg
  · rename_i hno
    have hcg : s.cg = none := by
      cases hc : s.cg with
      | none => rfl
      | some c => simp [hc] at hno
    refine ⟨hg.wf, hg.expLe, hg.lastLe, hg.idxSound, hg.idxComplete, hg.latest, hg.lastId, hg.notLost,
      hg.cgCur, fun _ => hcg, hg.thrUpd, hg.thrGet, ?_, ?_, hg.idxNodup, hg.delExp⟩
    · intro c gid hc hm
      simp only [Option.some.injEq] at hc
      subst hc
      obtain ⟨p, hp, hpe⟩ := List.mem_map.mp hm
      obtain ⟨ph, pg⟩ := p
      simp only at hpe; subst hpe
      obtain ⟨g, h1, _, h3⟩ := hg.idxSound ph pg (alook_of_mem_nodup _ _ _ hg.idxNodup hp)
      exact ⟨g, h1, h3⟩
    · intro c gid fl hc hm
      simp only [Option.some.injEq] at hc
      subst hc; cases hm


theorem good_ceScan {s : State} (hg : Good s) (gid : Nat) (flags : List Nat) : Good (ceScan s gid flags) := by
  unfold ceScan
  split
  · rename_i c hce
    split
    · rename_i hcond
      refine ⟨hg.wf, hg.expLe, hg.lastLe, hg.idxSound, hg.idxComplete, hg.latest, hg.lastId, hg.notLost,
        hg.cgCur, fun _ => hg.excl (by simp [hce]), hg.thrUpd, hg.thrGet, ?_, ?_, hg.idxNodup, hg.delExp⟩
      · intro c' j hc hm
        simp only [Option.some.injEq] at hc
        subst hc
        exact hg.ceTodo c j hce (List.mem_of_mem_erase hm)
      · intro c' j fl hc hm
        simp only [Option.some.injEq] at hc
        subst hc
        simp only [Option.some.injEq, Prod.mk.injEq] at hm
        obtain ⟨hj, _⟩ := hm
        subst hj
        exact hg.ceTodo c _ hce hcond.2
    · exact hg
  · exact hg

theorem good_ceEnd {s : State} (hg : Good s) : Good (ceEnd s) := by
  unfold ceEnd
  split
  · split
    · refine ⟨hg.wf, hg.expLe, hg.lastLe, hg.idxSound, hg.idxComplete, hg.latest, hg.lastId, hg.notLost,
        hg.cgCur, ?_, hg.thrUpd, hg.thrGet, ?_, ?_, hg.idxNodup, hg.delExp⟩
      · intro h; simp at h
      · intro c j hc; simp at hc
      · intro c j fl hc; simp at hc
    · exact hg
  · exact hg

theorem good_cgBegin {s : State} (hg : Good s) : Good (cgBegin s) := by
  unfold cgBegin
  split
  · exact hg
  · rename_i hno
    have hce : s.ce = none := by
      cases hc : s.ce with
      | none => rfl
      | some c => simp [hc] at hno
    refine ⟨hg.wf, hg.expLe, hg.lastLe, hg.idxSound, hg.idxComplete, hg.latest, hg.lastId, hg.notLost,
      ?_, ?_, hg.thrUpd, hg.thrGet, ?_, ?_, hg.idxNodup, hg.delExp⟩
    · intro c h gid hc hcur
      simp only [Option.some.injEq] at hc
      subst hc; cases hcur
    · intro h; simp [hce] at h
    · intro c j hc; simp [hce] at hc
    · intro c j fl hc; simp [hce] at hc

theorem good_cgEnd {s : State} (hg : Good s) : Good (cgEnd s) := by
  unfold cgEnd
  split
  · split
    · refine ⟨hg.wf, hg.expLe, hg.lastLe, hg.idxSound, hg.idxComplete, hg.latest, hg.lastId, hg.notLost,
        ?_, fun _ => rfl, hg.thrUpd, hg.thrGet, hg.ceTodo, hg.ceCur, hg.idxNodup, hg.delExp⟩
      intro c h gid hc; simp at hc
    · exact hg
  · exact hg

theorem good_cgCheck {s : State} (hg : Good s) (h : Hash) : Good (cgCheck s h) := by
  unfold cgCheck
  split
  · rename_i c hcg
    have hce : s.ce = none := by
      cases hc : s.ce with
      | none => rfl
      | some c' => have := hg.excl (by simp [hc]); rw [hcg] at this; cases this
    split
    · rename_i hcond
      split
      · rename_i gid hlk
        split
        · rename_i g hgid
          split
          · refine ⟨hg.wf, hg.expLe, hg.lastLe, hg.idxSound, hg.idxComplete, hg.latest, hg.lastId, hg.notLost,
              ?_, ?_, hg.thrUpd, hg.thrGet, hg.ceTodo, hg.ceCur, hg.idxNodup, hg.delExp⟩
            · intro c' h' gid' hc hcur
              simp only [Option.some.injEq] at hc
              subst hc
              have hcn : c.cur = none := by
                cases hcc : c.cur <;> simp_all
              simp [hcn] at hcur
            · intro hh; simp [hce] at hh
          · refine ⟨hg.wf, hg.expLe, hg.lastLe, hg.idxSound, hg.idxComplete, hg.latest, hg.lastId, hg.notLost,
              ?_, ?_, hg.thrUpd, hg.thrGet, hg.ceTodo, hg.ceCur, hg.idxNodup, hg.delExp⟩
            · intro c' h' gid' hc hcur
              simp only [Option.some.injEq] at hc
              subst hc
              simp only [Option.some.injEq, Prod.mk.injEq] at hcur
              obtain ⟨h1, h2⟩ := hcur
              subst h1; subst h2; exact hlk
            · intro hh; simp [hce] at hh
        · exact hg
      · exact hg
    · exact hg
  · exact hg


theorem good_ceSweep {s : State} (hg : Good s) : Good (ceSweep s) := by
  unfold ceSweep
  split
  · rename_i c hce
    have hcgn : s.cg = none := hg.excl (by simp [hce])
    -- clearing `cur` alone
    have hclear : Good { s with ce := some { c with cur := none } } := by
      refine ⟨hg.wf, hg.expLe, hg.lastLe, hg.idxSound, hg.idxComplete, hg.latest, hg.lastId, hg.notLost,
        hg.cgCur, fun _ => hcgn, hg.thrUpd, hg.thrGet, ?_, ?_, hg.idxNodup, hg.delExp⟩
      · intro c' j hc hm
        simp only [Option.some.injEq] at hc
        subst hc
        exact hg.ceTodo c j hce hm
      · intro c' j fl hc hm
        simp only [Option.some.injEq] at hc
        subst hc; cases hm
    split
    · rename_i gid flags hcur
      split
      · rename_i g hgid
        obtain ⟨w, sub, keep⟩ := sweep_spec s.now g.list g.keys flags (hg.wf gid g hgid)
        generalize hr : sweep s.now g.list g.keys flags = r at *
        have hlt : gid < s.heap.length := (List.getElem?_eq_some_iff.mp hgid).1
        show Good { s with heap := s.heap.set gid { g with list := r.1, keys := r.2 },
                           ce := some { c with cur := none } }
        generalize hg' : ({ g with list := r.1, keys := r.2 } : Group) = g'
        have e1 : g'.list = r.1 := by subst hg'; rfl
        have e2 : g'.keys = r.2 := by subst hg'; rfl
        have e3 : g'.hash = g.hash := by subst hg'; rfl
        have e4 : g'.deleted = g.deleted := by subst hg'; rfl
        have e5 : g'.lastExp = g.lastExp := by subst hg'; rfl
        have hnew : (s.heap.set gid g')[gid]? = some g' := by
          rw [List.getElem?_set]; simp [hlt]
        have hother : ∀ (j : Nat) (x : Group), j ≠ gid → s.heap[j]? = some x → (s.heap.set gid g')[j]? = some x := by
          intro j x hj hx; rw [List.getElem?_set]; simp [Ne.symm hj, hx]
        refine ⟨?_, ?_, ?_, ?_, ?_, ?_, hg.lastId, ?_, hg.cgCur, fun _ => hcgn, ?_, ?_, ?_, ?_, hg.idxNodup, (by
          intro j x hx hd
          rcases getElem?_set_cases _ _ _ _ _ hx with ⟨_, h1, _⟩ | ⟨_, h1⟩
          · subst h1; rw [e5]; rw [e4] at hd; exact hg.delExp gid g hgid hd
          · exact hg.delExp j x h1 hd)⟩
        · intro j x hx
          rcases getElem?_set_cases _ _ _ _ _ hx with ⟨_, h1, _⟩ | ⟨_, h1⟩
          · subst h1; rw [e1, e2]; exact w
          · exact hg.wf j x h1
        · intro j x hx e he
          rcases getElem?_set_cases _ _ _ _ _ hx with ⟨_, h1, _⟩ | ⟨_, h1⟩
          · subst h1; rw [e5]; rw [e1] at he; exact hg.expLe gid g hgid e (sub e he)
          · exact hg.expLe j x h1 e he
        · intro j x hx
          rcases getElem?_set_cases _ _ _ _ _ hx with ⟨_, h1, _⟩ | ⟨_, h1⟩
          · subst h1; rw [e5]; exact hg.lastLe gid g hgid
          · exact hg.lastLe j x h1
        · intro h' j hh
          obtain ⟨x, h1, h2, h3⟩ := hg.idxSound h' j hh
          by_cases hj : j = gid
          · subst hj; rw [hgid] at h1; cases h1
            exact ⟨g', hnew, e3.trans h2, e4.trans h3⟩
          · exact ⟨x, hother j x hj h1, h2, h3⟩
        · intro j x hx hd
          rcases getElem?_set_cases _ _ _ _ _ hx with ⟨hj, h1, _⟩ | ⟨_, h1⟩
          · subst h1; subst hj; rw [e3]; rw [e4] at hd; exact hg.idxComplete _ g hgid hd
          · exact hg.idxComplete j x h1 hd
        · intro j x hx hd e he
          rcases getElem?_set_cases _ _ _ _ _ hx with ⟨hj, h1, _⟩ | ⟨_, h1⟩
          · subst h1; subst hj; rw [e3]; rw [e4] at hd; rw [e1] at he
            exact hg.latest _ g hgid hd e (sub e he)
          · exact hg.latest j x h1 hd e he
        · intro h' id' e hl hn
          obtain ⟨j, x, h1, h2, h3⟩ := hg.notLost h' id' e hl hn
          by_cases hj : j = gid
          · subst hj; rw [hgid] at h2; cases h2
            refine ⟨_, g', h1, hnew, ?_⟩
            rw [e1]
            rcases keep e h3 with h4 | h4
            · exact h4
            · have : s.now < e.exp := hn
              omega
          · exact ⟨j, x, h1, hother j x hj h2, h3⟩
        · intro t' h' j id' a' ht'
          obtain ⟨x, h1, h2⟩ := hg.thrUpd t' h' j id' a' ht'
          by_cases hj : j = gid
          · subst hj; rw [hgid] at h1; cases h1; exact ⟨g', hnew, e3.trans h2⟩
          · exact ⟨x, hother j x hj h1, h2⟩
        · intro t' h' j n ht'
          obtain ⟨x, h1, h2⟩ := hg.thrGet t' h' j n ht'
          by_cases hj : j = gid
          · subst hj; rw [hgid] at h1; cases h1; exact ⟨g', hnew, e3.trans h2⟩
          · exact ⟨x, hother j x hj h1, h2⟩
        · intro c' j hc hm
          simp only [Option.some.injEq] at hc
          subst hc
          obtain ⟨x, h1, h2⟩ := hg.ceTodo c j hce hm
          by_cases hj : j = gid
          · subst hj; rw [hgid] at h1; cases h1; exact ⟨g', hnew, e4.trans h2⟩
          · exact ⟨x, hother j x hj h1, h2⟩
        · intro c' j fl hc hm
          simp only [Option.some.injEq] at hc
          subst hc; cases hm
      · exact hclear
    · exact hg
  · exact hg

theorem good_cgDelete {s : State} (hg : Good s) : Good (cgDelete s) := by
  unfold cgDelete
  split
  · rename_i c hcg
    have hce : s.ce = none := by
      cases hc : s.ce with
      | none => rfl
      | some c' => have := hg.excl (by simp [hc]); rw [hcg] at this; cases this
    have hclear : Good { s with cg := some { c with cur := none } } := by
      refine ⟨hg.wf, hg.expLe, hg.lastLe, hg.idxSound, hg.idxComplete, hg.latest, hg.lastId, hg.notLost,
        ?_, ?_, hg.thrUpd, hg.thrGet, hg.ceTodo, hg.ceCur, hg.idxNodup, hg.delExp⟩
      · intro c' h' j hc hcur
        simp only [Option.some.injEq] at hc
        subst hc; cases hcur
      · intro hh; simp [hce] at hh
    split
    · rename_i h gid hcur
      have hidx := hg.cgCur c h gid hcg hcur
      split
      · rename_i g hgid
        obtain ⟨g0, hg0, hh0, hd0⟩ := hg.idxSound h gid hidx
        have : g0 = g := by rw [hgid] at hg0; cases hg0; rfl
        subst this
        split
        · rename_i hexp
          have hlt : gid < s.heap.length := (List.getElem?_eq_some_iff.mp hgid).1
          generalize hg' : ({ g0 with deleted := true } : Group) = g'
          have e1 : g'.list = g0.list := by subst hg'; rfl
          have e3 : g'.hash = g0.hash := by subst hg'; rfl
          have e4 : g'.deleted = true := by subst hg'; rfl
          have e5 : g'.lastExp = g0.lastExp := by subst hg'; rfl
          have e2 : g'.keys = g0.keys := by subst hg'; rfl
          have hnew : (s.heap.set gid g')[gid]? = some g' := by
            rw [List.getElem?_set]; simp [hlt]
          have hother : ∀ (j : Nat) (x : Group), j ≠ gid → s.heap[j]? = some x → (s.heap.set gid g')[j]? = some x := by
            intro j x hj hx; rw [List.getElem?_set]; simp [Ne.symm hj, hx]
          refine ⟨?_, ?_, ?_, ?_, ?_, ?_, hg.lastId, ?_, ?_, ?_, ?_, ?_, ?_, ?_, ?_, (by
            intro j x hx hd
            rcases getElem?_set_cases _ _ _ _ _ hx with ⟨_, h1, _⟩ | ⟨_, h1⟩
            · subst h1; rw [e5]; exact hexp
            · exact hg.delExp j x h1 hd)⟩
          · intro j x hx
            rcases getElem?_set_cases _ _ _ _ _ hx with ⟨_, h1, _⟩ | ⟨_, h1⟩
            · subst h1; rw [e1, e2]; exact hg.wf gid g0 hgid
            · exact hg.wf j x h1
          · intro j x hx e he
            rcases getElem?_set_cases _ _ _ _ _ hx with ⟨_, h1, _⟩ | ⟨_, h1⟩
            · subst h1; rw [e5]; rw [e1] at he; exact hg.expLe gid g0 hgid e he
            · exact hg.expLe j x h1 e he
          · intro j x hx
            rcases getElem?_set_cases _ _ _ _ _ hx with ⟨_, h1, _⟩ | ⟨_, h1⟩
            · subst h1; rw [e5]; exact hg.lastLe gid g0 hgid
            · exact hg.lastLe j x h1
          · intro h' j hh
            show ∃ x, (s.heap.set gid g')[j]? = some x ∧ x.hash = h' ∧ x.deleted = false
            have hh' : alook (adel s.index h) h' = some j := hh
            rw [alook_adel] at hh'
            split at hh'
            · cases hh'
            · rename_i hne
              obtain ⟨x, h1, h2, h3⟩ := hg.idxSound h' j hh'
              have hj : j ≠ gid := by
                intro e; subst e; rw [hgid] at h1; cases h1; exact hne (hh0.symm.trans h2)
              exact ⟨x, hother j x hj h1, h2, h3⟩
          · intro j x hx hd
            show alook (adel s.index h) x.hash = some j
            rcases getElem?_set_cases _ _ _ _ _ hx with ⟨_, h1, _⟩ | ⟨hj, h1⟩
            · subst h1; rw [e4] at hd; cases hd
            · have := hg.idxComplete j x h1 hd
              rw [alook_adel]
              split
              · rename_i heq; rw [← heq, hidx] at this; cases this; exact absurd rfl hj
              · exact this
          · intro j x hx hd e he
            rcases getElem?_set_cases _ _ _ _ _ hx with ⟨_, h1, _⟩ | ⟨_, h1⟩
            · subst h1; rw [e4] at hd; cases hd
            · exact hg.latest j x h1 hd e he
          · intro h' id' e hl hn
            obtain ⟨j, x, h1, h2, h3⟩ := hg.notLost h' id' e hl hn
            by_cases hj : j = gid
            · subst hj; rw [hgid] at h2; cases h2
              have := hg.expLe _ g0 hgid e h3
              have : s.now < e.exp := hn
              omega
            · refine ⟨j, x, ?_, hother j x hj h2, h3⟩
              show alook (adel s.index h) h' = some j
              rw [alook_adel]
              split
              · rename_i heq; rw [← heq, hidx] at h1; cases h1; exact absurd rfl hj
              · exact h1
          · intro c' h' j hc hcur
            simp only [Option.some.injEq] at hc
            subst hc; cases hcur
          · intro hh; simp [hce] at hh
          · intro t' h' j id' a' ht'
            obtain ⟨x, h1, h2⟩ := hg.thrUpd t' h' j id' a' ht'
            by_cases hj : j = gid
            · subst hj; rw [hgid] at h1; cases h1; exact ⟨g', hnew, e3.trans h2⟩
            · exact ⟨x, hother j x hj h1, h2⟩
          · intro t' h' j n ht'
            obtain ⟨x, h1, h2⟩ := hg.thrGet t' h' j n ht'
            by_cases hj : j = gid
            · subst hj; rw [hgid] at h1; cases h1; exact ⟨g', hnew, e3.trans h2⟩
            · exact ⟨x, hother j x hj h1, h2⟩
          · intro c' j hc; simp [hce] at hc
          · intro c' j fl hc; simp [hce] at hc
          · show ((adel s.index h).map (·.1)).Nodup
            exact (List.filter_sublist.map _).nodup hg.idxNodup
        · exact hclear
      · exact hclear
    · exact hg
  · exact hg

theorem step_good (s : State) (a : Act) (hg : Good s) : Good (step s a) := by
  cases a with
  | adv d => exact good_adv hg d
  | updCall t h id a =>
    simp only [step]
    split
    · apply good_tset hg
      · intro _ _ _ _ heq; cases heq
      · intro _ _ _ heq; cases heq
    · exact hg
  | updA t => exact good_updA hg t
  | updB t => exact good_updB hg t
  | getA t h n =>
    simp only [step, getA]
    split
    · split
      · exact hg
      · split
        · rename_i gid hlk
          apply good_tset hg
          · intro _ _ _ _ heq; cases heq
          · intro h' gid' n' heq
            cases heq
            obtain ⟨g, h1, h2, _⟩ := hg.idxSound h gid hlk
            exact ⟨g, h1, h2⟩
        · exact hg
    · exact hg
  | getB t perm =>
    simp only [step, getB]
    split
    · apply good_tset hg
      · intro _ _ _ _ heq; cases heq
      · intro _ _ _ heq; cases heq
    · exact hg
  | ceBegin => exact good_ceBegin hg
  | ceScan gid flags => exact good_ceScan hg gid flags
  | ceSweep => exact good_ceSweep hg
  | ceEnd => exact good_ceEnd hg
  | cgBegin => exact good_cgBegin hg
  | cgCheck h => exact good_cgCheck hg h
  | cgDelete => exact good_cgDelete hg
  | cgEnd => exact good_cgEnd hg


/-! ### GetPeers selection -/

theorem takeCount_le (len : Nat) (n : Int) : takeCount len n ≤ len ∧ ((takeCount len n : Nat) : Int) ≤ max n 0 := by
  unfold takeCount
  split <;> omega

theorem pick_length (l : List Entry) (n : Int) (perm : List Nat) :
    ((pick l n perm).length : Int) ≤ max n 0 ∧ (pick l n perm).length ≤ l.length := by
  have h1 : (pick l n perm).length ≤ takeCount l.length n := by
    unfold pick
    exact Nat.le_trans (List.length_filterMap_le _ _) (List.length_take_le _ _)
  have := takeCount_le l.length n
  omega

theorem pick_mem (l : List Entry) (n : Int) (perm : List Nat) (x : Info) (hx : x ∈ pick l n perm) :
    ∃ e, e ∈ l ∧ x = e.info := by
  unfold pick at hx
  obtain ⟨i, _, hi⟩ := List.mem_filterMap.mp hx
  cases hli : l[i]? with
  | none => simp [hli] at hi
  | some e =>
    simp [hli] at hi
    exact ⟨e, List.mem_of_getElem? hli, hi.symm⟩

theorem filterMap_ids_nodup (l : List Entry) (hn : (l.map (·.id)).Nodup) :
    ∀ (idxs : List Nat), idxs.Nodup →
      ((idxs.filterMap (fun i => l[i]?.map Entry.info)).map (·.id)).Nodup := by
  intro idxs
  induction idxs with
  | nil => intro _; simp
  | cons i rest ih =>
    intro hnd
    obtain ⟨hi, hrest⟩ := List.nodup_cons.mp hnd
    simp only [List.filterMap_cons]
    cases hli : l[i]? with
    | none => simpa [hli] using ih hrest
    | some e =>
      simp only [Option.map_some, List.map_cons, List.nodup_cons]
      refine ⟨?_, ih hrest⟩
      intro hmem
      obtain ⟨x, hx, hxid⟩ := List.mem_map.mp hmem
      obtain ⟨j, hj, hjx⟩ := List.mem_filterMap.mp hx
      cases hlj : l[j]? with
      | none => simp [hlj] at hjx
      | some e' =>
        simp [hlj] at hjx
        subst hjx
        have hid : e'.id = e.id := hxid
        obtain ⟨hilt, hie⟩ := List.getElem?_eq_some_iff.mp hli
        obtain ⟨hjlt, hje⟩ := List.getElem?_eq_some_iff.mp hlj
        have : (l.map (·.id))[j]'(by simpa using hjlt) = (l.map (·.id))[i]'(by simpa using hilt) := by
          simp [hie, hje, hid]
        have hji : j = i := (List.getElem_inj hn).mp this
        subst hji
        exact hi hj

theorem pick_ids_nodup (l : List Entry) (n : Int) (perm : List Nat) (hn : (l.map (·.id)).Nodup)
    (hp : perm.Perm (List.range l.length)) : ((pick l n perm).map (·.id)).Nodup := by
  unfold pick
  apply filterMap_ids_nodup l hn
  have : perm.Nodup := hp.nodup_iff.mpr List.nodup_range
  exact this.sublist (List.take_sublist _ _)

/-- asking for at least as many peers as are stored returns all of them -/
theorem pick_all (l : List Entry) (n : Int) (perm : List Nat) (hn : (l.length : Int) ≤ n)
    (hp : perm.Perm (List.range l.length)) : ∀ e, e ∈ l → e.info ∈ pick l n perm := by
  intro e he
  unfold pick
  have htc : takeCount l.length n = l.length := by unfold takeCount; split <;> omega
  have hlen : perm.length = l.length := by simpa using hp.length_eq
  rw [htc, ← hlen, List.take_length]
  obtain ⟨i, hi, hie⟩ := List.getElem_of_mem he
  refine List.mem_filterMap.mpr ⟨i, hp.mem_iff.mpr (List.mem_range.mpr hi), ?_⟩
  simp [List.getElem?_eq_getElem hi, hie]


/-! ### the ghost record only grows -/

theorem step_last (s : State) (a : Act) :
    (step s a).last = s.last ∨ ∃ kv, (step s a).last = kv :: s.last := by
  cases a <;>
    simp only [step, updA, updB, getA, getB, ceBegin, ceScan, ceSweep, ceEnd, cgBegin, cgCheck, cgDelete,
      cgEnd, tset] <;>
    (repeat' split) <;>
    first
      | exact Or.inl rfl
      | exact Or.inr ⟨_, rfl⟩
      | exact Or.inl trivial

theorem last_mono (s : State) (a : Act) (k : Hash × Pid) (e : Entry) (h : alook s.last k = some e) :
    ∃ e', alook (step s a).last k = some e' := by
  rcases step_last s a with h1 | ⟨⟨k', v⟩, h1⟩
  · rw [h1]; exact ⟨e, h⟩
  · rw [h1, alook_cons]
    split
    · exact ⟨v, rfl⟩
    · exact ⟨e, h⟩


/-! ### lookups in progress: linearisation support -/

theorem tget_thr_eq {s s' : State} (h : s'.thr = s.thr) (t : Nat) : tget s' t = tget s t := by
  unfold tget; rw [h]

/-- a thread is in `getHold h gid n` after a step only if it was before, or it has just looked the
live group of `h` up (and that step did not touch the heap) -/
theorem getHold_entry (s : State) (a : Act) (t : Nat) (h : Hash) (gid : Nat) (n : Int)
    (hh : tget (step s a) t = .getHold h gid n) :
    tget s t = .getHold h gid n ∨ (alook s.index h = some gid ∧ (step s a).heap = s.heap) := by
  cases a with
  | adv d => exact Or.inl hh
  | updCall t' h' id a =>
    simp only [step] at hh
    split at hh
    · rw [tget_tset] at hh; split at hh
      · cases hh
      · exact Or.inl hh
    · exact Or.inl hh
  | updA t' =>
    simp only [step, updA] at hh
    split at hh
    · split at hh
      · exact Or.inl hh
      · split at hh
        · rw [tget_tset] at hh; split at hh
          · cases hh
          · exact Or.inl hh
        · rw [tget_tset] at hh; split at hh
          · cases hh
          · exact Or.inl hh
    · exact Or.inl hh
  | updB t' =>
    simp only [step, updB] at hh
    split at hh
    · split at hh
      · exact Or.inl hh
      · split at hh
        · rw [tget_tset] at hh; split at hh
          · cases hh
          · exact Or.inl hh
        · rw [tget_tset] at hh; split at hh
          · cases hh
          · exact Or.inl hh
    · exact Or.inl hh
  | getA t' h' n' =>
    simp only [step, getA] at hh ⊢
    split at hh
    · split at hh
      · exact Or.inl hh
      · split at hh
        · rename_i gid' hlk
          rw [tget_tset] at hh; split at hh
          · cases hh
            right
            refine ⟨hlk, ?_⟩
            rename_i hidle _ _
            simp [*, tset]
          · exact Or.inl hh
        · exact Or.inl hh
    · exact Or.inl hh
  | getB t' perm =>
    simp only [step, getB] at hh
    split at hh
    · rw [tget_tset] at hh; split at hh
      · cases hh
      · exact Or.inl hh
    · exact Or.inl hh
  | ceBegin => simp only [step, ceBegin] at hh; split at hh <;> exact Or.inl hh
  | ceScan g fl =>
    simp only [step, ceScan] at hh
    split at hh
    · split at hh <;> exact Or.inl hh
    · exact Or.inl hh
  | ceSweep =>
    simp only [step, ceSweep] at hh
    split at hh
    · split at hh
      · split at hh <;> exact Or.inl hh
      · exact Or.inl hh
    · exact Or.inl hh
  | ceEnd =>
    simp only [step, ceEnd] at hh
    split at hh
    · split at hh <;> exact Or.inl hh
    · exact Or.inl hh
  | cgBegin => simp only [step, cgBegin] at hh; split at hh <;> exact Or.inl hh
  | cgCheck h' =>
    simp only [step, cgCheck] at hh
    split at hh
    · split at hh
      · split at hh
        · split at hh
          · split at hh <;> exact Or.inl hh
          · exact Or.inl hh
        · exact Or.inl hh
      · exact Or.inl hh
    · exact Or.inl hh
  | cgDelete =>
    simp only [step, cgDelete] at hh
    split at hh
    · split at hh
      · split at hh
        · split at hh <;> exact Or.inl hh
        · exact Or.inl hh
      · exact Or.inl hh
    · exact Or.inl hh
  | cgEnd =>
    simp only [step, cgEnd] at hh
    split at hh
    · split at hh <;> exact Or.inl hh
    · exact Or.inl hh


set_option hygiene false in
local macro "same_heap" : tactic =>
  `(tactic| first
    | (rw [h0] at h1; cases h1; rfl)
    | (simp only [tset] at h1; rw [h0] at h1; cases h1; rfl))

/-- the list of a group object that is deleted after a step is the list it had before the step:
deleted groups are frozen, and the deleting step itself does not touch the list -/
theorem deleted_list_stable (s : State) (a : Act) (hg : Good s) (gid : Nat) (g g' : Group)
    (h0 : s.heap[gid]? = some g) (h1 : (step s a).heap[gid]? = some g') (hd : g'.deleted = true) :
    g'.list = g.list := by
  have same : (step s a).heap = s.heap → g'.list = g.list := by
    intro he; rw [he, h0] at h1; cases h1; rfl
  cases a with
  | adv d => exact same rfl
  | updCall t' h' id a => simp only [step] at h1 ⊢; split at h1 <;> same_heap
  | updA t' =>
    simp only [step, updA] at h1
    split at h1
    · split at h1
      · same_heap
      · split at h1
        · same_heap
        · have hlt : gid < s.heap.length := (List.getElem?_eq_some_iff.mp h0).1
          simp only [tset] at h1
          rw [List.getElem?_append_left hlt, h0] at h1; cases h1; rfl
    · same_heap
  | updB t' =>
    simp only [step, updB] at h1
    split at h1
    · rename_i hh gid' id' a' ht
      split at h1
      · same_heap
      · rename_i gx hgx
        split at h1
        · same_heap
        · rename_i hdel
          simp only [tset] at h1
          rcases getElem?_set_cases _ _ _ _ _ h1 with ⟨_, e1, _⟩ | ⟨_, e1⟩
          · subst e1
            have u := update_spec gx id' a' (s.now + s.ttl) (hg.wf gid' gx hgx)
            rw [u.2.2.2.2.2.2] at hd
            simp [hd] at hdel
          · rw [h0] at e1; cases e1; rfl
    · same_heap
  | getA t' h' n' =>
    simp only [step, getA] at h1
    split at h1
    · split at h1
      · same_heap
      · split at h1 <;> same_heap
    · same_heap
  | getB t' perm =>
    simp only [step, getB] at h1
    split at h1 <;> same_heap
  | ceBegin => simp only [step, ceBegin] at h1; split at h1 <;> same_heap
  | ceScan gx fl =>
    simp only [step, ceScan] at h1
    split at h1
    · split at h1 <;> same_heap
    · same_heap
  | ceSweep =>
    simp only [step, ceSweep] at h1
    split at h1
    · rename_i c hce
      split at h1
      · rename_i gid' fl hcur
        split at h1
        · rename_i gx hgx
          simp only at h1
          rcases getElem?_set_cases _ _ _ _ _ h1 with ⟨hj, e1, _⟩ | ⟨_, e1⟩
          · subst e1
            obtain ⟨gy, hy1, hy2⟩ := hg.ceCur c gid' fl hce hcur
            rw [hgx] at hy1; cases hy1
            simp only at hd
            rw [hy2] at hd; cases hd
          · rw [h0] at e1; cases e1; rfl
        · same_heap
      · same_heap
    · same_heap
  | ceEnd =>
    simp only [step, ceEnd] at h1
    split at h1
    · split at h1 <;> same_heap
    · same_heap
  | cgBegin => simp only [step, cgBegin] at h1; split at h1 <;> same_heap
  | cgCheck h' =>
    simp only [step, cgCheck] at h1
    split at h1
    · split at h1
      · split at h1
        · split at h1
          · split at h1 <;> same_heap
          · same_heap
        · same_heap
      · same_heap
    · same_heap
  | cgDelete =>
    simp only [step, cgDelete] at h1
    split at h1
    · split at h1
      · split at h1
        · rename_i gx hgx
          split at h1
          · simp only at h1
            rcases getElem?_set_cases _ _ _ _ _ h1 with ⟨hj, e1, _⟩ | ⟨_, e1⟩
            · subst e1; subst hj
              rw [h0] at hgx; cases hgx; rfl
            · rw [h0] at e1; cases e1; rfl
          · same_heap
        · same_heap
      · same_heap
    · same_heap
  | cgEnd =>
    simp only [step, cgEnd] at h1
    split at h1
    · split at h1 <;> same_heap
    · same_heap

end KrakenModel.Proof.C27
